(* C24/ProofsDom.v -- correctness and termination of the iterative dominator
   computation modelled in C24/Model.v (DominanceInfo, xdsl/irdl/dominance.py). *)
From Coq Require Import List Arith Bool Lia.
From XV Require Import C24.Model.
Import ListNotations.

(* ------------------------------------------------------------------ *)
(* graph-theoretic spec *)
(* path g a l b: l lists the vertices from a to b inclusive *)
Inductive path (g : cfg) : nat -> list nat -> nat -> Prop :=
| path_nil a : a < length g -> path g a [a] a
| path_step a l b c : path g a l b -> In c (succs g b) -> path g a (l ++ [c]) c.
Definition reachable (g : cfg) (b : nat) : Prop := exists l, path g 0 l b.
Definition dom_spec (g : cfg) (a b : nat) : Prop := forall l, path g 0 l b -> In a l.

(* ------------------------------------------------------------------ *)
(* bit-vector lemmas *)

Lemma nth_repeat_lt {A} (x dft : A) m b : b < m -> nth b (repeat x m) dft = x.
Proof.
  revert b; induction m as [|m IH]; intros [|b] H; simpl; try lia; auto.
  apply IH; lia.
Qed.

Lemma bs_mem_all n a : a < n -> bs_mem (bs_all n) a = true.
Proof. intros H. unfold bs_mem, bs_all. apply nth_repeat_lt; auto. Qed.

Lemma bs_all_length n : length (bs_all n) = n.
Proof. apply repeat_length. Qed.

Lemma bs_inter_length s t : length (bs_inter s t) = Nat.min (length s) (length t).
Proof. unfold bs_inter. rewrite map_length, combine_length. reflexivity. Qed.

Lemma bs_mem_inter s t a : bs_mem (bs_inter s t) a = bs_mem s a && bs_mem t a.
Proof.
  unfold bs_mem, bs_inter. revert t a.
  induction s as [|x s IH]; intros [|y t] [|a]; simpl; auto;
    try (symmetry; apply andb_false_r).
Qed.

Lemma bs_add_length b s : length (bs_add b s) = length s.
Proof.
  unfold bs_add. rewrite map_length, combine_length, seq_length. apply Nat.min_id.
Qed.

Lemma bs_mem_add_gen b s : forall k a, a < length s ->
  nth a (map (fun p => orb (Nat.eqb (fst p) b) (snd p)) (combine (seq k (length s)) s)) false
  = ((k + a) =? b) || nth a s false.
Proof.
  induction s as [|x s IH]; intros k [|a] H; simpl in *; try lia.
  - rewrite Nat.add_0_r. reflexivity.
  - rewrite IH by lia. replace (S k + a) with (k + S a) by lia. reflexivity.
Qed.

Lemma bs_mem_add b s a : a < length s -> bs_mem (bs_add b s) a = (a =? b) || bs_mem s a.
Proof.
  intros H. unfold bs_mem, bs_add. rewrite bs_mem_add_gen by auto. reflexivity.
Qed.

Lemma bs_single_length n b : length (bs_single n b) = n.
Proof. unfold bs_single. rewrite map_length, seq_length. reflexivity. Qed.

Lemma bs_mem_single n b a : a < n -> bs_mem (bs_single n b) a = (b =? a).
Proof.
  intros H. unfold bs_mem, bs_single.
  rewrite nth_indep with (d' := Nat.eqb b 0) by (rewrite map_length, seq_length; auto).
  rewrite map_nth, seq_nth by auto. reflexivity.
Qed.

Lemma bs_eqb_eq s t : bs_eqb s t = true -> s = t.
Proof.
  revert t; induction s as [|x s IH]; intros [|y t] H; simpl in H; try discriminate; auto.
  apply andb_true_iff in H as [H1 H2]. apply eqb_prop in H1. f_equal; auto.
Qed.

Lemma fold_mem (d : dom_state) n ps a : a < n ->
  bs_mem (fold_right (fun p acc => bs_inter (dget d p) acc) (bs_all n) ps) a
  = forallb (fun p => bs_mem (dget d p) a) ps.
Proof.
  intros H. induction ps as [|p ps IH]; simpl.
  - apply bs_mem_all; auto.
  - rewrite bs_mem_inter, IH. reflexivity.
Qed.

Lemma fold_len (d : dom_state) n ps : (forall p, In p ps -> length (dget d p) = n) ->
  length (fold_right (fun p acc => bs_inter (dget d p) acc) (bs_all n) ps) = n.
Proof.
  intros H. induction ps as [|p ps IH]; simpl.
  - apply bs_all_length.
  - rewrite bs_inter_length, IH, H by (simpl in *; auto). apply Nat.min_id.
Qed.

Lemma forallb_false_ex {A} (f : A -> bool) l : forallb f l = false -> exists x, In x l /\ f x = false.
Proof.
  induction l as [|x l IH]; simpl; intros H; try discriminate.
  apply andb_false_iff in H as [H|H].
  - exists x; auto.
  - destruct (IH H) as [y [Hy1 Hy2]]. exists y; auto.
Qed.

(* lset *)
Lemma lset_length {A} i (v : A) l : length (lset i v l) = length l.
Proof. revert i; induction l as [|x l IH]; intros [|i]; simpl; auto. Qed.

Lemma nth_lset_eq {A} i (v : A) l dft : i < length l -> nth i (lset i v l) dft = v.
Proof.
  revert i; induction l as [|x l IH]; intros [|i] H; simpl in *; try lia; auto.
  apply IH; lia.
Qed.

Lemma nth_lset_neq {A} i j (v : A) l dft : i <> j -> nth j (lset i v l) dft = nth j l dft.
Proof.
  revert i j; induction l as [|x l IH]; intros [|i] [|j] H; simpl; auto; try lia.
Qed.

Lemma lset_same {A} i l (dft : A) : lset i (nth i l dft) l = l.
Proof.
  revert i; induction l as [|x l IH]; intros [|i]; simpl; auto. f_equal; auto.
Qed.

(* number of true bits *)
Definition ones (s : bset) : nat := length (filter (fun x => x) s).
Definition weight (d : dom_state) : nat := list_sum (map ones d).

Lemma ones_le_length s : ones s <= length s.
Proof. unfold ones. induction s as [|[|] s IH]; simpl; lia. Qed.

Lemma ones_le s : forall t, length s = length t ->
  (forall a, a < length s -> nth a s false = true -> nth a t false = true) ->
  ones s <= ones t /\ (bs_eqb t s = false -> ones s < ones t).
Proof.
  induction s as [|x s IH]; intros [|y t] HL HP; simpl in HL; try discriminate.
  - simpl. split; [lia|discriminate].
  - assert (H0 : x = true -> y = true) by (apply (HP 0); simpl; lia).
    destruct (IH t) as [IH1 IH2]; [lia| |].
    + intros a Ha. apply (HP (S a)). simpl; lia.
    + unfold ones in *. destruct x, y; simpl in *;
        try (specialize (H0 eq_refl); discriminate);
        (split; [lia|intros H; try specialize (IH2 H); lia]).
Qed.

Lemma weight_lset i v d : i < length d ->
  weight (lset i v d) + ones (nth i d []) = weight d + ones v.
Proof.
  unfold weight. revert i; induction d as [|x d IH]; intros [|i] H; simpl in *; try lia.
  specialize (IH i). lia.
Qed.

(* predecessors *)
Lemma preds_In g p b : In p (preds g b) <-> p < length g /\ In b (succs g p).
Proof.
  unfold preds. rewrite filter_In, in_seq, existsb_exists. split.
  - intros [H1 [x [Hx He]]]. apply Nat.eqb_eq in He; subst. split; [lia|auto].
  - intros [H1 H2]. split; [lia|]. exists b; split; auto. apply Nat.eqb_refl.
Qed.

(* paths *)
Lemma path_in_start g a l b : path g a l b -> In a l.
Proof. induction 1; simpl; auto. apply in_or_app; auto. Qed.

Lemma path_lt g a l b : wf_cfg g -> path g a l b -> b < length g.
Proof. intros WF H. destruct H; auto. eapply WF; eauto. Qed.

(* dom_pass: the changed flag *)
Lemma dom_pass_false upd g : forall bs d ch d' ,
  dom_pass upd g bs d ch = (d', false) ->
  ch = false /\ d' = d /\ forall b, In b bs -> dget d b = upd g d b.
Proof.
  induction bs as [|b r IH]; intros d ch d' H; simpl in H.
  - inversion H; subst. split; [|split]; auto. intros b [].
  - apply IH in H. destruct H as [H1 [H2 H3]].
    apply orb_false_iff in H1 as [H1 H4].
    apply negb_false_iff in H4. apply bs_eqb_eq in H4.
    assert (E : lset b (upd g d b) d = d).
    { rewrite <- H4. unfold dget. apply lset_same. }
    rewrite E in *. split; [|split]; auto.
    intros b' [Hb|Hb]; subst; auto.
Qed.

(* ------------------------------------------------------------------ *)
Section Dom.
Variable g : cfg.
Hypothesis WF : wf_cfg g.
Local Notation n := (length g).

Lemma upd_len d b : (forall p, p < n -> length (dget d p) = n) -> length (dom_update g d b) = n.
Proof.
  intros H. unfold dom_update. rewrite bs_add_length. apply fold_len.
  intros p Hp. apply preds_In in Hp. apply H; tauto.
Qed.

Lemma upd_mem d b a : (forall p, p < n -> length (dget d p) = n) -> a < n ->
  bs_mem (dom_update g d b) a = (a =? b) || forallb (fun p => bs_mem (dget d p) a) (preds g b).
Proof.
  intros H Ha. unfold dom_update. rewrite bs_mem_add.
  - rewrite fold_mem by auto. reflexivity.
  - rewrite fold_len; auto. intros p Hp. apply preds_In in Hp. apply H; tauto.
Qed.

Record good (d : dom_state) : Prop := {
  g_len : length d = n;
  g_lens : forall b, b < n -> length (dget d b) = n;
  g_entry : forall a, a < n -> bs_mem (dget d 0) a = (a =? 0);
  g_compl : forall b a, b < n -> a < n -> bs_mem (dget d b) a = false ->
            exists l, path g 0 l b /\ ~ In a l;
  g_post : forall b a, 1 <= b < n -> a < n ->
           bs_mem (dom_update g d b) a = true -> bs_mem (dget d b) a = true }.

Lemma good_step d b0 : good d -> 1 <= b0 < n -> good (lset b0 (dom_update g d b0) d).
Proof.
  intros G Hb0.
  assert (Eeq : dget (lset b0 (dom_update g d b0) d) b0 = dom_update g d b0).
  { unfold dget. apply nth_lset_eq. rewrite (g_len d G). lia. }
  assert (Eneq : forall b, b <> b0 -> dget (lset b0 (dom_update g d b0) d) b = dget d b).
  { intros b Hb. unfold dget. apply nth_lset_neq. auto. }
  assert (Lens : forall b, b < n -> length (dget (lset b0 (dom_update g d b0) d) b) = n).
  { intros b Hb. destruct (Nat.eq_dec b b0) as [->|Hne].
    - rewrite Eeq. apply upd_len. apply (g_lens d G).
    - rewrite Eneq by auto. apply (g_lens d G); auto. }
  assert (Le : forall b a, b < n -> a < n ->
             bs_mem (dget (lset b0 (dom_update g d b0) d) b) a = true -> bs_mem (dget d b) a = true).
  { intros b a Hb Ha. destruct (Nat.eq_dec b b0) as [->|Hne].
    - rewrite Eeq. apply (g_post d G); auto.
    - rewrite Eneq by auto. auto. }
  assert (Mono : forall b a, a < n ->
             bs_mem (dom_update g (lset b0 (dom_update g d b0) d) b) a = true ->
             bs_mem (dom_update g d b) a = true).
  { intros b a Ha. rewrite !upd_mem by (auto; apply (g_lens d G)).
    intros H. apply orb_true_iff in H as [H|H]; apply orb_true_iff; [left; auto|right].
    rewrite forallb_forall in *. intros p Hp. specialize (H p Hp).
    apply preds_In in Hp. apply Le; tauto. }
  constructor.
  - rewrite lset_length. apply (g_len d G).
  - exact Lens.
  - intros a Ha. rewrite Eneq by lia. apply (g_entry d G); auto.
  - intros b a Hb Ha. destruct (Nat.eq_dec b b0) as [->|Hne].
    + rewrite Eeq. rewrite upd_mem by (auto; apply (g_lens d G)).
      intros H. apply orb_false_iff in H as [H1 H2].
      apply Nat.eqb_neq in H1.
      apply forallb_false_ex in H2 as [p [Hp1 Hp2]].
      apply preds_In in Hp1 as [Hp3 Hp4].
      destruct (g_compl d G p a Hp3 Ha Hp2) as [l [Hl1 Hl2]].
      exists (l ++ [b0]). split.
      * eapply path_step; eauto.
      * intros Hin. apply in_app_or in Hin as [Hin|Hin]; auto.
        simpl in Hin. destruct Hin as [Hin|[]]. congruence.
    + rewrite Eneq by auto. apply (g_compl d G); auto.
  - intros b a Hb Ha H. destruct (Nat.eq_dec b b0) as [->|Hne].
    + rewrite Eeq. apply Mono; auto.
    + rewrite Eneq by auto. apply (g_post d G); auto.
Qed.

Lemma step_weight d b0 : good d -> 1 <= b0 < n ->
  weight (lset b0 (dom_update g d b0) d) <= weight d /\
  (bs_eqb (dget d b0) (dom_update g d b0) = false -> weight (lset b0 (dom_update g d b0) d) < weight d).
Proof.
  intros G Hb0.
  pose proof (weight_lset b0 (dom_update g d b0) d) as HW.
  rewrite (g_len d G) in HW. specialize (HW (proj2 Hb0)).
  destruct (ones_le (dom_update g d b0) (dget d b0)) as [H1 H2].
  - rewrite upd_len by apply (g_lens d G). symmetry. apply (g_lens d G). lia.
  - rewrite upd_len by apply (g_lens d G). intros a Ha. apply (g_post d G); auto.
  - unfold dget in *. split; [lia|]. intros H. specialize (H2 H). lia.
Qed.

Lemma pass_good : forall bs d ch d' ch',
  (forall b, In b bs -> 1 <= b < n) -> good d ->
  dom_pass dom_update g bs d ch = (d', ch') ->
  good d' /\ weight d' <= weight d /\ (ch' = true -> ch = true \/ weight d' < weight d).
Proof.
  induction bs as [|b r IH]; intros d ch d' ch' Hbs G H; simpl in H.
  - inversion H; subst. auto.
  - assert (Hb : 1 <= b < n) by (apply Hbs; simpl; auto).
    apply IH in H.
    + destruct H as [G' [W1 W2]].
      destruct (step_weight d b G Hb) as [S1 S2].
      split; [auto|split; [lia|]].
      intros Hc. destruct (W2 Hc) as [Hc1|Hc1]; [|right; lia].
      apply orb_true_iff in Hc1 as [Hc1|Hc1]; [left; auto|right].
      apply negb_true_iff in Hc1. specialize (S2 Hc1). lia.
    + intros b' Hb'. apply Hbs; simpl; auto.
    + apply good_step; auto.
Qed.

Lemma weight_bound d : good d -> weight d <= n * n.
Proof.
  intros G.
  assert (H : forall s, In s d -> length s = n).
  { intros s Hs. destruct (In_nth d s [] Hs) as [b [Hb1 Hb2]].
    rewrite <- Hb2. apply (g_lens d G). rewrite <- (g_len d G); auto. }
  rewrite <- (g_len d G) at 1. clear G.
  unfold weight. induction d as [|s d IH]; simpl; [lia|].
  pose proof (ones_le_length s) as Ho. rewrite (H s) in Ho by (simpl; auto).
  assert (IH' : list_sum (map ones d) <= length d * n) by (apply IH; intros; apply H; simpl; auto).
  lia.
Qed.

Definition is_fix (d : dom_state) : Prop := forall b, 1 <= b < n -> dget d b = dom_update g d b.

Lemma iter_ok : forall fuel d, good d -> weight d < fuel ->
  exists d', dom_iter dom_update fuel g d = Some d' /\ good d' /\ is_fix d'.
Proof.
  induction fuel as [|f IH]; intros d G HW; [lia|].
  cbn [dom_iter].
  destruct (dom_pass dom_update g (seq 1 (n - 1)) d false) as [d1 ch] eqn:E.
  assert (Hbs : forall b, In b (seq 1 (n - 1)) -> 1 <= b < n).
  { intros b Hb. apply in_seq in Hb. lia. }
  destruct (pass_good _ _ _ _ _ Hbs G E) as [G1 [W1 W2]].
  destruct ch.
  - apply IH; auto. destruct (W2 eq_refl) as [H|H]; [discriminate|lia].
  - exists d1. split; [reflexivity|split; auto].
    apply dom_pass_false in E. destruct E as [_ [E1 E2]]. subst d1.
    intros b Hb. apply E2. apply in_seq. lia.
Qed.

(* initial state *)
Lemma init_len : length (dom_init g) = n.
Proof. unfold dom_init. destruct n; simpl; auto. rewrite repeat_length. reflexivity. Qed.

Lemma init_0 : 0 < n -> dget (dom_init g) 0 = bs_single n 0.
Proof. unfold dom_init, dget. destruct n; simpl; auto. Qed.

Lemma init_S b : 1 <= b < n -> dget (dom_init g) b = bs_all n.
Proof.
  unfold dom_init, dget. destruct n as [|m]; [lia|]. intros H.
  destruct b as [|b]; [lia|]. simpl. apply nth_repeat_lt. lia.
Qed.

Lemma good_init : good (dom_init g).
Proof.
  constructor.
  - apply init_len.
  - intros b Hb. destruct b as [|b].
    + rewrite init_0 by lia. apply bs_single_length.
    + rewrite init_S by lia. apply bs_all_length.
  - intros a Ha. rewrite init_0 by lia. rewrite bs_mem_single by auto. apply Nat.eqb_sym.
  - intros b a Hb Ha. destruct b as [|b].
    + rewrite init_0 by lia. rewrite bs_mem_single by auto. intros H.
      apply Nat.eqb_neq in H. exists [0]. split.
      * apply path_nil; lia.
      * simpl. intros [Hx|[]]. auto.
    + rewrite init_S by lia. rewrite bs_mem_all by auto. discriminate.
  - intros b a Hb Ha _. rewrite init_S by lia. apply bs_mem_all; auto.
Qed.

Lemma dominance_ok : exists d, dominance g = Some d /\ good d /\ is_fix d.
Proof.
  unfold dominance. apply iter_ok.
  - apply good_init.
  - pose proof (weight_bound _ good_init). unfold dom_fuel. lia.
Qed.

(* soundness of a fixpoint *)
Lemma fix_sound d : good d -> is_fix d ->
  forall s l b, path g s l b -> s = 0 ->
  forall a, a < n -> bs_mem (dget d b) a = true -> In a l.
Proof.
  intros G F s l b P. induction P as [s Hs|s l b c P IH Hc]; intros -> a Ha Hm.
  - rewrite (g_entry d G) in Hm by auto. apply Nat.eqb_eq in Hm. subst; simpl; auto.
  - destruct c as [|c].
    + rewrite (g_entry d G) in Hm by auto. apply Nat.eqb_eq in Hm. subst.
      apply in_or_app. left. eapply path_in_start; eauto.
    + assert (Hc' : S c < n) by (eapply WF; eauto).
      rewrite F in Hm by lia.
      rewrite upd_mem in Hm by (auto; apply (g_lens d G)).
      apply in_or_app.
      apply orb_true_iff in Hm as [Hm|Hm].
      * apply Nat.eqb_eq in Hm. right; simpl; auto.
      * left. apply IH; auto.
        rewrite forallb_forall in Hm. apply Hm.
        apply preds_In. split; auto. eapply path_lt; eauto.
Qed.

Lemma dominates_iff_lt d a b : dominance g = Some d -> a < n -> b < n ->
  (dominates d a b = true <-> dom_spec g a b).
Proof.
  intros HD Ha Hb. destruct dominance_ok as [d' [HD' [G F]]].
  rewrite HD in HD'. inversion HD'; subst d'. unfold dominates, dom_spec. split.
  - intros Hm l P. eapply fix_sound; eauto.
  - intros HS. destruct (bs_mem (dget d b) a) eqn:E; auto.
    destruct (g_compl d G b a Hb Ha E) as [l [Hl1 Hl2]].
    exfalso. apply Hl2. apply HS; auto.
Qed.

Lemma dominates_refl_lt d b : dominance g = Some d -> b < n -> dominates d b b = true.
Proof.
  intros HD Hb. apply dominates_iff_lt; auto.
  intros l P. clear HD. remember 0 as s. destruct P; simpl; auto.
  apply in_or_app; right; simpl; auto.
Qed.

End Dom.

(* ------------------------------------------------------------------ *)
(* main theorems *)

(* the fuel n*n+2 is never exhausted *)
Theorem dominance_terminates : forall g, wf_cfg g -> exists d, dominance g = Some d.
Proof.
  intros g WF. destruct (dominance_ok g) as [d [H _]]. exists d; auto.
Qed.

Theorem dominates_iff : forall g d a b, wf_cfg g -> dominance g = Some d ->
   reachable g b -> a < length g -> (dominates d a b = true <-> dom_spec g a b).
Proof.
  intros g d a b WF HD [l P] Ha. apply dominates_iff_lt; auto.
  eapply path_lt; eauto.
Qed.

(* stronger form: reachability of b is not needed, only b < length g
   (for an unreachable b both sides hold for every a) *)
Theorem dominates_iff_all : forall g d a b, wf_cfg g -> dominance g = Some d ->
   a < length g -> b < length g -> (dominates d a b = true <-> dom_spec g a b).
Proof. intros; apply dominates_iff_lt; auto. Qed.

Theorem dominates_refl : forall g d b, wf_cfg g -> dominance g = Some d -> b < length g -> dominates d b b = true.
Proof. intros; eapply dominates_refl_lt; eauto. Qed.

Theorem strictly_dominates_iff : forall g d a b, wf_cfg g -> dominance g = Some d ->
   reachable g b -> a < length g -> (strictly_dominates d a b = true <-> (a <> b /\ dom_spec g a b)).
Proof.
  intros g d a b WF HD HR Ha. unfold strictly_dominates.
  destruct (Nat.eqb a b) eqn:E.
  - apply Nat.eqb_eq in E. split; [discriminate|]. intros [H _]; contradiction.
  - apply Nat.eqb_neq in E. rewrite (dominates_iff g d a b WF HD HR Ha). tauto.
Qed.

(* recorded refutation of the code before the repair *)
Theorem dominance_old_refuted : exists g d a b, wf_cfg g /\ dominance_old g = Some d /\ reachable g b /\ dom_spec g a b /\ dominates d a b = false.
Proof.
  exists [[1];[];[1]]. eexists. exists 0, 1.
  split; [|split; [vm_compute; reflexivity|split; [|split]]].
  - intros b s H. destruct b as [|[|[|[|b]]]]; simpl in H; simpl; intuition lia.
  - exists ([0] ++ [1]). eapply path_step.
    + apply path_nil. simpl; lia.
    + simpl; auto.
  - intros l P. eapply path_in_start; eauto.
  - vm_compute. reflexivity.
Qed.

