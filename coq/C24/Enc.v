(* C24/Enc.v -- encoders and CFG enumerators for the correspondence check. *)
From Coq Require Import List Arith ZArith Bool.
From XV Require Import Base.Show C24.Model.
Import ListNotations.

(* all successor lists of length <= 2 over blocks 0..n-1: [], [a], [a;b] in lexicographic order *)
Definition succ_lists (n : nat) : list (list nat) :=
  [[]] ++ map (fun a => [a]) (seq 0 n)
  ++ flat_map (fun a => map (fun b => [a; b]) (seq 0 n)) (seq 0 n).
Fixpoint graphs (n k : nat) : list cfg :=   (* k blocks still to choose, n blocks in total *)
  match k with
  | O => [[]]
  | S k' => flat_map (fun sl => map (cons sl) (graphs n k')) (succ_lists n)
  end.

Definition enc_dom (o : option dom_state) : sx :=
  match o with None => I (-3)%Z | Some d => L (map sLB d) end.
Definition enc_po (o : option (list nat)) : sx :=
  match o with None => I (-3)%Z | Some l => sLN l end.
Definition c24_case (g : cfg) : sx := L [enc_dom (dominance g); enc_po (post_order g)].
(* all graphs on n blocks whose entry block has successor list `first` *)
Definition c24_sweep (n : nat) (first : list nat) : sx :=
  L (map (fun rest => c24_case (first :: rest)) (graphs n (n - 1))).
