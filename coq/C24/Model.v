(* C24/Model.v -- executable models of xdsl/irdl/dominance.py (DominanceInfo) and
   xdsl/ir/post_order.py (PostOrderIterator).  Definitions only.

   A region CFG is `g : list (list nat)`: block i (0 = entry) has the successor
   list `nth i g []` of its last operation (with multiplicity, in order; [] when
   the block has no terminator).  Successor indices >= length g do not occur in
   IR (a successor is a block of the same region); `wf_cfg` states it. *)
From Coq Require Import List Arith Bool.
Import ListNotations.

Definition cfg := list (list nat).
Definition succs (g : cfg) (b : nat) : list nat := nth b g [].
Definition wf_cfg (g : cfg) : Prop := forall b s, In s (succs g b) -> s < length g.
Definition wf_cfgb (g : cfg) : bool :=
  forallb (fun l => forallb (fun s => Nat.ltb s (length g)) l) g.

(* sets of blocks as characteristic vectors of length n *)
Definition bset := list bool.
Definition bs_all (n : nat) : bset := repeat true n.
Definition bs_single (n b : nat) : bset := map (Nat.eqb b) (seq 0 n).
Definition bs_mem (s : bset) (a : nat) : bool := nth a s false.
Definition bs_inter (s t : bset) : bset := map (fun p => andb (fst p) (snd p)) (combine s t).
Definition bs_add (b : nat) (s : bset) : bset :=
  map (fun p => orb (Nat.eqb (fst p) b) (snd p)) (combine (seq 0 (length s)) s).
Fixpoint bs_eqb (s t : bset) : bool :=
  match s, t with
  | [], [] => true
  | x :: s', y :: t' => Bool.eqb x y && bs_eqb s' t'
  | _, _ => false
  end.

(* pred[b] = { p | b in successors(last_op p) }  (all blocks, reachable or not) *)
Definition preds (g : cfg) (b : nat) : list nat :=
  filter (fun p => existsb (Nat.eqb b) (succs g p)) (seq 0 (length g)).

Definition dom_state := list bset.   (* _dominance[b] for b = 0 .. n-1 *)
Definition dget (d : dom_state) (b : nat) : bset := nth b d [].
Fixpoint lset {A} (i : nat) (v : A) (l : list A) : list A :=
  match l, i with
  | [], _ => []
  | _ :: r, O => v :: r
  | x :: r, S i' => x :: lset i' v r
  end.

(* {b} | (intersection of dom[p] for p in pred[b]  if pred[b] else set(region.blocks)) *)
Definition dom_update (g : cfg) (d : dom_state) (b : nat) : bset :=
  bs_add b (fold_right (fun p acc => bs_inter (dget d p) acc) (bs_all (length g)) (preds g b)).
(* the code before the repair: `else set()` for a block without predecessors *)
Definition dom_update_old (g : cfg) (d : dom_state) (b : nat) : bset :=
  match preds g b with
  | [] => bs_add b (repeat false (length g))
  | _ => dom_update g d b
  end.

(* one pass of `for b in blocks:` (blocks = all but the entry), updating in place;
   returns the new state and whether anything changed *)
Fixpoint dom_pass (upd : cfg -> dom_state -> nat -> bset) (g : cfg) (bs : list nat) (d : dom_state) (changed : bool) : dom_state * bool :=
  match bs with
  | [] => (d, changed)
  | b :: r =>
      let nw := upd g d b in
      dom_pass upd g r (lset b nw d) (changed || negb (bs_eqb (dget d b) nw))
  end.

(* while changed: ...   (fuel-bounded; None = fuel exhausted) *)
Fixpoint dom_iter (upd : cfg -> dom_state -> nat -> bset) (fuel : nat) (g : cfg) (d : dom_state) : option dom_state :=
  match fuel with
  | O => None
  | S f =>
      let '(d', ch) := dom_pass upd g (seq 1 (length g - 1)) d false in
      if ch then dom_iter upd f g d' else Some d'
  end.

Definition dom_init (g : cfg) : dom_state :=
  match length g with
  | O => []
  | S m => bs_single (S m) 0 :: repeat (bs_all (S m)) m
  end.

Definition dom_fuel (g : cfg) : nat := S (S (length g * length g)).
Definition dominance (g : cfg) : option dom_state := dom_iter dom_update (dom_fuel g) g (dom_init g).
Definition dominance_old (g : cfg) : option dom_state := dom_iter dom_update_old (dom_fuel g) g (dom_init g).

(* dominates(a, b) = a in _dominance[b] ; strictly_dominates *)
Definition dominates (d : dom_state) (a b : nat) : bool := bs_mem (dget d b) a.
Definition strictly_dominates (d : dom_state) (a b : nat) : bool :=
  if Nat.eqb a b then false else dominates d a b.

(* ------------------------------------------------------------------ *)
(* PostOrderIterator: stack of (block, visited) (head = top), seen set *)
Record po_state := { po_stack : list (nat * bool); po_seen : list nat }.
Definition po_init (b : nat) : po_state := {| po_stack := [(b, false)]; po_seen := [b] |}.
Definition memb (x : nat) (l : list nat) : bool := existsb (Nat.eqb x) l.

(* dict.fromkeys(l): first occurrences, in order *)
Fixpoint dedup (l seen : list nat) : list nat :=
  match l with
  | [] => []
  | x :: r => if memb x seen then dedup r seen else x :: dedup r (x :: seen)
  end.

(* the inner `while not visited` loop of __next__, fuel-bounded.  `dd = true` is the
   current code (successors de-duplicated with dict.fromkeys); `dd = false` is the code
   before the repair, kept for the recorded refutation. *)
Fixpoint po_descend (dd : bool) (fuel : nat) (g : cfg) (block : nat) (visited : bool) (st : po_state)
  : option (nat * po_state) :=
  if visited then Some (block, st)
  else match fuel with
       | O => None
       | S f =>
           let ss := succs g block in
           (* stack.append((block, True));
              stack.extend((x, False) for x in reversed(dict.fromkeys(succ)) if x not in seen) *)
           let pushed := rev (map (fun x => (x, false)) (filter (fun x => negb (memb x (po_seen st))) (rev (if dd then dedup ss [] else ss)))) in
           let stack1 := pushed ++ (block, true) :: po_stack st in
           let seen1 := po_seen st ++ ss in
           match stack1 with
           | [] => None
           | (b', v') :: rest => po_descend dd f g b' v' {| po_stack := rest; po_seen := seen1 |}
           end
       end.

(* __next__: None = StopIteration *)
Definition po_next (dd : bool) (fuel : nat) (g : cfg) (st : po_state) : option (option (nat * po_state)) :=
  match po_stack st with
  | [] => Some None
  | (b, v) :: rest =>
      match po_descend dd fuel g b v {| po_stack := rest; po_seen := po_seen st |} with
      | None => None
      | Some r => Some (Some r)
      end
  end.

(* list(PostOrderIterator(entry)) ; None = fuel exhausted *)
Fixpoint po_all (dd : bool) (fuel : nat) (g : cfg) (st : po_state) : option (list nat) :=
  match fuel with
  | O => None
  | S f =>
      match po_next dd (S fuel) g st with
      | None => None
      | Some None => Some []
      | Some (Some (b, st')) =>
          match po_all dd f g st' with
          | None => None
          | Some l => Some (b :: l)
          end
      end
  end.
Definition po_fuel (g : cfg) : nat := S (S (length g + length (concat g))).
Definition post_order (g : cfg) : option (list nat) := po_all true (po_fuel g) g (po_init 0).
Definition post_order_old (g : cfg) : option (list nat) := po_all false (po_fuel g) g (po_init 0).
