(* C24/ProofsPO.v -- correctness of the PostOrderIterator model (C24/Model.v):
   termination within the fuel bound, every reachable block exactly once, no
   unreachable block, entry last; and refutation of the pre-repair code. *)
From Coq Require Import List Arith Bool Lia Permutation.
From XV Require Import C24.Model.
Import ListNotations.

Inductive reach (g : cfg) : nat -> Prop :=
| reach_entry : reach g 0
| reach_step b c : reach g b -> In c (succs g b) -> reach g c.

(* ------------------------------------------------------------------ *)
(* generic list facts *)

Lemma memb_In x l : memb x l = true <-> In x l.
Proof.
  unfold memb. rewrite existsb_exists. split.
  - intros [y [Hy E]]. apply Nat.eqb_eq in E. subst. exact Hy.
  - intros H. exists x. split; [exact H | apply Nat.eqb_refl].
Qed.

Lemma memb_false x l : memb x l = false <-> ~ In x l.
Proof.
  rewrite <- memb_In. destruct (memb x l); split; intros H.
  - discriminate H.
  - exfalso. apply H. reflexivity.
  - intros H'. discriminate H'.
  - reflexivity.
Qed.

Lemma dedup_In l : forall s x, In x (dedup l s) <-> (In x l /\ ~ In x s).
Proof.
  induction l as [|a r IH]; intros s x; simpl.
  - tauto.
  - destruct (memb a s) eqn:E.
    + apply memb_In in E. rewrite IH. split.
      * intros [H1 H2]. tauto.
      * intros [[H1|H1] H2]; [subst; contradiction | tauto].
    + apply memb_false in E. simpl. rewrite IH. simpl. split.
      * intros [H|[H1 H2]]; [subst; tauto | tauto].
      * intros [[H|H] H2]; [tauto|].
        destruct (Nat.eq_dec a x) as [e|ne]; [tauto|]. right. tauto.
Qed.

Lemma dedup_NoDup l : forall s, NoDup (dedup l s).
Proof.
  induction l as [|a r IH]; intros s; simpl.
  - constructor.
  - destruct (memb a s); [apply IH|]. constructor; [|apply IH].
    rewrite dedup_In. simpl. tauto.
Qed.

Lemma filter_rev' {A} (f : A -> bool) l : filter f (rev l) = rev (filter f l).
Proof.
  induction l as [|a l IH]; simpl; [reflexivity|].
  rewrite filter_app, IH. simpl.
  destruct (f a); simpl; [reflexivity | apply app_nil_r].
Qed.

Lemma NoDup_app' {A} (p m : list A) :
  NoDup p -> NoDup m -> (forall x, In x p -> ~ In x m) -> NoDup (p ++ m).
Proof.
  induction p as [|a p IH]; intros Hp Hm Hd; simpl; [exact Hm|].
  inversion Hp as [|a' p' Ha Hp']; subst.
  constructor.
  - intros Hin. apply in_app_or in Hin. destruct Hin as [Hin|Hin].
    + contradiction.
    + apply (Hd a); [left; reflexivity | exact Hin].
  - apply IH; auto. intros x Hx. apply Hd. right. exact Hx.
Qed.

Lemma NoDup_insert {A} (l1 p l2 : list A) :
  NoDup (l1 ++ l2) -> NoDup p -> (forall x, In x p -> ~ In x (l1 ++ l2)) ->
  NoDup (l1 ++ p ++ l2).
Proof.
  intros H12 Hp Hd.
  apply (Permutation_NoDup (l := p ++ l1 ++ l2)).
  - apply Permutation_app_swap_app.
  - apply NoDup_app'; assumption.
Qed.

Lemma last_app_cons {A} (l1 : list A) x l2 d : last (l1 ++ x :: l2) d = last (x :: l2) d.
Proof.
  induction l1 as [|a l1 IH]; [reflexivity|].
  change ((a :: l1) ++ x :: l2) with (a :: (l1 ++ x :: l2)).
  remember (l1 ++ x :: l2) as m eqn:E.
  destruct m as [|y m'].
  - destruct l1; discriminate E.
  - change (last (a :: y :: m') d) with (last (y :: m') d). exact IH.
Qed.

Lemma succs_concat g b x : In x (succs g b) -> In x (concat g).
Proof.
  unfold succs. intros H.
  destruct (Nat.lt_ge_cases b (length g)) as [Hlt|Hge].
  - apply in_concat. exists (nth b g []). split; [apply nth_In; exact Hlt | exact H].
  - rewrite nth_overflow in H by exact Hge. contradiction.
Qed.

(* ------------------------------------------------------------------ *)
(* unfolding lemmas for the fuelled functions *)

Definition pushed_of (seen ss : list nat) : list (nat * bool) :=
  rev (map (fun x => (x, false))
         (filter (fun x => negb (memb x seen)) (rev (dedup ss [])))).

Lemma pushed_fst seen ss :
  map fst (pushed_of seen ss) = filter (fun x => negb (memb x seen)) (dedup ss []).
Proof.
  unfold pushed_of. rewrite map_rev, map_map. simpl.
  rewrite map_id, filter_rev', rev_involutive. reflexivity.
Qed.

Lemma pushed_no_true seen ss x : ~ In (x, true) (pushed_of seen ss).
Proof.
  unfold pushed_of. intros H. apply in_rev in H. apply in_map_iff in H.
  destruct H as [y [E _]]. discriminate E.
Qed.

Lemma po_descend_true dd fuel g b st : po_descend dd fuel g b true st = Some (b, st).
Proof. destruct fuel; reflexivity. Qed.

Lemma po_descend_false fuel g b stk seen :
  po_descend true (S fuel) g b false {| po_stack := stk; po_seen := seen |} =
  match pushed_of seen (succs g b) ++ (b, true) :: stk with
  | [] => None
  | (b', v') :: rest =>
      po_descend true fuel g b' v' {| po_stack := rest; po_seen := seen ++ succs g b |}
  end.
Proof. reflexivity. Qed.

Lemma po_all_unfold dd f g st :
  po_all dd (S f) g st =
  match po_next dd (S (S f)) g st with
  | None => None
  | Some None => Some []
  | Some (Some (b, st')) =>
      match po_all dd f g st' with
      | None => None
      | Some l => Some (b :: l)
      end
  end.
Proof. reflexivity. Qed.

(* ------------------------------------------------------------------ *)
(* the DFS invariant: stk = stack (head = top), seen, out = emitted so far *)

Definition U (g : cfg) : list nat := 0 :: concat g.

Record Inv (g : cfg) (stk : list (nat * bool)) (seen out : list nat) : Prop := {
  inv_nodup : NoDup (out ++ map fst stk);
  inv_reach : forall x, In x seen -> reach g x;
  inv_L_seen : forall x, In x (out ++ map fst stk) -> In x seen;
  inv_seen_L : forall x, In x seen -> In x (out ++ map fst stk);
  inv_closed : forall b c, (In b out \/ In (b, true) stk) -> In c (succs g b) -> In c seen;
  inv_entry : In 0 seen;
  inv_last : last (out ++ map fst stk) 0 = 0;
  inv_U : forall x, In x seen -> In x (U g)
}.

Lemma Inv_init g : Inv g [(0, false)] [0] [].
Proof.
  constructor; simpl.
  - constructor; [intros []|constructor].
  - intros x [E|[]]. subst. constructor.
  - auto.
  - auto.
  - intros b c [[]|[E|[]]]. discriminate E.
  - auto.
  - reflexivity.
  - intros x [E|[]]. left. exact E.
Qed.

Lemma Inv_descend g b rest seen out :
  Inv g ((b, false) :: rest) seen out ->
  Inv g (pushed_of seen (succs g b) ++ (b, true) :: rest) (seen ++ succs g b) out.
Proof.
  intros HI. destruct HI as [Hnd Hr Hls Hsl Hcl H0 Hlast HU]. simpl in *.
  set (P := filter (fun x => negb (memb x seen)) (dedup (succs g b) [])).
  assert (EL : out ++ map fst (pushed_of seen (succs g b) ++ (b, true) :: rest)
               = (out ++ P) ++ b :: map fst rest).
  { rewrite map_app, pushed_fst. simpl. rewrite app_assoc. reflexivity. }
  assert (HP : forall x, In x P <-> In x (succs g b) /\ ~ In x seen).
  { intros x. unfold P. rewrite filter_In, dedup_In, negb_true_iff, memb_false.
    simpl. tauto. }
  assert (Hb : In b seen).
  { apply Hls. apply in_or_app. right. left. reflexivity. }
  constructor.
  - rewrite EL, <- app_assoc. apply NoDup_insert.
    + exact Hnd.
    + unfold P. apply NoDup_filter. apply dedup_NoDup.
    + intros x Hx Hin. apply HP in Hx. apply Hls in Hin. tauto.
  - intros x Hx. apply in_app_or in Hx. destruct Hx as [Hx|Hx]; [auto|].
    eapply reach_step; [apply Hr; exact Hb | exact Hx].
  - intros x. rewrite EL, <- app_assoc. rewrite !in_app_iff.
    intros [Hx|[Hx|Hx]].
    + left. apply Hls. apply in_or_app. left. exact Hx.
    + right. apply HP in Hx. tauto.
    + left. apply Hls. apply in_or_app. right. exact Hx.
  - intros x. rewrite EL, <- app_assoc. rewrite !in_app_iff.
    intros [Hx|Hx].
    + apply Hsl in Hx. apply in_app_or in Hx. tauto.
    + destruct (in_dec Nat.eq_dec x seen) as [Hs|Hs].
      * apply Hsl in Hs. apply in_app_or in Hs. tauto.
      * right. left. apply HP. tauto.
  - intros b0 c Hb0 Hc. apply in_or_app.
    destruct Hb0 as [Hb0|Hb0].
    + left. apply (Hcl b0 c); [left; exact Hb0 | exact Hc].
    + apply in_app_or in Hb0. destruct Hb0 as [Hb0|[Hb0|Hb0]].
      * exfalso. exact (pushed_no_true _ _ _ Hb0).
      * inversion Hb0; subst. right. exact Hc.
      * left. apply (Hcl b0 c); [right; right; exact Hb0 | exact Hc].
  - apply in_or_app. left. exact H0.
  - rewrite EL, last_app_cons. rewrite last_app_cons in Hlast. exact Hlast.
  - intros x Hx. apply in_app_or in Hx. destruct Hx as [Hx|Hx]; [exact (HU x Hx)|].
    unfold U. right. apply succs_concat with b. exact Hx.
Qed.

Lemma Inv_emit g b s seen out :
  Inv g ((b, true) :: s) seen out -> Inv g s seen (out ++ [b]).
Proof.
  intros HI. destruct HI as [Hnd Hr Hls Hsl Hcl H0 Hlast HU]. simpl in *.
  assert (EL : (out ++ [b]) ++ map fst s = out ++ b :: map fst s).
  { rewrite <- app_assoc. reflexivity. }
  constructor; try rewrite EL; auto.
  intros b0 c Hb0 Hc. apply (Hcl b0 c); [|exact Hc].
  destruct Hb0 as [Hb0|Hb0].
  - apply in_app_or in Hb0. destruct Hb0 as [Hb0|[Hb0|[]]].
    + left. exact Hb0.
    + subst. right. left. reflexivity.
  - right. right. exact Hb0.
Qed.

Definition Final (g : cfg) (l : list nat) : Prop :=
  NoDup l /\ (forall b, In b l <-> reach g b) /\ last l 0 = 0 /\ l <> [].

Lemma Inv_final g seen out : Inv g [] seen out -> Final g out.
Proof.
  intros HI. destruct HI as [Hnd Hr Hls Hsl Hcl H0 Hlast HU]. simpl in *.
  rewrite app_nil_r in *.
  assert (Hin : forall b, reach g b -> In b out).
  { intros b Hb. induction Hb as [|b c Hb IH Hc].
    - apply Hsl. exact H0.
    - apply Hsl. apply (Hcl b c); [left; exact IH | exact Hc]. }
  split; [exact Hnd|]. split; [|split].
  - intros b. split; [intros Hb; apply Hr, Hls, Hb | apply Hin].
  - exact Hlast.
  - intros E. specialize (Hin 0 (reach_entry g)). rewrite E in Hin. exact Hin.
Qed.

(* ------------------------------------------------------------------ *)
(* fuel accounting *)

Definition nvis (stk : list (nat * bool)) : nat := length (filter snd stk).

Lemma nvis_le stk : nvis stk <= length stk.
Proof.
  unfold nvis. induction stk as [|[b v] stk IH]; simpl; [lia|].
  destruct v; simpl; lia.
Qed.

Lemma nvis_app s1 s2 : nvis (s1 ++ s2) = nvis s1 + nvis s2.
Proof. unfold nvis. rewrite filter_app, app_length. reflexivity. Qed.

Lemma Inv_len g stk seen out :
  Inv g stk seen out -> length out + length stk <= length (U g).
Proof.
  intros HI.
  assert (H : length (out ++ map fst stk) <= length (U g)).
  { apply NoDup_incl_length; [exact (inv_nodup _ _ _ _ HI)|].
    intros x Hx. apply (inv_U _ _ _ _ HI). apply (inv_L_seen _ _ _ _ HI). exact Hx. }
  rewrite app_length, map_length in H. exact H.
Qed.

Lemma descend_ok g : forall d stk seen out b v rest,
  stk = (b, v) :: rest -> Inv g stk seen out ->
  length (U g) <= d + length out + nvis stk ->
  exists b' stk' seen',
    po_descend true d g b v {| po_stack := rest; po_seen := seen |}
      = Some (b', {| po_stack := stk'; po_seen := seen' |})
    /\ Inv g ((b', true) :: stk') seen' out.
Proof.
  induction d as [|d IH]; intros stk seen out b v rest E HI Hd; subst stk.
  - destruct v.
    + exists b, rest, seen. split; [reflexivity | exact HI].
    + exfalso. pose proof (Inv_len _ _ _ _ HI) as H1. pose proof (nvis_le rest) as H2.
      unfold nvis in *. simpl in *. lia.
  - destruct v.
    + exists b, rest, seen. split; [reflexivity | exact HI].
    + rewrite po_descend_false.
      pose proof (Inv_descend _ _ _ _ _ HI) as HI'.
      remember (pushed_of seen (succs g b) ++ (b, true) :: rest) as s1 eqn:E1.
      destruct s1 as [|[b' v'] rest'].
      * exfalso. destruct (pushed_of seen (succs g b)); discriminate E1.
      * apply (IH _ _ _ b' v' rest' eq_refl HI').
        rewrite E1, nvis_app.
        change (nvis ((b, true) :: rest)) with (S (nvis rest)).
        change (nvis ((b, false) :: rest)) with (nvis rest) in Hd. lia.
Qed.

Lemma po_all_ok g : forall F stk seen out,
  Inv g stk seen out -> length (U g) + 1 <= F + length out ->
  exists l', po_all true F g {| po_stack := stk; po_seen := seen |} = Some l'
             /\ Final g (out ++ l').
Proof.
  induction F as [|F IH]; intros stk seen out HI HF.
  - exfalso. pose proof (Inv_len _ _ _ _ HI). lia.
  - rewrite po_all_unfold. unfold po_next. simpl po_stack. simpl po_seen.
    destruct stk as [|[b v] rest].
    + exists []. split; [reflexivity|]. rewrite app_nil_r.
      apply Inv_final with seen. exact HI.
    + assert (Hd : length (U g) <= S (S F) + length out + nvis ((b, v) :: rest)) by lia.
      destruct (descend_ok g (S (S F)) _ seen out b v rest eq_refl HI Hd)
        as (b' & stk' & seen' & E & HI').
      rewrite E. apply Inv_emit in HI'.
      assert (HF' : length (U g) + 1 <= F + length (out ++ [b'])).
      { rewrite app_length. change (length [b']) with 1. lia. }
      destruct (IH stk' seen' (out ++ [b']) HI' HF') as (l' & El & Hf).
      rewrite El. exists (b' :: l'). split; [reflexivity|].
      rewrite <- app_assoc in Hf. exact Hf.
Qed.

(* ------------------------------------------------------------------ *)
(* main results *)

Theorem post_order_total : forall g, exists l, post_order g = Some l /\ Final g l.
Proof.
  intros g. unfold post_order, po_init.
  assert (HF : length (U g) + 1 <= po_fuel g + length (@nil nat)).
  { unfold po_fuel, U. simpl. lia. }
  destruct (po_all_ok g (po_fuel g) [(0, false)] [0] [] (Inv_init g) HF) as (l & E & Hf).
  exists l. split; [exact E | exact Hf].
Qed.

(* the fuel bound po_fuel is never exhausted (no well-formedness needed) *)
Theorem post_order_terminates : forall g, exists l, post_order g = Some l.
Proof.
  intros g. destruct (post_order_total g) as (l & E & _). exists l. exact E.
Qed.

(* every reachable block exactly once, no unreachable block, entry last *)
Theorem post_order_spec : forall g l, wf_cfg g -> 0 < length g -> post_order g = Some l ->
  NoDup l /\ (forall b, In b l <-> reach g b) /\ last l 0 = 0 /\ l <> [].
Proof.
  intros g l _ _ E. destruct (post_order_total g) as (l' & E' & Hf).
  rewrite E in E'. inversion E'; subst. exact Hf.
Qed.

(* the same holds without the hypotheses wf_cfg / nonempty region *)
Theorem post_order_spec_general : forall g l, post_order g = Some l ->
  NoDup l /\ (forall b, In b l <-> reach g b) /\ last l 0 = 0 /\ l <> [].
Proof.
  intros g l E. destruct (post_order_total g) as (l' & E' & Hf).
  rewrite E in E'. inversion E'; subst. exact Hf.
Qed.

(* the code before the repair (no dict.fromkeys) emits a block twice *)
Theorem post_order_old_refuted : exists g l, wf_cfg g /\ post_order_old g = Some l /\ ~ NoDup l.
Proof.
  exists [[1; 1]; []], [1; 1; 0]. split; [|split].
  - intros b s. unfold succs. destruct b as [|[|b]]; simpl.
    + intros [E|[E|[]]]; subst; lia.
    + intros [].
    + destruct b; intros [].
  - vm_compute. reflexivity.
  - intros H. inversion H as [|x l Hn _]; subst. apply Hn. left. reflexivity.
Qed.

