(* C20/Model.v -- executable model of the RISC-V parallel-move lowering
     xdsl/transforms/riscv_lower_parallel_mov.py  (ParallelMovPattern.match_and_rewrite,
       _insert_mv_op, _insert_swap_ops)
     xdsl/backend/riscv/lowering/utils.py         (move_ops_for_value)
     xdsl/dialects/riscv/ops.py                   (ParallelMovOp.verify_)
   and a RISC-V register machine for the emitted operations.  Definitions only.

   Encoding.  A register type is an integer: 2k = integer register #k (0 is `zero`),
   2k+1 = float register #k, -2 / -1 = the unallocated integer / float register type.
   An SSA value is (identity, register type); identities >= 0 are the operands of the
   parallel move (two operands with the same identity are the same SSA value), identity
   -(j+1) is the result of the j-th emitted operation.  Python dicts keyed by register
   types / SSA values are functions (only lookups and insertions are used by the code);
   `Counter` is a function with default 0; `defaultdict(list)` keyed by the register class
   is a pair of lists.  Exceptions are explicit; `while` loops carry fuel (`OutOfFuel`).

   `cfg` selects the variant of the code: `unchanged` is the originally pinned tree, `repaired` the tree
   with C20-1 (a read-only tree root is no longer appended to the free list) and C20-2 (xor-swap chain
   direction) applied, `repaired_all` additionally has the proposed C20-3 (non-trivial moves into `zero`
   are emitted at the top of the first loop and kept out of the graph), C20-4 (unprocessed_children keyed
   by register) and C20-5 (width looked up by output register).  The first-loop tables, the counter key
   and the width lookup are parameters of the loops (Section Lower) and are chosen by `rewrite`. *)
From Coq Require Import ZArith List Bool.
Import ListNotations.
Local Open Scope Z_scope.

Definition reg := Z.
Definition ZERO : reg := 0.
Definition is_alloc (r : reg) : bool := 0 <=? r.
Definition is_float (r : reg) : bool := Z.odd r.

Record value := mkV { vid : Z; vreg : reg }.
Record move := mkM { m_val : Z; m_src : reg; m_dst : reg; m_w : Z }.
Definition m_value (m : move) : value := mkV (m_val m) (m_src m).

Inductive instr :=
| Mv (rd : reg) (s : value)          (* riscv.mv    *)
| FMvS (rd : reg) (s : value)        (* riscv.fmv.s *)
| FMvD (rd : reg) (s : value)        (* riscv.fmv.d *)
| Xor (rd : reg) (a b : value).      (* riscv.xor   *)

Inductive exn := EPassFailed | EAssertion | EKeyError | EValueError | EVerify | ENotImplemented.
Inductive res (A : Type) := Ok (a : A) | Raise (e : exn) | OutOfFuel.
Arguments Ok {A} a.
Arguments Raise {A} e.
Arguments OutOfFuel {A}.
Definition bind {A B} (r : res A) (f : A -> res B) : res B :=
  match r with Ok a => f a | Raise e => Raise e | OutOfFuel => OutOfFuel end.
Notation "'do' x <- r ; k" := (bind r (fun x => k)) (at level 200, x name, r at level 100, k at level 200).
Notation "'do' ' p <- r ; k" := (bind r (fun x => match x with p => k end))
  (at level 200, p pattern, r at level 100, k at level 200).
Definition key {A} (o : option A) : res A :=        (* d[k] : KeyError when absent *)
  match o with Some a => Ok a | None => Raise EKeyError end.

Record cfg := mkCfg {
  root_free : bool; xor_old : bool;            (* pinned tree: true / true; repaired by C20-1 / C20-2 *)
  zero_first : bool;                            (* C20-3: moves into `zero` are emitted up front and kept out of the graph *)
  cnt_by_reg : bool;                            (* C20-4: unprocessed_children is keyed by register, not by SSA value *)
  width_by_dst : bool }.                        (* C20-5: the width of a move is looked up by its output register *)
Definition unchanged : cfg := mkCfg true true false false false.
Definition repaired : cfg := mkCfg false false false false false.      (* C20-1 + C20-2 *)
Definition repaired_all : cfg := mkCfg false false true true true.      (* ... + C20-3, C20-4, C20-5 *)

(* ------------------------------------------------------------------ ParallelMovOp.verify_ *)
Fixpoint nodupb (l : list Z) : bool :=
  match l with [] => true | x :: r => negb (existsb (Z.eqb x) r) && nodupb r end.
Definition verify (ms : list move) : bool :=
  forallb (fun m => Bool.eqb (is_float (m_src m)) (is_float (m_dst m))) ms
  && nodupb (filter (fun d => is_alloc d && negb (d =? ZERO)) (map m_dst ms)).

(* ------------------------------------------------------------------ emitting operations *)
Definition new_value (em : list instr) (rd : reg) : value :=
  mkV (- (Z.of_nat (length em) + 1)) rd.
Definition okw (w : Z) : bool := (w =? 32) || (w =? 64).

(* _insert_mv_op + move_ops_for_value *)
Definition insert_mv (em : list instr) (src : value) (dst : reg) (w : Z) : res (list instr * value) :=
  if is_float (vreg src) then
    if okw w then
      if is_float dst
      then Ok (em ++ [if w =? 32 then FMvS dst src else FMvD dst src], new_value em dst)
      else Ok (em ++ [Mv dst src], new_value em dst)
    else Raise EPassFailed
  else
    if okw w then
      if is_float dst then Raise ENotImplemented
      else Ok (em ++ [Mv dst src], new_value em dst)
    else Raise EPassFailed.

(* _insert_swap_ops a b : returns (op2.rd, op3.rd) *)
Definition insert_swap (em : list instr) (a b : value) : list instr * value * value :=
  let v1 := new_value em (vreg a) in
  let em1 := em ++ [Xor (vreg a) a b] in
  let v2 := new_value em1 (vreg b) in
  let em2 := em1 ++ [Xor (vreg b) v1 b] in
  let v3 := new_value em2 (vreg a) in
  let em3 := em2 ++ [Xor (vreg a) v1 v2] in
  (em3, v2, v3).

(* ------------------------------------------------------------------ dictionaries *)
Definition upd {A} (f : Z -> A) (k : Z) (v : A) : Z -> A := fun x => if x =? k then v else f x.
Fixpoint lset {A} (i : nat) (v : A) (l : list A) : list A :=
  match l, i with
  | [], _ => []
  | _ :: r, O => v :: r
  | x :: r, S i' => x :: lset i' v r
  end.

(* output_index = {register: idx for idx, register in enumerate(dst_types)} *)
Fixpoint output_index_from (i : nat) (ds : list reg) (f : Z -> option nat) : Z -> option nat :=
  match ds with [] => f | d :: r => output_index_from (S i) r (upd f d (Some i)) end.
Definition output_index (ms : list move) : Z -> option nat :=
  output_index_from 0 (map m_dst ms) (fun _ => None).
(* src_type_by_src = {src: width for src, width in zip(srcs, input_widths)} *)
Definition src_type_by_src (ms : list move) : Z -> option Z :=
  fold_left (fun f m => upd f (m_val m) (Some (m_w m))) ms (fun _ => None).

(* first loop: leaves, trivial results, src_by_dst_type, unprocessed_children *)
Record tables := mkT {
  leaves : Z -> bool;
  results0 : list (option value);
  src_by_dst : Z -> option value;
  children0 : Z -> Z }.
Definition loop1_step (t : tables) (im : nat * move) : tables :=
  let '(idx, m) := im in
  let lv := upd (leaves t) (m_src m) false in
  if m_src m =? m_dst m
  then mkT lv (lset idx (Some (m_value m)) (results0 t)) (src_by_dst t) (children0 t)
  else mkT lv (results0 t) (upd (src_by_dst t) (m_dst m) (Some (m_value m)))
           (upd (children0 t) (m_val m) (children0 t (m_val m) + 1)).
Definition loop1 (ms : list move) : tables :=
  fold_left loop1_step (combine (seq 0 (length ms)) ms)
    (mkT (fun r => existsb (Z.eqb r) (map m_dst ms)) (repeat None (length ms))
         (fun _ => None) (fun _ => 0)).

(* C20-3: a non-trivial move into `zero` takes no part in the first loop (`continue`) *)
Definition zero_move (m : move) : bool := (m_dst m =? ZERO) && negb (m_src m =? m_dst m).
Definition loop1z (ms : list move) : tables :=
  fold_left loop1_step (filter (fun im => negb (zero_move (snd im))) (combine (seq 0 (length ms)) ms))
    (mkT (fun r => existsb (Z.eqb r) (map m_dst ms)) (repeat None (length ms))
         (fun _ => None) (fun _ => 0)).
(* ... but its move is emitted there: results[idx] = _insert_mv_op(src, zero, width) *)
Fixpoint zero_pass (ims : list (nat * move)) (e : list instr) (rs : list (option value))
  : res (list instr * list (option value)) :=
  match ims with
  | [] => Ok (e, rs)
  | (idx, m) :: r =>
      if zero_move m then
        do '(e1, nv) <- insert_mv e (m_value m) (m_dst m) (m_w m);
        zero_pass r e1 (lset idx (Some nv) rs)
      else zero_pass r e rs
  end.
(* C20-4: the counter keyed by register *)
Definition children_by_reg (ims : list (nat * move)) : Z -> Z :=
  fold_left (fun f im => let m := snd im in
                         if m_src m =? m_dst m then f else upd f (m_src m) (f (m_src m) + 1)) ims (fun _ => 0).
(* C20-5: width_by_dst = dict(zip(dst_types, input_widths)) *)
Definition width_by_dst_tbl (ms : list move) : Z -> option Z :=
  fold_left (fun f m => upd f (m_dst m) (Some (m_w m))) ms (fun _ => None).

Definition ckey (c : cfg) (v : value) : Z := if cnt_by_reg c then vreg v else vid v.
Definition wlook (c : cfg) (ms : list move) (src : value) (dst : reg) : option Z :=
  if width_by_dst c then width_by_dst_tbl ms dst else src_type_by_src ms (vid src).
Definition kept (c : cfg) (ms : list move) : list (nat * move) :=
  if zero_first c then filter (fun im => negb (zero_move (snd im))) (combine (seq 0 (length ms)) ms)
  else combine (seq 0 (length ms)) ms.
Definition tables_of (c : cfg) (ms : list move) : tables := if zero_first c then loop1z ms else loop1 ms.
Definition children_of (c : cfg) (ms : list move) : Z -> Z :=
  if cnt_by_reg c then children_by_reg (kept c ms) else children0 (tables_of c ms).

(* ------------------------------------------------------------------ the rewrite state *)
Record state := mkS {
  em : list instr;                 (* operations inserted so far, in order *)
  results : list (option value);
  children : Z -> Z }.             (* unprocessed_children *)
(* free_registers[IntRegisterType], free_registers[FloatRegisterType] *)
Definition free_of (fi ff : list reg) (r : reg) : list reg := if is_float r then ff else fi.

Section Lower.
  Variable c : cfg.
  Variable ck : value -> Z.                    (* key of unprocessed_children *)
  Variable wl : value -> reg -> option Z.      (* width of the move src -> dst *)
  Variable ms : list move.
  Variable tb : tables.                        (* the tables of the first loop *)
  Let P := src_by_dst tb.
  Let oidx := output_index ms.

  (* while dst_type in src_by_dst_type: ...   returns the state and the final dst_type *)
  Fixpoint walk (fuel : nat) (cur : reg) (s : state) : res (state * reg) :=
    match fuel with
    | O => OutOfFuel
    | S f =>
        match P cur with
        | None => Ok (s, cur)
        | Some src =>
            do w <- key (wl src cur);
            do '(e1, nv) <- insert_mv (em s) src cur w;
            do i <- key (oidx cur);
            match nth_error (results s) i with
            | Some None =>
                let ch := upd (children s) (ck src) (children s (ck src) - 1) in
                let s1 := mkS e1 (lset i (Some nv) (results s)) ch in
                if negb (ch (ck src) =? 0) then Ok (s1, cur) else walk f (vreg src) s1
            | _ => Raise EAssertion
            end
        end
    end.

  Definition loop_fuel : nat := S (S (length ms + length ms)).

  (* for dst_type in dst_types: if dst_type not in leaves: continue; walk; maybe add a free register.
     The loop state is (rewrite state, free int registers, free float registers). *)
  Definition loop2_step (lv : Z -> bool) (r : res (state * list reg * list reg)) (d : reg)
    : res (state * list reg * list reg) :=
    do '(s, fi, ff) <- r;
    if negb (lv d) then Ok (s, fi, ff) else
    do '(s1, cur) <- walk loop_fuel d s;
    match P cur with
    | None =>
        if root_free c
        then (if is_float cur then Ok (s1, fi, ff ++ [cur]) else Ok (s1, fi ++ [cur], ff))
        else Ok (s1, fi, ff)
    | Some _ => Ok (s1, fi, ff)
    end.

  (* xor-swap chain of the pinned tree *)
  Fixpoint xor_chain_old (fuel : nat) (e : list instr) (rs : list (option value)) (inp out : value)
    : res (list instr * list (option value) * value) :=
    match fuel with
    | O => OutOfFuel
    | S f =>
        if vreg inp =? vreg out then Ok (e, rs, out) else
        let '(e3, nw_out, nw_inp) := insert_swap e inp out in
        do i <- key (oidx (vreg nw_inp));
        let rs1 := lset i (Some nw_inp) rs in
        do inp1 <- key (P (vreg inp));
        xor_chain_old f e3 rs1 inp1 nw_out
    end.
  (* repaired chain (C20-2.diff): the displaced value travels up the cycle *)
  Fixpoint xor_chain_new (fuel : nat) (stop : reg) (e : list instr) (rs : list (option value)) (inp out : value)
    : res (list instr * list (option value) * value) :=
    match fuel with
    | O => OutOfFuel
    | S f =>
        if vreg inp =? stop then Ok (e, rs, out) else
        let '(e3, nw_out, nw_inp) := insert_swap e inp out in
        do i <- key (oidx (vreg nw_out));
        let rs1 := lset i (Some nw_out) rs in
        do inp1 <- key (P (vreg inp));
        xor_chain_new f stop e3 rs1 inp1 nw_inp
    end.

  (* while dst_type != cur_output.type: ... *)
  Fixpoint break_chain (fuel : nat) (stop : reg) (e : list instr) (rs : list (option value)) (cur : reg)
    : res (list instr * list (option value)) :=
    match fuel with
    | O => OutOfFuel
    | S f =>
        if cur =? stop then Ok (e, rs) else
        do src <- key (P cur);
        do w <- key (wl src cur);
        do '(e1, nv) <- insert_mv e src cur w;
        do i <- key (oidx cur);
        break_chain f stop e1 (lset i (Some nv) rs) (vreg src)
    end.

  (* body of `for idx, val in enumerate(results)`; fi / ff are the free lists after the second loop *)
  Definition loop3_step (fi ff : list reg) (r : res state) (im : nat * move) : res state :=
    do s <- r;
    let '(idx, m) := im in
    match nth_error (results s) idx with
    | Some None =>
        match free_of fi ff (m_dst m) with
        | [] =>
            if is_float (m_dst m) then Raise EPassFailed else
            let out := m_value m in
            do inp <- key (P (vreg out));
            if xor_old c then
              do '(e1, rs1, out1) <- xor_chain_old loop_fuel (em s) (results s) inp out;
              do i <- key (oidx (m_src m));
              Ok (mkS e1 (lset i (Some out1) rs1) (children s))
            else
              do '(e1, rs1, out1) <- xor_chain_new loop_fuel (m_src m) (em s) (results s) inp out;
              do i <- key (oidx (vreg out1));
              Ok (mkS e1 (lset i (Some out1) rs1) (children s))
        | temp :: _ =>
            do '(e1, temp_ssa) <- insert_mv (em s) (m_value m) temp (m_w m);
            do '(e2, rs2) <- break_chain loop_fuel (m_dst m) e1 (results s) (m_src m);
            do '(e3, nv) <- insert_mv e2 temp_ssa (m_dst m) (m_w m);
            Ok (mkS e3 (lset idx (Some nv) rs2) (children s))
        end
    | _ => Ok s
    end.

  (* match_and_rewrite after verification; `free` = op.free_registers (or [] when absent).
     rewriter.replace(op, (), results): a result that is still None is erased, which raises
     ValueError when the result has a use (the harness gives every result a use). *)
End Lower.

(* match_and_rewrite after verification; `free` = op.free_registers (or [] when absent).
   rewriter.replace(op, (), results): a result that is still None is erased, which raises
   ValueError when the result has a use (the harness gives every result a use). *)
Definition rewrite (c : cfg) (ms : list move) (free : list reg) : res (list instr * list value) :=
  if negb (forallb (fun m => is_alloc (m_src m) && is_alloc (m_dst m)) ms) then Raise EPassFailed else
  let t := tables_of c ms in
  do '(e0, r0) <- (if zero_first c then zero_pass (combine (seq 0 (length ms)) ms) [] (results0 t)
                   else Ok ([], results0 t));
  let s0 := mkS e0 r0 (children_of c ms) in
  do '(s2, fi, ff) <- fold_left (loop2_step c (ckey c) (wlook c ms) ms t (leaves t)) (map m_dst ms)
                        (Ok (s0, filter (fun r => negb (is_float r)) free, filter is_float free));
  do s3 <- fold_left (loop3_step c (wlook c ms) ms t fi ff) (combine (seq 0 (length ms)) ms) (Ok s2);
  if forallb (fun o => match o with Some _ => true | None => false end) (results s3)
  then Ok (em s3, flat_map (fun o => match o with Some v => [v] | None => [] end) (results s3))
  else Raise EValueError.

(* op.verify() followed by the pass *)
Definition lower (c : cfg) (ms : list move) (free : list reg) : res (list instr * list value) :=
  if verify ms then rewrite c ms free else Raise EVerify.

(* ------------------------------------------------------------------ register machine
   64-bit registers as integers; x0 (`zero`) reads 0 and ignores writes; fmv.s copies the low
   32 bits and NaN-boxes them (upper 32 bits all ones); mv / fmv.d copy the whole register. *)
Definition regfile := reg -> Z.
Definition get (rho : regfile) (r : reg) : Z := if r =? ZERO then 0 else rho r.
Definition set (rho : regfile) (d : reg) (v : Z) : regfile :=
  fun r => if d =? ZERO then rho r else if r =? d then v else rho r.
Definition narrow (x : Z) : Z := x mod 2 ^ 32 + (2 ^ 64 - 2 ^ 32).
Definition step (rho : regfile) (i : instr) : regfile :=
  match i with
  | Mv d s => set rho d (get rho (vreg s))
  | FMvD d s => set rho d (get rho (vreg s))
  | FMvS d s => set rho d (narrow (get rho (vreg s)))
  | Xor d a b => set rho d (Z.lxor (get rho (vreg a)) (get rho (vreg b)))
  end.
Definition exec (is : list instr) (rho : regfile) : regfile := fold_left step is rho.
