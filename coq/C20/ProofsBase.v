(* C20/ProofsBase.v -- generic lemmas: lists, functional dictionaries, the result monad,
   the register machine. *)
From Coq Require Import ZArith List Bool Lia ZifyBool.
From XV Require Import C20.Model.
Import ListNotations.
Local Open Scope Z_scope.

(* ---------------------------------------------------------------- dictionaries *)
Lemma upd_same {A} (f : Z -> A) k v : upd f k v k = v.
Proof. unfold upd. now rewrite Z.eqb_refl. Qed.
Lemma upd_other {A} (f : Z -> A) k v x : x <> k -> upd f k v x = f x.
Proof. unfold upd. intros H. destruct (Z.eqb_spec x k); [contradiction | reflexivity]. Qed.

(* ---------------------------------------------------------------- lset / nth_error *)
Lemma lset_length {A} i (v : A) l : length (lset i v l) = length l.
Proof. revert i; induction l as [|x l IH]; intros [|i]; simpl; auto. Qed.
Lemma nth_lset_same {A} i (v : A) l : (i < length l)%nat -> nth_error (lset i v l) i = Some v.
Proof.
  revert i; induction l as [|x l IH]; intros [|i] H; simpl in *; try lia; auto.
  apply IH. lia.
Qed.
Lemma nth_lset_other {A} i j (v : A) l : i <> j -> nth_error (lset i v l) j = nth_error l j.
Proof.
  revert i j; induction l as [|x l IH]; intros [|i] [|j] H; simpl; auto; try congruence.
Qed.
Lemma nth_error_lt {A} (l : list A) i x : nth_error l i = Some x -> (i < length l)%nat.
Proof. intros H. apply nth_error_Some. congruence. Qed.

(* number of unresolved entries *)
Fixpoint count_none {A} (l : list (option A)) : nat :=
  match l with [] => O | None :: r => S (count_none r) | Some _ :: r => count_none r end.
Lemma count_none_lset {A} i (v : A) l :
  nth_error l i = Some None -> S (count_none (lset i (Some v) l)) = count_none l.
Proof.
  revert i; induction l as [|x l IH]; intros [|i] H; simpl in *; try discriminate.
  - inversion H; subst. reflexivity.
  - destruct x; simpl; rewrite <- (IH i H); reflexivity.
Qed.
Lemma count_none_le {A} (l : list (option A)) : (count_none l <= length l)%nat.
Proof. induction l as [|[x|] l IH]; cbn [count_none length]; lia. Qed.

Lemma combine_seq_snoc {A} (l : list A) (x : A) k :
  combine (seq k (length (l ++ [x]))) (l ++ [x]) = combine (seq k (length l)) l ++ [((k + length l)%nat, x)].
Proof.
  revert k; induction l as [|y l IH]; intros k; simpl.
  - now rewrite Nat.add_0_r.
  - rewrite IH. simpl. replace (k + S (length l))%nat with (S (k + length l)) by lia. reflexivity.
Qed.

Lemma In_nth_error_ex {A} (l : list A) x : In x l -> exists i, nth_error l i = Some x.
Proof. apply In_nth_error. Qed.

Lemma NoDup_map_nth_inj {A B} (f : A -> B) (l : list A) i j a b :
  NoDup (map f l) -> nth_error l i = Some a -> nth_error l j = Some b -> f a = f b -> i = j.
Proof.
  intros ND Hi Hj E.
  assert (Hi' : nth_error (map f l) i = Some (f a)) by (now rewrite nth_error_map, Hi).
  assert (Hj' : nth_error (map f l) j = Some (f b)) by (now rewrite nth_error_map, Hj).
  rewrite NoDup_nth_error in ND. apply ND.
  - apply nth_error_lt in Hi'. exact Hi'.
  - congruence.
Qed.
Lemma NoDup_map_In_inj {A B} (f : A -> B) (l : list A) a b :
  NoDup (map f l) -> In a l -> In b l -> f a = f b -> a = b.
Proof.
  intros ND Ha Hb E.
  destruct (In_nth_error _ _ Ha) as [i Hi]. destruct (In_nth_error _ _ Hb) as [j Hj].
  assert (i = j) by (eapply NoDup_map_nth_inj; eauto). subst. congruence.
Qed.

(* ---------------------------------------------------------------- result monad *)
Lemma bind_Ok {A B} (r : res A) (f : A -> res B) b :
  bind r f = Ok b -> exists a, r = Ok a /\ f a = Ok b.
Proof. destruct r; simpl; intros H; try discriminate. eauto. Qed.
Lemma key_Ok {A} (o : option A) a : key o = Ok a -> o = Some a.
Proof. destruct o; simpl; intros H; inversion H; reflexivity. Qed.

(* ---------------------------------------------------------------- register machine *)
Lemma exec_app is1 is2 rho : exec (is1 ++ is2) rho = exec is2 (exec is1 rho).
Proof. unfold exec. apply fold_left_app. Qed.
Lemma exec_snoc is i rho : exec (is ++ [i]) rho = step (exec is rho) i.
Proof. now rewrite exec_app. Qed.
Lemma get_zero rho : get rho ZERO = 0.
Proof. reflexivity. Qed.
Lemma get_set_same rho d v : d <> ZERO -> get (set rho d v) d = v.
Proof.
  intros H. unfold get, set. destruct (Z.eqb_spec d ZERO); [contradiction|].
  now rewrite Z.eqb_refl.
Qed.
Lemma get_set_other rho d v r : r <> d -> get (set rho d v) r = get rho r.
Proof.
  intros H. unfold get, set. destruct (Z.eqb_spec r ZERO); [reflexivity|].
  destruct (Z.eqb_spec d ZERO); [reflexivity|].
  destruct (Z.eqb_spec r d); [contradiction | reflexivity].
Qed.
Lemma narrow_idem x : narrow (narrow x) = narrow x.
Proof.
  unfold narrow.
  assert (H : (x mod 2 ^ 32 + (2 ^ 64 - 2 ^ 32)) mod 2 ^ 32 = x mod 2 ^ 32).
  { replace (2 ^ 64 - 2 ^ 32) with ((2 ^ 32 - 1) * 2 ^ 32) by reflexivity.
    rewrite Z.mod_add by (compute; congruence). apply Z.mod_mod. compute; congruence. }
  now rewrite H.
Qed.

(* what _insert_mv_op emits for a move of width w between registers of one kind *)
Definition copyf (fl : bool) (w : Z) (x : Z) : Z := if fl && (w =? 32) then narrow x else x.
Lemma copyf_idem fl w x : copyf fl w (copyf fl w x) = copyf fl w x.
Proof. unfold copyf. destruct (fl && (w =? 32)); auto using narrow_idem. Qed.

Definition instr_rd (i : instr) : reg :=
  match i with Mv d _ | FMvS d _ | FMvD d _ | Xor d _ _ => d end.

Lemma insert_mv_Ok e src dst w e' nv :
  insert_mv e src dst w = Ok (e', nv) -> is_float (vreg src) = is_float dst ->
  okw w = true /\ nv = new_value e dst /\
  exists i, e' = e ++ [i] /\ instr_rd i = dst /\
    forall rho, step rho i = set rho dst (copyf (is_float dst) w (get rho (vreg src))).
Proof.
  unfold insert_mv. intros H K. rewrite K in H.
  destruct (is_float dst) eqn:Fd; destruct (okw w) eqn:Ow; try discriminate.
  - inversion H; subst. repeat split; auto. eexists; split; [reflexivity|]. split.
    + destruct (w =? 32); reflexivity.
    + intros rho. unfold copyf. simpl. destruct (w =? 32); reflexivity.
  - inversion H; subst. repeat split; auto. eexists; split; [reflexivity|]. split; [reflexivity|].
    intros rho. reflexivity.
Qed.
Lemma insert_mv_res e src dst w :
  is_float (vreg src) = is_float dst ->
  (exists e' nv, insert_mv e src dst w = Ok (e', nv)) \/ (insert_mv e src dst w = Raise EPassFailed /\ okw w = false).
Proof.
  unfold insert_mv. intros K. rewrite K.
  destruct (is_float dst); destruct (okw w); eauto.
Qed.
