(* C20/ProofsCycle.v -- finite-graph lemma used for the cycle phase: if every node of a finite
   set U has a child in U (w.r.t. a partial parent function), then the parent function is a
   bijection on U and every node of U lies on a duplicate-free parent cycle inside U. *)
From Coq Require Import ZArith List Bool Lia Arith.
Import ListNotations.

Fixpoint chain (par : Z -> option Z) (x : Z) (l : list Z) : Prop :=
  match l with [] => True | y :: r => par x = Some y /\ chain par y r end.

Lemma Forall2_choice {A B} (R : A -> B -> Prop) (l : list A) :
  (forall a, In a l -> exists b, R a b) -> exists l', Forall2 R l l'.
Proof.
  induction l as [|a l IH]; intros H.
  - exists []. constructor.
  - destruct (H a (or_introl eq_refl)) as [b Hb].
    destruct IH as [l' Hl']; [intros; apply H; now right|].
    exists (b :: l'). now constructor.
Qed.
Lemma Forall2_len {A B} (R : A -> B -> Prop) l l' : Forall2 R l l' -> length l = length l'.
Proof. induction 1; simpl; congruence. Qed.
Lemma Forall2_In_r {A B} (R : A -> B -> Prop) l l' b :
  Forall2 R l l' -> In b l' -> exists a, In a l /\ R a b.
Proof.
  induction 1 as [|a b' l l' Hab HF IH]; intros I; [destruct I|].
  destruct I as [<-|I]; [exists a; split; [now left|assumption]|].
  destruct (IH I) as (a' & Ia & Ra). exists a'. split; [now right|assumption].
Qed.
Lemma Forall2_nth_r {A B} (R : A -> B -> Prop) l l' :
  Forall2 R l l' -> forall k b, nth_error l' k = Some b -> exists a, nth_error l k = Some a /\ R a b.
Proof.
  induction 1 as [|a b' l l' Hab HF IH]; intros k b H; [destruct k; discriminate|].
  destruct k as [|k]; simpl in *; [inversion H; subst; eauto|eauto].
Qed.
Lemma Forall2_NoDup_r {A B} (R : A -> B -> Prop) l l' :
  (forall a a' b, R a b -> R a' b -> a = a') -> Forall2 R l l' -> NoDup l -> NoDup l'.
Proof.
  intros Hinj. induction 1 as [|a b l l' Hab HF IH]; intros ND; [constructor|].
  inversion ND as [|? ? Ha ND']; subst. constructor; [|auto].
  intros I. destruct (Forall2_In_r _ _ _ _ HF I) as (a' & Ia & Ra).
  assert (a = a') by (eapply Hinj; eauto). subst. contradiction.
Qed.

Lemma nth_error_seq' a n i : i < n -> nth_error (seq a n) i = Some (a + i).
Proof.
  revert a i; induction n; intros a i L; [lia|].
  destruct i; simpl; [f_equal; lia|]. rewrite IHn by lia. f_equal; lia.
Qed.
Lemma not_NoDup_ex (l : list Z) : ~ NoDup l ->
  exists i j x, i < j /\ nth_error l i = Some x /\ nth_error l j = Some x.
Proof.
  induction l as [|x r IH]; intros H; [exfalso; apply H; constructor|].
  destruct (in_dec Z.eq_dec x r) as [I|I].
  - destruct (In_nth_error _ _ I) as [j Hj]. exists 0, (S j), x. repeat split; [lia|assumption].
  - destruct IH as (i & j & y & L & Hi & Hj).
    + intros ND. apply H. now constructor.
    + exists (S i), (S j), y. repeat split; [lia|assumption|assumption].
Qed.

Lemma least_ex (Q : nat -> Prop) (dec : forall n, {Q n} + {~ Q n}) n :
  Q n -> exists m, Q m /\ forall m', m' < m -> ~ Q m'.
Proof.
  induction n as [n IH] using lt_wf_ind. intros Hn.
  destruct (Exists_dec (fun m' => Q m') (seq 0 n)) as [E|E].
  - intros x. destruct (dec x); [left|right]; assumption.
  - apply Exists_exists in E as (m & Im & Qm). apply in_seq in Im. apply (IH m); [lia|assumption].
  - exists n. split; [assumption|]. intros m' L Qm. apply E. apply Exists_exists.
    exists m'. split; [apply in_seq; lia|assumption].
Qed.

Section Orbit.
  Variable par : Z -> option Z.
  Variable U : list Z.
  Hypothesis NDU : NoDup U.
  Hypothesis child : forall d, In d U -> exists c, In c U /\ par c = Some d.

  Lemma par_total_inj :
    (forall u, In u U -> exists p, par u = Some p /\ In p U) /\
    (forall a b p, In a U -> In b U -> par a = Some p -> par b = Some p -> a = b).
  Proof.
    destruct (Forall2_choice (fun d c => In c U /\ par c = Some d) U child) as [C HC].
    assert (NDC : NoDup C).
    { eapply Forall2_NoDup_r; [|exact HC|exact NDU].
      intros a a' b [_ H1] [_ H2]. congruence. }
    assert (IC : incl C U).
    { intros c I. destruct (Forall2_In_r _ _ _ _ HC I) as (a & _ & Ic & _). exact Ic. }
    assert (LC : length U = length C) by (eapply Forall2_len; eauto).
    assert (IU : incl U C).
    { apply NoDup_length_incl; [assumption|lia|assumption]. }
    split.
    - intros u Iu. apply IU in Iu. destruct (Forall2_In_r _ _ _ _ HC Iu) as (a & Ia & _ & Pa). eauto.
    - intros a b p Ia Ib Pa Pb.
      (* a and b are the chosen children of p; C is duplicate free and in bijection with U *)
      apply IU in Ia, Ib.
      destruct (In_nth_error _ _ Ia) as [i Hi]. destruct (In_nth_error _ _ Ib) as [j Hj].
      destruct (Forall2_nth_r _ _ _ HC _ _ Hi) as (di & Ui & _ & Pi).
      destruct (Forall2_nth_r _ _ _ HC _ _ Hj) as (dj & Uj & _ & Pj).
      assert (di = dj) by congruence. subst dj.
      assert (i = j).
      { rewrite NoDup_nth_error in NDU. apply NDU; [apply nth_error_Some; congruence|congruence]. }
      subst j. congruence.
  Qed.

  Definition pp (x : Z) : Z := match par x with Some p => p | None => x end.
  Lemma pp_in x : In x U -> In (pp x) U /\ par x = Some (pp x).
  Proof.
    intros I. destruct (proj1 par_total_inj x I) as (p & Hp & Ip). unfold pp. rewrite Hp. auto.
  Qed.
  Lemma pp_inj a b : In a U -> In b U -> pp a = pp b -> a = b.
  Proof.
    intros Ia Ib E. destruct (pp_in a Ia) as [_ Pa]. destruct (pp_in b Ib) as [_ Pb].
    rewrite E in Pa. eapply (proj2 par_total_inj); eauto.
  Qed.
  Lemma iter_in k x : In x U -> In (Nat.iter k pp x) U.
  Proof. intros I. induction k; simpl; [assumption|]. now apply pp_in. Qed.
  Lemma iter_add p q x : Nat.iter (p + q) pp x = Nat.iter p pp (Nat.iter q pp x).
  Proof. induction p; simpl; congruence. Qed.
  Lemma iter_cancel k a b : In a U -> In b U -> Nat.iter k pp a = Nat.iter k pp b -> a = b.
  Proof.
    intros Ia Ib. induction k; simpl; intros E; [assumption|].
    apply IHk. apply pp_inj; auto using iter_in.
  Qed.

  Lemma returns d : In d U -> exists k, 1 <= k <= length U /\ Nat.iter k pp d = d.
  Proof.
    intros Id.
    set (L := map (fun k => Nat.iter k pp d) (seq 0 (S (length U)))).
    assert (HL : ~ NoDup L).
    { intros ND. assert (length L <= length U).
      { apply NoDup_incl_length; [assumption|]. intros x Ix. unfold L in Ix.
        apply in_map_iff in Ix as (k & <- & _). now apply iter_in. }
      unfold L in H. rewrite map_length, seq_length in H. lia. }
    destruct (not_NoDup_ex L HL) as (i & j & x & Lt & Hi & Hj).
    assert (Bj : j < S (length U)).
    { assert (j < length L) by (apply nth_error_Some; congruence).
      unfold L in H. now rewrite map_length, seq_length in H. }
    unfold L in Hi, Hj. rewrite nth_error_map in Hi, Hj.
    rewrite nth_error_seq' in Hi, Hj by lia. simpl in Hi, Hj.
    exists (j - i). split; [lia|].
    assert (E : Nat.iter i pp (Nat.iter (j - i) pp d) = Nat.iter i pp d).
    { rewrite <- iter_add. replace (i + (j - i)) with j by lia. congruence. }
    apply iter_cancel in E; auto using iter_in.
  Qed.

  Fixpoint orb (n : nat) (x : Z) : list Z :=
    match n with O => [] | S n => pp x :: orb n (pp x) end.
  Lemma iter_pp_comm i x : Nat.iter i pp (pp x) = pp (Nat.iter i pp x).
  Proof. induction i; simpl; congruence. Qed.
  Lemma orb_nth n : forall x i, i < n -> nth_error (orb n x) i = Some (Nat.iter (S i) pp x).
  Proof.
    induction n; intros x i L; [lia|]. destruct i as [|i]; simpl; [reflexivity|].
    rewrite IHn by lia. f_equal. simpl. now rewrite iter_pp_comm.
  Qed.
  Lemma orb_length n x : length (orb n x) = n.
  Proof. revert x; induction n; intros x; simpl; auto. Qed.
  Lemma orb_chain n : forall x, In x U -> chain par x (orb n x).
  Proof.
    induction n; intros x I; simpl; [exact Logic.I|].
    destruct (pp_in x I). auto.
  Qed.
  Lemma orb_incl n : forall x, In x U -> incl (orb n x) U.
  Proof.
    induction n; intros x I y Iy; simpl in Iy; [destruct Iy|].
    destruct (pp_in x I) as [Ip _]. destruct Iy as [<-|Iy]; [assumption|]. eapply IHn; eauto.
  Qed.

  (* every node of U lies on a duplicate-free cycle d -> y1 -> ... -> yk = d of parent links *)
  Lemma cycle_of d : In d U ->
    exists cyc, cyc <> [] /\ chain par d cyc /\ last cyc d = d /\ NoDup cyc /\ incl cyc U.
  Proof.
    intros Id. destruct (returns d Id) as (k0 & B0 & R0).
    destruct (least_ex (fun k => 1 <= k /\ Nat.iter k pp d = d)) with (n := k0) as (k & [K1 Kr] & Kmin).
    - intros n. destruct (le_dec 1 n); [|right; tauto].
      destruct (Z.eq_dec (Nat.iter n pp d) d); [left|right]; tauto.
    - tauto.
    - exists (orb k d). repeat split.
      + destruct k; [lia|simpl; congruence].
      + now apply orb_chain.
      + destruct k as [|k]; [lia|].
        assert (H : nth_error (orb (S k) d) k = Some (Nat.iter (S k) pp d)) by (apply orb_nth; lia).
        assert (L : length (orb (S k) d) = S k) by apply orb_length.
        clear -H L Kr. rewrite Kr in H.
        destruct (orb (S k) d) as [|a l] eqn:E using rev_ind; [discriminate|].
        rewrite last_last. rewrite app_length in L. simpl in L.
        rewrite nth_error_app2 in H by lia. replace (k - length l) with 0 in H by lia.
        simpl in H. congruence.
      + apply NoDup_nth_error. intros i j Li E. rewrite orb_length in Li.
        destruct (Nat.lt_ge_cases j k) as [Lj|Lj].
        * rewrite !orb_nth in E by lia.
          assert (E' : Nat.iter (S i) pp d = Nat.iter (S j) pp d) by congruence. clear E.
          destruct (Nat.lt_trichotomy i j) as [L|[L|L]]; [|assumption|].
          -- exfalso. apply (Kmin (j - i)); [lia|]. split; [lia|].
             replace (S j) with (S i + (j - i)) in E' by lia. rewrite iter_add in E'.
             symmetry. eapply iter_cancel; eauto using iter_in.
          -- exfalso. apply (Kmin (i - j)); [lia|]. split; [lia|].
             replace (S i) with (S j + (i - j)) in E' by lia. rewrite iter_add in E'.
             symmetry. eapply iter_cancel; eauto using iter_in.
        * rewrite orb_nth in E by lia. symmetry in E.
          assert (j < length (orb k d)) by (apply nth_error_Some; congruence).
          rewrite orb_length in H. lia.
      + now apply orb_incl.
  Qed.
End Orbit.
