(* C20/Enc.v -- encoders of model results into `sx` and enumerators of move graphs for the
   exhaustive sweeps of the correspondence check (definitions only; mirrored function by
   function in harness/props/c20.py). *)
From Coq Require Import ZArith List Bool.
From XV Require Import Base.Show C20.Model.
Import ListNotations.
Local Open Scope Z_scope.

Definition exn_code (e : exn) : Z :=
  match e with
  | EPassFailed => 9 | EAssertion => 6 | EKeyError => 4 | EValueError => 3
  | EVerify => 2 | ENotImplemented => 8
  end.
Definition enc_value (v : value) : sx := L [I (vid v); I (vreg v)].
Definition enc_instr (i : instr) : sx :=
  match i with
  | Mv d s => L [I 1; I d; enc_value s]
  | FMvS d s => L [I 2; I d; enc_value s]
  | FMvD d s => L [I 3; I d; enc_value s]
  | Xor d a b => L [I 4; I d; enc_value a; enc_value b]
  end.
Definition enc_res (r : res (list instr * list value)) : sx :=
  match r with
  | Ok (is, rs) => L [I 0; L (map enc_instr is); L (map (fun v => I (vid v)) rs)]
  | Raise EVerify => L [I (-2); I (exn_code EVerify)]
  | Raise e => L [I (-1); I (exn_code e)]
  | OutOfFuel => L [I (-3)]
  end.
Definition c20_case (c : cfg) (ms : list move) (free : list reg) : sx := enc_res (lower c ms free).

(* ---- enumeration of move graphs ---- *)
Fixpoint insert_all {A} (x : A) (l : list A) : list (list A) :=
  match l with
  | [] => [[x]]
  | y :: r => (x :: y :: r) :: map (cons y) (insert_all x r)
  end.
Fixpoint perms {A} (l : list A) : list (list A) :=
  match l with [] => [[]] | x :: r => flat_map (insert_all x) (perms r) end.
Fixpoint choices {A} (opts : list A) (n : nat) : list (list A) :=
  match n with
  | O => [[]]
  | S k => flat_map (fun o => map (cons o) (choices opts k)) opts
  end.
(* a graph on `regs`: every register has no incoming move or one source among `regs` (itself included) *)
Definition edges_of (ps : list (option reg)) (regs : list reg) : list (reg * reg) :=
  flat_map (fun pd => match fst pd with Some s => [(s, snd pd)] | None => [] end) (combine ps regs).
Definition graphs (regs : list reg) : list (list (reg * reg)) :=
  map (fun ps => edges_of ps regs) (choices (None :: map Some regs) (length regs)).
(* one SSA value per source register, numbered by first appearance; width by a fixed rule *)
Definition wrule (s : reg) : Z := if Z.odd (s / 2) then 32 else 64.
Fixpoint id_of (seen : list reg) (s : reg) (i : Z) : Z :=
  match seen with [] => i | x :: r => if x =? s then i else id_of r s (i + 1) end.
Fixpoint moves_of (seen : list reg) (es : list (reg * reg)) : list move :=
  match es with
  | [] => []
  | (s, d) :: r =>
      let seen' := if existsb (Z.eqb s) seen then seen else seen ++ [s] in
      mkM (id_of seen' s 0) s d (wrule s) :: moves_of seen' r
  end.
(* ---- compact fingerprints: Coq's printer is slow on long strings, so a sweep prints one
   polynomial hash (mod 2^60) per block of 64 cases; the harness computes the same hashes from
   the implementation's results and re-evaluates a block case by case when a hash differs. ---- *)
Definition HM : Z := 1152921504606846975.    (* 2^60 - 1, used as a mask *)
Definition HB : Z := 1000003.
Definition hstep (h x : Z) : Z := Z.land (h * HB + x + 1000) HM.
Fixpoint hash_sx (s : sx) (h : Z) : Z :=
  match s with
  | I z => hstep h z
  | L l => hstep ((fix go (l : list sx) (h : Z) : Z :=
                     match l with [] => h | x :: r => go r (hash_sx x h) end) l (hstep h 1000033))
                 1000037
  end.
Definition hash_block (l : list sx) : Z := fold_left (fun h s => hash_sx s h) l 0.
Fixpoint chunks_aux {A} (n k : nat) (cur : list A) (l : list A) : list (list A) :=
  match l with
  | [] => match cur with [] => [] | _ => [rev cur] end
  | x :: r => match k with
              | O => rev cur :: chunks_aux n n [x] r
              | S k' => chunks_aux n k' (x :: cur) r
              end
  end.
Definition chunks {A} (n : nat) (l : list A) : list (list A) :=
  match l with [] => [] | x :: r => chunks_aux (n - 1) (n - 1) [x] r end.

(* orders of the moves: all = every permutation; otherwise three fixed orders *)
Definition orders {A} (all : bool) (gi gf : list A) : list (list A) :=
  if all then perms (gi ++ gf) else [gi ++ gf; rev (gi ++ gf); gf ++ rev gi].
Definition sweep_cases (c : cfg) (all : bool) (first : option reg) (iregs fregs : list reg) (free : list reg)
  : list sx :=
  flat_map (fun gi =>
       flat_map (fun gf => map (fun p => c20_case c (moves_of [] p) free) (orders all gi gf))
                (graphs fregs))
       (filter (fun g => match first, g, iregs with
                         | None, [], _ => true
                         | None, (_, d) :: _, r0 :: _ => negb (d =? r0)
                         | Some s, (s', d) :: _, r0 :: _ => (d =? r0) && (s' =? s)
                         | _, _, _ => false
                         end) (graphs iregs)).
Definition c20_sweep_h (c : cfg) (all : bool) (first : option reg) (iregs fregs : list reg) (free : list reg) : sx :=
  L (map (fun b => I (hash_block b)) (chunks 64 (sweep_cases c all first iregs fregs free))).
