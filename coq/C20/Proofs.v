(* C20/Proofs.v -- the third loop, and the theorems about `lower`. *)
From Coq Require Import ZArith List Bool Lia ZifyBool Relations.
From XV Require Import C20.Model C20.Spec C20.ProofsBase C20.ProofsTables C20.ProofsCycle
  C20.ProofsPhase1 C20.ProofsPhase3.
Import ListNotations.
Local Open Scope Z_scope.

Lemma in_last_or_removelast {A} (l : list A) x z :
  In z (x :: l) -> z = last l x \/ In z (removelast (x :: l)).
Proof.
  revert x; induction l as [|y l IH]; intros x I.
  - destruct I as [<-|[]]. now left.
  - rewrite removelast_cons2, last_cons_default. destruct I as [<-|I]; [right; now left|].
    destruct (IH y I) as [E|E]; [now left|right; now right].
Qed.

Section Main.
  Variable ms : list move.
  Variable free : list reg.
  Variable c : cfg.
  Variable ck : value -> Z.
  Variable wl : value -> reg -> option Z.
  Variable ch0 : Z -> Z.
  Hypothesis WF : wf_all ms free.
  Hypothesis Hkey : forall a b, In a ms -> In b ms ->
    (ck (m_value a) = ck (m_value b) <-> m_src a = m_src b).
  Hypothesis Hw : forall m, In m ms -> trivb m = false -> wl (m_value m) (m_dst m) = Some (m_w m).
  Hypothesis Hch0 : forall k,
    ch0 k = Z.of_nat (length (filter (fun m => negb (trivb m) && (ck (m_value m) =? k)) ms)).
  Hypothesis Hrf : root_free c = false.
  Hypothesis Hxo : xor_old c = false.

  Notation P := (src_by_dst (loop1 ms)).
  Notation oidx := (output_index ms).
  Notation doneb := (doneb ms).
  Notation par := (par ms).
  Notation fi := (filter (fun r => negb (is_float r)) free).
  Notation ff := (filter is_float free).
  Let ND : NoDup (map m_dst ms) := wa_dsts _ _ WF.

  Lemma free_of_head d temp rest : free_of fi ff d = temp :: rest ->
    In temp free /\ is_float temp = is_float d.
  Proof.
    unfold free_of. intros H.
    destruct (is_float d) eqn:F.
    - assert (I : In temp ff) by (rewrite H; now left). apply filter_In in I. tauto.
    - assert (I : In temp fi) by (rewrite H; now left). apply filter_In in I as [I1 I2].
      apply negb_true_iff in I2. tauto.
  Qed.
  Lemma free_of_nil_float d : free_of fi ff d = [] -> is_float d = true ->
    forall f, In f free -> is_float f = false.
  Proof.
    unfold free_of. intros H F f If. rewrite F in H.
    destruct (is_float f) eqn:E; [|reflexivity]. exfalso.
    assert (In f ff) by (apply filter_In; auto). rewrite H in H0. destruct H0.
  Qed.

  Lemma chain_kind x l : chain par x l -> forall z, In z l -> is_float z = is_float x.
  Proof.
    revert x; induction l as [|y l IH]; intros x C z Iz; [destruct Iz|].
    destruct C as [Px C].
    assert (Ky : is_float y = is_float x).
    { destruct (par_move ms free WF _ _ Px) as (m & Im & _ & Dm & Sm & _).
      rewrite <- Dm, <- Sm. apply (wa_kinds _ _ WF m Im). }
    destruct Iz as [<-|Iz]; [assumption|]. rewrite (IH y C z Iz). exact Ky.
  Qed.

  Lemma loop3_step_spec s k m : Inv3 ms free s -> nth_error ms k = Some m ->
    match loop3_step c wl ms (loop1 ms) fi ff (Ok s) (k, m) with
    | Ok s' => Inv3 ms free s' /\ doneb (results s') (m_dst m) = true
               /\ (forall r, doneb (results s) r = true -> doneb (results s') r = true)
               /\ (forall r, is_float r <> is_float (m_dst m) -> doneb (results s') r = doneb (results s) r)
    | Raise e => e = EPassFailed /\ fail_cause ms free
    | OutOfFuel => False
    end.
  Proof.
    intros K Hk. unfold loop3_step. cbn [bind].
    pose proof (output_index_of ms k m ND Hk) as Oidx.
    assert (Im : In m ms) by (eapply nth_error_In; eauto).
    destruct (nth_error (results s) k) as [[v|]|] eqn:Ek.
    - split; [assumption|]. split; [|auto]. unfold ProofsPhase1.doneb. now rewrite Oidx, Ek.
    - (* an unresolved result: its register lies on a cycle *)
      assert (Tm : trivb m = false).
      { destruct (trivb m) eqn:T; [|reflexivity]. rewrite (K_triv ms free s K k m Hk T) in Ek. discriminate. }
      assert (Dd : doneb (results s) (m_dst m) = false) by (unfold ProofsPhase1.doneb; now rewrite Oidx, Ek).
      assert (Pd : P (m_dst m) = Some (m_value m)) by (now apply (P_of ms free WF)).
      destruct (cycle_at ms free WF s (m_dst m) K) as (y1 & l & Ch & La & NDc & HC); [congruence|assumption|].
      assert (y1 = m_src m).
      { destruct Ch as [Pp _]. destruct (par_move ms free WF _ _ Pp) as (m2 & I2 & _ & D2 & S2 & _).
        assert (m2 = m) by (now apply (dst_inj ms free WF)). now subst. }
      subst y1.
      assert (Hcl := fun z => cycle_closed ms (m_dst m) (m_src m) l z Ch La).
      assert (HCp : forall z, In z (m_src m :: l) -> P z <> None) by (intros z Iz; now apply HC).
      assert (Ckind : forall z, In z (m_src m :: l) -> is_float z = is_float (m_dst m))
        by (apply (chain_kind (m_dst m) (m_src m :: l)); exact Ch).
      assert (Fu : (length l < loop_fuel ms)%nat) by (now apply (cycle_len ms free WF (m_src m) l)).
      assert (Kl := K_len ms free s K).
      assert (NZd : m_dst m <> ZERO) by (now apply (nontriv_dst_nonzero ms free WF)).
      assert (Klt : (k < length ms)%nat) by (now apply nth_error_lt in Hk).
      assert (Hslot : forall rs', (forall i, (forall r, In r (removelast (m_src m :: l)) -> oidx r <> Some i) ->
                          nth_error rs' i = nth_error (results s) i) ->
                forall i mi, nth_error ms i = Some mi -> trivb mi = true ->
                nth_error rs' i = nth_error (results s) i).
      { intros rs' Sl i mi Hi Ti. apply Sl. intros r Ir Or.
        apply removelast_incl in Ir. specialize (HCp r Ir).
        destruct (P r) as [pv|] eqn:Er; [|congruence].
        destruct (P_inv ms free WF _ _ Er) as (mr & Imr & Tmr & Dmr & _).
        destruct (output_index_Some ms r i ND Or) as (m' & Hm' & Dm').
        assert (m' = mi) by congruence. subst m'.
        assert (mi = mr) by (apply (dst_inj ms free WF); eauto using nth_error_In; congruence).
        subst. congruence. }
      destruct (free_of fi ff (m_dst m)) as [|temp rest] eqn:Fo.
      + destruct (is_float (m_dst m)) eqn:Fl.
        * split; [reflexivity|]. right. right. exists (m_dst m).
          split; [eapply chain_cycle; eauto|]. split; [assumption|]. now apply free_of_nil_float with (d := m_dst m).
        * (* integer cycle rotated by xor swaps *)
          simpl vreg.
          assert (Ps : P (m_src m) <> None) by (apply HCp; now left).
          destruct (P (m_src m)) as [inp|] eqn:Ei; [|congruence]. cbn [key bind]. rewrite Hxo.
          assert (Pl : par (last l (m_src m)) = Some (m_src m)) by (rewrite La; apply Ch).
          assert (Ns : ~ In (m_src m) l) by (now inversion NDc).
          destruct (xor_chain_spec ms free WF l (m_src m) (loop_fuel ms) (m_src m) (em s) (results s) inp (m_value m)
                      (proj2 Ch) NDc Pl Ns HCp eq_refl Ei Kl Fu)
            as (mvs & rs' & out' & Hx & Vo & Len' & Dn1 & Dn2 & Sl & Sem).
          rewrite Hx. cbn [bind]. rewrite Vo, La, Oidx. cbn [key bind].
          assert (Kr : (k < length rs')%nat) by lia.
          assert (DB : forall r, doneb (lset k (Some out') rs') r = if r =? m_dst m then true else doneb rs' r)
            by (intros r; now apply (doneb_lset ms free WF)).
          assert (Dall : forall r, In r (m_src m :: l) -> doneb (lset k (Some out') rs') r = true).
          { intros r Ir. rewrite DB. destruct (Z.eqb_spec r (m_dst m)); [reflexivity|].
            apply Dn1. destruct (in_last_or_removelast l (m_src m) r Ir); [congruence|assumption]. }
          assert (Dout : forall r, ~ In r (m_src m :: l) ->
                    doneb (lset k (Some out') rs') r = doneb (results s) r).
          { intros r Nr. rewrite DB. destruct (Z.eqb_spec r (m_dst m)) as [->|].
            - exfalso. apply Nr. rewrite <- La. apply last_in.
            - apply Dn2. intros Ir. apply Nr. now apply removelast_incl. }
          split; [|split].
          -- apply (cycle_step_inv ms free WF s _ (m_src m :: l) mvs K HC Hcl); simpl; auto.
             ++ now rewrite lset_length, Len'.
             ++ intros i mi Hi Ti. rewrite nth_lset_other by (intros <-; congruence).
                now apply (Hslot rs' Sl i mi).
             ++ intros rho. destruct (Sem rho) as (F1 & F2 & F3). split; [auto|].
                intros mx Imx Tmx Ic. f_equal.
                destruct (in_last_or_removelast l (m_src m) _ Ic) as [E|E].
                ** rewrite La in E. assert (mx = m) by (now apply (dst_inj ms free WF)). subst mx.
                   rewrite <- La at 1. exact F3.
                ** now apply F2.
          -- apply Dall. rewrite <- La. apply last_in.
          -- split.
             ++ intros r Hr. destruct (in_dec Z.eq_dec r (m_src m :: l)) as [Ic|Ic]; [now apply Dall|].
                now rewrite Dout.
             ++ intros r Kr'. apply Dout. intros Ic. apply Kr'. now apply Ckind.
      + (* the cycle is broken through the free register temp *)
        destruct (free_of_head _ _ _ Fo) as [Itemp Ktemp].
        assert (Ksrc : is_float (vreg (m_value m)) = is_float temp).
        { simpl. rewrite Ktemp. apply (wa_kinds _ _ WF m Im). }
        destruct (insert_mv_res (em s) (m_value m) temp (m_w m) Ksrc) as [(e1 & tv & Hins)|[Hins Hbw]].
        2:{ rewrite Hins. cbn [bind]. split; [reflexivity|]. right. left. exists m.
            split; [assumption|]. split; [now apply trivb_false|assumption]. }
        rewrite Hins. cbn [bind].
        destruct (insert_mv_Ok _ _ _ _ _ _ Hins Ksrc) as (Okw & -> & it & -> & _ & Hit).
        pose proof (break_chain_spec ms free wl WF Hw l (m_src m) (loop_fuel ms) (em s ++ [it]) (results s)
                      (proj2 Ch) NDc Kl Fu) as B. rewrite La in B.
        destruct (break_chain wl ms (loop1 ms) (loop_fuel ms) (m_dst m) (em s ++ [it]) (results s) (m_src m))
          as [[e2 rs2]|e0|]; cbn [bind].
        2:{ destruct B as [-> (mb & Imb & Tmb & Wmb)]. split; [reflexivity|]. right. left. exists mb.
            split; [assumption|]. split; [now apply trivb_false|assumption]. }
        2:{ destruct B. }
        destruct B as (mvs & -> & Len2 & Dn1 & Dn2 & Sl & Sem).
        assert (Kfin : is_float (vreg (new_value (em s) temp)) = is_float (m_dst m)) by (simpl; assumption).
        destruct (insert_mv_res ((em s ++ [it]) ++ mvs) (new_value (em s) temp) (m_dst m) (m_w m) Kfin)
          as [(e3 & nv & Hfin)|[_ Hbw]]; [|congruence].
        rewrite Hfin. cbn [bind].
        destruct (insert_mv_Ok _ _ _ _ _ _ Hfin Kfin) as (_ & -> & ifin & -> & _ & Hifin).
        assert (Kr : (k < length rs2)%nat) by lia.
        assert (DB : forall r, doneb (lset k (Some (new_value ((em s ++ [it]) ++ mvs) (m_dst m))) rs2) r
                               = if r =? m_dst m then true else doneb rs2 r)
          by (intros r; now apply (doneb_lset ms free WF)).
        set (rs3 := lset k (Some (new_value ((em s ++ [it]) ++ mvs) (m_dst m))) rs2) in *.
        assert (Dall : forall r, In r (m_src m :: l) -> doneb rs3 r = true).
        { intros r Ir. rewrite DB. destruct (Z.eqb_spec r (m_dst m)); [reflexivity|].
          apply Dn1. destruct (in_last_or_removelast l (m_src m) r Ir); [congruence|assumption]. }
        assert (Dout : forall r, ~ In r (m_src m :: l) -> doneb rs3 r = doneb (results s) r).
        { intros r Nr. rewrite DB. destruct (Z.eqb_spec r (m_dst m)) as [->|].
          - exfalso. apply Nr. rewrite <- La. apply last_in.
          - apply Dn2. intros Ir. apply Nr. now apply removelast_incl. }
        assert (NZt : temp <> ZERO) by (intros ->; now apply (wa_free_zero _ _ WF)).
        assert (Tc : ~ In temp (m_src m :: l)).
        { intros Ic. specialize (HCp temp Ic). destruct (P temp) as [pv|] eqn:Et; [|congruence].
          destruct (P_inv ms free WF _ _ Et) as (mt & Imt & _ & Dmt & _).
          destruct (wa_free _ _ WF temp mt Itemp Imt) as [_ N]. congruence. }
        assert (Trl : ~ In temp (removelast (m_src m :: l))) by (intros I; apply Tc; now apply removelast_incl).
        assert (Drl : ~ In (m_dst m) (removelast (m_src m :: l))).
        { rewrite <- La. clear -NDc. revert NDc. generalize (m_src m). induction l as [|y l IH]; intros x NDc; [intros []|].
          rewrite removelast_cons2, last_cons_default. intros [E|I].
          - apply NoDup_cons_iff in NDc as [Hx _]. apply Hx. rewrite E. apply last_in.
          - apply NoDup_cons_iff in NDc as [_ NDy]. now apply (IH y NDy). }
        split; [|split].
        * apply (cycle_step_inv ms free WF s _ (m_src m :: l) ([it] ++ mvs ++ [ifin]) K HC Hcl); simpl em; simpl results; auto.
          -- now rewrite <- !app_assoc.
          -- unfold rs3. now rewrite lset_length, Len2.
          -- intros i mi Hi Ti. unfold rs3. rewrite nth_lset_other by (intros <-; congruence).
             now apply (Hslot rs2 Sl i mi).
          -- intros rho. rewrite !exec_app. change (exec [it] rho) with (step rho it). rewrite Hit.
             set (rho2 := set rho temp (copyf (is_float temp) (m_w m) (get rho (vreg (m_value m))))).
             destruct (Sem rho2) as [F1 F2].
             change (exec [ifin] (exec mvs rho2)) with (step (exec mvs rho2) ifin). rewrite Hifin.
             simpl vreg. split.
             ++ intros r Nc Nf. rewrite get_set_other.
                ** rewrite F1 by (intros I; apply Nc; now apply removelast_incl).
                   unfold rho2. apply get_set_other. intros ->. contradiction.
                ** intros ->. apply Nc. rewrite <- La. apply last_in.
             ++ intros mx Imx Tmx Ic. rewrite !view_copyf.
                destruct (in_last_or_removelast l (m_src m) _ Ic) as [E|E].
                ** rewrite La in E. assert (mx = m) by (now apply (dst_inj ms free WF)). subst mx.
                   rewrite get_set_same by assumption. rewrite (F1 temp Trl).
                   unfold rho2. rewrite get_set_same by assumption. simpl vreg.
                   rewrite Ktemp. now rewrite !copyf_idem.
                ** rewrite get_set_other by (intros Ed; apply Drl; now rewrite <- Ed).
                   rewrite (F2 mx Imx Tmx E). rewrite copyf_idem. f_equal.
                   unfold rho2. apply get_set_other.
                   destruct (wa_free _ _ WF temp mx Itemp Imx) as [N _]. congruence.
        * apply Dall. rewrite <- La. apply last_in.
        * split.
          -- intros r Hr. destruct (in_dec Z.eq_dec r (m_src m :: l)) as [Ic|Ic]; [now apply Dall|].
             now rewrite Dout.
          -- intros r Kr'. apply Dout. intros Ic. apply Kr'. now apply Ckind.
    - exfalso. apply nth_error_None in Ek. rewrite (K_len ms free s K) in Ek.
      apply nth_error_lt in Hk. lia.
  Qed.

  Lemma loop3_fold_raise c0 f1 f2 e l : fold_left (loop3_step c0 wl ms (loop1 ms) f1 f2) l (Raise e) = Raise e.
  Proof. induction l; simpl; auto. Qed.
  Lemma loop3_fold_fuel c0 f1 f2 l : fold_left (loop3_step c0 wl ms (loop1 ms) f1 f2) l OutOfFuel = OutOfFuel.
  Proof. induction l; simpl; auto. Qed.

  Lemma triv_done s k m : Inv3 ms free s -> nth_error ms k = Some m -> trivb m = true ->
    doneb (results s) (m_dst m) = true.
  Proof.
    intros K Hk T. unfold ProofsPhase1.doneb.
    now rewrite (output_index_of ms k m ND Hk), (K_triv ms free s K k m Hk T).
  Qed.

  Lemma loop3_spec : forall l pre s,
    ms = pre ++ l -> Inv3 ms free s ->
    (forall m, In m pre -> doneb (results s) (m_dst m) = true) ->
    match fold_left (loop3_step c wl ms (loop1 ms) fi ff) (combine (seq (length pre) (length l)) l) (Ok s) with
    | Ok s' => Inv3 ms free s' /\ (forall m, In m ms -> doneb (results s') (m_dst m) = true)
    | Raise e => e = EPassFailed /\ fail_cause ms free
    | OutOfFuel => False
    end.
  Proof.
    induction l as [|m l IH]; intros pre s E K Hpre.
    - simpl. split; [assumption|]. intros m Im. apply Hpre. rewrite E, app_nil_r in Im. exact Im.
    - cbn [length seq combine fold_left].
      assert (Hk : nth_error ms (length pre) = Some m).
      { rewrite E, nth_error_app2 by lia. now rewrite Nat.sub_diag. }
      pose proof (loop3_step_spec s (length pre) m K Hk) as St.
      destruct (loop3_step c wl ms (loop1 ms) fi ff (Ok s) (length pre, m)) as [s1|e|].
      + destruct St as (K1 & D1 & Mo & _).
        specialize (IH (pre ++ [m]) s1). rewrite app_length in IH. simpl in IH.
        replace (length pre + 1)%nat with (S (length pre)) in IH by lia.
        apply IH; [now rewrite <- app_assoc|assumption|].
        intros m' I. apply in_app_or in I as [I|[<-|[]]]; auto.
      + now rewrite loop3_fold_raise.
      + destruct St.
  Qed.

  Lemma forallb_false_ex {A} (f : A -> bool) l : forallb f l = false -> exists x, In x l /\ f x = false.
  Proof.
    induction l as [|a l IH]; simpl; [discriminate|]. intros H. apply andb_false_iff in H as [H|H].
    - exists a. auto.
    - destruct (IH H) as (x & I & F). exists x. auto.
  Qed.

  (* ---- the rewrite with the first-loop tables of `loop1`, counter key ck, width lookup wl ---- *)
  Definition rewrite_gen : res (list instr * list value) :=
    if negb (forallb (fun m => is_alloc (m_src m) && is_alloc (m_dst m)) ms) then Raise EPassFailed else
    let t := loop1 ms in
    let s0 := mkS [] (results0 t) ch0 in
    do '(s2, f1, f2) <- fold_left (loop2_step c ck wl ms t (leaves t)) (map m_dst ms) (Ok (s0, fi, ff));
    do s3 <- fold_left (loop3_step c wl ms t f1 f2) (combine (seq 0 (length ms)) ms) (Ok s2);
    if forallb (fun o => match o with Some _ => true | None => false end) (results s3)
    then Ok (em s3, flat_map (fun o => match o with Some v => [v] | None => [] end) (results s3))
    else Raise EValueError.

  Lemma rewrite_gen_spec :
    match rewrite_gen with
    | Ok (is, _) => simultaneous ms is /\ frame ms free is
    | Raise e => e = EPassFailed /\ fail_cause ms free
    | OutOfFuel => False
    end.
  Proof.
    unfold rewrite_gen.
    destruct (forallb (fun m => is_alloc (m_src m) && is_alloc (m_dst m)) ms) eqn:Al; cbn [negb].
    2:{ split; [reflexivity|]. left. destruct (forallb_false_ex _ _ Al) as (m & Im & F).
        exists m. split; [assumption|]. apply andb_false_iff in F. exact F. }
    pose proof (loop2_spec ms free ck wl WF Hkey Hw c (map m_dst ms) [] _ fi ff (inv2_0 ms free ck ch0 WF Hch0)) as L2.
    simpl app in L2. specialize (L2 ND).
    destruct (fold_left (loop2_step c ck wl ms (loop1 ms) (leaves (loop1 ms))) (map m_dst ms)
                (Ok (mkS [] (results0 (loop1 ms)) ch0, fi, ff))) as [[[s2 fi'] ff']|e|];
      cbn [bind].
    2:{ destruct L2 as [-> (m & Im & Tm & Wm)]. split; [reflexivity|]. right. left. exists m.
        split; [assumption|]. split; [now apply trivb_false|assumption]. }
    2:{ destruct L2. }
    destruct L2 as (J2 & Hfree & _). destruct (Hfree Hrf) as [-> ->].
    pose proof (inv3_of_inv2 ms free ck WF Hkey s2 J2) as K2.
    pose proof (loop3_spec ms [] s2 eq_refl K2 (fun m (I : In m []) => match I with end)) as L3.
    simpl length in L3.
    destruct (fold_left (loop3_step c wl ms (loop1 ms) fi ff) (combine (seq 0 (length ms)) ms) (Ok s2)) as [s3|e|];
      cbn [bind]; [|exact L3|exact L3].
    destruct L3 as [K3 Dall].
    assert (All : forallb (fun o : option value => match o with Some _ => true | None => false end) (results s3) = true).
    { apply forallb_forall. intros o Io. destruct (In_nth_error _ _ Io) as [i Hi].
      assert (Li : (i < length ms)%nat) by (rewrite <- (K_len ms free s3 K3); now apply nth_error_lt in Hi).
      destruct (nth_error ms i) as [m|] eqn:Hm; [|apply nth_error_None in Hm; lia].
      specialize (Dall m (nth_error_In _ _ Hm)). unfold ProofsPhase1.doneb in Dall.
      rewrite (output_index_of ms i m ND Hm), Hi in Dall. destruct o; [reflexivity|discriminate]. }
    rewrite All.
    assert (Pnone : forall r, (forall m, In m ms -> trivb m = false -> m_dst m <> r) -> P r = None).
    { intros r H. destruct (P r) as [v|] eqn:E; [|reflexivity]. exfalso.
      destruct (P_inv ms free WF _ _ E) as (m & Im & Tm & Dm & _). exact (H m Im Tm Dm). }
    split.
    - intros rho m Im. destruct (K_sem ms free s3 K3 rho) as [S1 S2].
      destruct (trivb m) eqn:Tm.
      + unfold trivb in Tm. apply Z.eqb_eq in Tm. f_equal. rewrite <- Tm. apply S2.
        * left. apply Pnone. intros m' Im' Tm' Dm'.
          assert (m' = m) by (apply (dst_inj ms free WF); auto; congruence). subst m'.
          unfold trivb in Tm'. apply Z.eqb_neq in Tm'. contradiction.
        * intros If. destruct (wa_free _ _ WF _ m If Im) as [N _]. congruence.
      + now apply S1, Dall.
    - intros rho r Nd Nf. destruct (K_sem ms free s3 K3 rho) as [_ S2]. apply S2; [|assumption].
      left. apply Pnone. intros m Im _ E. apply Nd. rewrite <- E. now apply in_map.
  Qed.

  (* ---- a float cycle without a free float register cannot be lowered: the pass says so ---- *)
  Lemma loop3_float_stuck : forall l pre s,
    ms = pre ++ l -> Inv3 ms free s -> ff = [] ->
    (exists m, In m l /\ trivb m = false /\ is_float (m_dst m) = true /\ doneb (results s) (m_dst m) = false) ->
    match fold_left (loop3_step c wl ms (loop1 ms) fi ff) (combine (seq (length pre) (length l)) l) (Ok s) with
    | Ok _ => False
    | Raise e => e = EPassFailed
    | OutOfFuel => False
    end.
  Proof.
    induction l as [|m0 l IH]; intros pre s E K Hff (m & Im & Tm & Fm & Dm); [destruct Im|].
    cbn [length seq combine fold_left].
    assert (Hk : nth_error ms (length pre) = Some m0).
    { rewrite E, nth_error_app2 by lia. now rewrite Nat.sub_diag. }
    pose proof (loop3_step_spec s (length pre) m0 K Hk) as St.
    pose proof (output_index_of ms _ m0 ND Hk) as Oidx.
    (* a float move whose slot is empty raises *)
    assert (Stuck : forall mm, mm = m0 -> is_float (m_dst mm) = true -> doneb (results s) (m_dst mm) = false ->
              loop3_step c wl ms (loop1 ms) fi ff (Ok s) (length pre, m0) = Raise EPassFailed).
    { intros mm -> Fl Dn. unfold loop3_step. cbn [bind].
      rewrite (doneb_false_slot ms free WF (results s) (m_dst m0) (length pre) (K_len ms free s K) Oidx Dn).
      unfold free_of. rewrite Fl, Hff. reflexivity. }
    destruct Im as [<-|Im].
    - rewrite (Stuck m0 eq_refl Fm Dm). now rewrite loop3_fold_raise.
    - destruct (loop3_step c wl ms (loop1 ms) fi ff (Ok s) (length pre, m0)) as [s1|e|] eqn:Est.
      + destruct St as (K1 & D1 & Mo & Kd).
        specialize (IH (pre ++ [m0]) s1). rewrite app_length in IH. simpl in IH.
        replace (length pre + 1)%nat with (S (length pre)) in IH by lia.
        apply IH; [now rewrite <- app_assoc|assumption|assumption|].
        exists m. repeat split; auto.
        destruct (is_float (m_dst m0)) eqn:F0.
        * (* a float move: it was already resolved, so the state is unchanged *)
          destruct (doneb (results s) (m_dst m0)) eqn:D0.
          -- unfold loop3_step in Est. cbn [bind] in Est. unfold ProofsPhase1.doneb in D0. rewrite Oidx in D0.
             destruct (nth_error (results s) (length pre)) as [[v|]|]; try discriminate.
             inversion Est; subst. assumption.
          -- discriminate (Stuck m0 eq_refl F0 D0).
        * rewrite Kd; [assumption|congruence].
      + rewrite loop3_fold_raise. apply St.
      + destruct St.
  Qed.

  Lemma rewrite_gen_fails :
    (exists m, In m ms /\ (is_alloc (m_src m) = false \/ is_alloc (m_dst m) = false))
    \/ (exists d, on_cycle ms d /\ is_float d = true /\ forall f, In f free -> is_float f = false) ->
    rewrite_gen = Raise EPassFailed.
  Proof.
    intros H. unfold rewrite_gen.
    destruct (forallb (fun m => is_alloc (m_src m) && is_alloc (m_dst m)) ms) eqn:Al; cbn [negb]; [|reflexivity].
    destruct H as [(m & Im & Hm)|(d & Cd & Fd & Hf)].
    { exfalso. rewrite forallb_forall in Al. specialize (Al m Im). apply andb_true_iff in Al. destruct Hm; intuition congruence. }
    pose proof (loop2_spec ms free ck wl WF Hkey Hw c (map m_dst ms) [] _ fi ff (inv2_0 ms free ck ch0 WF Hch0)) as L2.
    simpl app in L2. specialize (L2 ND).
    destruct (fold_left (loop2_step c ck wl ms (loop1 ms) (leaves (loop1 ms))) (map m_dst ms)
                (Ok (mkS [] (results0 (loop1 ms)) ch0, fi, ff))) as [[[s2 fi'] ff']|e|];
      cbn [bind].
    2:{ destruct L2 as [-> _]. reflexivity. }
    2:{ destruct L2. }
    destruct L2 as (J2 & Hfree & _). destruct (Hfree Hrf) as [-> ->].
    pose proof (inv3_of_inv2 ms free ck WF Hkey s2 J2) as K2.
    assert (Hff : ff = []).
    { destruct ff as [|f r] eqn:Eff; [reflexivity|]. exfalso.
      assert (I : In f ff) by (rewrite Eff; now left). apply filter_In in I as [I1 I2].
      rewrite (Hf f I1) in I2. discriminate. }
    (* d is the destination of a non-trivial move, and was not resolved by the tree phase *)
    assert (Hd : exists m, In m ms /\ trivb m = false /\ m_dst m = d).
    { unfold on_cycle in Cd. apply clos_trans_tn1 in Cd.
      assert (exists y, edge ms y d) as (y & m & Im & Nm & _ & Dm).
      { inversion Cd; subst; eauto. }
      exists m. repeat split; auto. now apply trivb_false. }
    destruct Hd as (m & Im & Tm & Dm).
    assert (Dd : doneb (results s2) (m_dst m) = false).
    { destruct (doneb (results s2) (m_dst m)) eqn:D; [|reflexivity]. exfalso.
      apply (I_nocyc ms ck s2 (J_inv ms ck s2 _ J2) m Im Tm D). now rewrite Dm. }
    pose proof (loop3_float_stuck ms [] s2 eq_refl K2 Hff) as L3. simpl length in L3.
    destruct (fold_left (loop3_step c wl ms (loop1 ms) fi ff) (combine (seq 0 (length ms)) ms) (Ok s2)) as [s3|e|];
      cbn [bind].
    - exfalso. apply L3. exists m. repeat split; auto. now rewrite Dm.
    - rewrite L3; [reflexivity|]. exists m. repeat split; auto. now rewrite Dm.
    - exfalso. apply L3. exists m. repeat split; auto. now rewrite Dm.
  Qed.

  Lemma nodupb_NoDup l : NoDup l -> nodupb l = true.
  Proof.
    induction 1 as [|x l Hx _ IH]; [reflexivity|]. simpl. rewrite IH, andb_true_r.
    apply negb_true_iff. destruct (existsb (Z.eqb x) l) eqn:E; [|reflexivity].
    apply existsb_exists in E as (y & Iy & Ey). apply Z.eqb_eq in Ey. subst. contradiction.
  Qed.
  Lemma wf_verify : verify ms = true.
  Proof.
    unfold verify. apply andb_true_iff. split.
    - apply forallb_forall. intros m Im. rewrite (wa_kinds _ _ WF m Im). apply eqb_reflx.
    - apply nodupb_NoDup. apply NoDup_filter. exact ND.
  Qed.
End Main.

(* ================================================================== the pinned tree
   The code as it is (`unchanged`) agrees with the repaired algorithm whenever every cycle of
   the move graph has a designated free register of its kind (in particular on every acyclic
   graph: trees, chains, fan-outs, self-moves): the xor chain is then never used and the head of
   each free list is a designated register. *)
Definition every_cycle_has_free (ms : list move) (free : list reg) : Prop :=
  forall d, on_cycle ms d -> exists f, In f free /\ is_float f = is_float d.

Section Partial.
  Variable ms : list move.
  Variable free : list reg.
  Variable c cu : cfg.
  Variable ck : value -> Z.
  Variable wl : value -> reg -> option Z.
  Variable ch0 : Z -> Z.
  Hypothesis WF : wf_all ms free.
  Hypothesis Hkey : forall a b, In a ms -> In b ms ->
    (ck (m_value a) = ck (m_value b) <-> m_src a = m_src b).
  Hypothesis Hw : forall m, In m ms -> trivb m = false -> wl (m_value m) (m_dst m) = Some (m_w m).
  Hypothesis Hch0 : forall k,
    ch0 k = Z.of_nat (length (filter (fun m => negb (trivb m) && (ck (m_value m) =? k)) ms)).
  Hypothesis Hrf : root_free c = false.
  Hypothesis Hxo : xor_old c = false.
  Hypothesis HP : every_cycle_has_free ms free.

  Notation P := (src_by_dst (loop1 ms)).
  Notation doneb := (doneb ms).
  Notation fi := (filter (fun r => negb (is_float r)) free).
  Notation ff := (filter is_float free).
  Let ND : NoDup (map m_dst ms) := wa_dsts _ _ WF.

  Lemma loop3_step_agree s k m xi xf : Inv3 ms free s -> nth_error ms k = Some m ->
    loop3_step cu wl ms (loop1 ms) (fi ++ xi) (ff ++ xf) (Ok s) (k, m) = loop3_step c wl ms (loop1 ms) fi ff (Ok s) (k, m).
  Proof.
    intros K Hk. unfold loop3_step. cbn [bind].
    destruct (nth_error (results s) k) as [[v|]|] eqn:Ek; try reflexivity.
    pose proof (output_index_of ms k m ND Hk) as Oidx.
    assert (Im : In m ms) by (eapply nth_error_In; eauto).
    assert (Tm : trivb m = false).
    { destruct (trivb m) eqn:T; [|reflexivity]. rewrite (K_triv ms free s K k m Hk T) in Ek. discriminate. }
    assert (Dd : doneb (results s) (m_dst m) = false) by (unfold ProofsPhase1.doneb; now rewrite Oidx, Ek).
    assert (Pd : P (m_dst m) = Some (m_value m)) by (now apply (P_of ms free WF)).
    destruct (cycle_at ms free WF s (m_dst m) K) as (y1 & l & Ch & La & _ & _); [congruence|assumption|].
    destruct (HP (m_dst m) (chain_cycle ms free WF _ _ _ Ch La)) as (f & If & Kf).
    unfold free_of. destruct (is_float (m_dst m)) eqn:Fl.
    - assert (I : In f ff) by (apply filter_In; split; [assumption|congruence]).
      destruct ff as [|temp rest]; [destruct I|]. reflexivity.
    - assert (I : In f fi) by (apply filter_In; split; [assumption|]; rewrite Kf; reflexivity).
      destruct fi as [|temp rest]; [destruct I|]. reflexivity.
  Qed.

  Lemma loop3_agree xi xf : forall l pre s,
    ms = pre ++ l -> Inv3 ms free s ->
    fold_left (loop3_step cu wl ms (loop1 ms) (fi ++ xi) (ff ++ xf)) (combine (seq (length pre) (length l)) l) (Ok s)
    = fold_left (loop3_step c wl ms (loop1 ms) fi ff) (combine (seq (length pre) (length l)) l) (Ok s).
  Proof.
    induction l as [|m l IH]; intros pre s E K; [reflexivity|].
    cbn [length seq combine fold_left].
    assert (Hk : nth_error ms (length pre) = Some m).
    { rewrite E, nth_error_app2 by lia. now rewrite Nat.sub_diag. }
    rewrite (loop3_step_agree s (length pre) m xi xf K Hk).
    pose proof (loop3_step_spec ms free c wl WF Hw Hrf Hxo s (length pre) m K Hk) as St.
    destruct (loop3_step c wl ms (loop1 ms) fi ff (Ok s) (length pre, m)) as [s1|e|].
    - destruct St as (K1 & _ & _ & _).
      specialize (IH (pre ++ [m]) s1). rewrite app_length in IH. simpl in IH.
      replace (length pre + 1)%nat with (S (length pre)) in IH by lia.
      apply IH; [now rewrite <- app_assoc|assumption].
    - now rewrite !loop3_fold_raise.
    - now rewrite !loop3_fold_fuel.
  Qed.

  Lemma rewrite_agree : rewrite_gen ms free cu ck wl ch0 = rewrite_gen ms free c ck wl ch0.
  Proof.
    unfold rewrite_gen.
    destruct (negb (forallb (fun m => is_alloc (m_src m) && is_alloc (m_dst m)) ms)); [reflexivity|].
    set (s0 := mkS [] (results0 (loop1 ms)) ch0).
    pose proof (eq_trans (loop2_core ms ck wl cu (map m_dst ms) s0 fi ff fi ff)
                         (eq_sym (loop2_core ms ck wl c (map m_dst ms) s0 fi ff fi ff))) as Co.
    pose proof (loop2_spec ms free ck wl WF Hkey Hw cu (map m_dst ms) [] s0 fi ff (inv2_0 ms free ck ch0 WF Hch0)) as Lu.
    pose proof (loop2_spec ms free ck wl WF Hkey Hw c (map m_dst ms) [] s0 fi ff (inv2_0 ms free ck ch0 WF Hch0)) as Lr.
    simpl app in Lu, Lr. specialize (Lu ND). specialize (Lr ND).
    destruct (fold_left (loop2_step cu ck wl ms (loop1 ms) (leaves (loop1 ms))) (map m_dst ms) (Ok (s0, fi, ff)))
      as [[[su fiu] ffu]|eu|];
    destruct (fold_left (loop2_step c ck wl ms (loop1 ms) (leaves (loop1 ms))) (map m_dst ms) (Ok (s0, fi, ff)))
      as [[[sr fir] ffr]|er|]; simpl in Co; try discriminate; try (destruct Lu; fail); try (destruct Lr; fail).
    - inversion Co; subst sr. cbn [bind].
      destruct Lu as (_ & _ & (xi & xf & -> & ->)). destruct Lr as (J2 & Hfree & _).
      destruct (Hfree Hrf) as [-> ->].
      pose proof (loop3_agree xi xf ms [] su eq_refl (inv3_of_inv2 ms free ck WF Hkey su J2)) as A3.
      simpl length in A3. now rewrite A3.
    - inversion Co. reflexivity.
  Qed.

End Partial.

(* ================================================================== instantiations *)
Lemma map_snd_combine_seq {A} (l : list A) : forall k, map snd (combine (seq k (length l)) l) = l.
Proof. induction l as [|x l IH]; intros k; simpl; [reflexivity|]. now rewrite IH. Qed.

Definition cnt_pred (ck : value -> Z) (k : Z) (m : move) : bool := negb (trivb m) && (ck (m_value m) =? k).

(* C20-4: the counter keyed by register counts the non-trivial moves reading that register *)
Lemma children_by_reg_gen (ims : list (nat * move)) : forall f k,
  fold_left (fun f im => let m := snd im in
                         if m_src m =? m_dst m then f else upd f (m_src m) (f (m_src m) + 1)) ims f k
  = f k + Z.of_nat (length (filter (cnt_pred vreg k) (map snd ims))).
Proof.
  induction ims as [|[i m] r IH]; intros f k; simpl; [lia|].
  rewrite IH. unfold cnt_pred at 2, trivb. simpl.
  destruct (m_src m =? m_dst m); simpl; [lia|].
  unfold upd. rewrite (Z.eqb_sym (m_src m) k). destruct (Z.eqb_spec k (m_src m)) as [->|]; simpl; lia.
Qed.
Lemma children_by_reg_spec ms k :
  children_by_reg (combine (seq 0 (length ms)) ms) k = Z.of_nat (length (filter (cnt_pred vreg k) ms)).
Proof. unfold children_by_reg. rewrite children_by_reg_gen, map_snd_combine_seq. reflexivity. Qed.

(* C20-5: the width table keyed by output register *)
Lemma width_tbl_notin l : forall f d, ~ In d (map m_dst l) ->
  fold_left (fun f m => upd f (m_dst m) (Some (m_w m))) l f d = f d.
Proof.
  induction l as [|x r IH]; intros f d H; simpl; [reflexivity|].
  rewrite IH by (intros K; apply H; now right). apply upd_other. intros E; apply H; now left.
Qed.
Lemma width_tbl_spec l : forall f m, NoDup (map m_dst l) -> In m l ->
  fold_left (fun f m => upd f (m_dst m) (Some (m_w m))) l f (m_dst m) = Some (m_w m).
Proof.
  induction l as [|x r IH]; intros f m ND I; [destruct I|]. simpl in *.
  apply NoDup_cons_iff in ND as [Hx ND]. destruct I as [->|I].
  - rewrite width_tbl_notin by assumption. apply upd_same.
  - now apply IH.
Qed.

(* the SSA-value-keyed lookups of the tree with C20-1 + C20-2 under `wf` *)
Lemma width_val ms free m : wf ms free -> In m ms -> src_type_by_src ms (vid (m_value m)) = Some (m_w m).
Proof.
  intros WF I. simpl. destruct (wof_In ms m I) as (m' & I' & E & H). rewrite H. f_equal.
  now apply (wf_width _ _ WF).
Qed.

Definition wl_val (ms : list move) : value -> reg -> option Z := fun src _ => src_type_by_src ms (vid src).
Definition wl_dst (ms : list move) : value -> reg -> option Z := fun _ d => width_by_dst_tbl ms d.
Definition ims (ms : list move) := combine (seq 0 (length ms)) ms.
(* C20-1, 2, 4, 5 without C20-3: equal to `repaired_all` when no move overwrites `zero` *)
Definition repaired_reg : cfg := mkCfg false false false true true.

Lemma rewrite_val_eq c ms free : zero_first c = false -> cnt_by_reg c = false -> width_by_dst c = false ->
  rewrite c ms free = rewrite_gen ms free c vid (wl_val ms) (children0 (loop1 ms)).
Proof.
  intros Z B W. unfold rewrite, rewrite_gen, tables_of, children_of, kept, tables_of. rewrite Z, B.
  unfold bind at 1.
  replace (ckey c) with vid by (unfold ckey; rewrite B; reflexivity).
  replace (wlook c ms) with (wl_val ms) by (unfold wlook, wl_val; rewrite W; reflexivity).
  reflexivity.
Qed.
Lemma rewrite_reg_eq ms free :
  rewrite repaired_reg ms free = rewrite_gen ms free repaired_reg vreg (wl_dst ms) (children_by_reg (ims ms)).
Proof. reflexivity. Qed.

(* without a non-trivial move into `zero`, C20-3 changes nothing *)
Lemma zero_pass_noop l : forall e rs, (forall im, In im l -> zero_move (snd im) = false) ->
  zero_pass l e rs = Ok (e, rs).
Proof.
  induction l as [|[i m] r IH]; intros e rs H; simpl; [reflexivity|].
  pose proof (H (i, m) (or_introl eq_refl)) as Hm. simpl in Hm. rewrite Hm.
  apply IH. intros im I. apply H. now right.
Qed.
Lemma filter_all {A} (f : A -> bool) l : (forall x, In x l -> f x = true) -> filter f l = l.
Proof.
  induction l as [|x l IH]; intros H; simpl; [reflexivity|].
  rewrite (H x (or_introl eq_refl)). f_equal. apply IH. intros y I. apply H. now right.
Qed.
Lemma rewrite_all_eq ms free : (forall m, In m ms -> m_dst m = ZERO -> m_src m = ZERO) ->
  rewrite repaired_all ms free = rewrite repaired_reg ms free.
Proof.
  intros HZ.
  assert (NZ : forall im, In im (ims ms) -> zero_move (snd im) = false).
  { intros [i m] I. apply in_combine_r in I. simpl. unfold zero_move.
    destruct (Z.eqb_spec (m_dst m) ZERO) as [E|]; [|reflexivity].
    rewrite (HZ m I E), E. reflexivity. }
  assert (F : filter (fun im => negb (zero_move (snd im))) (ims ms) = ims ms).
  { apply filter_all. intros im I. now rewrite (NZ im I). }
  unfold rewrite, tables_of, children_of, kept, tables_of. cbn [zero_first cnt_by_reg repaired_all repaired_reg].
  unfold loop1z. fold (ims ms). rewrite F. rewrite zero_pass_noop by assumption. reflexivity.
Qed.

(* ================================================================== theorems *)
Section Inst.
  Variable ms : list move.
  Variable free : list reg.

  (* the tree with C20-1 + C20-2 (keys by SSA value) under `wf` *)
  Lemma repaired_spec : wf ms free ->
    match rewrite repaired ms free with
    | Ok (is, _) => simultaneous ms is /\ frame ms free is
    | Raise e => e = EPassFailed /\ fail_cause ms free
    | OutOfFuel => False
    end.
  Proof.
    intros WF. rewrite (rewrite_val_eq repaired ms free eq_refl eq_refl eq_refl).
    apply (rewrite_gen_spec ms free repaired vid (wl_val ms) (children0 (loop1 ms)) (wf_wf_all _ _ WF)); auto.
    - intros a b Ia Ib. apply (wf_ssa _ _ WF a b Ia Ib).
    - intros m Im _. unfold wl_val. now apply (width_val ms free).
    - intros k. apply (children0_spec ms).
  Qed.
  Lemma repaired_fails : wf ms free ->
    (exists m, In m ms /\ (is_alloc (m_src m) = false \/ is_alloc (m_dst m) = false))
    \/ (exists d, on_cycle ms d /\ is_float d = true /\ forall f, In f free -> is_float f = false) ->
    rewrite repaired ms free = Raise EPassFailed.
  Proof.
    intros WF. rewrite (rewrite_val_eq repaired ms free eq_refl eq_refl eq_refl).
    apply (rewrite_gen_fails ms free repaired vid (wl_val ms) (children0 (loop1 ms)) (wf_wf_all _ _ WF)); auto.
    - intros a b Ia Ib. apply (wf_ssa _ _ WF a b Ia Ib).
    - intros m Im _. unfold wl_val. now apply (width_val ms free).
    - intros k. apply (children0_spec ms).
  Qed.

  (* the tree with all repairs under the weaker `wf_all` *)
  Lemma all_spec : wf_all ms free ->
    match rewrite repaired_all ms free with
    | Ok (is, _) => simultaneous ms is /\ frame ms free is
    | Raise e => e = EPassFailed /\ fail_cause ms free
    | OutOfFuel => False
    end.
  Proof.
    intros WF. rewrite (rewrite_all_eq ms free (wa_zero _ _ WF)), rewrite_reg_eq.
    apply (rewrite_gen_spec ms free repaired_reg vreg (wl_dst ms) (children_by_reg (ims ms)) WF); auto.
    - intros a b _ _. reflexivity.
    - intros m Im _. unfold wl_dst, width_by_dst_tbl. apply width_tbl_spec; [apply (wa_dsts _ _ WF)|assumption].
    - intros k. apply children_by_reg_spec.
  Qed.
  Lemma all_fails : wf_all ms free ->
    (exists m, In m ms /\ (is_alloc (m_src m) = false \/ is_alloc (m_dst m) = false))
    \/ (exists d, on_cycle ms d /\ is_float d = true /\ forall f, In f free -> is_float f = false) ->
    rewrite repaired_all ms free = Raise EPassFailed.
  Proof.
    intros WF. rewrite (rewrite_all_eq ms free (wa_zero _ _ WF)), rewrite_reg_eq.
    apply (rewrite_gen_fails ms free repaired_reg vreg (wl_dst ms) (children_by_reg (ims ms)) WF); auto.
    - intros a b _ _. reflexivity.
    - intros m Im _. unfold wl_dst, width_by_dst_tbl. apply width_tbl_spec; [apply (wa_dsts _ _ WF)|assumption].
    - intros k. apply children_by_reg_spec.
  Qed.
End Inst.

Theorem lower_repaired_simultaneous ms free is vs :
  wf ms free -> lower repaired ms free = Ok (is, vs) -> simultaneous ms is.
Proof.
  intros WF H. unfold lower in H. rewrite (wf_verify ms free (wf_wf_all _ _ WF)) in H.
  pose proof (repaired_spec ms free WF) as S. rewrite H in S. apply S.
Qed.
Theorem lower_repaired_frame ms free is vs :
  wf ms free -> lower repaired ms free = Ok (is, vs) -> frame ms free is.
Proof.
  intros WF H. unfold lower in H. rewrite (wf_verify ms free (wf_wf_all _ _ WF)) in H.
  pose proof (repaired_spec ms free WF) as S. rewrite H in S. apply S.
Qed.
Theorem lower_repaired_fails_when_impossible ms free :
  wf ms free ->
  (exists m, In m ms /\ (is_alloc (m_src m) = false \/ is_alloc (m_dst m) = false))
  \/ (exists d, on_cycle ms d /\ is_float d = true /\ forall f, In f free -> is_float f = false) ->
  lower repaired ms free = Raise EPassFailed.
Proof.
  intros WF H. unfold lower. rewrite (wf_verify ms free (wf_wf_all _ _ WF)). now apply repaired_fails.
Qed.
Theorem lower_repaired_failure ms free :
  wf ms free ->
  match lower repaired ms free with
  | Ok _ => True
  | Raise e => e = EPassFailed /\ fail_cause ms free
  | OutOfFuel => False
  end.
Proof.
  intros WF. unfold lower. rewrite (wf_verify ms free (wf_wf_all _ _ WF)).
  pose proof (repaired_spec ms free WF) as S.
  destruct (rewrite repaired ms free) as [[is vs]|e|]; auto.
Qed.

(* ---- all repairs (C20-1 .. C20-5), under the weaker hypotheses `wf_all` ---- *)
Theorem lower_all_simultaneous ms free is vs :
  wf_all ms free -> lower repaired_all ms free = Ok (is, vs) -> simultaneous ms is.
Proof.
  intros WF H. unfold lower in H. rewrite (wf_verify ms free WF) in H.
  pose proof (all_spec ms free WF) as S. rewrite H in S. apply S.
Qed.
Theorem lower_all_frame ms free is vs :
  wf_all ms free -> lower repaired_all ms free = Ok (is, vs) -> frame ms free is.
Proof.
  intros WF H. unfold lower in H. rewrite (wf_verify ms free WF) in H.
  pose proof (all_spec ms free WF) as S. rewrite H in S. apply S.
Qed.
Theorem lower_all_failure ms free :
  wf_all ms free ->
  match lower repaired_all ms free with
  | Ok _ => True
  | Raise e => e = EPassFailed /\ fail_cause ms free
  | OutOfFuel => False
  end.
Proof.
  intros WF. unfold lower. rewrite (wf_verify ms free WF).
  pose proof (all_spec ms free WF) as S.
  destruct (rewrite repaired_all ms free) as [[is vs]|e|]; auto.
Qed.
Theorem lower_all_fails_when_impossible ms free :
  wf_all ms free ->
  (exists m, In m ms /\ (is_alloc (m_src m) = false \/ is_alloc (m_dst m) = false))
  \/ (exists d, on_cycle ms d /\ is_float d = true /\ forall f, In f free -> is_float f = false) ->
  lower repaired_all ms free = Raise EPassFailed.
Proof.
  intros WF H. unfold lower. rewrite (wf_verify ms free WF). now apply all_fails.
Qed.
Theorem lower_all_success ms free :
  wf_all ms free -> ~ fail_cause ms free -> exists is vs, lower repaired_all ms free = Ok (is, vs).
Proof.
  intros WF NF. pose proof (lower_all_failure ms free WF) as F.
  destruct (lower repaired_all ms free) as [[is vs]|e|]; [eauto|destruct F; contradiction|destruct F].
Qed.

Lemma lower_agree ms free : wf ms free -> every_cycle_has_free ms free ->
  lower unchanged ms free = lower repaired ms free.
Proof.
  intros WF HP. unfold lower.
  rewrite (rewrite_val_eq unchanged ms free eq_refl eq_refl eq_refl),
          (rewrite_val_eq repaired ms free eq_refl eq_refl eq_refl).
  rewrite (rewrite_agree ms free repaired unchanged vid (wl_val ms) (children0 (loop1 ms)) (wf_wf_all _ _ WF)); auto.
  - intros a b Ia Ib. apply (wf_ssa _ _ WF a b Ia Ib).
  - intros m Im _. unfold wl_val. now apply (width_val ms free).
  - intros k. apply (children0_spec ms).
Qed.

(* ================================================================== the pinned tree: theorems *)
Theorem lower_unchanged_partial ms free :
  wf ms free -> every_cycle_has_free ms free ->
  match lower unchanged ms free with
  | Ok (is, _) => simultaneous ms is /\ frame ms free is
  | Raise e => e = EPassFailed /\ fail_cause ms free
  | OutOfFuel => False
  end.
Proof.
  intros WF HP. rewrite (lower_agree ms free WF HP).
  pose proof (lower_repaired_failure ms free WF) as F.
  destruct (lower repaired ms free) as [[is vs]|e|] eqn:E; auto.
  split; [eapply lower_repaired_simultaneous|eapply lower_repaired_frame]; eauto.
Qed.

(* a graph without cycles satisfies the hypothesis trivially *)
Lemma acyclic_has_free ms free : (forall d, ~ on_cycle ms d) -> every_cycle_has_free ms free.
Proof. intros H d C. destruct (H d C). Qed.

(* ---- success: without a cause of failure the repaired pass produces a sequence ---- *)
Theorem lower_repaired_success ms free :
  wf ms free -> ~ fail_cause ms free -> exists is vs, lower repaired ms free = Ok (is, vs).
Proof.
  intros WF NF. pose proof (lower_repaired_failure ms free WF) as F.
  destruct (lower repaired ms free) as [[is vs]|e|]; [eauto|destruct F; contradiction|destruct F].
Qed.

(* ---- refutations of the full statements on the faithful model of the pinned tree ---- *)
Definition s1 : reg := 2.  Definition s2 : reg := 4.  Definition s3 : reg := 6.  Definition s4 : reg := 8.
Definition fs1 : reg := 3. Definition fs2 : reg := 5.
Definition rho0 : regfile := fun r => 100 + r.

(* {s1->s2, s3->s4, s4->s3}: s1 is only read, yet `mv s1 <- s3` is emitted *)
Definition ms_root : list move := [mkM 0 s1 s2 32; mkM 1 s3 s4 32; mkM 2 s4 s3 32].
Lemma wf_ms_root : wf ms_root [].
Proof.
  constructor; simpl.
  - intros m [<-|[<-|[<-|[]]]]; reflexivity.
  - repeat constructor; simpl; intuition discriminate.
  - intros a b [<-|[<-|[<-|[]]]] [<-|[<-|[<-|[]]]]; simpl; split; intros H; try reflexivity; discriminate.
  - intros a b [<-|[<-|[<-|[]]]] [<-|[<-|[<-|[]]]]; simpl; intros H; try reflexivity; discriminate.
  - intros f m [].
  - intros [].
  - intros m [<-|[<-|[<-|[]]]]; simpl; intros H; discriminate.
Qed.
Lemma frame_refuted :
  exists ms free is vs, wf ms free /\ lower unchanged ms free = Ok (is, vs) /\ ~ frame ms free is.
Proof.
  exists ms_root, [].
  eexists. eexists. split; [exact wf_ms_root|]. split; [vm_compute; reflexivity|].
  intros F. specialize (F rho0 s1). vm_compute in F.
  assert (H : 106 = 102) by (apply F; intuition discriminate). discriminate.
Qed.

(* {s2->s1, s3->s2, s1->s3} without free register: the xor chain rotates the wrong way *)
Definition ms_rot : list move := [mkM 0 s2 s1 32; mkM 1 s3 s2 32; mkM 2 s1 s3 32].
Lemma wf_ms_rot : wf ms_rot [].
Proof.
  constructor; simpl.
  - intros m [<-|[<-|[<-|[]]]]; reflexivity.
  - repeat constructor; simpl; intuition discriminate.
  - intros a b [<-|[<-|[<-|[]]]] [<-|[<-|[<-|[]]]]; simpl; split; intros H; try reflexivity; discriminate.
  - intros a b [<-|[<-|[<-|[]]]] [<-|[<-|[<-|[]]]]; simpl; intros H; try reflexivity; discriminate.
  - intros f m [].
  - intros [].
  - intros m [<-|[<-|[<-|[]]]]; simpl; intros H; discriminate.
Qed.
Lemma simultaneous_refuted :
  exists ms free is vs, wf ms free /\ lower unchanged ms free = Ok (is, vs) /\ ~ simultaneous ms is.
Proof.
  exists ms_rot, [].
  eexists. eexists. split; [exact wf_ms_rot|]. split; [vm_compute; reflexivity|].
  intros S. specialize (S rho0 (mkM 0 s2 s1 32) (or_introl eq_refl)). vm_compute in S. discriminate.
Qed.

(* the verifier accepts duplicate `zero` destinations; the model of the pinned tree then runs out
   of fuel (the real pass does not terminate), aborts, or -- here -- hits the sanity assertion *)
Lemma duplicate_zero_refuted :
  verify [mkM 0 ZERO s1 64; mkM 0 ZERO s2 64; mkM 1 s1 ZERO 32; mkM 2 s2 ZERO 64] = true
  /\ lower unchanged [mkM 0 ZERO s1 64; mkM 0 ZERO s2 64; mkM 1 s1 ZERO 32; mkM 2 s2 ZERO 64] [] = OutOfFuel
  /\ verify [mkM 0 s1 ZERO 32; mkM 1 s2 ZERO 32] = true
  /\ lower unchanged [mkM 0 s1 ZERO 32; mkM 1 s2 ZERO 32] [] = Raise EAssertion.
Proof. vm_compute. repeat split. Qed.

(* {zero->s2, s2->zero}: the xor swap through the hard-wired zero register leaves s2 unchanged *)
Lemma zero_swap_refuted :
  exists is vs, lower unchanged [mkM 0 ZERO s2 64; mkM 1 s2 ZERO 64] [] = Ok (is, vs)
    /\ get (exec is rho0) s2 <> get rho0 ZERO.
Proof. eexists. eexists. split; [vm_compute; reflexivity|]. vm_compute. discriminate. Qed.

(* two SSA values (ids 1 and 2) live in s1, which is itself overwritten: AssertionError *)
Lemma shared_register_refuted :
  verify [mkM 0 s2 s1 32; mkM 1 s1 s2 32; mkM 2 s1 s3 32] = true /\
  lower unchanged [mkM 0 s2 s1 32; mkM 1 s1 s2 32; mkM 2 s1 s3 32] [] = Raise EAssertion.
Proof. vm_compute. split; reflexivity. Qed.

(* one float value moved with widths 64 and 32: the 64-bit move is emitted as fmv.s *)
Lemma mixed_width_refuted :
  exists is vs, lower unchanged [mkM 0 fs1 fs2 64; mkM 0 fs1 fs1 32] [] = Ok (is, vs)
    /\ get (exec is (fun _ => 5)) fs2 <> 5.
Proof. eexists. eexists. split; [vm_compute; reflexivity|]. vm_compute. discriminate. Qed.

(* the repaired algorithm on the two main witnesses *)
Example repaired_root : exists is vs, lower repaired ms_root [] = Ok (is, vs)
  /\ map (get (exec is rho0)) [s1; s2; s3; s4] = map (get rho0) [s1; s1; s4; s3].
Proof. eexists. eexists. split; [vm_compute; reflexivity|]. vm_compute. reflexivity. Qed.
Example repaired_rot : exists is vs, lower repaired ms_rot [] = Ok (is, vs)
  /\ map (get (exec is rho0)) [s1; s2; s3] = map (get rho0) [s2; s3; s1].
Proof. eexists. eexists. split; [vm_compute; reflexivity|]. vm_compute. reflexivity. Qed.

(* non-vacuity of the hypotheses of the partial theorem: a cyclic graph with a designated free register *)
Definition ms_cyc : list move := [mkM 0 s1 s2 32; mkM 1 s2 s1 32; mkM 2 s3 s4 32].
Lemma partial_hyps_satisfiable :
  wf ms_cyc [40] /\ every_cycle_has_free ms_cyc [40] /\ on_cycle ms_cyc s1.
Proof.
  split; [|split].
  - constructor; simpl.
    + intros m [<-|[<-|[<-|[]]]]; reflexivity.
    + repeat constructor; simpl; intuition discriminate.
    + intros a b [<-|[<-|[<-|[]]]] [<-|[<-|[<-|[]]]]; simpl; split; intros H; try reflexivity; discriminate.
    + intros a b [<-|[<-|[<-|[]]]] [<-|[<-|[<-|[]]]]; simpl; intros H; try reflexivity; discriminate.
    + intros f m [<-|[]] [<-|[<-|[<-|[]]]]; simpl; split; discriminate.
    + intros [H|[]]. discriminate.
    + intros m [<-|[<-|[<-|[]]]]; simpl; intros H; discriminate.
  - intros d Cd. exists 40. split; [now left|].
    unfold on_cycle in Cd. apply clos_trans_tn1 in Cd.
    assert (exists y, edge ms_cyc y d) as (y & m & Im & _ & _ & Dm) by (inversion Cd; subst; eauto).
    destruct Im as [<-|[<-|[<-|[]]]]; simpl in Dm; subst d; reflexivity.
  - unfold on_cycle. apply t_trans with s2; apply t_step.
    + exists (mkM 0 s1 s2 32). simpl. intuition discriminate.
    + exists (mkM 1 s2 s1 32). simpl. intuition discriminate.
Qed.

(* ---- the witnesses of kf-3 .. kf-6 under all repairs ---- *)
Definition ms_shared : list move := [mkM 0 s2 s1 32; mkM 1 s1 s2 32; mkM 2 s1 s3 32].
Lemma wf_all_shared : wf_all ms_shared [] /\ ~ wf ms_shared [].
Proof.
  split.
  - constructor; simpl.
    + intros m [<-|[<-|[<-|[]]]]; reflexivity.
    + repeat constructor; simpl; intuition discriminate.
    + intros f m [].
    + intros [].
    + intros m [<-|[<-|[<-|[]]]]; simpl; intros H; discriminate.
  - intros W. pose proof (wf_ssa _ _ W (mkM 1 s1 s2 32) (mkM 2 s1 s3 32)) as H. simpl in H.
    assert (E : 1 = 2) by (apply H; auto). discriminate.
Qed.
Example all_shared : exists is vs, lower repaired_all ms_shared [] = Ok (is, vs)
  /\ map (get (exec is rho0)) [s1; s2; s3] = map (get rho0) [s2; s1; s1].
Proof. eexists. eexists. split; [vm_compute; reflexivity|]. vm_compute. reflexivity. Qed.
Example all_mixed_width : exists is vs, lower repaired_all [mkM 0 fs1 fs2 64; mkM 0 fs1 fs1 32] [] = Ok (is, vs)
  /\ get (exec is (fun _ => 5)) fs2 = 5.
Proof. eexists. eexists. split; [vm_compute; reflexivity|]. vm_compute. reflexivity. Qed.
(* `zero` as a repeated destination (outside wf_all; swept exhaustively by the harness) *)
Example all_duplicate_zero : exists is vs,
  lower repaired_all [mkM 0 ZERO s1 64; mkM 0 ZERO s2 64; mkM 1 s1 ZERO 32; mkM 2 s2 ZERO 64] [] = Ok (is, vs)
  /\ map (get (exec is rho0)) [s1; s2; ZERO; s3] = [0; 0; 0; get rho0 s3].
Proof. eexists. eexists. split; [vm_compute; reflexivity|]. vm_compute. reflexivity. Qed.
Example all_zero_swap : exists is vs, lower repaired_all [mkM 0 ZERO s2 64; mkM 1 s2 ZERO 64] [] = Ok (is, vs)
  /\ get (exec is rho0) s2 = 0.
Proof. eexists. eexists. split; [vm_compute; reflexivity|]. vm_compute. reflexivity. Qed.
