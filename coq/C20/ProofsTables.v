(* C20/ProofsTables.v -- what the dictionaries built before the main loops contain
   (output_index, src_type_by_src, and the four tables of the first loop). *)
From Coq Require Import ZArith List Bool Lia ZifyBool.
From XV Require Import C20.Model C20.ProofsBase.
Import ListNotations.
Local Open Scope Z_scope.

Definition trivb (m : move) : bool := m_src m =? m_dst m.

(* ---------------------------------------------------------------- output_index *)
Lemma output_index_notin ds : forall k f d, ~ In d ds -> output_index_from k ds f d = f d.
Proof.
  induction ds as [|x r IH]; intros k f d H; simpl; auto.
  rewrite IH by (intros K; apply H; now right).
  apply upd_other. intros E; apply H; now left.
Qed.
Lemma output_index_nth ds : forall k f j d, NoDup ds -> nth_error ds j = Some d ->
  output_index_from k ds f d = Some (k + j)%nat.
Proof.
  induction ds as [|x r IH]; intros k f j d ND H; [destruct j; discriminate|].
  inversion ND as [|? ? Hx ND']; subst. destruct j as [|j]; simpl in *.
  - inversion H; subst. rewrite output_index_notin by assumption. rewrite upd_same. f_equal; lia.
  - rewrite (IH _ _ j d ND' H). f_equal; lia.
Qed.
Lemma output_index_Some ms d i : NoDup (map m_dst ms) ->
  output_index ms d = Some i -> exists m, nth_error ms i = Some m /\ m_dst m = d.
Proof.
  intros ND H. unfold output_index in H.
  destruct (in_dec Z.eq_dec d (map m_dst ms)) as [I|I].
  - destruct (In_nth_error _ _ I) as [j Hj].
    rewrite (output_index_nth _ 0 _ j d ND Hj) in H. simpl in H.
    assert (j = i) by congruence. subst j. clear H.
    rewrite nth_error_map in Hj. destruct (nth_error ms i) as [m|]; [|discriminate].
    exists m. split; [reflexivity|]. simpl in Hj. congruence.
  - rewrite output_index_notin in H by assumption. discriminate.
Qed.
Lemma output_index_of ms i m : NoDup (map m_dst ms) -> nth_error ms i = Some m ->
  output_index ms (m_dst m) = Some i.
Proof.
  intros ND H. unfold output_index.
  rewrite (output_index_nth _ 0 _ i (m_dst m) ND); [reflexivity|].
  now rewrite nth_error_map, H.
Qed.

(* ---------------------------------------------------------------- src_type_by_src *)
Lemma wof_gen l : forall f v,
  (exists m', In m' l /\ m_val m' = v /\
     fold_left (fun f m => upd f (m_val m) (Some (m_w m))) l f v = Some (m_w m'))
  \/ ((forall m, In m l -> m_val m <> v) /\
      fold_left (fun f m => upd f (m_val m) (Some (m_w m))) l f v = f v).
Proof.
  induction l as [|x r IH]; intros f v; simpl.
  - right. split; [intros m []|reflexivity].
  - destruct (IH (upd f (m_val x) (Some (m_w x))) v) as [(m' & I & E & H)|(N & H)].
    + left. exists m'. auto.
    + destruct (Z.eq_dec (m_val x) v) as [E|E].
      * left. exists x. split; [now left|]. split; [assumption|]. rewrite H. subst v. apply upd_same.
      * right. split.
        -- intros m [<-|I]; auto.
        -- rewrite H. apply upd_other. congruence.
Qed.
Lemma wof_In ms m : In m ms ->
  exists m', In m' ms /\ m_val m' = m_val m /\ src_type_by_src ms (m_val m) = Some (m_w m').
Proof.
  intros I. unfold src_type_by_src.
  destruct (wof_gen ms (fun _ => None) (m_val m)) as [(m' & I' & E & H)|(N & _)]; eauto.
  exfalso. exact (N m I eq_refl).
Qed.

(* ---------------------------------------------------------------- first loop *)
Definition loop1_from (k : nat) (l : list move) (t0 : tables) : tables :=
  fold_left loop1_step (combine (seq k (length l)) l) t0.

Lemma leaves_gen l : forall k t0 r,
  leaves (loop1_from k l t0) r = leaves t0 r && negb (existsb (Z.eqb r) (map m_src l)).
Proof.
  unfold loop1_from.
  induction l as [|x l IH]; intros k t0 r; simpl.
  - now rewrite andb_true_r.
  - rewrite IH. unfold loop1_step.
    destruct (m_src x =? m_dst x); simpl; unfold upd; destruct (r =? m_src x); simpl;
      rewrite ?andb_false_r, ?andb_true_r; reflexivity.
Qed.

Lemma children_gen l : forall k t0 v,
  children0 (loop1_from k l t0) v =
  children0 t0 v + Z.of_nat (length (filter (fun m => negb (trivb m) && (m_val m =? v)) l)).
Proof.
  unfold loop1_from.
  induction l as [|x l IH]; intros k t0 v; simpl.
  - lia.
  - rewrite IH. unfold loop1_step, trivb.
    destruct (m_src x =? m_dst x); simpl; [lia|].
    unfold upd. rewrite (Z.eqb_sym (m_val x) v). destruct (v =? m_val x) eqn:E; simpl; [|lia].
    apply Z.eqb_eq in E. subst v. lia.
Qed.

Lemma results0_gen l : forall k t0,
  (k + length l <= length (results0 t0))%nat ->
  length (results0 (loop1_from k l t0)) = length (results0 t0) /\
  forall i, nth_error (results0 (loop1_from k l t0)) i =
    match (if (k <=? i)%nat then nth_error l (i - k) else None) with
    | Some m => if trivb m then Some (Some (m_value m)) else nth_error (results0 t0) i
    | None => nth_error (results0 t0) i
    end.
Proof.
  unfold loop1_from.
  induction l as [|x l IH]; intros k t0 Hlen; cbn [fold_left combine seq length].
  - split; [reflexivity|]. intros i. destruct (k <=? i)%nat; [|reflexivity].
    now destruct (i - k)%nat.
  - simpl in Hlen.
    set (t1 := loop1_step t0 (k, x)).
    assert (L1 : length (results0 t1) = length (results0 t0)).
    { unfold t1, loop1_step. destruct (m_src x =? m_dst x); simpl; [apply lset_length|reflexivity]. }
    destruct (IH (S k) t1) as [La Lb]; [rewrite L1; lia|].
    split; [congruence|]. intros i. rewrite Lb.
    destruct (Nat.leb_spec (S k) i) as [Hi|Hi].
    + replace (k <=? i)%nat with true by (symmetry; apply Nat.leb_le; lia).
      replace (i - k)%nat with (S (i - S k)) by lia. simpl.
      assert (E : nth_error (results0 t1) i = nth_error (results0 t0) i).
      { unfold t1, loop1_step. destruct (m_src x =? m_dst x); simpl; [|reflexivity].
        apply nth_lset_other. lia. }
      now rewrite E.
    + destruct (Nat.leb_spec k i) as [Hk|Hk].
      * assert (i = k) by lia. subst i. rewrite Nat.sub_diag. simpl.
        unfold t1, loop1_step, trivb. destruct (m_src x =? m_dst x); simpl; [|reflexivity].
        apply nth_lset_same. lia.
      * unfold t1, loop1_step. destruct (m_src x =? m_dst x); simpl; [|reflexivity].
        apply nth_lset_other. lia.
Qed.

Lemma loop1_from_snoc k l x t0 :
  loop1_from k (l ++ [x]) t0 = loop1_step (loop1_from k l t0) ((k + length l)%nat, x).
Proof. unfold loop1_from. rewrite combine_seq_snoc, fold_left_app. reflexivity. Qed.

Lemma src_by_dst_gen l : forall k t0 d v,
  NoDup (map m_dst l) -> (forall r, src_by_dst t0 r = None) ->
  (src_by_dst (loop1_from k l t0) d = Some v <->
   exists m, In m l /\ trivb m = false /\ m_dst m = d /\ v = m_value m).
Proof.
  induction l as [|x l IH] using rev_ind; intros k t0 d v ND H0.
  - unfold loop1_from. simpl. rewrite H0. split; [discriminate|]. intros (m & [] & _).
  - rewrite loop1_from_snoc.
    rewrite map_app in ND. apply NoDup_remove_1 in ND as ND'. simpl in ND'. rewrite app_nil_r in ND'.
    assert (Hx : ~ In (m_dst x) (map m_dst l)).
    { simpl in ND. apply NoDup_remove_2 in ND. now rewrite app_nil_r in ND. }
    specialize (IH k t0 d v ND' H0).
    unfold loop1_step, trivb in *. destruct (m_src x =? m_dst x) eqn:T; simpl.
    + rewrite IH. split; intros (m & I & K).
      * exists m. split; [apply in_or_app; now left|assumption].
      * apply in_app_or in I as [I|[<-|[]]]; [eauto|]. destruct K as [K _]. congruence.
    + unfold upd. destruct (Z.eqb_spec d (m_dst x)) as [E|E].
      * split.
        -- intros K. inversion K; subst. exists x. split; [apply in_or_app; right; now left|]. auto.
        -- intros (m & I & _ & Dm & ->). apply in_app_or in I as [I|[<-|[]]]; [|reflexivity].
           exfalso. apply Hx. rewrite <- E, <- Dm. now apply in_map.
      * rewrite IH. split; intros (m & I & K).
        -- exists m. split; [apply in_or_app; now left|assumption].
        -- apply in_app_or in I as [I|[<-|[]]]; [eauto|]. destruct K as (_ & K & _). congruence.
Qed.

Definition init_tables (ms : list move) : tables :=
  mkT (fun r => existsb (Z.eqb r) (map m_dst ms)) (repeat None (length ms)) (fun _ => None) (fun _ => 0).
Lemma loop1_eq ms : loop1 ms = loop1_from 0 ms (init_tables ms).
Proof. reflexivity. Qed.

(* ---- the tables of `loop1 ms` ---- *)
Section Tables.
  Variable ms : list move.
  Hypothesis ND : NoDup (map m_dst ms).

  Lemma P_spec d v : src_by_dst (loop1 ms) d = Some v <->
    exists m, In m ms /\ trivb m = false /\ m_dst m = d /\ v = m_value m.
  Proof. rewrite loop1_eq. apply (src_by_dst_gen ms 0); auto. Qed.

  Lemma leaves_spec r : leaves (loop1 ms) r = true <-> In r (map m_dst ms) /\ ~ In r (map m_src ms).
  Proof.
    rewrite loop1_eq, leaves_gen. simpl.
    rewrite andb_true_iff, negb_true_iff, <- not_true_iff_false, !existsb_exists.
    split; intros [A B]; split.
    - destruct A as (x & I & E). apply Z.eqb_eq in E. now subst.
    - intros I. apply B. exists r. split; [assumption|apply Z.eqb_refl].
    - exists r. split; [assumption|apply Z.eqb_refl].
    - intros (x & I & E). apply Z.eqb_eq in E. now subst.
  Qed.

  Lemma children0_spec v : children0 (loop1 ms) v =
    Z.of_nat (length (filter (fun m => negb (trivb m) && (m_val m =? v)) ms)).
  Proof. rewrite loop1_eq, children_gen. reflexivity. Qed.

  Lemma results0_length : length (results0 (loop1 ms)) = length ms.
  Proof.
    rewrite loop1_eq.
    destruct (results0_gen ms 0 (init_tables ms)) as [L _]; simpl.
    - rewrite repeat_length. lia.
    - rewrite L. apply repeat_length.
  Qed.
  Lemma results0_spec i m : nth_error ms i = Some m ->
    nth_error (results0 (loop1 ms)) i = Some (if trivb m then Some (m_value m) else None).
  Proof.
    intros H. rewrite loop1_eq.
    destruct (results0_gen ms 0 (init_tables ms)) as [_ L]; simpl.
    - rewrite repeat_length. lia.
    - rewrite L. simpl. rewrite Nat.sub_0_r, H. destruct (trivb m); [reflexivity|].
      apply nth_error_lt in H. now apply nth_error_repeat.
  Qed.
End Tables.
