(* C20/ProofsPhase1.v -- the tree phase: the leaf-upward walks of the second loop.
   Invariant: the emitted moves realise exactly the resolved non-trivial moves, a register is
   overwritten only after all moves reading it have been emitted, and the counters are exact. *)
From Coq Require Import ZArith List Bool Lia ZifyBool Relations.
From XV Require Import C20.Model C20.Spec C20.ProofsBase C20.ProofsTables.
Import ListNotations.
Local Open Scope Z_scope.

Lemma filter_flip {A} (key : A -> Z) (f g : A -> bool) (l : list A) x :
  NoDup (map key l) -> In x l -> f x = true -> g x = false ->
  (forall y, In y l -> key y <> key x -> g y = f y) ->
  length (filter f l) = S (length (filter g l)).
Proof.
  induction l as [|a l IH]; intros ND I Fx Gx H; [destruct I|].
  inversion ND as [|? ? Ha ND']; subst. destruct I as [->|I].
  - simpl. rewrite Fx, Gx. simpl. f_equal. f_equal. apply filter_ext_in.
    intros y Iy. symmetry. apply H; [now right|]. intros E. apply Ha. rewrite <- E. now apply in_map.
  - simpl. assert (key a <> key x).
    { intros E. apply Ha. rewrite E. now apply in_map. }
    rewrite (H a (or_introl eq_refl)) by assumption.
    assert (IHl := IH ND' I Fx Gx (fun y Iy => H y (or_intror Iy))).
    destruct (f a); simpl; lia.
Qed.

(* a register on a cycle has a child on a cycle *)
Lemma on_cycle_child ms d : on_cycle ms d -> exists c, edge ms d c /\ on_cycle ms c.
Proof.
  unfold on_cycle. intros H. apply clos_trans_t1n in H.
  inversion H as [y E|y z E R]; subst.
  - exists d. split; [assumption|now apply t_step].
  - exists y. split; [assumption|]. apply clos_t1n_trans in R.
    eapply t_trans; [exact R|now apply t_step].
Qed.

Section Phase1.
  Variable ms : list move.
  Variable free : list reg.
  Variable ck : value -> Z.                   (* key of unprocessed_children: by SSA value or by register *)
  Variable wl : value -> reg -> option Z.     (* width lookup: by SSA value or by output register *)
  Variable ch0 : Z -> Z.                      (* unprocessed_children after the first loop *)
  Hypothesis WF : wf_all ms free.
  Hypothesis Hkey : forall a b, In a ms -> In b ms ->
    (ck (m_value a) = ck (m_value b) <-> m_src a = m_src b).
  Hypothesis Hw : forall m, In m ms -> trivb m = false -> wl (m_value m) (m_dst m) = Some (m_w m).
  Hypothesis Hch0 : forall k,
    ch0 k = Z.of_nat (length (filter (fun m => negb (trivb m) && (ck (m_value m) =? k)) ms)).

  Notation P := (src_by_dst (loop1 ms)).
  Notation oidx := (output_index ms).
  Notation walk := (walk ck wl ms (loop1 ms)).
  Let ND : NoDup (map m_dst ms) := wa_dsts _ _ WF.

  (* the result slot of destination register r is filled *)
  Definition doneb (rs : list (option value)) (r : reg) : bool :=
    match oidx r with
    | Some i => match nth_error rs i with Some (Some _) => true | _ => false end
    | None => false
    end.

  Lemma trivb_false m : trivb m = false <-> m_src m <> m_dst m.
  Proof. unfold trivb. destruct (Z.eqb_spec (m_src m) (m_dst m)); split; congruence. Qed.

  Lemma P_of m : In m ms -> trivb m = false -> P (m_dst m) = Some (m_value m).
  Proof. intros I T. apply (P_spec ms ND). exists m. auto. Qed.
  Lemma P_inv d v : P d = Some v -> exists m, In m ms /\ trivb m = false /\ m_dst m = d /\ v = m_value m.
  Proof. apply (P_spec ms ND). Qed.
  Lemma dst_inj a b : In a ms -> In b ms -> m_dst a = m_dst b -> a = b.
  Proof. apply NoDup_map_In_inj. exact ND. Qed.
  Lemma nontriv_dst_nonzero m : In m ms -> trivb m = false -> m_dst m <> ZERO.
  Proof.
    intros I T E. apply trivb_false in T. apply T.
    rewrite (wa_zero _ _ WF m I E). now rewrite E.
  Qed.

  Lemma doneb_lset rs i v d r :
    oidx d = Some i -> (i < length rs)%nat ->
    doneb (lset i (Some v) rs) r = if r =? d then true else doneb rs r.
  Proof.
    intros Od Li. unfold doneb. destruct (Z.eqb_spec r d) as [->|N].
    - rewrite Od. now rewrite nth_lset_same.
    - destruct (oidx r) as [j|] eqn:Or; [|reflexivity].
      assert (i <> j).
      { intros <-. destruct (output_index_Some ms d i ND Od) as (m1 & H1 & D1).
        destruct (output_index_Some ms r i ND Or) as (m2 & H2 & D2). congruence. }
      now rewrite nth_lset_other.
  Qed.

  Lemma doneb_false_slot rs d i : length rs = length ms ->
    oidx d = Some i -> doneb rs d = false -> nth_error rs i = Some None.
  Proof.
    intros L Od Dn. unfold doneb in Dn. rewrite Od in Dn.
    destruct (output_index_Some ms d i ND Od) as (m & Hm & _). apply nth_error_lt in Hm.
    destruct (nth_error rs i) as [[v|]|] eqn:E; try discriminate; [reflexivity|].
    apply nth_error_None in E. lia.
  Qed.

  Definition undone (rs : list (option value)) (v : Z) (m : move) : bool :=
    negb (trivb m) && (ck (m_value m) =? v) && negb (doneb rs (m_dst m)).

  (* ---- the invariant of the tree phase ---- *)
  Record Inv (s : state) : Prop := mkInv {
    I_len : length (results s) = length ms;
    I_triv : forall i m, nth_error ms i = Some m -> trivb m = true ->
             nth_error (results s) i = Some (Some (m_value m));
    I_sem : forall rho,
      (forall m, In m ms -> trivb m = false -> doneb (results s) (m_dst m) = true ->
         get (exec (em s) rho) (m_dst m) = copyf (is_float (m_dst m)) (m_w m) (get rho (m_src m)))
      /\ (forall r, (P r = None \/ doneb (results s) r = false) -> get (exec (em s) rho) r = get rho r);
    I_closed : forall m, In m ms -> trivb m = false ->
      P (m_src m) <> None -> doneb (results s) (m_src m) = true -> doneb (results s) (m_dst m) = true;
    I_cnt : forall v, children s v = Z.of_nat (length (filter (undone (results s) v) ms));
    I_nocyc : forall m, In m ms -> trivb m = false -> doneb (results s) (m_dst m) = true ->
      ~ on_cycle ms (m_dst m) }.

  (* a non-trivial destination all of whose (at least one) outgoing moves are emitted is emitted *)
  Definition ready (rs : list (option value)) (r : reg) : Prop :=
    forall m, In m ms -> trivb m = false -> m_src m = r -> doneb rs (m_dst m) = true.
  Definition Gat (rs : list (option value)) (r : reg) : Prop :=
    P r <> None -> (exists m, In m ms /\ trivb m = false /\ m_src m = r) -> ready rs r -> doneb rs r = true.

  Lemma walk_eq fuel cur s :
    walk fuel cur s =
    match fuel with
    | O => OutOfFuel
    | S f =>
        match P cur with
        | None => Ok (s, cur)
        | Some src =>
            do w <- key (wl src cur);
            do '(e1, nv) <- insert_mv (em s) src cur w;
            do i <- key (oidx cur);
            match nth_error (results s) i with
            | Some None =>
                let ch := upd (children s) (ck src) (children s (ck src) - 1) in
                let s1 := mkS e1 (lset i (Some nv) (results s)) ch in
                if negb (ch (ck src) =? 0) then Ok (s1, cur) else walk f (vreg src) s1
            | _ => Raise EAssertion
            end
        end
    end.
  Proof. destruct fuel; reflexivity. Qed.

  (* one emitted move: the invariant is preserved *)
  Lemma step_inv s m i e1 nv :
    Inv s -> In m ms -> trivb m = false ->
    doneb (results s) (m_dst m) = false -> ready (results s) (m_dst m) ->
    oidx (m_dst m) = Some i ->
    insert_mv (em s) (m_value m) (m_dst m) (m_w m) = Ok (e1, nv) ->
    let ch := upd (children s) (ck (m_value m)) (children s (ck (m_value m)) - 1) in
    let s1 := mkS e1 (lset i (Some nv) (results s)) ch in
    Inv s1 /\ (forall r, doneb (results s1) r = if r =? m_dst m then true else doneb (results s) r).
  Proof.
    intros IV Im Tm Dn Rd Oi Hins ch s1.
    assert (Li : (i < length (results s))%nat).
    { destruct (output_index_Some ms _ i ND Oi) as (m' & Hm' & _). apply nth_error_lt in Hm'.
      rewrite (I_len s IV). exact Hm'. }
    assert (DB : forall r, doneb (results s1) r = if r =? m_dst m then true else doneb (results s) r).
    { intros r. unfold s1. simpl. now apply doneb_lset. }
    split; [|exact DB].
    assert (Ksrc : is_float (vreg (m_value m)) = is_float (m_dst m)) by (apply (wa_kinds _ _ WF m Im)).
    destruct (insert_mv_Ok _ _ _ _ _ _ Hins Ksrc) as (_ & _ & ins & -> & _ & Hstep).
    assert (NZ : m_dst m <> ZERO) by (now apply nontriv_dst_nonzero).
    assert (Nsd : m_src m <> m_dst m) by (now apply trivb_false).
    (* the source register has not been overwritten *)
    assert (Usrc : P (m_src m) = None \/ doneb (results s) (m_src m) = false).
    { destruct (P (m_src m)) eqn:Ps; [|now left]. right.
      destruct (doneb (results s) (m_src m)) eqn:Ds; [|reflexivity].
      rewrite (I_closed s IV m Im Tm) in Dn; [discriminate|congruence|assumption]. }
    constructor.
    - unfold s1. simpl. rewrite lset_length. apply (I_len s IV).
    - intros j m' Hj Tj. unfold s1. simpl.
      assert (i <> j).
      { intros <-. destruct (output_index_Some ms _ i ND Oi) as (m2 & H2 & D2).
        assert (m2 = m') by congruence. subst m2.
        assert (m' = m) by (apply dst_inj; eauto using nth_error_In). subst. congruence. }
      rewrite nth_lset_other by assumption. now apply (I_triv s IV).
    - intros rho. unfold s1. simpl em. simpl results. rewrite exec_snoc, Hstep.
      destruct (I_sem s IV rho) as [S1 S2]. split.
      + intros m' Im' Tm' Dm'. rewrite DB in Dm'.
        destruct (Z.eqb_spec (m_dst m') (m_dst m)) as [E|E].
        * assert (m' = m) by (now apply dst_inj). subst m'.
          rewrite get_set_same by assumption. f_equal. simpl. now apply S2.
        * rewrite get_set_other by assumption. now apply S1.
      + intros r Hr. rewrite DB in Hr.
        destruct (Z.eqb_spec r (m_dst m)) as [E|E].
        * subst r. destruct Hr as [Hr|Hr]; [|discriminate]. rewrite (P_of m Im Tm) in Hr. discriminate.
        * rewrite get_set_other by assumption. now apply S2.
    - intros m' Im' Tm' Ps Ds. rewrite DB in Ds. rewrite DB.
      destruct (Z.eqb_spec (m_dst m') (m_dst m)) as [E|E]; [reflexivity|].
      destruct (Z.eqb_spec (m_src m') (m_dst m)) as [E2|E2].
      + now apply Rd.
      + now apply (I_closed s IV).
    - intros v. change (children s1 v) with (upd (children s) (ck (m_value m)) (children s (ck (m_value m)) - 1) v).
      unfold upd. destruct (Z.eqb_spec v (ck (m_value m))) as [->|Nv].
      + rewrite (I_cnt s IV).
        rewrite (filter_flip m_dst (undone (results s) (ck (m_value m))) (undone (results s1) (ck (m_value m))) ms m ND Im).
        * lia.
        * unfold undone. rewrite Tm, Z.eqb_refl, Dn. reflexivity.
        * unfold undone. rewrite DB, !Z.eqb_refl. simpl. apply andb_false_r.
        * intros y Iy Ny. unfold undone. rewrite DB.
          destruct (Z.eqb_spec (m_dst y) (m_dst m)); [contradiction|reflexivity].
      + rewrite (I_cnt s IV). f_equal. f_equal. apply filter_ext_in. intros y Iy.
        unfold undone. rewrite DB.
        destruct (Z.eqb_spec (m_dst y) (m_dst m)) as [E|E]; [|reflexivity].
        assert (y = m) by (now apply dst_inj). subst y.
        destruct (Z.eqb_spec (ck (m_value m)) v); [congruence|]. now rewrite !andb_false_r.
    - intros m' Im' Tm' Dm' Cy. rewrite DB in Dm'.
      destruct (Z.eqb_spec (m_dst m') (m_dst m)) as [E|E]; [|now apply (I_nocyc s IV m' Im' Tm')].
      destruct (on_cycle_child ms _ Cy) as (c & (mc & Imc & Nmc & Smc & Dmc) & Cc).
      assert (Tmc : trivb mc = false) by (now apply trivb_false).
      apply (I_nocyc s IV mc Imc Tmc); [|now rewrite Dmc].
      apply Rd; [assumption|assumption|congruence].
  Qed.

  (* the counter of a value is zero exactly when every move reading its register is emitted *)
  Lemma cnt_zero_ready s m : Inv s -> In m ms ->
    (children s (ck (m_value m)) = 0 <-> ready (results s) (m_src m)).
  Proof.
    intros IV Im. rewrite (I_cnt s IV). split.
    - intros Z0 y Iy Ty Sy.
      assert (E : filter (undone (results s) (ck (m_value m))) ms = []).
      { destruct (filter _ ms) eqn:F; [reflexivity|]. simpl in Z0. lia. }
      destruct (doneb (results s) (m_dst y)) eqn:D; [reflexivity|]. exfalso.
      assert (In y (filter (undone (results s) (ck (m_value m))) ms)).
      { apply filter_In. split; [assumption|]. unfold undone. rewrite Ty, D. simpl.
        rewrite andb_true_r. apply Z.eqb_eq. now apply (Hkey y m). }
      rewrite E in H. destruct H.
    - intros R. destruct (filter _ ms) as [|y l] eqn:F; [reflexivity|]. exfalso.
      assert (Iy : In y (filter (undone (results s) (ck (m_value m))) ms)) by (rewrite F; now left).
      apply filter_In in Iy as [Iy U]. unfold undone in U.
      apply andb_true_iff in U as [U U3]. apply andb_true_iff in U as [U1 U2].
      apply Z.eqb_eq in U2. apply negb_true_iff in U1, U3.
      rewrite (R y Iy U1) in U3; [discriminate|]. now apply (Hkey y m).
  Qed.

  Definition Gexc (rs : list (option value)) (x : reg) : Prop := forall r, r <> x -> Gat rs r.

  Lemma walk_spec fuel : forall cur s,
    Inv s -> (count_none (results s) < fuel)%nat ->
    (P cur <> None -> doneb (results s) cur = false) ->
    ready (results s) cur ->
    Gexc (results s) cur ->
    match walk fuel cur s with
    | Ok (s', cur') =>
        Inv s' /\ (forall r, Gat (results s') r)
        /\ (forall r, doneb (results s) r = true -> doneb (results s') r = true)
        /\ (forall r, doneb (results s') r = true ->
                      doneb (results s) r = true \/ r = cur \/ In r (map m_src ms))
        /\ (P cur <> None -> doneb (results s') cur = true)
    | Raise e => e = EPassFailed /\ exists m, In m ms /\ trivb m = false /\ okw (m_w m) = false
    | OutOfFuel => False
    end.
  Proof.
    induction fuel as [|f IH]; intros cur s IV Fu Dc Rc Gc; [lia|].
    rewrite walk_eq. destruct (P cur) as [src|] eqn:Pc.
    2:{ split; [assumption|]. split; [|split; [auto|split; [auto|congruence]]].
        intros r. destruct (Z.eq_dec r cur) as [->|N]; [|now apply Gc].
        intros H. congruence. }
    destruct (P_inv _ _ Pc) as (m & Im & Tm & Dm & ->). subst cur.
    rewrite (Hw m Im Tm). simpl key. simpl bind.
    assert (Ksrc : is_float (vreg (m_value m)) = is_float (m_dst m)) by (apply (wa_kinds _ _ WF m Im)).
    destruct (insert_mv_res (em s) (m_value m) (m_dst m) (m_w m) Ksrc) as [(e1 & nv & Hins)|[Hins Hbw]].
    2:{ rewrite Hins. simpl. split; [reflexivity|]. exists m. auto. }
    rewrite Hins. simpl bind.
    destruct (In_nth_error _ _ Im) as [i Hi].
    rewrite (output_index_of ms i m ND Hi). simpl key. simpl bind.
    assert (Dn : doneb (results s) (m_dst m) = false) by (apply Dc; congruence).
    rewrite (doneb_false_slot (results s) (m_dst m) i (I_len s IV) (output_index_of ms i m ND Hi) Dn).
    destruct (step_inv s m i e1 nv IV Im Tm Dn Rc (output_index_of ms i m ND Hi) Hins) as [IV1 DB].
    cbv zeta. simpl vreg.
    set (s1 := mkS e1 (lset i (Some nv) (results s)) (upd (children s) (ck (m_value m)) (children s (ck (m_value m)) - 1))) in *.
    assert (Mono : forall r, doneb (results s) r = true -> doneb (results s1) r = true).
    { intros r H. rewrite DB. destruct (r =? m_dst m); auto. }
    (* Gat in s1 for every register except the parent of the move just emitted *)
    assert (G1 : forall r, r <> m_src m -> Gat (results s1) r).
    { intros r Nr Pr Cr Rr. rewrite DB. destruct (Z.eqb_spec r (m_dst m)) as [E|E]; [reflexivity|].
      apply (Gc r E Pr Cr). intros y Iy Ty Sy. specialize (Rr y Iy Ty Sy). rewrite DB in Rr.
      destruct (Z.eqb_spec (m_dst y) (m_dst m)) as [E2|E2]; [|assumption].
      assert (y = m) by (now apply dst_inj). subst y. congruence. }
    assert (Hch : upd (children s) (ck (m_value m)) (children s (ck (m_value m)) - 1) (ck (m_value m)) = children s1 (ck (m_value m))) by reflexivity.
    rewrite Hch.
    destruct (Z.eqb_spec (children s1 (ck (m_value m))) 0) as [Z0|Z0]; simpl negb; cbv iota.
    - (* continue up the tree *)
      assert (R1 : ready (results s1) (m_src m)) by (now apply (cnt_zero_ready s1 m IV1 Im)).
      assert (Nsd : m_src m <> m_dst m) by (now apply trivb_false).
      assert (D1 : P (m_src m) <> None -> doneb (results s1) (m_src m) = false).
      { intros Ps. rewrite DB. destruct (Z.eqb_spec (m_src m) (m_dst m)); [contradiction|].
        destruct (doneb (results s) (m_src m)) eqn:Ds; [|reflexivity].
        rewrite (I_closed s IV m Im Tm Ps Ds) in Dn. discriminate. }
      assert (Fu1 : (count_none (results s1) < f)%nat).
      { pose proof (count_none_lset i nv (results s)
          (doneb_false_slot (results s) (m_dst m) i (I_len s IV) (output_index_of ms i m ND Hi) Dn)) as H.
        change (lset i (Some nv) (results s)) with (results s1) in H. lia. }
      specialize (IH (m_src m) s1 IV1 Fu1 D1 R1 G1).
      destruct (walk f (m_src m) s1) as [[s' cur']|e|]; [|exact IH|exact IH].
      destruct IH as (IV' & G' & Mo' & Back' & _).
      split; [assumption|]. split; [assumption|]. split; [auto|]. split.
      + intros r H. apply Back' in H as [H|[H|H]]; auto.
        * rewrite DB in H. destruct (Z.eqb_spec r (m_dst m)); auto.
        * subst r. right. right. now apply in_map.
      + intros _. apply Mo'. rewrite DB. now rewrite Z.eqb_refl.
    - (* break *)
      split; [assumption|]. split; [|split; [assumption|split]].
      + intros r. destruct (Z.eq_dec r (m_src m)) as [->|N]; [|now apply G1].
        intros _ _ Rr. exfalso. apply Z0. now apply (cnt_zero_ready s1 m IV1 Im).
      + intros r H. rewrite DB in H. destruct (Z.eqb_spec r (m_dst m)); auto.
      + intros _. rewrite DB. now rewrite Z.eqb_refl.
  Qed.

  (* ---- the second loop ---- *)
  Notation lvs := (leaves (loop1 ms)).

  Lemma leaf_P r : lvs r = true -> P r <> None /\ ~ In r (map m_src ms).
  Proof.
    intros L. apply (leaves_spec ms) in L as [Id Is]. split; [|assumption].
    apply in_map_iff in Id as (m & <- & Im).
    destruct (trivb m) eqn:T.
    - exfalso. apply Is. unfold trivb in T. apply Z.eqb_eq in T. rewrite <- T. now apply in_map.
    - rewrite (P_of m Im T). discriminate.
  Qed.

  Record Inv2 (s : state) (pre : list reg) : Prop := mkInv2 {
    J_inv : Inv s;
    J_G : forall r, Gat (results s) r;
    J_leaf : forall r, lvs r = true -> doneb (results s) r = true -> In r pre;
    J_leafdone : forall r, In r pre -> lvs r = true -> doneb (results s) r = true }.

  Lemma loop2_fold_raise c e ds :
    fold_left (loop2_step c ck wl ms (loop1 ms) lvs) ds (Raise e) = Raise e.
  Proof. induction ds; simpl; auto. Qed.
  Lemma loop2_fold_fuel c ds :
    fold_left (loop2_step c ck wl ms (loop1 ms) lvs) ds OutOfFuel = OutOfFuel.
  Proof. induction ds; simpl; auto. Qed.

  Lemma loop2_spec c : forall ds pre s fi ff,
    Inv2 s pre -> NoDup (pre ++ ds) ->
    match fold_left (loop2_step c ck wl ms (loop1 ms) lvs) ds (Ok (s, fi, ff)) with
    | Ok (s', fi', ff') =>
        Inv2 s' (pre ++ ds)
        /\ (root_free c = false -> fi' = fi /\ ff' = ff)
        /\ (exists xi xf, fi' = fi ++ xi /\ ff' = ff ++ xf)
    | Raise e => e = EPassFailed /\ exists m, In m ms /\ trivb m = false /\ okw (m_w m) = false
    | OutOfFuel => False
    end.
  Proof.
    induction ds as [|d ds IH]; intros pre s fi ff J NDp.
    - simpl. rewrite app_nil_r. split; [assumption|]. split; [auto|]. exists [], []. now rewrite !app_nil_r.
    - cbn [fold_left]. unfold loop2_step at 2. cbn [bind].
      assert (NDp' : NoDup ((pre ++ [d]) ++ ds)) by (now rewrite <- app_assoc).
      destruct (lvs d) eqn:Ld; cbn [negb].
      2:{ specialize (IH (pre ++ [d]) s fi ff). rewrite <- app_assoc in IH. apply IH; [|assumption].
          destruct J as [Ji Jg Jl Jd]. constructor; auto.
          - intros r Lr Dr. apply in_or_app. left. auto.
          - intros r Ir Lr. apply in_app_or in Ir as [Ir|[<-|[]]]; [auto|congruence]. }
      destruct J as [Ji Jg Jl Jd].
      destruct (leaf_P d Ld) as [Pd Sd].
      assert (Dd : doneb (results s) d = false).
      { destruct (doneb (results s) d) eqn:D; [|reflexivity]. exfalso.
        apply (Jl d Ld) in D. apply NoDup_remove_2 in NDp. apply NDp. apply in_or_app. now left. }
      assert (Rd : ready (results s) d).
      { intros y Iy _ Sy. exfalso. apply Sd. rewrite <- Sy. now apply in_map. }
      assert (Fu : (count_none (results s) < loop_fuel ms)%nat).
      { pose proof (count_none_le (results s)). rewrite (I_len s Ji) in H. unfold loop_fuel. lia. }
      pose proof (walk_spec (loop_fuel ms) d s Ji Fu (fun _ => Dd) Rd (fun r _ => Jg r)) as W.
      destruct (walk (loop_fuel ms) d s) as [[s1 cur]|e|]; cbn [bind].
      + destruct W as (I1 & G1 & Mo & Back & Dn).
        assert (J1 : Inv2 s1 (pre ++ [d])).
        { constructor; auto.
          - intros r Lr Dr. apply in_or_app. apply Back in Dr as [Dr|[->|Dr]]; [left; auto|right; now left|].
            exfalso. now apply (leaf_P r Lr).
          - intros r Ir Lr. apply in_app_or in Ir as [Ir|[<-|[]]]; [apply Mo; auto|now apply Dn]. }
        assert (Hgen : forall fi1 ff1, (root_free c = false -> fi1 = fi /\ ff1 = ff) ->
                  (exists xi xf, fi1 = fi ++ xi /\ ff1 = ff ++ xf) ->
                  match fold_left (loop2_step c ck wl ms (loop1 ms) lvs) ds (Ok (s1, fi1, ff1)) with
                  | Ok (s', fi', ff') =>
                      Inv2 s' (pre ++ d :: ds) /\ (root_free c = false -> fi' = fi /\ ff' = ff)
                      /\ (exists xi xf, fi' = fi ++ xi /\ ff' = ff ++ xf)
                  | Raise e => e = EPassFailed /\ exists m, In m ms /\ trivb m = false /\ okw (m_w m) = false
                  | OutOfFuel => False
                  end).
        { intros fi1 ff1 H1 H2. specialize (IH (pre ++ [d]) s1 fi1 ff1 J1 NDp').
          rewrite <- app_assoc in IH. simpl in IH.
          destruct (fold_left (loop2_step c ck wl ms (loop1 ms) lvs) ds (Ok (s1, fi1, ff1))) as [[[s' fi'] ff']|e|]; auto.
          destruct IH as (A & B & (xi & xf & -> & ->)). split; [assumption|]. split.
          - intros Rf. destruct (B Rf) as [-> ->]. auto.
          - destruct H2 as (yi & yf & -> & ->). exists (yi ++ xi), (yf ++ xf). now rewrite !app_assoc. }
        destruct (P cur); [apply Hgen; [auto|exists [], []; now rewrite !app_nil_r]|].
        destruct (root_free c) eqn:Rf; [|apply Hgen; [auto|exists [], []; now rewrite !app_nil_r]].
        destruct (is_float cur); apply Hgen; try discriminate.
        * exists [], [cur]. now rewrite app_nil_r.
        * exists [cur], []. now rewrite app_nil_r.
      + rewrite loop2_fold_raise. exact W.
      + destruct W.
  Qed.

  (* the rewrite state after the second loop does not depend on the configuration *)
  Definition core {A B C} (r : res (A * B * C)) : res A :=
    match r with Ok (a, _, _) => Ok a | Raise e => Raise e | OutOfFuel => OutOfFuel end.
  Lemma loop2_step_eq c s fi ff d :
    loop2_step c ck wl ms (loop1 ms) lvs (Ok (s, fi, ff)) d =
    if negb (lvs d) then Ok (s, fi, ff) else
    do '(s1, cur) <- walk (loop_fuel ms) d s;
    match P cur with
    | None =>
        if root_free c
        then (if is_float cur then Ok (s1, fi, ff ++ [cur]) else Ok (s1, fi ++ [cur], ff))
        else Ok (s1, fi, ff)
    | Some _ => Ok (s1, fi, ff)
    end.
  Proof. reflexivity. Qed.
  Lemma loop2_core c : forall ds s fi ff fi0 ff0,
    core (fold_left (loop2_step c ck wl ms (loop1 ms) lvs) ds (Ok (s, fi, ff))) =
    core (fold_left (loop2_step repaired ck wl ms (loop1 ms) lvs) ds (Ok (s, fi0, ff0))).
  Proof.
    induction ds as [|d ds IH]; intros s fi ff fi0 ff0; [reflexivity|].
    cbn [fold_left]. rewrite !loop2_step_eq.
    destruct (negb (lvs d)); [apply IH|].
    destruct (walk (loop_fuel ms) d s) as [[s1 cur]|e|]; cbn [bind].
    - destruct (P cur); [apply IH|]. cbn [root_free repaired].
      destruct (root_free c); [destruct (is_float cur)|]; apply IH.
    - now rewrite !loop2_fold_raise.
    - now rewrite !loop2_fold_fuel.
  Qed.

  (* ---- the state after the tree phase: what is still unresolved lies on cycles ---- *)
  Lemma inv0 : Inv (mkS [] (results0 (loop1 ms)) ch0).
  Proof.
    assert (D0 : forall m, In m ms -> trivb m = false -> doneb (results0 (loop1 ms)) (m_dst m) = false).
    { intros m Im Tm. destruct (In_nth_error _ _ Im) as [i Hi]. unfold doneb.
      rewrite (output_index_of ms i m ND Hi), (results0_spec ms i m Hi), Tm. reflexivity. }
    constructor; simpl.
    - apply results0_length.
    - intros i m Hi Tm. rewrite (results0_spec ms i m Hi), Tm. reflexivity.
    - intros rho. split; [|reflexivity]. intros m Im Tm Dm. rewrite (D0 m Im Tm) in Dm. discriminate.
    - intros m Im Tm Ps Ds. exfalso. destruct (P (m_src m)) as [v|] eqn:E; [|congruence].
      destruct (P_inv _ _ E) as (m' & Im' & Tm' & Dm' & _). rewrite <- Dm', (D0 m' Im' Tm') in Ds. discriminate.
    - intros v. rewrite Hch0. f_equal. f_equal. apply filter_ext_in. intros m Im.
      unfold undone. destruct (trivb m) eqn:Tm; simpl; [reflexivity|].
      rewrite (D0 m Im Tm). simpl. now rewrite andb_true_r.
    - intros m Im Tm Dm. rewrite (D0 m Im Tm) in Dm. discriminate.
  Qed.
  Lemma inv2_0 : Inv2 (mkS [] (results0 (loop1 ms)) ch0) [].
  Proof.
    constructor; [apply inv0| | |intros r []].
    - intros r Pr (m & Im & Tm & Sm) Rr. exfalso.
      destruct (In_nth_error _ _ Im) as [i Hi].
      specialize (Rr m Im Tm Sm). unfold doneb in Rr. simpl in Rr.
      rewrite (output_index_of ms i m ND Hi), (results0_spec ms i m Hi), Tm in Rr. discriminate.
    - intros r Lr Dr. exfalso. destruct (leaf_P r Lr) as [Pr _].
      destruct (P r) as [v|] eqn:E; [|congruence].
      destruct (P_inv _ _ E) as (m & Im & Tm & Dm & _). destruct (In_nth_error _ _ Im) as [i Hi].
      unfold doneb in Dr. simpl in Dr. rewrite <- Dm in Dr.
      rewrite (output_index_of ms i m ND Hi), (results0_spec ms i m Hi), Tm in Dr. discriminate.
  Qed.

  (* every unresolved non-trivial destination has an unresolved child *)
  Lemma unresolved_child s : Inv2 s (map m_dst ms) ->
    forall d, P d <> None -> doneb (results s) d = false ->
    exists y, In y ms /\ trivb y = false /\ m_src y = d /\ doneb (results s) (m_dst y) = false.
  Proof.
    intros [Ji Jg Jl Jd] d Pd Dd.
    destruct (P d) as [v|] eqn:E; [|congruence].
    destruct (P_inv _ _ E) as (m0 & Im0 & Tm0 & Dm0 & _).
    destruct (existsb (fun y => negb (trivb y) && (m_src y =? d)) ms) eqn:Ex.
    - apply existsb_exists in Ex as (m & Im & H). apply andb_true_iff in H as [Tm Sm].
      apply negb_true_iff in Tm. apply Z.eqb_eq in Sm.
      destruct (Z.eq_dec (children s (ck (m_value m))) 0) as [Z0|Z0].
      + exfalso. apply (cnt_zero_ready s m Ji Im) in Z0. rewrite Sm in Z0.
        rewrite (Jg d) in Dd; [discriminate|congruence|eauto|assumption].
      + rewrite (I_cnt s Ji) in Z0.
        destruct (filter (undone (results s) (ck (m_value m))) ms) as [|y l] eqn:F; [simpl in Z0; lia|].
        assert (Iy : In y (filter (undone (results s) (ck (m_value m))) ms)) by (rewrite F; now left).
        apply filter_In in Iy as [Iy U]. unfold undone in U.
        apply andb_true_iff in U as [U U3]. apply andb_true_iff in U as [U1 U2].
        apply Z.eqb_eq in U2. apply negb_true_iff in U1, U3.
        exists y. repeat split; auto. rewrite <- Sm. now apply (Hkey y m).
    - (* no outgoing move: d is a leaf and was resolved by its own walk *)
      exfalso. assert (L : lvs d = true).
      { apply (leaves_spec ms). split; [rewrite <- Dm0; now apply in_map|].
        intros Is. apply in_map_iff in Is as (y & Sy & Iy).
        destruct (trivb y) eqn:Ty.
        - unfold trivb in Ty. apply Z.eqb_eq in Ty.
          assert (y = m0) by (apply dst_inj; auto; congruence). subst y.
          unfold trivb in Tm0. apply Z.eqb_neq in Tm0. congruence.
        - assert (existsb (fun y => negb (trivb y) && (m_src y =? d)) ms = true).
          { apply existsb_exists. exists y. split; [assumption|]. rewrite Ty. simpl. now apply Z.eqb_eq. }
          congruence. }
      rewrite (Jd d) in Dd; [discriminate| |assumption]. rewrite <- Dm0. now apply in_map.
  Qed.
End Phase1.
