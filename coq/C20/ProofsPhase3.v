(* C20/ProofsPhase3.v -- the cycle phase (third loop) of the repaired algorithm:
   breaking a cycle through a designated free register, or rotating an integer cycle with the
   (repaired) xor-swap chain. *)
From Coq Require Import ZArith List Bool Lia ZifyBool Relations.
From XV Require Import C20.Model C20.Spec C20.ProofsBase C20.ProofsTables C20.ProofsCycle C20.ProofsPhase1.
Import ListNotations.
Local Open Scope Z_scope.

(* ---------------------------------------------------------------- xor swap *)
Lemma lxor_cancel_r x y : Z.lxor (Z.lxor x y) y = x.
Proof. now rewrite Z.lxor_assoc, Z.lxor_nilpotent, Z.lxor_0_r. Qed.
Lemma lxor_cancel_l x y : Z.lxor (Z.lxor x y) x = y.
Proof. now rewrite (Z.lxor_comm x y), lxor_cancel_r. Qed.

Lemma swap_sem e a b :
  vreg a <> vreg b -> vreg a <> ZERO -> vreg b <> ZERO ->
  exists xs v2 v3, insert_swap e a b = (e ++ xs, v2, v3) /\ vreg v2 = vreg b /\ vreg v3 = vreg a /\
    forall rho,
      get (exec xs rho) (vreg a) = get rho (vreg b) /\
      get (exec xs rho) (vreg b) = get rho (vreg a) /\
      forall r, r <> vreg a -> r <> vreg b -> get (exec xs rho) r = get rho r.
Proof.
  intros Nab Na Nb. unfold insert_swap.
  eexists [Xor (vreg a) a b; Xor (vreg b) (new_value e (vreg a)) b;
           Xor (vreg a) (new_value e (vreg a)) (new_value (e ++ [Xor (vreg a) a b]) (vreg b))].
  eexists. eexists. split.
  { rewrite <- !app_assoc. reflexivity. }
  split; [reflexivity|]. split; [reflexivity|].
  intros rho. unfold exec. cbn [fold_left step vreg new_value].
  set (ra := vreg a) in *. set (rb := vreg b) in *.
  assert (Nba : rb <> ra) by congruence.
  repeat split.
  - repeat first [rewrite get_set_same by assumption | rewrite get_set_other by assumption].
    rewrite lxor_cancel_r. apply lxor_cancel_l.
  - repeat first [rewrite get_set_same by assumption | rewrite get_set_other by assumption].
    apply lxor_cancel_r.
  - intros r Ra Rb. now rewrite !get_set_other by assumption.
Qed.

(* ---------------------------------------------------------------- paths *)
Lemma last_cons_default {A} (l : list A) (x d : A) : last (x :: l) d = last l x.
Proof. revert x; induction l as [|y l IH]; intros x; [reflexivity|]. simpl in *. destruct l; auto. Qed.
Lemma last_in {A} (l : list A) x : In (last l x) (x :: l).
Proof.
  revert x; induction l as [|y l IH]; intros x; [now left|].
  right. rewrite last_cons_default. apply IH.
Qed.
Lemma removelast_cons2 {A} (x y : A) l : removelast (x :: y :: l) = x :: removelast (y :: l).
Proof. reflexivity. Qed.
Lemma removelast_incl {A} (l : list A) : incl (removelast l) l.
Proof.
  induction l as [|x l IH]; [intros y []|]. destruct l as [|y l]; [intros z []|].
  rewrite removelast_cons2. intros z [<-|I]; [now left|right; now apply IH].
Qed.
Lemma chain_succ par x l z : chain par x l -> In z (removelast (x :: l)) ->
  exists z', par z = Some z' /\ In z' l.
Proof.
  revert x; induction l as [|y l IH]; intros x C I; [destruct I|].
  rewrite removelast_cons2 in I. destruct C as [Px C]. destruct I as [<-|I].
  - exists y. split; [assumption|now left].
  - destruct (IH y C I) as (z' & Pz & Iz). exists z'. split; [assumption|now right].
Qed.

Section Phase3.
  Variable ms : list move.
  Variable free : list reg.
  Variable ck : value -> Z.
  Variable wl : value -> reg -> option Z.
  Hypothesis WF : wf_all ms free.
  Hypothesis Hkey : forall a b, In a ms -> In b ms ->
    (ck (m_value a) = ck (m_value b) <-> m_src a = m_src b).
  Hypothesis Hw : forall m, In m ms -> trivb m = false -> wl (m_value m) (m_dst m) = Some (m_w m).

  Notation P := (src_by_dst (loop1 ms)).
  Notation oidx := (output_index ms).
  Notation break_chain := (break_chain wl ms (loop1 ms)).
  Notation xor_chain_new := (xor_chain_new ms (loop1 ms)).
  Notation doneb := (doneb ms).
  Let ND : NoDup (map m_dst ms) := wa_dsts _ _ WF.

  Definition par (r : reg) : option reg := option_map vreg (P r).

  Lemma par_move x y : par x = Some y ->
    exists m, In m ms /\ trivb m = false /\ m_dst m = x /\ m_src m = y /\ P x = Some (m_value m).
  Proof.
    unfold par. destruct (P x) as [v|] eqn:E; [|discriminate]. intros H. inversion H; subst.
    destruct (P_inv ms free WF _ _ E) as (m & Im & Tm & Dm & ->). exists m. auto.
  Qed.
  Lemma view_copyf m x : view m x = copyf (is_float (m_dst m)) (m_w m) x.
  Proof. reflexivity. Qed.

  Record Inv3 (s : state) : Prop := mkInv3 {
    K_len : length (results s) = length ms;
    K_triv : forall i m, nth_error ms i = Some m -> trivb m = true ->
             nth_error (results s) i = Some (Some (m_value m));
    K_sem : forall rho,
      (forall m, In m ms -> trivb m = false -> doneb (results s) (m_dst m) = true ->
         view m (get (exec (em s) rho) (m_dst m)) = view m (get rho (m_src m)))
      /\ (forall r, (P r = None \/ doneb (results s) r = false) -> ~ In r free ->
            get (exec (em s) rho) r = get rho r);
    K_child : forall d, P d <> None -> doneb (results s) d = false ->
      exists y, In y ms /\ trivb y = false /\ m_src y = d /\ doneb (results s) (m_dst y) = false }.

  Lemma inv3_of_inv2 s : Inv2 ms ck s (map m_dst ms) -> Inv3 s.
  Proof.
    intros J. pose proof (unresolved_child ms free ck WF Hkey s J) as UC. destruct J as [Ji _ _ _].
    constructor.
    - apply (I_len ms ck s Ji).
    - apply (I_triv ms ck s Ji).
    - intros rho. destruct (I_sem ms ck s Ji rho) as [S1 S2]. split.
      + intros m Im Tm Dm. rewrite (S1 m Im Tm Dm). rewrite !view_copyf. apply copyf_idem.
      + intros r Hr _. now apply S2.
    - exact UC.
  Qed.

  (* the unresolved registers *)
  Definition unres (rs : list (option value)) (r : reg) : bool :=
    match P r with Some _ => negb (doneb rs r) | None => false end.
  Definition Ulist (rs : list (option value)) : list reg := filter (unres rs) (map m_dst ms).
  Lemma Ulist_In rs r : In r (Ulist rs) <-> P r <> None /\ doneb rs r = false.
  Proof.
    unfold Ulist. rewrite filter_In. unfold unres. split.
    - intros [_ H]. destruct (P r); [|discriminate]. split; [discriminate|]. now apply negb_true_iff.
    - intros [Pr Dr]. destruct (P r) as [v|] eqn:E; [|congruence]. split; [|now rewrite Dr].
      destruct (P_inv ms free WF _ _ E) as (m & Im & _ & <- & _). now apply in_map.
  Qed.

  Lemma cycle_at s d : Inv3 s -> P d <> None -> doneb (results s) d = false ->
    exists y1 l, chain par d (y1 :: l) /\ last l y1 = d /\ NoDup (y1 :: l) /\
      (forall z, In z (y1 :: l) -> P z <> None /\ doneb (results s) z = false).
  Proof.
    intros K Pd Dd.
    destruct (cycle_of par (Ulist (results s))) with (d := d) as (cyc & Ne & Ch & La & NDc & Inc).
    - apply NoDup_filter. exact ND.
    - intros x Ix. apply Ulist_In in Ix as [Px Dx].
      destruct (K_child s K x Px Dx) as (y & Iy & Ty & Sy & Dy).
      exists (m_dst y). split.
      + apply Ulist_In. split; [|assumption]. rewrite (P_of ms free WF y Iy Ty). discriminate.
      + unfold par. rewrite (P_of ms free WF y Iy Ty). simpl. now rewrite Sy.
    - apply Ulist_In. auto.
    - destruct cyc as [|y1 l]; [congruence|]. exists y1, l.
      split; [assumption|]. split; [now rewrite last_cons_default in La|]. split; [assumption|].
      intros z Iz. apply Inc in Iz. now apply Ulist_In in Iz.
  Qed.

  (* a cycle is closed under the parent function *)
  Lemma cycle_closed d y1 l z : chain par d (y1 :: l) -> last l y1 = d -> In z (y1 :: l) ->
    exists z', par z = Some z' /\ In z' (y1 :: l).
  Proof.
    intros [Pd Ch] La Iz.
    destruct (in_dec Z.eq_dec z (removelast (y1 :: l))) as [I|I].
    - destruct (chain_succ par y1 l z Ch I) as (z' & Pz & Iz'). exists z'. split; [assumption|now right].
    - assert (z = d).
      { rewrite <- La. clear -Iz I. revert y1 Iz I. induction l as [|y l IH]; intros y1 Iz I.
        - destruct Iz as [<-|[]]. reflexivity.
        - rewrite removelast_cons2 in I. destruct Iz as [<-|Iz]; [exfalso; apply I; now left|].
          rewrite last_cons_default. apply IH; [assumption|]. intros K. apply I. now right. }
      subst z. exists y1. split; [assumption|now left].
  Qed.

  (* ---- break_chain ---- *)
  Lemma break_chain_eq fuel stop e rs cur :
    break_chain fuel stop e rs cur =
    match fuel with
    | O => OutOfFuel
    | S f =>
        if cur =? stop then Ok (e, rs) else
        do src <- key (P cur);
        do w <- key (wl src cur);
        do '(e1, nv) <- insert_mv e src cur w;
        do i <- key (oidx cur);
        break_chain f stop e1 (lset i (Some nv) rs) (vreg src)
    end.
  Proof. destruct fuel; reflexivity. Qed.

  Lemma break_chain_spec : forall l x fuel e rs,
    chain par x l -> NoDup (x :: l) -> length rs = length ms -> (length l < fuel)%nat ->
    match break_chain fuel (last l x) e rs x with
    | Ok (e', rs') =>
        exists mvs, e' = e ++ mvs /\ length rs' = length rs
        /\ (forall r, In r (removelast (x :: l)) -> doneb rs' r = true)
        /\ (forall r, ~ In r (removelast (x :: l)) -> doneb rs' r = doneb rs r)
        /\ (forall i, (forall r, In r (removelast (x :: l)) -> oidx r <> Some i) ->
                      nth_error rs' i = nth_error rs i)
        /\ forall rho,
             (forall r, ~ In r (removelast (x :: l)) -> get (exec mvs rho) r = get rho r)
             /\ (forall m, In m ms -> trivb m = false -> In (m_dst m) (removelast (x :: l)) ->
                   get (exec mvs rho) (m_dst m) = copyf (is_float (m_dst m)) (m_w m) (get rho (m_src m)))
    | Raise e0 => e0 = EPassFailed /\ exists m, In m ms /\ trivb m = false /\ okw (m_w m) = false
    | OutOfFuel => False
    end.
  Proof.
    induction l as [|y l IH]; intros x fuel e rs Ch NDp Len Fu.
    - destruct fuel as [|f]; [simpl in Fu; lia|]. rewrite break_chain_eq. simpl last. rewrite Z.eqb_refl.
      exists []. rewrite app_nil_r. repeat split; auto. intros m _ _ [].
    - destruct fuel as [|f]; [simpl in Fu; lia|]. rewrite break_chain_eq.
      destruct Ch as [Px Ch]. rewrite last_cons_default.
      assert (Nx : x <> last l y).
      { intros E. apply NoDup_cons_iff in NDp as [Hx _]. apply Hx. rewrite E. apply last_in. }
      destruct (Z.eqb_spec x (last l y)) as [|_]; [contradiction|].
      destruct (par_move x y Px) as (m & Im & Tm & Dm & Sm & Pm). rewrite Pm. cbn [key bind].
      pose proof (Hw m Im Tm) as Hwm. rewrite Dm in Hwm. rewrite Hwm. cbn [key bind].
      assert (Ksrc : is_float (vreg (m_value m)) = is_float x) by (rewrite <- Dm; apply (wa_kinds _ _ WF m Im)).
      destruct (insert_mv_res e (m_value m) x (m_w m) Ksrc) as [(e1 & nv & Hins)|[Hins Hbw]].
      2:{ rewrite Hins. cbn [bind]. split; [reflexivity|]. exists m. auto. }
      rewrite Hins. cbn [bind].
      destruct (In_nth_error _ _ Im) as [i Hi].
      assert (Oi : oidx x = Some i) by (rewrite <- Dm; apply (output_index_of ms i m ND Hi)).
      rewrite Oi. cbn [key bind]. simpl vreg. rewrite Sm.
      destruct (insert_mv_Ok _ _ _ _ _ _ Hins Ksrc) as (_ & _ & ins & -> & _ & Hstep).
      inversion NDp as [|? ? Hx NDy]; subst x0 l0.
      assert (Li : (i < length rs)%nat) by (rewrite Len; now apply nth_error_lt in Hi).
      specialize (IH y f (e ++ [ins]) (lset i (Some nv) rs) Ch NDy).
      rewrite lset_length in IH. specialize (IH Len).
      assert (Fu' : (length l < f)%nat) by (simpl in Fu; lia). specialize (IH Fu').
      destruct (break_chain f (last l y) (e ++ [ins]) (lset i (Some nv) rs) y) as [[e' rs']|e0|]; [|exact IH|exact IH].
      destruct IH as (mvs & -> & Len' & Dn1 & Dn2 & Sl & Sem).
      assert (NZ : x <> ZERO) by (rewrite <- Dm; now apply (nontriv_dst_nonzero ms free WF)).
      assert (Hxr : ~ In x (removelast (y :: l))) by (intros K; apply Hx; now apply removelast_incl).
      exists (ins :: mvs). rewrite removelast_cons2. split; [now rewrite <- app_assoc|].
      split; [congruence|]. split; [|split; [|split]].
      + intros r [<-|Ir]; [|now apply Dn1].
        rewrite (Dn2 x Hxr). rewrite (doneb_lset ms free WF rs i nv x x Oi Li). now rewrite Z.eqb_refl.
      + intros r Nr. rewrite Dn2 by (intros K; apply Nr; now right).
        rewrite (doneb_lset ms free WF rs i nv x r Oi Li).
        destruct (Z.eqb_spec r x) as [->|]; [exfalso; apply Nr; now left|reflexivity].
      + intros j Hj. rewrite Sl by (intros r Ir; apply Hj; now right).
        apply nth_lset_other. intros <-. apply (Hj x); [now left|assumption].
      + intros rho. change (exec (ins :: mvs) rho) with (exec mvs (step rho ins)). rewrite Hstep.
        destruct (Sem (set rho x (copyf (is_float x) (m_w m) (get rho (vreg (m_value m)))))) as [F1 F2].
        split.
        * intros r Nr. rewrite F1 by (intros K; apply Nr; now right).
          apply get_set_other. intros ->. apply Nr. now left.
        * intros m' Im' Tm' [Dx|Ir].
          -- assert (m' = m) by (apply (dst_inj ms free WF); auto; congruence). subst m'.
             rewrite Dm. rewrite (F1 x Hxr). rewrite get_set_same by assumption. simpl. now rewrite Sm.
          -- rewrite (F2 m' Im' Tm' Ir). f_equal. apply get_set_other.
             destruct (chain_succ par y l (m_dst m') Ch Ir) as (z' & Pz & Iz).
             destruct (par_move _ _ Pz) as (m2 & Im2 & _ & Dm2 & Sm2 & _).
             assert (m2 = m') by (now apply (dst_inj ms free WF)). subst m2. rewrite Sm2.
             intros ->. apply Hx. now right.
  Qed.

  (* ---- xor_chain_new ---- *)
  Lemma xor_chain_eq fuel stop e rs inp out :
    xor_chain_new fuel stop e rs inp out =
    match fuel with
    | O => OutOfFuel
    | S f =>
        if vreg inp =? stop then Ok (e, rs, out) else
        let '(e3, nw_out, nw_inp) := insert_swap e inp out in
        do i <- key (oidx (vreg nw_out));
        let rs1 := lset i (Some nw_out) rs in
        do inp1 <- key (P (vreg inp));
        xor_chain_new f stop e3 rs1 inp1 nw_inp
    end.
  Proof. destruct fuel; reflexivity. Qed.

  Lemma xor_chain_spec : forall l x fuel stop e rs inp out,
    chain par x l -> NoDup (x :: l) -> par (last l x) = Some stop -> ~ In stop l ->
    (forall z, In z (x :: l) -> P z <> None) ->
    vreg out = x -> P x = Some inp ->
    length rs = length ms -> (length l < fuel)%nat ->
    exists mvs rs' out',
      xor_chain_new fuel stop e rs inp out = Ok (e ++ mvs, rs', out')
      /\ vreg out' = last l x /\ length rs' = length rs
      /\ (forall r, In r (removelast (x :: l)) -> doneb rs' r = true)
      /\ (forall r, ~ In r (removelast (x :: l)) -> doneb rs' r = doneb rs r)
      /\ (forall i, (forall r, In r (removelast (x :: l)) -> oidx r <> Some i) ->
                    nth_error rs' i = nth_error rs i)
      /\ forall rho,
           (forall r, ~ In r (x :: l) -> get (exec mvs rho) r = get rho r)
           /\ (forall m, In m ms -> trivb m = false -> In (m_dst m) (removelast (x :: l)) ->
                 get (exec mvs rho) (m_dst m) = get rho (m_src m))
           /\ get (exec mvs rho) (last l x) = get rho x.
  Proof.
    induction l as [|y l IH]; intros x fuel stop e rs inp out Ch NDp Pl Ns Hp Vo Pi Len Fu.
    - destruct fuel as [|f]; [simpl in Fu; lia|]. rewrite xor_chain_eq. simpl in Pl.
      assert (E : vreg inp = stop). { unfold par in Pl. rewrite Pi in Pl. simpl in Pl. congruence. }
      rewrite E, Z.eqb_refl. exists [], rs, out. rewrite app_nil_r. repeat split; auto. intros m _ _ [].
    - destruct fuel as [|f]; [simpl in Fu; lia|]. rewrite xor_chain_eq.
      destruct Ch as [Px Ch]. rewrite last_cons_default in *.
      assert (Vi : vreg inp = y). { unfold par in Px. rewrite Pi in Px. simpl in Px. congruence. }
      assert (Ny : y <> stop) by (intros ->; apply Ns; now left).
      rewrite Vi. destruct (Z.eqb_spec y stop) as [|_]; [contradiction|].
      inversion NDp as [|? ? Hx NDy]; subst x0 l0.
      destruct (par_move x y Px) as (mx & Imx & Tmx & Dmx & Smx & Pmx).
      assert (Py : P y <> None) by (apply Hp; right; now left).
      destruct (P y) as [inp1|] eqn:Ey; [|congruence].
      destruct (P_inv ms free WF _ _ Ey) as (my & Imy & Tmy & Dmy & ->).
      assert (NZx : x <> ZERO) by (rewrite <- Dmx; now apply (nontriv_dst_nonzero ms free WF)).
      assert (NZy : y <> ZERO) by (rewrite <- Dmy; now apply (nontriv_dst_nonzero ms free WF)).
      assert (Nxy : y <> x) by (intros ->; apply Hx; now left).
      destruct (swap_sem e inp out) as (xs & v2 & v3 & Hsw & V2 & V3 & Ssw); try (rewrite ?Vi, ?Vo; assumption).
      rewrite Hsw. rewrite V2, Vo.
      destruct (In_nth_error _ _ Imx) as [i Hi].
      assert (Oi : oidx x = Some i) by (rewrite <- Dmx; apply (output_index_of ms i mx ND Hi)).
      rewrite Oi. cbn [key bind].
      assert (Li : (i < length rs)%nat) by (rewrite Len; now apply nth_error_lt in Hi).
      assert (V3' : vreg v3 = y) by congruence.
      assert (Ns' : ~ In stop l) by (intros K; apply Ns; now right).
      assert (Hp' : forall z, In z (y :: l) -> P z <> None) by (intros z Iz; apply Hp; now right).
      assert (Fu' : (length l < f)%nat) by (simpl in Fu; lia).
      destruct (IH y f stop (e ++ xs) (lset i (Some v2) rs) (m_value my) v3 Ch NDy Pl Ns' Hp' V3' Ey)
        as (mvs & rs' & out' & Hrec & Vo' & Len' & Dn1 & Dn2 & Sl & Sem); [now rewrite lset_length|assumption|].
      rewrite Hrec. exists (xs ++ mvs), rs', out'. rewrite removelast_cons2, <- app_assoc.
      assert (Hxr : ~ In x (removelast (y :: l))) by (intros K; apply Hx; now apply removelast_incl).
      split; [reflexivity|]. split; [assumption|]. split; [now rewrite Len', lset_length|].
      split; [|split; [|split]].
      + intros r [<-|Ir]; [|now apply Dn1].
        rewrite (Dn2 x Hxr). rewrite (doneb_lset ms free WF rs i v2 x x Oi Li). now rewrite Z.eqb_refl.
      + intros r Nr. rewrite Dn2 by (intros K; apply Nr; now right).
        rewrite (doneb_lset ms free WF rs i v2 x r Oi Li).
        destruct (Z.eqb_spec r x) as [->|]; [exfalso; apply Nr; now left|reflexivity].
      + intros j Hj. rewrite Sl by (intros r Ir; apply Hj; now right).
        apply nth_lset_other. intros <-. apply (Hj x); [now left|assumption].
      + intros rho. rewrite exec_app. destruct (Ssw rho) as (Sa & Sb & So).
        rewrite Vi in Sa, So. rewrite Vo in Sa, Sb, So. rewrite Vi in Sb.
        destruct (Sem (exec xs rho)) as (F1 & F2 & F3). split; [|split].
        * intros r Nr. rewrite F1 by (intros K; apply Nr; now right).
          apply So; intros ->; apply Nr; [right|]; now left.
        * intros m' Im' Tm' [Dx|Ir].
          -- assert (m' = mx) by (apply (dst_inj ms free WF); auto; congruence). subst m'.
             rewrite Dmx, Smx. rewrite (F1 x Hx). exact Sb.
          -- rewrite (F2 m' Im' Tm' Ir).
             destruct (chain_succ par y l (m_dst m') Ch Ir) as (z' & Pz & Iz).
             destruct (par_move _ _ Pz) as (m2 & Im2 & _ & Dm2 & Sm2 & _).
             assert (m2 = m') by (now apply (dst_inj ms free WF)). subst m2. rewrite Sm2.
             apply So.
             ++ intros ->. inversion NDy; contradiction.
             ++ intros ->. apply Hx. now right.
        * rewrite F3. exact Sa.
  Qed.

  (* ---- one resolved cycle: the invariant is preserved ---- *)
  Lemma cycle_step_inv s s' C extra :
    Inv3 s ->
    (forall z, In z C -> P z <> None /\ doneb (results s) z = false) ->
    (forall z, In z C -> exists z', par z = Some z' /\ In z' C) ->
    em s' = em s ++ extra -> length (results s') = length ms ->
    (forall i m, nth_error ms i = Some m -> trivb m = true -> nth_error (results s') i = nth_error (results s) i) ->
    (forall r, In r C -> doneb (results s') r = true) ->
    (forall r, ~ In r C -> doneb (results s') r = doneb (results s) r) ->
    (forall rho,
       (forall r, ~ In r C -> ~ In r free -> get (exec extra rho) r = get rho r)
       /\ (forall m, In m ms -> trivb m = false -> In (m_dst m) C ->
             view m (get (exec extra rho) (m_dst m)) = view m (get rho (m_src m)))) ->
    Inv3 s'.
  Proof.
    intros K HC Hcl Hem Hlen Htriv Hd1 Hd2 Hsem.
    assert (Cfree : forall z, In z C -> ~ In z free).
    { intros z Iz If. destruct (HC z Iz) as [Pz _]. destruct (P z) as [v|] eqn:E; [|congruence].
      destruct (P_inv ms free WF _ _ E) as (m & Im & _ & Dm & _).
      destruct (wa_free _ _ WF z m If Im) as [_ N]. congruence. }
    constructor.
    - assumption.
    - intros i m Hi Tm. rewrite (Htriv i m Hi Tm). now apply (K_triv s K).
    - intros rho. rewrite Hem, exec_app. destruct (K_sem s K rho) as [S1 S2].
      destruct (Hsem (exec (em s) rho)) as [F1 F2]. split.
      + intros m Im Tm Dm. destruct (in_dec Z.eq_dec (m_dst m) C) as [Ic|Ic].
        * rewrite (F2 m Im Tm Ic). f_equal.
          destruct (Hcl _ Ic) as (z' & Pz & Iz').
          destruct (par_move _ _ Pz) as (m2 & Im2 & _ & Dm2 & Sm2 & _).
          assert (m2 = m) by (now apply (dst_inj ms free WF)). subst m2. rewrite Sm2.
          destruct (HC z' Iz') as [_ Dz]. apply S2; [now right|now apply Cfree].
        * rewrite Hd2 in Dm by assumption.
          rewrite F1; [now apply S1|assumption|].
          intros If. destruct (wa_free _ _ WF _ m If Im) as [_ N]. congruence.
      + intros r Hr Nf.
        assert (Nc : ~ In r C).
        { intros Ic. destruct (HC r Ic) as [Pr _]. rewrite (Hd1 r Ic) in Hr. destruct Hr; congruence. }
        rewrite F1 by assumption. apply S2; [|assumption]. now rewrite <- (Hd2 r Nc).
    - intros d Pd Dd.
      assert (Nc : ~ In d C) by (intros Ic; rewrite (Hd1 d Ic) in Dd; discriminate).
      rewrite (Hd2 d Nc) in Dd. destruct (K_child s K d Pd Dd) as (y & Iy & Ty & Sy & Dy).
      exists y. repeat split; auto.
      destruct (in_dec Z.eq_dec (m_dst y) C) as [Ic|Ic]; [|now rewrite Hd2].
      exfalso. destruct (Hcl _ Ic) as (z' & Pz & Iz').
      destruct (par_move _ _ Pz) as (m2 & Im2 & _ & Dm2 & Sm2 & _).
      assert (m2 = y) by (now apply (dst_inj ms free WF)). subst m2. apply Nc. rewrite <- Sy, Sm2. exact Iz'.
  Qed.

  Lemma cycle_len y1 l : NoDup (y1 :: l) -> (forall z, In z (y1 :: l) -> P z <> None) ->
    (length l < loop_fuel ms)%nat.
  Proof.
    intros NDc Hp. assert (length (y1 :: l) <= length (map m_dst ms))%nat.
    { apply NoDup_incl_length; [assumption|]. intros z Iz. specialize (Hp z Iz).
      destruct (P z) as [v|] eqn:E; [|congruence].
      destruct (P_inv ms free WF _ _ E) as (m & Im & _ & <- & _). now apply in_map. }
    rewrite map_length in H. simpl in H. unfold loop_fuel. lia.
  Qed.

  Lemma chain_cycle d y1 l : chain par d (y1 :: l) -> last l y1 = d -> on_cycle ms d.
  Proof.
    intros [Pd Ch] La.
    assert (E : forall a b, par a = Some b -> edge ms b a).
    { intros a b H. destruct (par_move a b H) as (m & Im & Tm & Dm & Sm & _).
      exists m. repeat split; auto. now apply trivb_false. }
    assert (RT : forall l x, chain par x l -> clos_refl_trans reg (edge ms) (last l x) x).
    { clear -E. induction l as [|y l IH]; intros x C; [apply rt_refl|].
      destruct C as [Px C]. rewrite last_cons_default.
      eapply rt_trans; [apply IH; exact C|]. apply rt_step. now apply E. }
    unfold on_cycle. specialize (RT l y1 Ch). rewrite La in RT. apply E in Pd.
    assert (G : forall x d0, clos_refl_trans_1n reg (edge ms) x y1 -> edge ms y1 d0 -> clos_trans reg (edge ms) x d0).
    { clear. intros x d0 H. induction H as [|x y z Hxy _ IH]; intros Hd.
      - now apply t_step.
      - eapply t_trans; [apply t_step; exact Hxy|now apply IH]. }
    apply G; [now apply clos_rt_rt1n|assumption].
  Qed.
End Phase3.
