(* C20/Spec.v -- the statement of property C20, independent of the algorithm. *)
From Coq Require Import ZArith List Bool Relations.
From XV Require Import C20.Model.
Import ListNotations.
Local Open Scope Z_scope.

(* What ParallelMovOp.verify_ guarantees, plus the explicit extra hypotheses:
   - wf_kinds : operand and result of a move are registers of the same kind            (verifier)
   - wf_dsts  : destinations are pairwise distinct  (verifier, except that it exempts `zero`)
   - wf_ssa   : two operands are the same SSA value iff they live in the same register
                (the verifier says nothing; `=>` is forced by typing, `<=` is a hypothesis)
   - wf_width : the width is a property of the SSA value                              (hypothesis)
   - wf_free  : a designated free register is not an operand/result register and not `zero`
   - wf_zero  : `zero` is not overwritten (a move into zero can only be zero -> zero)  (hypothesis) *)
Record wf (ms : list move) (free : list reg) : Prop := mkWf {
  wf_kinds : forall m, In m ms -> is_float (m_src m) = is_float (m_dst m);
  wf_dsts : NoDup (map m_dst ms);
  wf_ssa : forall a b, In a ms -> In b ms -> (m_val a = m_val b <-> m_src a = m_src b);
  wf_width : forall a b, In a ms -> In b ms -> m_val a = m_val b -> m_w a = m_w b;
  wf_free : forall f m, In f free -> In m ms -> f <> m_src m /\ f <> m_dst m;
  wf_free_zero : ~ In ZERO free;
  wf_zero : forall m, In m ms -> m_dst m = ZERO -> m_src m = ZERO }.

(* The hypotheses under which the algorithm with ALL repairs (C20-1 .. C20-5) is proved: `wf` without
   wf_ssa and wf_width -- several SSA values may live in one register and every operand has its own width.
   (`zero` as a repeated destination is accepted by the repaired code and swept by the harness, but the
   theorems keep wa_dsts / wa_zero.) *)
Record wf_all (ms : list move) (free : list reg) : Prop := mkWfAll {
  wa_kinds : forall m, In m ms -> is_float (m_src m) = is_float (m_dst m);
  wa_dsts : NoDup (map m_dst ms);
  wa_free : forall f m, In f free -> In m ms -> f <> m_src m /\ f <> m_dst m;
  wa_free_zero : ~ In ZERO free;
  wa_zero : forall m, In m ms -> m_dst m = ZERO -> m_src m = ZERO }.
Lemma wf_wf_all ms free : wf ms free -> wf_all ms free.
Proof. intros [A B _ _ C D E]. constructor; assumption. Qed.

(* what a move of width w transports: a 32-bit float move only promises the low 32 bits
   (fmv.s NaN-boxes), every other move the whole register *)
Definition view (m : move) (x : Z) : Z :=
  if is_float (m_dst m) && (m_w m =? 32) then narrow x else x.

Definition simultaneous (ms : list move) (is : list instr) : Prop :=
  forall rho m, In m ms ->
    view m (get (exec is rho) (m_dst m)) = view m (get rho (m_src m)).
Definition frame (ms : list move) (free : list reg) (is : list instr) : Prop :=
  forall rho r, ~ In r (map m_dst ms) -> ~ In r free -> get (exec is rho) r = get rho r.

(* the move graph: an edge s -> d for every non-trivial move; d is on a cycle when d ->+ d *)
Definition edge (ms : list move) (s d : reg) : Prop :=
  exists m, In m ms /\ m_src m <> m_dst m /\ m_src m = s /\ m_dst m = d.
Definition on_cycle (ms : list move) (d : reg) : Prop := clos_trans reg (edge ms) d d.

(* the situations in which the pass may (and does) give up *)
Definition fail_cause (ms : list move) (free : list reg) : Prop :=
  (exists m, In m ms /\ (is_alloc (m_src m) = false \/ is_alloc (m_dst m) = false))
  \/ (exists m, In m ms /\ m_src m <> m_dst m /\ okw (m_w m) = false)
  \/ (exists d, on_cycle ms d /\ is_float d = true /\ forall f, In f free -> is_float f = false).
