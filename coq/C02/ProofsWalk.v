(* C02/ProofsWalk.v -- consequences of the isomorphism (definitions and walks of the copy), the operand
   remap on walks that are NOT the copy's (empty list, blocks without operations, appended block
   lists), and the derived use lists. *)
From Coq Require Import List ZArith Bool Lia.
From XV Require Import C02.Model C02.ProofsBase.
Import ListNotations.
Local Open Scope Z_scope.

(* ------------------------------------------------------------------ *)
(* definitions of the copy = images of the definitions of the source *)
Lemma iso_defs : forall co fv fb,
  (forall x y, iso_op co fv fb x y -> dv_op y = map fv (dv_op x) /\ db_op y = map fb (db_op x)) /\
  (forall l l', iso_ops co fv fb l l' -> dv_ops l' = map fv (dv_ops l) /\ db_ops l' = map fb (db_ops l)) /\
  (forall k k', iso_block co fv fb k k' ->
     dv_block k' = map fv (dv_block k) /\ dbi_block k' = map fb (dbi_block k) /\ bid_of k' = fb (bid_of k)) /\
  (forall r r', iso_blocks co fv fb r r' ->
     dv_blocks r' = map fv (dv_blocks r) /\ dbi_blocks r' = map fb (dbi_blocks r) /\ bids r' = map fb (bids r)) /\
  (forall g g', iso_regions co fv fb g g' ->
     dv_regions g' = map fv (dv_regions g) /\ db_regions g' = map fb (db_regions g)).
Proof.
  intros co fv fb. apply ir_mutind.
  - intros i n os rs a ss g IHg y H. destruct y as [i' n' os' rs' a' ss' g'].
    cbn [iso_op] in H. destruct H as (_ & _ & _ & Hr1 & _ & _ & Hg).
    destruct (IHg g' Hg) as [I1 I2]. cbn [dv_op db_op]. rewrite map_app, Hr1, I1, I2. auto.
  - intros l' H. destruct l'; cbn [iso_ops] in H; [|tauto]. auto.
  - intros o IHo t IHt l' H. destruct l' as [|o' t']; cbn [iso_ops] in H; [tauto|].
    destruct H as [Ho Ht]. destruct (IHo o' Ho) as [I1 I2]. destruct (IHt t' Ht) as [I3 I4].
    cbn [dv_ops db_ops]. rewrite !map_app, I1, I2, I3, I4. auto.
  - intros b args body IHb k' H. destruct k' as [b' args' body'].
    cbn [iso_block] in H. destruct H as (Hb & Ha1 & _ & Hbody).
    destruct (IHb body' Hbody) as [I1 I2]. cbn [dv_block dbi_block bid_of].
    rewrite map_app, Ha1, I1, I2. auto.
  - intros r' H. destruct r'; cbn [iso_blocks] in H; [|tauto]. auto.
  - intros k IHk t IHt r' H. destruct r' as [|k' t']; cbn [iso_blocks] in H; [tauto|].
    destruct H as [Hk Ht]. destruct (IHk k' Hk) as (I1 & I2 & I3). destruct (IHt t' Ht) as (I4 & I5 & I6).
    cbn [dv_blocks dbi_blocks bids map]. rewrite !map_app, I1, I2, I3, I4, I5, I6. auto.
  - intros g' H. destruct g'; cbn [iso_regions] in H; [|tauto]. auto.
  - intros r IHr t IHt g' H. destruct g' as [|r' t']; cbn [iso_regions] in H; [tauto|].
    destruct H as [Hr Ht]. destruct (IHr r' Hr) as (I1 & I2 & I3). destruct (IHt t' Ht) as (I4 & I5).
    cbn [dv_regions db_regions]. rewrite !map_app, I1, I2, I3, I4, I5. auto.
Qed.

(* operands of the copy = images of the operands of the source, walk-aligned *)
Lemma iso_walk : forall fv fb,
  (forall x y, iso_op true fv fb x y -> walk_op y = map (map fv) (walk_op x)) /\
  (forall l l', iso_ops true fv fb l l' -> walk_ops l' = map (map fv) (walk_ops l)) /\
  (forall k k', iso_block true fv fb k k' -> walk_block k' = map (map fv) (walk_block k)) /\
  (forall r r', iso_blocks true fv fb r r' -> walk_blocks r' = map (map fv) (walk_blocks r)) /\
  (forall g g', iso_regions true fv fb g g' -> walk_regions g' = map (map fv) (walk_regions g)).
Proof.
  intros fv fb. apply ir_mutind.
  - intros i n os rs a ss g IHg y H. destruct y as [i' n' os' rs' a' ss' g'].
    cbn [iso_op] in H. destruct H as (_ & _ & Hos & _ & _ & _ & Hg).
    cbn [walk_op map]. rewrite Hos, (IHg g' Hg). reflexivity.
  - intros l' H. destruct l'; cbn [iso_ops] in H; [|tauto]. reflexivity.
  - intros o IHo t IHt l' H. destruct l' as [|o' t']; cbn [iso_ops] in H; [tauto|].
    destruct H as [Ho Ht]. cbn [walk_ops]. rewrite map_app, (IHo o' Ho), (IHt t' Ht). reflexivity.
  - intros b args body IHb k' H. destruct k' as [b' args' body'].
    cbn [iso_block] in H. destruct H as (_ & _ & _ & Hbody). cbn [walk_block]. auto.
  - intros r' H. destruct r'; cbn [iso_blocks] in H; [|tauto]. reflexivity.
  - intros k IHk t IHt r' H. destruct r' as [|k' t']; cbn [iso_blocks] in H; [tauto|].
    destruct H as [Hk Ht]. cbn [walk_blocks]. rewrite map_app, (IHk k' Hk), (IHt t' Ht). reflexivity.
  - intros g' H. destruct g'; cbn [iso_regions] in H; [|tauto]. reflexivity.
  - intros r IHr t IHt g' H. destruct g' as [|r' t']; cbn [iso_regions] in H; [tauto|].
    destruct H as [Hr Ht]. cbn [walk_regions]. rewrite map_app, (IHr r' Hr), (IHt t' Ht). reflexivity.
Qed.

(* ------------------------------------------------------------------ *)
(* the remap never changes identities *)
Lemma sw_ids :
  (forall y L, ido_op (fst (sw_op L y)) = ido_op y) /\
  (forall l L, ido_ops (fst (sw_ops L l)) = ido_ops l) /\
  (forall k L, ido_block (fst (sw_block L k)) = ido_block k) /\
  (forall r L, ido_blocks (fst (sw_blocks L r)) = ido_blocks r) /\
  (forall g L, ido_regions (fst (sw_regions L g)) = ido_regions g).
Proof.
  apply ir_mutind.
  - intros i n os rs a ss g IHg L. cbn [sw_op]. destruct L as [|os' L']; [reflexivity|].
    specialize (IHg L'). destruct (sw_regions L' g). cbn [fst] in *. cbn [ido_op]. now rewrite IHg.
  - reflexivity.
  - intros o IHo t IHt L. cbn [sw_ops]. specialize (IHo L). destruct (sw_op L o) as [o' L1].
    specialize (IHt L1). destruct (sw_ops L1 t). cbn [fst] in *. cbn [ido_ops]. now rewrite IHo, IHt.
  - intros b args body IHb L. cbn [sw_block]. specialize (IHb L). destruct (sw_ops L body).
    cbn [fst] in *. cbn [ido_block]. auto.
  - reflexivity.
  - intros k IHk t IHt L. cbn [sw_blocks]. specialize (IHk L). destruct (sw_block L k) as [k' L1].
    specialize (IHt L1). destruct (sw_blocks L1 t). cbn [fst] in *. cbn [ido_blocks]. now rewrite IHk, IHt.
  - reflexivity.
  - intros r IHr t IHt L. cbn [sw_regions]. specialize (IHr L). destruct (sw_blocks L r) as [r' L1].
    specialize (IHt L1). destruct (sw_regions L1 t). cbn [fst] in *. cbn [ido_regions]. now rewrite IHr, IHt.
Qed.

(* zip with an exhausted source walk changes nothing *)
Lemma sw_nil :
  (forall y, sw_op [] y = (y, [])) /\
  (forall l, sw_ops [] l = (l, [])) /\
  (forall k, sw_block [] k = (k, [])) /\
  (forall r, sw_blocks [] r = (r, [])) /\
  (forall g, sw_regions [] g = (g, [])).
Proof.
  apply ir_mutind; intros; cbn [sw_op sw_ops sw_block sw_blocks sw_regions]; auto.
  - now rewrite H, H0.
  - now rewrite H.
  - now rewrite H, H0.
  - now rewrite H, H0.
Qed.

(* IR without operations does not advance the zip *)
Lemma sw_noops :
  (forall y L, walk_op y = [] -> sw_op L y = (y, L)) /\
  (forall l L, walk_ops l = [] -> sw_ops L l = (l, L)) /\
  (forall k L, walk_block k = [] -> sw_block L k = (k, L)) /\
  (forall r L, walk_blocks r = [] -> sw_blocks L r = (r, L)) /\
  (forall g L, walk_regions g = [] -> sw_regions L g = (g, L)).
Proof.
  apply ir_mutind.
  - intros i n os rs a ss g _ L H. cbn [walk_op] in H. discriminate.
  - reflexivity.
  - intros o IHo t IHt L H. cbn [walk_ops] in H. apply app_eq_nil in H. destruct H as [H1 H2].
    cbn [sw_ops]. now rewrite IHo, IHt.
  - intros b args body IHb L H. cbn [walk_block] in H. cbn [sw_block]. now rewrite IHb.
  - reflexivity.
  - intros k IHk t IHt L H. cbn [walk_blocks] in H. apply app_eq_nil in H. destruct H as [H1 H2].
    cbn [sw_blocks]. now rewrite IHk, IHt.
  - reflexivity.
  - intros r IHr t IHt L H. cbn [walk_regions] in H. apply app_eq_nil in H. destruct H as [H1 H2].
    cbn [sw_regions]. now rewrite IHr, IHt.
Qed.

Lemma sw_blocks_app : forall a b L,
  sw_blocks L (blocks_app a b) =
  (blocks_app (fst (sw_blocks L a)) (fst (sw_blocks (snd (sw_blocks L a)) b)),
   snd (sw_blocks (snd (sw_blocks L a)) b)).
Proof.
  induction a as [|k a IH]; intros b L.
  - cbn [blocks_app sw_blocks fst snd]. now destruct (sw_blocks L b).
  - cbn [blocks_app sw_blocks]. destruct (sw_block L k) as [k' L1]. rewrite IH.
    destruct (sw_blocks L1 a) as [a' L2]. cbn [fst snd]. cbn [blocks_app]. reflexivity.
Qed.

(* ------------------------------------------------------------------ *)
(* blocks lists *)
Lemma blocks_app_nil_r : forall a, blocks_app a BNil = a.
Proof. induction a; cbn [blocks_app]; congruence. Qed.
Lemma blocks_app_assoc : forall a b c, blocks_app (blocks_app a b) c = blocks_app a (blocks_app b c).
Proof. induction a; intros; cbn [blocks_app]; congruence. Qed.

Fixpoint bfirstn (n : nat) (d : blocks) : blocks :=
  match n, d with S n', BCons k t => BCons k (bfirstn n' t) | _, _ => BNil end.
Fixpoint bskipn (n : nat) (d : blocks) : blocks :=
  match n, d with S n', BCons _ t => bskipn n' t | _, _ => d end.

Lemma bfirstn_skipn : forall n d, blocks_app (bfirstn n d) (bskipn n d) = d.
Proof. induction n; destruct d; cbn [bfirstn bskipn blocks_app]; auto. now rewrite IHn. Qed.

(* Region.insert_block: exactly the indices 0 .. len insert (before the block at that index / at the
   end); every other index is the silent no-op *)
Lemma insert_block_spec : forall d i index nb,
  insert_block i index d nb =
  if (i <=? index) && (index <=? i + blocks_len d)
  then Some (blocks_app (bfirstn (Z.to_nat (index - i)) d) (blocks_app nb (bskipn (Z.to_nat (index - i)) d)))
  else None.
Proof.
  induction d as [|k d IH]; intros i index nb.
  - cbn [insert_block blocks_len]. destruct (i =? index) eqn:E.
    + apply Z.eqb_eq in E. subst. replace (index <=? index) with true by (symmetry; apply Z.leb_le; lia).
      replace (index <=? index + 0) with true by (symmetry; apply Z.leb_le; lia).
      cbn [andb]. rewrite Z.sub_diag. cbn [Z.to_nat bfirstn bskipn blocks_app].
      now rewrite blocks_app_nil_r.
    + apply Z.eqb_neq in E. destruct (i <=? index) eqn:E1, (index <=? i + 0) eqn:E2; cbn [andb]; auto.
      apply Z.leb_le in E1, E2. lia.
  - cbn [insert_block blocks_len]. destruct (i =? index) eqn:E.
    + apply Z.eqb_eq in E. subst.
      replace (index <=? index) with true by (symmetry; apply Z.leb_le; lia).
      replace (index <=? index + (1 + blocks_len d)) with true
        by (symmetry; apply Z.leb_le; pose proof (blocks_len_bids d); lia).
      cbn [andb]. rewrite Z.sub_diag. cbn [Z.to_nat bfirstn bskipn blocks_app]. reflexivity.
    + apply Z.eqb_neq in E. rewrite IH.
      destruct (i <=? index) eqn:E1, (index <=? i + (1 + blocks_len d)) eqn:E2; cbn [andb].
      * apply Z.leb_le in E1, E2.
        replace (i + 1 <=? index) with true by (symmetry; apply Z.leb_le; lia).
        replace (index <=? i + 1 + blocks_len d) with true by (symmetry; apply Z.leb_le; lia).
        cbn [andb]. replace (Z.to_nat (index - i)) with (S (Z.to_nat (index - (i + 1)))) by lia.
        cbn [bfirstn bskipn blocks_app]. reflexivity.
      * apply Z.leb_le in E1. apply Z.leb_gt in E2.
        replace (index <=? i + 1 + blocks_len d) with false by (symmetry; apply Z.leb_gt; lia).
        now rewrite andb_false_r.
      * apply Z.leb_gt in E1.
        replace (i + 1 <=? index) with false by (symmetry; apply Z.leb_gt; lia). reflexivity.
      * apply Z.leb_gt in E1.
        replace (i + 1 <=? index) with false by (symmetry; apply Z.leb_gt; lia). reflexivity.
Qed.

(* ------------------------------------------------------------------ *)
(* derived use lists *)
Lemma uses_blocks_app : forall sel v a b,
  uses_blocks sel v (blocks_app a b) = uses_blocks sel v a ++ uses_blocks sel v b.
Proof. induction a; intros; cbn [blocks_app uses_blocks]; auto. now rewrite IHa, app_assoc. Qed.

Lemma uses_app : forall sel v l1 l2, uses sel v (l1 ++ l2) = uses sel v l1 ++ uses sel v l2.
Proof. intros. unfold uses. apply flat_map_app. Qed.

Lemma slots_notin : forall v o l i, ~ In v l -> slots v o i l = [].
Proof.
  induction l; intros i H; cbn [slots]; auto.
  destruct (a =? v) eqn:E; [apply Z.eqb_eq in E; simpl in H; tauto|]. apply IHl. simpl in H. tauto.
Qed.

(* a value that occurs in no operand tuple of a tree has no use in it *)
Lemma uses_notin :
  (forall x v, ~ In v (concat (walk_op x)) -> uses_op true v x = []) /\
  (forall l v, ~ In v (concat (walk_ops l)) -> uses_ops true v l = []) /\
  (forall k v, ~ In v (concat (walk_block k)) -> uses_block true v k = []) /\
  (forall r v, ~ In v (concat (walk_blocks r)) -> uses_blocks true v r = []) /\
  (forall g v, ~ In v (concat (walk_regions g)) -> uses_regions true v g = []).
Proof.
  apply ir_mutind.
  - intros i n os rs a ss g IHg v H. cbn [walk_op concat] in H. rewrite in_app_iff in H.
    cbn [uses_op]. rewrite slots_notin, IHg by tauto. reflexivity.
  - reflexivity.
  - intros o IHo t IHt v H. cbn [walk_ops] in H. rewrite concat_app, in_app_iff in H.
    cbn [uses_ops]. rewrite IHo, IHt by tauto. reflexivity.
  - intros b args body IHb v H. cbn [walk_block] in H. cbn [uses_block]. auto.
  - reflexivity.
  - intros k IHk t IHt v H. cbn [walk_blocks] in H. rewrite concat_app, in_app_iff in H.
    cbn [uses_blocks]. rewrite IHk, IHt by tauto. reflexivity.
  - reflexivity.
  - intros r IHr t IHt v H. cbn [walk_regions] in H. rewrite concat_app, in_app_iff in H.
    cbn [uses_regions]. rewrite IHr, IHt by tauto. reflexivity.
Qed.

(* operand positions: the copy holds v' = f v exactly where the source holds v, when f hits v' only from v *)
Lemma slots_map : forall (f : Z -> Z) v v' o o' l i,
  (forall u, In u l -> (f u = v' <-> u = v)) ->
  map snd (slots v' o' i (map f l)) = map snd (slots v o i l).
Proof.
  induction l; intros i H; cbn [map slots]; auto.
  assert (Ha : f a = v' <-> a = v) by (apply H; simpl; auto).
  assert (IH : map snd (slots v' o' (i + 1) (map f l)) = map snd (slots v o (i + 1) l))
    by (apply IHl; intros u Hu; apply H; simpl; auto).
  destruct (f a =? v') eqn:E1, (a =? v) eqn:E2; cbn [map snd]; try congruence.
  - apply Z.eqb_eq in E1. apply Z.eqb_neq in E2. tauto.
  - apply Z.eqb_neq in E1. apply Z.eqb_eq in E2. tauto.
Qed.

Lemma uses_iso_positions : forall (fv fb : Z -> Z) v v',
  (forall x y, iso_op true fv fb x y -> (forall u, In u (concat (walk_op x)) -> (fv u = v' <-> u = v)) ->
     map snd (uses_op true v' y) = map snd (uses_op true v x)) /\
  (forall l l', iso_ops true fv fb l l' -> (forall u, In u (concat (walk_ops l)) -> (fv u = v' <-> u = v)) ->
     map snd (uses_ops true v' l') = map snd (uses_ops true v l)) /\
  (forall k k', iso_block true fv fb k k' -> (forall u, In u (concat (walk_block k)) -> (fv u = v' <-> u = v)) ->
     map snd (uses_block true v' k') = map snd (uses_block true v k)) /\
  (forall r r', iso_blocks true fv fb r r' -> (forall u, In u (concat (walk_blocks r)) -> (fv u = v' <-> u = v)) ->
     map snd (uses_blocks true v' r') = map snd (uses_blocks true v r)) /\
  (forall g g', iso_regions true fv fb g g' -> (forall u, In u (concat (walk_regions g)) -> (fv u = v' <-> u = v)) ->
     map snd (uses_regions true v' g') = map snd (uses_regions true v g)).
Proof.
  intros fv fb v v'. apply ir_mutind.
  - intros i n os rs a ss g IHg y H Hu. destruct y as [i' n' os' rs' a' ss' g'].
    cbn [iso_op] in H. destruct H as (_ & _ & Hos & _ & _ & _ & Hg). subst os'.
    cbn [walk_op concat] in Hu. cbn [uses_op]. rewrite !map_app. f_equal.
    + apply slots_map. intros u Hin. apply Hu, in_or_app. auto.
    + apply IHg; auto. intros u Hin. apply Hu, in_or_app. auto.
  - intros l' H _. destruct l'; cbn [iso_ops] in H; [|tauto]. reflexivity.
  - intros o IHo t IHt l' H Hu. destruct l' as [|o' t']; cbn [iso_ops] in H; [tauto|].
    destruct H as [Ho Ht]. cbn [walk_ops] in Hu. rewrite concat_app in Hu.
    cbn [uses_ops]. rewrite !map_app. f_equal.
    + apply IHo; auto. intros u Hin. apply Hu, in_or_app. auto.
    + apply IHt; auto. intros u Hin. apply Hu, in_or_app. auto.
  - intros b args body IHb k' H Hu. destruct k' as [b' args' body'].
    cbn [iso_block] in H. destruct H as (_ & _ & _ & Hbody). cbn [uses_block]. apply IHb; auto.
  - intros r' H _. destruct r'; cbn [iso_blocks] in H; [|tauto]. reflexivity.
  - intros k IHk t IHt r' H Hu. destruct r' as [|k' t']; cbn [iso_blocks] in H; [tauto|].
    destruct H as [Hk Ht]. cbn [walk_blocks] in Hu. rewrite concat_app in Hu.
    cbn [uses_blocks]. rewrite !map_app. f_equal.
    + apply IHk; auto. intros u Hin. apply Hu, in_or_app. auto.
    + apply IHt; auto. intros u Hin. apply Hu, in_or_app. auto.
  - intros g' H _. destruct g'; cbn [iso_regions] in H; [|tauto]. reflexivity.
  - intros r IHr t IHt g' H Hu. destruct g' as [|r' t']; cbn [iso_regions] in H; [tauto|].
    destruct H as [Hr Ht]. cbn [walk_regions] in Hu. rewrite concat_app in Hu.
    cbn [uses_regions]. rewrite !map_app. f_equal.
    + apply IHr; auto. intros u Hin. apply Hu, in_or_app. auto.
    + apply IHt; auto. intros u Hin. apply Hu, in_or_app. auto.
Qed.
