(* C02/ProofsCor.v -- corollaries in the form quoted by Props/C02.v. *)
From Coq Require Import List ZArith Bool Lia Permutation.
From XV Require Import C02.Model C02.ProofsBase C02.ProofsShape C02.ProofsIso C02.ProofsWalk C02.Proofs C02.ProofsFrame.
Import ListNotations.
Local Open Scope Z_scope.

(* all objects of the copy are new: created by this call, pairwise distinct, and not objects of any
   item of the world the clone was made in *)
Theorem clone_op_fresh : forall w x vm0 bm0 co,
  wf w -> NoDup (dv_op x) -> NoDup (db_op x) -> scoped_op (db_op x) [] x ->
  exists y, r_new (clone_op w x vm0 bm0 co) = Some y /\
    fresh_ids w (r_world (clone_op w x vm0 bm0 co)) (ido_op y) (dv_op y) (db_op y) /\
    forall it, In it (items w) ->
      (forall i, In i (ido_op y) -> ~ In i (ido_item it)) /\
      (forall b, In b (db_op y) -> ~ In b (ab_item it)) /\
      (forall v, In v (dv_op y) -> ~ In v (dv_item it)).
Proof.
  intros w x vm0 bm0 co Hw Hv Hb Hs.
  destruct (clone_op_correct w x vm0 bm0 co Hv Hb Hs) as (y & Hy). cbv zeta in Hy.
  destruct Hy as (Hn & _ & _ & _ & F). exists y. split; [exact Hn|]. split; [exact F|].
  intros it Hit. eapply fresh_not_in_world; eauto.
Qed.

(* the repaired remap: the full statement for every destination and every index 0 .. len (or None) *)
Theorem clone_into_fixed : forall w src j d idx vm0 bm0 co,
  nth_error (items w) j = Some (IReg d) ->
  NoDup (dv_blocks src) -> NoDup (db_region src) -> scoped_region src ->
  0 <= resolve_index idx d <= blocks_len d ->
  exists r, clone_into cfg_fixed w src j idx vm0 bm0 co = Some r /\
            into_ok w src j d (resolve_index idx d) vm0 bm0 co r.
Proof. intros. apply clone_into_general; auto. Qed.

(* the code as it is: correct when no operation precedes the insertion point in the destination's
   walk, or when operands are not cloned *)
Theorem clone_into_partial : forall w src j d idx vm0 bm0 co,
  nth_error (items w) j = Some (IReg d) ->
  NoDup (dv_blocks src) -> NoDup (db_region src) -> scoped_region src ->
  0 <= resolve_index idx d <= blocks_len d ->
  (co = false \/ walk_blocks (bfirstn (Z.to_nat (resolve_index idx d)) d) = []) ->
  exists r, clone_into cfg_original w src j idx vm0 bm0 co = Some r /\
            into_ok w src j d (resolve_index idx d) vm0 bm0 co r.
Proof. intros. apply clone_into_general; auto. Qed.

Theorem clone_into_index0 : forall w src j d vm0 bm0 co,
  nth_error (items w) j = Some (IReg d) ->
  NoDup (dv_blocks src) -> NoDup (db_region src) -> scoped_region src ->
  exists r, clone_into cfg_original w src j (Some 0) vm0 bm0 co = Some r /\
            into_ok w src j d 0 vm0 bm0 co r.
Proof.
  intros w src j d vm0 bm0 co Hj Hv Hb Hs.
  apply (clone_into_partial w src j d (Some 0) vm0 bm0 co); try assumption.
  - cbn [resolve_index]. pose proof (blocks_len_bids d). lia.
  - right. reflexivity.
Qed.

Theorem clone_into_empty_dest : forall w src j idx vm0 bm0 co,
  nth_error (items w) j = Some (IReg BNil) -> (idx = None \/ idx = Some 0) ->
  NoDup (dv_blocks src) -> NoDup (db_region src) -> scoped_region src ->
  exists r, clone_into cfg_original w src j idx vm0 bm0 co = Some r /\
            into_ok w src j BNil 0 vm0 bm0 co r.
Proof.
  intros w src j idx vm0 bm0 co Hj Hidx Hv Hb Hs.
  assert (E : resolve_index idx BNil = 0) by (destruct Hidx; subst; reflexivity).
  rewrite <- E. apply (clone_into_partial w src j BNil idx vm0 bm0 co); try assumption.
  - rewrite E. cbn [blocks_len]. lia.
  - right. rewrite E. reflexivity.
Qed.

(* the call as seen by the caller (clone_into_api): with the optional index check an out-of-range
   insert_index raises before anything is created; in range the check changes nothing *)
Theorem clone_into_api_rejects : forall c w src j d i vm0 bm0 co,
  reject_bad_index c = true -> nth_error (items w) j = Some (IReg d) -> (i < 0 \/ blocks_len d < i) ->
  clone_into_api c w src j (Some i) vm0 bm0 co = RaiseIndexError.
Proof.
  intros c w src j d i vm0 bm0 co Hc Hj Hi. unfold clone_into_api. rewrite Hj, Hc. cbn [andb].
  replace ((i <? 0) || (blocks_len d <? i)) with true; [reflexivity|].
  symmetry. apply orb_true_iff. destruct Hi; [left | right]; apply Z.ltb_lt; lia.
Qed.

Theorem clone_into_api_in_range : forall c w src j d idx vm0 bm0 co,
  nth_error (items w) j = Some (IReg d) -> 0 <= resolve_index idx d <= blocks_len d ->
  clone_into_api c w src j idx vm0 bm0 co =
  match clone_into c w src j idx vm0 bm0 co with Some r => Done r | None => NotARegion end.
Proof.
  intros c w src j d idx vm0 bm0 co Hj Hr. unfold clone_into_api. rewrite Hj.
  destruct idx as [i|]; cbn [resolve_index] in Hr.
  - replace ((i <? 0) || (blocks_len d <? i)) with false; [now rewrite andb_false_r|].
    symmetry. apply orb_false_iff. split; apply Z.ltb_ge; lia.
  - now rewrite andb_false_r.
Qed.
