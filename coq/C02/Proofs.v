(* C02/Proofs.v -- the world-level statements about the clone entry points (specification: iso_via,
   fresh_ids, into_ok below + iso_op / scoped_op of ProofsBase.v), for the code as it is
   (cfg_original) and for the repaired remap (cfg_fixed). *)
From Coq Require Import List ZArith Bool Lia Permutation.
From XV Require Import C02.Model C02.ProofsBase C02.ProofsShape C02.ProofsIso C02.ProofsWalk.
Import ListNotations.
Local Open Scope Z_scope.

(* ------------------------------------------------------------------ *)
(* Spec *)

(* f sends the ids of l injectively to objects created between the two counters *)
Definition maps_fresh (f : Z -> Z) (l : list Z) (lo hi : Z) : Prop :=
  NoDup (map f l) /\ forall x, In x l -> lo <= f x < hi.

(* the returned mappers: values / blocks defined inside the source (lv / lb) go injectively to objects
   created by this call; everything else is as in the caller's mappers (identity when not mentioned) *)
Definition iso_via (w w' : world) (vm0 bm0 vm' bm' : amap) (lv lb : list Z) : Prop :=
  maps_fresh (get vm') lv (w_nval w) (w_nval w') /\ maps_fresh (get bm') lb (w_nblk w) (w_nblk w') /\
  (forall v, ~ In v lv -> get vm' v = get vm0 v) /\ (forall b, ~ In b lb -> get bm' b = get bm0 b).

(* the objects of the copy (operations, values, blocks) were all created by this call, each once *)
Definition fresh_ids (w w' : world) (io lv lb : list Z) : Prop :=
  (forall i, In i io -> w_nop w <= i < w_nop w') /\
  (forall v, In v lv -> w_nval w <= v < w_nval w') /\
  (forall b, In b lb -> w_nblk w <= b < w_nblk w') /\
  NoDup io /\ NoDup lv /\ NoDup lb.

(* one region: its successors are scoped *)
Definition scoped_region (r : blocks) : Prop := scoped_blocks (db_region r) (bids r) r.

Lemma maps_fresh_zseq : forall f l lo hi,
  map f l = zseq lo (length l) -> hi = lo + Z.of_nat (length l) -> maps_fresh f l lo hi.
Proof.
  intros f l lo hi H ->. split.
  - rewrite H. apply zseq_NoDup.
  - intros x Hx. apply zseq_In. rewrite <- H. now apply in_map.
Qed.

Lemma fresh_zseq : forall (l : list Z) lo n hi,
  l = zseq lo n -> hi = lo + Z.of_nat n -> (forall i, In i l -> lo <= i < hi) /\ NoDup l.
Proof. intros l lo n hi -> ->. split; [intros i; apply zseq_In | apply zseq_NoDup]. Qed.

(* ------------------------------------------------------------------ *)
(* phase 1 started from outside (no enclosing region) *)
Lemma hyp_init : forall s s' lv lb,
  facts_v s s' lv -> facts_b s s' lb -> NoDup lv -> NoDup lb ->
  hyp lb [] (get (vm s')) (get (bm s')) s lv lb.
Proof.
  intros s s' lv lb [_ Hm] [_ Hn] Hv Hb. constructor; auto.
  - rewrite Hm. now apply get_regs_map.
  - rewrite Hn. now apply get_regs_map.
  - intros b [[]|Hb']. rewrite Hn. now rewrite get_regs_notin.
  - apply incl_refl.
Qed.

Lemma phase1_op : forall x s s' y,
  sh_op s x = (s', y) -> NoDup (dv_op x) -> NoDup (db_op x) -> scoped_op (db_op x) [] x ->
  iso_op false (get (vm s')) (get (bm s')) x y /\ facts s s' (dv_op x) (db_op x) (ido_op x) (ido_op y).
Proof.
  intros x s s' y H Hv Hb Hs. pose proof (proj1 sh_facts _ _ _ _ H) as F. split; auto.
  destruct F as (Fv & Fb & _). eapply (proj1 sh_iso); eauto using hyp_init.
Qed.

Lemma phase1_regions : forall g s s' g',
  sh_regions s g = (s', g') -> NoDup (dv_regions g) -> NoDup (db_regions g) -> scoped_regions (db_regions g) [] g ->
  iso_regions false (get (vm s')) (get (bm s')) g g' /\
  facts s s' (dv_regions g) (db_regions g) (ido_regions g) (ido_regions g').
Proof.
  intros g s s' g' H Hv Hb Hs. pose proof (proj2 (proj2 (proj2 (proj2 sh_facts))) _ _ _ _ H) as F. split; auto.
  destruct F as (Fv & Fb & _). eapply (proj2 (proj2 (proj2 (proj2 sh_iso)))); eauto using hyp_init.
Qed.

Lemma sh_region_as_regions : forall s r,
  sh_regions s (GCons r GNil) = (fst (sh_region s r), GCons (snd (sh_region s r)) GNil).
Proof.
  intros. cbn [sh_regions]. unfold sh_region.
  destruct (alloc_blks (nblk s) (bm s) r) as [[nb m] ids].
  destruct (sh_blocks _ r ids) as [s1 r']. reflexivity.
Qed.

Lemma phase1_region : forall r s s' r',
  sh_region s r = (s', r') -> NoDup (dv_blocks r) -> NoDup (db_region r) -> scoped_region r ->
  iso_blocks false (get (vm s')) (get (bm s')) r r' /\
  facts s s' (dv_blocks r) (db_region r) (ido_blocks r) (ido_blocks r').
Proof.
  intros r s s' r' H Hv Hb Hs.
  pose proof (sh_region_as_regions s r) as E. rewrite H in E. cbn [fst snd] in E.
  apply phase1_regions in E.
  - cbn [iso_regions dv_regions db_regions ido_regions] in E. rewrite !app_nil_r in E.
    destruct E as [[E1 _] E2]. split; auto.
  - cbn [dv_regions]. now rewrite app_nil_r.
  - cbn [db_regions]. now rewrite app_nil_r.
  - cbn [scoped_regions db_regions]. rewrite !app_nil_r. split; auto.
Qed.

Lemma fresh_of_facts : forall (w : world) s' vm0 bm0 lv lb io io' (fv fb : Z -> Z) dvy dby,
  facts (st_of w vm0 bm0) s' lv lb io io' -> NoDup lv -> NoDup lb ->
  dvy = map (get (vm s')) lv -> dby = map (get (bm s')) lb ->
  forall its, iso_via w (world_of its s') vm0 bm0 (vm s') (bm s') lv lb /\
              fresh_ids w (world_of its s') io' dvy dby.
Proof.
  intros w s' vm0 bm0 lv lb io io' fv fb dvy dby ([Fv Fm] & [Fb Fn] & [Fo Fi]) Hv Hb -> -> its.
  cbn [st_of nop nval nblk vm bm] in *.
  assert (Mv : map (get (vm s')) lv = zseq (w_nval w) (length lv)) by (rewrite Fm; now apply get_regs_map).
  assert (Mb : map (get (bm s')) lb = zseq (w_nblk w) (length lb)) by (rewrite Fn; now apply get_regs_map).
  unfold iso_via, fresh_ids, world_of. cbn [w_nop w_nval w_nblk].
  destruct (fresh_zseq _ _ _ (nop s') Fi Fo) as [Ro No].
  destruct (fresh_zseq _ _ _ (nval s') Mv Fv) as [Rv Nv].
  destruct (fresh_zseq _ _ _ (nblk s') Mb Fb) as [Rb Nb].
  split; [split; [|split; [|split]] | split; [|split; [|split; [|split; [|split]]]]]; auto.
  - now apply maps_fresh_zseq.
  - now apply maps_fresh_zseq.
  - intros v Hn. rewrite Fm. now apply get_regs_notin.
  - intros b Hn. rewrite Fn. now apply get_regs_notin.
Qed.

(* ------------------------------------------------------------------ *)
(* Operation.clone *)
Theorem clone_op_correct : forall w x vm0 bm0 co,
  NoDup (dv_op x) -> NoDup (db_op x) -> scoped_op (db_op x) [] x ->
  exists y, let r := clone_op w x vm0 bm0 co in
    r_new r = Some y /\ items (r_world r) = items w ++ [IOp y] /\
    iso_op co (get (r_vm r)) (get (r_bm r)) x y /\
    iso_via w (r_world r) vm0 bm0 (r_vm r) (r_bm r) (dv_op x) (db_op x) /\
    fresh_ids w (r_world r) (ido_op y) (dv_op y) (db_op y).
Proof.
  intros w x vm0 bm0 co Hv Hb Hs. unfold clone_op.
  destruct (sh_op (st_of w vm0 bm0) x) as [s1 y] eqn:E.
  destruct (phase1_op _ _ _ _ E Hv Hb Hs) as [I F].
  set (fv := get (vm s1)) in *. set (fb := get (bm s1)) in *.
  set (y' := if co then fst (sw_op (mapped_walk (vm s1) (walk_op x)) y) else y).
  assert (I' : iso_op co fv fb x y').
  { subst y'. destruct co; auto. unfold mapped_walk.
    rewrite <- (app_nil_r (map (map (get (vm s1))) (walk_op x))).
    apply (proj1 sw_aligned x y fv fb [] I). }
  assert (Io : ido_op y' = ido_op y).
  { subst y'. destruct co; auto. apply (proj1 sw_ids). }
  exists y'. cbn [r_new r_world r_vm r_bm items world_of].
  split; [reflexivity|]. split; [reflexivity|]. split; [exact I'|].
  destruct (proj1 (iso_defs co fv fb) _ _ I') as [Dv Db].
  rewrite Io.
  apply (fresh_of_facts w s1 vm0 bm0 _ _ _ _ fv fb _ _ F Hv Hb Dv Db (items w ++ [IOp y'])).
Qed.

(* ------------------------------------------------------------------ *)
(* Region.clone_into *)
Definition resolve_index (insert_index : option Z) (d : blocks) : Z :=
  match insert_index with Some i => i | None => blocks_len d end.

(* what clone_into must achieve: the destination keeps its blocks, in order; the new blocks `nb` sit
   at `index`; they are the source renamed by the returned mappers; nothing else in the world moves *)
Definition into_ok (w : world) (src : blocks) (j : nat) (d : blocks) (index : Z)
                   (vm0 bm0 : amap) (co : bool) (r : result) : Prop :=
  exists nb,
    items (r_world r) =
      replace_item j (IReg (blocks_app (bfirstn (Z.to_nat index) d)
                                       (blocks_app nb (bskipn (Z.to_nat index) d)))) (items w) /\
    iso_blocks co (get (r_vm r)) (get (r_bm r)) src nb /\
    iso_via w (r_world r) vm0 bm0 (r_vm r) (r_bm r) (dv_blocks src) (db_region src) /\
    fresh_ids w (r_world r) (ido_blocks nb) (dv_blocks nb) (db_region nb).

Lemma clone_into_general : forall c w src j d idx vm0 bm0 co,
  nth_error (items w) j = Some (IReg d) ->
  NoDup (dv_blocks src) -> NoDup (db_region src) -> scoped_region src ->
  0 <= resolve_index idx d <= blocks_len d ->
  (remap_new_only c = true \/ co = false \/ walk_blocks (bfirstn (Z.to_nat (resolve_index idx d)) d) = []) ->
  exists r, clone_into c w src j idx vm0 bm0 co = Some r /\ into_ok w src j d (resolve_index idx d) vm0 bm0 co r.
Proof.
  intros c w src j d idx vm0 bm0 co Hj Hv Hb Hs Hr Hc.
  unfold clone_into. rewrite Hj. fold (resolve_index idx d). set (index := resolve_index idx d) in *.
  destruct (sh_region (st_of w vm0 bm0) src) as [s1 nb] eqn:E.
  destruct (phase1_region _ _ _ _ E Hv Hb Hs) as [I F].
  set (fv := get (vm s1)) in *. set (fb := get (bm s1)) in *.
  set (L := mapped_walk (vm s1) (walk_blocks src)).
  assert (HL : L = map (map fv) (walk_blocks src) ++ []) by (subst L; unfold mapped_walk; now rewrite app_nil_r).
  destruct (proj1 (proj2 (proj2 (proj2 sw_aligned))) src nb fv fb [] I) as [A1 A2]. rewrite <- HL in A1, A2.
  rewrite insert_block_spec.
  replace (0 <=? index) with true by (symmetry; apply Z.leb_le; lia).
  replace (index <=? 0 + blocks_len d) with true by (symmetry; apply Z.leb_le; lia).
  cbn [andb]. rewrite Z.sub_0_r.
  set (n := Z.to_nat index). set (pre := bfirstn n d). set (post := bskipn n d).
  set (nb' := if co then fst (sw_blocks L nb) else nb).
  assert (I' : iso_blocks co fv fb src nb') by (subst nb'; destruct co; auto).
  assert (Io : ido_blocks nb' = ido_blocks nb).
  { subst nb'. destruct co; auto. apply (proj1 (proj2 (proj2 (proj2 sw_ids)))). }
  eexists. split; [reflexivity|]. exists nb'. cbn [r_world r_vm r_bm items world_of].
  split; [|split; [exact I'|]].
  - f_equal. f_equal. subst nb'. destruct co; cbn [andb negb].
    + destruct (remap_new_only c) eqn:Ec; cbn [negb]; [reflexivity|].
      destruct Hc as [Hc | [Hc | Hc]]; try discriminate.
      rewrite sw_blocks_app. cbn [fst].
      rewrite (proj1 (proj2 (proj2 (proj2 sw_noops))) pre L Hc). cbn [fst snd].
      rewrite sw_blocks_app. cbn [fst]. rewrite A2.
      rewrite (proj1 (proj2 (proj2 (proj2 sw_nil))) post). reflexivity.
    + reflexivity.
  - destruct (proj1 (proj2 (proj2 (proj2 (iso_defs co fv fb)))) _ _ I') as (Dv & Db1 & Db2).
    rewrite Io.
    assert (Db : db_region nb' = map fb (db_region src)) by (unfold db_region; now rewrite map_app, Db1, Db2).
    apply (fresh_of_facts w s1 vm0 bm0 _ _ _ _ fv fb _ _ F Hv Hb Dv Db).
Qed.

(* out-of-range index: insert_block does nothing, the populated new blocks stay detached *)
Lemma clone_into_out_of_range : forall c w src j d idx vm0 bm0 co,
  nth_error (items w) j = Some (IReg d) ->
  (resolve_index idx d < 0 \/ blocks_len d < resolve_index idx d) ->
  exists r nb d', clone_into c w src j idx vm0 bm0 co = Some r /\
    items (r_world r) = replace_item j (IReg d') (items w) ++ orphans nb /\
    bids d' = bids d /\ length (bids nb) = length (bids src).
Proof.
  intros c w src j d idx vm0 bm0 co Hj Hr. unfold clone_into. rewrite Hj.
  fold (resolve_index idx d). set (index := resolve_index idx d) in *.
  destruct (sh_region (st_of w vm0 bm0) src) as [s1 nb] eqn:E.
  rewrite insert_block_spec.
  replace ((0 <=? index) && (index <=? 0 + blocks_len d)) with false.
  2:{ symmetry. apply andb_false_iff. destruct Hr; [left; apply Z.leb_gt | right; apply Z.leb_gt]; lia. }
  eexists. eexists. eexists. split; [reflexivity|]. cbn [r_world items world_of]. split; [reflexivity|].
  assert (Hbids : forall L r, bids (fst (sw_blocks L r)) = bids r).
  { intros L r. revert L. induction r as [|k r IH]; intros L; [reflexivity|].
    cbn [sw_blocks]. destruct k as [b args body]. cbn [sw_block].
    destruct (sw_ops L body) as [body' L1]. specialize (IH L1). destruct (sw_blocks L1 r) as [r' L2].
    cbn [fst] in *. cbn [bids bid_of]. now rewrite IH. }
  split.
  - destruct (co && negb (remap_new_only c)); auto.
  - assert (Hn : length (bids nb) = length (bids src)).
    { unfold sh_region in E. rewrite alloc_blks_spec in E.
      assert (G : forall r s ids s' r', sh_blocks s r ids = (s', r') -> length ids = length (bids r) ->
                    length (bids r') = length (bids r)).
      { induction r as [|k r IH]; intros s ids s' r' H Hl; cbn [sh_blocks] in H.
        - injection H as <- <-. reflexivity.
        - destruct ids as [|i ids]; [discriminate|].
          destruct (sh_block s k i) as [s2 k']. destruct (sh_blocks s2 r ids) as [s3 t'] eqn:Et.
          injection H as <- <-. cbn [bids length]. f_equal. eapply IH; eauto. }
      eapply G; [exact E | now rewrite zseq_length]. }
    destruct (co && remap_new_only c); auto. now rewrite Hbids.
Qed.
