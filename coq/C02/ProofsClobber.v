(* C02/ProofsClobber.v -- the failing class of Region.clone_into as it is, stated positively: whenever an
   operation precedes the insertion point and its operands differ from the (mapped) operands of the
   first source operation, that PRE-EXISTING operation is overwritten, so the statement fails. *)
From Coq Require Import List ZArith Bool Lia.
From XV Require Import C02.Model C02.ProofsBase C02.ProofsWalk C02.Proofs.
Import ListNotations.
Local Open Scope Z_scope.

(* zip: the first operand tuples of the walk W are replaced by those of L, as far as L reaches *)
Fixpoint overlay (L W : list (list Z)) : list (list Z) :=
  match L, W with
  | l :: L', _ :: W' => l :: overlay L' W'
  | _, _ => W
  end.

Lemma overlay_nil_l : forall W, overlay [] W = W.
Proof. destruct W; reflexivity. Qed.

Lemma overlay_nil_r : forall L, overlay L [] = [].
Proof. destruct L; reflexivity. Qed.

Lemma overlay_app : forall W1 W2 L,
  overlay L (W1 ++ W2) = overlay L W1 ++ overlay (skipn (length W1) L) W2.
Proof.
  induction W1 as [|a W1 IH]; intros W2 L; cbn [app length].
  - cbn [skipn]. destruct L; reflexivity.
  - destruct L as [|l L]; cbn [overlay skipn app].
    + reflexivity.
    + now rewrite IH.
Qed.

Lemma skipn_skipn : forall (A : Type) n m (l : list A), skipn n (skipn m l) = skipn (m + n) l.
Proof. induction m; intros l; cbn [skipn Nat.add]; auto. destruct l; auto. now destruct n. Qed.

Lemma walk_sw :
  (forall y L, walk_op (fst (sw_op L y)) = overlay L (walk_op y) /\ snd (sw_op L y) = skipn (length (walk_op y)) L) /\
  (forall l L, walk_ops (fst (sw_ops L l)) = overlay L (walk_ops l) /\ snd (sw_ops L l) = skipn (length (walk_ops l)) L) /\
  (forall k L, walk_block (fst (sw_block L k)) = overlay L (walk_block k) /\ snd (sw_block L k) = skipn (length (walk_block k)) L) /\
  (forall r L, walk_blocks (fst (sw_blocks L r)) = overlay L (walk_blocks r) /\ snd (sw_blocks L r) = skipn (length (walk_blocks r)) L) /\
  (forall g L, walk_regions (fst (sw_regions L g)) = overlay L (walk_regions g) /\ snd (sw_regions L g) = skipn (length (walk_regions g)) L).
Proof.
  apply ir_mutind.
  - intros i n os rs a ss g IHg L. cbn [sw_op]. destruct L as [|os' L'].
    + cbn [fst snd]. rewrite overlay_nil_l. split; [reflexivity | now rewrite skipn_nil].
    + destruct (IHg L') as [I1 I2]. destruct (sw_regions L' g) as [g' L'']. cbn [fst snd] in *.
      cbn [walk_op overlay length skipn]. now rewrite I1.
  - intros L. cbn [sw_ops walk_ops fst snd length skipn]. now rewrite overlay_nil_r.
  - intros o IHo t IHt L. cbn [sw_ops]. destruct (IHo L) as [I1 I2]. destruct (sw_op L o) as [o' L1].
    destruct (IHt L1) as [I3 I4]. destruct (sw_ops L1 t) as [t' L2]. cbn [fst snd] in *.
    cbn [walk_ops]. rewrite overlay_app, app_length, I1, I3, I4, I2. now rewrite skipn_skipn.
  - intros b args body IHb L. cbn [sw_block]. destruct (IHb L) as [I1 I2]. destruct (sw_ops L body).
    cbn [fst snd] in *. cbn [walk_block]. auto.
  - intros L. cbn [sw_blocks walk_blocks fst snd length skipn]. now rewrite overlay_nil_r.
  - intros k IHk t IHt L. cbn [sw_blocks]. destruct (IHk L) as [I1 I2]. destruct (sw_block L k) as [k' L1].
    destruct (IHt L1) as [I3 I4]. destruct (sw_blocks L1 t) as [t' L2]. cbn [fst snd] in *.
    cbn [walk_blocks]. rewrite overlay_app, app_length, I1, I3, I4, I2. now rewrite skipn_skipn.
  - intros L. cbn [sw_regions walk_regions fst snd length skipn]. now rewrite overlay_nil_r.
  - intros r IHr t IHt L. cbn [sw_regions]. destruct (IHr L) as [I1 I2]. destruct (sw_blocks L r) as [r' L1].
    destruct (IHt L1) as [I3 I4]. destruct (sw_regions L1 t) as [t' L2]. cbn [fst snd] in *.
    cbn [walk_regions]. rewrite overlay_app, app_length, I1, I3, I4, I2. now rewrite skipn_skipn.
Qed.

Lemma walk_blocks_app : forall a b, walk_blocks (blocks_app a b) = walk_blocks a ++ walk_blocks b.
Proof. induction a; intros; cbn [blocks_app walk_blocks]; auto. now rewrite IHa, app_assoc. Qed.

Lemma nth_error_replace_item : forall l j x x0,
  nth_error l j = Some x0 -> nth_error (replace_item j x l) j = Some x.
Proof.
  induction l as [|a l IH]; intros j x x0 H; destruct j; try discriminate; cbn [replace_item nth_error] in *; eauto.
Qed.

Theorem clone_into_original_clobbers : forall w src j d idx vm0 bm0 r o1 Wp s1 Ws,
  nth_error (items w) j = Some (IReg d) ->
  0 <= resolve_index idx d <= blocks_len d ->
  walk_blocks (bfirstn (Z.to_nat (resolve_index idx d)) d) = o1 :: Wp ->     (* an operation before the insertion point *)
  walk_blocks src = s1 :: Ws ->                                               (* the source has an operation *)
  clone_into cfg_original w src j idx vm0 bm0 true = Some r ->
  map (get (r_vm r)) s1 <> o1 ->
  ~ into_ok w src j d (resolve_index idx d) vm0 bm0 true r.
Proof.
  intros w src j d idx vm0 bm0 r o1 Wp s1 Ws Hj Hr Hpre Hsrc Hc Hne (nb' & Hi & _).
  unfold clone_into in Hc. rewrite Hj in Hc. fold (resolve_index idx d) in Hc.
  set (index := resolve_index idx d) in *.
  destruct (sh_region (st_of w vm0 bm0) src) as [s1' nb] eqn:E.
  rewrite insert_block_spec in Hc.
  replace (0 <=? index) with true in Hc by (symmetry; apply Z.leb_le; lia).
  replace (index <=? 0 + blocks_len d) with true in Hc by (symmetry; apply Z.leb_le; lia).
  cbn [andb negb remap_new_only cfg_original] in Hc. rewrite Z.sub_0_r in Hc.
  injection Hc as <-. cbn [r_world r_vm items world_of] in *.
  pose proof (nth_error_replace_item (items w) j
    (IReg (fst (sw_blocks (mapped_walk (vm s1') (walk_blocks src))
       (blocks_app (bfirstn (Z.to_nat index) d) (blocks_app nb (bskipn (Z.to_nat index) d)))))) _ Hj) as N1.
  rewrite Hi in N1. rewrite (nth_error_replace_item _ _ _ _ Hj) in N1.
  injection N1 as N1. apply (f_equal walk_blocks) in N1.
  rewrite (proj1 (proj1 (proj2 (proj2 (proj2 walk_sw))) _ _)) in N1.
  rewrite !walk_blocks_app, Hpre, Hsrc in N1. unfold mapped_walk in N1. cbn [map app overlay] in N1.
  injection N1 as N1 _. auto.
Qed.
