(* C02/ProofsShape.v -- phase 1 of the clone (the sh_ functions): what it allocates and registers, and that the
   result is the source renamed by the FINAL mappers (although successors are mapped while the block
   mapper is still growing). *)
From Coq Require Import List ZArith Bool Lia.
From XV Require Import C02.Model C02.ProofsBase.
Import ListNotations.
Local Open Scope Z_scope.

(* ------------------------------------------------------------------ *)
(* what a phase-1 run allocates and registers *)
Definition facts_v (s s' : st) (l : list Z) : Prop :=
  nval s' = nval s + Z.of_nat (length l) /\ vm s' = regs l (nval s) ++ vm s.
Definition facts_b (s s' : st) (l : list Z) : Prop :=
  nblk s' = nblk s + Z.of_nat (length l) /\ bm s' = regs l (nblk s) ++ bm s.
Definition facts_o (s s' : st) (io io' : list Z) : Prop :=
  nop s' = nop s + Z.of_nat (length io) /\ io' = zseq (nop s) (length io).
Definition facts (s s' : st) (lv lb io io' : list Z) : Prop :=
  facts_v s s' lv /\ facts_b s s' lb /\ facts_o s s' io io'.

Lemma facts_refl : forall s, facts s s [] [] [] [].
Proof. intros. unfold facts, facts_v, facts_b, facts_o. simpl. repeat split; lia. Qed.

Lemma facts_trans : forall s s1 s2 lv1 lv2 lb1 lb2 io1 io2 io1' io2',
  facts s s1 lv1 lb1 io1 io1' -> facts s1 s2 lv2 lb2 io2 io2' ->
  facts s s2 (lv1 ++ lv2) (lb1 ++ lb2) (io1 ++ io2) (io1' ++ io2').
Proof.
  unfold facts, facts_v, facts_b, facts_o.
  intros s s1 s2 lv1 lv2 lb1 lb2 io1 io2 io1' io2'
    [[Hv1 Hm1] [[Hb1 Hn1] [Ho1 Hi1]]] [[Hv2 Hm2] [[Hb2 Hn2] [Ho2 Hi2]]].
  rewrite !app_length, !Nat2Z.inj_add, !regs_app.
  repeat split; try lia.
  - rewrite Hm2, Hm1, Hv1, app_assoc. reflexivity.
  - rewrite Hn2, Hn1, Hb1, app_assoc. reflexivity.
  - rewrite zseq_app. rewrite Hi1, Hi2, Ho1. reflexivity.
Qed.

Lemma sh_facts :
  (forall x s s' y, sh_op s x = (s', y) -> facts s s' (dv_op x) (db_op x) (ido_op x) (ido_op y)) /\
  (forall l s s' l', sh_ops s l = (s', l') -> facts s s' (dv_ops l) (db_ops l) (ido_ops l) (ido_ops l')) /\
  (forall k s nb s' k', sh_block s k nb = (s', k') ->
     facts s s' (dv_block k) (dbi_block k) (ido_block k) (ido_block k')) /\
  (forall r s ids s' r', sh_blocks s r ids = (s', r') -> length ids = length (bids r) ->
     facts s s' (dv_blocks r) (dbi_blocks r) (ido_blocks r) (ido_blocks r')) /\
  (forall g s s' g', sh_regions s g = (s', g') ->
     facts s s' (dv_regions g) (db_regions g) (ido_regions g) (ido_regions g')).
Proof.
  apply ir_mutind.
  - (* Op *)
    intros i n os rs a ss g IHg s s' y H.
    cbn [sh_op] in H. rewrite alloc_vals_spec in H.
    destruct (sh_regions _ g) as [s2 g'] eqn:Eg. injection H as <- <-.
    apply IHg in Eg.
    cbn [dv_op db_op ido_op].
    change (db_regions g) with ([] ++ db_regions g).
    change (i :: ido_regions g) with ([i] ++ ido_regions g).
    change (nop s :: ido_regions g') with ([nop s] ++ ido_regions g').
    eapply facts_trans; [|exact Eg].
    unfold facts, facts_v, facts_b, facts_o. cbn [nop nval nblk vm bm length zseq app].
    rewrite map_length. repeat split; lia.
  - (* ONil *)
    intros s s' l' H. cbn [sh_ops] in H. injection H as <- <-. apply facts_refl.
  - (* OCons *)
    intros o IHo t IHt s s' l' H. cbn [sh_ops] in H.
    destruct (sh_op s o) as [s1 o'] eqn:Eo. destruct (sh_ops s1 t) as [s2 t'] eqn:Et.
    injection H as <- <-. cbn [dv_ops db_ops ido_ops].
    eapply facts_trans; eauto.
  - (* Blk *)
    intros b args body IHb s nb s' k' H. cbn [sh_block] in H. rewrite alloc_vals_spec in H.
    destruct (sh_ops _ body) as [s1 body'] eqn:Eb. injection H as <- <-.
    apply IHb in Eb. cbn [dv_block dbi_block ido_block].
    change (db_ops body) with ([] ++ db_ops body).
    change (ido_ops body) with ([] ++ ido_ops body).
    change (ido_ops body') with ([] ++ ido_ops body').
    eapply facts_trans; [|exact Eb].
    unfold facts, facts_v, facts_b, facts_o. cbn [nop nval nblk vm bm length zseq app].
    rewrite map_length. repeat split; lia.
  - (* BNil *)
    intros s ids s' r' H _. cbn [sh_blocks] in H. injection H as <- <-. apply facts_refl.
  - (* BCons *)
    intros k IHk t IHt s ids s' r' H Hl. cbn [sh_blocks] in H.
    destruct ids as [|nb ids']; [discriminate Hl|].
    destruct (sh_block s k nb) as [s1 k'] eqn:Ek. destruct (sh_blocks s1 t ids') as [s2 t'] eqn:Et.
    injection H as <- <-. cbn [dv_blocks dbi_blocks ido_blocks].
    eapply facts_trans; [eapply IHk; eauto | eapply IHt; eauto].
  - (* GNil *)
    intros s s' g' H. cbn [sh_regions] in H. injection H as <- <-. apply facts_refl.
  - (* GCons *)
    intros r IHr t IHt s s' g' H. cbn [sh_regions] in H. rewrite alloc_blks_spec in H.
    destruct (sh_blocks _ r _) as [s1 r'] eqn:Er. destruct (sh_regions s1 t) as [s2 t'] eqn:Et.
    injection H as <- <-.
    apply IHr in Er; [|now rewrite zseq_length]. apply IHt in Et.
    cbn [dv_regions db_regions ido_regions]. rewrite app_assoc.
    eapply facts_trans; [|exact Et].
    change (dv_blocks r) with ([] ++ dv_blocks r).
    change (ido_blocks r) with ([] ++ ido_blocks r).
    change (ido_blocks r') with ([] ++ ido_blocks r').
    eapply facts_trans; [|exact Er].
    unfold facts, facts_v, facts_b, facts_o. cbn [nop nval nblk vm bm length zseq app].
    repeat split; lia.
Qed.
