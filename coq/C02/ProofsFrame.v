(* C02/ProofsFrame.v -- what a clone leaves untouched: derived use lists (frame), clone_without_regions,
   Region.clone, later edits (independence), and the recorded refutations (witnesses by vm_compute). *)
From Coq Require Import List ZArith Bool Lia Permutation.
From XV Require Import C02.Model C02.ProofsBase C02.ProofsShape C02.ProofsIso C02.ProofsWalk C02.Proofs.
Import ListNotations.
Local Open Scope Z_scope.

(* ------------------------------------------------------------------ *)
(* use lists *)

Lemma in_concat_map_map : forall (f : Z -> Z) W v,
  In v (concat (map (map f) W)) -> exists u, In u (concat W) /\ f u = v.
Proof.
  induction W as [|a W IH]; cbn [map concat]; intros v H; [contradiction|].
  rewrite in_app_iff in H. destruct H as [H|H].
  - apply in_map_iff in H. destruct H as (u & Hu & Hin). exists u. rewrite in_app_iff. auto.
  - destruct (IH v H) as (u & Hin & Hu). exists u. rewrite in_app_iff. auto.
Qed.

(* the copy's operands never hit a value defined in the source *)
Lemma copy_avoids_source : forall (fv : Z -> Z) (vm0 : amap) lv nv W v,
  (forall u, In u lv -> nv <= fv u) -> (forall u, ~ In u lv -> fv u = get vm0 u) ->
  (forall u, ~ In u lv -> ~ In (get vm0 u) lv) -> (forall u, In u lv -> u < nv) ->
  In v lv -> ~ In v (concat (map (map fv) W)).
Proof.
  intros fv vm0 lv nv W v Hin Hout Hvm Hlt Hv H.
  apply in_concat_map_map in H. destruct H as (u & _ & Hu).
  destruct (in_dec Z.eq_dec u lv) as [Hul|Hul].
  - pose proof (Hin u Hul). pose proof (Hlt v Hv). lia.
  - apply (Hvm u Hul). rewrite <- Hout, Hu; auto.
Qed.

(* where the copy holds an old outside value v: exactly where the source holds it (empty caller mapper) *)
Lemma outside_hits : forall (fv : Z -> Z) lv nv v,
  (forall u, In u lv -> nv <= fv u) -> (forall u, ~ In u lv -> fv u = u) ->
  ~ In v lv -> v < nv -> forall u, fv u = v <-> u = v.
Proof.
  intros fv lv nv v Hin Hout Hv Hlt u. split.
  - intros Hu. destruct (in_dec Z.eq_dec u lv) as [Hul|Hul].
    + pose proof (Hin u Hul). lia.
    + now rewrite <- Hu, Hout.
  - intros ->. now apply Hout.
Qed.

Lemma get_nil : forall k, get [] k = k.
Proof. reflexivity. Qed.

Theorem clone_op_frame : forall w x vm0 bm0,
  NoDup (dv_op x) -> NoDup (db_op x) -> scoped_op (db_op x) [] x ->
  (forall v, In v (dv_op x) -> v < w_nval w) ->
  exists y, let r := clone_op w x vm0 bm0 true in
    r_new r = Some y /\ items (r_world r) = items w ++ [IOp y] /\
    (* every use list is the old one plus the slots of the copy *)
    (forall sel v, uses sel v (items (r_world r)) = uses sel v (items w) ++ uses_op sel v y) /\
    (* the copy never uses a value defined in the source (unless the caller's mapper says so) *)
    ((forall u, ~ In u (dv_op x) -> ~ In (get vm0 u) (dv_op x)) ->
       forall v, In v (dv_op x) -> uses_op true v y = []) /\
    (* an old outside value is used by the copy exactly at the operand positions of the source *)
    (vm0 = [] -> forall v, v < w_nval w -> ~ In v (dv_op x) ->
       map snd (uses_op true v y) = map snd (uses_op true v x)).
Proof.
  intros w x vm0 bm0 Hv Hb Hs Hlt.
  destruct (clone_op_correct w x vm0 bm0 true Hv Hb Hs) as (y & Hy).
  exists y. cbv zeta in Hy |- *. destruct Hy as (Hn & Hi & I & (Mv & _ & Ov & _) & _).
  set (r := clone_op w x vm0 bm0 true) in *.
  split; [exact Hn|]. split; [exact Hi|]. split; [|split].
  - intros sel v. rewrite Hi, uses_app. f_equal. unfold uses. cbn [flat_map uses_item]. apply app_nil_r.
  - intros Hvm v Hin. apply (proj1 uses_notin).
    rewrite (proj1 (iso_walk _ _) _ _ I).
    apply (copy_avoids_source (get (r_vm r)) vm0 (dv_op x) (w_nval w)); [ | assumption | assumption | assumption | assumption].
    intros u Hu. apply (proj2 Mv u Hu).
  - intros -> v Hvlt Hnin.
    apply (proj1 (uses_iso_positions (get (r_vm r)) (get (r_bm r)) v v) _ _ I).
    intros u _. apply (outside_hits (get (r_vm r)) (dv_op x) (w_nval w) v); [ | | assumption | assumption].
    + intros u' Hu'. apply (proj2 Mv u' Hu').
    + intros u' Hu'. now rewrite Ov.
Qed.

Lemma uses_replace_item : forall sel v it it0 extra its j,
  nth_error its j = Some it0 ->
  Permutation (uses_item sel v it) (uses_item sel v it0 ++ extra) ->
  Permutation (uses sel v (replace_item j it its)) (uses sel v its ++ extra).
Proof.
  intros sel v it it0 extra. induction its as [|x its IH]; intros j Hj Hp.
  - destruct j; discriminate.
  - destruct j as [|j]; cbn [nth_error] in Hj.
    + injection Hj as ->. cbn [replace_item]. unfold uses. cbn [flat_map].
      rewrite Hp, <- !app_assoc. apply Permutation_app_head. apply Permutation_app_comm.
    + cbn [replace_item]. unfold uses. cbn [flat_map]. rewrite <- app_assoc.
      apply Permutation_app_head. apply IH; auto.
Qed.

Theorem clone_into_frame : forall c w src j d idx vm0 bm0,
  nth_error (items w) j = Some (IReg d) ->
  NoDup (dv_blocks src) -> NoDup (db_region src) -> scoped_region src ->
  0 <= resolve_index idx d <= blocks_len d ->
  (remap_new_only c = true \/ walk_blocks (bfirstn (Z.to_nat (resolve_index idx d)) d) = []) ->
  (forall v, In v (dv_blocks src) -> v < w_nval w) ->
  exists r nb, clone_into c w src j idx vm0 bm0 true = Some r /\
    items (r_world r) =
      replace_item j (IReg (blocks_app (bfirstn (Z.to_nat (resolve_index idx d)) d)
                              (blocks_app nb (bskipn (Z.to_nat (resolve_index idx d)) d)))) (items w) /\
    (forall sel v, Permutation (uses sel v (items (r_world r))) (uses sel v (items w) ++ uses_blocks sel v nb)) /\
    ((forall u, ~ In u (dv_blocks src) -> ~ In (get vm0 u) (dv_blocks src)) ->
       forall v, In v (dv_blocks src) -> uses_blocks true v nb = []) /\
    (vm0 = [] -> forall v, v < w_nval w -> ~ In v (dv_blocks src) ->
       map snd (uses_blocks true v nb) = map snd (uses_blocks true v src)).
Proof.
  intros c w src j d idx vm0 bm0 Hj Hv Hb Hs Hr Hc Hlt.
  destruct (clone_into_general c w src j d idx vm0 bm0 true Hj Hv Hb Hs Hr) as (r & Hr1 & nb & Hi & I & (Mv & _ & Ov & _) & _).
  { destruct Hc; auto. }
  exists r, nb. split; [exact Hr1|]. split; [exact Hi|]. split; [|split].
  - intros sel v. rewrite Hi. eapply uses_replace_item; [exact Hj|].
    cbn [uses_item].
    assert (Hd : uses_blocks sel v d = uses_blocks sel v (bfirstn (Z.to_nat (resolve_index idx d)) d) ++
                                       uses_blocks sel v (bskipn (Z.to_nat (resolve_index idx d)) d))
      by (now rewrite <- uses_blocks_app, bfirstn_skipn).
    rewrite Hd, !uses_blocks_app, <- app_assoc. apply Permutation_app_head. apply Permutation_app_comm.
  - intros Hvm v Hin. apply (proj1 (proj2 (proj2 (proj2 uses_notin)))).
    rewrite (proj1 (proj2 (proj2 (proj2 (iso_walk _ _)))) _ _ I).
    apply (copy_avoids_source (get (r_vm r)) vm0 (dv_blocks src) (w_nval w)); [ | assumption | assumption | assumption | assumption].
    intros u Hu. apply (proj2 Mv u Hu).
  - intros -> v Hvlt Hnin.
    apply (proj1 (proj2 (proj2 (proj2 (uses_iso_positions (get (r_vm r)) (get (r_bm r)) v v)))) _ _ I).
    intros u _. apply (outside_hits (get (r_vm r)) (dv_blocks src) (w_nval w) v); [ | | assumption | assumption].
    + intros u' Hu'. apply (proj2 Mv u' Hu').
    + intros u' Hu'. now rewrite Ov.
Qed.

(* ------------------------------------------------------------------ *)
(* Region.clone: a new detached region holding the copy *)
Theorem region_clone_correct : forall c w src,
  NoDup (dv_blocks src) -> NoDup (db_region src) -> scoped_region src ->
  exists r nb, region_clone c w src = Some r /\
    items (r_world r) = items w ++ [IReg nb] /\
    iso_blocks true (get (r_vm r)) (get (r_bm r)) src nb /\
    fresh_ids w (r_world r) (ido_blocks nb) (dv_blocks nb) (db_region nb).
Proof.
  intros c w src Hv Hb Hs. unfold region_clone.
  set (w1 := W (items w ++ [IReg BNil]) (w_nop w) (w_nval w) (w_nblk w)).
  assert (Hj : nth_error (items w1) (length (items w)) = Some (IReg BNil)).
  { subst w1. cbn [items]. rewrite nth_error_app2 by lia. now rewrite Nat.sub_diag. }
  destruct (clone_into_general c w1 src (length (items w)) BNil None [] [] true Hj Hv Hb Hs) as (r & Hr & nb & Hi & I & _ & F).
  - cbn [resolve_index blocks_len]. lia.
  - right. right. reflexivity.
  - exists r, nb. split; [exact Hr|]. split; [|split; [exact I | exact F]].
    rewrite Hi. subst w1. cbn [items resolve_index blocks_len Z.to_nat bfirstn bskipn blocks_app].
    rewrite blocks_app_nil_r.
    clear. induction (items w); cbn [app length replace_item]; congruence.
Qed.

(* ------------------------------------------------------------------ *)
(* Operation.clone_without_regions *)
Theorem cwr_correct : forall w i n os rs a ss g vm0 bm0,
  (forall v, In v os -> ~ In v (map fst rs)) -> NoDup (map fst rs) ->
  let r := clone_without_regions w (Op i n os rs a ss g) vm0 bm0 true in
  exists rs',
    r_new r = Some (Op (w_nop w) n (map (get (r_vm r)) os) rs' a (map (get bm0) ss) (empty_regs g)) /\
    items (r_world r) = items w ++ [IOp (Op (w_nop w) n (map (get (r_vm r)) os) rs' a (map (get bm0) ss) (empty_regs g))] /\
    map fst rs' = map (get (r_vm r)) (map fst rs) /\ map snd rs' = map snd rs /\
    maps_fresh (get (r_vm r)) (map fst rs) (w_nval w) (w_nval (r_world r)) /\
    (forall v, ~ In v (map fst rs) -> get (r_vm r) v = get vm0 v) /\ r_bm r = bm0.
Proof.
  intros w i n os rs a ss g vm0 bm0 Hos Hnd. unfold clone_without_regions, cwr.
  cbn [st_of vm bm nop nval nblk]. rewrite alloc_vals_spec.
  cbn [r_new r_world r_vm r_bm items world_of vm bm nval w_nval].
  assert (M : map (get (regs (map fst rs) (w_nval w) ++ vm0)) (map fst rs) = zseq (w_nval w) (length (map fst rs)))
    by now apply get_regs_map.
  assert (Hops : map (get vm0) os = map (get (regs (map fst rs) (w_nval w) ++ vm0)) os).
  { apply map_ext_in. intros v Hv. symmetry. apply get_regs_notin. auto. }
  rewrite Hops.
  eexists. split; [|split; [|split; [|split; [|split; [|split]]]]].
  - reflexivity.
  - reflexivity.
  - rewrite combine_fst by now rewrite zseq_length, map_length. rewrite M. now rewrite map_length.
  - apply combine_snd. now rewrite zseq_length, map_length.
  - apply maps_fresh_zseq; auto. now rewrite map_length.
  - intros v Hv. now apply get_regs_notin.
  - reflexivity.
Qed.

(* ------------------------------------------------------------------ *)
(* later edits: an edit addressed to an object writes only the item that contains the object *)
Definition tgt_op (e : edit) : option Z :=
  match e with ESetOperand o _ _ | ESetAttrs o _ | EErase o => Some o | EInsert _ _ _ => None end.
Definition tgt_blk (e : edit) : option Z :=
  match e with EInsert b _ _ => Some b | _ => None end.
Definition untouched (e : edit) (io lb : list Z) : Prop :=
  (forall o, tgt_op e = Some o -> ~ In o io) /\ (forall b, tgt_blk e = Some b -> ~ In b lb).

Lemma untouched_incl : forall e io lb io' lb',
  untouched e io lb -> incl io' io -> incl lb' lb -> untouched e io' lb'.
Proof. intros e io lb io' lb' [H1 H2] Hi Hl. split; intros x Hx Hin; [eapply H1 | eapply H2]; eauto. Qed.

Lemma ed_untouched :
  (forall x e, untouched e (ido_op x) (db_op x) -> ed_op e x = x) /\
  (forall l e, untouched e (ido_ops l) (db_ops l) -> ed_ops e l = l) /\
  (forall k e, untouched e (ido_block k) (bid_of k :: dbi_block k) -> ed_block e k = k) /\
  (forall r e, untouched e (ido_blocks r) (bids r ++ dbi_blocks r) -> ed_blocks e r = r) /\
  (forall g e, untouched e (ido_regions g) (db_regions g) -> ed_regions e g = g).
Proof.
  apply ir_mutind.
  - intros i n os rs a ss g IHg e H. cbn [ed_op]. cbn [ido_op db_op] in H.
    rewrite IHg by (eapply untouched_incl; [exact H | apply incl_tl, incl_refl | apply incl_refl]).
    destruct H as [H1 _].
    assert (Hi : forall o, tgt_op e = Some o -> (o =? i) = false).
    { intros o Ho. apply Z.eqb_neq. intros ->. apply (H1 i Ho). now left. }
    destruct e; cbn [tgt_op] in Hi; try rewrite (Hi _ eq_refl); reflexivity.
  - reflexivity.
  - intros o IHo t IHt e H. cbn [ido_ops db_ops] in H.
    assert (Ho : untouched e (ido_op o) (db_op o))
      by (eapply untouched_incl; [exact H | apply incl_appl, incl_refl | apply incl_appl, incl_refl]).
    assert (Ht : untouched e (ido_ops t) (db_ops t))
      by (eapply untouched_incl; [exact H | apply incl_appr, incl_refl | apply incl_appr, incl_refl]).
    cbn [ed_ops]. rewrite (IHo e Ho), (IHt e Ht).
    destruct o as [i n os rs a ss g]. destruct e; try reflexivity.
    destruct Ho as [H1 _]. replace (o =? i) with false; [reflexivity|].
    symmetry. apply Z.eqb_neq. intros ->. apply (H1 i eq_refl). now left.
  - intros b args body IHb e H. cbn [ido_block bid_of dbi_block] in H. cbn [ed_block].
    rewrite IHb by (eapply untouched_incl; [exact H | apply incl_refl | apply incl_tl, incl_refl]).
    destruct e; try reflexivity.
    destruct H as [_ H2]. replace (b0 =? b) with false; [reflexivity|].
    symmetry. apply Z.eqb_neq. intros ->. apply (H2 b eq_refl). now left.
  - reflexivity.
  - intros k IHk t IHt e H. cbn [ido_blocks bids dbi_blocks] in H. cbn [ed_blocks].
    rewrite IHk, IHt; [reflexivity | |].
    + eapply untouched_incl; [exact H | apply incl_appr, incl_refl |].
      intros x Hx. rewrite in_app_iff in Hx. cbn [In app]. rewrite !in_app_iff. tauto.
    + eapply untouched_incl; [exact H | apply incl_appl, incl_refl |].
      intros x Hx. cbn [In] in Hx. cbn [In app]. rewrite !in_app_iff. tauto.
  - reflexivity.
  - intros r IHr t IHt e H. cbn [ido_regions db_regions] in H. cbn [ed_regions].
    rewrite IHr, IHt; [reflexivity | |].
    + eapply untouched_incl; [exact H | apply incl_appr, incl_refl |].
      intros x Hx. rewrite !in_app_iff. tauto.
    + eapply untouched_incl; [exact H | apply incl_appl, incl_refl |].
      intros x Hx. rewrite !in_app_iff in *. tauto.
Qed.

(* all operation ids / all block ids of an item *)
Definition ido_item (it : item) : list Z :=
  match it with IOp o => ido_op o | IReg r => ido_blocks r | IBlk k => ido_block k end.
Definition ab_item (it : item) : list Z :=
  match it with IOp o => db_op o | IReg r => db_region r | IBlk k => bid_of k :: dbi_block k end.
Definition dv_item (it : item) : list Z :=
  match it with IOp o => dv_op o | IReg r => dv_blocks r | IBlk k => dv_block k end.

Lemma ed_item_untouched : forall e it, untouched e (ido_item it) (ab_item it) -> ed_item e it = [it].
Proof.
  intros e it H. destruct it as [x|r|k]; cbn [ed_item ido_item ab_item] in *.
  - rewrite (proj1 ed_untouched x e H). destruct x as [i n os rs a ss g].
    destruct e; try reflexivity.
    destruct H as [H1 _]. replace (o =? i) with false; [reflexivity|].
    symmetry. apply Z.eqb_neq. intros ->. apply (H1 i eq_refl). now left.
  - now rewrite (proj1 (proj2 (proj2 (proj2 ed_untouched))) r e H).
  - now rewrite (proj1 (proj2 (proj2 ed_untouched)) k e H).
Qed.

Lemma apply_edit_untouched : forall e its,
  Forall (fun it => untouched e (ido_item it) (ab_item it)) its -> apply_edit e its = its.
Proof.
  intros e its H. unfold apply_edit. induction H as [|it its Hit _ IH]; [reflexivity|].
  cbn [flat_map]. now rewrite ed_item_untouched, IH.
Qed.

(* every object of the world was created before the counters *)
Definition wf (w : world) : Prop :=
  Forall (fun it => (forall i, In i (ido_item it) -> i < w_nop w) /\
                    (forall b, In b (ab_item it) -> b < w_nblk w) /\
                    (forall v, In v (dv_item it) -> v < w_nval w)) (items w).
(* an edit addressed to an object created at or after the counters of w (e.g. any object of a copy made in w) *)
Definition targets_new (w : world) (e : edit) : Prop :=
  (forall o, tgt_op e = Some o -> w_nop w <= o) /\ (forall b, tgt_blk e = Some b -> w_nblk w <= b).
(* an edit addressed to an object of w *)
Definition targets_old (w : world) (e : edit) : Prop :=
  (forall o, tgt_op e = Some o -> o < w_nop w) /\ (forall b, tgt_blk e = Some b -> b < w_nblk w).

Theorem edit_independent : forall w e rest,
  wf w -> targets_new w e -> apply_edit e (items w ++ rest) = items w ++ apply_edit e rest.
Proof.
  intros w e rest Hw [T1 T2]. unfold apply_edit. rewrite flat_map_app. f_equal.
  apply apply_edit_untouched. eapply Forall_impl; [|exact Hw].
  intros it (Ho & Hb & _). split.
  - intros o Ht Hin. specialize (Ho o Hin). specialize (T1 o Ht). lia.
  - intros b Ht Hin. specialize (Hb b Hin). specialize (T2 b Ht). lia.
Qed.

Theorem edits_independent : forall w es rest,
  wf w -> Forall (targets_new w) es -> apply_edits es (items w ++ rest) = items w ++ apply_edits es rest.
Proof.
  intros w es. induction es as [|e es IH]; intros rest Hw Hes; [reflexivity|].
  inversion Hes; subst. unfold apply_edits in *. cbn [fold_left].
  rewrite edit_independent by assumption. now apply IH.
Qed.

(* and vice versa: an edit addressed to an old object does not reach a copy made of fresh objects *)
Theorem edit_independent_rev : forall w w' e its y,
  fresh_ids w w' (ido_op y) (dv_op y) (db_op y) -> targets_old w e ->
  apply_edit e (its ++ [IOp y]) = apply_edit e its ++ [IOp y].
Proof.
  intros w w' e its y (Fo & _ & Fb & _) [T1 T2]. unfold apply_edit. rewrite flat_map_app. f_equal.
  cbn [flat_map]. rewrite app_nil_r. apply ed_item_untouched. cbn [ido_item ab_item]. split.
  - intros o Ht Hin. specialize (Fo o Hin). specialize (T1 o Ht). lia.
  - intros b Ht Hin. specialize (Fb b Hin). specialize (T2 b Ht). lia.
Qed.

(* apply_to_clone: clone, then any history of edits addressed to objects that did not exist before *)
Theorem apply_to_clone_frame : forall w x es,
  wf w -> NoDup (dv_op x) -> NoDup (db_op x) -> scoped_op (db_op x) [] x ->
  Forall (targets_new w) es ->
  exists rest, apply_edits es (items (r_world (clone_op w x [] [] true))) = items w ++ rest.
Proof.
  intros w x es Hw Hv Hb Hs Hes.
  destruct (clone_op_correct w x [] [] true Hv Hb Hs) as (y & _ & Hi & _).
  cbv zeta in Hi. rewrite Hi. rewrite edits_independent by assumption. eauto.
Qed.

(* the objects of a copy are not objects of the world it was made in *)
Lemma fresh_not_in_world : forall w w' io lv lb,
  wf w -> fresh_ids w w' io lv lb ->
  forall it, In it (items w) ->
    (forall i, In i io -> ~ In i (ido_item it)) /\ (forall b, In b lb -> ~ In b (ab_item it)) /\
    (forall v, In v lv -> ~ In v (dv_item it)).
Proof.
  intros w w' io lv lb Hw (Fo & Fv & Fb & _) it Hit.
  unfold wf in Hw. rewrite Forall_forall in Hw. destruct (Hw it Hit) as (Ho & Hb & Hv).
  repeat split; intros z Hz Hin.
  - specialize (Fo z Hz). specialize (Ho z Hin). lia.
  - specialize (Fb z Hz). specialize (Hb z Hin). lia.
  - specialize (Fv z Hz). specialize (Hv z Hin). lia.
Qed.
