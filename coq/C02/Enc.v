(* C02/Enc.v -- case-file constructors (list based), addressing helpers and encoders of the model's
   results into Base/Show.v `sx` for the correspondence check.  No proofs. *)
From Coq Require Import List ZArith Bool.
From XV Require Import Base.Show C02.Model.
Import ListNotations.
Local Open Scope Z_scope.

(* ---- literals ---- *)
Fixpoint ol (l : list op) : ops := match l with [] => ONil | x :: t => OCons x (ol t) end.
Fixpoint bl (l : list block) : blocks := match l with [] => BNil | x :: t => BCons x (bl t) end.
Fixpoint gl (l : list blocks) : regions := match l with [] => GNil | x :: t => GCons x (gl t) end.
Definition mk (i n : Z) (os : list Z) (rs : list (Z * Z)) (a : Z) (ss : list Z)
              (g : list (list block)) : op := Op i n os rs a ss (gl (map bl g)).
Definition bk (b : Z) (args : list (Z * Z)) (body : list op) : block := Blk b args (ol body).
Definition io (x : op) : item := IOp x.
Definition ir (l : list block) : item := IReg (bl l).
Definition ib (k : block) : item := IBlk k.

(* ---- encoders ---- *)
Definition enc_pairs (l : list (Z * Z)) : sx := L (map (fun p => L [I (fst p); I (snd p)]) l).
Fixpoint enc_op (x : op) : sx :=
  match x with
  | Op i n os rs a ss g => L [I i; I n; sLZ os; enc_pairs rs; I a; sLZ ss; L (enc_regions g)]
  end
with enc_regions (g : regions) : list sx :=
  match g with GNil => [] | GCons r t => L (enc_blocks r) :: enc_regions t end
with enc_blocks (r : blocks) : list sx :=
  match r with BNil => [] | BCons k t => enc_block k :: enc_blocks t end
with enc_block (k : block) : sx :=
  match k with Blk b args body => L [I b; enc_pairs args; L (enc_ops body)] end
with enc_ops (l : ops) : list sx :=
  match l with ONil => [] | OCons o t => enc_op o :: enc_ops t end.
Definition enc_item (it : item) : sx :=
  match it with
  | IOp o => L [I 0; enc_op o]
  | IReg r => L [I 1; L (enc_blocks r)]
  | IBlk k => L [I 2; enc_block k]
  end.

(* a mapper as the dict it denotes: newest binding per key, sorted by key *)
Fixpoint dedupe (seen : list Z) (l : amap) : amap :=
  match l with
  | [] => []
  | (k, v) :: r => if existsb (Z.eqb k) seen then dedupe seen r else (k, v) :: dedupe (k :: seen) r
  end.
Definition pair_leb (p q : Z * Z) : bool :=
  (fst p <? fst q) || ((fst p =? fst q) && (snd p <=? snd q)).
Fixpoint insert_sorted (p : Z * Z) (l : list (Z * Z)) : list (Z * Z) :=
  match l with
  | [] => [p]
  | q :: r => if pair_leb p q then p :: l else q :: insert_sorted p r
  end.
Definition sort_pairs (l : list (Z * Z)) : list (Z * Z) := fold_right insert_sorted [] l.
Definition enc_dict (m : amap) : sx := enc_pairs (sort_pairs (dedupe [] m)).

(* The world after a call, as a DELTA against the items before it: an item that is unchanged prints
   as 1 (the harness does the same on the real dumps; printing whole worlds dominates the run time).
   Use lists are not printed: they are derived from the items here, and the harness checks on the real
   side that every real use list is exactly the set of slots of the real dump (oracle). *)
Fixpoint sx_eqb (a b : sx) {struct a} : bool :=
  match a, b with
  | I x, I y => x =? y
  | L l, L m =>
      (fix go (l m : list sx) {struct l} : bool :=
         match l, m with
         | [], [] => true
         | x :: l', y :: m' => sx_eqb x y && go l' m'
         | _, _ => false
         end) l m
  | _, _ => false
  end.
Fixpoint enc_delta (old new : list item) : list sx :=
  match new with
  | [] => []
  | y :: new' =>
      match old with
      | x :: old' => (if sx_eqb (enc_item x) (enc_item y) then I 1 else enc_item y) :: enc_delta old' new'
      | [] => enc_item y :: enc_delta [] new'
      end
  end.
Definition enc_world (old : list item) (w : world) : sx :=
  L [L (enc_delta old (items w)); I (w_nop w); I (w_nval w); I (w_nblk w)].
Definition enc_result (old : list item) (r : option result) : sx :=
  match r with
  | None => I (-2)
  | Some r =>
      L [enc_world old (r_world r); match r_new r with Some (Op i _ _ _ _ _ _) => I i | None => I 0 end;
         enc_dict (r_vm r); enc_dict (r_bm r)]
  end.

(* ---- addressing: the source is named by object identity and looked up in the world ---- *)
Fixpoint find_op (i : Z) (x : op) {struct x} : option op :=
  match x with
  | Op i' _ _ _ _ _ g => if i =? i' then Some x else find_regions i g
  end
with find_regions (i : Z) (g : regions) {struct g} : option op :=
  match g with GNil => None | GCons r t => match find_blocks i r with Some o => Some o | None => find_regions i t end end
with find_blocks (i : Z) (r : blocks) {struct r} : option op :=
  match r with BNil => None | BCons k t => match find_block i k with Some o => Some o | None => find_blocks i t end end
with find_block (i : Z) (k : block) {struct k} : option op :=
  match k with Blk _ _ body => find_ops i body end
with find_ops (i : Z) (l : ops) {struct l} : option op :=
  match l with ONil => None | OCons o t => match find_op i o with Some o' => Some o' | None => find_ops i t end end.
Definition find_item (i : Z) (it : item) : option op :=
  match it with IOp o => find_op i o | IReg r => find_blocks i r | IBlk k => find_block i k end.
Fixpoint find_world (i : Z) (its : list item) : option op :=
  match its with [] => None | it :: t => match find_item i it with Some o => Some o | None => find_world i t end end.
Fixpoint nth_region (g : regions) (k : nat) : option blocks :=
  match g, k with
  | GCons r _, O => Some r
  | GCons _ t, S k' => nth_region t k'
  | GNil, _ => None
  end.
(* region `k` of the op with id `i`; i = 0: the top-level region item k *)
Definition find_region (its : list item) (i : Z) (k : Z) : option blocks :=
  if i =? 0 then match nth_error its (Z.to_nat k) with Some (IReg r) => Some r | _ => None end
  else match find_world i its with
       | Some (Op _ _ _ _ _ _ g) => nth_region g (Z.to_nat k)
       | None => None
       end.

(* op ids / block ids of a tree in walk order (for positional addressing of edits on the copy) *)
Fixpoint ido_op (x : op) : list Z := match x with Op i _ _ _ _ _ g => i :: ido_regions g end
with ido_regions (g : regions) : list Z := match g with GNil => [] | GCons r t => ido_blocks r ++ ido_regions t end
with ido_blocks (r : blocks) : list Z := match r with BNil => [] | BCons k t => ido_block k ++ ido_blocks t end
with ido_block (k : block) : list Z := match k with Blk _ _ body => ido_ops body end
with ido_ops (l : ops) : list Z := match l with ONil => [] | OCons o t => ido_op o ++ ido_ops t end.
Fixpoint idb_op (x : op) : list Z := match x with Op _ _ _ _ _ _ g => idb_regions g end
with idb_regions (g : regions) : list Z := match g with GNil => [] | GCons r t => idb_blocks r ++ idb_regions t end
with idb_blocks (r : blocks) : list Z := match r with BNil => [] | BCons k t => idb_block k ++ idb_blocks t end
with idb_block (k : block) : list Z := match k with Blk b _ body => b :: idb_ops body end
with idb_ops (l : ops) : list Z := match l with ONil => [] | OCons o t => idb_op o ++ idb_ops t end.
Fixpoint idv_op (x : op) : list Z := match x with Op _ _ _ rs _ _ g => map fst rs ++ idv_regions g end
with idv_regions (g : regions) : list Z := match g with GNil => [] | GCons r t => idv_blocks r ++ idv_regions t end
with idv_blocks (r : blocks) : list Z := match r with BNil => [] | BCons k t => idv_block k ++ idv_blocks t end
with idv_block (k : block) : list Z := match k with Blk _ args body => map fst args ++ idv_ops body end
with idv_ops (l : ops) : list Z := match l with ONil => [] | OCons o t => idv_op o ++ idv_ops t end.

Fixpoint zrange (from : Z) (n : nat) : list Z :=
  match n with O => [] | S k => from :: zrange (from + 1) k end.

(* ---- calls ---- *)
Inductive call :=
  | CCwr (src : Z) (vm0 bm0 : amap) (co : bool)                 (* op(src).clone_without_regions(...) *)
  | CClone (src : Z) (vm0 bm0 : amap) (co : bool)               (* op(src).clone(...) *)
  | CRegionClone (src k : Z)                                    (* region k of op src (or item k): .clone() *)
  | CInto (src k : Z) (j : Z) (idx : option Z) (vm0 bm0 : amap) (co : bool).   (* .clone_into(item j, idx, ...) *)

Definition run_call (c : cfg) (w : world) (cl : call) : option result :=
  match cl with
  | CCwr s vm0 bm0 co =>
      match find_world s (items w) with Some x => Some (clone_without_regions w x vm0 bm0 co) | None => None end
  | CClone s vm0 bm0 co =>
      match find_world s (items w) with Some x => Some (clone_op w x vm0 bm0 co) | None => None end
  | CRegionClone s k =>
      match find_region (items w) s k with
      | Some r => match region_clone c w r with
                  | Some res => Some (Res (r_world res) None [] [])      (* Region.clone() returns no mappers *)
                  | None => None
                  end
      | None => None
      end
  | CInto s k j idx vm0 bm0 co =>
      match find_region (items w) s k with
      | Some r => match clone_into_api c w r (Z.to_nat j) idx vm0 bm0 co with Done res => Some res | _ => None end
      | None => None
      end
  end.
(* an exception of the call: printed like the harness prints it, (-1 code); 5 = IndexError *)
Definition raises (c : cfg) (w : world) (cl : call) : bool :=
  match cl with
  | CInto s k j idx vm0 bm0 co =>
      match find_region (items w) s k with
      | Some r => match clone_into_api c w r (Z.to_nat j) idx vm0 bm0 co with RaiseIndexError => true | _ => false end
      | None => false
      end
  | _ => false
  end.
Definition c02_case (c : cfg) (its : list item) (no nv nb : Z) (cl : call) : sx :=
  if raises c (W its no nv nb) cl then L [I (-1); I 5]
  else enc_result its (run_call c (W its no nv nb) cl).

(* ---- edits on the copy, addressed by position in the copy's walk ----
     (0 k i v)   set operand i of the k-th op of the copy to v, where v >= 0 is a value id of the
                 old world and v < 0 the (-v-1)-th value defined in the copy
     (1 k a)     change the attribute payload of the k-th op
     (2 k)       erase the k-th op (k >= 1; never the root)
     (3 k i n t) create an op with n results of payload t (no operands) and insert it at position i
                 of the k-th block of the copy *)
Inductive pedit := PSet (k i v : Z) | PAttr (k a : Z) | PErase (k : Z) | PIns (k i n t : Z).
Definition nthZ (l : list Z) (k : Z) : Z := nth (Z.to_nat k) l (-1).
Definition new_results (from : Z) (n : Z) (t : Z) : list (Z * Z) :=
  map (fun v => (v, t)) (zrange from (Z.to_nat n)).
(* ids are those of the copy at the time of the clone (an erased op simply no longer matches) *)
Definition resolve (y : op) (w : world) (p : pedit) : world * edit :=
  match p with
  | PSet k i v => (w, ESetOperand (nthZ (ido_op y) k) i (if v <? 0 then nthZ (idv_op y) (- v - 1) else v))
  | PAttr k a => (w, ESetAttrs (nthZ (ido_op y) k) a)
  | PErase k => (w, EErase (nthZ (ido_op y) k))
  | PIns k i n t =>
      (W (items w) (w_nop w + 1) (w_nval w + n) (w_nblk w),
       EInsert (nthZ (idb_op y) k) i (Op (w_nop w) 1 [] (new_results (w_nval w) n t) 0 [] GNil))
  end.
Definition run_pedit (y : op) (w : world) (p : pedit) : world :=
  let (w1, e) := resolve y w p in W (apply_edit e (items w1)) (w_nop w1) (w_nval w1) (w_nblk w1).
Definition c02_edits (its : list item) (no nv nb : Z) (src : Z) (ps : list pedit) : sx :=
  match find_world src its with
  | None => I (-2)
  | Some x =>
      let r := clone_op (W its no nv nb) x [] [] true in
      match r_new r with
      | Some y => enc_world its (fold_left (run_pedit y) ps (r_world r))
      | None => I (-2)
      end
  end.
