(* C02/ProofsIso.v -- phase 1 yields the source renamed by the FINAL mappers (without operands);
   phase 2 (the zip of the two walks) then installs the mapped operands when the walks are aligned. *)
From Coq Require Import List ZArith Bool Lia.
From XV Require Import C02.Model C02.ProofsBase C02.ProofsShape.
Import ListNotations.
Local Open Scope Z_scope.

(* the block mapper of the moment agrees with the final one on every block visible now:
   blocks of enclosing regions (env) and blocks that are not cloned at all (outside D) *)
Definition agree (D env : list Z) (m : amap) (fb : Z -> Z) : Prop :=
  forall b, In b env \/ ~ In b D -> get m b = fb b.

Record hyp (D env : list Z) (fv fb : Z -> Z) (s : st) (lv lb : list Z) : Prop := {
  h_v : map fv lv = zseq (nval s) (length lv);
  h_b : map fb lb = zseq (nblk s) (length lb);
  h_agree : agree D env (bm s) fb;
  h_incl : incl lb D;
  h_disj : forall b, In b env -> ~ In b lb;
  h_nodup : NoDup lb }.

Lemma agree_regs : forall D env m fb l base,
  agree D env m fb -> incl l D -> (forall b, In b env -> ~ In b l) ->
  agree D env (regs l base ++ m) fb.
Proof.
  intros D env m fb l base Ha Hi Hd b Hb. rewrite get_regs_notin; [now apply Ha|].
  destruct Hb as [Hb|Hb]; [now apply Hd|]. intro Hin. apply Hb, Hi, Hin.
Qed.

Lemma hyp_split : forall D env fv fb s s1 lv1 lv2 lb1 lb2 io io',
  hyp D env fv fb s (lv1 ++ lv2) (lb1 ++ lb2) -> facts s s1 lv1 lb1 io io' ->
  hyp D env fv fb s lv1 lb1 /\ hyp D env fv fb s1 lv2 lb2.
Proof.
  intros D env fv fb s s1 lv1 lv2 lb1 lb2 io io' [Hv Hb Ha Hi Hd Hn] [[Fv Fm] [[Fb Fn] _]].
  apply map_zseq_split in Hv. apply map_zseq_split in Hb. destruct Hv as [Hv1 Hv2], Hb as [Hb1 Hb2].
  assert (Hi1 : incl lb1 D) by (intros x Hx; apply Hi, in_or_app; auto).
  assert (Hd1 : forall b, In b env -> ~ In b lb1) by (intros b Hb Hx; apply (Hd b Hb), in_or_app; auto).
  split; constructor; auto.
  - eapply NoDup_app_l; eauto.
  - now rewrite Fv.
  - now rewrite Fb.
  - rewrite Fn. now apply agree_regs.
  - intros x Hx; apply Hi, in_or_app; auto.
  - intros b Hb Hx; apply (Hd b Hb), in_or_app; auto.
  - eapply NoDup_app_r; eauto.
Qed.

(* entering a region: its blocks have just been registered and become visible *)
Lemma hyp_enter : forall D env fv fb s l lv lb base m0,
  bm s = regs l base ++ m0 -> NoDup l -> map fb l = zseq base (length l) ->
  (forall b, In b l -> ~ In b lb) ->
  hyp D env fv fb s lv lb -> hyp D (l ++ env) fv fb s lv lb.
Proof.
  intros D env fv fb s l lv lb base m0 Hm Hnd Hl Hdl [Hv Hb Ha Hi Hd Hn].
  constructor; auto.
  - intros b Hb'. destruct (in_dec Z.eq_dec b l) as [Hin|Hnin].
    + rewrite Hm. symmetry. eapply (map_eq_pointwise fb (get (regs l base ++ m0)) l); auto.
      now rewrite get_regs_map.
    + apply Ha. rewrite in_app_iff in Hb'. tauto.
  - intros b Hb'. rewrite in_app_iff in Hb'. destruct Hb'; auto.
Qed.

Lemma facts_op_head : forall s i (rs : list (Z * Z)),
  facts s (St (nop s + 1) (nval s + Z.of_nat (length rs)) (nblk s) (regs (map fst rs) (nval s) ++ vm s) (bm s))
        (map fst rs) [] [i] [nop s].
Proof.
  intros. unfold facts, facts_v, facts_b, facts_o. cbn [nop nval nblk vm bm length zseq app].
  rewrite map_length. repeat split; lia.
Qed.
Lemma facts_blk_head : forall s (args : list (Z * Z)),
  facts s (St (nop s) (nval s + Z.of_nat (length args)) (nblk s) (regs (map fst args) (nval s) ++ vm s) (bm s))
        (map fst args) [] [] [].
Proof.
  intros. unfold facts, facts_v, facts_b, facts_o. cbn [nop nval nblk vm bm length zseq app].
  rewrite map_length. repeat split; lia.
Qed.
Lemma facts_reg_head : forall s l,
  facts s (St (nop s) (nval s) (nblk s + Z.of_nat (length l)) (vm s) (regs l (nblk s) ++ bm s)) [] l [] [].
Proof.
  intros. unfold facts, facts_v, facts_b, facts_o. cbn [nop nval nblk vm bm length zseq app].
  repeat split; lia.
Qed.

Lemma new_vals_iso : forall (fv : Z -> Z) (vs : list (Z * Z)) nv,
  map fv (map fst vs) = zseq nv (length (map fst vs)) ->
  map fst (combine (zseq nv (length vs)) (map snd vs)) = map fv (map fst vs) /\
  map snd (combine (zseq nv (length vs)) (map snd vs)) = map snd vs.
Proof.
  intros fv vs nv H. rewrite map_length in H.
  rewrite combine_fst, combine_snd by now rewrite zseq_length, map_length. auto.
Qed.

Lemma sh_iso :
  (forall x s s' y fv fb D env, sh_op s x = (s', y) ->
     hyp D env fv fb s (dv_op x) (db_op x) -> scoped_op D env x -> iso_op false fv fb x y) /\
  (forall l s s' l' fv fb D env, sh_ops s l = (s', l') ->
     hyp D env fv fb s (dv_ops l) (db_ops l) -> scoped_ops D env l -> iso_ops false fv fb l l') /\
  (forall k s nb s' k' fv fb D env, sh_block s k nb = (s', k') -> nb = fb (bid_of k) ->
     hyp D env fv fb s (dv_block k) (dbi_block k) -> scoped_block D env k -> iso_block false fv fb k k') /\
  (forall r s ids s' r' fv fb D env, sh_blocks s r ids = (s', r') -> ids = map fb (bids r) ->
     hyp D env fv fb s (dv_blocks r) (dbi_blocks r) -> scoped_blocks D env r -> iso_blocks false fv fb r r') /\
  (forall g s s' g' fv fb D env, sh_regions s g = (s', g') ->
     hyp D env fv fb s (dv_regions g) (db_regions g) -> scoped_regions D env g -> iso_regions false fv fb g g').
Proof.
  apply ir_mutind.
  - (* Op *)
    intros i n os rs a ss g IHg s s' y fv fb D env H Hh [Hss Hsc].
    cbn [sh_op] in H. rewrite alloc_vals_spec in H.
    destruct (sh_regions _ g) as [s2 g'] eqn:Eg. injection H as <- <-.
    cbn [dv_op db_op] in Hh. change (db_regions g) with ([] ++ db_regions g) in Hh.
    destruct (hyp_split _ _ _ _ _ _ _ _ _ _ _ _ Hh (facts_op_head s i rs)) as [H1 H2].
    cbn [iso_op]. destruct (new_vals_iso fv rs (nval s) (h_v _ _ _ _ _ _ _ H1)) as [Hr1 Hr2].
    repeat split; auto.
    + apply map_ext_in. intros b Hb. apply (h_agree _ _ _ _ _ _ _ Hh). auto.
    + eapply IHg; eauto.
  - (* ONil *)
    intros s s' l' fv fb D env H _ _. cbn [sh_ops] in H. injection H as <- <-. exact I.
  - (* OCons *)
    intros o IHo t IHt s s' l' fv fb D env H Hh [Hs1 Hs2]. cbn [sh_ops] in H.
    destruct (sh_op s o) as [s1 o'] eqn:Eo. destruct (sh_ops s1 t) as [s2 t'] eqn:Et.
    injection H as <- <-. cbn [dv_ops db_ops] in Hh.
    destruct (hyp_split _ _ _ _ _ _ _ _ _ _ _ _ Hh (proj1 sh_facts _ _ _ _ Eo)) as [H1 H2].
    cbn [iso_ops]. split; [eapply IHo | eapply IHt]; eauto.
  - (* Blk *)
    intros b args body IHb s nb s' k' fv fb D env H Hnb Hh Hsc.
    cbn [sh_block] in H. rewrite alloc_vals_spec in H.
    destruct (sh_ops _ body) as [s1 body'] eqn:Eb. injection H as <- <-.
    cbn [dv_block dbi_block] in Hh. change (db_ops body) with ([] ++ db_ops body) in Hh.
    destruct (hyp_split _ _ _ _ _ _ _ _ _ _ _ _ Hh (facts_blk_head s args)) as [H1 H2].
    cbn [iso_block]. destruct (new_vals_iso fv args (nval s) (h_v _ _ _ _ _ _ _ H1)) as [Hr1 Hr2].
    repeat split; auto. eapply IHb; eauto.
  - (* BNil *)
    intros s ids s' r' fv fb D env H _ _ _. cbn [sh_blocks] in H. injection H as <- <-. exact I.
  - (* BCons *)
    intros k IHk t IHt s ids s' r' fv fb D env H Hids Hh [Hs1 Hs2]. cbn [sh_blocks] in H.
    cbn [bids map] in Hids. subst ids.
    destruct (sh_block s k (fb (bid_of k))) as [s1 k'] eqn:Ek.
    destruct (sh_blocks s1 t (map fb (bids t))) as [s2 t'] eqn:Et.
    injection H as <- <-. cbn [dv_blocks dbi_blocks] in Hh.
    destruct (hyp_split _ _ _ _ _ _ _ _ _ _ _ _ Hh (proj1 (proj2 (proj2 sh_facts)) _ _ _ _ _ Ek)) as [H1 H2].
    cbn [iso_blocks]. split; [eapply IHk | eapply IHt]; eauto.
  - (* GNil *)
    intros s s' g' fv fb D env H _ _. cbn [sh_regions] in H. injection H as <- <-. exact I.
  - (* GCons *)
    intros r IHr t IHt s s' g' fv fb D env H Hh [Hs1 Hs2]. cbn [sh_regions] in H.
    rewrite alloc_blks_spec in H.
    destruct (sh_blocks _ r _) as [s1 r'] eqn:Er. destruct (sh_regions s1 t) as [s2 t'] eqn:Et.
    injection H as <- <-. cbn [dv_regions db_regions] in Hh.
    change (dv_blocks r ++ dv_regions t) with ([] ++ dv_blocks r ++ dv_regions t) in Hh.
    destruct (hyp_split _ _ _ _ _ _ _ _ _ _ _ _ Hh (facts_reg_head s (bids r))) as [H1 H2].
    pose proof (h_nodup _ _ _ _ _ _ _ Hh) as Hnd.
    assert (Hf : facts (St (nop s) (nval s) (nblk s + Z.of_nat (length (bids r))) (vm s)
                           (regs (bids r) (nblk s) ++ bm s)) s1
                       (dv_blocks r) (dbi_blocks r) (ido_blocks r) (ido_blocks r')).
    { eapply (proj1 (proj2 (proj2 (proj2 sh_facts)))); [exact Er | now rewrite zseq_length]. }
    destruct (hyp_split _ _ _ _ _ _ _ _ _ _ _ _ H2 Hf) as [H3 H4].
    cbn [iso_regions]. split.
    + eapply IHr; [exact Er | | | exact Hs1].
      * symmetry. exact (h_b _ _ _ _ _ _ _ H1).
      * eapply hyp_enter; [reflexivity | | | | exact H3].
        -- eapply NoDup_app_l; eauto.
        -- exact (h_b _ _ _ _ _ _ _ H1).
        -- intros b Hb Hx. eapply NoDup_app_disj; [exact Hnd | exact Hb |]. apply in_or_app; auto.
    + eapply IHt; eauto.
Qed.

(* ------------------------------------------------------------------ *)
(* phase 2 on aligned walks *)
Lemma sw_aligned :
  (forall x y fv fb rest, iso_op false fv fb x y ->
     iso_op true fv fb x (fst (sw_op (map (map fv) (walk_op x) ++ rest) y)) /\
     snd (sw_op (map (map fv) (walk_op x) ++ rest) y) = rest) /\
  (forall l l' fv fb rest, iso_ops false fv fb l l' ->
     iso_ops true fv fb l (fst (sw_ops (map (map fv) (walk_ops l) ++ rest) l')) /\
     snd (sw_ops (map (map fv) (walk_ops l) ++ rest) l') = rest) /\
  (forall k k' fv fb rest, iso_block false fv fb k k' ->
     iso_block true fv fb k (fst (sw_block (map (map fv) (walk_block k) ++ rest) k')) /\
     snd (sw_block (map (map fv) (walk_block k) ++ rest) k') = rest) /\
  (forall r r' fv fb rest, iso_blocks false fv fb r r' ->
     iso_blocks true fv fb r (fst (sw_blocks (map (map fv) (walk_blocks r) ++ rest) r')) /\
     snd (sw_blocks (map (map fv) (walk_blocks r) ++ rest) r') = rest) /\
  (forall g g' fv fb rest, iso_regions false fv fb g g' ->
     iso_regions true fv fb g (fst (sw_regions (map (map fv) (walk_regions g) ++ rest) g')) /\
     snd (sw_regions (map (map fv) (walk_regions g) ++ rest) g') = rest).
Proof.
  apply ir_mutind.
  - intros i n os rs a ss g IHg y fv fb rest H. destruct y as [i' n' os' rs' a' ss' g'].
    cbn [iso_op] in H. destruct H as (Hn & Ha & Hos & Hr1 & Hr2 & Hss & Hg).
    cbn [walk_op map app sw_op].
    destruct (IHg g' fv fb rest Hg) as [I1 I2].
    destruct (sw_regions (map (map fv) (walk_regions g) ++ rest) g') as [g'' L''].
    cbn [fst snd] in *. cbn [iso_op]. repeat split; auto.
  - intros l' fv fb rest H. destruct l'; cbn [iso_ops] in H; [|tauto].
    cbn [walk_ops map app sw_ops fst snd iso_ops]. auto.
  - intros o IHo t IHt l' fv fb rest H. destruct l' as [|o' t']; cbn [iso_ops] in H; [tauto|].
    destruct H as [Ho Ht]. cbn [walk_ops sw_ops]. rewrite map_app, <- app_assoc.
    destruct (IHo o' fv fb (map (map fv) (walk_ops t) ++ rest) Ho) as [I1 I2].
    destruct (sw_op _ o') as [o'' L1]. cbn [fst snd] in I1, I2. subst L1.
    destruct (IHt t' fv fb rest Ht) as [I3 I4].
    destruct (sw_ops _ t') as [t'' L2]. cbn [fst snd] in *. cbn [iso_ops]. auto.
  - intros b args body IHb k' fv fb rest H. destruct k' as [b' args' body'].
    cbn [iso_block] in H. destruct H as (Hb & Ha1 & Ha2 & Hbody).
    cbn [walk_block sw_block].
    destruct (IHb body' fv fb rest Hbody) as [I1 I2].
    destruct (sw_ops _ body') as [body'' L1]. cbn [fst snd] in *. cbn [iso_block]. auto.
  - intros r' fv fb rest H. destruct r'; cbn [iso_blocks] in H; [|tauto].
    cbn [walk_blocks map app sw_blocks fst snd iso_blocks]. auto.
  - intros k IHk t IHt r' fv fb rest H. destruct r' as [|k' t']; cbn [iso_blocks] in H; [tauto|].
    destruct H as [Hk Ht]. cbn [walk_blocks sw_blocks]. rewrite map_app, <- app_assoc.
    destruct (IHk k' fv fb (map (map fv) (walk_blocks t) ++ rest) Hk) as [I1 I2].
    destruct (sw_block _ k') as [k'' L1]. cbn [fst snd] in I1, I2. subst L1.
    destruct (IHt t' fv fb rest Ht) as [I3 I4].
    destruct (sw_blocks _ t') as [t'' L2]. cbn [fst snd] in *. cbn [iso_blocks]. auto.
  - intros g' fv fb rest H. destruct g'; cbn [iso_regions] in H; [|tauto].
    cbn [walk_regions map app sw_regions fst snd iso_regions]. auto.
  - intros r IHr t IHt g' fv fb rest H. destruct g' as [|r' t']; cbn [iso_regions] in H; [tauto|].
    destruct H as [Hr Ht]. cbn [walk_regions sw_regions]. rewrite map_app, <- app_assoc.
    destruct (IHr r' fv fb (map (map fv) (walk_regions t) ++ rest) Hr) as [I1 I2].
    destruct (sw_blocks _ r') as [r'' L1]. cbn [fst snd] in I1, I2. subst L1.
    destruct (IHt t' fv fb rest Ht) as [I3 I4].
    destruct (sw_regions _ t') as [t'' L2]. cbn [fst snd] in *. cbn [iso_regions]. auto.
Qed.
