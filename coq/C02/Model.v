(* C02/Model.v -- executable model of cloning in xdsl/ir/core.py:
     Operation.clone_without_regions, Operation.clone, Region.clone, Region.clone_into,
     Region.insert_block (index semantics incl. its silent no-op), and a few edits used for the
     independence statement.  Definitions only, no proofs.

   IR = trees with explicit identities.  Operations, values (op results / block arguments) and
   blocks are Python objects: their identities are Z ids taken from three counters (one per class,
   in creation order).  Operands and successors are id REFERENCES (possibly to ids defined later,
   or outside the tree).  Op names, attribute+property dictionaries and (type, name hint) of a value
   are opaque payloads = Z (interned by the harness).  A region is the list of its blocks; explicit
   mutual list types keep every recursion structural.

   The world = every piece of IR alive: a list of top-level items (detached operations, regions
   and blocks) + the three counters.  Use lists are DERIVED from the world (uses_* below): the use
   list of a value is the set of (operation, operand index) slots of the world that hold it.

   The mutable dicts value_mapper / block_mapper are association lists; `m[k] = v` conses (the
   newest binding shadows), `m.get(k, k)` = get. *)
From Coq Require Import List ZArith Bool.
Import ListNotations.
Local Open Scope Z_scope.

Inductive op : Type :=
  | Op (oid : Z) (name : Z) (operands : list Z) (results : list (Z * Z)) (attrs : Z)
       (succs : list Z) (regs : regions)
with ops : Type := ONil | OCons (o : op) (t : ops)
with block : Type := Blk (bid : Z) (args : list (Z * Z)) (body : ops)
with blocks : Type := BNil | BCons (k : block) (t : blocks)          (* one region *)
with regions : Type := GNil | GCons (r : blocks) (t : regions).

Fixpoint ops_app (a b : ops) : ops := match a with ONil => b | OCons o t => OCons o (ops_app t b) end.
Fixpoint blocks_app (a b : blocks) : blocks :=
  match a with BNil => b | BCons k t => BCons k (blocks_app t b) end.
Fixpoint blocks_len (a : blocks) : Z := match a with BNil => 0 | BCons _ t => 1 + blocks_len t end.
Fixpoint blocks_list (a : blocks) : list block :=
  match a with BNil => [] | BCons k t => k :: blocks_list t end.

(* ---- the mapper dicts ---- *)
Definition amap := list (Z * Z).
Fixpoint lookup (m : amap) (k : Z) : option Z :=
  match m with
  | [] => None
  | (k', v) :: r => if k' =? k then Some v else lookup r k
  end.
(* m.get(k, k)  /  (m[k] if k in m else k) *)
Definition get (m : amap) (k : Z) : Z := match lookup m k with Some v => v | None => k end.

(* ---- the state threaded through a clone: the three object counters and the two dicts ---- *)
Record st := St { nop : Z; nval : Z; nblk : Z; vm : amap; bm : amap }.

(* new values for `vs` (results of a created op / block arguments inserted one by one), each registered:
     value_mapper[old] = new *)
Fixpoint alloc_vals (nv : Z) (m : amap) (vs : list (Z * Z)) : Z * amap * list (Z * Z) :=
  match vs with
  | [] => (nv, m, [])
  | (v, t) :: r =>
      let '(nv', m', out) := alloc_vals (nv + 1) ((v, nv) :: m) r in (nv', m', (nv, t) :: out)
  end.

(* regions = [Region() for _ in self.regions] *)
Fixpoint empty_regs (g : regions) : regions :=
  match g with GNil => GNil | GCons _ t => GCons BNil (empty_regs t) end.

(* Operation.clone_without_regions(value_mapper, block_mapper, clone_operands=co) *)
Definition cwr (co : bool) (s : st) (x : op) : st * op :=
  match x with
  | Op _ n os rs a ss g =>
      let operands := if co then map (get (vm s)) os else [] in
      let succs := map (get (bm s)) ss in
      let '(nv, m, rs') := alloc_vals (nval s) (vm s) rs in
      (St (nop s + 1) nv (nblk s) m (bm s), Op (nop s) n operands rs' a succs (empty_regs g))
  end.

(* Region.clone_into, first loop:  for block in self.blocks: new_block = Block(); block_mapper[block] = new_block *)
Fixpoint alloc_blks (nb : Z) (m : amap) (r : blocks) : Z * amap * list Z :=
  match r with
  | BNil => (nb, m, [])
  | BCons (Blk b _ _) t =>
      let '(nb', m', ids) := alloc_blks (nb + 1) ((b, nb) :: m) t in (nb', m', nb :: ids)
  end.

(* Phase 1 = Operation.clone(value_mapper, block_mapper, clone_operands=False):
     sh_op       clone_without_regions(clone_operands=False), then for each region
                 region.clone_into(op.regions[idx], 0, ..., clone_operands=False)
     sh_regions  that loop; the body of clone_into for one region is: allocate + register the empty
                 new blocks (alloc_blks), insert them into the fresh empty region at index 0 (which
                 yields exactly these blocks, see insert_block below), populate them (sh_blocks)
     sh_block    block arguments one by one (insert_arg + value_mapper[arg] = new_arg), then
                 new_block.add_op(op.clone(..., clone_operands=False)) for every op *)
Fixpoint sh_op (s : st) (x : op) {struct x} : st * op :=
  match x with
  | Op _ n os rs a ss g =>
      let succs := map (get (bm s)) ss in
      let '(nv, m, rs') := alloc_vals (nval s) (vm s) rs in
      let (s2, g') := sh_regions (St (nop s + 1) nv (nblk s) m (bm s)) g in
      (s2, Op (nop s) n [] rs' a succs g')
  end
with sh_regions (s : st) (g : regions) {struct g} : st * regions :=
  match g with
  | GNil => (s, GNil)
  | GCons r t =>
      let '(nb, m, ids) := alloc_blks (nblk s) (bm s) r in
      let (s1, r') := sh_blocks (St (nop s) (nval s) nb (vm s) m) r ids in
      let (s2, t') := sh_regions s1 t in
      (s2, GCons r' t')
  end
with sh_blocks (s : st) (r : blocks) (ids : list Z) {struct r} : st * blocks :=
  match r, ids with
  | BCons k t, nb :: ids' =>
      let (s1, k') := sh_block s k nb in
      let (s2, t') := sh_blocks s1 t ids' in
      (s2, BCons k' t')
  | _, _ => (s, BNil)
  end
with sh_block (s : st) (k : block) (nb : Z) {struct k} : st * block :=
  match k with
  | Blk _ args body =>
      let '(nv, m, args') := alloc_vals (nval s) (vm s) args in
      let (s1, body') := sh_ops (St (nop s) nv (nblk s) m (bm s)) body in
      (s1, Blk nb args' body')
  end
with sh_ops (s : st) (l : ops) {struct l} : st * ops :=
  match l with
  | ONil => (s, ONil)
  | OCons o t =>
      let (s1, o') := sh_op s o in
      let (s2, t') := sh_ops s1 t in
      (s2, OCons o' t')
  end.

(* phase 1 of one Region.clone_into: the new (populated, not yet attached) blocks *)
Definition sh_region (s : st) (r : blocks) : st * blocks :=
  let '(nb, m, ids) := alloc_blks (nblk s) (bm s) r in
  sh_blocks (St (nop s) (nval s) nb (vm s) m) r ids.

(* ---- walk(): operations in pre-order; here the operand tuple of each ---- *)
Fixpoint walk_op (x : op) : list (list Z) :=
  match x with Op _ _ os _ _ _ g => os :: walk_regions g end
with walk_regions (g : regions) : list (list Z) :=
  match g with GNil => [] | GCons r t => walk_blocks r ++ walk_regions t end
with walk_blocks (r : blocks) : list (list Z) :=
  match r with BNil => [] | BCons k t => walk_block k ++ walk_blocks t end
with walk_block (k : block) : list (list Z) :=
  match k with Blk _ _ body => walk_ops body end
with walk_ops (l : ops) : list (list Z) :=
  match l with ONil => [] | OCons o t => walk_op o ++ walk_ops t end.

(* Phase 2:  for old, new in zip(<source walk>, <target walk>): new.operands = <mapped old.operands>
   `L` is the (already mapped) list of operand tuples of the source walk; the target walk consumes it
   in pre-order; zip stops at the shorter side: targets beyond the end of L stay as they are, what is
   left of L is returned. *)
Fixpoint sw_op (L : list (list Z)) (y : op) {struct y} : op * list (list Z) :=
  match y with
  | Op i n os rs a ss g =>
      match L with
      | [] => (y, [])
      | os' :: L' => let (g', L'') := sw_regions L' g in (Op i n os' rs a ss g', L'')
      end
  end
with sw_regions (L : list (list Z)) (g : regions) {struct g} : regions * list (list Z) :=
  match g with
  | GNil => (GNil, L)
  | GCons r t =>
      let (r', L1) := sw_blocks L r in let (t', L2) := sw_regions L1 t in (GCons r' t', L2)
  end
with sw_blocks (L : list (list Z)) (r : blocks) {struct r} : blocks * list (list Z) :=
  match r with
  | BNil => (BNil, L)
  | BCons k t =>
      let (k', L1) := sw_block L k in let (t', L2) := sw_blocks L1 t in (BCons k' t', L2)
  end
with sw_block (L : list (list Z)) (k : block) {struct k} : block * list (list Z) :=
  match k with
  | Blk b args body => let (body', L1) := sw_ops L body in (Blk b args body', L1)
  end
with sw_ops (L : list (list Z)) (l : ops) {struct l} : ops * list (list Z) :=
  match l with
  | ONil => (ONil, L)
  | OCons o t =>
      let (o', L1) := sw_op L o in let (t', L2) := sw_ops L1 t in (OCons o' t', L2)
  end.

(* tuple(value_mapper.get(operand, operand) for operand in old.operands), for the whole source walk *)
Definition mapped_walk (m : amap) (w : list (list Z)) : list (list Z) := map (map (get m)) w.

(* ---- Region.insert_block(blocks, index):
          i = -1
          for i, b in enumerate(self.blocks):
              if i == index: self.insert_block_before(blocks, b); return
          if i + 1 == index: self.add_block(blocks)
      None = neither branch taken: the call silently does nothing (index < 0 or index > len) ---- *)
Fixpoint insert_block (i index : Z) (d nb : blocks) : option blocks :=
  match d with
  | BNil => if i =? index then Some nb else None
  | BCons b t =>
      if i =? index then Some (blocks_app nb d)
      else match insert_block (i + 1) index t nb with Some t' => Some (BCons b t') | None => None end
  end.

(* ---- the world ---- *)
Inductive item := IOp (o : op) | IReg (r : blocks) | IBlk (k : block).
Record world := W { items : list item; w_nop : Z; w_nval : Z; w_nblk : Z }.

(* the repairs are switches:
     remap_new_only    (build/proposed_fixes/C02-1.diff) the operand remap of clone_into walks only the
                       NEW blocks instead of the whole destination region
     reject_bad_index  (build/proposed_fixes/C02-2.diff, optional) clone_into raises IndexError for an
                       insert_index outside 0 .. len(dest.blocks) instead of silently detaching the copy *)
Record cfg := Cfg { remap_new_only : bool; reject_bad_index : bool }.
Definition cfg_original : cfg := Cfg false false.
Definition cfg_fixed : cfg := Cfg true false.
Definition cfg_fixed2 : cfg := Cfg true true.
(* THE configuration of /repo's working tree: the only line to edit after the repair is applied *)
Definition cfg_repo : cfg := cfg_fixed2.   (* /repo since fix commits 68bb770 (remap over new blocks only) and 8e81feb (IndexError on out-of-range index) *)

Record result := Res { r_world : world; r_new : option op; r_vm : amap; r_bm : amap }.

Definition st_of (w : world) (vm0 bm0 : amap) : st := St (w_nop w) (w_nval w) (w_nblk w) vm0 bm0.
Definition world_of (its : list item) (s : st) : world := W its (nop s) (nval s) (nblk s).

(* op.clone_without_regions(vm0, bm0, clone_operands=co): the new op is a new detached item *)
Definition clone_without_regions (w : world) (x : op) (vm0 bm0 : amap) (co : bool) : result :=
  let (s1, y) := cwr co (st_of w vm0 bm0) x in
  Res (world_of (items w ++ [IOp y]) s1) (Some y) (vm s1) (bm s1).

(* op.clone(vm0, bm0, clone_operands=co) *)
Definition clone_op (w : world) (x : op) (vm0 bm0 : amap) (co : bool) : result :=
  let (s1, y) := sh_op (st_of w vm0 bm0) x in
  let y' := if co then fst (sw_op (mapped_walk (vm s1) (walk_op x)) y) else y in
  Res (world_of (items w ++ [IOp y']) s1) (Some y') (vm s1) (bm s1).

Fixpoint replace_item (j : nat) (it : item) (l : list item) : list item :=
  match l, j with
  | [], _ => []
  | _ :: t, O => it :: t
  | x :: t, S j' => x :: replace_item j' it t
  end.

Definition orphans (nb : blocks) : list item := map IBlk (blocks_list nb).

(* src.clone_into(dest, insert_index, vm0, bm0, clone_operands=co) where dest is item j of the world
   (None: item j is not a region).  The Python inserts the EMPTY new blocks first and populates them
   afterwards; populating does not read the destination, so the model populates (sh_region) and then
   inserts.  When insert_block does nothing the populated blocks stay detached (new IBlk items).
   Then the operand remap: over dest.walk() (the code as it is) or over the new blocks (repaired). *)
Definition clone_into (c : cfg) (w : world) (src : blocks) (j : nat) (insert_index : option Z)
                      (vm0 bm0 : amap) (co : bool) : option result :=
  match nth_error (items w) j with
  | Some (IReg d) =>
      let index := match insert_index with Some i => i | None => blocks_len d end in
      let (s1, nb) := sh_region (st_of w vm0 bm0) src in
      let L := mapped_walk (vm s1) (walk_blocks src) in
      let nb1 := if co && remap_new_only c then fst (sw_blocks L nb) else nb in
      let remap_dest (d' : blocks) :=
        if co && negb (remap_new_only c) then fst (sw_blocks L d') else d' in
      let its :=
        match insert_block 0 index d nb1 with
        | Some d' => replace_item j (IReg (remap_dest d')) (items w)
        | None => replace_item j (IReg (remap_dest d)) (items w) ++ orphans nb1
        end in
      Some (Res (world_of its s1) None (vm s1) (bm s1))
  | _ => None
  end.

(* the call as seen by the caller *)
Inductive outcome := Done (r : result) | RaiseIndexError | NotARegion.
Definition clone_into_api (c : cfg) (w : world) (src : blocks) (j : nat) (insert_index : option Z)
                          (vm0 bm0 : amap) (co : bool) : outcome :=
  match nth_error (items w) j with
  | Some (IReg d) =>
      let bad := match insert_index with
                 | Some i => (i <? 0) || (blocks_len d <? i)
                 | None => false
                 end in
      if reject_bad_index c && bad then RaiseIndexError      (* before anything is created *)
      else match clone_into c w src j insert_index vm0 bm0 co with Some r => Done r | None => NotARegion end
  | _ => NotARegion
  end.

(* src.clone():  new_region = Region(); self.clone_into(new_region); return new_region
   (the new region is item `length (items w)` of the resulting world) *)
Definition region_clone (c : cfg) (w : world) (src : blocks) : option result :=
  clone_into c (W (items w ++ [IReg BNil]) (w_nop w) (w_nval w) (w_nblk w)) src
             (length (items w)) None [] [] true.

(* ---- derived use lists: the (operation id, operand index) slots holding value v, in walk order;
        the same for the successor slots holding block b ---- *)
Fixpoint slots (v : Z) (o : Z) (i : Z) (l : list Z) : list (Z * Z) :=
  match l with
  | [] => []
  | x :: t => if x =? v then (o, i) :: slots v o (i + 1) t else slots v o (i + 1) t
  end.
Fixpoint uses_op (sel : bool) (v : Z) (x : op) : list (Z * Z) :=
  match x with Op i _ os _ _ ss g => slots v i 0 (if sel then os else ss) ++ uses_regions sel v g end
with uses_regions (sel : bool) (v : Z) (g : regions) : list (Z * Z) :=
  match g with GNil => [] | GCons r t => uses_blocks sel v r ++ uses_regions sel v t end
with uses_blocks (sel : bool) (v : Z) (r : blocks) : list (Z * Z) :=
  match r with BNil => [] | BCons k t => uses_block sel v k ++ uses_blocks sel v t end
with uses_block (sel : bool) (v : Z) (k : block) : list (Z * Z) :=
  match k with Blk _ _ body => uses_ops sel v body end
with uses_ops (sel : bool) (v : Z) (l : ops) : list (Z * Z) :=
  match l with ONil => [] | OCons o t => uses_op sel v o ++ uses_ops sel v t end.
Definition uses_item (sel : bool) (v : Z) (it : item) : list (Z * Z) :=
  match it with IOp o => uses_op sel v o | IReg r => uses_blocks sel v r | IBlk k => uses_block sel v k end.
(* sel = true: uses of value v;  sel = false: uses of block v *)
Definition uses (sel : bool) (v : Z) (its : list item) : list (Z * Z) := flat_map (uses_item sel v) its.

(* ---- representative edits (for the independence statement), addressed by object identity ----
     ESetOperand o i v   op(o).operands[i] = v         (0 <= i < len, else the edit is a no-op here)
     ESetAttrs o a       op(o).attributes/properties changed (payload a)
     EErase o            op(o).detach(); op(o).erase()  (the op and everything nested in it disappears)
     EInsert b i x       block(b).insert_op_before/add_op: x becomes the op at position i (clamped)  *)
Inductive edit :=
  | ESetOperand (o : Z) (i : Z) (v : Z)
  | ESetAttrs (o : Z) (a : Z)
  | EErase (o : Z)
  | EInsert (b : Z) (i : Z) (x : op).

Fixpoint set_nth (i : Z) (v : Z) (l : list Z) : list Z :=
  match l with
  | [] => []
  | x :: t => if i =? 0 then v :: t else x :: set_nth (i - 1) v t
  end.
Fixpoint ins_ops (i : Z) (x : op) (l : ops) : ops :=
  match l with
  | ONil => OCons x ONil
  | OCons o t => if i <=? 0 then OCons x l else OCons o (ins_ops (i - 1) x t)
  end.

Fixpoint ed_op (e : edit) (x : op) {struct x} : op :=
  match x with
  | Op i n os rs a ss g =>
      let os' := match e with ESetOperand o k v => if o =? i then set_nth k v os else os | _ => os end in
      let a' := match e with ESetAttrs o b => if o =? i then b else a | _ => a end in
      Op i n os' rs a' ss (ed_regions e g)
  end
with ed_regions (e : edit) (g : regions) {struct g} : regions :=
  match g with GNil => GNil | GCons r t => GCons (ed_blocks e r) (ed_regions e t) end
with ed_blocks (e : edit) (r : blocks) {struct r} : blocks :=
  match r with BNil => BNil | BCons k t => BCons (ed_block e k) (ed_blocks e t) end
with ed_block (e : edit) (k : block) {struct k} : block :=
  match k with
  | Blk b args body =>
      let body' := ed_ops e body in
      Blk b args (match e with EInsert b' i x => if b' =? b then ins_ops i x body' else body' | _ => body' end)
  end
with ed_ops (e : edit) (l : ops) {struct l} : ops :=
  match l with
  | ONil => ONil
  | OCons o t =>
      match o, e with
      | Op i _ _ _ _ _ _, EErase o' => if o' =? i then ed_ops e t else OCons (ed_op e o) (ed_ops e t)
      | _, _ => OCons (ed_op e o) (ed_ops e t)
      end
  end.
(* a detached top-level op that is erased disappears from the world *)
Definition ed_item (e : edit) (it : item) : list item :=
  match it with
  | IOp (Op i n os rs a ss g as x) =>
      match e with
      | EErase o => if o =? i then [] else [IOp (ed_op e x)]
      | _ => [IOp (ed_op e x)]
      end
  | IReg r => [IReg (ed_blocks e r)]
  | IBlk k => [IBlk (ed_block e k)]
  end.
Definition apply_edit (e : edit) (its : list item) : list item := flat_map (ed_item e) its.
Definition apply_edits (es : list edit) (its : list item) : list item :=
  fold_left (fun acc e => apply_edit e acc) es its.
