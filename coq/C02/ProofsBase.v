(* C02/ProofsBase.v -- the specification vocabulary (definition lists, isomorphism via two id maps,
   scoping of successors) and list-level lemmas about the mapper dicts and the allocators. *)
From Coq Require Import List ZArith Bool Lia.
From XV Require Import C02.Model.
Import ListNotations.
Local Open Scope Z_scope.

Scheme op_mind := Induction for op Sort Prop
with ops_mind := Induction for ops Sort Prop
with block_mind := Induction for block Sort Prop
with blocks_mind := Induction for blocks Sort Prop
with regions_mind := Induction for regions Sort Prop.
Combined Scheme ir_mutind from op_mind, ops_mind, block_mind, blocks_mind, regions_mind.

(* ------------------------------------------------------------------ *)
(* Spec vocabulary *)

(* values defined inside a tree (op results, block arguments), in pre-order *)
Fixpoint dv_op (x : op) : list Z :=
  match x with Op _ _ _ rs _ _ g => map fst rs ++ dv_regions g end
with dv_regions (g : regions) : list Z :=
  match g with GNil => [] | GCons r t => dv_blocks r ++ dv_regions t end
with dv_blocks (r : blocks) : list Z :=
  match r with BNil => [] | BCons k t => dv_block k ++ dv_blocks t end
with dv_block (k : block) : list Z :=
  match k with Blk _ args body => map fst args ++ dv_ops body end
with dv_ops (l : ops) : list Z :=
  match l with ONil => [] | OCons o t => dv_op o ++ dv_ops t end.

Definition bid_of (k : block) : Z := match k with Blk b _ _ => b end.
Fixpoint bids (r : blocks) : list Z := match r with BNil => [] | BCons k t => bid_of k :: bids t end.

(* blocks defined inside a tree: region by region, the blocks of a region before what they contain *)
Fixpoint db_op (x : op) : list Z :=
  match x with Op _ _ _ _ _ _ g => db_regions g end
with db_regions (g : regions) : list Z :=
  match g with GNil => [] | GCons r t => bids r ++ dbi_blocks r ++ db_regions t end
with dbi_blocks (r : blocks) : list Z :=
  match r with BNil => [] | BCons k t => dbi_block k ++ dbi_blocks t end
with dbi_block (k : block) : list Z :=
  match k with Blk _ _ body => db_ops body end
with db_ops (l : ops) : list Z :=
  match l with ONil => [] | OCons o t => db_op o ++ db_ops t end.
(* one region *)
Definition db_region (r : blocks) : list Z := bids r ++ dbi_blocks r.

(* operation ids in walk order *)
Fixpoint ido_op (x : op) : list Z := match x with Op i _ _ _ _ _ g => i :: ido_regions g end
with ido_regions (g : regions) : list Z := match g with GNil => [] | GCons r t => ido_blocks r ++ ido_regions t end
with ido_blocks (r : blocks) : list Z := match r with BNil => [] | BCons k t => ido_block k ++ ido_blocks t end
with ido_block (k : block) : list Z := match k with Blk _ _ body => ido_ops body end
with ido_ops (l : ops) : list Z := match l with ONil => [] | OCons o t => ido_op o ++ ido_ops t end.

(* `y` is `x` with every value id replaced by fv and every block id by fb (operation ids are not
   compared); names, attribute payloads, result/argument payloads (type + name hint) equal.
   co = false: the copy has no operands at all (clone_operands=False). *)
Fixpoint iso_op (co : bool) (fv fb : Z -> Z) (x y : op) {struct x} : Prop :=
  match x, y with
  | Op _ n os rs a ss g, Op _ n' os' rs' a' ss' g' =>
      n' = n /\ a' = a /\ os' = (if co then map fv os else []) /\
      map fst rs' = map fv (map fst rs) /\ map snd rs' = map snd rs /\
      ss' = map fb ss /\ iso_regions co fv fb g g'
  end
with iso_regions (co : bool) (fv fb : Z -> Z) (g g' : regions) {struct g} : Prop :=
  match g, g' with
  | GNil, GNil => True
  | GCons r t, GCons r' t' => iso_blocks co fv fb r r' /\ iso_regions co fv fb t t'
  | _, _ => False
  end
with iso_blocks (co : bool) (fv fb : Z -> Z) (r r' : blocks) {struct r} : Prop :=
  match r, r' with
  | BNil, BNil => True
  | BCons k t, BCons k' t' => iso_block co fv fb k k' /\ iso_blocks co fv fb t t'
  | _, _ => False
  end
with iso_block (co : bool) (fv fb : Z -> Z) (k k' : block) {struct k} : Prop :=
  match k, k' with
  | Blk b args body, Blk b' args' body' =>
      b' = fb b /\ map fst args' = map fv (map fst args) /\ map snd args' = map snd args /\
      iso_ops co fv fb body body'
  end
with iso_ops (co : bool) (fv fb : Z -> Z) (l l' : ops) {struct l} : Prop :=
  match l, l' with
  | ONil, ONil => True
  | OCons o t, OCons o' t' => iso_op co fv fb o o' /\ iso_ops co fv fb t t'
  | _, _ => False
  end.

(* successors are scoped: every successor of an operation is a block of a region that encloses the
   operation (env), or is not defined inside the cloned part (D) at all.  Operation.verify demands
   more (successors are blocks of the operation's own parent region). *)
Fixpoint scoped_op (D env : list Z) (x : op) : Prop :=
  match x with
  | Op _ _ _ _ _ ss g => (forall b, In b ss -> In b env \/ ~ In b D) /\ scoped_regions D env g
  end
with scoped_regions (D env : list Z) (g : regions) : Prop :=
  match g with GNil => True | GCons r t => scoped_blocks D (bids r ++ env) r /\ scoped_regions D env t end
with scoped_blocks (D env : list Z) (r : blocks) : Prop :=
  match r with BNil => True | BCons k t => scoped_block D env k /\ scoped_blocks D env t end
with scoped_block (D env : list Z) (k : block) : Prop :=
  match k with Blk _ _ body => scoped_ops D env body end
with scoped_ops (D env : list Z) (l : ops) : Prop :=
  match l with ONil => True | OCons o t => scoped_op D env o /\ scoped_ops D env t end.

(* ------------------------------------------------------------------ *)
(* consecutive ids *)
Fixpoint zseq (from : Z) (n : nat) : list Z :=
  match n with O => [] | S k => from :: zseq (from + 1) k end.

Lemma zseq_length : forall n b, length (zseq b n) = n.
Proof. induction n; simpl; intros; auto. Qed.

Lemma zseq_app : forall n m b, zseq b (n + m) = zseq b n ++ zseq (b + Z.of_nat n) m.
Proof.
  induction n; intros m b.
  - simpl. f_equal. lia.
  - cbn [Nat.add zseq app]. f_equal. rewrite IHn. f_equal. f_equal. lia.
Qed.

Lemma zseq_In : forall n b v, In v (zseq b n) <-> b <= v < b + Z.of_nat n.
Proof.
  induction n; intros b v; cbn [zseq In].
  - split; [tauto | lia].
  - rewrite IHn. lia.
Qed.

Lemma zseq_NoDup : forall n b, NoDup (zseq b n).
Proof.
  induction n; intros b; cbn [zseq]; constructor; auto.
  rewrite zseq_In. lia.
Qed.

Lemma app_eq_len : forall (a c b d : list Z), length a = length c -> a ++ b = c ++ d -> a = c /\ b = d.
Proof.
  induction a; destruct c; simpl; intros b d Hl H; try discriminate; auto.
  injection H as -> H. destruct (IHa c b d) as [-> ->]; auto.
Qed.

(* splitting a `map f (l1 ++ l2) = zseq b (length (l1 ++ l2))` hypothesis *)
Lemma map_zseq_split : forall (f : Z -> Z) l1 l2 b,
  map f (l1 ++ l2) = zseq b (length (l1 ++ l2)) ->
  map f l1 = zseq b (length l1) /\ map f l2 = zseq (b + Z.of_nat (length l1)) (length l2).
Proof.
  intros f l1 l2 b H. rewrite map_app, app_length, zseq_app in H.
  apply app_eq_len in H; [exact H | now rewrite map_length, zseq_length].
Qed.

Lemma map_zseq_join : forall (f : Z -> Z) l1 l2 b,
  map f l1 = zseq b (length l1) -> map f l2 = zseq (b + Z.of_nat (length l1)) (length l2) ->
  map f (l1 ++ l2) = zseq b (length (l1 ++ l2)).
Proof. intros. rewrite map_app, app_length, zseq_app. congruence. Qed.

Lemma map_eq_pointwise : forall (f g : Z -> Z) l, map f l = map g l -> forall x, In x l -> f x = g x.
Proof.
  induction l; simpl; intros H x Hin; [tauto|]. injection H as H1 H2.
  destruct Hin as [<- | Hin]; auto.
Qed.

(* ------------------------------------------------------------------ *)
(* the mapper dicts *)

(* registering l -> base, base+1, ... one after the other *)
Definition regs (l : list Z) (base : Z) : amap := rev (combine l (zseq base (length l))).

Lemma regs_nil : forall b, regs [] b = [].
Proof. reflexivity. Qed.

Lemma regs_cons : forall a l b, regs (a :: l) b = regs l (b + 1) ++ [(a, b)].
Proof. reflexivity. Qed.

Lemma regs_app : forall l1 l2 b, regs (l1 ++ l2) b = regs l2 (b + Z.of_nat (length l1)) ++ regs l1 b.
Proof.
  induction l1; intros l2 b.
  - simpl. rewrite app_nil_r. f_equal. lia.
  - cbn [app length]. rewrite !regs_cons, IHl1, app_assoc. do 3 f_equal. lia.
Qed.

Lemma lookup_app : forall m1 m2 k,
  lookup (m1 ++ m2) k = match lookup m1 k with Some v => Some v | None => lookup m2 k end.
Proof.
  induction m1 as [|[k' v] m1 IH]; intros m2 k; cbn [app lookup]; auto.
  destruct (k' =? k); auto.
Qed.

Lemma lookup_regs_notin : forall l b k, ~ In k l -> lookup (regs l b) k = None.
Proof.
  induction l; intros b k Hn; [reflexivity|].
  rewrite regs_cons, lookup_app, IHl by (simpl in Hn; tauto).
  cbn [lookup]. destruct (a =? k) eqn:E; auto. apply Z.eqb_eq in E. simpl in Hn. tauto.
Qed.

Lemma get_regs_notin : forall l b m k, ~ In k l -> get (regs l b ++ m) k = get m k.
Proof. intros. unfold get. now rewrite lookup_app, lookup_regs_notin. Qed.

Lemma get_regs_map : forall l b m, NoDup l -> map (get (regs l b ++ m)) l = zseq b (length l).
Proof.
  induction l; intros b m Hnd; [reflexivity|].
  inversion Hnd as [|? ? Hn Hnd']; subst.
  cbn [map length zseq]. rewrite regs_cons, <- app_assoc. f_equal.
  - rewrite get_regs_notin by assumption. unfold get. cbn [app lookup]. now rewrite Z.eqb_refl.
  - apply IHl; assumption.
Qed.

(* ------------------------------------------------------------------ *)
(* the allocators *)

Lemma alloc_vals_spec : forall vs nv m,
  alloc_vals nv m vs =
  (nv + Z.of_nat (length vs), regs (map fst vs) nv ++ m, combine (zseq nv (length vs)) (map snd vs)).
Proof.
  induction vs as [|[v t] vs IH]; intros nv m.
  - simpl. now rewrite Z.add_0_r.
  - cbn [alloc_vals]. rewrite IH. cbn [map fst snd length zseq combine].
    rewrite regs_cons, <- app_assoc. cbn [app].
    replace (nv + Z.of_nat (S (length vs))) with (nv + 1 + Z.of_nat (length vs)) by lia. reflexivity.
Qed.

Lemma combine_fst : forall (l : list Z) (l' : list Z), length l = length l' -> map fst (combine l l') = l.
Proof. induction l; destruct l'; simpl; intros; try discriminate; auto. f_equal. auto. Qed.
Lemma combine_snd : forall (l : list Z) (l' : list Z), length l = length l' -> map snd (combine l l') = l'.
Proof. induction l; destruct l'; simpl; intros; try discriminate; auto. f_equal. auto. Qed.

Lemma alloc_blks_spec : forall r nb m,
  alloc_blks nb m r = (nb + Z.of_nat (length (bids r)), regs (bids r) nb ++ m, zseq nb (length (bids r))).
Proof.
  induction r as [|k r IH]; intros nb m.
  - simpl. now rewrite Z.add_0_r.
  - destruct k as [b args body]. cbn [alloc_blks]. rewrite IH. cbn [bids bid_of length zseq].
    rewrite regs_cons, <- app_assoc. cbn [app].
    replace (nb + Z.of_nat (S (length (bids r)))) with (nb + 1 + Z.of_nat (length (bids r))) by lia. reflexivity.
Qed.

Lemma blocks_len_bids : forall r, blocks_len r = Z.of_nat (length (bids r)).
Proof. induction r; cbn [blocks_len bids length]; lia. Qed.

(* ------------------------------------------------------------------ *)
(* NoDup / incl helpers *)
Lemma NoDup_app_l : forall (l1 l2 : list Z), NoDup (l1 ++ l2) -> NoDup l1.
Proof. induction l1; simpl; intros l2 H; [constructor|]. inversion H; subst. constructor; eauto. rewrite in_app_iff in *. tauto. Qed.
Lemma NoDup_app_r : forall (l1 l2 : list Z), NoDup (l1 ++ l2) -> NoDup l2.
Proof. induction l1; simpl; intros l2 H; auto. inversion H; eauto. Qed.
Lemma NoDup_app_disj : forall (l1 l2 : list Z) x, NoDup (l1 ++ l2) -> In x l1 -> ~ In x l2.
Proof.
  induction l1; simpl; intros l2 x H Hin; [tauto|]. inversion H; subst.
  destruct Hin as [<- | Hin]; [rewrite in_app_iff in *; tauto | eauto].
Qed.
