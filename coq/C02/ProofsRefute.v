(* C02/ProofsRefute.v -- witnesses (evaluated by vm_compute): the refutations of the full statement for
   the code as it is, and non-vacuity of the hypotheses of the positive theorems. *)
From Coq Require Import List ZArith Bool Lia.
From XV Require Import C02.Model C02.ProofsBase C02.ProofsShape C02.ProofsIso C02.ProofsWalk C02.Proofs C02.ProofsFrame.
Import ListNotations.
Local Open Scope Z_scope.

Ltac nodup := repeat constructor; cbn; intuition (try discriminate; try lia).

(* ------------------------------------------------------------------ *)
(* W1: the confirmed defect.  Outer values 1, 2.  Source region: one block (arg 3) with
     %4 = op(%3, %1) ; op(%4).   Destination: one block with  %5 = op(%2).
   src.clone_into(dest, 1)  (the same for insert_index=None: both mean `at the end`). *)
Definition w1_outer : op := Op 1 1 [] [(1, 0); (2, 0)] 0 [] GNil.
Definition w1_src : blocks :=
  BCons (Blk 1 [(3, 0)] (OCons (Op 2 1 [3; 1] [(4, 0)] 0 [] GNil) (OCons (Op 3 1 [4] [] 0 [] GNil) ONil))) BNil.
Definition w1_dest : blocks :=
  BCons (Blk 2 [] (OCons (Op 4 1 [2] [(5, 0)] 0 [] GNil) ONil)) BNil.
Definition w1 : world := W [IOp w1_outer; IReg w1_src; IReg w1_dest] 5 6 3.

Lemma w1_wf : wf w1.
Proof. unfold wf, w1. cbn. repeat constructor; cbn; intros; intuition lia. Qed.

Lemma w1_hyps :
  nth_error (items w1) 2 = Some (IReg w1_dest) /\ NoDup (dv_blocks w1_src) /\ NoDup (db_region w1_src) /\
  scoped_region w1_src /\ 0 <= resolve_index (Some 1) w1_dest <= blocks_len w1_dest /\
  resolve_index None w1_dest = 1.
Proof.
  split; [reflexivity|]. split; [nodup|]. split; [nodup|]. split; [|split; [cbn; lia | reflexivity]].
  unfold scoped_region. cbn. intuition.
Qed.

(* what the code as it is produces: the PRE-EXISTING user (op 4) now has the operands meant for the
   first cloned op (the copy's block argument 6 and the outside value 1); the first cloned op (5) got
   the operands of the second source op; the second cloned op (6) has none *)
Example w1_original_result :
  option_map (fun r => nth_error (items (r_world r)) 2) (clone_into cfg_original w1 w1_src 2 (Some 1) [] [] true) =
  Some (Some (IReg
    (BCons (Blk 2 [] (OCons (Op 4 1 [6; 1] [(5, 0)] 0 [] GNil) ONil))
    (BCons (Blk 3 [(6, 0)] (OCons (Op 5 1 [7] [(7, 0)] 0 [] GNil) (OCons (Op 6 1 [] [] 0 [] GNil) ONil))) BNil)))).
Proof. vm_compute. reflexivity. Qed.

(* the repaired remap on the same input *)
Example w1_fixed_result :
  option_map (fun r => nth_error (items (r_world r)) 2) (clone_into cfg_fixed w1 w1_src 2 (Some 1) [] [] true) =
  Some (Some (IReg
    (BCons (Blk 2 [] (OCons (Op 4 1 [2] [(5, 0)] 0 [] GNil) ONil))
    (BCons (Blk 3 [(6, 0)] (OCons (Op 5 1 [6; 1] [(7, 0)] 0 [] GNil) (OCons (Op 6 1 [7] [] 0 [] GNil) ONil))) BNil)))).
Proof. vm_compute. reflexivity. Qed.

Theorem clone_into_refuted :
  exists w src j d idx,
    wf w /\ nth_error (items w) j = Some (IReg d) /\ NoDup (dv_blocks src) /\ NoDup (db_region src) /\
    scoped_region src /\ 0 <= resolve_index idx d <= blocks_len d /\
    exists r, clone_into cfg_original w src j idx [] [] true = Some r /\
              ~ into_ok w src j d (resolve_index idx d) [] [] true r.
Proof.
  exists w1, w1_src, 2%nat, w1_dest, (Some 1).
  destruct w1_hyps as (H1 & H2 & H3 & H4 & H5 & _).
  split; [exact w1_wf|]. repeat (split; [assumption|]).
  eexists. split; [vm_compute; reflexivity|].
  intros (nb & Hi & _). vm_compute in Hi. discriminate Hi.
Qed.

(* the default call (insert_index=None) on the same non-empty destination fails in the same way *)
Theorem clone_into_default_index_refuted :
  exists r, clone_into cfg_original w1 w1_src 2 None [] [] true = Some r /\
            ~ into_ok w1 w1_src 2 w1_dest (resolve_index None w1_dest) [] [] true r.
Proof.
  eexists. split; [vm_compute; reflexivity|].
  intros (nb & Hi & _). vm_compute in Hi. discriminate Hi.
Qed.

(* the hypothesis of the partial theorem is satisfiable with a NON-EMPTY destination: index 0 *)
Example w1_index0 :
  walk_blocks (bfirstn (Z.to_nat (resolve_index (Some 0) w1_dest)) w1_dest) = [] /\
  option_map (fun r => nth_error (items (r_world r)) 2) (clone_into cfg_original w1 w1_src 2 (Some 0) [] [] true) =
  Some (Some (IReg
    (BCons (Blk 3 [(6, 0)] (OCons (Op 5 1 [6; 1] [(7, 0)] 0 [] GNil) (OCons (Op 6 1 [7] [] 0 [] GNil) ONil)))
    (BCons (Blk 2 [] (OCons (Op 4 1 [2] [(5, 0)] 0 [] GNil) ONil)) BNil)))).
Proof. split; vm_compute; reflexivity. Qed.

(* out-of-range index (3 for a destination with one block): nothing is attached; with the code as it is
   the pre-existing user is still rewritten *)
Example w1_out_of_range :
  option_map (fun r => items (r_world r)) (clone_into cfg_original w1 w1_src 2 (Some 3) [] [] true) =
  Some [IOp w1_outer; IReg w1_src;
        IReg (BCons (Blk 2 [] (OCons (Op 4 1 [6; 1] [(5, 0)] 0 [] GNil) ONil)) BNil);
        IBlk (Blk 3 [(6, 0)] (OCons (Op 5 1 [] [(7, 0)] 0 [] GNil) (OCons (Op 6 1 [] [] 0 [] GNil) ONil)))].
Proof. vm_compute. reflexivity. Qed.

(* ------------------------------------------------------------------ *)
(* W2: clone_without_regions of an operation that uses its own result (graph region): the copy uses
   the SOURCE's result *)
Definition w2_op : op := Op 1 1 [1] [(1, 0)] 0 [] GNil.
Definition w2 : world := W [IOp w2_op] 2 2 1.
Theorem cwr_self_use_refuted :
  r_new (clone_without_regions w2 w2_op [] [] true) = Some (Op 2 1 [1] [(2, 0)] 0 [] GNil) /\
  uses true 1 (items (r_world (clone_without_regions w2 w2_op [] [] true))) = [(1, 0); (2, 0)] /\
  r_new (clone_op w2 w2_op [] [] true) = Some (Op 2 1 [2] [(2, 0)] 0 [] GNil).
Proof. repeat split; vm_compute; reflexivity. Qed.

(* ------------------------------------------------------------------ *)
(* W3: a successor into a region that is cloned LATER (IR rejected by Operation.verify: branch to a
   block of a different region): the copy still branches to the source's block 3 *)
Definition w3_op : op :=
  Op 1 1 [] [] 0 []
     (GCons (BCons (Blk 1 [] (OCons (Op 2 2 [] [] 0 [3] GNil) ONil))
            (BCons (Blk 2 [] (OCons (Op 3 1 [] [] 0 [] (GCons (BCons (Blk 3 [] ONil) BNil) GNil)) ONil)) BNil))
            GNil).
Definition w3 : world := W [IOp w3_op] 4 1 4.
Theorem clone_unscoped_successor_refuted :
  NoDup (dv_op w3_op) /\ NoDup (db_op w3_op) /\ ~ scoped_op (db_op w3_op) [] w3_op /\
  forall y, r_new (clone_op w3 w3_op [] [] true) = Some y ->
    ~ iso_op true (get (r_vm (clone_op w3 w3_op [] [] true))) (get (r_bm (clone_op w3 w3_op [] [] true))) w3_op y.
Proof.
  split; [nodup|]. split; [nodup|]. split.
  - cbn. intros H. decompose [and] H.
    match goal with Hx : forall b, 3 = b \/ False -> _ |- _ => destruct (Hx 3 (or_introl eq_refl)) as [Hin | Hn] end.
    + intuition discriminate.
    + apply Hn. intuition.
  - intros y Hy. vm_compute in Hy. injection Hy as <-. vm_compute. intuition discriminate.
Qed.

(* ------------------------------------------------------------------ *)
(* W4: non-vacuity of the positive theorems: a graph region with use-before-def, a value and a block
   of the enclosing IR, a nested multi-block region with a backward branch, a self use *)
Definition w4_op : op :=
  Op 10 1 [90] [(1, 0)] 3 [70]
     (GCons (BCons (Blk 1 [(2, 1)]
                      (OCons (Op 11 1 [4; 2; 90] [(3, 0)] 0 [] GNil)            (* uses %4 before its definition *)
                      (OCons (Op 12 3 [3; 4] [(4, 2)] 1 []
                                 (GCons (BCons (Blk 2 [] (OCons (Op 13 2 [1; 4] [] 0 [3; 1] GNil) ONil))
                                        (BCons (Blk 3 [(5, 0)] (OCons (Op 14 2 [5] [] 0 [2; 70] GNil) ONil)) BNil)) GNil))
                      ONil)))
            BNil) GNil).
Definition w4 : world := W [IOp (Op 9 1 [] [(90, 0)] 0 [] GNil); IBlk (Blk 70 [] ONil); IOp w4_op] 15 91 71.

Lemma w4_hyps : wf w4 /\ NoDup (dv_op w4_op) /\ NoDup (db_op w4_op) /\ scoped_op (db_op w4_op) [] w4_op.
Proof.
  split; [unfold wf, w4; cbn; repeat constructor; cbn; intros; intuition lia|].
  split; [nodup|]. split; [nodup|].
  cbn. intuition (subst; try tauto; try (right; intuition discriminate)).
Qed.

Example w4_clone :
  r_new (clone_op w4 w4_op [] [] true) =
  Some (Op 15 1 [90] [(91, 0)] 3 [70]
     (GCons (BCons (Blk 71 [(92, 1)]
                      (OCons (Op 16 1 [94; 92; 90] [(93, 0)] 0 [] GNil)
                      (OCons (Op 17 3 [93; 94] [(94, 2)] 1 []
                                 (GCons (BCons (Blk 72 [] (OCons (Op 18 2 [91; 94] [] 0 [73; 71] GNil) ONil))
                                        (BCons (Blk 73 [(95, 0)] (OCons (Op 19 2 [95] [] 0 [72; 70] GNil) ONil)) BNil)) GNil))
                      ONil)))
            BNil) GNil)).
Proof. vm_compute. reflexivity. Qed.
