(* C14/ModelCSE.v -- executable model of xdsl/transforms/common_subexpression_elimination.py
   (CSEDriver, KnownOps, OperationInfo, has_other_side_effecting_op_in_between,
   _replace_and_delete, _commit_erasures).  Definitions only, no proofs.

   IR fragment: one region whose blocks are straight-line op lists; ops may carry nested
   regions; a nested region is empty, a single block (walked by CSE), or multi-block
   (never walked: `_simplify_region` only handles len(blocks) = 1; modelled as opaque,
   carrying only the outer values it captures).  SSA values are numbers (`vid`).

   Python                                   model
   ------                                   -----
   op.name/attributes/properties/result     one number `k` (the harness interns the tuple);
     types (OperationInfo minus operands       the memory-effect traits of the op class are a
     and regions)                              function of the name, hence of k: `eff_of k`
   op.operands                              `args`
   op.results                               `res`
   in-place `replace_all_uses_with`         substitution `sg` applied to every later use
   `_mark_erasure` (deferred erase)         flag `mark` on the op; `commit` erases at the end
   KnownOps dict OperationInfo -> Operation association list of `entry`; the dict keeps the
                                              FIRST key object on overwrite: so does `kset`
   `KnownOps(self._known_ops)` scope copy   the list is passed down and dropped on return
   op.parent_block() is existing.parent...  entry flag `e_local` (cleared when a nested block
                                              is entered)
   has_other_side_effecting_op_in_between   `existsb may_write (skipn e_pos prefix)` where
                                              `prefix` = ops of the current block visited so far
   is_structurally_equivalent on regions    parameter `req` (the comparison sees the regions
                                              as they are at that moment: simplified, erasures
                                              not yet committed -- so does the model)
   result.first_use is None                 no op of the whole program mentions the value
                                              (`used` is computed once from the input: uses of a
                                              not-yet-visited op are never rewritten)
   ValueError of Rewriter.erase_op          `commit` returns None

   Assumption (SSA dominance, checked by `wf_region`): an op is visited before its users, so
   the `wasVisited` filter of `_replace_and_delete` (a user of the current op that is
   structurally equal to an already visited op) never fires and every use is replaced. *)
From Coq Require Import List Arith Bool.
Import ListNotations.

Definition vid := nat.

Inductive eff := EPure | ERead | EWrite | ERec | EUnk.
(* EPure = NoMemoryEffect/Pure, ERead = MemoryReadEffect, EWrite = MemoryWriteEffect,
   ERec = RecursiveMemoryEffect, EUnk = no MemoryEffect trait (get_effects -> None) *)

(* get_effects: None = unknown, Some (reads, writes) *)
Definition effs := option (bool * bool).
Definition join (a b : effs) : effs :=
  match a, b with
  | Some (r1, w1), Some (r2, w2) => Some (r1 || r2, w1 || w2)
  | _, _ => None
  end.

Inductive op : Type :=
| Op (k : nat) (mark term iso : bool) (args res : list vid) (regs : regions)
with regions : Type :=
| RNil
| RCons (r : region) (rs : regions)
with region : Type :=
| REmpty
| RSingle (bargs : list vid) (body : ops)
| RMulti (tag : nat) (caps : list vid)
with ops : Type :=
| ONil
| OCons (o : op) (os : ops).

Definition op_res (o : op) : list vid := match o with Op _ _ _ _ _ res _ => res end.
Definition op_mark (o : op) : bool := match o with Op _ mk _ _ _ _ _ => mk end.
Definition set_mark (o : op) : op :=
  match o with Op k _ t i a r rg => Op k true t i a r rg end.

Fixpoint memb (x : vid) (l : list vid) : bool :=
  match l with [] => false | y :: r => Nat.eqb x y || memb x r end.
Definition disjointb (a b : list vid) : bool := forallb (fun x => negb (memb x b)) a.
Fixpoint nodupb (l : list vid) : bool :=
  match l with [] => true | x :: r => negb (memb x r) && nodupb r end.
Fixpoint list_eqb (a b : list vid) : bool :=
  match a, b with
  | [], [] => true
  | x :: a', y :: b' => Nat.eqb x y && list_eqb a' b'
  | _, _ => false
  end.

(* substitution built by replace_all_uses_with: first binding wins; identity elsewhere *)
Definition subst := list (vid * vid).
Fixpoint sapp (sg : subst) (v : vid) : vid :=
  match sg with [] => v | (x, y) :: r => if Nat.eqb v x then y else sapp r v end.
Fixpoint sadd (sg : subst) (from to : list vid) : subst :=
  match from, to with
  | x :: f, y :: t => (x, y) :: sadd sg f t
  | _, _ => sg
  end.

(* every value mentioned as an operand anywhere (deep) *)
Fixpoint ment_op (o : op) : list vid :=
  match o with Op _ _ _ _ args _ regs => args ++ ment_regions regs end
with ment_regions (rs : regions) : list vid :=
  match rs with RNil => [] | RCons r rs' => ment_region r ++ ment_regions rs' end
with ment_region (r : region) : list vid :=
  match r with REmpty => [] | RSingle _ b => ment_ops b | RMulti _ caps => caps end
with ment_ops (os : ops) : list vid :=
  match os with ONil => [] | OCons o os' => ment_op o ++ ment_ops os' end.

Fixpoint has_multi (rs : regions) : bool :=
  match rs with
  | RNil => false
  | RCons (RMulti _ _) _ => true
  | RCons _ rs' => has_multi rs'
  end.

Section CSE.
  Variable eff_of : nat -> eff.          (* memory-effect traits of the op class *)
  Variable meff_of : nat -> effs.        (* summarised effects of an opaque multi-block region *)
  Variable req : regions -> regions -> bool.   (* zip-wise Region.is_structurally_equivalent *)

  (* traits.get_effects, RecursiveMemoryEffect.get_effects *)
  Fixpoint eff_op (o : op) : effs :=
    match o with
    | Op k _ _ _ _ _ regs =>
        match eff_of k with
        | EPure => Some (false, false)
        | ERead => Some (true, false)
        | EWrite => Some (false, true)
        | EUnk => None
        | ERec => eff_regions regs
        end
    end
  with eff_regions (rs : regions) : effs :=
    match rs with RNil => Some (false, false) | RCons r rs' => join (eff_region r) (eff_regions rs') end
  with eff_region (r : region) : effs :=
    match r with
    | REmpty => Some (false, false)
    | RSingle _ b => eff_ops b
    | RMulti t _ => meff_of t
    end
  with eff_ops (os : ops) : effs :=
    match os with ONil => Some (false, false) | OCons o os' => join (eff_op o) (eff_ops os') end.

  (* `effects is None or any(e.kind is WRITE)` *)
  Definition may_write (o : op) : bool :=
    match eff_op o with Some (_, false) => false | _ => true end.
  (* result_only_effects / only_has_effect(READ): effects known and all of kind READ *)
  Definition no_write (e : effs) : bool :=
    match e with Some (_, false) => true | _ => false end.

  Record entry := mkEntry {
    e_k : nat; e_args : list vid; e_regs : regions;      (* the dict key: OperationInfo of the FIRST op *)
    e_res : list vid; e_local : bool; e_pos : nat        (* the dict value: the op, its block, its position *)
  }.
  Definition info_eq (e : entry) (k : nat) (args : list vid) (regs : regions) : bool :=
    Nat.eqb (e_k e) k && list_eqb (e_args e) args && req (e_regs e) regs.
  Definition kget (kn : list entry) (k : nat) (args : list vid) (regs : regions) : option entry :=
    find (fun e => info_eq e k args regs) kn.
  Fixpoint kset (kn : list entry) (k : nat) (args : list vid) (regs : regions)
                (res : list vid) (pos : nat) : list entry :=
    match kn with
    | [] => [mkEntry k args regs res true pos]
    | e :: r =>
        if info_eq e k args regs
        then mkEntry (e_k e) (e_args e) (e_regs e) res true pos :: r
        else e :: kset r k args regs res pos
    end.
  Definition unlocal (e : entry) : entry :=
    mkEntry (e_k e) (e_args e) (e_regs e) (e_res e) false (e_pos e).

  (* _simplify_block / _simplify_operation / _simplify_region.
     `used`   : all values mentioned in the input program
     `kn`     : KnownOps in scope, `sg` : replacements done so far,
     `prefix` : ops of the current block already visited (in order). *)
  Fixpoint cse_op (used : list vid) (kn : list entry) (sg : subst) (prefix : list op) (o : op)
      : op * list entry * subst :=
    match o with
    | Op k mk term iso args res regs =>
        let regs' := cse_regions used (if iso then [] else kn) sg regs in
        let args' := map (sapp sg) args in
        let o' := Op k mk term iso args' res regs' in
        if term then (o', kn, sg)
        else if disjointb res used && no_write (eff_op o') then (set_mark o', kn, sg)
        else if has_multi regs' then (o', kn, sg)
        else
          match eff_op o' with
          | Some (false, false) =>
              match kget kn k args' regs' with
              | Some e => (set_mark o', kn, sadd sg res (e_res e))
              | None => (o', kset kn k args' regs' res (length prefix), sg)
              end
          | Some (_, false) =>
              match kget kn k args' regs' with
              | Some e =>
                  if e_local e && negb (existsb may_write (skipn (e_pos e) prefix))
                  then (set_mark o', kn, sadd sg res (e_res e))
                  else (o', kset kn k args' regs' res (length prefix), sg)
              | None => (o', kset kn k args' regs' res (length prefix), sg)
              end
          | _ => (o', kn, sg)
          end
    end
  with cse_regions (used : list vid) (kn : list entry) (sg : subst) (rs : regions) : regions :=
    match rs with
    | RNil => RNil
    | RCons r rs' => RCons (cse_region used kn sg r) (cse_regions used kn sg rs')
    end
  with cse_region (used : list vid) (kn : list entry) (sg : subst) (r : region) : region :=
    match r with
    | REmpty => REmpty
    | RSingle bargs body => RSingle bargs (cse_ops used (map unlocal kn) sg [] body)
    | RMulti t caps => RMulti t (map (sapp sg) caps)
    end
  with cse_ops (used : list vid) (kn : list entry) (sg : subst) (prefix : list op) (os : ops) : ops :=
    match os with
    | ONil => ONil
    | OCons o os' =>
        let '(o', kn', sg') := cse_op used kn sg prefix o in
        OCons o' (cse_ops used kn' sg' (prefix ++ [o']) os')
    end.

  (* CSEDriver.simplify(region) before _commit_erasures *)
  Definition cse_mark (r : region) : region := cse_region (ment_region r) [] [] r.

  (* results of all ops marked for erasure (deep) *)
  Fixpoint marked_op (o : op) : list vid :=
    match o with
    | Op _ mk _ _ _ res regs => (if mk then res else []) ++ marked_regions regs
    end
  with marked_regions (rs : regions) : list vid :=
    match rs with RNil => [] | RCons r rs' => marked_region r ++ marked_regions rs' end
  with marked_region (r : region) : list vid :=
    match r with REmpty => [] | RSingle _ b => marked_ops b | RMulti _ _ => [] end
  with marked_ops (os : ops) : list vid :=
    match os with ONil => [] | OCons o os' => marked_op o ++ marked_ops os' end.

  Fixpoint erase_op (o : op) : op :=
    match o with Op k mk t i a r regs => Op k mk t i a r (erase_regions regs) end
  with erase_regions (rs : regions) : regions :=
    match rs with RNil => RNil | RCons r rs' => RCons (erase_region r) (erase_regions rs') end
  with erase_region (r : region) : region :=
    match r with
    | REmpty => REmpty
    | RSingle ba b => RSingle ba (erase_ops b)
    | RMulti t c => RMulti t c
    end
  with erase_ops (os : ops) : ops :=
    match os with
    | ONil => ONil
    | OCons o os' => if op_mark o then erase_ops os' else OCons (erase_op o) (erase_ops os')
    end.

  (* _commit_erasures: Rewriter.erase_op(o) raises ValueError when a result of o still has a use *)
  Definition commit (q : region) : option region :=
    if disjointb (marked_region q) (ment_region q) then Some (erase_region q) else None.

  Definition cse (r : region) : option region := commit (cse_mark r).

  (* SSA well-formedness for this fragment: every operand is in scope (defined earlier in the
     same block or in an enclosing one, or a block argument / free value), every value is defined
     once.  `sc` = values in scope, `al` = all values defined so far anywhere. Result: al'. *)
  Fixpoint wf_op (sc al : list vid) (o : op) : option (list vid) :=
    match o with
    | Op _ _ _ _ args res regs =>
        if forallb (fun a => memb a sc) args then
          match wf_regions sc al regs with
          | Some al1 => if nodupb res && disjointb res al1 then Some (res ++ al1) else None
          | None => None
          end
        else None
    end
  with wf_regions (sc al : list vid) (rs : regions) : option (list vid) :=
    match rs with
    | RNil => Some al
    | RCons r rs' =>
        match wf_region sc al r with Some al1 => wf_regions sc al1 rs' | None => None end
    end
  with wf_region (sc al : list vid) (r : region) : option (list vid) :=
    match r with
    | REmpty => Some al
    | RSingle bargs body =>
        if nodupb bargs && disjointb bargs al then wf_ops (bargs ++ sc) (bargs ++ al) body else None
    | RMulti _ caps => if forallb (fun a => memb a sc) caps then Some al else None
    end
  with wf_ops (sc al : list vid) (os : ops) : option (list vid) :=
    match os with
    | ONil => Some al
    | OCons o os' =>
        match wf_op sc al o with
        | Some al1 => wf_ops (op_res o ++ sc) al1 os'
        | None => None
        end
    end.

  (* no op is marked in the input *)
  Fixpoint unmarked_op (o : op) : bool :=
    match o with Op _ mk _ _ _ _ regs => negb mk && unmarked_regions regs end
  with unmarked_regions (rs : regions) : bool :=
    match rs with RNil => true | RCons r rs' => unmarked_region r && unmarked_regions rs' end
  with unmarked_region (r : region) : bool :=
    match r with REmpty => true | RSingle _ b => unmarked_ops b | RMulti _ _ => true end
  with unmarked_ops (os : ops) : bool :=
    match os with ONil => true | OCons o os' => unmarked_op o && unmarked_ops os' end.

  Definition wf_program (free : list vid) (r : region) : bool :=
    match wf_region free free r with Some _ => unmarked_region r | None => false end.
End CSE.
