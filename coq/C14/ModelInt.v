(* C14/ModelInt.v -- hand-written executable model of what the folding PASSES other than
   canonicalize do to one integer operation whose operands are constants.  Definitions only.

   constant-fold-interp (xdsl/transforms/constant_fold_interp.py, ConstantFoldInterpPattern):
     not Pure -> return;  operands not all ConstantLike -> return;
     args = interpreter.run_op(constant) = value.data;  results = interpreter.run_op(op, args)
     -- current code (commit af5e19c): InterpretationError, AssertionError, ArithmeticError, MemoryError
        are caught -> the op is left in place; before, only InterpretationError was caught and an
        `assert` of the interpreter function escaped (`cfi_binop_old`);
     convert_to_attr: `int(), IntegerType()` -> IntegerAttr(value, type) whose constructor VERIFIES
     the value; current code catches (VerifyException, ValueError) -> None -> return (before, the
     exception escaped: `checked_attr_old`); an index-typed result -> None -> return.
   The interpreter functions are xdsl/interpreters/arith.py run_* (statement by statement).

   test-constant-folding (TestConstantFoldingIntegerAdditionPattern): only arith.addi;
     `op.operands[i].op` (AttributeError on a block argument), `assert has_trait(ConstantLike)`,
     IntegerAttr(lhs + rhs, type) WITHOUT truncation.
   test-specialised-constant-folding: the same asserts; builds the IntegerAttr with
     object.__setattr__, i.e. neither normalised nor verified.

   Exception codes are those of harness/common.py EXC. *)
From Coq Require Import ZArith Bool.
From XV Require Import C14.Pre Gen.C14_Arith.
Local Open Scope Z_scope.

Definition EXC_Verify : Z := 2.
Definition EXC_Assertion : Z := 6.
Definition EXC_Other : Z := 10.     (* AttributeError *)

Inductive pass_result :=
| Folded (v : Z)      (* op replaced by arith.constant with this stored value *)
| Unchanged           (* op left in place *)
| Raised (e : Z).     (* the pass aborted with this exception *)

(* comparisons.to_signed *)
Definition to_signed (signless bitwidth : Z) : Z :=
  let modulus := unsigned_upper_bound bitwidth in
  let half_modulus := Z.shiftr modulus 1 in
  (signless + half_modulus) mod modulus - half_modulus.

Inductive interp_result := IOk (v : Z) | IAssert | INoImpl.

(* ArithFunctions.run_* on two Python ints; w = _int_bitwidth of the result type *)
Definition trunc_div_py (lhs rhs : Z) : Z :=
  let div := Z.abs lhs / Z.abs rhs in
  if negb (Bool.eqb (lhs >? 0) (rhs >? 0)) then - div else div.

(* BEFORE the C15 interpreter fixes 4351108 / 6674019 / 2cae97b (kept for the recorded refutations):
   shli unwrapped, shrsi / divsi / remsi / floordivsi on the raw Python ints *)
Definition interp_run_old (o : binop) (w lhs rhs : Z) : interp_result :=
  if negb (interp_impl o) then INoImpl else
  match o with
  | AddiOp => IOk (to_signed (to_signed lhs w + to_signed rhs w) w)
  | SubiOp => IOk (to_signed (to_signed lhs w - to_signed rhs w) w)
  | MuliOp => IOk (to_signed (to_signed lhs w * to_signed rhs w) w)
  | AndIOp => IOk (to_signed (Z.land (to_signed lhs w) (to_signed rhs w)) w)
  | OrIOp => IOk (to_signed (Z.lor (to_signed lhs w) (to_signed rhs w)) w)
  | XOrIOp => IOk (to_signed (Z.lxor (to_signed lhs w) (to_signed rhs w)) w)
  | ShLIOp => if rhs >=? 0 then IOk (Z.shiftl lhs rhs) else IAssert
  | ShRSIOp => if rhs >=? 0 then IOk (Z.shiftr lhs rhs) else IAssert
  | DivSIOp => if negb (rhs =? 0) then IOk (trunc_div_py lhs rhs) else IAssert
  | RemSIOp => if negb (rhs =? 0) then IOk (lhs - trunc_div_py lhs rhs * rhs) else IAssert
  | FloorDivSIOp => if negb (rhs =? 0) then IOk (lhs / rhs) else IAssert
  | _ => INoImpl
  end.


(* current interpreter: shli wraps with to_signed; shrsi normalises lhs; divsi/remsi/floordivsi normalise
   both operands BEFORE the `assert rhs != 0` *)
Definition interp_run (o : binop) (w lhs rhs : Z) : interp_result :=
  if negb (interp_impl o) then INoImpl else
  match o with
  | AddiOp => IOk (to_signed (to_signed lhs w + to_signed rhs w) w)
  | SubiOp => IOk (to_signed (to_signed lhs w - to_signed rhs w) w)
  | MuliOp => IOk (to_signed (to_signed lhs w * to_signed rhs w) w)
  | AndIOp => IOk (to_signed (Z.land (to_signed lhs w) (to_signed rhs w)) w)
  | OrIOp => IOk (to_signed (Z.lor (to_signed lhs w) (to_signed rhs w)) w)
  | XOrIOp => IOk (to_signed (Z.lxor (to_signed lhs w) (to_signed rhs w)) w)
  | ShLIOp => if rhs >=? 0 then IOk (to_signed (Z.shiftl lhs rhs) w) else IAssert
  | ShRSIOp => if rhs >=? 0 then IOk (Z.shiftr (to_signed lhs w) rhs) else IAssert
  | DivSIOp =>
      let l := to_signed lhs w in let r := to_signed rhs w in
      if negb (r =? 0) then IOk (trunc_div_py l r) else IAssert
  | RemSIOp =>
      let l := to_signed lhs w in let r := to_signed rhs w in
      if negb (r =? 0) then IOk (l - trunc_div_py l r * r) else IAssert
  | FloorDivSIOp =>
      let l := to_signed lhs w in let r := to_signed rhs w in
      if negb (r =? 0) then IOk (l / r) else IAssert
  | _ => INoImpl
  end.

(* IntegerType.verify_value for a signless type *)
Definition in_signless_range (w v : Z) : bool :=
  let '(lo, hi) := signless_value_range w in (lo <=? v) && (v <? hi).

(* BEFORE commit af5e19c (kept for the recorded refutations): IntegerAttr(v, ty) as built by
   convert_to_attr: normalise, then the constructor verifies and the VerifyException escaped *)
Definition checked_attr_old (ty : ity) (v : Z) : pass_result :=
  match ty with
  | TIndex => Unchanged                       (* convert_to_attr matches IntegerType only *)
  | TInt w => if in_signless_range w v then Folded (int_attr ty v false) else Raised EXC_Verify
  end.
(* current code: convert_to_attr catches (VerifyException, ValueError) -> None -> the op is left in place *)
Definition checked_attr (ty : ity) (v : Z) : pass_result :=
  match ty with
  | TIndex => Unchanged
  | TInt w => if in_signless_range w v then Folded (int_attr ty v false) else Unchanged
  end.

Definition index_bitwidth : Z := 64.
Definition width_of (ty : ity) : Z := match ty with TInt w => w | TIndex => index_bitwidth end.

(* BEFORE commit af5e19c: only InterpretationError was caught *)
Definition cfi_binop_old (o : binop) (ty : ity) (a b : Z) : pass_result :=
  if negb (pure_trait o) then Unchanged else
  match interp_run_old o (width_of ty) a b with
  | INoImpl => Unchanged
  | IAssert => Raised EXC_Assertion
  | IOk v => checked_attr_old ty v
  end.
(* constant-fold-interp on `o %a, %b : ty` with constant operands of stored values a, b (current code:
   `except (InterpretationError, AssertionError, ArithmeticError, MemoryError): return`) *)
Definition cfi_binop (o : binop) (ty : ity) (a b : Z) : pass_result :=
  if negb (pure_trait o) then Unchanged else
  match interp_run o (width_of ty) a b with
  | INoImpl => Unchanged
  | IAssert => Unchanged
  | IOk v => checked_attr ty v
  end.

(* run_cmpi BEFORE the C15 fix e4f2eb2: Python comparison of the two stored ints for every predicate *)
Definition interp_cmpi_old (pred lhs rhs : Z) : option bool :=
  match pred with
  | 0 => Some (lhs =? rhs)
  | 1 => Some (negb (lhs =? rhs))
  | 2 => Some (lhs <? rhs)
  | 3 => Some (lhs <=? rhs)
  | 4 => Some (lhs >? rhs)
  | 5 => Some (lhs >=? rhs)
  | 6 => Some (lhs <? rhs)
  | 7 => Some (lhs <=? rhs)
  | 8 => Some (lhs >? rhs)
  | 9 => Some (lhs >=? rhs)
  | _ => None                                  (* InterpretationError: caught *)
  end.
Definition cfi_cmpi_old (pred a b : Z) : pass_result :=
  match interp_cmpi_old pred a b with
  | Some r => checked_attr (TInt 1) (if r then 1 else 0)
  | None => Unchanged
  end.

(* current run_cmpi: eq / ne / signed predicates compare to_signed(args, width of the operand type);
   the unsigned predicates 6..9 still compare the raw stored ints (C15-5 not applied) *)
Definition interp_cmpi (pred w a0 a1 : Z) : option bool :=
  let lhs := to_signed a0 w in
  let rhs := to_signed a1 w in
  match pred with
  | 0 => Some (lhs =? rhs)
  | 1 => Some (negb (lhs =? rhs))
  | 2 => Some (lhs <? rhs)
  | 3 => Some (lhs <=? rhs)
  | 4 => Some (lhs >? rhs)
  | 5 => Some (lhs >=? rhs)
  | 6 => Some (a0 <? a1)
  | 7 => Some (a0 <=? a1)
  | 8 => Some (a0 >? a1)
  | 9 => Some (a0 >=? a1)
  | _ => None                                  (* InterpretationError: caught *)
  end.
(* ty = type of the compared operands *)
Definition cfi_cmpi (pred : Z) (ty : ity) (a b : Z) : pass_result :=
  match interp_cmpi pred (width_of ty) a b with
  | Some r => checked_attr (TInt 1) (if r then 1 else 0)      (* bool is an int: True = 1 *)
  | None => Unchanged
  end.

(* operand of the op as the test passes see it *)
Inductive operand := OConst (a : Z) | OArg | OOp.   (* constant / block argument / result of a non-constant op *)

(* test-constant-folding on arith.addi, current code (commit 20a3e4d): `if not (isinstance(lhs_op, ConstantOp)
   and isinstance(rhs_op, ConstantOp)): return`, then IntegerAttr(lhs + rhs, type, truncate_bits=True) *)
Definition tcf_addi (ty : ity) (l r : operand) : pass_result :=
  match l, r with
  | OConst a, OConst b => Folded (int_attr ty (a + b) true)
  | _, _ => Unchanged
  end.

(* BEFORE commit 20a3e4d (kept for the recorded refutation) *)
Definition tcf_addi_old (ty : ity) (l r : operand) : pass_result :=
  match l, r with
  | OArg, _ => Raised EXC_Other
  | _, OArg => Raised EXC_Other
  | OOp, _ => Raised EXC_Assertion
  | _, OOp => Raised EXC_Assertion
  | OConst a, OConst b =>
      match ty with
      | TIndex => Folded (a + b)
      | TInt w => if in_signless_range w (a + b) then Folded (int_attr ty (a + b) false) else Raised EXC_Verify
      end
  end.

(* test-specialised-constant-folding on arith.addi: raw, unverified IntegerAttr(lhs + rhs) *)
Definition tscf_addi (l r : operand) : pass_result :=
  match l, r with
  | OArg, _ => Raised EXC_Other
  | _, OArg => Raised EXC_Other
  | OOp, _ => Raised EXC_Assertion
  | _, OOp => Raised EXC_Assertion
  | OConst a, OConst b => Folded (a + b)
  end.
