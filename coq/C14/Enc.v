(* C14/Enc.v -- encoders of model results into Base/Show.v `sx` for the correspondence check,
   and the concrete instantiation of the CSE model's parameters.  No proofs. *)
From Coq Require Import ZArith List Bool PrimFloat SpecFloat FloatOps Arith.
From XV Require Import Base.Show C14.Pre Gen.C14_Arith C14.ModelInt C14.ModelFloat C14.ModelCSE C14.SelCmpf.
Import ListNotations.
Local Open Scope Z_scope.

Definition sOptZ (o : option Z) : sx := match o with None => L [] | Some z => L [I z] end.

Definition enc_out (o : outcome) : sx :=
  match o with
  | NoChange => I 0
  | ReplLhs => I 1
  | ReplRhs => I 2
  | ReplCond => I 3
  | ReplConst v => L [I 4; I v]
  | NewSwapped => I 5
  | NewXoriCondRhs => I 6
  | Conflict => I 9
  end.

(* ---- translated functions, one case = (class, type, a, b) *)
Definition c14_gen_case (o : binop) (ty : ity) (a b : Z) : sx :=
  let sa := int_attr ty a true in      (* the attribute IntegerAttr(a, ty, truncate_bits=True) *)
  L [sOptZ (py_operation o a b); sB (is_right_unit o ty sa); sB (is_right_zero o ty sa);
     I sa; I (int_attr ty b true)].
Definition c14_norm_case (w v : Z) : sx :=
  L [sOptZ (normalized_value w v false); sOptZ (normalized_value w v true);
     I (unsigned_upper_bound w); I (signed_lower_bound w); I (signed_upper_bound w)].

(* ---- folder and integer patterns on `o %lhs, %rhs : ty` *)
Definition c14_fold_case (o : binop) (ty : ity) (l r : option Z) : sx :=
  L [enc_out (fold o ty l r); enc_out (pat_zero_or_unit_right o ty r); enc_out (pat_constant_prop o ty l r)].
(* when lhs and rhs are the same SSA value "replaced by rhs" and "replaced by lhs" are the same observation *)
Definition same_norm (same : bool) (o : outcome) : outcome :=
  if same then match o with ReplRhs => ReplLhs | x => x end else o.
Definition c14_select_case (ty : ity) (c l r : option Z) (same : bool) : sx :=
  L [enc_out (same_norm same (pat_select_const c)); enc_out (same_norm same (pat_select_true_false ty l r));
     enc_out (pat_select_same same)].
Definition c14_cmpi_case (same : bool) (pred : Z) : sx := enc_out (pat_cmpi_equal_operands same pred).

(* ---- SelectFoldCmpfPattern: 0 = left alone, 1 = arith.maximumf lhs, rhs, 2 = arith.minimumf lhs, rhs *)
Definition c14_selcmpf_case (is_cmpf nnan nsz same_order : bool) (pred : Z) : sx :=
  match pat_select_fold_cmpf is_cmpf nnan nsz same_order pred with
  | SCNoChange => I 0 | SCMax => I 1 | SCMin => I 2
  end.

(* ---- float folder; operands and results as bit patterns *)
Definition c14_f64_case (op : fop) (a b : Z) : sx :=
  I (bits_of_f64 (fold_f64 op (f64_of_bits a) (f64_of_bits b))).
Definition c14_f32_case (op : fop) (a b : Z) : sx :=
  L [I (bits_of_sf32 (fold_f32 op (f64_of_sf32 (sf32_of_bits a)) (f64_of_sf32 (sf32_of_bits b))))].
(* the named double-rounding hypothesis, evaluated on one pair (1 = holds) *)
Definition c14_dr_case (op : fop) (a b : Z) : sx :=
  let x := sf32_of_bits a in
  let y := sf32_of_bits b in
  I (if Z.eqb (bits_of_sf32 (round32 (Prim2SF (ieee64 op (f64_of_sf32 x) (f64_of_sf32 y)))))
              (bits_of_sf32 (ieee32 op x y)) then 1 else 0).

(* ---- the other folding passes *)
Definition enc_pr (r : pass_result) : sx :=
  match r with Folded v => L [I 1; I v] | Unchanged => I 0 | Raised e => L [I (-1); I e] end.
Definition c14_cfi_case (o : binop) (ty : ity) (a b : Z) : sx := enc_pr (cfi_binop o ty a b).
Definition c14_cfi_cmpi_case (pred : Z) (ty : ity) (a b : Z) : sx := enc_pr (cfi_cmpi pred ty a b).
Definition c14_tcf_case (ty : ity) (l r : operand) : sx := enc_pr (tcf_addi ty l r).
(* second component: does the (unverified) attribute the specialised pass builds verify afterwards *)
Definition c14_tscf_case (ty : ity) (l r : operand) : sx :=
  L [enc_pr (tscf_addi l r);
     sB (match tscf_addi l r, ty with Folded v, TInt w => in_signless_range w v | _, _ => true end)].

(* ---- CSE *)
Definition nl (l : list nat) : sx := sLN l.
Fixpoint enc_op (o : op) : sx :=
  match o with
  | Op k mk t i args res regs => L [sN k; sB mk; nl args; nl res; L (enc_regions regs)]
  end
with enc_regions (rs : regions) : list sx :=
  match rs with RNil => [] | RCons r rs' => enc_region r :: enc_regions rs' end
with enc_region (r : region) : sx :=
  match r with
  | REmpty => I 0
  | RSingle ba b => L [nl ba; L (enc_ops b)]
  | RMulti t caps => L [sN t; nl caps; I 0]
  end
with enc_ops (os : ops) : list sx :=
  match os with ONil => [] | OCons o os' => enc_op o :: enc_ops os' end.

Fixpoint ops_of (l : list op) : ops := match l with [] => ONil | o :: r => OCons o (ops_of r) end.
Fixpoint regions_of (l : list region) : regions := match l with [] => RNil | r :: t => RCons r (regions_of t) end.

(* key k = 8 * (interned name/attributes/properties/result types) + effect class *)
Definition eff_of_key (k : nat) : eff :=
  match Nat.modulo k 8 with
  | 0%nat => EPure | 1%nat => ERead | 2%nat => EWrite | 3%nat => ERec | _ => EUnk
  end.
Definition meff_none (t : nat) : effs := None.

(* Region.is_structurally_equivalent, zip-wise over the region lists: same shape, same keys,
   operands equal modulo the correspondence of values defined inside (block arguments and results);
   values defined outside must be identical. *)
Definition ctx := list (vid * vid).
Fixpoint clook (c : ctx) (v : vid) : vid :=
  match c with [] => v | (x, y) :: r => if Nat.eqb v x then y else clook r v end.
Fixpoint cadd (c : ctx) (a b : list vid) : ctx :=
  match a, b with x :: a', y :: b' => cadd ((x, y) :: c) a' b' | _, _ => c end.
Fixpoint args_eq (c : ctx) (a b : list vid) : bool :=
  match a, b with
  | [], [] => true
  | x :: a', y :: b' => Nat.eqb (clook c x) y && args_eq c a' b'
  | _, _ => false
  end.
Fixpoint seq_op (c : ctx) (a b : op) : option ctx :=
  match a, b with
  | Op k1 _ t1 _ a1 r1 g1, Op k2 _ t2 _ a2 r2 g2 =>
      if Nat.eqb k1 k2 && Bool.eqb t1 t2 && Nat.eqb (length r1) (length r2) && args_eq c a1 a2 then
        match seq_regions c g1 g2 with
        | Some c' => Some (cadd c' r1 r2)
        | None => None
        end
      else None
  end
with seq_regions (c : ctx) (a b : regions) : option ctx :=
  match a, b with
  | RNil, RNil => Some c
  | RCons x a', RCons y b' =>
      match seq_region c x y with Some c' => seq_regions c' a' b' | None => None end
  | _, _ => None
  end
with seq_region (c : ctx) (a b : region) : option ctx :=
  match a, b with
  | REmpty, REmpty => Some c
  | RSingle ba1 b1, RSingle ba2 b2 =>
      if Nat.eqb (length ba1) (length ba2) then seq_ops (cadd c ba1 ba2) b1 b2 else None
  | RMulti _ _, RMulti _ _ => None      (* never compared: ops with multi-block regions are not CSE candidates *)
  | _, _ => None
  end
with seq_ops (c : ctx) (a b : ops) : option ctx :=
  match a, b with
  | ONil, ONil => Some c
  | OCons x a', OCons y b' =>
      match seq_op c x y with Some c' => seq_ops c' a' b' | None => None end
  | _, _ => None
  end.
Definition req_struct (a b : regions) : bool :=
  match seq_regions [] a b with Some _ => true | None => false end.

(* programs arrive as a flat token list (cheap to parse for coqc):
     op     ::= k term nargs arg* nres res* nregions region*
     region ::= 0 | 1 nbargs barg* nops op*                                  *)
Fixpoint take_n (n : nat) (l : list Z) : option (list nat * list Z) :=
  match n with
  | O => Some ([], l)
  | S n' => match l with
            | x :: r => match take_n n' r with Some (a, r') => Some (Z.to_nat x :: a, r') | None => None end
            | [] => None
            end
  end.
Fixpoint dec_op (fuel : nat) (l : list Z) : option (op * list Z) :=
  match fuel with
  | O => None
  | S f =>
      match l with
      | k :: t :: na :: r1 =>
          match take_n (Z.to_nat na) r1 with
          | Some (args, nr :: r2) =>
              match take_n (Z.to_nat nr) r2 with
              | Some (res, ng :: r3) =>
                  match dec_regions f (Z.to_nat ng) r3 with
                  | Some (regs, r4) => Some (Op (Z.to_nat k) false (t =? 1) false args res regs, r4)
                  | None => None
                  end
              | _ => None
              end
          | _ => None
          end
      | _ => None
      end
  end
with dec_regions (fuel : nat) (n : nat) (l : list Z) : option (regions * list Z) :=
  match n with
  | O => Some (RNil, l)
  | S n' =>
      match fuel with
      | O => None
      | S f =>
          match dec_region f l with
          | Some (r, l') =>
              match dec_regions f n' l' with Some (rs, l'') => Some (RCons r rs, l'') | None => None end
          | None => None
          end
      end
  end
with dec_region (fuel : nat) (l : list Z) : option (region * list Z) :=
  match fuel with
  | O => None
  | S f =>
      match l with
      | 0 :: r => Some (REmpty, r)
      | 1 :: nb :: r1 =>
          match take_n (Z.to_nat nb) r1 with
          | Some (bargs, no :: r2) =>
              match dec_ops f (Z.to_nat no) r2 with
              | Some (b, r3) => Some (RSingle bargs b, r3)
              | None => None
              end
          | _ => None
          end
      | _ => None
      end
  end
with dec_ops (fuel : nat) (n : nat) (l : list Z) : option (ops * list Z) :=
  match n with
  | O => Some (ONil, l)
  | S n' =>
      match fuel with
      | O => None
      | S f =>
          match dec_op f l with
          | Some (o, l') =>
              match dec_ops f n' l' with Some (os, l'') => Some (OCons o os, l'') | None => None end
          | None => None
          end
      end
  end.
Definition dec_program (l : list Z) : option region :=
  match dec_region (S (length l)) l with Some (r, []) => Some r | _ => None end.

(* digest of an sx tree (printing whole programs back through coqc is slow): the python side computes the
   same digest of the real pass's output; `c14_cse_full` prints the tree itself (used for replays) *)
Definition HP : Z := 2305843009213693951.      (* 2^61 - 1 *)
Fixpoint hash_sx (s : sx) (acc : Z) : Z :=
  match s with
  | I z => ((acc * 1000003 + z + 7) mod HP)%Z
  | L l => ((fold_left (fun a x => hash_sx x a) l ((acc * 1000003 + 3) mod HP) * 1000003 + 5) mod HP)%Z
  end.
Definition c14_cse_full (free : list nat) (r : region) : sx :=
  L [sB (wf_program free r);
     match cse eff_of_key meff_none req_struct r with
     | Some r' => L [enc_region r']
     | None => L []
     end].
Definition c14_cse_case (free : list nat) (r : region) : sx :=
  L [sB (wf_program free r);
     match cse eff_of_key meff_none req_struct r with
     | Some r' => L [I (hash_sx (enc_region r') 0)]
     | None => L []
     end].
(* the same on a token list; I (-9) = the token list does not decode *)
Definition c14_cse_tok (l : list Z) : sx :=
  match dec_program l with Some r => c14_cse_case [] r | None => I (-9) end.
Definition c14_cse_tok_full (l : list Z) : sx :=
  match dec_program l with Some r => c14_cse_full [] r | None => I (-9) end.
