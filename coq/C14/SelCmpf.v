(* C14/SelCmpf.v -- SelectFoldCmpfPattern (xdsl/transforms/canonicalization_patterns/arith.py):
     %c = arith.cmpf P, %a, %b fastmath<nnan,nsz,...>      %s = arith.select %c, %x, %y
   becomes arith.maximumf %x, %y (P in ogt oge ugt uge) / arith.minimumf %x, %y (P in olt ole ult ule),
   only when the compare carries BOTH nnan and nsz and the select operands are the compare operands IN THE
   SAME ORDER (x is a, y is b).  Hand-written model (the pattern is a chain of isinstance / membership tests and a
   `match` on the predicate), the specification of cmpf / maximumf / minimumf on spec_floats, and the proof
   that under the fastmath contract (no NaN inputs, the sign of a zero result is irrelevant) the rewrite
   preserves the value.  Correspondence-checked against the real pattern by harness family select-cmpf. *)
From Coq Require Import ZArith Bool SpecFloat Lia.
Local Open Scope Z_scope.

Inductive sc_out := SCNoChange | SCMax | SCMin.

(* is_cmpf    : op.cond is the result of an arith.cmpf
   nnan, nsz  : FastMathFlag.NO_NANS / NO_SIGNED_ZEROS in cmpf.fastmath
   same_order : op.lhs == cmpf.lhs and op.rhs == cmpf.rhs *)
Definition pat_select_fold_cmpf (is_cmpf nnan nsz same_order : bool) (pred : Z) : sc_out :=
  if negb is_cmpf then SCNoChange
  else if negb nnan || negb nsz then SCNoChange
  else if negb same_order then SCNoChange
  else if (pred =? 2) || (pred =? 3) || (pred =? 9) || (pred =? 10) then SCMax
  else if (pred =? 4) || (pred =? 5) || (pred =? 11) || (pred =? 12) then SCMin
  else SCNoChange.

(* ---- specification: arith.cmpf (16 predicates), arith.maximumf / minimumf (NaN-propagating, -0 < +0) *)
Definition is_cmp (c : option comparison) (k : comparison) : bool :=
  match c, k with
  | Some Eq, Eq | Some Lt, Lt | Some Gt, Gt => true
  | _, _ => false
  end.
Definition cmpf_sem (pred : Z) (x y : spec_float) : option bool :=
  let c := SFcompare x y in
  let un := match c with None => true | _ => false end in
  let lt := is_cmp c Lt in let eq := is_cmp c Eq in let gt := is_cmp c Gt in
  match pred with
  | 0 => Some false | 1 => Some eq | 2 => Some gt | 3 => Some (gt || eq) | 4 => Some lt | 5 => Some (lt || eq)
  | 6 => Some (lt || gt) | 7 => Some (negb un) | 8 => Some (eq || un) | 9 => Some (gt || un)
  | 10 => Some (gt || eq || un) | 11 => Some (lt || un) | 12 => Some (lt || eq || un)
  | 13 => Some (lt || gt || un) | 14 => Some un | 15 => Some true
  | _ => None
  end.
Definition maximumf_sem (x y : spec_float) : spec_float :=
  match SFcompare x y with
  | None => S754_nan
  | Some Gt => x
  | Some Lt => y
  | Some Eq => match x, y with S754_zero sx, S754_zero sy => S754_zero (sx && sy) | _, _ => x end
  end.
Definition minimumf_sem (x y : spec_float) : spec_float :=
  match SFcompare x y with
  | None => S754_nan
  | Some Gt => y
  | Some Lt => x
  | Some Eq => match x, y with S754_zero sx, S754_zero sy => S754_zero (sx || sy) | _, _ => x end
  end.
Definition fselect_sem (c : bool) (x y : spec_float) : spec_float := if c then x else y.

(* equality up to the sign of a zero (the nsz contract) *)
Definition nsz_eq (u v : spec_float) : Prop :=
  u = v \/ (exists s t, u = S754_zero s /\ v = S754_zero t).

(* ---- proofs *)
Lemma SFcompare_none : forall x y, SFcompare x y = None -> x = S754_nan \/ y = S754_nan.
Proof.
  intros x y H. destruct x as [s | s | | s m e]; destruct y as [t | t | | t n f]; cbn in H;
    try discriminate; auto.
Qed.

Lemma SFcompare_eq : forall x y, SFcompare x y = Some Eq ->
  x = y \/ (exists s t, x = S754_zero s /\ y = S754_zero t).
Proof.
  intros x y H. destruct x as [s | s | | s m e]; destruct y as [t | t | | t n f]; cbn in H;
    try discriminate;
    try (match type of H with Some (if ?b then _ else _) = Some Eq => destruct b; discriminate H end).
  - right. exists s, t. split; reflexivity.
  - destruct s, t; try discriminate H; left; reflexivity.
  - left. destruct s, t; try discriminate H.
    + destruct (e ?= f) eqn:E; try discriminate. apply Z.compare_eq in E. subst f.
      injection H as H. destruct (Pos.compare_cont Eq m n) eqn:P; try discriminate.
      apply Pos.compare_eq in P. subst. reflexivity.
    + destruct (e ?= f) eqn:E; try discriminate. apply Z.compare_eq in E. subst f.
      injection H as H. apply Pos.compare_eq in H. subst. reflexivity.
Qed.

Lemma nsz_eq_refl : forall u, nsz_eq u u. Proof. intros u. left. reflexivity. Qed.

Lemma max_eq_case : forall x y, SFcompare x y = Some Eq -> nsz_eq x (maximumf_sem x y) /\ nsz_eq y (maximumf_sem x y).
Proof.
  intros x y H. unfold maximumf_sem. rewrite H.
  destruct (SFcompare_eq x y H) as [-> | (s & t & -> & ->)].
  - destruct y as [t | t | | t n f]; split; try apply nsz_eq_refl; right; exists t, (t && t); split; reflexivity.
  - split; right; [exists s, (s && t) | exists t, (s && t)]; split; reflexivity.
Qed.
Lemma min_eq_case : forall x y, SFcompare x y = Some Eq -> nsz_eq x (minimumf_sem x y) /\ nsz_eq y (minimumf_sem x y).
Proof.
  intros x y H. unfold minimumf_sem. rewrite H.
  destruct (SFcompare_eq x y H) as [-> | (s & t & -> & ->)].
  - destruct y as [t | t | | t n f]; split; try apply nsz_eq_refl; right; exists t, (t || t); split; reflexivity.
  - split; right; [exists s, (s || t) | exists t, (s || t)]; split; reflexivity.
Qed.

(* the rewrite preserves the selected value, for non-NaN operands, up to the sign of a zero *)
Theorem select_fold_cmpf_sound : forall is_cmpf nnan nsz pred x y b,
  x <> S754_nan -> y <> S754_nan -> cmpf_sem pred x y = Some b ->
  match pat_select_fold_cmpf is_cmpf nnan nsz true pred with
  | SCNoChange => True
  | SCMax => nsz_eq (fselect_sem b x y) (maximumf_sem x y)
  | SCMin => nsz_eq (fselect_sem b x y) (minimumf_sem x y)
  end.
Proof.
  intros is_cmpf nnan nsz pred x y b Hx Hy Hc. unfold pat_select_fold_cmpf.
  destruct (negb is_cmpf); [exact I|]. destruct (negb nnan || negb nsz); [exact I|]. cbn [negb].
  destruct (SFcompare x y) as [c|] eqn:E.
  2:{ destruct (SFcompare_none x y E); contradiction. }
  pose proof (max_eq_case x y) as MX. pose proof (min_eq_case x y) as MN.
  destruct ((pred =? 2) || (pred =? 3) || (pred =? 9) || (pred =? 10)) eqn:G.
  - assert (P : pred = 2 \/ pred = 3 \/ pred = 9 \/ pred = 10) by lia.
    unfold maximumf_sem in *. unfold cmpf_sem in Hc. rewrite E in *.
    destruct P as [-> | [-> | [-> | ->]]]; cbn in Hc; injection Hc as <-;
      destruct c; cbn; try apply nsz_eq_refl; apply MX; reflexivity.
  - destruct ((pred =? 4) || (pred =? 5) || (pred =? 11) || (pred =? 12)) eqn:G2; [|exact I].
    assert (P : pred = 4 \/ pred = 5 \/ pred = 11 \/ pred = 12) by lia.
    unfold minimumf_sem in *. unfold cmpf_sem in Hc. rewrite E in *.
    destruct P as [-> | [-> | [-> | ->]]]; cbn in Hc; injection Hc as <-;
      destruct c; cbn; try apply nsz_eq_refl; apply MN; reflexivity.
Qed.

(* the operand order matters: with the select operands swapped the same rewrite would be wrong *)
Lemma select_fold_cmpf_swapped_would_be_wrong :
  let x := S754_finite false 1 0 in let y := S754_finite false 1 1 in   (* 1.0 and 2.0 *)
  cmpf_sem 2 x y = Some false /\ fselect_sem false y x = x /\ maximumf_sem y x = y /\ ~ nsz_eq x y /\
  pat_select_fold_cmpf true true true false 2 = SCNoChange.
Proof.
  cbn. repeat split; try reflexivity.
  intros [H | (s & t & H & _)]; discriminate.
Qed.

(* without both flags, or on a non-cmpf condition, the op is left alone *)
Lemma select_fold_cmpf_guards : forall pred so,
  pat_select_fold_cmpf false true true so pred = SCNoChange /\
  pat_select_fold_cmpf true false true so pred = SCNoChange /\
  pat_select_fold_cmpf true true false so pred = SCNoChange /\
  pat_select_fold_cmpf true true true false pred = SCNoChange.
Proof. intros pred so. repeat split; reflexivity. Qed.
