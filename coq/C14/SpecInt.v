(* C14/SpecInt.v -- MLIR semantics of the signless integer operations on BIT PATTERNS
   (the specification the folders are proved against; definitions only).

   A value of type iN (N = w >= 1) is its unsigned bit pattern x, 0 <= x < 2^w.
   `sem o w x y = None` means the MLIR result is undefined / poison (division by zero, signed
   division overflow MIN / -1, shift amount >= w): such cases are excluded from the property.
   An `index` value is treated at EVERY width w >= 1 (the theorems quantify over w), so whatever
   the target's index width is, the statement covers it. *)
From Coq Require Import ZArith Bool.
From XV Require Import C14.Pre Gen.C14_Arith.
Local Open Scope Z_scope.

Definition wrap (w x : Z) : Z := x mod 2 ^ w.
(* two's-complement value of a bit pattern *)
Definition sgn (w x : Z) : Z := if x <? 2 ^ (w - 1) then x else x - 2 ^ w.
(* signed division is undefined for a zero divisor and for MIN / -1 *)
Definition sdiv_undef (w sx sy : Z) : bool := (sy =? 0) || ((sx =? - 2 ^ (w - 1)) && (sy =? -1)).

Definition sem (o : binop) (w x y : Z) : option Z :=
  let sx := sgn w x in
  let sy := sgn w y in
  match o with
  | AddiOp => Some (wrap w (x + y))
  | SubiOp => Some (wrap w (x - y))
  | MuliOp => Some (wrap w (x * y))
  | AndIOp => Some (Z.land x y)
  | OrIOp => Some (Z.lor x y)
  | XOrIOp => Some (Z.lxor x y)
  | DivUIOp => if y =? 0 then None else Some (x / y)
  | RemUIOp => if y =? 0 then None else Some (x mod y)
  | CeilDivUIOp => if y =? 0 then None else Some (wrap w (- ((- x) / y)))
  | DivSIOp => if sdiv_undef w sx sy then None else Some (wrap w (Z.quot sx sy))
  | RemSIOp => if sdiv_undef w sx sy then None else Some (wrap w (Z.rem sx sy))
  | FloorDivSIOp => if sdiv_undef w sx sy then None else Some (wrap w (sx / sy))
  | CeilDivSIOp => if sdiv_undef w sx sy then None else Some (wrap w (- ((- sx) / sy)))
  | ShLIOp => if w <=? y then None else Some (wrap w (Z.shiftl x y))
  | ShRUIOp => if w <=? y then None else Some (Z.shiftr x y)
  | ShRSIOp => if w <=? y then None else Some (wrap w (Z.shiftr sx y))
  | MinUIOp => Some (Z.min x y)
  | MaxUIOp => Some (Z.max x y)
  | MinSIOp => Some (if sx <=? sy then x else y)
  | MaxSIOp => Some (if sy <=? sx then x else y)
  end.

(* arith.cmpi: predicates 0..9 = eq ne slt sle sgt sge ult ule ugt uge; unsigned ones compare bit patterns *)
Definition cmpi_sem (pred w x y : Z) : option bool :=
  let sx := sgn w x in
  let sy := sgn w y in
  match pred with
  | 0 => Some (x =? y)
  | 1 => Some (negb (x =? y))
  | 2 => Some (sx <? sy)
  | 3 => Some (sx <=? sy)
  | 4 => Some (sy <? sx)
  | 5 => Some (sy <=? sx)
  | 6 => Some (x <? y)
  | 7 => Some (x <=? y)
  | 8 => Some (y <? x)
  | 9 => Some (y <=? x)
  | _ => None
  end.

(* arith.select on an i1 condition bit *)
Definition select_sem (c x y : Z) : Z := if c =? 0 then y else x.

(* the value by which a folder / pattern replaces the result of the matched op:
   x, y = run-time bit patterns of lhs / rhs, c = of the select condition *)
Definition out_val (w x y c : Z) (o : outcome) : option Z :=
  match o with
  | ReplLhs => Some x
  | ReplRhs => Some y
  | ReplCond => Some c
  | ReplConst v => Some (wrap w v)
  | _ => None
  end.

(* "the operand is (or is not known to be) a constant with stored value a": its run-time bit pattern *)
Definition is_const (w : Z) (c : option Z) (x : Z) : Prop :=
  match c with Some a => x = wrap w a | None => True end.
(* the width(s) at which a value of that type lives: iN at N, index at any width *)
Definition ty_width (ty : ity) (w : Z) : Prop :=
  match ty with TInt w' => w' = w | TIndex => True end.
Definition pattern_range (w x : Z) : Prop := 0 <= x < 2 ^ w.
