(* C14/SpecCSE.v -- the semantics against which CSE is proved (definitions only).

   Values and memory are abstract.  An op is executed by an uninterpreted function
     osem k (operand values) (denotations of its regions) memory = (result values, memory')
   and an opaque multi-block region by  mden tag (captured values).
   A single-block region denotes   block-argument values -> memory -> (yielded values, memory')
   where the yielded values are the operands of the block's terminator.
   "Effects performed" = the final memory (memory may be instantiated by a trace of writes).

   `sem_ok` states what the memory-effect traits promise, nothing more:
     Pure            : results do not depend on memory, memory unchanged
     MemoryRead      : memory unchanged
     RecursiveMemory : the op touches memory only through its regions (parametricity:
                       memory-preserving / memory-independent regions give a memory-preserving /
                       memory-independent op)
     every op        : depends on its regions only through their denotations (extensionality)
     req             : regions accepted as structurally equivalent denote the same functions in
                       every environment (soundness of is_structurally_equivalent, property C03) *)
From Coq Require Import List Arith Bool.
From XV Require Import C14.ModelCSE.
Import ListNotations.

Section Sem.
  Variables val mem : Type.
  Definition env := vid -> val.
  Definition rden := list val -> mem -> list val * mem.
  Variable osem : nat -> list val -> list rden -> mem -> list val * mem.
  Variable mden : nat -> list val -> rden.

  Fixpoint upd (e : env) (ids : list vid) (vs : list val) : env :=
    match ids, vs with
    | i :: ids', v :: vs' => fun x => if Nat.eqb x i then v else upd e ids' vs' x
    | _, _ => e
    end.

  Fixpoint exec_op (o : op) (e : env) (m : mem) : env * mem :=
    match o with
    | Op k _ _ _ args res regs =>
        let '(vs, m') := osem k (map e args) (den_regions regs e) m in
        (upd e res vs, m')
    end
  with den_regions (rs : regions) (e : env) : list rden :=
    match rs with RNil => [] | RCons r rs' => den_region r e :: den_regions rs' e end
  with den_region (r : region) (e : env) : rden :=
    match r with
    | REmpty => fun _ m => ([], m)
    | RSingle bargs body => fun vs m => exec_ops body (upd e bargs vs) m
    | RMulti t caps => mden t (map e caps)
    end
  with exec_ops (os : ops) (e : env) (m : mem) : list val * mem :=
    match os with
    | ONil => ([], m)
    | OCons o os' =>
        match o with
        | Op _ _ term _ args _ _ =>
            if term then (map e args, m)
            else let '(e', m') := exec_op o e m in exec_ops os' e' m'
        end
    end.

  Definition d_ext (d d' : rden) : Prop := forall vs m, d vs m = d' vs m.
  Definition d_keeps_mem (d : rden) : Prop := forall vs m, snd (d vs m) = m.
  Definition d_pure (d : rden) : Prop := forall vs m1 m2, d vs m1 = (fst (d vs m2), m1).

  Variable eff_of : nat -> eff.
  Variable meff_of : nat -> effs.
  Variable req : regions -> regions -> bool.

  Record sem_ok : Prop := {
    ok_pure : forall k a ds m1 m2, eff_of k = EPure ->
        osem k a ds m1 = (fst (osem k a ds m2), m1);
    ok_read : forall k a ds m, eff_of k = ERead -> snd (osem k a ds m) = m;
    ok_rec_read : forall k a ds m, eff_of k = ERec -> Forall d_keeps_mem ds ->
        snd (osem k a ds m) = m;
    ok_rec_pure : forall k a ds m1 m2, eff_of k = ERec -> Forall d_pure ds ->
        osem k a ds m1 = (fst (osem k a ds m2), m1);
    ok_ext : forall k a ds ds' m, Forall2 d_ext ds ds' -> osem k a ds m = osem k a ds' m;
    ok_multi_read : forall t cs r, meff_of t = Some (r, false) -> d_keeps_mem (mden t cs);
    ok_multi_pure : forall t cs, meff_of t = Some (false, false) -> d_pure (mden t cs);
    ok_req : forall rs rs' e, req rs rs' = true -> Forall2 d_ext (den_regions rs e) (den_regions rs' e)
  }.
End Sem.
