(* C14/ProofsInt.v -- proofs about the signless integer folders / canonicalization patterns
   (generated model Gen/C14_Arith.v) and the hand models of the other folding passes
   (C14/ModelInt.v) against the bit-pattern semantics C14/SpecInt.v. *)
From Coq Require Import ZArith Bool Lia ZifyBool List.
From XV Require Import C14.Pre Gen.C14_Arith C14.SpecInt C14.ModelInt.
Local Open Scope Z_scope.

(* ------------------------------------------------------------------ *)
(* powers of two and the generated bound functions                     *)
(* ------------------------------------------------------------------ *)

Lemma pow2_split : forall w, 1 <= w -> 2 ^ w = 2 * 2 ^ (w - 1).
Proof.
  intros w H. replace w with (Z.succ (w - 1)) at 1 by lia.
  rewrite Z.pow_succ_r by lia. reflexivity.
Qed.

Lemma pow2_pos : forall w, 0 <= w -> 0 < 2 ^ w.
Proof. intros. apply Z.pow_pos_nonneg; lia. Qed.

(* pose the two basic facts about 2^w and 2^(w-1); afterwards lia sees both as atoms *)
Ltac pw w :=
  let H1 := fresh "Hpw" in let H2 := fresh "Hpp" in
  assert (H1 : 2 ^ w = 2 * 2 ^ (w - 1)) by (apply pow2_split; lia);
  assert (H2 : 0 < 2 ^ (w - 1)) by (apply pow2_pos; lia).

Lemma uub_pow : forall w, unsigned_upper_bound w = 2 ^ w.
Proof. intros. unfold unsigned_upper_bound. apply Z.shiftl_1_l. Qed.

Lemma half_pow : forall w, 1 <= w -> Z.shiftr (2 ^ w) 1 = 2 ^ (w - 1).
Proof.
  intros w H. rewrite Z.shiftr_div_pow2 by lia. rewrite (pow2_split w H).
  change (2 ^ 1) with 2. rewrite Z.mul_comm. apply Z.div_mul. lia.
Qed.

Lemma slb_pow : forall w, 1 <= w -> signed_lower_bound w = - 2 ^ (w - 1).
Proof.
  intros w H. unfold signed_lower_bound. rewrite Z.shiftl_1_l, half_pow by lia. reflexivity.
Qed.

Lemma sub_pow : forall w, 1 <= w -> signed_upper_bound w = 2 ^ (w - 1).
Proof.
  intros w H. unfold signed_upper_bound. rewrite Z.max_l by lia. apply Z.shiftl_1_l.
Qed.

(* ------------------------------------------------------------------ *)
(* closed forms of normalized_value / int_attr / in_signless_range     *)
(* ------------------------------------------------------------------ *)

Definition norm_cf (w v : Z) : Z := if 2 ^ (w - 1) <=? v then v - 2 ^ w else v.
Definition in_range_cf (w v : Z) : bool := (- 2 ^ (w - 1) <=? v) && (v <? 2 ^ w).

Lemma normalized_value_cf : forall w v t, 1 <= w ->
  normalized_value w v t =
    if in_range_cf w v then Some (norm_cf w v)
    else if t then Some (norm_cf w (v mod 2 ^ w)) else None.
Proof.
  intros w v t H. unfold normalized_value, signless_value_range, in_range_cf, norm_cf.
  rewrite slb_pow, uub_pow, sub_pow by lia. cbv zeta.
  destruct ((- 2 ^ (w - 1) <=? v) && (v <? 2 ^ w)); cbn [negb].
  - destruct (2 ^ (w - 1) <=? v); reflexivity.
  - destruct t; cbn [negb]; [|reflexivity].
    destruct (2 ^ (w - 1) <=? v mod 2 ^ w); reflexivity.
Qed.

Lemma int_attr_cf : forall w v t, 1 <= w ->
  int_attr (TInt w) v t =
    if in_range_cf w v then norm_cf w v
    else if t then norm_cf w (v mod 2 ^ w) else v.
Proof.
  intros w v t H. unfold int_attr. rewrite normalized_value_cf by lia.
  destruct (in_range_cf w v); [reflexivity|]. destruct t; reflexivity.
Qed.

Lemma in_signless_range_cf : forall w v, 1 <= w -> in_signless_range w v = in_range_cf w v.
Proof.
  intros w v H. unfold in_signless_range, signless_value_range, in_range_cf.
  rewrite slb_pow, uub_pow by lia. reflexivity.
Qed.

(* ------------------------------------------------------------------ *)
(* wrap / sgn                                                          *)
(* ------------------------------------------------------------------ *)

Definition i1_stored (a : Z) : Prop := a = 0 \/ a = -1.
Definition canonical (w a : Z) : Prop := - 2 ^ (w - 1) <= a < 2 ^ (w - 1).

Lemma wrap_small : forall w x, 0 <= x < 2 ^ w -> wrap w x = x.
Proof. intros. unfold wrap. apply Z.mod_small. assumption. Qed.

Lemma wrap_range : forall w x, 0 <= w -> 0 <= wrap w x < 2 ^ w.
Proof. intros. unfold wrap. apply Z.mod_pos_bound. apply pow2_pos; lia. Qed.

Lemma wrap_wrap : forall w x, wrap w (wrap w x) = wrap w x.
Proof. intros. unfold wrap. apply Zmod_mod. Qed.

Lemma wrap_sub_mod : forall w x, wrap w (x - 2 ^ w) = wrap w x.
Proof.
  intros. unfold wrap. replace (x - 2 ^ w) with (x + (-1) * 2 ^ w) by lia.
  apply Z_mod_plus_full.
Qed.

Lemma wrap_add_mod : forall w x, wrap w (x + 2 ^ w) = wrap w x.
Proof.
  intros. unfold wrap. replace (x + 2 ^ w) with (x + 1 * 2 ^ w) by lia.
  apply Z_mod_plus_full.
Qed.

Lemma wrap_0 : forall w, wrap w 0 = 0.
Proof. intros. unfold wrap. apply Zmod_0_l. Qed.

Lemma wrap_1 : forall w, 1 <= w -> wrap w 1 = 1.
Proof. intros w H. apply wrap_small. pw w. lia. Qed.

Lemma wrap_norm_cf : forall w v, wrap w (norm_cf w v) = wrap w v.
Proof.
  intros. unfold norm_cf. destruct (2 ^ (w - 1) <=? v); [apply wrap_sub_mod|reflexivity].
Qed.

Lemma wrap_sgn : forall w x, wrap w (sgn w x) = wrap w x.
Proof.
  intros. unfold sgn. destruct (x <? 2 ^ (w - 1)); [reflexivity|apply wrap_sub_mod].
Qed.

Lemma wrap_sgn_pat : forall w x, pattern_range w x -> wrap w (sgn w x) = x.
Proof. intros. rewrite wrap_sgn. apply wrap_small. assumption. Qed.

Lemma sgn_range : forall w x, 1 <= w -> pattern_range w x -> canonical w (sgn w x).
Proof.
  intros w x H Hx. unfold pattern_range in Hx. unfold canonical, sgn. pw w.
  destruct (x <? 2 ^ (w - 1)) eqn:E; lia.
Qed.

(* bit pattern of a canonical stored constant *)
Lemma wrap_canonical : forall w a, 1 <= w -> canonical w a ->
  wrap w a = if a <? 0 then a + 2 ^ w else a.
Proof.
  intros w a H Ha. unfold canonical in Ha. pw w.
  destruct (a <? 0) eqn:E.
  - rewrite <- (wrap_add_mod w a). apply wrap_small. lia.
  - apply wrap_small. lia.
Qed.

Lemma sgn_wrap : forall w a, 1 <= w -> canonical w a -> sgn w (wrap w a) = a.
Proof.
  intros w a H Ha. rewrite wrap_canonical by assumption. unfold canonical in Ha. pw w.
  unfold sgn. destruct (a <? 0) eqn:E.
  - destruct (a + 2 ^ w <? 2 ^ (w - 1)) eqn:E2; lia.
  - destruct (a <? 2 ^ (w - 1)) eqn:E2; lia.
Qed.

(* ------------------------------------------------------------------ *)
(* A. stored value of IntegerAttr                                      *)
(* ------------------------------------------------------------------ *)

Lemma norm_cf_canonical : forall w v, 1 <= w -> - 2 ^ (w - 1) <= v < 2 ^ w ->
  canonical w (norm_cf w v).
Proof.
  intros w v H Hv. unfold canonical, norm_cf. pw w.
  destruct (2 ^ (w - 1) <=? v) eqn:E; lia.
Qed.

Lemma int_attr_trunc : forall w v, 1 <= w ->
  wrap w (int_attr (TInt w) v true) = wrap w v /\
  - 2 ^ (w - 1) <= int_attr (TInt w) v true < 2 ^ (w - 1).
Proof.
  intros w v H. rewrite int_attr_cf by lia. pw w.
  destruct (in_range_cf w v) eqn:E.
  - split; [apply wrap_norm_cf|]. apply norm_cf_canonical; [lia|].
    unfold in_range_cf in E. lia.
  - split.
    + rewrite wrap_norm_cf. apply (wrap_wrap w v).
    + apply norm_cf_canonical; [lia|].
      pose proof (wrap_range w v ltac:(lia)) as R. unfold wrap in R. lia.
Qed.

Lemma int_attr_notrunc : forall w v, 1 <= w -> - 2 ^ (w - 1) <= v < 2 ^ w ->
  wrap w (int_attr (TInt w) v false) = wrap w v /\
  - 2 ^ (w - 1) <= int_attr (TInt w) v false < 2 ^ (w - 1).
Proof.
  intros w v H Hv. rewrite int_attr_cf by lia.
  assert (E : in_range_cf w v = true) by (unfold in_range_cf; lia).
  rewrite E. split; [apply wrap_norm_cf|]. apply norm_cf_canonical; assumption.
Qed.

Lemma int_attr_index : forall v t, int_attr TIndex v t = v.
Proof. reflexivity. Qed.

(* a canonical value is stored unchanged *)
Lemma int_attr_canonical : forall w v t, 1 <= w -> canonical w v -> int_attr (TInt w) v t = v.
Proof.
  intros w v t H Hv. unfold canonical in Hv. rewrite int_attr_cf by lia. pw w.
  assert (E : in_range_cf w v = true) by (unfold in_range_cf; lia).
  rewrite E. unfold norm_cf. destruct (2 ^ (w - 1) <=? v) eqn:E2; lia.
Qed.

(* truncating stored value at any type of width w *)
Lemma wrap_int_attr_trunc : forall ty w v, 1 <= w -> ty_width ty w ->
  wrap w (int_attr ty v true) = wrap w v.
Proof.
  intros ty w v H Hty. destruct ty as [w'|]; simpl in Hty.
  - subst w'. apply int_attr_trunc. assumption.
  - reflexivity.
Qed.

Lemma wrap_int_attr_one : forall ty w, 1 <= w -> ty_width ty w ->
  wrap w (int_attr ty 1 false) = 1.
Proof.
  intros ty w H Hty. destruct ty as [w'|]; simpl in Hty.
  - subst w'. pw w. destruct (int_attr_notrunc w 1 H ltac:(lia)) as [E _].
    rewrite E. apply wrap_1. assumption.
  - simpl. apply wrap_1. assumption.
Qed.

(* ------------------------------------------------------------------ *)
(* B. constant folding                                                 *)
(* ------------------------------------------------------------------ *)

Lemma land_mod : forall w a b, 0 <= w ->
  Z.land (a mod 2 ^ w) (b mod 2 ^ w) = (Z.land a b) mod 2 ^ w.
Proof.
  intros w a b H. apply Z.bits_inj'. intros n Hn. rewrite Z.land_spec.
  destruct (Z.lt_ge_cases n w).
  - rewrite !Z.mod_pow2_bits_low by lia. rewrite Z.land_spec. reflexivity.
  - rewrite !Z.mod_pow2_bits_high by lia. reflexivity.
Qed.

Lemma lor_mod : forall w a b, 0 <= w ->
  Z.lor (a mod 2 ^ w) (b mod 2 ^ w) = (Z.lor a b) mod 2 ^ w.
Proof.
  intros w a b H. apply Z.bits_inj'. intros n Hn. rewrite Z.lor_spec.
  destruct (Z.lt_ge_cases n w).
  - rewrite !Z.mod_pow2_bits_low by lia. rewrite Z.lor_spec. reflexivity.
  - rewrite !Z.mod_pow2_bits_high by lia. reflexivity.
Qed.

Lemma lxor_mod : forall w a b, 0 <= w ->
  Z.lxor (a mod 2 ^ w) (b mod 2 ^ w) = (Z.lxor a b) mod 2 ^ w.
Proof.
  intros w a b H. apply Z.bits_inj'. intros n Hn. rewrite Z.lxor_spec.
  destruct (Z.lt_ge_cases n w).
  - rewrite !Z.mod_pow2_bits_low by lia. rewrite Z.lxor_spec. reflexivity.
  - rewrite !Z.mod_pow2_bits_high by lia. reflexivity.
Qed.

Lemma fold_int : forall o w a b v, 1 <= w -> py_operation o a b = Some v ->
  sem o w (wrap w a) (wrap w b) = Some (wrap w v).
Proof.
  intros o w a b v H Hop.
  destruct o; simpl in Hop; try discriminate; injection Hop as <-; unfold sem, wrap; f_equal.
  - symmetry. apply Zplus_mod.
  - symmetry. apply Zmult_mod.
  - symmetry. apply Zminus_mod.
  - apply land_mod. lia.
  - apply lor_mod. lia.
  - apply lxor_mod. lia.
Qed.

(* ------------------------------------------------------------------ *)
(* C. algebraic laws                                                   *)
(* ------------------------------------------------------------------ *)

Lemma sem_commutative : forall o w x y, commutative o = true -> sem o w x y = sem o w y x.
Proof.
  intros o w x y H. destruct o; simpl in H; try discriminate; unfold sem.
  - rewrite Z.add_comm. reflexivity.
  - rewrite Z.mul_comm. reflexivity.
  - rewrite Z.land_comm. reflexivity.
  - rewrite Z.lor_comm. reflexivity.
  - rewrite Z.lxor_comm. reflexivity.
Qed.

(* signed reading of the bit pattern 1 *)
Lemma sgn_one : forall w, 2 <= w -> sgn w 1 = 1.
Proof.
  intros w H. unfold sgn.
  assert (2 ^ (w - 1) = 2 * 2 ^ (w - 1 - 1)) by (apply pow2_split; lia).
  assert (0 < 2 ^ (w - 1 - 1)) by (apply pow2_pos; lia).
  destruct (1 <? 2 ^ (w - 1)) eqn:E; lia.
Qed.

Lemma pattern_range_1 : forall x, pattern_range 1 x -> x = 0 \/ x = 1.
Proof. unfold pattern_range. intros x H. change (2 ^ 1) with 2 in H. lia. Qed.

Lemma sdiv_undef_one : forall w sx, sdiv_undef w sx 1 = false.
Proof. intros. unfold sdiv_undef. rewrite andb_false_r. reflexivity. Qed.

(* the operations whose unit is the attribute 1 : x op 1 = x *)
Lemma right_unit_one : forall o w x r, 1 <= w -> pattern_range w x ->
  (o = MuliOp \/ o = DivUIOp \/ o = DivSIOp \/ o = FloorDivSIOp \/ o = CeilDivSIOp \/ o = CeilDivUIOp) ->
  sem o w x 1 = Some r -> r = x.
Proof.
  intros o w x r H Hx Ho Hs.
  destruct (Z.eq_dec w 1) as [->|Hw].
  - apply pattern_range_1 in Hx.
    destruct Hx as [-> | ->]; repeat (destruct Ho as [-> | Ho]); try subst o;
      vm_compute in Hs; congruence.
  - assert (S1 : sgn w 1 = 1) by (apply sgn_one; lia).
    repeat (destruct Ho as [-> | Ho]); try subst o; unfold sem in Hs;
      rewrite ?S1, ?sdiv_undef_one in Hs; simpl in Hs; injection Hs as <-.
    + rewrite Z.mul_1_r. apply wrap_small, Hx.
    + apply Z.div_1_r.
    + rewrite Z.quot_1_r. apply wrap_sgn_pat, Hx.
    + rewrite Z.div_1_r. apply wrap_sgn_pat, Hx.
    + rewrite Z.div_1_r, Z.opp_involutive. apply wrap_sgn_pat, Hx.
    + rewrite Z.div_1_r, Z.opp_involutive. apply wrap_small, Hx.
Qed.

(* the operations whose unit is the attribute 0 : x op 0 = x *)
Lemma right_unit_zero : forall o w x r, 1 <= w -> pattern_range w x ->
  (o = AddiOp \/ o = SubiOp \/ o = OrIOp \/ o = XOrIOp \/ o = ShLIOp \/ o = ShRUIOp \/ o = ShRSIOp) ->
  sem o w x 0 = Some r -> r = x.
Proof.
  intros o w x r H Hx Ho Hs.
  assert (W : (w <=? 0) = false) by lia.
  repeat (destruct Ho as [-> | Ho]); try subst o; unfold sem in Hs;
    rewrite ?W in Hs; injection Hs as <-.
  - rewrite Z.add_0_r. apply wrap_small, Hx.
  - rewrite Z.sub_0_r. apply wrap_small, Hx.
  - apply Z.lor_0_r.
  - apply Z.lxor_0_r.
  - rewrite ?Z.shiftl_0_r. apply wrap_small, Hx.
  - rewrite ?Z.shiftr_0_r. reflexivity.
  - rewrite ?Z.shiftr_0_r. apply wrap_sgn_pat, Hx.
Qed.

Lemma right_unit : forall o ty w a x r, 1 <= w -> ty_width ty w -> pattern_range w x ->
  is_right_unit o ty a = true -> sem o w x (wrap w a) = Some r -> r = x.
Proof.
  intros o ty w a x r H Hty Hx Hu Hs.
  assert (U1 : a = int_attr ty 1 false -> wrap w a = 1)
    by (intros ->; apply wrap_int_attr_one; assumption).
  destruct o; simpl in Hu; try discriminate; apply Z.eqb_eq in Hu;
    first [ rewrite (U1 Hu) in Hs; apply (right_unit_one _ w x r H Hx) in Hs; [exact Hs|tauto]
          | subst a; rewrite wrap_0 in Hs; apply (right_unit_zero _ w x r H Hx) in Hs; [exact Hs|tauto] ].
Qed.

Lemma left_unit : forall o ty w a x r, 1 <= w -> ty_width ty w -> pattern_range w x ->
  commutative o = true -> is_right_unit o ty a = true -> sem o w (wrap w a) x = Some r -> r = x.
Proof.
  intros o ty w a x r H Hty Hx Hc Hu Hs. rewrite sem_commutative in Hs by assumption.
  eapply right_unit; eassumption.
Qed.

Lemma right_zero : forall o ty w a x r, 1 <= w -> ty_width ty w -> pattern_range w x ->
  is_right_zero o ty a = true -> sem o w x (wrap w a) = Some r -> r = wrap w a.
Proof.
  intros o ty w a x r H Hty Hx Hz Hs.
  destruct o; simpl in Hz; try discriminate; apply Z.eqb_eq in Hz; subst a;
    rewrite wrap_0 in *; unfold sem in Hs; injection Hs as <-.
  - rewrite Z.mul_0_r. apply wrap_0.
  - apply Z.land_0_r.
Qed.

(* ------------------------------------------------------------------ *)
(* D. the folder and the two integer patterns                          *)
(* ------------------------------------------------------------------ *)

(* the part of `fold` after the constant-constant case (it occurs three times in the if-tree) *)
Definition fold_tail (o : binop) (ty : ity) (l r : option Z) : outcome :=
  if issome r && is_right_unit o ty (oget r) then ReplLhs
  else if negb (commutative o) then NoChange
  else if issome l && is_right_unit o ty (oget l) then ReplRhs else NoChange.

Lemma fold_unfold : forall o ty l r,
  fold o ty l r =
  match l, r with
  | Some a, Some b =>
      match py_operation o a b with
      | Some v => ReplConst (int_attr ty v true)
      | None => fold_tail o ty l r
      end
  | _, _ => fold_tail o ty l r
  end.
Proof.
  intros o ty l r. unfold fold, fold_tail.
  destruct l as [a|], r as [b|]; simpl; try reflexivity.
  destruct (py_operation o a b); reflexivity.
Qed.

Lemma fold_tail_sound : forall o ty w lhs_c rhs_c x y r, 1 <= w -> ty_width ty w ->
  pattern_range w x -> pattern_range w y -> is_const w lhs_c x -> is_const w rhs_c y ->
  sem o w x y = Some r ->
  fold_tail o ty lhs_c rhs_c = NoChange \/ out_val w x y 0 (fold_tail o ty lhs_c rhs_c) = Some r.
Proof.
  intros o ty w l rc x y r H Hty Hx Hy Hl Hr Hs. unfold fold_tail.
  destruct (issome rc && is_right_unit o ty (oget rc)) eqn:E1.
  - right. apply andb_prop in E1. destruct E1 as [E0 E1].
    destruct rc as [b|]; [|discriminate]. simpl in *. subst y.
    f_equal. symmetry. eapply right_unit; eassumption.
  - destruct (commutative o) eqn:Ec; simpl; [|left; reflexivity].
    destruct (issome l && is_right_unit o ty (oget l)) eqn:E2; [|left; reflexivity].
    right. apply andb_prop in E2. destruct E2 as [E0 E2].
    destruct l as [a|]; [|discriminate]. simpl in *. subst x.
    f_equal. symmetry. eapply left_unit; eassumption.
Qed.

Lemma const_const_sound : forall o ty w a b v r, 1 <= w -> ty_width ty w ->
  py_operation o a b = Some v -> sem o w (wrap w a) (wrap w b) = Some r ->
  wrap w (int_attr ty v true) = r.
Proof.
  intros o ty w a b v r H Hty Hop Hs.
  rewrite (fold_int o w a b v H Hop) in Hs. injection Hs as <-.
  apply wrap_int_attr_trunc; assumption.
Qed.

Lemma fold_sound : forall o ty w lhs_c rhs_c x y r, 1 <= w -> ty_width ty w ->
  pattern_range w x -> pattern_range w y -> is_const w lhs_c x -> is_const w rhs_c y ->
  sem o w x y = Some r ->
  fold o ty lhs_c rhs_c = NoChange \/ out_val w x y 0 (fold o ty lhs_c rhs_c) = Some r.
Proof.
  intros o ty w l rc x y r H Hty Hx Hy Hl Hr Hs. rewrite fold_unfold.
  pose proof (fold_tail_sound o ty w l rc x y r H Hty Hx Hy Hl Hr Hs) as T.
  destruct l as [a|]; [|exact T]. destruct rc as [b|]; [|exact T].
  destruct (py_operation o a b) as [v|] eqn:Eop; [|exact T].
  right. simpl in Hl, Hr. subst x y. simpl. f_equal.
  eapply const_const_sound; eassumption.
Qed.

Lemma zero_or_unit_right_sound : forall o ty w rhs_c x y r, 1 <= w -> ty_width ty w ->
  pattern_range w x -> pattern_range w y -> is_const w rhs_c y -> sem o w x y = Some r ->
  pat_zero_or_unit_right o ty rhs_c = NoChange \/ out_val w x y 0 (pat_zero_or_unit_right o ty rhs_c) = Some r.
Proof.
  intros o ty w rc x y r H Hty Hx Hy Hr Hs. unfold pat_zero_or_unit_right.
  destruct rc as [b|]; simpl; [|left; reflexivity]. simpl in Hr. subst y.
  destruct (is_right_zero o ty b) eqn:Ez.
  - right. simpl. f_equal. symmetry. apply (right_zero o ty w b x r); assumption.
  - destruct (is_right_unit o ty b) eqn:Eu; [|left; reflexivity].
    right. simpl. f_equal. symmetry. apply (right_unit o ty w b x r); assumption.
Qed.

Lemma constant_prop_sound : forall o ty w lhs_c rhs_c x y r, 1 <= w -> ty_width ty w ->
  pattern_range w x -> pattern_range w y -> is_const w lhs_c x -> is_const w rhs_c y ->
  sem o w x y = Some r ->
  pat_constant_prop o ty lhs_c rhs_c = NoChange \/
  (pat_constant_prop o ty lhs_c rhs_c = NewSwapped /\ sem o w y x = Some r) \/
  out_val w x y 0 (pat_constant_prop o ty lhs_c rhs_c) = Some r.
Proof.
  intros o ty w l rc x y r H Hty Hx Hy Hl Hr Hs. unfold pat_constant_prop.
  destruct l as [a|]; simpl; [|left; reflexivity].
  destruct rc as [b|]; simpl.
  - destruct (py_operation o a b) as [v|] eqn:Eop; simpl; [|left; reflexivity].
    right. right. simpl in Hl, Hr. subst x y. f_equal.
    eapply const_const_sound; eassumption.
  - destruct (commutative o) eqn:Ec; simpl; [|left; reflexivity].
    right. left. split; [reflexivity|]. rewrite sem_commutative by assumption. exact Hs.
Qed.

(* ------------------------------------------------------------------ *)
(* E. select / cmpi patterns                                           *)
(* ------------------------------------------------------------------ *)

Lemma select_const_sound : forall a x y, i1_stored a ->
  out_val 1 x y (wrap 1 a) (pat_select_const (Some a)) = Some (select_sem (wrap 1 a) x y).
Proof. intros a x y [-> | ->]; reflexivity. Qed.

Lemma select_const_nochange : pat_select_const None = NoChange.
Proof. reflexivity. Qed.

Lemma ity_eqb_true : forall a b, ity_eqb a b = true -> a = b.
Proof.
  intros [x|] [y|]; simpl; intros E; try discriminate; [|reflexivity].
  apply Z.eqb_eq in E. subst. reflexivity.
Qed.

Lemma select_true_false_sound : forall ty l r c, i1_stored l -> i1_stored r -> (c = 0 \/ c = 1) ->
  let o := pat_select_true_false ty (Some l) (Some r) in
  let s := select_sem c (wrap 1 l) (wrap 1 r) in
  o = NoChange \/ (o = ReplCond /\ s = c) \/ (o = NewXoriCondRhs /\ ty = TInt 1 /\ s = Z.lxor c (wrap 1 r)).
Proof.
  intros ty l r c Hl Hr Hc. cbv zeta. unfold pat_select_true_false.
  destruct (ity_eqb ty (TInt 1)) eqn:Ety; simpl; [|left; reflexivity].
  apply ity_eqb_true in Ety.
  destruct Hl as [-> | ->], Hr as [-> | ->], Hc as [-> | ->]; simpl;
    first [ left; reflexivity
          | right; left; split; reflexivity
          | right; right; split; [reflexivity|split; [assumption|reflexivity]] ].
Qed.

Lemma select_true_false_nochange : forall ty l r, (l = None \/ r = None) -> pat_select_true_false ty l r = NoChange.
Proof.
  intros ty l r H. unfold pat_select_true_false.
  destruct (ity_eqb ty (TInt 1)); simpl; [|reflexivity].
  destruct H as [-> | ->]; simpl; [reflexivity|]. rewrite orb_true_r. reflexivity.
Qed.

Lemma select_same_sound : forall c x, out_val 1 x x c (pat_select_same true) = Some (select_sem c x x)
                                   /\ pat_select_same false = NoChange.
Proof.
  intros c x. split; [|reflexivity]. simpl. unfold select_sem. destruct (c =? 0); reflexivity.
Qed.

Lemma cmpi_sem_pred : forall pred w x y b, cmpi_sem pred w x y = Some b ->
  pred = 0 \/ pred = 1 \/ pred = 2 \/ pred = 3 \/ pred = 4 \/ pred = 5 \/ pred = 6 \/ pred = 7 \/
  pred = 8 \/ pred = 9.
Proof.
  intros pred w x y b H. unfold cmpi_sem in H.
  destruct pred as [|p|p]; [tauto| |discriminate].
  do 4 (try destruct p as [p|p|]); try discriminate; tauto.
Qed.

Lemma cmpi_equal_operands_sound : forall pred w x b, 1 <= w -> cmpi_sem pred w x x = Some b ->
  exists v, pat_cmpi_equal_operands true pred = ReplConst v /\ i1_stored v /\ (negb (wrap 1 v =? 0)) = b.
Proof.
  intros pred w x b H Hs. pose proof (cmpi_sem_pred _ _ _ _ _ Hs) as Hp.
  repeat (destruct Hp as [-> | Hp]); try subst pred; simpl in Hs; injection Hs as <-;
    eexists; (split; [reflexivity|]); (split; [unfold i1_stored; tauto|]);
    rewrite ?Z.eqb_refl, ?Z.ltb_irrefl, ?Z.leb_refl; reflexivity.
Qed.

Lemma cmpi_equal_operands_nochange : forall pred, pat_cmpi_equal_operands false pred = NoChange.
Proof. reflexivity. Qed.

Lemma fold_tail_no_conflict : forall o ty l r, fold_tail o ty l r <> Conflict.
Proof.
  intros. unfold fold_tail.
  destruct (issome r && _); [discriminate|]. destruct (negb _); [discriminate|].
  destruct (issome l && _); discriminate.
Qed.

Lemma no_conflict : forall o ty l r c s p,
  fold o ty l r <> Conflict /\ pat_zero_or_unit_right o ty r <> Conflict /\
  pat_constant_prop o ty l r <> Conflict /\ pat_select_const c <> Conflict /\
  pat_select_true_false ty l r <> Conflict /\ pat_select_same s <> Conflict /\
  pat_cmpi_equal_operands s p <> Conflict.
Proof.
  intros o ty l r c s p. repeat split.
  - rewrite fold_unfold. pose proof (fold_tail_no_conflict o ty l r) as T.
    destruct l; [|exact T]. destruct r; [|exact T].
    destruct (py_operation o z z0); [discriminate|exact T].
  - unfold pat_zero_or_unit_right. destruct (isnone r); [discriminate|].
    destruct (is_right_zero _ _ _); [discriminate|].
    destruct (is_right_unit _ _ _); discriminate.
  - unfold pat_constant_prop. destruct (isnone l); [discriminate|].
    destruct (isnone r).
    + destruct (commutative o); discriminate.
    + destruct (isnone _); discriminate.
  - unfold pat_select_const. destruct (isnone c); [discriminate|].
    destruct (negb _); discriminate.
  - unfold pat_select_true_false. destruct (negb _); [discriminate|].
    destruct (isnone l || isnone r); [discriminate|].
    destruct (oget l =? 0), (oget r =? 0); discriminate.
  - destruct s; discriminate.
  - destruct s; discriminate.
Qed.

(* ------------------------------------------------------------------ *)
(* F. constant-fold-interp                                             *)
(* ------------------------------------------------------------------ *)

Lemma to_signed_cf : forall w z, 1 <= w ->
  to_signed z w = (z + 2 ^ (w - 1)) mod 2 ^ w - 2 ^ (w - 1).
Proof. intros w z H. unfold to_signed. rewrite uub_pow, half_pow by lia. reflexivity. Qed.

Lemma to_signed_canonical : forall w z, 1 <= w -> canonical w (to_signed z w).
Proof.
  intros w z H. rewrite to_signed_cf by lia. unfold canonical. pw w.
  pose proof (Z.mod_pos_bound (z + 2 ^ (w - 1)) (2 ^ w) ltac:(lia)). lia.
Qed.

Lemma to_signed_id : forall w a, 1 <= w -> canonical w a -> to_signed a w = a.
Proof.
  intros w a H Ha. rewrite to_signed_cf by lia. unfold canonical in Ha. pw w.
  rewrite Z.mod_small by lia. lia.
Qed.

Lemma wrap_to_signed : forall w z, 1 <= w -> wrap w (to_signed z w) = wrap w z.
Proof.
  intros w z H. rewrite to_signed_cf by lia. unfold wrap.
  rewrite Zminus_mod_idemp_l. f_equal. lia.
Qed.

Lemma in_range_canonical : forall w v, 1 <= w -> canonical w v -> in_range_cf w v = true.
Proof. intros w v H Hv. unfold canonical in Hv. unfold in_range_cf. pw w. lia. Qed.

Lemma checked_attr_old_canonical : forall w v, 1 <= w -> canonical w v ->
  checked_attr_old (TInt w) v = Folded v.
Proof.
  intros w v H Hv. unfold checked_attr_old.
  rewrite in_signless_range_cf, in_range_canonical by assumption.
  rewrite int_attr_canonical by assumption. reflexivity.
Qed.

Lemma checked_attr_old_folded : forall w z v, 1 <= w -> checked_attr_old (TInt w) z = Folded v ->
  wrap w v = wrap w z.
Proof.
  intros w z v H E. unfold checked_attr_old in E.
  destruct (in_signless_range w z) eqn:R; [|discriminate]. injection E as <-.
  rewrite in_signless_range_cf in R by lia. unfold in_range_cf in R.
  apply int_attr_notrunc; lia.
Qed.

Lemma checked_attr_old_raised : forall w z,
  (exists e, checked_attr_old (TInt w) z = Raised e) <-> in_signless_range w z = false.
Proof.
  intros w z. unfold checked_attr_old. destruct (in_signless_range w z); split.
  - intros [e E]. discriminate.
  - discriminate.
  - reflexivity.
  - intros _. eexists. reflexivity.
Qed.

(* what the pass computes, per operation *)
Lemma cfi_arith : forall o w a b v, 1 <= w -> canonical w a -> canonical w b ->
  py_operation o a b = Some v -> cfi_binop_old o (TInt w) a b = Folded (to_signed v w).
Proof.
  intros o w a b v H Ha Hb Hop.
  destruct o; simpl in Hop; try discriminate; injection Hop as <-;
    unfold cfi_binop_old; cbn [pure_trait negb width_of interp_run_old interp_impl];
    rewrite (to_signed_id w a), (to_signed_id w b) by assumption;
    apply checked_attr_old_canonical; try assumption; apply to_signed_canonical; assumption.
Qed.

Lemma cfi_shli : forall ty a b, cfi_binop_old ShLIOp ty a b =
  if b >=? 0 then checked_attr_old ty (Z.shiftl a b) else Raised EXC_Assertion.
Proof. intros. unfold cfi_binop_old. cbn [pure_trait negb interp_run_old interp_impl]. destruct (b >=? 0); reflexivity. Qed.

Lemma cfi_shrsi : forall ty a b, cfi_binop_old ShRSIOp ty a b =
  if b >=? 0 then checked_attr_old ty (Z.shiftr a b) else Raised EXC_Assertion.
Proof. intros. unfold cfi_binop_old. cbn [pure_trait negb interp_run_old interp_impl]. destruct (b >=? 0); reflexivity. Qed.

Lemma cfi_remsi : forall ty a b, cfi_binop_old RemSIOp ty a b =
  if negb (b =? 0) then checked_attr_old ty (a - trunc_div_py a b * b) else Raised EXC_Assertion.
Proof. intros. unfold cfi_binop_old. cbn [pure_trait negb interp_run_old interp_impl]. destruct (negb (b =? 0)); reflexivity. Qed.

Lemma cfi_floordivsi : forall ty a b, cfi_binop_old FloorDivSIOp ty a b =
  if negb (b =? 0) then checked_attr_old ty (a / b) else Raised EXC_Assertion.
Proof. intros. unfold cfi_binop_old. cbn [pure_trait negb interp_run_old interp_impl]. destruct (negb (b =? 0)); reflexivity. Qed.

(* Python's emulation of truncating division is Z.quot *)
Lemma trunc_div_py_quot : forall a b, b <> 0 -> trunc_div_py a b = Z.quot a b.
Proof.
  intros a b Hb. unfold trunc_div_py. rewrite Z.quot_div by assumption.
  assert (Hq : a = 0 -> Z.abs a / Z.abs b = 0) by (intros ->; reflexivity).
  generalize dependent (Z.abs a / Z.abs b). intros q Hq.
  destruct (Z.sgn_spec a) as [[Ha ->]|[[Ha ->]|[Ha ->]]];
  destruct (Z.sgn_spec b) as [[Hb' ->]|[[Hb' ->]|[Hb' ->]]]; try lia;
  destruct (a >? 0) eqn:Ea; destruct (b >? 0) eqn:Eb; try lia; cbn [Bool.eqb negb]; lia.
Qed.

Lemma py_rem : forall a b, b <> 0 -> a - trunc_div_py a b * b = Z.rem a b.
Proof.
  intros a b Hb. rewrite trunc_div_py_quot by assumption.
  pose proof (Z.quot_rem' a b). lia.
Qed.

Lemma rem_canonical : forall w a b, b <> 0 -> canonical w a -> canonical w (Z.rem a b).
Proof.
  intros w a b Hb Ha. unfold canonical in *.
  pose proof (Z.rem_sign_mul a b Hb) as S.
  assert (L : Z.abs (Z.rem a b) <= Z.abs a).
  { rewrite <- Z.rem_abs by assumption. apply Z.rem_le; lia. }
  destruct (Z.lt_trichotomy a 0) as [N|[N|N]]; nia.
Qed.

Lemma div_abs_le : forall a b, b <> 0 -> - Z.abs a <= a / b <= Z.abs a.
Proof.
  assert (P : forall a d, 0 < d -> - Z.abs a <= a / d <= Z.abs a).
  { intros a d Hd. pose proof (Z.div_mod a d ltac:(lia)).
    pose proof (Z.mod_pos_bound a d Hd). nia. }
  intros a b Hb. destruct (Z.lt_ge_cases 0 b).
  - apply P; lia.
  - rewrite <- Z.div_opp_opp by lia. specialize (P (- a) (- b)).
    rewrite Z.abs_opp in P. apply P. lia.
Qed.

Lemma floordiv_in_range : forall w a b, 1 <= w -> b <> 0 -> canonical w a ->
  in_range_cf w (a / b) = true.
Proof.
  intros w a b H Hb Ha. unfold canonical in Ha. unfold in_range_cf. pw w.
  pose proof (div_abs_le a b Hb). lia.
Qed.

Lemma shiftr_canonical : forall w a b, 0 <= b -> canonical w a -> canonical w (Z.shiftr a b).
Proof.
  intros w a b Hb Ha. unfold canonical in *. rewrite Z.shiftr_div_pow2 by assumption.
  assert (Hd : 0 < 2 ^ b) by (apply pow2_pos; assumption).
  pose proof (Z.div_mod a (2 ^ b) ltac:(lia)).
  pose proof (Z.mod_pos_bound a (2 ^ b) Hd). nia.
Qed.

Lemma cfi_raises_iff : forall o w a b, 1 <= w -> canonical w a -> canonical w b ->
  ((exists e, cfi_binop_old o (TInt w) a b = Raised e) <->
   (o = ShLIOp /\ (b < 0 \/ in_signless_range w (Z.shiftl a b) = false)) \/
   (o = ShRSIOp /\ b < 0) \/
   ((o = RemSIOp \/ o = FloorDivSIOp) /\ b = 0)).
Proof.
  intros o w a b H Ha Hb.
  assert (NR : forall v, cfi_binop_old o (TInt w) a b = Folded v \/ cfi_binop_old o (TInt w) a b = Unchanged ->
               o <> ShLIOp -> o <> ShRSIOp -> o <> RemSIOp -> o <> FloorDivSIOp ->
    ((exists e, cfi_binop_old o (TInt w) a b = Raised e) <->
     (o = ShLIOp /\ (b < 0 \/ in_signless_range w (Z.shiftl a b) = false)) \/
     (o = ShRSIOp /\ b < 0) \/
     ((o = RemSIOp \/ o = FloorDivSIOp) /\ b = 0))).
  { intros v E N1 N2 N3 N4. split.
    - intros [e E']. destruct E as [E|E]; rewrite E in E'; discriminate.
    - intros [[E' _]|[[E' _]|[[E'|E'] _]]]; contradiction. }
  destruct o;
    try (apply (NR 0); [right; reflexivity|discriminate..]);
    try (match goal with |- context [cfi_binop_old ?o' _ _ _] =>
           destruct (py_operation o' a b) as [z|] eqn:Eop; [|discriminate Eop];
           apply (NR (to_signed z w)); [left; apply cfi_arith; assumption|discriminate..]
         end);
    clear NR.
  - (* FloorDivSIOp *)
    rewrite cfi_floordivsi. destruct (b =? 0) eqn:Eb; cbn [negb].
    + split; [intros _|intros _; eexists; reflexivity].
      right. right. split; [tauto|lia].
    + unfold checked_attr_old. rewrite in_signless_range_cf, floordiv_in_range by (assumption || lia).
      split; [intros [e E]; discriminate|].
      intros [[E' _]|[[E' _]|[_ E']]]; try discriminate. lia.
  - (* RemSIOp *)
    rewrite cfi_remsi. destruct (b =? 0) eqn:Eb; cbn [negb].
    + split; [intros _|intros _; eexists; reflexivity].
      right. right. split; [tauto|lia].
    + rewrite py_rem by lia. rewrite checked_attr_old_canonical by first [assumption | apply rem_canonical; [lia|assumption]].
      split; [intros [e E]; discriminate|].
      intros [[E' _]|[[E' _]|[_ E']]]; try discriminate. lia.
  - (* ShLIOp *)
    rewrite cfi_shli. destruct (b >=? 0) eqn:Eb.
    + rewrite checked_attr_old_raised. split.
      * intros R. left. split; [reflexivity|right; exact R].
      * intros [[_ [E'|E']]|[[E' _]|[[E'|E'] _]]]; try discriminate; [lia|exact E'].
    + split; [intros _|intros _; eexists; reflexivity].
      left. split; [reflexivity|left; lia].
  - (* ShRSIOp *)
    rewrite cfi_shrsi. destruct (b >=? 0) eqn:Eb.
    + rewrite checked_attr_old_canonical by first [assumption | apply shiftr_canonical; [lia|assumption]].
      split; [intros [e E]; discriminate|].
      intros [[E' _]|[[_ E']|[[E'|E'] _]]]; try discriminate. lia.
    + split; [intros _|intros _; eexists; reflexivity].
      right. left. split; [reflexivity|lia].
Qed.

Lemma cfi_value_sound : forall o w a b v r, 1 <= w -> canonical w a -> canonical w b ->
  cfi_binop_old o (TInt w) a b = Folded v -> sem o w (wrap w a) (wrap w b) = Some r -> wrap w v = r.
Proof.
  intros o w a b v r H Ha Hb E Hs.
  destruct (py_operation o a b) as [z|] eqn:Eop.
  { rewrite (cfi_arith o w a b z H Ha Hb Eop) in E. injection E as <-.
    rewrite (fold_int o w a b z H Eop) in Hs. injection Hs as <-.
    apply wrap_to_signed. assumption. }
  destruct o; simpl in Eop; try discriminate; clear Eop;
    try (exfalso; clear - E; unfold cfi_binop_old in E;
         cbn [pure_trait negb interp_run_old interp_impl] in E; discriminate E);
    unfold sem in Hs; cbv zeta in Hs; rewrite ?sgn_wrap in Hs by assumption.
  - (* FloorDivSIOp *)
    rewrite cfi_floordivsi in E. destruct (negb (b =? 0)); [|discriminate].
    apply checked_attr_old_folded in E; [|assumption]. rewrite E.
    destruct (sdiv_undef w a b); [discriminate|]. injection Hs as <-. reflexivity.
  - (* RemSIOp *)
    rewrite cfi_remsi in E. destruct (negb (b =? 0)) eqn:Eb; [|discriminate].
    apply checked_attr_old_folded in E; [|assumption]. rewrite E, py_rem by lia.
    destruct (sdiv_undef w a b); [discriminate|]. injection Hs as <-. reflexivity.
  - (* ShLIOp *)
    rewrite cfi_shli in E. destruct (b >=? 0) eqn:Eb; [|discriminate].
    apply checked_attr_old_folded in E; [|assumption]. rewrite E.
    assert (Wb : wrap w b = b).
    { rewrite wrap_canonical by assumption. destruct (b <? 0) eqn:E2; lia. }
    rewrite Wb in Hs. destruct (w <=? b); [discriminate|]. injection Hs as <-.
    rewrite !Z.shiftl_mul_pow2 by lia. unfold wrap. rewrite Zmult_mod_idemp_l. reflexivity.
  - (* ShRSIOp *)
    rewrite cfi_shrsi in E. destruct (b >=? 0) eqn:Eb; [|discriminate].
    apply checked_attr_old_folded in E; [|assumption]. rewrite E.
    assert (Wb : wrap w b = b).
    { rewrite wrap_canonical by assumption. destruct (b <? 0) eqn:E2; lia. }
    rewrite Wb in Hs. destruct (w <=? b); [discriminate|]. injection Hs as <-. reflexivity.
Qed.

Lemma cfi_index_unchanged_or_raises : forall o a b v, cfi_binop_old o TIndex a b <> Folded v.
Proof.
  intros o a b v. unfold cfi_binop_old.
  destruct (negb (pure_trait o)); [discriminate|].
  destruct (interp_run_old o (width_of TIndex) a b); discriminate.
Qed.

Lemma cfi_shli_refuted : cfi_binop_old ShLIOp (TInt 8) 100 2 = Raised EXC_Verify /\ sem ShLIOp 8 (wrap 8 100) (wrap 8 2) = Some 144.
Proof. split; vm_compute; reflexivity. Qed.

Lemma cfi_floordivsi_refuted : cfi_binop_old FloorDivSIOp (TInt 8) 7 0 = Raised EXC_Assertion.
Proof. vm_compute. reflexivity. Qed.

Lemma cfi_cmpi_old_refuted : cfi_cmpi_old 6 100 (-3) = Folded 0 /\ cmpi_sem 6 8 (wrap 8 100) (wrap 8 (-3)) = Some true.
Proof. split; vm_compute; reflexivity. Qed.

Lemma checked_attr_bool : forall c : bool,
  checked_attr (TInt 1) (if c then 1 else 0) = Folded (if c then -1 else 0).
Proof. intros [|]; vm_compute; reflexivity. Qed.

Lemma cfi_cmpi_old_sound_partial : forall pred w a b v r, 1 <= w -> canonical w a -> canonical w b ->
  (pred < 6 \/ (0 <= a /\ 0 <= b) \/ (a < 0 /\ b < 0)) ->
  cfi_cmpi_old pred a b = Folded v -> cmpi_sem pred w (wrap w a) (wrap w b) = Some r ->
  i1_stored v /\ negb (wrap 1 v =? 0) = r.
Proof.
  intros pred w a b v r H Ha Hb Hp E Hs.
  assert (G : forall c : bool, c = r -> Folded (if c then -1 else 0) = Folded v ->
              i1_stored v /\ negb (wrap 1 v =? 0) = r).
  { intros c <- F. injection F as <-. destruct c; (split; [unfold i1_stored; tauto|reflexivity]). }
  pose proof (cmpi_sem_pred _ _ _ _ _ Hs) as Hpred.
  unfold cmpi_sem in Hs. rewrite !sgn_wrap in Hs by assumption.
  pose proof (wrap_canonical w a H Ha) as Wa. pose proof (wrap_canonical w b H Hb) as Wb.
  unfold canonical in Ha, Hb. pw w.
  unfold cfi_cmpi_old in E.
  repeat (destruct Hpred as [-> | Hpred]); try subst pred;
    cbn [interp_cmpi_old] in E; rewrite checked_attr_bool in E;
    injection Hs as <-; (eapply G; [|exact E]);
    destruct (a <? 0) eqn:Ea; destruct (b <? 0) eqn:Eb; lia.
Qed.

Lemma cfi_cmpi_old_never_raises : forall pred a b e, cfi_cmpi_old pred a b <> Raised e.
Proof.
  intros pred a b e. unfold cfi_cmpi_old.
  destruct (interp_cmpi_old pred a b) as [c|]; [|discriminate].
  rewrite checked_attr_bool. discriminate.
Qed.

(* ------------------------------------------------------------------ *)
(* G. the test constant-folding passes on arith.addi                   *)
(* ------------------------------------------------------------------ *)

Lemma tcf_refuted : tcf_addi_old (TInt 8) (OConst 100) OArg = Raised EXC_Other /\
  tcf_addi_old (TInt 8) (OConst 100) OOp = Raised EXC_Assertion /\
  tcf_addi_old (TInt 8) (OConst (-100)) (OConst (-100)) = Raised EXC_Verify.
Proof. repeat split; vm_compute; reflexivity. Qed.

Lemma tcf_partial : forall w a b, 1 <= w -> - 2 ^ (w - 1) <= a + b < 2 ^ w ->
  exists v, tcf_addi_old (TInt w) (OConst a) (OConst b) = Folded v /\ wrap w v = wrap w (a + b) /\ canonical w v.
Proof.
  intros w a b H R. unfold tcf_addi_old. rewrite in_signless_range_cf by assumption.
  assert (E : in_range_cf w (a + b) = true) by (unfold in_range_cf; lia).
  rewrite E. eexists. split; [reflexivity|]. apply int_attr_notrunc; assumption.
Qed.

Lemma tscf_partial : forall a b, tscf_addi (OConst a) (OConst b) = Folded (a + b).
Proof. reflexivity. Qed.

(* ------------------------------------------------------------------------------------------------
   H. the REPAIRED passes (commits af5e19c, 20a3e4d): full-strength leave-in-place statements.
   The lemmas of parts F/G above that mention cfi_binop_old / checked_attr_old / tcf_addi_old are the
   recorded refutations of the code before those commits. *)
Lemma checked_attr_vs_old : forall ty v,
  checked_attr ty v = match checked_attr_old ty v with Raised _ => Unchanged | x => x end.
Proof.
  intros ty v. unfold checked_attr, checked_attr_old. destruct ty as [w|]; [|reflexivity].
  destruct (in_signless_range w v); reflexivity.
Qed.

(* on canonical constants the current interpreter agrees with the old one except for shli *)
Lemma interp_run_canonical : forall o w a b, 1 <= w -> canonical w a -> canonical w b -> o <> ShLIOp ->
  interp_run o w a b = interp_run_old o w a b.
Proof.
  intros o w a b H Ha Hb Ho. unfold interp_run, interp_run_old.
  destruct o; try reflexivity; try contradiction;
    cbv zeta; rewrite ?(to_signed_id w a H Ha), ?(to_signed_id w b H Hb); reflexivity.
Qed.

Lemma checked_attr_canonical : forall w v, 1 <= w -> canonical w v -> checked_attr (TInt w) v = Folded v.
Proof.
  intros w v H Hv. rewrite checked_attr_vs_old, checked_attr_old_canonical by assumption. reflexivity.
Qed.

(* constant-fold-interp never aborts on a binary integer op with constant operands, whatever they are *)
Lemma cfi_never_raises : forall o ty a b e, cfi_binop o ty a b <> Raised e.
Proof.
  intros o ty a b e. unfold cfi_binop.
  destruct (negb (pure_trait o)); [discriminate|].
  destruct (interp_run o (width_of ty) a b) as [v| |]; try discriminate.
  unfold checked_attr. destruct ty as [w|]; [|discriminate].
  destruct (in_signless_range w v); discriminate.
Qed.

Lemma cfi_binop_vs_old : forall o w a b, 1 <= w -> canonical w a -> canonical w b -> o <> ShLIOp ->
  cfi_binop o (TInt w) a b = match cfi_binop_old o (TInt w) a b with Raised _ => Unchanged | x => x end.
Proof.
  intros o w a b H Ha Hb Ho. unfold cfi_binop, cfi_binop_old.
  destruct (negb (pure_trait o)); [reflexivity|].
  cbn [width_of]. rewrite interp_run_canonical by assumption.
  destruct (interp_run_old o w a b) as [v| |]; try reflexivity.
  apply checked_attr_vs_old.
Qed.

Lemma cfi_shli_new : forall w a b, 1 <= w ->
  cfi_binop ShLIOp (TInt w) a b = if b >=? 0 then Folded (to_signed (Z.shiftl a b) w) else Unchanged.
Proof.
  intros w a b H. unfold cfi_binop. cbn [pure_trait negb interp_run interp_impl width_of].
  destruct (b >=? 0); [|reflexivity].
  apply checked_attr_canonical; [assumption|]. apply to_signed_canonical. assumption.
Qed.

(* and when it folds, the constant is the MLIR result *)
Lemma cfi_value_sound_new : forall o w a b v r, 1 <= w -> canonical w a -> canonical w b ->
  cfi_binop o (TInt w) a b = Folded v -> sem o w (wrap w a) (wrap w b) = Some r -> wrap w v = r.
Proof.
  intros o w a b v r H Ha Hb E Hs.
  assert (D : o = ShLIOp \/ o <> ShLIOp) by (destruct o; (left; reflexivity) || (right; discriminate)).
  destruct D as [-> | Ho].
  - rewrite cfi_shli_new in E by assumption. destruct (b >=? 0) eqn:Eb; [|discriminate].
    injection E as <-. rewrite wrap_to_signed by assumption.
    unfold sem in Hs; cbv zeta in Hs.
    assert (Wb : wrap w b = b).
    { rewrite wrap_canonical by assumption. destruct (b <? 0) eqn:E2; lia. }
    rewrite Wb in Hs. destruct (w <=? b); [discriminate|]. injection Hs as <-.
    rewrite !Z.shiftl_mul_pow2 by lia. unfold wrap. rewrite Zmult_mod_idemp_l. reflexivity.
  - rewrite cfi_binop_vs_old in E by assumption.
    destruct (cfi_binop_old o (TInt w) a b) as [v'| |e] eqn:Eo; try discriminate.
    inversion E; subst. exact (cfi_value_sound o w a b v r H Ha Hb Eo Hs).
Qed.

(* the cases that used to abort: left in place, or (shli, after 4351108) folded to the wrapped result *)
Lemma cfi_fixed_witnesses :
  cfi_binop ShLIOp (TInt 8) 100 2 = Folded (-112) /\ wrap 8 (-112) = 144 /\
  cfi_binop FloorDivSIOp (TInt 8) 7 0 = Unchanged /\
  cfi_binop ShLIOp (TInt 8) 1 (-1) = Unchanged /\ cfi_binop AddiOp (TInt 8) 100 100 = Folded (-56).
Proof. repeat split; vm_compute; reflexivity. Qed.

(* ---- cmpi with the current interpreter *)
Lemma cfi_cmpi_canonical : forall pred w a b, 1 <= w -> canonical w a -> canonical w b ->
  cfi_cmpi pred (TInt w) a b = cfi_cmpi_old pred a b.
Proof.
  intros pred w a b H Ha Hb. unfold cfi_cmpi, cfi_cmpi_old, interp_cmpi, interp_cmpi_old.
  cbn [width_of]. cbv zeta. rewrite (to_signed_id w a H Ha), (to_signed_id w b H Hb). reflexivity.
Qed.

Lemma cfi_cmpi_never_raises : forall pred ty a b e, cfi_cmpi pred ty a b <> Raised e.
Proof.
  intros pred ty a b e. unfold cfi_cmpi.
  destruct (interp_cmpi pred (width_of ty) a b) as [c|]; [|discriminate].
  rewrite checked_attr_bool. discriminate.
Qed.

(* canonical constants: correct for eq/ne/signed predicates, and for unsigned ones on operands of equal sign *)
Lemma cfi_cmpi_sound_partial : forall pred w a b v r, 1 <= w -> canonical w a -> canonical w b ->
  (pred < 6 \/ (0 <= a /\ 0 <= b) \/ (a < 0 /\ b < 0)) ->
  cfi_cmpi pred (TInt w) a b = Folded v -> cmpi_sem pred w (wrap w a) (wrap w b) = Some r ->
  i1_stored v /\ negb (wrap 1 v =? 0) = r.
Proof.
  intros pred w a b v r H Ha Hb Hp E Hs. rewrite cfi_cmpi_canonical in E by assumption.
  exact (cfi_cmpi_old_sound_partial pred w a b v r H Ha Hb Hp E Hs).
Qed.

(* after e4f2eb2: eq / ne / signed predicates are right for ANY representatives of the bit patterns *)
Lemma cfi_cmpi_signed_sound : forall pred w a b v r, 1 <= w -> pred < 6 ->
  cfi_cmpi pred (TInt w) a b = Folded v -> cmpi_sem pred w (wrap w a) (wrap w b) = Some r ->
  i1_stored v /\ negb (wrap 1 v =? 0) = r.
Proof.
  intros pred w a b v r H Hp E Hs.
  pose proof (to_signed_canonical w a H) as Ca. pose proof (to_signed_canonical w b H) as Cb.
  assert (E' : cfi_cmpi pred (TInt w) (to_signed a w) (to_signed b w) = Folded v).
  { rewrite <- E. unfold cfi_cmpi, interp_cmpi. cbn [width_of]. cbv zeta.
    rewrite (to_signed_id w _ H Ca), (to_signed_id w _ H Cb).
    pose proof (cmpi_sem_pred _ _ _ _ _ Hs) as Hpred.
    repeat (destruct Hpred as [-> | Hpred]); try subst pred; try reflexivity; lia. }
  rewrite <- (wrap_to_signed w a H), <- (wrap_to_signed w b H) in Hs.
  exact (cfi_cmpi_sound_partial pred w _ _ v r H Ca Cb (or_introl Hp) E' Hs).
Qed.

(* STILL wrong: an unsigned predicate on operands of different sign *)
Lemma cfi_cmpi_refuted : cfi_cmpi 6 (TInt 8) 100 (-3) = Folded 0 /\ cmpi_sem 6 8 (wrap 8 100) (wrap 8 (-3)) = Some true.
Proof. split; vm_compute; reflexivity. Qed.

(* fixed by e4f2eb2: non-canonical index constants compared with eq *)
Lemma cfi_cmpi_index_fixed :
  cfi_cmpi_old 0 18446744073709551615 (-1) = Folded 0 /\ cfi_cmpi 0 TIndex 18446744073709551615 (-1) = Folded (-1).
Proof. split; vm_compute; reflexivity. Qed.

(* test-constant-folding: never raises; folds exactly two constants, to the wrapped, canonical sum *)
Lemma tcf_never_raises : forall ty l r e, tcf_addi ty l r <> Raised e.
Proof. intros ty [a| |] [b| |] e; discriminate. Qed.

Lemma tcf_leaves_non_constants : forall ty l r,
  (forall a, l <> OConst a) \/ (forall b, r <> OConst b) -> tcf_addi ty l r = Unchanged.
Proof.
  intros ty [a| |] [b| |] [H|H]; try reflexivity;
    try (exfalso; eapply H; reflexivity).
Qed.

Lemma tcf_value : forall w a b, 1 <= w ->
  exists v, tcf_addi (TInt w) (OConst a) (OConst b) = Folded v /\ wrap w v = wrap w (a + b) /\ canonical w v.
Proof.
  intros w a b H. exists (int_attr (TInt w) (a + b) true). split; [reflexivity|].
  exact (int_attr_trunc w (a + b) H).
Qed.

(* the specialised variant is unchanged and still aborts on non-constant operands *)
Lemma tscf_refuted : tscf_addi (OConst 100) OArg = Raised EXC_Other /\ tscf_addi OOp (OConst 1) = Raised EXC_Assertion.
Proof. split; reflexivity. Qed.
