(* C14/Pre.v -- fixed prelude imported by the translator output coq/Gen/C14_Arith.v.
   Definitions only. *)
From Coq Require Import ZArith Bool.
Local Open Scope Z_scope.

(* the type of a scalar signless integer value: iN or index *)
Inductive ity := TInt (w : Z) | TIndex.
Definition ity_eqb (a b : ity) : bool :=
  match a, b with
  | TInt x, TInt y => x =? y
  | TIndex, TIndex => true
  | _, _ => false
  end.

(* what a folder / rewrite pattern did to the matched operation *)
Inductive outcome :=
| NoChange                      (* returned None / returned without touching the rewriter *)
| ReplLhs | ReplRhs | ReplCond  (* all uses replaced by that operand, op erased *)
| ReplConst (v : Z)             (* replaced by arith.constant of the result type with stored value v *)
| NewSwapped                    (* replaced by op.__class__(op.rhs, op.lhs) *)
| NewXoriCondRhs                (* replaced by arith.xori(op.cond, op.rhs) *)
| Conflict.                     (* two rewriter actions on the same op (would be an error) *)

(* sequencing of rewriter actions inside one match_and_rewrite *)
Definition seq_out (a b : outcome) : outcome :=
  match a, b with
  | NoChange, _ => b
  | _, NoChange => a
  | _, _ => Conflict
  end.

Definition issome (o : option Z) : bool := match o with Some _ => true | None => false end.
Definition isnone (o : option Z) : bool := negb (issome o).
(* payload of an optional; the translator only emits it under a test proving `issome` *)
Definition oget (o : option Z) : Z := match o with Some z => z | None => 0 end.
