(* C14/ModelFloat.v -- executable model of the float constant folder
   xdsl/transforms/canonicalization_patterns/arith.py::_fold_const_operation followed by
   FloatAttr(val, type) (xdsl/dialects/builtin.py).  Definitions only.

   Python float = IEEE binary64 = Coq's primitive `float` (PrimFloat); `+ - * /`, `==`, `<` of Python
   floats are the IEEE operations, i.e. PrimFloat.add/sub/mul/div/eqb/ltb.
   FloatAttr(val, f64) re-packs with '<d' (identity).  FloatAttr(val, f32) packs with '<f':
   CPython rounds the double to binary32 (nearest-even) and raises OverflowError when a finite
   double rounds to an infinity.  Binary32 values are `spec_float`s of format (24, 128). *)
From Coq Require Import ZArith Bool PrimFloat SpecFloat FloatOps.

Inductive fop := FAdd | FSub | FMul | FDiv.      (* arith.addf / subf / mulf / divf *)

(* BEFORE commit 3d73fc5 (kept for the recorded refutation): the zero-divisor branch looked only at
   `lhs == 0.0` and `lhs < 0` *)
Definition fold_f64_old (op : fop) (lhs rhs : float) : float :=
  match op with
  | FAdd => (lhs + rhs)%float
  | FSub => (lhs - rhs)%float
  | FMul => (lhs * rhs)%float
  | FDiv =>
      if (rhs =? 0)%float then
        if (lhs =? 0)%float then nan
        else if (lhs <? 0)%float then neg_infinity
        else infinity
      else (lhs / rhs)%float
  end.

(* sign bit as math.copysign reads it (never asked of a NaN here) *)
Definition fsign (x : float) : bool :=
  match Prim2SF x with
  | S754_zero s | S754_infinity s | S754_finite s _ _ => s
  | S754_nan => false
  end.
(* math.copysign(m, x) for the two magnitudes used *)
Definition copysign_inf (x : float) : float := if fsign x then neg_infinity else infinity.
Definition copysign_one (x : float) : float := if fsign x then (-1)%float else 1%float.

(* _fold_const_operation: the computed Python float `val` (current code)
     if rhs == 0.0:
         if lhs == 0.0 or math.isnan(lhs): val = nan
         else: val = math.copysign(inf, lhs) * math.copysign(1.0, rhs)          *)
Definition fold_f64 (op : fop) (lhs rhs : float) : float :=
  match op with
  | FAdd => (lhs + rhs)%float
  | FSub => (lhs - rhs)%float
  | FMul => (lhs * rhs)%float
  | FDiv =>
      if (rhs =? 0)%float then
        if (lhs =? 0)%float || is_nan lhs then nan
        else (copysign_inf lhs * copysign_one rhs)%float
      else (lhs / rhs)%float
  end.

(* the IEEE-754 binary64 operation (specification side) *)
Definition ieee64 (op : fop) (x y : float) : float :=
  match op with
  | FAdd => (x + y)%float | FSub => (x - y)%float | FMul => (x * y)%float | FDiv => (x / y)%float
  end.

(* round a binary64 value to binary32, nearest-even *)
Definition round32 (x : spec_float) : spec_float :=
  match x with
  | S754_finite s m e => binary_round 24 128 s m e
  | _ => x
  end.

(* struct.pack('<f', v): None = OverflowError("float too large to pack with f format") *)
Definition pack32 (v : float) : option spec_float :=
  match Prim2SF v with
  | S754_finite s m e =>
      match binary_round 24 128 s m e with
      | S754_infinity _ => None
      | r => Some r
      end
  | x => Some x
  end.

(* BEFORE commit 667d764 (kept for the recorded refutation): the OverflowError escaped; None = raised *)
Definition fold_f32_old (op : fop) (lhs rhs : float) : option spec_float := pack32 (fold_f64_old op lhs rhs).

(* folding an f32 op (current code): computed in binary64, rounded when the FloatAttr is built;
     try: FloatAttr(val, type)   except OverflowError: FloatAttr(math.copysign(inf, val), type)        *)
Definition fold_f32 (op : fop) (lhs rhs : float) : spec_float :=
  let v := fold_f64 op lhs rhs in
  match pack32 v with
  | Some x => x
  | None => S754_infinity (fsign v)
  end.

(* the IEEE-754 binary32 operation (specification side) *)
Definition ieee32 (op : fop) (x y : spec_float) : spec_float :=
  match op with
  | FAdd => SFadd 24 128 x y | FSub => SFsub 24 128 x y
  | FMul => SFmul 24 128 x y | FDiv => SFdiv 24 128 x y
  end.

(* ---- bit patterns <-> spec_float, for a format (prec, emax) with width = prec + ebits *)
Definition emin (prec emax : Z) : Z := (3 - emax - prec)%Z.
Definition sf_of_bits (prec emax ebits bits : Z) : spec_float :=
  let s := Z.odd (Z.shiftr bits (prec - 1 + ebits)) in
  let e := (Z.shiftr bits (prec - 1) mod 2 ^ ebits)%Z in
  let m := (bits mod 2 ^ (prec - 1))%Z in
  if (e =? 2 ^ ebits - 1)%Z then (if (m =? 0)%Z then S754_infinity s else S754_nan)
  else if (e =? 0)%Z then
    match m with Zpos p => S754_finite s p (emin prec emax) | _ => S754_zero s end
  else match (m + 2 ^ (prec - 1))%Z with
       | Zpos p => S754_finite s p (e - 1 + emin prec emax)
       | _ => S754_nan
       end.
(* canonical NaN = quiet NaN with zero payload, sign 0 *)
Definition bits_of_sf (prec emax ebits : Z) (x : spec_float) : Z :=
  let sb (s : bool) := (if s then 2 ^ (prec - 1 + ebits) else 0)%Z in
  match x with
  | S754_zero s => sb s
  | S754_infinity s => (sb s + (2 ^ ebits - 1) * 2 ^ (prec - 1))%Z
  | S754_nan => ((2 ^ ebits - 1) * 2 ^ (prec - 1) + 2 ^ (prec - 2))%Z
  | S754_finite s m e => (sb s + (e - emin prec emax) * 2 ^ (prec - 1) + Zpos m)%Z
  end.
Definition f64_of_bits (b : Z) : float := SF2Prim (sf_of_bits 53 1024 11 b).
Definition bits_of_f64 (f : float) : Z := bits_of_sf 53 1024 11 (Prim2SF f).
Definition sf32_of_bits (b : Z) : spec_float := sf_of_bits 24 128 8 b.
Definition bits_of_sf32 (x : spec_float) : Z := bits_of_sf 24 128 8 x.
(* an f32 constant is held by xDSL as the (exactly representable) double *)
Definition f64_of_sf32 (x : spec_float) : float := SF2Prim x.
