(* C14/ProofsCSE.v -- CSE preserves the denotation of the program (proofs about ModelCSE/SpecCSE). *)
From Coq Require Import List Arith Bool Lia.
From XV Require Import C14.ModelCSE C14.SpecCSE.
Import ListNotations.

Scheme op_mind := Induction for op Sort Prop
  with regions_mind := Induction for regions Sort Prop
  with region_mind := Induction for region Sort Prop
  with ops_mind := Induction for ops Sort Prop.
Combined Scheme syn_mutind from op_mind, regions_mind, region_mind, ops_mind.

(* ------------------------------------------------------------------ *)
(* boolean list predicates                                             *)
(* ------------------------------------------------------------------ *)
Lemma memb_In : forall x l, memb x l = true <-> In x l.
Proof.
  intros x l; induction l as [|y l IH]; simpl.
  - split; [discriminate | tauto].
  - rewrite orb_true_iff, IH, Nat.eqb_eq. split; intros [H|H]; auto.
Qed.

Lemma disjointb_spec : forall a b, disjointb a b = true -> forall x, In x a -> ~ In x b.
Proof.
  unfold disjointb; intros a b H x Hx Hb.
  rewrite forallb_forall in H. specialize (H x Hx).
  apply memb_In in Hb. rewrite Hb in H. discriminate.
Qed.

Lemma disjointb_intro : forall a b, (forall x, In x a -> ~ In x b) -> disjointb a b = true.
Proof.
  unfold disjointb; intros a b H. apply forallb_forall. intros x Hx.
  destruct (memb x b) eqn:E; auto. apply memb_In in E. destruct (H x Hx E).
Qed.

Lemma forallb_memb_incl : forall args sc, forallb (fun a => memb a sc) args = true -> incl args sc.
Proof.
  intros args sc H x Hx. rewrite forallb_forall in H. apply memb_In. auto.
Qed.

Lemma nodupb_NoDup : forall l, nodupb l = true -> NoDup l.
Proof.
  induction l as [|x l IH]; simpl; intros H.
  - constructor.
  - apply andb_true_iff in H. destruct H as [H1 H2]. constructor; auto.
    intros Hin. apply memb_In in Hin. rewrite Hin in H1. discriminate.
Qed.

Lemma list_eqb_eq : forall a b, list_eqb a b = true -> a = b.
Proof.
  induction a as [|x a IH]; destruct b as [|y b]; simpl; intros H; try discriminate; auto.
  apply andb_true_iff in H. destruct H as [H1 H2]. apply Nat.eqb_eq in H1. f_equal; auto.
Qed.

Definition op_k (o : op) : nat := match o with Op k _ _ _ _ _ _ => k end.
Definition op_term (o : op) : bool := match o with Op _ _ t _ _ _ _ => t end.
Definition op_args (o : op) : list vid := match o with Op _ _ _ _ a _ _ => a end.
Definition op_regs (o : op) : regions := match o with Op _ _ _ _ _ _ rg => rg end.

(* every op has as many results as its kind says (see the report: needed because `upd` truncates) *)
Fixpoint arity_ok_op (ar : nat -> nat) (o : op) : bool :=
  match o with Op k _ _ _ _ res regs => Nat.eqb (length res) (ar k) && arity_ok_regions ar regs end
with arity_ok_regions (ar : nat -> nat) (rs : regions) : bool :=
  match rs with RNil => true | RCons r rs' => arity_ok_region ar r && arity_ok_regions ar rs' end
with arity_ok_region (ar : nat -> nat) (r : region) : bool :=
  match r with REmpty => true | RSingle _ b => arity_ok_ops ar b | RMulti _ _ => true end
with arity_ok_ops (ar : nat -> nat) (os : ops) : bool :=
  match os with ONil => true | OCons o os' => arity_ok_op ar o && arity_ok_ops ar os' end.
Definition arity_ok := arity_ok_region.

(* every op marked for erasure is not a terminator and has known, write-free effects (deep) *)
Fixpoint marks_ok_op (eff_of : nat -> eff) (meff_of : nat -> effs) (o : op) : bool :=
  match o with
  | Op k mk t i a r rg =>
      (if mk then negb t && no_write (eff_op eff_of meff_of (Op k mk t i a r rg)) else true)
      && marks_ok_regions eff_of meff_of rg
  end
with marks_ok_regions (eff_of : nat -> eff) (meff_of : nat -> effs) (rs : regions) : bool :=
  match rs with
  | RNil => true
  | RCons r rs' => marks_ok_region eff_of meff_of r && marks_ok_regions eff_of meff_of rs'
  end
with marks_ok_region (eff_of : nat -> eff) (meff_of : nat -> effs) (r : region) : bool :=
  match r with
  | REmpty => true
  | RSingle _ b => marks_ok_ops eff_of meff_of b
  | RMulti _ _ => true
  end
with marks_ok_ops (eff_of : nat -> eff) (meff_of : nat -> effs) (os : ops) : bool :=
  match os with
  | ONil => true
  | OCons o os' => marks_ok_op eff_of meff_of o && marks_ok_ops eff_of meff_of os'
  end.
Definition marks_ok := marks_ok_region.

Section CSEProofs.
  Variables (val mem : Type).
  Variable osem : nat -> list val -> list (rden val mem) -> mem -> list val * mem.
  Variable mden : nat -> list val -> rden val mem.
  Variable eff_of : nat -> eff.
  Variable meff_of : nat -> effs.
  Variable req : regions -> regions -> bool.
  Hypothesis OK : sem_ok val mem osem mden eff_of meff_of req.

  Notation xop := (exec_op val mem osem mden).
  Notation xops := (exec_ops val mem osem mden).
  Notation dreg := (den_region val mem osem mden).
  Notation dregs := (den_regions val mem osem mden).
  Notation updv := (upd val).
  Notation effo := (eff_op eff_of meff_of).
  Notation effrs := (eff_regions eff_of meff_of).
  Notation effr := (eff_region eff_of meff_of).
  Notation effos := (eff_ops eff_of meff_of).
  Notation mayw := (may_write eff_of meff_of).
  Notation dext := (d_ext val mem).
  Notation dkeeps := (d_keeps_mem val mem).
  Notation dpure := (d_pure val mem).

  (* ---------------------------------------------------------------- *)
  (* environments                                                      *)
  (* ---------------------------------------------------------------- *)
  Lemma upd_notin : forall (e : env val) ids vs x, ~ In x ids -> updv e ids vs x = e x.
  Proof.
    intros e ids; induction ids as [|i ids IH]; intros vs x Hx; simpl; auto.
    destruct vs as [|v vs]; auto.
    destruct (Nat.eqb x i) eqn:E.
    - apply Nat.eqb_eq in E. subst. exfalso. apply Hx. left; auto.
    - apply IH. intros H. apply Hx. right; auto.
  Qed.

  Lemma upd_agree : forall (e1 e2 : env val) ids vs x, e1 x = e2 x -> updv e1 ids vs x = updv e2 ids vs x.
  Proof.
    intros e1 e2 ids; induction ids as [|i ids IH]; intros vs x Hx; simpl; auto.
    destruct vs as [|v vs]; auto.
    destruct (Nat.eqb x i); auto.
  Qed.

  Lemma map_upd_same : forall (e : env val) ids vs,
      NoDup ids -> length vs = length ids -> map (updv e ids vs) ids = vs.
  Proof.
    intros e ids; induction ids as [|i ids IH]; intros vs Hnd Hlen; destruct vs as [|v vs];
      simpl in *; try discriminate; auto.
    rewrite Nat.eqb_refl. f_equal.
    inversion Hnd as [|? ? Hni Hnd']; subst.
    transitivity (map (updv e ids vs) ids); [|apply IH; auto; lia].
    apply map_ext_in. intros x Hx.
    destruct (Nat.eqb x i) eqn:E; auto.
    apply Nat.eqb_eq in E. subst. tauto.
  Qed.

  Lemma upd_combine : forall (e : env val) ids ys x y,
      NoDup ids -> In (x, y) (combine ids ys) -> updv e ids (map e ys) x = e y.
  Proof.
    intros e ids; induction ids as [|i ids IH]; intros ys x y Hnd Hin; destruct ys as [|y0 ys];
      simpl in *; try tauto.
    inversion Hnd as [|? ? Hni Hnd']; subst.
    destruct Hin as [Hin|Hin].
    - inversion Hin; subst. rewrite Nat.eqb_refl. reflexivity.
    - destruct (Nat.eqb x i) eqn:E.
      + apply Nat.eqb_eq in E. subst. exfalso. apply Hni. eapply in_combine_l; eauto.
      + eapply IH; eauto.
  Qed.

  Lemma map_agree : forall (e1 e2 : env val) l, (forall x, In x l -> e1 x = e2 x) -> map e1 l = map e2 l.
  Proof. intros e1 e2 l H. apply map_ext_in. exact H. Qed.

  (* ---------------------------------------------------------------- *)
  (* unfolding equations (simpl cannot refold mutual fixpoints that     *)
  (* were defined inside a Section)                                     *)
  (* ---------------------------------------------------------------- *)
  Lemma xop_eq : forall k mk t i a r rg e m,
      xop (Op k mk t i a r rg) e m =
      (updv e r (fst (osem k (map e a) (dregs rg e) m)), snd (osem k (map e a) (dregs rg e) m)).
  Proof.
    intros.
    change (xop (Op k mk t i a r rg) e m)
      with (let '(vs, m') := osem k (map e a) (dregs rg e) m in (updv e r vs, m')).
    destruct (osem k (map e a) (dregs rg e) m); reflexivity.
  Qed.

  Lemma xops_nil : forall e m, xops ONil e m = ([], m).
  Proof. reflexivity. Qed.

  Lemma xops_cons : forall k mk t i a r rg os e m,
      xops (OCons (Op k mk t i a r rg) os) e m =
      if t then (map e a, m)
      else xops os (fst (xop (Op k mk t i a r rg) e m)) (snd (xop (Op k mk t i a r rg) e m)).
  Proof.
    intros. destruct t; [reflexivity|].
    change (xops (OCons (Op k mk false i a r rg) os) e m)
      with (let '(e', m') := xop (Op k mk false i a r rg) e m in xops os e' m').
    destruct (xop (Op k mk false i a r rg) e m); reflexivity.
  Qed.

  Lemma xops_cons_t : forall k mk i a r rg os e m,
      xops (OCons (Op k mk true i a r rg) os) e m = (map e a, m).
  Proof. reflexivity. Qed.

  Lemma xops_cons_nt : forall k mk i a r rg os e m,
      xops (OCons (Op k mk false i a r rg) os) e m =
      xops os (updv e r (fst (osem k (map e a) (dregs rg e) m))) (snd (osem k (map e a) (dregs rg e) m)).
  Proof. intros. rewrite xops_cons. rewrite xop_eq. reflexivity. Qed.

  Lemma dregs_nil : forall e, dregs RNil e = [].
  Proof. reflexivity. Qed.
  Lemma dregs_cons : forall r rs e, dregs (RCons r rs) e = dreg r e :: dregs rs e.
  Proof. reflexivity. Qed.
  Lemma dreg_empty : forall e vs m, dreg REmpty e vs m = ([], m).
  Proof. reflexivity. Qed.
  Lemma dreg_single : forall ba b e vs m, dreg (RSingle ba b) e vs m = xops b (updv e ba vs) m.
  Proof. reflexivity. Qed.
  Lemma dreg_multi : forall t c e, dreg (RMulti t c) e = mden t (map e c).
  Proof. reflexivity. Qed.

  Lemma effo_eq : forall k mk t i a r rg,
      effo (Op k mk t i a r rg) =
      match eff_of k with
      | EPure => Some (false, false)
      | ERead => Some (true, false)
      | EWrite => Some (false, true)
      | EUnk => None
      | ERec => effrs rg
      end.
  Proof. reflexivity. Qed.
  Lemma effrs_nil : effrs RNil = Some (false, false).
  Proof. reflexivity. Qed.
  Lemma effrs_cons : forall r rs, effrs (RCons r rs) = join (effr r) (effrs rs).
  Proof. reflexivity. Qed.
  Lemma effr_empty : effr REmpty = Some (false, false).
  Proof. reflexivity. Qed.
  Lemma effr_single : forall ba b, effr (RSingle ba b) = effos b.
  Proof. reflexivity. Qed.
  Lemma effr_multi : forall t c, effr (RMulti t c) = meff_of t.
  Proof. reflexivity. Qed.
  Lemma effos_nil : effos ONil = Some (false, false).
  Proof. reflexivity. Qed.
  Lemma effos_cons : forall o os, effos (OCons o os) = join (effo o) (effos os).
  Proof. reflexivity. Qed.

  Lemma dext_refl : forall d, dext d d.
  Proof. intros d vs m. reflexivity. Qed.

  Lemma F2_dext_refl : forall ds, Forall2 dext ds ds.
  Proof. induction ds; constructor; auto using dext_refl. Qed.

  Lemma F2_dext_sym : forall ds ds', Forall2 dext ds ds' -> Forall2 dext ds' ds.
  Proof.
    induction 1 as [|d d' ds ds' H _ IH]; constructor; auto.
    intros vs m. symmetry. apply H.
  Qed.

  Lemma F2_dext_trans : forall ds1 ds2 ds3, Forall2 dext ds1 ds2 -> Forall2 dext ds2 ds3 -> Forall2 dext ds1 ds3.
  Proof.
    intros ds1 ds2 ds3 H; revert ds3. induction H as [|d d' ds ds' H _ IH]; intros ds3 H3; inversion H3; subst; constructor.
    - intros vs m. rewrite H. auto.
    - auto.
  Qed.

  Lemma F_dpure_ext : forall ds ds', Forall2 dext ds ds' -> Forall dpure ds -> Forall dpure ds'.
  Proof.
    induction 1 as [|d d' ds ds' H _ IH]; intros Hp; constructor; inversion Hp; subst; auto.
    intros vs m1 m2. rewrite <- !H. auto.
  Qed.

  (* ---------------------------------------------------------------- *)
  (* effects                                                           *)
  (* ---------------------------------------------------------------- *)
  Lemma join_nw : forall a b r, join a b = Some (r, false) ->
      exists r1 r2, a = Some (r1, false) /\ b = Some (r2, false).
  Proof.
    intros [[r1 w1]|] [[r2 w2]|] r H; simpl in H; try discriminate.
    injection H as Hr Hw. apply orb_false_iff in Hw. destruct Hw; subst. eauto.
  Qed.

  Lemma join_pure : forall a b, join a b = Some (false, false) ->
      a = Some (false, false) /\ b = Some (false, false).
  Proof.
    intros [[r1 w1]|] [[r2 w2]|] H; simpl in H; try discriminate.
    injection H as Hr Hw. apply orb_false_iff in Hw. apply orb_false_iff in Hr.
    destruct Hw, Hr; subst. auto.
  Qed.

  Lemma keeps_mem_all :
    (forall o r, effo o = Some (r, false) ->
        forall e vs m, snd (osem (op_k o) vs (dregs (op_regs o) e) m) = m) /\
    (forall rs r, effrs rs = Some (r, false) -> forall e, Forall dkeeps (dregs rs e)) /\
    (forall rg r, effr rg = Some (r, false) -> forall e, dkeeps (dreg rg e)) /\
    (forall os r, effos os = Some (r, false) -> forall e m, snd (xops os e m) = m).
  Proof.
    apply syn_mutind.
    - intros k mk t i a rs rg IH r H e vs m. rewrite effo_eq in H. simpl.
      destruct (eff_of k) eqn:Ek; try discriminate.
      + rewrite (@ok_pure _ _ _ _ _ _ _ OK k vs (dregs rg e) m m Ek). reflexivity.
      + apply (@ok_read _ _ _ _ _ _ _ OK); auto.
      + apply (@ok_rec_read _ _ _ _ _ _ _ OK); eauto.
    - intros r _ e. constructor.
    - intros rg IHr rs IHrs r H e. rewrite effrs_cons in H. rewrite dregs_cons.
      apply join_nw in H. destruct H as (r1 & r2 & H1 & H2). constructor; eauto.
    - intros r _ e vs m. reflexivity.
    - intros ba b IH r H e vs m. rewrite effr_single in H. rewrite dreg_single. eauto.
    - intros t caps r H e. rewrite effr_multi in H. rewrite dreg_multi.
      eapply (@ok_multi_read _ _ _ _ _ _ _ OK); eauto.
    - intros r _ e m. reflexivity.
    - intros o IHo os IHos r H e m. rewrite effos_cons in H.
      apply join_nw in H. destruct H as (r1 & r2 & H1 & H2).
      destruct o as [k mk t i a rs rg]. rewrite xops_cons. destruct t; auto.
      rewrite (IHos _ H2). rewrite xop_eq. simpl.
      apply (IHo _ H1 e (map e a) m).
  Qed.

  Lemma xop_keeps_mem : forall o r, effo o = Some (r, false) -> forall e m, snd (xop o e m) = m.
  Proof.
    intros [k mk t i a rs rg] r H e m. rewrite xop_eq. simpl.
    apply (proj1 keeps_mem_all _ _ H e (map e a) m).
  Qed.

  Lemma pure_all :
    (forall o, effo o = Some (false, false) ->
        forall e vs m1 m2, osem (op_k o) vs (dregs (op_regs o) e) m1 =
                           (fst (osem (op_k o) vs (dregs (op_regs o) e) m2), m1)) /\
    (forall rs, effrs rs = Some (false, false) -> forall e, Forall dpure (dregs rs e)) /\
    (forall rg, effr rg = Some (false, false) -> forall e, dpure (dreg rg e)) /\
    (forall os, effos os = Some (false, false) ->
        forall e m1 m2, xops os e m1 = (fst (xops os e m2), m1)).
  Proof.
    apply syn_mutind.
    - intros k mk t i a rs rg IH H e vs m1 m2. rewrite effo_eq in H. simpl.
      destruct (eff_of k) eqn:Ek; try discriminate.
      + apply (@ok_pure _ _ _ _ _ _ _ OK); auto.
      + apply (@ok_rec_pure _ _ _ _ _ _ _ OK); eauto.
    - intros _ e. constructor.
    - intros rg IHr rs IHrs H e. rewrite effrs_cons in H. rewrite dregs_cons.
      apply join_pure in H. destruct H as (H1 & H2). constructor; eauto.
    - intros _ e vs m1 m2. reflexivity.
    - intros ba b IH H e vs m1 m2. rewrite effr_single in H. rewrite !dreg_single. eauto.
    - intros t caps H e. rewrite effr_multi in H. rewrite dreg_multi.
      eapply (@ok_multi_pure _ _ _ _ _ _ _ OK); eauto.
    - intros _ e m1 m2. reflexivity.
    - intros o IHo os IHos H e m1 m2. rewrite effos_cons in H.
      apply join_pure in H. destruct H as (H1 & H2).
      destruct o as [k mk t i a rs rg]. rewrite !xops_cons. destruct t; auto.
      rewrite !xop_eq. simpl. simpl in IHo.
      rewrite (IHo H1 e (map e a) m1 m2). simpl.
      rewrite (IHo H1 e (map e a) m2 m2). simpl.
      apply IHos; auto.
  Qed.

  (* ---------------------------------------------------------------- *)
  (* coincidence                                                       *)
  (* ---------------------------------------------------------------- *)
  Lemma coinc_all :
    (forall o (e1 e2 : env val), (forall x, In x (ment_op o) -> e1 x = e2 x) ->
        forall m, osem (op_k o) (map e1 (op_args o)) (dregs (op_regs o) e1) m =
                  osem (op_k o) (map e2 (op_args o)) (dregs (op_regs o) e2) m) /\
    (forall rs (e1 e2 : env val), (forall x, In x (ment_regions rs) -> e1 x = e2 x) ->
        Forall2 dext (dregs rs e1) (dregs rs e2)) /\
    (forall rg (e1 e2 : env val), (forall x, In x (ment_region rg) -> e1 x = e2 x) ->
        dext (dreg rg e1) (dreg rg e2)) /\
    (forall os (e1 e2 : env val), (forall x, In x (ment_ops os) -> e1 x = e2 x) ->
        forall m, xops os e1 m = xops os e2 m).
  Proof.
    apply syn_mutind.
    - intros k mk t i a rs rg IH e1 e2 H m. simpl in *.
      rewrite (map_agree e1 e2 a) by (intros; apply H; apply in_or_app; auto).
      apply (@ok_ext _ _ _ _ _ _ _ OK). apply IH. intros; apply H; apply in_or_app; auto.
    - intros e1 e2 _. constructor.
    - intros rg IHr rs IHrs e1 e2 H. simpl in H. rewrite !dregs_cons. constructor.
      + apply IHr. intros; apply H; apply in_or_app; auto.
      + apply IHrs. intros; apply H; apply in_or_app; auto.
    - intros e1 e2 _ vs m. reflexivity.
    - intros ba b IH e1 e2 H vs m. simpl in H. rewrite !dreg_single. apply IH.
      intros x Hx. apply upd_agree. auto.
    - intros t caps e1 e2 H vs m. simpl in H. rewrite !dreg_multi. rewrite (map_agree e1 e2 caps); auto.
    - intros e1 e2 _ m. reflexivity.
    - intros o IHo os IHos e1 e2 H m. destruct o as [k mk t i a rs rg].
      rewrite !xops_cons. simpl in H.
      assert (Ha : map e1 a = map e2 a).
      { apply map_agree. intros; apply H. apply in_or_app; left; apply in_or_app; auto. }
      destruct t.
      + rewrite Ha. reflexivity.
      + rewrite !xop_eq. simpl. simpl in IHo.
        rewrite (IHo e1 e2) by (intros; apply H; apply in_or_app; auto).
        apply IHos. intros x Hx. apply upd_agree. apply H. apply in_or_app; auto.
  Qed.

  Lemma no_write_inv : forall ef, no_write ef = true -> exists r, ef = Some (r, false).
  Proof. intros [[r [|]]|] H; simpl in H; try discriminate; eauto. Qed.

  Lemma mayw_false_inv : forall o, mayw o = false -> exists r, effo o = Some (r, false).
  Proof.
    intros o H. unfold may_write in H.
    destruct (effo o) as [[r [|]]|]; try discriminate; eauto.
  Qed.

  (* ---------------------------------------------------------------- *)
  (* phase 2: committing the erasures                                  *)
  (* ---------------------------------------------------------------- *)
  Lemma erase_all : forall (S : vid -> Prop),
    (forall o, marks_ok_op eff_of meff_of o = true ->
       (forall x, In x (ment_op o) -> ~ S x) -> (forall x, In x (marked_op o) -> S x) ->
       forall e1 e2 : env val, (forall x, ~ S x -> e1 x = e2 x) -> forall m,
       osem (op_k o) (map e2 (op_args o)) (dregs (erase_regions (op_regs o)) e2) m =
       osem (op_k o) (map e1 (op_args o)) (dregs (op_regs o) e1) m) /\
    (forall rs, marks_ok_regions eff_of meff_of rs = true ->
       (forall x, In x (ment_regions rs) -> ~ S x) -> (forall x, In x (marked_regions rs) -> S x) ->
       forall e1 e2 : env val, (forall x, ~ S x -> e1 x = e2 x) ->
       Forall2 dext (dregs (erase_regions rs) e2) (dregs rs e1)) /\
    (forall rg, marks_ok_region eff_of meff_of rg = true ->
       (forall x, In x (ment_region rg) -> ~ S x) -> (forall x, In x (marked_region rg) -> S x) ->
       forall e1 e2 : env val, (forall x, ~ S x -> e1 x = e2 x) ->
       dext (dreg (erase_region rg) e2) (dreg rg e1)) /\
    (forall os, marks_ok_ops eff_of meff_of os = true ->
       (forall x, In x (ment_ops os) -> ~ S x) -> (forall x, In x (marked_ops os) -> S x) ->
       forall e1 e2 : env val, (forall x, ~ S x -> e1 x = e2 x) -> forall m,
       xops (erase_ops os) e2 m = xops os e1 m).
  Proof.
    intros S. apply syn_mutind.
    - intros k mk t i a r rg IH Hm Hment Hmk e1 e2 Hag m. simpl in Hm, Hment, Hmk |- *.
      apply andb_true_iff in Hm. destruct Hm as [Hm1 Hm2].
      rewrite (map_agree e2 e1 a).
      + apply (@ok_ext _ _ _ _ _ _ _ OK). apply IH; auto.
        * intros x Hx. apply Hment. apply in_or_app; auto.
        * intros x Hx. apply Hmk. apply in_or_app; auto.
      + intros x Hx. symmetry. apply Hag. apply Hment. apply in_or_app; auto.
    - intros _ _ _ e1 e2 _. constructor.
    - intros rg IHr rs IHrs Hm Hment Hmk e1 e2 Hag. simpl in Hm, Hment, Hmk |- *.
      apply andb_true_iff in Hm. destruct Hm as [Hm1 Hm2].
      rewrite !dregs_cons. constructor.
      + apply IHr; auto; intros x Hx; [apply Hment|apply Hmk]; apply in_or_app; auto.
      + apply IHrs; auto; intros x Hx; [apply Hment|apply Hmk]; apply in_or_app; auto.
    - intros _ _ _ e1 e2 _ vs m. reflexivity.
    - intros ba b IH Hm Hment Hmk e1 e2 Hag vs m. simpl in Hm, Hment, Hmk |- *.
      rewrite !dreg_single. apply IH; auto.
      intros x Hx. apply upd_agree. auto.
    - intros t caps _ Hment _ e1 e2 Hag vs m. simpl in Hment |- *. rewrite !dreg_multi.
      rewrite (map_agree e2 e1 caps); auto.
      intros x Hx. symmetry. auto.
    - intros _ _ _ e1 e2 _ m. reflexivity.
    - intros o IHo os IHos Hm Hment Hmk e1 e2 Hag m.
      destruct o as [k mk t i a r rg].
      simpl in Hm, Hment, Hmk.
      apply andb_true_iff in Hm. destruct Hm as [Hm Hmos].
      assert (Hment_o : forall x, In x (a ++ ment_regions rg) -> ~ S x)
        by (intros; apply Hment; apply in_or_app; auto).
      assert (Hment_os : forall x, In x (ment_ops os) -> ~ S x)
        by (intros; apply Hment; apply in_or_app; auto).
      assert (Hmk_os : forall x, In x (marked_ops os) -> S x)
        by (intros; apply Hmk; apply in_or_app; auto).
      assert (Ha : map e2 a = map e1 a).
      { apply map_agree. intros x Hx. symmetry. apply Hag. apply Hment_o. apply in_or_app; auto. }
      destruct mk.
      + (* the op is erased *)
        simpl.
        apply andb_true_iff in Hm. destruct Hm as [Hm1 Hm2].
        apply andb_true_iff in Hm1. destruct Hm1 as [Ht Hnw].
        destruct t; [discriminate|].
        apply no_write_inv in Hnw. destruct Hnw as [r0 Hnw].
        rewrite xops_cons_nt.
        pose proof (proj1 keeps_mem_all _ _ Hnw e1 (map e1 a) m) as Hk. simpl in Hk. rewrite Hk.
        apply IHos; auto.
        intros x Hx. rewrite upd_notin; auto.
        intros Hin. apply Hx. apply Hmk. apply in_or_app; left. apply in_or_app; auto.
      + simpl.
        destruct t.
        * rewrite !xops_cons_t. rewrite Ha. reflexivity.
        * rewrite !xops_cons_nt.
          assert (Ho : osem k (map e2 a) (dregs (erase_regions rg) e2) m =
                       osem k (map e1 a) (dregs rg e1) m).
          { apply (IHo Hm Hment_o); auto.
            intros x Hx. apply Hmk. apply in_or_app; auto. }
          rewrite Ho. apply IHos; auto.
          intros x Hx. apply upd_agree. auto.
  Qed.

  Theorem commit_preserves_s : forall q q',
      marks_ok eff_of meff_of q = true -> commit q = Some q' ->
      forall e vs m, dreg q' e vs m = dreg q e vs m.
  Proof.
    intros q q' Hm Hc e vs m. unfold commit in Hc.
    destruct (disjointb (marked_region q) (ment_region q)) eqn:D; [|discriminate].
    injection Hc as Hc. subst q'.
    apply (proj1 (proj2 (proj2 (erase_all (fun x => In x (marked_region q)))))); auto.
    intros x Hx Hmk. exact (disjointb_spec _ _ D x Hmk Hx).
  Qed.

  (* ---------------------------------------------------------------- *)
  (* unfolding of the pass                                             *)
  (* ---------------------------------------------------------------- *)
  Notation cseo := (cse_op eff_of meff_of req).
  Notation csers := (cse_regions eff_of meff_of req).
  Notation cser := (cse_region eff_of meff_of req).
  Notation cseos := (cse_ops eff_of meff_of req).
  Notation ksetr := (kset req).
  Notation kgetr := (kget req).
  Notation infoeq := (info_eq req).

  Lemma cse_op_eq : forall used kn sg prefix k mk (t i : bool) a r rg rg' a' o',
      rg' = csers used (if i then @nil entry else kn) sg rg ->
      a' = map (sapp sg) a ->
      o' = Op k mk t i a' r rg' ->
      cseo used kn sg prefix (Op k mk t i a r rg) =
      if t then (o', kn, sg)
      else if disjointb r used && no_write (effo o') then (set_mark o', kn, sg)
      else if has_multi rg' then (o', kn, sg)
      else
        match effo o' with
        | Some (false, false) =>
            match kgetr kn k a' rg' with
            | Some e => (set_mark o', kn, sadd sg r (e_res e))
            | None => (o', ksetr kn k a' rg' r (length prefix), sg)
            end
        | Some (_, false) =>
            match kgetr kn k a' rg' with
            | Some e =>
                if e_local e && negb (existsb mayw (skipn (e_pos e) prefix))
                then (set_mark o', kn, sadd sg r (e_res e))
                else (o', ksetr kn k a' rg' r (length prefix), sg)
            | None => (o', ksetr kn k a' rg' r (length prefix), sg)
            end
        | _ => (o', kn, sg)
        end.
  Proof. intros; subst; reflexivity. Qed.

  Lemma cse_regions_nil : forall used kn sg, csers used kn sg RNil = RNil.
  Proof. reflexivity. Qed.
  Lemma cse_regions_cons : forall used kn sg r rs,
      csers used kn sg (RCons r rs) = RCons (cser used kn sg r) (csers used kn sg rs).
  Proof. reflexivity. Qed.
  Lemma cse_region_empty : forall used kn sg, cser used kn sg REmpty = REmpty.
  Proof. reflexivity. Qed.
  Lemma cse_region_single : forall used kn sg ba b,
      cser used kn sg (RSingle ba b) = RSingle ba (cseos used (map unlocal kn) sg [] b).
  Proof. reflexivity. Qed.
  Lemma cse_region_multi : forall used kn sg t c,
      cser used kn sg (RMulti t c) = RMulti t (map (sapp sg) c).
  Proof. reflexivity. Qed.
  Lemma cse_ops_nil : forall used kn sg prefix, cseos used kn sg prefix ONil = ONil.
  Proof. reflexivity. Qed.
  Lemma cse_ops_cons : forall used kn sg prefix o os,
      cseos used kn sg prefix (OCons o os) =
      let '(o', kn', sg') := cseo used kn sg prefix o in
      OCons o' (cseos used kn' sg' (prefix ++ [o']) os).
  Proof. reflexivity. Qed.

  Lemma cse_op_cases : forall used kn sg prefix k mk (t i : bool) a r rg o'' kn' sg',
      cseo used kn sg prefix (Op k mk t i a r rg) = (o'', kn', sg') ->
      let rg' := csers used (if i then @nil entry else kn) sg rg in
      let a' := map (sapp sg) a in
      let o' := Op k mk t i a' r rg' in
      (o'' = o' /\ kn' = kn /\ sg' = sg) \/
      (t = false /\ o'' = set_mark o' /\ kn' = kn /\ sg' = sg /\
         disjointb r used = true /\ no_write (effo o') = true) \/
      (t = false /\ exists en, kgetr kn k a' rg' = Some en /\
         o'' = set_mark o' /\ kn' = kn /\ sg' = sadd sg r (e_res en) /\
         (effo o' = Some (false, false) \/
          (effo o' = Some (true, false) /\ e_local en = true /\
           existsb mayw (skipn (e_pos en) prefix) = false))) \/
      (t = false /\ o'' = o' /\ kn' = ksetr kn k a' rg' r (length prefix) /\ sg' = sg /\
         (exists rd, effo o' = Some (rd, false))).
  Proof.
    intros used kn sg prefix k mk t i a r rg o'' kn' sg' H rg' a' o'.
    rewrite (cse_op_eq used kn sg prefix k mk t i a r rg rg' a' o' eq_refl eq_refl eq_refl) in H.
    destruct t.
    { left. injection H as H1 H2 H3. auto. }
    destruct (disjointb r used && no_write (effo o')) eqn:Hd.
    { right; left. apply andb_true_iff in Hd. destruct Hd as [Hd1 Hd2].
      injection H as H1 H2 H3. auto 10. }
    destruct (has_multi rg') eqn:Hmu.
    { left. injection H as H1 H2 H3. auto. }
    destruct (effo o') as [[rd wr]|] eqn:He.
    2:{ left. injection H as H1 H2 H3. auto. }
    destruct rd, wr.
    - left. injection H as H1 H2 H3. auto.
    - destruct (kgetr kn k a' rg') as [en|] eqn:Hg.
      + destruct (e_local en && negb (existsb mayw (skipn (e_pos en) prefix))) eqn:Hl.
        * right; right; left. split; auto. exists en.
          apply andb_true_iff in Hl. destruct Hl as [Hl1 Hl2].
          apply negb_true_iff in Hl2.
          injection H as H1 H2 H3. auto 10.
        * right; right; right. injection H as H1 H2 H3. eauto 10.
      + right; right; right. injection H as H1 H2 H3. eauto 10.
    - left. injection H as H1 H2 H3. auto.
    - destruct (kgetr kn k a' rg') as [en|] eqn:Hg.
      + right; right; left. split; auto. exists en.
        injection H as H1 H2 H3. auto 10.
      + right; right; right. injection H as H1 H2 H3. eauto 10.
  Qed.

  (* ---------------------------------------------------------------- *)
  (* the marks written by phase 1 are erasable                         *)
  (* ---------------------------------------------------------------- *)
  Lemma marks_all :
    (forall o used kn sg prefix o' kn' sg',
        unmarked_op o = true -> cseo used kn sg prefix o = (o', kn', sg') ->
        marks_ok_op eff_of meff_of o' = true) /\
    (forall rs used kn sg, unmarked_regions rs = true ->
        marks_ok_regions eff_of meff_of (csers used kn sg rs) = true) /\
    (forall rg used kn sg, unmarked_region rg = true ->
        marks_ok_region eff_of meff_of (cser used kn sg rg) = true) /\
    (forall os used kn sg prefix, unmarked_ops os = true ->
        marks_ok_ops eff_of meff_of (cseos used kn sg prefix os) = true).
  Proof.
    apply syn_mutind.
    - intros k mk t i a r rg IH used kn sg prefix o'' kn' sg' Hu Hc.
      simpl in Hu. apply andb_true_iff in Hu. destruct Hu as [Hmk Hu].
      destruct mk; [discriminate|].
      pose proof (IH used (if i then @nil entry else kn) sg Hu) as Hrg.
      apply cse_op_cases in Hc. cbv zeta in Hc.
      destruct Hc as [(-> & _) | [(Ht & -> & _ & _ & _ & Hnw) | [(Ht & en & _ & -> & _ & _ & He) | (_ & -> & _)]]].
      + simpl. exact Hrg.
      + subst t. simpl. rewrite Hrg.
        change (effo (Op k true false i (map (sapp sg) a) r (csers used (if i then @nil entry else kn) sg rg)))
          with (effo (Op k false false i (map (sapp sg) a) r (csers used (if i then @nil entry else kn) sg rg))).
        rewrite Hnw. reflexivity.
      + subst t. simpl. rewrite Hrg.
        change (effo (Op k true false i (map (sapp sg) a) r (csers used (if i then @nil entry else kn) sg rg)))
          with (effo (Op k false false i (map (sapp sg) a) r (csers used (if i then @nil entry else kn) sg rg))).
        destruct He as [He | (He & _)]; rewrite He; reflexivity.
      + simpl. exact Hrg.
    - intros; reflexivity.
    - intros rg IHr rs IHrs used kn sg Hu. simpl in Hu.
      apply andb_true_iff in Hu. destruct Hu as [Hu1 Hu2].
      rewrite cse_regions_cons. simpl. rewrite IHr, IHrs; auto.
    - intros; reflexivity.
    - intros ba b IH used kn sg Hu. simpl in Hu. rewrite cse_region_single. simpl. auto.
    - intros; reflexivity.
    - intros; reflexivity.
    - intros o IHo os IHos used kn sg prefix Hu. simpl in Hu.
      apply andb_true_iff in Hu. destruct Hu as [Hu1 Hu2].
      rewrite cse_ops_cons.
      destruct (cseo used kn sg prefix o) as [[o' kn'] sg'] eqn:Hc.
      simpl. rewrite (IHo _ _ _ _ _ _ _ Hu1 Hc), IHos; auto.
  Qed.

  Theorem cse_mark_marks_ok_s : forall r,
      unmarked_region r = true -> marks_ok eff_of meff_of (cse_mark eff_of meff_of req r) = true.
  Proof.
    intros r Hu. unfold cse_mark, marks_ok. apply (proj1 (proj2 (proj2 marks_all))); auto.
  Qed.

  (* ---------------------------------------------------------------- *)
  (* well-formedness: inversion and monotonicity                       *)
  (* ---------------------------------------------------------------- *)
  Lemma wf_op_inv : forall sc al k mk t i a r rg al1,
      wf_op sc al (Op k mk t i a r rg) = Some al1 ->
      exists alr, incl a sc /\ wf_regions sc al rg = Some alr /\ NoDup r /\
                  (forall x, In x r -> ~ In x alr) /\ al1 = r ++ alr.
  Proof.
    intros sc al k mk t i a r rg al1. simpl. intros H.
    destruct (forallb (fun a0 => memb a0 sc) a) eqn:Ha; [|discriminate].
    destruct (wf_regions sc al rg) as [alr|] eqn:Hr; [|discriminate].
    destruct (nodupb r && disjointb r alr) eqn:Hn; [|discriminate].
    apply andb_true_iff in Hn. destruct Hn as [Hn1 Hn2]. injection H as H. subst al1.
    exists alr. split; [apply forallb_memb_incl; auto|]. split; auto.
    split; [apply nodupb_NoDup; auto|]. split; auto. apply disjointb_spec; auto.
  Qed.

  Lemma wf_single_inv : forall sc al ba b al1,
      wf_region sc al (RSingle ba b) = Some al1 ->
      NoDup ba /\ (forall x, In x ba -> ~ In x al) /\ wf_ops (ba ++ sc) (ba ++ al) b = Some al1.
  Proof.
    intros sc al ba b al1. simpl. intros H.
    destruct (nodupb ba && disjointb ba al) eqn:Hn; [|discriminate].
    apply andb_true_iff in Hn. destruct Hn as [Hn1 Hn2].
    split; [apply nodupb_NoDup; auto|]. split; auto. apply disjointb_spec; auto.
  Qed.

  Lemma wf_mono_all :
    (forall o sc al al1, wf_op sc al o = Some al1 -> incl al al1) /\
    (forall rs sc al al1, wf_regions sc al rs = Some al1 -> incl al al1) /\
    (forall rg sc al al1, wf_region sc al rg = Some al1 -> incl al al1) /\
    (forall os sc al al1, wf_ops sc al os = Some al1 -> incl al al1).
  Proof.
    apply syn_mutind.
    - intros k mk t i a r rg IH sc al al1 H.
      apply wf_op_inv in H. destruct H as (alr & _ & Hr & _ & _ & ->).
      apply incl_appr. eauto.
    - intros sc al al1 H. simpl in H. injection H as H. subst. apply incl_refl.
    - intros rg IHr rs IHrs sc al al1 H. simpl in H.
      destruct (wf_region sc al rg) as [al0|] eqn:Hr; [|discriminate].
      eapply incl_tran; eauto.
    - intros sc al al1 H. simpl in H. injection H as H. subst. apply incl_refl.
    - intros ba b IH sc al al1 H. apply wf_single_inv in H. destruct H as (_ & _ & H).
      apply IH in H. intros x Hx. apply H. apply in_or_app; auto.
    - intros t c sc al al1 H. simpl in H.
      destruct (forallb (fun a => memb a sc) c); [|discriminate].
      injection H as H. subst. apply incl_refl.
    - intros sc al al1 H. simpl in H. injection H as H. subst. apply incl_refl.
    - intros o IHo os IHos sc al al1 H. simpl in H.
      destruct (wf_op sc al o) as [al0|] eqn:Ho; [|discriminate].
      eapply incl_tran; eauto.
  Qed.

  Lemma wf_op_res : forall o sc al al1, wf_op sc al o = Some al1 -> incl (op_res o) al1.
  Proof.
    intros [k mk t i a r rg] sc al al1 H.
    apply wf_op_inv in H. destruct H as (alr & _ & _ & _ & _ & ->).
    simpl. apply incl_appl. apply incl_refl.
  Qed.

  (* ---------------------------------------------------------------- *)
  (* substitutions and the table of known ops                          *)
  (* ---------------------------------------------------------------- *)
  Definition sg_in (sg : subst) (al : list vid) : Prop :=
    forall x y, In (x, y) sg -> In x al /\ In y al.
  Definition kn_in (kn : list entry) (al : list vid) : Prop :=
    forall en, In en kn ->
      incl (e_args en) al /\ incl (e_res en) al /\ incl (ment_regions (e_regs en)) al.

  Lemma sg_in_mono : forall sg al al', sg_in sg al -> incl al al' -> sg_in sg al'.
  Proof. intros sg al al' H Hi x y Hxy. destruct (H x y Hxy). split; auto. Qed.

  Lemma kn_in_mono : forall kn al al', kn_in kn al -> incl al al' -> kn_in kn al'.
  Proof.
    intros kn al al' H Hi en Hen. destruct (H en Hen) as (H1 & H2 & H3).
    repeat split; eapply incl_tran; eauto.
  Qed.

  Lemma kn_in_nil : forall al, kn_in [] al.
  Proof. intros al en []. Qed.

  Lemma kn_in_unlocal : forall kn al, kn_in kn al -> kn_in (map unlocal kn) al.
  Proof.
    intros kn al H en Hen. apply in_map_iff in Hen. destruct Hen as (en0 & <- & Hen0).
    simpl. auto.
  Qed.

  Lemma sapp_in : forall sg al v, sg_in sg al -> In v al -> In (sapp sg v) al.
  Proof.
    induction sg as [|[x y] sg IH]; intros al v Hsg Hv; simpl; auto.
    destruct (Nat.eqb v x).
    - destruct (Hsg x y); simpl; auto.
    - apply IH; auto. intros x0 y0 H0. apply Hsg. simpl; auto.
  Qed.

  Lemma sapp_notin : forall sg v, (forall y, ~ In (v, y) sg) -> sapp sg v = v.
  Proof.
    induction sg as [|[x y] sg IH]; intros v H; simpl; auto.
    destruct (Nat.eqb v x) eqn:E.
    - apply Nat.eqb_eq in E. subst. exfalso. apply (H y). simpl; auto.
    - apply IH. intros y0 H0. apply (H y0). simpl; auto.
  Qed.

  Lemma map_sapp_in : forall sg al l, sg_in sg al -> incl l al -> incl (map (sapp sg) l) al.
  Proof.
    intros sg al l Hsg Hl x Hx. apply in_map_iff in Hx. destruct Hx as (v & <- & Hv).
    apply sapp_in; auto.
  Qed.

  Lemma sadd_In : forall sg f t x y,
      In (x, y) (sadd sg f t) -> In (x, y) (combine f t) \/ In (x, y) sg.
  Proof.
    intros sg f; induction f as [|x0 f IH]; intros t x y H; simpl in *; auto.
    destruct t as [|y0 t]; simpl in *; auto.
    destruct H as [H|H]; auto. apply IH in H. tauto.
  Qed.

  Lemma sg_in_sadd : forall sg al f t,
      sg_in sg al -> incl f al -> incl t al -> sg_in (sadd sg f t) al.
  Proof.
    intros sg al f t Hsg Hf Ht x y H. apply sadd_In in H. destruct H as [H|H]; auto.
    split; [apply Hf; eapply in_combine_l; eauto | apply Ht; eapply in_combine_r; eauto].
  Qed.

  Lemma kget_some : forall kn k a rg en,
      kgetr kn k a rg = Some en -> In en kn /\ infoeq en k a rg = true.
  Proof. intros kn k a rg en H. unfold kget in H. apply find_some in H. exact H. Qed.

  Lemma info_eq_inv : forall en k a rg,
      infoeq en k a rg = true -> e_k en = k /\ e_args en = a /\ req (e_regs en) rg = true.
  Proof.
    intros en k a rg H. unfold info_eq in H.
    apply andb_true_iff in H. destruct H as [H H3].
    apply andb_true_iff in H. destruct H as [H1 H2].
    apply Nat.eqb_eq in H1. apply list_eqb_eq in H2. auto.
  Qed.

  Lemma kset_In : forall kn k a rg res pos en',
      In en' (ksetr kn k a rg res pos) ->
      In en' kn \/
      (e_k en' = k /\ e_args en' = a /\ e_res en' = res /\ e_local en' = true /\ e_pos en' = pos /\
       (e_regs en' = rg \/
        (req (e_regs en') rg = true /\ exists en, In en kn /\ e_regs en' = e_regs en))).
  Proof.
    induction kn as [|en kn IH]; intros k a rg res pos en' H; simpl in H.
    - destruct H as [H|[]]. subst en'. right. simpl. auto 10.
    - destruct (infoeq en k a rg) eqn:Hi.
      + destruct H as [H|H].
        * subst en'. right. simpl. apply info_eq_inv in Hi. destruct Hi as (H1 & H2 & H3).
          repeat split; auto. right. split; auto. exists en. simpl; auto.
        * left. simpl; auto.
      + destruct H as [H|H].
        * left. simpl; auto.
        * apply IH in H. destruct H as [H|(H1 & H2 & H3 & H4 & H5 & H6)].
          -- left; simpl; auto.
          -- right. repeat split; auto.
             destruct H6 as [H6|(H6 & en0 & H7 & H8)]; auto.
             right. split; auto. exists en0. simpl; auto.
  Qed.

  Lemma kn_in_kset : forall kn al k a rg res pos,
      kn_in kn al -> incl a al -> incl res al -> incl (ment_regions rg) al ->
      kn_in (ksetr kn k a rg res pos) al.
  Proof.
    intros kn al k a rg res pos Hkn Ha Hres Hrg en' Hen'.
    apply kset_In in Hen'. destruct Hen' as [H|(H1 & H2 & H3 & H4 & H5 & H6)]; auto.
    rewrite H2, H3. split; auto. split; auto.
    destruct H6 as [H6|(H6 & en0 & H7 & H8)].
    - rewrite H6; auto.
    - rewrite H8. apply (Hkn en0 H7).
  Qed.

  (* the syntactic half of the invariant: everything remembered is already defined *)
  Lemma syn_all :
    (forall o used kn sg prefix sc al al1 o' kn' sg',
        wf_op sc al o = Some al1 -> incl sc al -> sg_in sg al -> kn_in kn al ->
        cseo used kn sg prefix o = (o', kn', sg') ->
        incl (ment_op o') al1 /\ sg_in sg' al1 /\ kn_in kn' al1) /\
    (forall rs used kn sg sc al al1,
        wf_regions sc al rs = Some al1 -> incl sc al -> sg_in sg al -> kn_in kn al ->
        incl (ment_regions (csers used kn sg rs)) al1) /\
    (forall rg used kn sg sc al al1,
        wf_region sc al rg = Some al1 -> incl sc al -> sg_in sg al -> kn_in kn al ->
        incl (ment_region (cser used kn sg rg)) al1) /\
    (forall os used kn sg prefix sc al al1,
        wf_ops sc al os = Some al1 -> incl sc al -> sg_in sg al -> kn_in kn al ->
        incl (ment_ops (cseos used kn sg prefix os)) al1).
  Proof.
    apply syn_mutind.
    - intros k mk t i a r rg IH used kn sg prefix sc al al1 o'' kn' sg' Hwf Hsc Hsg Hkn Hc.
      apply wf_op_inv in Hwf. destruct Hwf as (alr & Ha & Hwr & Hnd & Hdis & ->).
      pose proof (proj1 (proj2 wf_mono_all) _ _ _ _ Hwr) as Hmono.
      assert (Hrg : incl (ment_regions (csers used (if i then @nil entry else kn) sg rg)) alr).
      { eapply IH; eauto. destruct i; auto using kn_in_nil. }
      assert (Ha' : incl (map (sapp sg) a) al).
      { apply map_sapp_in; auto. eapply incl_tran; eauto. }
      assert (Hment : incl (map (sapp sg) a ++ ment_regions (csers used (if i then @nil entry else kn) sg rg))
                           (r ++ alr)).
      { apply incl_app; apply incl_appr; auto. eapply incl_tran; eauto. }
      assert (Hal : incl al (r ++ alr)) by (apply incl_appr; auto).
      apply cse_op_cases in Hc. cbv zeta in Hc.
      destruct Hc as [(-> & -> & ->) | [(Ht & -> & -> & -> & _) | [(Ht & en & Hg & -> & -> & -> & _) | (Ht & -> & -> & -> & _)]]].
      + simpl. split; auto. split; [eapply sg_in_mono|eapply kn_in_mono]; eauto.
      + simpl. split; auto. split; [eapply sg_in_mono|eapply kn_in_mono]; eauto.
      + simpl. split; auto. split; [|eapply kn_in_mono; eauto].
        apply kget_some in Hg. destruct Hg as [Hin _].
        apply sg_in_sadd.
        * eapply sg_in_mono; eauto.
        * apply incl_appl. apply incl_refl.
        * eapply incl_tran; [|exact Hal]. apply (Hkn en Hin).
      + simpl. split; auto. split; [eapply sg_in_mono; eauto|].
        apply kn_in_kset.
        * eapply kn_in_mono; eauto.
        * eapply incl_tran; eauto.
        * apply incl_appl. apply incl_refl.
        * apply incl_appr. auto.
    - intros used kn sg sc al al1 H _ _ _. rewrite cse_regions_nil. simpl. intros x [].
    - intros rg IHr rs IHrs used kn sg sc al al1 H Hsc Hsg Hkn. simpl in H.
      destruct (wf_region sc al rg) as [al0|] eqn:Hr; [|discriminate].
      pose proof (proj1 (proj2 (proj2 wf_mono_all)) _ _ _ _ Hr) as Hm0.
      pose proof (proj1 (proj2 wf_mono_all) _ _ _ _ H) as Hm1.
      rewrite cse_regions_cons. simpl. apply incl_app.
      + eapply incl_tran; [|exact Hm1]. eapply IHr; eauto.
      + eapply IHrs; eauto.
        * eapply incl_tran; eauto.
        * eapply sg_in_mono; eauto.
        * eapply kn_in_mono; eauto.
    - intros used kn sg sc al al1 H _ _ _. rewrite cse_region_empty. simpl. intros x [].
    - intros ba b IH used kn sg sc al al1 H Hsc Hsg Hkn.
      apply wf_single_inv in H. destruct H as (_ & _ & H).
      rewrite cse_region_single. simpl.
      eapply IH; eauto.
      + apply incl_app; [apply incl_appl; apply incl_refl | apply incl_appr; auto].
      + eapply sg_in_mono; eauto. apply incl_appr. apply incl_refl.
      + apply kn_in_unlocal. eapply kn_in_mono; eauto. apply incl_appr. apply incl_refl.
    - intros t c used kn sg sc al al1 H Hsc Hsg Hkn. simpl in H.
      destruct (forallb (fun a => memb a sc) c) eqn:Hc; [|discriminate].
      injection H as H. subst al1.
      rewrite cse_region_multi. simpl. apply map_sapp_in; auto.
      eapply incl_tran; [apply forallb_memb_incl; eauto|auto].
    - intros used kn sg prefix sc al al1 H _ _ _. rewrite cse_ops_nil. simpl. intros x [].
    - intros o IHo os IHos used kn sg prefix sc al al1 H Hsc Hsg Hkn. simpl in H.
      destruct (wf_op sc al o) as [al0|] eqn:Ho; [|discriminate].
      rewrite cse_ops_cons.
      destruct (cseo used kn sg prefix o) as [[o' kn'] sg'] eqn:Hc.
      destruct (IHo _ _ _ _ _ _ _ _ _ _ Ho Hsc Hsg Hkn Hc) as (Hm & Hsg' & Hkn').
      pose proof (proj1 wf_mono_all _ _ _ _ Ho) as Hm0.
      pose proof (proj2 (proj2 (proj2 wf_mono_all)) _ _ _ _ H) as Hm1.
      simpl. apply incl_app.
      + eapply incl_tran; eauto.
      + eapply IHos; eauto.
        apply incl_app; [eapply wf_op_res; eauto | eapply incl_tran; eauto].
  Qed.

  Lemma cse_op_shape : forall used kn sg prefix k mk (t i : bool) a r rg o'' kn' sg',
      cseo used kn sg prefix (Op k mk t i a r rg) = (o'', kn', sg') ->
      exists mk', o'' = Op k mk' t i (map (sapp sg) a) r (csers used (if i then @nil entry else kn) sg rg).
  Proof.
    intros used kn sg prefix k mk t i a r rg o'' kn' sg' Hc.
    apply cse_op_cases in Hc. cbv zeta in Hc.
    destruct Hc as [(-> & _) | [(_ & -> & _) | [(_ & en & _ & -> & _) | (_ & -> & _)]]]; simpl; eauto.
  Qed.

  (* ---------------------------------------------------------------- *)
  (* phase 1: the semantic invariant                                   *)
  (* ---------------------------------------------------------------- *)
  Variable arity : nat -> nat.
  Hypothesis osem_len : forall k a ds m, length (fst (osem k a ds m)) = arity k.

  (* the op remembered by `en` yields, in environment e and memory m, the values of its results *)
  Definition Eqen (en : entry) (e : env val) (m : mem) : Prop :=
    fst (osem (e_k en) (map e (e_args en)) (dregs (e_regs en) e) m) = map e (e_res en).
  Definition sg_ok (sg : subst) (e : env val) : Prop := forall x y, In (x, y) sg -> e x = e y.
  Definition kn_ok0 (kn : list entry) (e : env val) : Prop :=
    forall en, In en kn -> exists m0, Eqen en e m0.
  Definition kn_loc (kn : list entry) (prefix : list op) (e : env val) (m : mem) : Prop :=
    forall en, In en kn -> e_local en = true ->
      e_pos en <= length prefix /\
      (existsb mayw (skipn (e_pos en) prefix) = false -> Eqen en e m).

  Lemma sapp_ok : forall sg (e : env val) v, sg_ok sg e -> e (sapp sg v) = e v.
  Proof.
    induction sg as [|[x y] sg IH]; intros e v H; simpl; auto.
    destruct (Nat.eqb v x) eqn:E.
    - apply Nat.eqb_eq in E. subst. symmetry. apply H. simpl; auto.
    - apply IH. intros x0 y0 H0. apply H. simpl; auto.
  Qed.

  Lemma map_sapp_ok : forall sg (e : env val) l, sg_ok sg e -> map e (map (sapp sg) l) = map e l.
  Proof. intros sg e l H. rewrite map_map. apply map_ext. intros v. apply sapp_ok; auto. Qed.

  Lemma Eqen_agree : forall en (e e' : env val) m,
      (forall x, In x (e_args en) -> e' x = e x) ->
      (forall x, In x (e_res en) -> e' x = e x) ->
      (forall x, In x (ment_regions (e_regs en)) -> e' x = e x) ->
      Eqen en e m -> Eqen en e' m.
  Proof.
    unfold Eqen. intros en e e' m H1 H2 H3 H.
    rewrite (map_agree e' e (e_args en)), (map_agree e' e (e_res en)); auto.
    rewrite <- H. f_equal. apply (@ok_ext _ _ _ _ _ _ _ OK).
    apply (proj1 (proj2 coinc_all)). auto.
  Qed.

  Lemma Eqen_fresh : forall en al (e : env val) ids vs m,
      incl (e_args en) al -> incl (e_res en) al -> incl (ment_regions (e_regs en)) al ->
      (forall x, In x al -> ~ In x ids) ->
      Eqen en e m -> Eqen en (updv e ids vs) m.
  Proof.
    intros en al e ids vs m H1 H2 H3 Hf. apply Eqen_agree; intros x Hx; apply upd_notin; auto.
  Qed.

  Lemma step_inv : forall kn sg prefix al alr (e : env val) m k mk t i a' r rg',
      sg_in sg al -> kn_in kn al -> incl al alr -> (forall x, In x r -> ~ In x alr) ->
      sg_ok sg e -> kn_ok0 kn e -> kn_loc kn prefix e m ->
      sg_ok sg (fst (xop (Op k mk t i a' r rg') e m)) /\
      kn_ok0 kn (fst (xop (Op k mk t i a' r rg') e m)) /\
      kn_loc kn (prefix ++ [Op k mk t i a' r rg'])
             (fst (xop (Op k mk t i a' r rg') e m)) (snd (xop (Op k mk t i a' r rg') e m)).
  Proof.
    intros kn sg prefix al alr e m k mk t i a' r rg' Hsgin Hknin Hmono Hdis Hsg Hk0 Hloc.
    rewrite xop_eq. cbn [fst snd].
    assert (Hfresh : forall x, In x al -> ~ In x r).
    { intros x Hx Hr. apply (Hdis x Hr). auto. }
    split; [|split].
    - intros x y Hxy. destruct (Hsgin x y Hxy) as [Hx Hy]. rewrite !upd_notin; auto.
    - intros en Hen. destruct (Hk0 en Hen) as [m0 Hm0]. exists m0.
      destruct (Hknin en Hen) as (H1 & H2 & H3). eapply Eqen_fresh; eauto.
    - intros en Hen Hl. destruct (Hloc en Hen Hl) as [Hpos Hq]. split.
      + rewrite app_length. simpl. lia.
      + intros Hex. rewrite skipn_app in Hex. rewrite existsb_app in Hex.
        apply orb_false_iff in Hex. destruct Hex as [Hex1 Hex2].
        replace (e_pos en - length prefix) with 0 in Hex2 by lia.
        cbn [skipn existsb] in Hex2.
        apply orb_false_iff in Hex2. destruct Hex2 as [Hex2 _].
        apply mayw_false_inv in Hex2. destruct Hex2 as [r0 He].
        pose proof (proj1 keeps_mem_all _ _ He e (map e a') m) as Hk. simpl in Hk. rewrite Hk.
        destruct (Hknin en Hen) as (H1 & H2 & H3). eapply Eqen_fresh; eauto.
  Qed.

  Lemma sem_all :
    (forall o used kn sg prefix sc al al1 (e : env val) m o' kn' sg',
        wf_op sc al o = Some al1 -> incl sc al -> arity_ok_op arity o = true ->
        sg_in sg al -> kn_in kn al -> sg_ok sg e -> kn_ok0 kn e -> kn_loc kn prefix e m ->
        cseo used kn sg prefix o = (o', kn', sg') ->
        xop o' e m = xop o e m /\
        sg_ok sg' (fst (xop o e m)) /\ kn_ok0 kn' (fst (xop o e m)) /\
        kn_loc kn' (prefix ++ [o']) (fst (xop o e m)) (snd (xop o e m))) /\
    (forall rs used kn sg sc al al1 (e : env val),
        wf_regions sc al rs = Some al1 -> incl sc al -> arity_ok_regions arity rs = true ->
        sg_in sg al -> kn_in kn al -> sg_ok sg e -> kn_ok0 kn e ->
        Forall2 dext (dregs (csers used kn sg rs) e) (dregs rs e)) /\
    (forall rg used kn sg sc al al1 (e : env val),
        wf_region sc al rg = Some al1 -> incl sc al -> arity_ok_region arity rg = true ->
        sg_in sg al -> kn_in kn al -> sg_ok sg e -> kn_ok0 kn e ->
        dext (dreg (cser used kn sg rg) e) (dreg rg e)) /\
    (forall os used kn sg prefix sc al al1 (e : env val) m,
        wf_ops sc al os = Some al1 -> incl sc al -> arity_ok_ops arity os = true ->
        sg_in sg al -> kn_in kn al -> sg_ok sg e -> kn_ok0 kn e -> kn_loc kn prefix e m ->
        xops (cseos used kn sg prefix os) e m = xops os e m).
  Proof.
    apply syn_mutind.
    - (* op *)
      intros k mk t i a r rg IH used kn sg prefix sc al al1 e m o'' kn' sg'
             Hwf Hsc Har Hsgin Hknin Hsg Hk0 Hloc Hc.
      apply wf_op_inv in Hwf. destruct Hwf as (alr & Ha & Hwr & Hnd & Hdis & ->).
      pose proof (proj1 (proj2 wf_mono_all) _ _ _ _ Hwr) as Hmono.
      simpl in Har. apply andb_true_iff in Har. destruct Har as [Hlen Har].
      apply Nat.eqb_eq in Hlen.
      set (kn0 := if i then @nil entry else kn).
      assert (Hknin0 : kn_in kn0 al) by (unfold kn0; destruct i; auto using kn_in_nil).
      assert (Hk00 : kn_ok0 kn0 e) by (unfold kn0; destruct i; auto; intros en []).
      set (rg' := csers used kn0 sg rg). set (a' := map (sapp sg) a).
      assert (Hrg : Forall2 dext (dregs rg' e) (dregs rg e)) by (eapply IH; eauto).
      assert (Ha' : map e a' = map e a) by (apply map_sapp_ok; auto).
      assert (Hos : osem k (map e a') (dregs rg' e) m = osem k (map e a) (dregs rg e) m).
      { rewrite Ha'. apply (@ok_ext _ _ _ _ _ _ _ OK). auto. }
      assert (Hx : forall mk', xop (Op k mk' t i a' r rg') e m = xop (Op k mk t i a r rg) e m).
      { intros mk'. rewrite !xop_eq. rewrite Hos. reflexivity. }
      assert (Hmentr : incl (ment_regions rg') alr).
      { eapply (proj1 (proj2 syn_all)); eauto. }
      assert (Hainal : incl a' alr).
      { eapply incl_tran; [|exact Hmono]. apply map_sapp_in; auto. eapply incl_tran; eauto. }
      assert (Hstep : forall mk',
                 sg_ok sg (fst (xop (Op k mk t i a r rg) e m)) /\
                 kn_ok0 kn (fst (xop (Op k mk t i a r rg) e m)) /\
                 kn_loc kn (prefix ++ [Op k mk' t i a' r rg'])
                        (fst (xop (Op k mk t i a r rg) e m)) (snd (xop (Op k mk t i a r rg) e m))).
      { intros mk'. rewrite <- (Hx mk'). eapply step_inv; eauto. }
      assert (Hfresh : forall x, In x al -> ~ In x r).
      { intros x Hx0 Hr. apply (Hdis x Hr). auto. }
      apply cse_op_cases in Hc. cbv zeta in Hc. fold kn0 in Hc. fold rg' in Hc. fold a' in Hc.
      destruct Hc as [(-> & -> & ->) | [(Ht & -> & -> & -> & _) |
                      [(Ht & en & Hg & -> & -> & -> & He) | (Ht & -> & -> & -> & rd & He)]]].
      + split; [apply Hx | apply Hstep].
      + cbn [set_mark]. split; [apply Hx | apply Hstep].
      + (* a known op is reused *)
        cbn [set_mark]. destruct (Hstep true) as (S1 & S2 & S3).
        split; [apply Hx|]. split; [|split; auto].
        apply kget_some in Hg. destruct Hg as [Hin Hie].
        apply info_eq_inv in Hie. destruct Hie as (Hk & Hargs & Hreq).
        pose proof (@ok_req _ _ _ _ _ _ _ OK _ _ e Hreq) as Hre.
        assert (Hvs : fst (osem k (map e a) (dregs rg e) m) = map e (e_res en)).
        { rewrite <- Hos. destruct He as [He | (He & Hl & Hex)].
          - destruct (Hk0 en Hin) as [m0 Hm0]. unfold Eqen in Hm0.
            rewrite Hk, Hargs in Hm0.
            rewrite (@ok_ext _ _ _ _ _ _ _ OK k (map e a') _ _ m0 Hre) in Hm0.
            pose proof (proj1 pure_all _ He e (map e a') m m0) as Hp. simpl in Hp.
            rewrite Hp. exact Hm0.
          - destruct (Hloc en Hin Hl) as [_ Hq]. specialize (Hq Hex). unfold Eqen in Hq.
            rewrite Hk, Hargs in Hq.
            rewrite (@ok_ext _ _ _ _ _ _ _ OK k (map e a') _ _ m Hre) in Hq. exact Hq. }
        intros x y Hxy. apply sadd_In in Hxy. destruct Hxy as [Hxy|Hxy]; [|apply S1; auto].
        rewrite xop_eq. cbn [fst]. rewrite Hvs.
        rewrite (upd_combine e r (e_res en) x y Hnd Hxy).
        symmetry. apply upd_notin. apply Hfresh.
        apply (proj1 (proj2 (Hknin en Hin))). eapply in_combine_r; eauto.
      + (* the op is remembered *)
        destruct (Hstep mk) as (S1 & S2 & S3).
        split; [apply Hx|]. split; auto.
        assert (Hm1 : snd (xop (Op k mk t i a r rg) e m) = m).
        { rewrite <- (Hx mk). eapply xop_keeps_mem; eauto. }
        assert (Hnew : forall en', e_k en' = k -> e_args en' = a' -> e_res en' = r ->
                   (e_regs en' = rg' \/
                    (req (e_regs en') rg' = true /\ exists en, In en kn /\ e_regs en' = e_regs en)) ->
                   Eqen en' (fst (xop (Op k mk t i a r rg) e m)) m).
        { intros en' H1 H2 H3 H6. unfold Eqen. rewrite H1, H2, H3.
          rewrite xop_eq. cbn [fst].
          set (vs := fst (osem k (map e a) (dregs rg e) m)).
          set (e1 := updv e r vs).
          assert (Hre : Forall2 dext (dregs (e_regs en') e1) (dregs rg' e1)).
          { destruct H6 as [->|[H6 _]]; [apply F2_dext_refl | apply (@ok_req _ _ _ _ _ _ _ OK); auto]. }
          rewrite (@ok_ext _ _ _ _ _ _ _ OK k (map e1 a') _ _ m Hre).
          pose proof (proj1 coinc_all (Op k mk t i a' r rg') e1 e) as Hco. simpl in Hco.
          rewrite Hco.
          - rewrite Hos. fold vs. symmetry. apply map_upd_same; auto.
            unfold vs. rewrite osem_len. auto.
          - intros x Hx0. unfold e1. apply upd_notin. intros Hin. apply (Hdis x Hin).
            apply in_app_or in Hx0. destruct Hx0 as [Hx0|Hx0]; auto. }
        split.
        * intros en' Hen'. apply kset_In in Hen'.
          destruct Hen' as [H|(H1 & H2 & H3 & H4 & H5 & H6)]; [apply S2; auto|].
          exists m. apply Hnew; auto.
        * intros en' Hen' Hl'. apply kset_In in Hen'.
          destruct Hen' as [H|(H1 & H2 & H3 & H4 & H5 & H6)]; [apply S3; auto|].
          rewrite H5. split; [rewrite app_length; lia|].
          intros _. rewrite Hm1. apply Hnew; auto.
    - (* RNil *)
      intros. rewrite cse_regions_nil. constructor.
    - (* RCons *)
      intros rg IHr rs IHrs used kn sg sc al al1 e Hwf Hsc Har Hsgin Hknin Hsg Hk0.
      simpl in Hwf, Har.
      destruct (wf_region sc al rg) as [al0|] eqn:Hr; [|discriminate].
      apply andb_true_iff in Har. destruct Har as [Har1 Har2].
      pose proof (proj1 (proj2 (proj2 wf_mono_all)) _ _ _ _ Hr) as Hm0.
      rewrite cse_regions_cons, !dregs_cons. constructor.
      + eapply IHr; eauto.
      + eapply IHrs; eauto.
        * eapply incl_tran; eauto.
        * eapply sg_in_mono; eauto.
        * eapply kn_in_mono; eauto.
    - (* REmpty *)
      intros. rewrite cse_region_empty. apply dext_refl.
    - (* RSingle *)
      intros ba b IH used kn sg sc al al1 e Hwf Hsc Har Hsgin Hknin Hsg Hk0 vs m.
      apply wf_single_inv in Hwf. destruct Hwf as (Hnd & Hdis & Hwf). simpl in Har.
      rewrite cse_region_single, !dreg_single.
      assert (Hfresh : forall x, In x al -> ~ In x ba).
      { intros x Hx Hb. apply (Hdis x Hb Hx). }
      eapply IH; eauto.
      + apply incl_app; [apply incl_appl; apply incl_refl | apply incl_appr; auto].
      + eapply sg_in_mono; eauto. apply incl_appr. apply incl_refl.
      + apply kn_in_unlocal. eapply kn_in_mono; eauto. apply incl_appr. apply incl_refl.
      + intros x y Hxy. destruct (Hsgin x y Hxy) as [Hx Hy]. rewrite !upd_notin; auto.
      + intros en Hen. apply in_map_iff in Hen. destruct Hen as (en0 & <- & Hen0).
        destruct (Hk0 en0 Hen0) as [m0 Hm0]. exists m0.
        destruct (Hknin en0 Hen0) as (H1 & H2 & H3).
        apply (Eqen_fresh en0 al e ba vs m0 H1 H2 H3 Hfresh) in Hm0. exact Hm0.
      + intros en Hen Hl. apply in_map_iff in Hen. destruct Hen as (en0 & <- & Hen0).
        simpl in Hl. discriminate.
    - (* RMulti *)
      intros t c used kn sg sc al al1 e Hwf Hsc Har Hsgin Hknin Hsg Hk0.
      rewrite cse_region_multi, !dreg_multi. rewrite map_sapp_ok; auto. apply dext_refl.
    - (* ONil *)
      intros. rewrite cse_ops_nil. reflexivity.
    - (* OCons *)
      intros o IHo os IHos used kn sg prefix sc al al1 e m Hwf Hsc Har Hsgin Hknin Hsg Hk0 Hloc.
      simpl in Hwf, Har.
      destruct (wf_op sc al o) as [al0|] eqn:Ho; [|discriminate].
      apply andb_true_iff in Har. destruct Har as [Har1 Har2].
      rewrite cse_ops_cons.
      destruct (cseo used kn sg prefix o) as [[o' kn'] sg'] eqn:Hc.
      destruct (IHo _ _ _ _ _ _ _ _ _ _ _ _ Ho Hsc Har1 Hsgin Hknin Hsg Hk0 Hloc Hc)
        as (Hx & S1 & S2 & S3).
      destruct (proj1 syn_all _ _ _ _ _ _ _ _ _ _ _ Ho Hsc Hsgin Hknin Hc) as (_ & Hsgin' & Hknin').
      pose proof (proj1 wf_mono_all _ _ _ _ Ho) as Hm0.
      pose proof (wf_op_res _ _ _ _ Ho) as Hres.
      destruct o as [k mk t i a r rg].
      destruct (cse_op_shape _ _ _ _ _ _ _ _ _ _ _ _ _ _ Hc) as [mk' ->].
      rewrite !xops_cons. destruct t.
      + rewrite map_sapp_ok; auto.
      + rewrite Hx. eapply IHos; eauto.
        apply incl_app; auto. eapply incl_tran; eauto.
  Qed.

  Theorem cse_mark_preserves_s : forall free r,
      wf_program free r = true -> arity_ok arity r = true ->
      forall e vs m, dreg (cse_mark eff_of meff_of req r) e vs m = dreg r e vs m.
  Proof.
    intros free r Hwf Har e vs m. unfold wf_program in Hwf.
    destruct (wf_region free free r) as [al1|] eqn:Hr; [|discriminate].
    unfold cse_mark.
    eapply (proj1 (proj2 (proj2 sem_all))); eauto.
    - apply incl_refl.
    - intros x y [].
    - apply kn_in_nil.
    - intros x y [].
    - intros en [].
  Qed.

  Theorem cse_preserves_s : forall free r r',
      wf_program free r = true -> arity_ok arity r = true ->
      cse eff_of meff_of req r = Some r' ->
      forall e vs m, dreg r' e vs m = dreg r e vs m.
  Proof.
    intros free r r' Hwf Har Hc e vs m. unfold cse in Hc.
    rewrite (commit_preserves_s _ _ (cse_mark_marks_ok_s r ltac:(unfold wf_program in Hwf; destruct (wf_region free free r); [exact Hwf|discriminate])) Hc).
    eapply cse_mark_preserves_s; eauto.
  Qed.

  (* ---------------------------------------------------------------- *)
  (* the erasures can always be committed                              *)
  (* ---------------------------------------------------------------- *)
  Lemma sapp_sadd_notin : forall sg f t v, ~ In v f -> sapp (sadd sg f t) v = sapp sg v.
  Proof.
    intros sg f; induction f as [|x f IH]; intros t v H; simpl; auto.
    destruct t as [|y t]; simpl; auto.
    destruct (Nat.eqb v x) eqn:E.
    - apply Nat.eqb_eq in E. subst. exfalso. apply H. simpl; auto.
    - apply IH. intros Hf. apply H. simpl; auto.
  Qed.

  Lemma sapp_sadd_in : forall sg f t v,
      In v f -> length f <= length t -> In (sapp (sadd sg f t) v) t.
  Proof.
    intros sg f; induction f as [|x f IH]; intros t v H Hl; simpl in *; [tauto|].
    destruct t as [|y t]; simpl in *; [lia|].
    destruct (Nat.eqb v x) eqn:E; auto.
    right. apply IH; [|lia]. destruct H as [H|H]; auto.
    subst. rewrite Nat.eqb_refl in E. discriminate.
  Qed.

  (* values of the input still in use are never renamed to a dead value *)
  Definition live (used sc : list vid) (sg : subst) (D : list vid) : Prop :=
    forall v, In v sc -> In v used -> ~ In (sapp sg v) D.
  Definition klive (kn : list entry) (D : list vid) : Prop :=
    forall en, In en kn ->
      length (e_res en) = arity (e_k en) /\ forall y, In y (e_res en) -> ~ In y D.

  Lemma live_grow : forall used sc sg D al M,
      live used sc sg D -> incl sc al -> sg_in sg al -> (forall x, In x M -> ~ In x al) ->
      live used sc sg (M ++ D).
  Proof.
    intros used sc sg D al M Hl Hsc Hsg HM v Hv Hvu Hin.
    apply in_app_or in Hin. destruct Hin as [Hin|Hin].
    - apply (HM _ Hin). apply sapp_in; auto.
    - apply (Hl v Hv Hvu Hin).
  Qed.

  Lemma klive_grow : forall kn D al M,
      klive kn D -> kn_in kn al -> (forall x, In x M -> ~ In x al) -> klive kn (M ++ D).
  Proof.
    intros kn D al M Hk Hkn HM en Hen. destruct (Hk en Hen) as [K1 K2]. split; auto.
    intros y Hy Hin. apply in_app_or in Hin. destruct Hin as [Hin|Hin].
    - apply (HM _ Hin). apply (proj1 (proj2 (Hkn en Hen))); auto.
    - apply (K2 y Hy Hin).
  Qed.

  Lemma nr_all : forall used,
    (forall o kn sg prefix sc al al1 D o' kn' sg',
        wf_op sc al o = Some al1 -> incl sc al -> incl D al ->
        arity_ok_op arity o = true -> unmarked_op o = true -> incl (ment_op o) used ->
        sg_in sg al -> kn_in kn al -> live used sc sg D -> klive kn D ->
        cseo used kn sg prefix o = (o', kn', sg') ->
        (forall x, In x (ment_op o') -> ~ In x D /\ ~ In x (marked_op o')) /\
        (incl (marked_op o') al1 /\ forall x, In x (marked_op o') -> ~ In x al) /\
        live used (op_res o ++ sc) sg' (marked_op o' ++ D) /\
        klive kn' (marked_op o' ++ D)) /\
    (forall rs kn sg sc al al1 D,
        wf_regions sc al rs = Some al1 -> incl sc al -> incl D al ->
        arity_ok_regions arity rs = true -> unmarked_regions rs = true ->
        incl (ment_regions rs) used ->
        sg_in sg al -> kn_in kn al -> live used sc sg D -> klive kn D ->
        (forall x, In x (ment_regions (csers used kn sg rs)) ->
                   ~ In x D /\ ~ In x (marked_regions (csers used kn sg rs))) /\
        (incl (marked_regions (csers used kn sg rs)) al1 /\
         forall x, In x (marked_regions (csers used kn sg rs)) -> ~ In x al)) /\
    (forall rg kn sg sc al al1 D,
        wf_region sc al rg = Some al1 -> incl sc al -> incl D al ->
        arity_ok_region arity rg = true -> unmarked_region rg = true ->
        incl (ment_region rg) used ->
        sg_in sg al -> kn_in kn al -> live used sc sg D -> klive kn D ->
        (forall x, In x (ment_region (cser used kn sg rg)) ->
                   ~ In x D /\ ~ In x (marked_region (cser used kn sg rg))) /\
        (incl (marked_region (cser used kn sg rg)) al1 /\
         forall x, In x (marked_region (cser used kn sg rg)) -> ~ In x al)) /\
    (forall os kn sg prefix sc al al1 D,
        wf_ops sc al os = Some al1 -> incl sc al -> incl D al ->
        arity_ok_ops arity os = true -> unmarked_ops os = true ->
        incl (ment_ops os) used ->
        sg_in sg al -> kn_in kn al -> live used sc sg D -> klive kn D ->
        (forall x, In x (ment_ops (cseos used kn sg prefix os)) ->
                   ~ In x D /\ ~ In x (marked_ops (cseos used kn sg prefix os))) /\
        (incl (marked_ops (cseos used kn sg prefix os)) al1 /\
         forall x, In x (marked_ops (cseos used kn sg prefix os)) -> ~ In x al)).
  Proof.
    intros used. apply syn_mutind.
    - (* op *)
      intros k mk t i a r rg IH kn sg prefix sc al al1 D o'' kn' sg'
             Hwf Hsc HD Har Hu Hment Hsgin Hknin Hlive Hklive Hc.
      apply wf_op_inv in Hwf. destruct Hwf as (alr & Ha & Hwr & Hnd & Hdis & ->).
      pose proof (proj1 (proj2 wf_mono_all) _ _ _ _ Hwr) as Hmono.
      simpl in Har, Hu, Hment.
      apply andb_true_iff in Har. destruct Har as [Hlen Har]. apply Nat.eqb_eq in Hlen.
      apply andb_true_iff in Hu. destruct Hu as [Hmk Hu]. destruct mk; [discriminate|].
      set (kn0 := if i then @nil entry else kn).
      assert (Hknin0 : kn_in kn0 al) by (unfold kn0; destruct i; auto using kn_in_nil).
      assert (Hklive0 : klive kn0 D) by (unfold kn0; destruct i; auto; intros en []).
      set (rg' := csers used kn0 sg rg). set (a' := map (sapp sg) a).
      assert (Hmrg : incl (ment_regions rg) used).
      { intros x Hx. apply Hment. apply in_or_app; auto. }
      destruct (IH kn0 sg sc al alr D Hwr Hsc HD Har Hu Hmrg Hsgin Hknin0 Hlive Hklive0)
        as (Ra & Rd1 & Rd2).
      fold rg' in Ra, Rd1, Rd2.
      assert (Hmentr : incl (ment_regions rg') alr).
      { eapply (proj1 (proj2 syn_all)); eauto. }
      assert (Ha'al : incl a' al).
      { apply map_sapp_in; auto. eapply incl_tran; eauto. }
      assert (Ha'D : forall x, In x a' -> ~ In x D).
      { intros x Hx. apply in_map_iff in Hx. destruct Hx as (v & <- & Hv).
        apply Hlive; auto. apply Hment. apply in_or_app; auto. }
      assert (Hfresh : forall x, In x al -> ~ In x r).
      { intros x Hx Hr. apply (Hdis x Hr). auto. }
      assert (HrD : forall x, In x r -> ~ In x D).
      { intros x Hx HxD. apply (Hdis x Hx). auto. }
      assert (Hrmk : forall x, In x r -> ~ In x (marked_regions rg')).
      { intros x Hx Hm. apply (Hdis x Hx). auto. }
      assert (HA : forall mk',
                 (forall x, In x (ment_op (Op k mk' t i a' r rg')) ->
                            ~ In x D /\ ~ In x (marked_op (Op k mk' t i a' r rg'))) /\
                 (incl (marked_op (Op k mk' t i a' r rg')) (r ++ alr) /\
                  forall x, In x (marked_op (Op k mk' t i a' r rg')) -> ~ In x al)).
      { intros mk'. simpl. split; [|split].
        - intros x Hx. apply in_app_or in Hx. destruct Hx as [Hx|Hx].
          + split; [auto|]. intros Hm. apply in_app_or in Hm. destruct Hm as [Hm|Hm].
            * destruct mk'; [|destruct Hm]. apply (Hfresh x); auto.
            * apply (Rd2 x Hm). auto.
          + destruct (Ra x Hx) as [R1 R2]. split; auto.
            intros Hm. apply in_app_or in Hm. destruct Hm as [Hm|Hm]; auto.
            destruct mk'; [|destruct Hm]. apply (Hdis x Hm). auto.
        - apply incl_app; [|apply incl_appr; auto].
          destruct mk'; [apply incl_appl; apply incl_refl | intros x []].
        - intros x Hx. apply in_app_or in Hx. destruct Hx as [Hx|Hx]; [|apply Rd2; auto].
          destruct mk'; [|destruct Hx]. intros Hal. apply (Hfresh x Hal Hx). }
      assert (HL : forall mk', live used sc sg (marked_op (Op k mk' t i a' r rg') ++ D)).
      { intros mk'. eapply live_grow; eauto. apply HA. }
      assert (HK : forall mk', klive kn (marked_op (Op k mk' t i a' r rg') ++ D)).
      { intros mk'. eapply klive_grow; eauto. apply HA. }
      assert (Hrsg : forall v, In v r -> sapp sg v = v).
      { intros v Hv. apply sapp_notin. intros y Hy. apply (Hfresh v); auto.
        destruct (Hsgin v y Hy); auto. }
      assert (HLu : live used (r ++ sc) sg (marked_op (Op k false t i a' r rg') ++ D)).
      { intros v Hv Hvu. apply in_app_or in Hv. destruct Hv as [Hv|Hv]; [|apply HL; auto].
        rewrite Hrsg; auto. simpl. intros Hin. apply in_app_or in Hin.
        destruct Hin as [Hin|Hin]; [apply (Hrmk v Hv Hin) | apply (HrD v Hv Hin)]. }
      apply cse_op_cases in Hc. cbv zeta in Hc. fold kn0 in Hc. fold rg' in Hc. fold a' in Hc.
      cbn [op_res].
      destruct Hc as [(-> & -> & ->) | [(Ht & -> & -> & -> & Hdu & _) |
                      [(Ht & en & Hg & -> & -> & -> & _) | (Ht & -> & -> & -> & _)]]].
      + split; [apply HA|]. split; [apply HA|]. split; [exact HLu | apply HK].
      + cbn [set_mark]. split; [apply (HA true)|]. split; [apply (HA true)|].
        split; [|apply HK].
        intros v Hv Hvu. apply in_app_or in Hv. destruct Hv as [Hv|Hv]; [|apply HL; auto].
        exfalso. exact (disjointb_spec _ _ Hdu v Hv Hvu).
      + cbn [set_mark]. split; [apply (HA true)|]. split; [apply (HA true)|].
        split; [|apply HK].
        apply kget_some in Hg. destruct Hg as [Hin Hie].
        apply info_eq_inv in Hie. destruct Hie as (Hk & _ & _).
        destruct (Hklive en Hin) as [K1 K2].
        intros v Hv Hvu. apply in_app_or in Hv. destruct Hv as [Hv|Hv].
        * assert (Hy : In (sapp (sadd sg r (e_res en)) v) (e_res en)).
          { apply sapp_sadd_in; auto. rewrite K1, Hk. lia. }
          intros Hin'. apply in_app_or in Hin'. destruct Hin' as [Hin'|Hin'].
          -- apply (proj2 (proj2 (HA true)) _ Hin').
             apply (proj1 (proj2 (Hknin en Hin))); auto.
          -- apply (K2 _ Hy Hin').
        * rewrite sapp_sadd_notin; [apply HL; auto|].
          intros Hr. apply (Hfresh v); auto.
      + split; [apply HA|]. split; [apply HA|]. split; [exact HLu|].
        intros en' Hen'. apply kset_In in Hen'.
        destruct Hen' as [H|(H1 & H2 & H3 & _)]; [apply HK; auto|].
        rewrite H1, H3. split; auto.
        intros y Hy Hin. simpl in Hin. apply in_app_or in Hin.
        destruct Hin as [Hin|Hin]; [apply (Hrmk y Hy Hin) | apply (HrD y Hy Hin)].
    - (* RNil *)
      intros. rewrite cse_regions_nil. simpl. split; [intros x []|]. split; intros x [].
    - (* RCons *)
      intros rg IHr rs IHrs kn sg sc al al1 D Hwf Hsc HD Har Hu Hment Hsgin Hknin Hlive Hklive.
      simpl in Hwf, Har, Hu, Hment.
      destruct (wf_region sc al rg) as [al0|] eqn:Hr; [|discriminate].
      apply andb_true_iff in Har. destruct Har as [Har1 Har2].
      apply andb_true_iff in Hu. destruct Hu as [Hu1 Hu2].
      pose proof (proj1 (proj2 (proj2 wf_mono_all)) _ _ _ _ Hr) as Hm0.
      pose proof (proj1 (proj2 wf_mono_all) _ _ _ _ Hwf) as Hm1.
      assert (Hme1 : incl (ment_region rg) used) by (intros x Hx; apply Hment; apply in_or_app; auto).
      assert (Hme2 : incl (ment_regions rs) used) by (intros x Hx; apply Hment; apply in_or_app; auto).
      destruct (IHr kn sg sc al al0 D Hr Hsc HD Har1 Hu1 Hme1 Hsgin Hknin Hlive Hklive)
        as (Ra & Rd1 & Rd2).
      pose proof (proj1 (proj2 (proj2 syn_all)) _ used _ _ _ _ _ Hr Hsc Hsgin Hknin) as Hmr.
      assert (HD' : incl (marked_region (cser used kn sg rg) ++ D) al0).
      { apply incl_app; auto. eapply incl_tran; eauto. }
      destruct (IHrs kn sg sc al0 al1 (marked_region (cser used kn sg rg) ++ D) Hwf)
        as (Sa & Sd1 & Sd2); auto.
      { eapply incl_tran; eauto. }
      { eapply sg_in_mono; eauto. }
      { eapply kn_in_mono; eauto. }
      { eapply live_grow; eauto. }
      { eapply klive_grow; eauto. }
      rewrite cse_regions_cons. simpl. split; [|split].
      + intros x Hx. apply in_app_or in Hx. destruct Hx as [Hx|Hx].
        * destruct (Ra x Hx) as [R1 R2]. split; auto.
          intros Hm. apply in_app_or in Hm. destruct Hm as [Hm|Hm]; auto.
          apply (Sd2 x Hm). auto.
        * destruct (Sa x Hx) as [S1 S2]. split.
          -- intros HxD. apply S1. apply in_or_app; auto.
          -- intros Hm. apply in_app_or in Hm. destruct Hm as [Hm|Hm]; auto.
             apply S1. apply in_or_app; auto.
      + apply incl_app; auto. eapply incl_tran; eauto.
      + intros x Hx. apply in_app_or in Hx. destruct Hx as [Hx|Hx]; auto.
        intros Hal. apply (Sd2 x Hx). auto.
    - (* REmpty *)
      intros. rewrite cse_region_empty. simpl. split; [intros x []|]. split; intros x [].
    - (* RSingle *)
      intros ba b IH kn sg sc al al1 D Hwf Hsc HD Har Hu Hment Hsgin Hknin Hlive Hklive.
      apply wf_single_inv in Hwf. destruct Hwf as (Hnd & Hdis & Hwf).
      simpl in Har, Hu, Hment.
      rewrite cse_region_single. simpl.
      destruct (IH (map unlocal kn) sg [] (ba ++ sc) (ba ++ al) al1 D Hwf) as (Ba & Bd1 & Bd2); auto.
      + apply incl_app; [apply incl_appl; apply incl_refl | apply incl_appr; auto].
      + apply incl_appr; auto.
      + eapply sg_in_mono; eauto. apply incl_appr. apply incl_refl.
      + apply kn_in_unlocal. eapply kn_in_mono; eauto. apply incl_appr. apply incl_refl.
      + intros v Hv Hvu. apply in_app_or in Hv. destruct Hv as [Hv|Hv]; [|apply Hlive; auto].
        rewrite sapp_notin.
        * intros HvD. apply (Hdis v Hv). auto.
        * intros y Hy. apply (Hdis v Hv). destruct (Hsgin v y Hy); auto.
      + intros en Hen. apply in_map_iff in Hen. destruct Hen as (en0 & <- & Hen0).
        simpl. apply Hklive; auto.
      + split; auto. split; auto.
        intros x Hx Hal. apply (Bd2 x Hx). apply in_or_app; auto.
    - (* RMulti *)
      intros t c kn sg sc al al1 D Hwf Hsc HD Har Hu Hment Hsgin Hknin Hlive Hklive.
      simpl in Hwf, Hment.
      destruct (forallb (fun a => memb a sc) c) eqn:Hc; [|discriminate].
      rewrite cse_region_multi. simpl. split; [|split; intros x []].
      intros x Hx. split; auto. apply in_map_iff in Hx. destruct Hx as (v & <- & Hv).
      apply Hlive; auto. apply (forallb_memb_incl _ _ Hc); auto.
    - (* ONil *)
      intros. rewrite cse_ops_nil. simpl. split; [intros x []|]. split; intros x [].
    - (* OCons *)
      intros o IHo os IHos kn sg prefix sc al al1 D Hwf Hsc HD Har Hu Hment Hsgin Hknin Hlive Hklive.
      simpl in Hwf, Har, Hu, Hment.
      destruct (wf_op sc al o) as [al0|] eqn:Ho; [|discriminate].
      apply andb_true_iff in Har. destruct Har as [Har1 Har2].
      apply andb_true_iff in Hu. destruct Hu as [Hu1 Hu2].
      assert (Hme1 : incl (ment_op o) used) by (intros x Hx; apply Hment; apply in_or_app; auto).
      assert (Hme2 : incl (ment_ops os) used) by (intros x Hx; apply Hment; apply in_or_app; auto).
      rewrite cse_ops_cons.
      destruct (cseo used kn sg prefix o) as [[o' kn'] sg'] eqn:Hc.
      destruct (IHo _ _ _ _ _ _ _ _ _ _ Ho Hsc HD Har1 Hu1 Hme1 Hsgin Hknin Hlive Hklive Hc)
        as (Oa & (Od1 & Od2) & OL & OKl).
      destruct (proj1 syn_all _ _ _ _ _ _ _ _ _ _ _ Ho Hsc Hsgin Hknin Hc) as (Hmo & Hsgin' & Hknin').
      pose proof (proj1 wf_mono_all _ _ _ _ Ho) as Hm0.
      pose proof (proj2 (proj2 (proj2 wf_mono_all)) _ _ _ _ Hwf) as Hm1.
      pose proof (wf_op_res _ _ _ _ Ho) as Hres.
      assert (HD' : incl (marked_op o' ++ D) al0).
      { apply incl_app; auto. eapply incl_tran; eauto. }
      destruct (IHos kn' sg' (prefix ++ [o']) (op_res o ++ sc) al0 al1 (marked_op o' ++ D) Hwf)
        as (Sa & Sd1 & Sd2); auto.
      { apply incl_app; auto. eapply incl_tran; eauto. }
      simpl. split; [|split].
      + intros x Hx. apply in_app_or in Hx. destruct Hx as [Hx|Hx].
        * destruct (Oa x Hx) as [O1 O2]. split; auto.
          intros Hm. apply in_app_or in Hm. destruct Hm as [Hm|Hm]; auto.
          apply (Sd2 x Hm). auto.
        * destruct (Sa x Hx) as [S1 S2]. split.
          -- intros HxD. apply S1. apply in_or_app; auto.
          -- intros Hm. apply in_app_or in Hm. destruct Hm as [Hm|Hm]; auto.
             apply S1. apply in_or_app; auto.
      + apply incl_app; auto. eapply incl_tran; eauto.
      + intros x Hx. apply in_app_or in Hx. destruct Hx as [Hx|Hx]; auto.
        intros Hal. apply (Sd2 x Hx). auto.
  Qed.

  Theorem cse_never_raises_s : forall free r,
      wf_program free r = true -> arity_ok arity r = true ->
      cse eff_of meff_of req r <> None.
  Proof.
    intros free r Hwf Har. unfold wf_program in Hwf.
    destruct (wf_region free free r) as [al1|] eqn:Hr; [|discriminate].
    unfold cse, commit, cse_mark.
    destruct (proj1 (proj2 (proj2 (nr_all (ment_region r)))) r [] [] free free al1 [] Hr)
      as (Ra & _); auto.
    - apply incl_refl.
    - intros x [].
    - apply incl_refl.
    - intros x y [].
    - apply kn_in_nil.
    - intros v _ _ [].
    - intros en [].
    - rewrite disjointb_intro; [discriminate|].
      intros x Hmk Hme. apply (proj2 (Ra x Hme)); auto.
  Qed.

End CSEProofs.

(* ------------------------------------------------------------------ *)
(* the theorems, closed                                                *)
(* ------------------------------------------------------------------ *)

(* main theorem: the program produced by CSE yields the same values and the same final memory.
   The two premises about `arity` say that the number of results is a function of the op kind k
   (k interns the result types), for the semantics and for the program. *)
Theorem cse_preserves :
  forall (val mem : Type)
         (osem : nat -> list val -> list (rden val mem) -> mem -> list val * mem)
         (mden : nat -> list val -> rden val mem)
         (eff_of : nat -> eff) (meff_of : nat -> effs) (req : regions -> regions -> bool),
    sem_ok val mem osem mden eff_of meff_of req ->
    forall arity : nat -> nat,
    (forall k a ds m, length (fst (osem k a ds m)) = arity k) ->
    forall (free : list vid) (r r' : region),
      wf_program free r = true ->
      arity_ok arity r = true ->
      cse eff_of meff_of req r = Some r' ->
      forall e vs m,
        den_region val mem osem mden r' e vs m = den_region val mem osem mden r e vs m.
Proof. exact cse_preserves_s. Qed.

Theorem cse_mark_preserves :
  forall (val mem : Type)
         (osem : nat -> list val -> list (rden val mem) -> mem -> list val * mem)
         (mden : nat -> list val -> rden val mem)
         (eff_of : nat -> eff) (meff_of : nat -> effs) (req : regions -> regions -> bool),
    sem_ok val mem osem mden eff_of meff_of req ->
    forall arity : nat -> nat,
    (forall k a ds m, length (fst (osem k a ds m)) = arity k) ->
    forall (free : list vid) (r : region),
      wf_program free r = true ->
      arity_ok arity r = true ->
      forall e vs m,
        den_region val mem osem mden (cse_mark eff_of meff_of req r) e vs m =
        den_region val mem osem mden r e vs m.
Proof. exact cse_mark_preserves_s. Qed.

Theorem commit_preserves :
  forall (val mem : Type)
         (osem : nat -> list val -> list (rden val mem) -> mem -> list val * mem)
         (mden : nat -> list val -> rden val mem)
         (eff_of : nat -> eff) (meff_of : nat -> effs) (req : regions -> regions -> bool),
    sem_ok val mem osem mden eff_of meff_of req ->
    forall q q' : region,
      marks_ok eff_of meff_of q = true ->
      commit q = Some q' ->
      forall e vs m,
        den_region val mem osem mden q' e vs m = den_region val mem osem mden q e vs m.
Proof. exact commit_preserves_s. Qed.

Theorem cse_mark_marks_ok_unmarked :
  forall (eff_of : nat -> eff) (meff_of : nat -> effs) (req : regions -> regions -> bool) (r : region),
    unmarked_region r = true ->
    marks_ok eff_of meff_of (cse_mark eff_of meff_of req r) = true.
Proof. exact cse_mark_marks_ok_s. Qed.

Theorem cse_mark_marks_ok :
  forall (eff_of : nat -> eff) (meff_of : nat -> effs) (req : regions -> regions -> bool)
         (free : list vid) (r : region),
    wf_program free r = true ->
    marks_ok eff_of meff_of (cse_mark eff_of meff_of req r) = true.
Proof.
  intros eff_of meff_of req free r Hwf. apply cse_mark_marks_ok_s.
  unfold wf_program in Hwf. destruct (wf_region free free r); [exact Hwf | discriminate].
Qed.

Theorem cse_never_raises :
  forall (eff_of : nat -> eff) (meff_of : nat -> effs) (req : regions -> regions -> bool)
         (arity : nat -> nat) (free : list vid) (r : region),
    wf_program free r = true ->
    arity_ok arity r = true ->
    cse eff_of meff_of req r <> None.
Proof. intros eff_of meff_of req arity free r. apply cse_never_raises_s. Qed.

(* ------------------------------------------------------------------ *)
(* non-vacuity: a concrete run of the model                            *)
(* ------------------------------------------------------------------ *)
Definition ex_eff (k : nat) : eff :=
  match k mod 5 with 0 => EPure | 1 => ERead | 2 => EWrite | 3 => ERec | _ => EUnk end.
Definition ex_meff (t : nat) : effs := None.
Definition ex_req (a b : regions) : bool :=
  match a, b with RNil, RNil => true | _, _ => false end.
Definition ex_arity (k : nat) : nat := match k with 5 => 1 | 6 => 1 | _ => 0 end.
Fixpoint ops_of (l : list op) : ops :=
  match l with [] => ONil | o :: l' => OCons o (ops_of l') end.

Definition ex_p : region :=
  RSingle [0] (ops_of
    [Op 5 false false false [0] [1] RNil;
     Op 5 false false false [0] [2] RNil;
     Op 6 false false false [1] [3] RNil;
     Op 6 false false false [2] [4] RNil;
     Op 7 false false false [0] [] RNil;
     Op 6 false false false [2] [5] RNil;
     Op 6 false false false [1] [6] RNil;
     Op 9 false true false [3; 4; 5; 6] [] RNil]).

Definition ex_q : region :=
  RSingle [0] (ops_of
    [Op 5 false false false [0] [1] RNil;
     Op 6 false false false [1] [3] RNil;
     Op 7 false false false [0] [] RNil;
     Op 6 false false false [1] [5] RNil;
     Op 9 false true false [3; 3; 5; 5] [] RNil]).

(* the read after the write is kept, the duplicates are removed *)
Example cse_example :
  wf_program [] ex_p = true /\ arity_ok ex_arity ex_p = true /\
  cse ex_eff ex_meff ex_req ex_p = Some ex_q.
Proof. vm_compute. repeat split. Qed.
