(* C14/ProofsFloat.v -- the float constant folder against IEEE-754.

   Bit-exactness is Leibniz equality of primitive floats / spec_floats: +0 and -0 are distinct,
   all NaNs are one value (Coq's binary64 model has a single NaN; MLIR does not specify NaN
   payloads).  The theorems rest on the primitive-float specification axioms of the standard
   library (FloatAxioms: Prim2SF_inj, div_spec, mul_spec, eqb_spec, ltb_spec), nothing else.

   `fold_f64` / `fold_f32` model the CURRENT code (commits 3d73fc5, 667d764) and are proved correct
   in full; `fold_f64_old` / `fold_f32_old` model the code before and carry the recorded refutations. *)
From Coq Require Import ZArith Bool PrimFloat SpecFloat FloatOps FloatAxioms.
From XV Require Import C14.ModelFloat.

Lemma P2SF_zero : Prim2SF 0%float = S754_zero false. Proof. reflexivity. Qed.
Lemma P2SF_nan : Prim2SF nan = S754_nan. Proof. reflexivity. Qed.
Lemma P2SF_inf : Prim2SF infinity = S754_infinity false. Proof. reflexivity. Qed.
Lemma P2SF_ninf : Prim2SF neg_infinity = S754_infinity true. Proof. reflexivity. Qed.

Lemma zero_eqb_cases : forall r, (r =? 0)%float = true -> exists s, Prim2SF r = S754_zero s.
Proof.
  intros r H. rewrite eqb_spec, P2SF_zero in H.
  destruct (Prim2SF r) as [s | s | | s m e]; cbn in H.
  - exists s; reflexivity.
  - destruct s; discriminate.
  - discriminate.
  - destruct s; discriminate.
Qed.

(* ================================================================ current code: binary64, full strength *)

Lemma SFeqb_finite_refl : forall s m e, SFeqb (S754_finite s m e) (S754_finite s m e) = true.
Proof.
  intros s m e. unfold SFeqb, SFcompare.
  destruct s; cbn; rewrite Z.compare_refl; fold (Pos.compare m m); rewrite Pos.compare_refl; reflexivity.
Qed.

(* the product of the two copysigns is the correctly signed infinity *)
Lemma copysign_product : forall sl sr : bool,
  Prim2SF ((if sl then neg_infinity else infinity) * (if sr then (-1)%float else 1%float))%float
  = S754_infinity (xorb sl sr).
Proof. intros [|] [|]; reflexivity. Qed.

Lemma fold_f64_div_zero : forall l r s, Prim2SF r = S754_zero s -> fold_f64 FDiv l r = (l / r)%float.
Proof.
  intros l r s Hr. unfold fold_f64.
  assert (Ez : (r =? 0)%float = true).
  { rewrite eqb_spec, Hr, P2SF_zero. destruct s; reflexivity. }
  rewrite Ez. apply Prim2SF_inj. rewrite div_spec, Hr.
  unfold is_nan. rewrite (eqb_spec l 0), (eqb_spec l l), P2SF_zero.
  unfold copysign_inf, copysign_one, fsign. rewrite Hr.
  destruct (Prim2SF l) as [sl | sl | | sl m e] eqn:El.
  - (* l is a zero: 0/0 = nan *)
    destruct sl; cbn; apply P2SF_nan.
  - (* l is an infinity *)
    replace (SFeqb (S754_infinity sl) (S754_zero false) || negb (SFeqb (S754_infinity sl) (S754_infinity sl)))
      with false by (destruct sl; reflexivity).
    rewrite copysign_product. reflexivity.
  - (* l is NaN *)
    cbn. apply P2SF_nan.
  - (* l is finite and non-zero *)
    rewrite SFeqb_finite_refl.
    replace (SFeqb (S754_finite sl m e) (S754_zero false)) with false by (destruct sl; reflexivity).
    cbn [negb orb]. rewrite copysign_product. reflexivity.
Qed.

(* C14_fold_f64: for ALL operands the folded binary64 constant is the IEEE-754 result, bit for bit *)
Theorem fold_f64_full : forall op l r, fold_f64 op l r = ieee64 op l r.
Proof.
  intros op l r. destruct op; try reflexivity.
  cbn [ieee64]. destruct (r =? 0)%float eqn:E.
  - destruct (zero_eqb_cases r E) as [s Hs]. exact (fold_f64_div_zero l r s Hs).
  - unfold fold_f64. rewrite E. reflexivity.
Qed.

Lemma fold_f64_fixed_witnesses :
  fold_f64 FDiv 1 (-0) = neg_infinity /\ fold_f64 FDiv nan 0 = nan /\ fold_f64 FDiv (-1) 0 = neg_infinity /\
  fold_f64 FDiv (-1) (-0) = infinity.
Proof. repeat split; reflexivity. Qed.

(* ================================================================ current code: binary32 *)
Definition valid32 (x : spec_float) : Prop := SpecFloat.valid_binary 24%Z 128%Z x = true.

Lemma bra_inf_sign : forall p em sx mx ex lx s',
  binary_round_aux p em sx mx ex lx = S754_infinity s' -> s' = sx.
Proof.
  intros p em sx mx ex lx s' H. unfold binary_round_aux in H.
  destruct (shr_fexp p em mx ex lx) as [mrs' e'].
  destruct (shr_fexp p em (round_nearest_even (shr_m mrs') (loc_of_shr_record mrs')) e' loc_Exact) as [mrs'' e''].
  destruct (shr_m mrs''); try discriminate.
  destruct (e'' <=? em - p)%Z; inversion H; reflexivity.
Qed.

(* the folded binary32 constant is the binary64 result rounded once more to binary32 -- never an exception *)
Lemma fold_f32_is_round : forall op l r, fold_f32 op l r = round32 (Prim2SF (fold_f64 op l r)).
Proof.
  intros op l r. unfold fold_f32, pack32, round32, fsign.
  destruct (Prim2SF (fold_f64 op l r)) as [s | s | | s m e]; try reflexivity.
  destruct (binary_round 24 128 s m e) as [s' | s' | | s' m' e'] eqn:E; try reflexivity.
  unfold binary_round in E.
  destruct (shl_align m e (fexp 24 128 (Z.pos (digits2_pos m) + e))) as [mz ez].
  apply bra_inf_sign in E. subst. reflexivity.
Qed.

Section DoubleRounding.
  (* Rounding an exact binary64 result of + - * / on binary32 operands to binary32 gives the
     correctly rounded binary32 result (53 >= 2*24 + 2; Figueroa 1995, Roux 2014).  Named
     hypothesis: NOT proved here; evaluated inside Coq on every f32 pair of the correspondence check.
     x, y are binary32 values; xDSL holds them as the doubles `f64_of_sf32 x`. *)
  Hypothesis double_rounding_innocuous : forall op x y,
    valid32 x -> valid32 y ->
    round32 (Prim2SF (ieee64 op (f64_of_sf32 x) (f64_of_sf32 y))) = ieee32 op x y.

  Theorem fold_f32_full : forall op x y,
    valid32 x -> valid32 y -> fold_f32 op (f64_of_sf32 x) (f64_of_sf32 y) = ieee32 op x y.
  Proof.
    intros op x y Hx Hy. rewrite fold_f32_is_round, fold_f64_full.
    apply double_rounding_innocuous; assumption.
  Qed.
End DoubleRounding.

Definition two127 : spec_float := S754_finite false 8388608 104.
Lemma fold_f32_fixed_witness :
  valid32 two127 /\ fold_f32 FAdd (f64_of_sf32 two127) (f64_of_sf32 two127) = S754_infinity false /\
  ieee32 FAdd two127 two127 = S754_infinity false.
Proof. split; [reflexivity | split; reflexivity]. Qed.

Lemma fold_f32_example :
  bits_of_sf32 (fold_f32 FAdd (f64_of_sf32 (sf32_of_bits 1266679808)) (f64_of_sf32 (sf32_of_bits 1065353217)))
  = bits_of_sf32 (ieee32 FAdd (sf32_of_bits 1266679808) (sf32_of_bits 1065353217)).
Proof. vm_compute. reflexivity. Qed.

(* ================================================================ recorded refutations of the code BEFORE the fixes *)

(* the defect: the sign of a zero divisor was ignored, and a NaN dividend was not propagated *)
Lemma fold_f64_old_div_negzero_refuted :
  fold_f64_old FDiv 1 (-0) = infinity /\ (1 / (-0))%float = neg_infinity /\ infinity <> neg_infinity.
Proof.
  split; [reflexivity | split; [reflexivity |]].
  intro H. apply (f_equal Prim2SF) in H. rewrite P2SF_inf, P2SF_ninf in H. discriminate.
Qed.
Lemma fold_f64_old_div_nan_refuted :
  fold_f64_old FDiv nan 0 = infinity /\ (nan / 0)%float = nan /\ infinity <> nan.
Proof.
  split; [reflexivity | split; [reflexivity |]].
  intro H. apply (f_equal Prim2SF) in H. rewrite P2SF_inf, P2SF_nan in H. discriminate.
Qed.

(* an f32 fold whose IEEE result overflows raised OverflowError (None) *)
Lemma fold_f32_old_overflow_refuted :
  valid32 two127 /\ fold_f32_old FAdd (f64_of_sf32 two127) (f64_of_sf32 two127) = None /\
  ieee32 FAdd two127 two127 = S754_infinity false.
Proof. split; [reflexivity | split; reflexivity]. Qed.
