(* C19/ProofsLoopEx.v -- the hypotheses of the loop theorem are satisfiable: a concrete function with a
   riscv_scf.for carrying one value (iter_args), checked against every hypothesis, and the theorem applied. *)
From Coq Require Import ZArith List Bool Arith Lia.
From XV Require Import C19.Model C19.ProofsSpec C19.ProofsStack C19.ProofsStep C19.ProofsRefute C19.ProofsFunc C19.ProofsLoop2 C19.ProofsLoopSem.
Import ListNotations.
Local Open Scope Z_scope.

(* ---- a reflective check of "values in one tie class are never live together" ---- *)
Section TieCheck.
  Variable cls : value -> nat.          (* a colouring that is constant on tie-connected values *)

  Definition definedb (s : list sop) (v : value) : bool := existsb (fun o => memN v (defs o)) s.
  Lemma definedb_sound : forall s v, defined_in s v -> definedb s v = true.
  Proof.
    intros s v [o [Ho Hv]]. unfold definedb. apply existsb_exists. exists o. split; [exact Ho | apply memN_In; exact Hv].
  Qed.

  Definition checkb (s : list sop) : bool :=
    let U := flat_map uses s in
    forallb (fun v1 => forallb (fun v2 =>
      implb (negb (definedb s v1) && negb (definedb s v2) && Nat.eqb (cls v1) (cls v2)) (Nat.eqb v1 v2)) U) U.

  Lemma checkb_sound : forall s, checkb s = true ->
    forall v1 v2, live s v1 -> live s v2 -> cls v1 = cls v2 -> v1 = v2.
  Proof.
    intros s Hc v1 v2 [U1 D1] [U2 D2] Hcls. unfold checkb in Hc. rewrite forallb_forall in Hc.
    assert (I1 : In v1 (flat_map uses s)). { destruct U1 as [o [Ho Hv]]. apply in_flat_map. exists o. split; assumption. }
    assert (I2 : In v2 (flat_map uses s)). { destruct U2 as [o [Ho Hv]]. apply in_flat_map. exists o. split; assumption. }
    specialize (Hc v1 I1). rewrite forallb_forall in Hc. specialize (Hc v2 I2).
    assert (N1 : definedb s v1 = false).
    { destruct (definedb s v1) eqn:E; [|reflexivity]. exfalso. apply D1.
      unfold definedb in E. apply existsb_exists in E. destruct E as [o [Ho Hv]]. exists o. split; [exact Ho | apply memN_In; exact Hv]. }
    assert (N2 : definedb s v2 = false).
    { destruct (definedb s v2) eqn:E; [|reflexivity]. exfalso. apply D2.
      unfold definedb in E. apply existsb_exists in E. destruct E as [o [Ho Hv]]. exists o. split; [exact Ho | apply memN_In; exact Hv]. }
    rewrite N1, N2, Hcls, Nat.eqb_refl in Hc. simpl in Hc. apply Nat.eqb_eq. exact Hc.
  Qed.

  Fixpoint tails (l : list sop) : list (list sop) :=
    l :: match l with [] => [] | _ :: t => tails t end.
  Lemma tails_in : forall p l s, l = p ++ s -> In s (tails l).
  Proof.
    induction p as [|o p IH]; intros l s Hl; simpl in Hl; subst l.
    - destruct s; simpl; left; reflexivity.
    - simpl. right. apply IH. reflexivity.
  Qed.

  Lemma tie_check : forall pre f post,
    (forall a b, ltie pre f post a b -> cls a = cls b) ->
    forallb checkb (tails (virt pre f post)) = true ->
    forall p s, virt pre f post = p ++ s -> forall v1 v2, live s v1 -> live s v2 -> v1 <> v2 ->
      tconn pre f post v1 v2 -> False.
  Proof.
    intros pre f post Hcls Hall p s Hl v1 v2 L1 L2 Hne Hc.
    assert (Hcc : cls v1 = cls v2).
    { clear - Hc Hcls. induction Hc as [|u v w Hc IH [Hs|Hs]];
        [reflexivity | rewrite IH; apply Hcls; exact Hs | rewrite IH; symmetry; apply Hcls; exact Hs]. }
    exact (Hne (checkb_sound s (proj1 (forallb_forall _ _) Hall s (tails_in p _ s Hl)) v1 v2 L1 L2 Hcc)).
  Qed.
  (* ... and none is written while another one is live *)
  Definition checkdefb (l : list sop) : bool :=
    match l with
    | [] => true
    | o :: s => forallb (fun d => forallb (fun v =>
                  implb (negb (definedb s v) && Nat.eqb (cls d) (cls v)) (Nat.eqb d v)) (flat_map uses s)) (defs o)
    end.

  Lemma tie_check_def : forall pre f post,
    (forall a b, ltie pre f post a b -> cls a = cls b) ->
    forallb checkdefb (tails (virt pre f post)) = true ->
    forall p o s, virt pre f post = p ++ o :: s -> forall d v, In d (defs o) -> live s v -> d <> v ->
      tconn pre f post d v -> False.
  Proof.
    intros pre f post Hcls Hall p o s Hl d v Hd [U D] Hne Hc.
    assert (Hcc : cls d = cls v).
    { clear - Hc Hcls. induction Hc as [|u v w Hc IH [Hs|Hs]];
        [reflexivity | rewrite IH; apply Hcls; exact Hs | rewrite IH; symmetry; apply Hcls; exact Hs]. }
    pose proof (proj1 (forallb_forall _ _) Hall (o :: s) (tails_in p _ (o :: s) Hl)) as Hchk.
    simpl in Hchk. rewrite forallb_forall in Hchk. specialize (Hchk d Hd). rewrite forallb_forall in Hchk.
    assert (I : In v (flat_map uses s)). { destruct U as [o' [Ho Hv]]. apply in_flat_map. exists o'. split; assumption. }
    specialize (Hchk v I).
    assert (N : definedb s v = false).
    { destruct (definedb s v) eqn:E; [|reflexivity]. exfalso. apply D.
      unfold definedb in E. apply existsb_exists in E. destruct E as [o' [Ho Hv]]. exists o'. split; [exact Ho | apply memN_In; exact Hv]. }
    rewrite N, Hcc, Nat.eqb_refl in Hchk. simpl in Hchk. apply Nat.eqb_eq in Hchk. exact (Hne Hchk).
  Qed.
End TieCheck.

(* ---- the example ----
     %0 = li ; %1 = li ; %2 = li ; %3 = mv %2
     %4 = riscv_scf.for %5 = %0 to %1 iter_args(%6 = %3) { %7 = add %6, %5 ; yield %7 }
     return %4                                                                                   *)
Definition ex_pre : list sop :=
  [mkSop [] [0%nat] [] KOther true; mkSop [] [1%nat] [] KOther true; mkSop [] [2%nat] [] KOther true;
   mkSop [2%nat] [3%nat] [] KMv true].
Definition ex_f : forop :=
  mkFor 0%nat 1%nat None [3%nat] [4%nat] [5%nat; 6%nat] [mkSop [6%nat; 5%nat] [7%nat] [] KOther true] [7%nat].
Definition ex_post : list sop := [mkSop [4%nat] [] [] KOther true].
Definition ex_types : list (option Z) := repeat None 8.
Definition ex_fn : func := mkFunc ex_types (map Simple ex_pre ++ For ex_f :: map Simple ex_post).
Definition ex_cls (v : value) : nat := if memN v [3; 6; 7; 4]%nat then 3%nat else v.

Lemma ex_virt : virt ex_pre ex_f ex_post =
  [mkSop [] [0%nat] [] KOther true; mkSop [] [1%nat] [] KOther true; mkSop [] [2%nat] [] KOther true;
   mkSop [2%nat] [3%nat] [] KMv true;
   mkSop [0%nat; 1%nat] [5%nat] [(3%nat, 6%nat)] KOther false;
   mkSop [6%nat; 5%nat] [7%nat] [] KOther true;
   mkSop [5%nat; 1%nat] [] [(7%nat, 4%nat)] KOther false;
   mkSop [4%nat] [] [] KOther true].
Proof. vm_compute. reflexivity. Qed.

Lemma ex_wf : wf_prog (virt ex_pre ex_f ex_post).
Proof.
  rewrite ex_virt. constructor.
  - simpl. repeat constructor; simpl; intuition discriminate.
  - wf_use_tac.
  - intros o H Hk. in_cases H; simpl in Hk; try congruence. split; [reflexivity | exists 3%nat; reflexivity].
Qed.

Lemma ex_io : io_ok (virt ex_pre ex_f ex_post).
Proof.
  rewrite ex_virt. intros p o s Hl.
  refine (splitsP_all (fun _ o' s' => NoDup (map fst (s_io o')) /\ forall x, In x (map fst (s_io o')) -> ~ used_in s' x) _ [] _ p o s Hl).
  simpl. repeat split; try (constructor; simpl; intuition; fail); try (repeat constructor; simpl; tauto);
    intros x Hx; simpl in Hx; try contradiction;
    destruct Hx as [Hx|[]]; subst x; intros [o' [Ho' Hu]]; in_cases Ho'; unfold uses, sop_operands in Hu; simpl in Hu;
    intuition discriminate.
Qed.

Lemma ex_ties : forall a b, ltie ex_pre ex_f ex_post a b -> ex_cls a = ex_cls b.
Proof.
  intros a b [[o [Ho Hin]]|Hin].
  - rewrite ex_virt in Ho. in_cases Ho; simpl in Hin; try contradiction;
      destruct Hin as [Hin|[]]; inversion Hin; subst; reflexivity.
  - simpl in Hin. destruct Hin as [Hin|[]]. inversion Hin; subst. reflexivity.
Qed.

Lemma ex_run : match allocate_func true [7; 6; 5] false ex_fn with
               | Ok af => map (ty af) (seq 0 8) = [Some 6; Some 7; Some 5; Some 5; Some 5; Some 6; Some 5; Some 5]
               | Err _ => False end.
Proof. vm_compute. reflexivity. Qed.

(* every hypothesis of C19_no_interference_loop holds for the example, allocation succeeds, and the theorem
   yields freedom from interference at every point of the function *)
Theorem loop_hypotheses_satisfiable :
  exists zr pool allow types pre f post af,
    allocate_func zr pool allow (mkFunc types (map Simple pre ++ For f :: map Simple post)) = Ok af
    /\ f_iters f <> []                                  (* a loop-carried value *)
    /\ ty af 3%nat = Some 5 /\ ty af 6%nat = Some 5 /\ ty af 7%nat = Some 5 /\ ty af 4%nat = Some 5   (* one register *)
    /\ ty af 5%nat = Some 6                            (* induction variable elsewhere *)
    /\ forall p s, virt pre f post = p ++ s ->
         (forall v, live s v -> exists r, ty af v = Some r)
         /\ (forall v1 v2 r, live s v1 -> live s v2 -> v1 <> v2 -> ty af v1 = Some r -> ty af v2 = Some r ->
               zr = true /\ r = 0).
Proof.
  pose proof ex_run as Hrun.
  destruct (allocate_func true [7; 6; 5] false ex_fn) as [af|e] eqn:E; [|contradiction].
  exists true, [7; 6; 5], false, ex_types, ex_pre, ex_f, ex_post, af.
  split; [exact E|]. split; [discriminate|].
  pose proof (f_equal (fun l => nth 3 l None) Hrun) as H3. pose proof (f_equal (fun l => nth 4 l None) Hrun) as H4.
  pose proof (f_equal (fun l => nth 5 l None) Hrun) as H5. pose proof (f_equal (fun l => nth 6 l None) Hrun) as H6.
  pose proof (f_equal (fun l => nth 7 l None) Hrun) as H7. simpl in H3, H4, H5, H6, H7.
  split; [exact H3|]. split; [exact H6|]. split; [exact H7|]. split; [exact H4|]. split; [exact H5|].
  apply (func_loop_no_interference true [7; 6; 5] false ex_types ex_pre ex_f ex_post 5%nat [6%nat] af).
  - intros _. simpl. intuition lia.
  - intros r Hr. simpl in Hr. intuition lia.
  - intros v. unfold ty0. simpl. do 8 (destruct v as [|v]; [reflexivity|]). destruct v; reflexivity.
  - reflexivity.
  - exact ex_wf.
  - exact ex_io.
  - intros o x y _ _ Hc. vm_compute in Hc. exact Hc.
  - simpl. repeat split; reflexivity.
  - vm_compute. repeat constructor; simpl; intuition discriminate.
  - intros v Hv [o [Ho Hu]]. in_cases Ho. unfold uses, sop_operands in Hu. simpl in Hu.
    destruct Hu as [Hu|[]]. subst v. destruct Hv as [Hv|[o [Ho Hd]]].
    + simpl in Hv. intuition discriminate.
    + in_cases Ho. unfold defs, sop_results in Hd. simpl in Hd. intuition discriminate.
  - vm_compute. intuition discriminate.
  - intros v Hv. vm_compute in Hv. destruct Hv.
  - intros v Hv. simpl in Hv. destruct Hv as [Hv|[Hv|[]]]; subst v; (split; [vm_compute; intuition discriminate | discriminate]).
  - apply (tie_check ex_cls ex_pre ex_f ex_post ex_ties). vm_compute. reflexivity.
  - exact E.
Qed.

Theorem loop_clobber_hypotheses_satisfiable :
  forall p o s, virt ex_pre ex_f ex_post = p ++ o :: s -> forall d v, In d (defs o) -> live s v -> d <> v ->
    tconn ex_pre ex_f ex_post d v -> False.
Proof. apply (tie_check_def ex_cls ex_pre ex_f ex_post ex_ties). vm_compute. reflexivity. Qed.

(* the semantics theorem applies to the example: for every trip count the lowered loop and the SSA loop
   agree on the returned value %4 *)
Theorem loop_semantics_example :
  exists af, allocate_func true [7; 6; 5] false ex_fn = Ok af /\
  forall (data : Type) (dzero : data) (fop : nat -> nat -> list data -> data) (ivnext : data -> data -> data)
         (n : nat) (env : value -> data) (rf : Z -> data),
    (forall v, live (Hop ex_f :: f_body ex_f ++ Yop ex_f :: ex_post) v -> read_reg data dzero true (asg_of af) rf v = env v) ->
    (forall v, In v (zero_consts (ex_pre ++ [Hop ex_f])) -> env v = dzero) ->
    read_reg data dzero true (asg_of af) (regs_loop data dzero fop ivnext true (asg_of af) ex_pre ex_f 5%nat n rf) 4%nat
    = ssa_loop data dzero fop ivnext ex_pre ex_f 5%nat [6%nat] n env 4%nat.
Proof.
  pose proof ex_run as Hrun.
  destruct (allocate_func true [7; 6; 5] false ex_fn) as [af|e] eqn:E; [|contradiction].
  exists af. split; [reflexivity|].
  intros data dzero fop ivnext n env rf Hag Hzc.
  apply (func_loop_semantics true [7; 6; 5] false ex_types ex_pre ex_f ex_post 5%nat [6%nat] af).
  - intros _. simpl. intuition lia.
  - intros r Hr. simpl in Hr. intuition lia.
  - intros v. unfold ty0. simpl. do 8 (destruct v as [|v]; [reflexivity|]). destruct v; reflexivity.
  - reflexivity.
  - exact ex_wf.
  - exact ex_io.
  - intros o x y _ _ Hc. vm_compute in Hc. exact Hc.
  - simpl. repeat split; reflexivity.
  - vm_compute. repeat constructor; simpl; intuition discriminate.
  - intros v Hv [o [Ho Hu]]. in_cases Ho. unfold uses, sop_operands in Hu. simpl in Hu.
    destruct Hu as [Hu|[]]. subst v. destruct Hv as [Hv|[o [Ho Hd]]].
    + simpl in Hv. intuition discriminate.
    + in_cases Ho. unfold defs, sop_results in Hd. simpl in Hd. intuition discriminate.
  - vm_compute. intuition discriminate.
  - intros v Hv. vm_compute in Hv. destruct Hv.
  - intros v Hv. simpl in Hv. destruct Hv as [Hv|[Hv|[]]]; subst v; (split; [vm_compute; intuition discriminate | discriminate]).
  - apply (tie_check ex_cls ex_pre ex_f ex_post ex_ties). vm_compute. reflexivity.
  - exact loop_clobber_hypotheses_satisfiable.
  - exact E.
  - exact Hag.
  - exact Hzc.
  - (* %4 is live after the loop *)
    split; [exists (mkSop [4%nat] [] [] KOther true); split; [left; reflexivity | left; reflexivity]|].
    intros [o [Ho Hd]]. in_cases Ho; unfold defs, sop_results in Hd; simpl in Hd; exact Hd.
Qed.
