(* C19/ProofsLoop.v -- riscv_scf.for (one nesting level): the loop-carried groups, the reservation,
   and the walk over the virtual straight-line block  pre ++ H :: body ++ Y :: post. *)
From Coq Require Import ZArith List Bool Arith Lia.
From XV Require Import C19.Model C19.ProofsSpec C19.ProofsStack C19.ProofsAlloc C19.ProofsOp C19.ProofsStep
                       C19.ProofsMain.
Import ListNotations.
Local Open Scope Z_scope.

Section Group.
  Variable c : cfg.
  Variable t0 : value -> option Z.
  Variable FR : value -> Z -> Prop.
  Hypothesis FR_pre : forall v r, t0 v = Some r -> FR v r.
  Notation Inv := (Inv c t0 FR).
  Notation Pset := (Pset t0).

  (* allocate_values_same_reg on (block_arg, operand, yield_operand, op_result), the first three
     still unallocated *)
  Lemma group4_spec : forall b it y r_ a a',
    NoDup [b; it; y; r_] -> ty a b = None -> ty a it = None -> ty a y = None ->
    allocate_values_same_reg [b; it; y; r_] a = Ok a' ->
    (ty a r_ = None /\ exists R s, pop (stk a) = Ok (R, s)
       /\ a' = set_ty r_ R (set_ty y R (set_ty it R (set_ty b R (set_stk a s)))))
    \/ (exists R, ty a r_ = Some R /\ a' = set_ty y R (set_ty it R (set_ty b R a))).
  Proof.
    intros b it y r_ a a' Hnd Hb Hit Hy H.
    inversion Hnd as [|? ? Nb Hnd1]; subst. inversion Hnd1 as [|? ? Nit Hnd2]; subst.
    inversion Hnd2 as [|? ? Ny _]; subst. simpl in Nb, Nit, Ny.
    assert (E1 : Nat.eqb it b = false) by (apply Nat.eqb_neq; intro; subst; tauto).
    assert (E2 : Nat.eqb y b = false) by (apply Nat.eqb_neq; intro; subst; tauto).
    assert (E3 : Nat.eqb r_ b = false) by (apply Nat.eqb_neq; intro; subst; tauto).
    assert (E4 : Nat.eqb y it = false) by (apply Nat.eqb_neq; intro; subst; tauto).
    assert (E5 : Nat.eqb r_ it = false) by (apply Nat.eqb_neq; intro; subst; tauto).
    assert (E6 : Nat.eqb r_ y = false) by (apply Nat.eqb_neq; intro; subst; tauto).
    unfold allocate_values_same_reg in H. simpl in H. rewrite Hb, Hit, Hy in H. simpl in H.
    destruct (ty a r_) as [R|] eqn:Er; simpl in H.
    - right. exists R. split; [reflexivity|]. unfold assign_all in H. simpl in H.
      repeat (rewrite ?Hb, ?Hit, ?Hy, ?Er, ?E1, ?E2, ?E3, ?E4, ?E5, ?E6, ?Z.eqb_refl in H; simpl in H).
      inversion H; subst. reflexivity.
    - left. split; [reflexivity|].
      destruct (pop (stk a)) as [[R s]|e] eqn:Ep; simpl in H; [|discriminate].
      exists R, s. split; [reflexivity|]. unfold assign_all in H. simpl in H.
      repeat (rewrite ?Hb, ?Hit, ?Hy, ?Er, ?E1, ?E2, ?E3, ?E4, ?E5, ?E6, ?Z.eqb_refl in H; simpl in H).
      inversion H; subst. reflexivity.
  Qed.

  (* giving one register R to several members of one loop-carried group *)
  Section Members.
    Variable four : list value.
    Variable E : value -> value -> Prop.
    Hypothesis HEin : forall u w, In u four -> In w four -> E u w.
    Variable R : Z.

    Lemma set_members : forall vs (L M : value -> Prop) a,
      Inv L E M a ->
      (forall v, In v vs -> In v four /\ ty a v = None) -> NoDup vs ->
      ~ In R (available (stk a)) ->
      (R < 0 -> - R - 1 < next_inf (stk a) /\ (allow_inf (stk a) = true \/ Pset R)) ->
      (zero_rule c = true -> R <> 0) ->
      (Pset R -> forall u, In u four -> FR u R) ->
      (In R (allocatable (stk a)) \/ (R < 0 /\ allow_inf (stk a) = true) \/ Pset R) ->
      (forall w, L w -> ~ In w four -> ty a w = Some R -> Pset R \/ (zero_rule c = true /\ R = 0)) ->
      let a' := fold_left (fun a v => set_ty v R a) vs a in
      Inv (setof L vs) E (setof M vs) a' /\ mono a a' /\ (forall v, In v vs -> ty a' v = Some R)
      /\ (forall w, ~ In w vs -> ty a' w = ty a w) /\ stk a' = stk a.
    Proof.
      induction vs as [|v t IH]; intros L M a HI Hvs Hnd Hna Hneg Hnz HFR Hprov Hout; simpl.
      - split; [|split; [intros w q H; exact H | split; [intros v [] | split; [intros; reflexivity | reflexivity]]]].
        eapply Inv_weaken; [exact HI | intros w [Hw|[]]; exact Hw | intros w Hw; left; exact Hw].
      - inversion Hnd as [|? ? Hnv Hnd']; subst.
        destruct (Hvs v (or_introl eq_refl)) as [Hv4 Hvn].
        destruct (set_ty_inv c t0 FR L E M a v R HI Hvn Hna) as [HI1 Hm1].
        + intros w Hw Hwv Hq. destruct (in_dec Nat.eq_dec w four) as [Hw4|Hw4].
          * right. right. split; apply HEin; assumption.
          * destruct (Hout w Hw Hw4 Hq) as [H|H]; [left; exact H | right; left; exact H].
        + exact Hneg.
        + intros Hz Hr. exfalso. exact (Hnz Hz Hr).
        + intros HP. exact (HFR HP v Hv4).
        + destruct Hprov as [H|[H|H]]; [left; exact H | right; left; exact H | right; right; right; exact H].
        + destruct (IH (addv L v) (addv M v) (set_ty v R a) HI1) as [HI2 [Hm2 [Hset2 [Hoth2 Hstk2]]]].
          * intros u Hu. destruct (Hvs u (or_intror Hu)) as [H4 Hn]. split; [exact H4|].
            rewrite set_ty_other; [exact Hn | intro Hc; subst; exact (Hnv Hu)].
          * exact Hnd'.
          * exact Hna.
          * exact Hneg.
          * exact Hnz.
          * exact HFR.
          * exact Hprov.
          * intros w [Hw|Hw] Hw4 Hq; [|subst w; contradiction].
            rewrite set_ty_other in Hq by (intro Hc; subst; contradiction). exact (Hout w Hw Hw4 Hq).
          * split; [|split; [|split; [|split]]].
            -- eapply Inv_weaken; [exact HI2 | |].
               ++ intros w [Hw|[Hw|Hw]]; [left; left; exact Hw | left; right; symmetry; exact Hw | right; exact Hw].
               ++ intros w [[Hw|Hw]|Hw]; [left; exact Hw | right; left; symmetry; exact Hw | right; right; exact Hw].
            -- intros w q Hq. apply Hm2. apply Hm1. exact Hq.
            -- intros u [Hu|Hu]; [subst u; apply Hm2; apply set_ty_same | exact (Hset2 u Hu)].
            -- intros w Hw. rewrite (Hoth2 w (fun Hc => Hw (or_intror Hc))).
               apply set_ty_other. intro Hc. apply Hw. left. symmetry. exact Hc.
            -- rewrite Hstk2. reflexivity.
    Qed.
  End Members.

  (* one loop-carried group *)
  Lemma group_inv : forall (L : value -> Prop) (E : value -> value -> Prop) (M : value -> Prop) a b it y r_ a',
    Inv L E M a ->
    NoDup [b; it; y; r_] ->
    (forall u w, In u [b; it; y; r_] -> In w [b; it; y; r_] -> E u w) ->
    (forall u w, In u [b; it; y; r_] -> E u w \/ E w u -> In w [b; it; y; r_]) ->
    ~ M b -> ~ M it -> ~ M y -> t0 b = None -> t0 it = None -> t0 y = None -> t0 r_ = None ->
    (L r_ \/ ~ M r_) ->
    ~ In r_ (zconsts c) ->
    (forall u w r, In u [b; it; y; r_] -> In w [b; it; y; r_] -> FR u r -> FR w r) ->
    allocate_values_same_reg [b; it; y; r_] a = Ok a' ->
    Inv (setof L [b; it; y; r_]) E (setof M [b; it; y; r_]) a' /\ mono a a'
    /\ (exists R, forall u, In u [b; it; y; r_] -> ty a' u = Some R)
    /\ (forall w, ~ In w [b; it; y; r_] -> ty a' w = ty a w).
  Proof.
    intros L E M a b it y r_ a' HI Hnd HEin HEx HMb HMit HMy Tb Tit Ty Tr HLr Hrz HFRg Hal.
    pose proof HI as HIc. destruct HIc as [Hs [H1 [H2 [Hf H5]]]].
    assert (Nb : ty a b = None) by (rewrite (Hf b HMb); exact Tb).
    assert (Nit : ty a it = None) by (rewrite (Hf it HMit); exact Tit).
    assert (Ny : ty a y = None) by (rewrite (Hf y HMy); exact Ty).
    inversion Hnd as [|? ? Nb4 Hnd1]; subst. inversion Hnd1 as [|? ? Nit4 Hnd2]; subst.
    inversion Hnd2 as [|? ? Ny4 _]; subst. simpl in Nb4, Nit4, Ny4.
    destruct (group4_spec b it y r_ a a' Hnd Nb Nit Ny Hal) as [[Nr [R [s [Hpop Ha']]]]|[R [Hr Ha']]]; subst a'.
    - (* a fresh register for the whole group *)
      destruct (pop_inv c t0 FR L E M a R s HI Hpop) as [HI1 [Hna [Hnone_r [Hneg [Hprov [HnP Hnz]]]]]].
      destruct (set_members [b; it; y; r_] E HEin R [b; it; y; r_] L M (set_stk a s) HI1)
        as [HI2 [Hm2 [Hset2 [Hoth2 _]]]].
      + intros v Hv. split; [exact Hv|]. simpl in Hv. destruct Hv as [Hv|[Hv|[Hv|[Hv|[]]]]]; subst v; assumption.
      + exact Hnd.
      + exact Hna.
      + intros Hlt. destruct (Hneg Hlt) as [K1 K2]. split; [exact K1 | left; exact K2].
      + exact Hnz.
      + intros HP. contradiction.
      + simpl. destruct Hprov as [H|H]; [left; exact H | right; left; split; [exact H | apply Hneg; exact H]].
      + intros w Hw _ Hq. exfalso. exact (Hnone_r w Hw Hq).
      + simpl in HI2, Hm2, Hset2, Hoth2. split; [exact HI2|]. split; [exact Hm2|].
        split; [exists R; exact Hset2 | exact Hoth2].
    - (* the result already has a register (it is live after the loop) *)
      assert (HLr' : L r_).
      { destruct HLr as [H|H]; [exact H|]. rewrite (Hf r_ H), Tr in Hr. discriminate. }
      destruct (set_members [b; it; y; r_] E HEin R [b; it; y] L M a HI) as [HI2 [Hm2 [Hset2 [Hoth2 _]]]].
      + intros v Hv. simpl in Hv. destruct Hv as [Hv|[Hv|[Hv|[]]]]; subst v; (split; [simpl; tauto | assumption]).
      + repeat constructor; simpl; tauto.
      + exact (H1 r_ R HLr' Hr).
      + intros Hlt. exact (so_neg_ty c t0 a Hs r_ R Hr Hlt).
      + intros Hz HR0. subst R. apply Hrz. exact (so_zero_ty c t0 a Hs r_ Hz Hr).
      + intros HP u Hu. apply (HFRg r_ u R); [simpl; tauto | exact Hu | exact (H5 r_ R HLr' Hr HP)].
      + destruct (so_prov c t0 a Hs r_ R Hr Tr) as [H|[H|[[_ [_ H]]|H]]];
          [left; exact H | right; left; exact H | contradiction | right; right; exact H].
      + intros w Hw Hw4 Hq. destruct (Nat.eq_dec w r_) as [Ew|Ew]; [subst w; exfalso; apply Hw4; simpl; tauto|].
        destruct (H2 w r_ R Hw HLr' Ew Hq Hr) as [H|[H|H]]; [left; exact H | right; exact H|].
        exfalso. apply Hw4. apply (HEx r_ w); [simpl; tauto | right; exact H].
      + simpl in HI2, Hm2, Hset2, Hoth2. split; [|split; [exact Hm2 | split]].
        * eapply Inv_weaken; [exact HI2 | |].
          -- intros w [Hw|Hw]; [left; exact Hw|]. simpl in Hw. destruct Hw as [Hw|[Hw|[Hw|[Hw|[]]]]];
               [right; simpl; tauto | right; simpl; tauto | right; simpl; tauto | subst w; left; exact HLr'].
          -- intros w [Hw|Hw]; [left; exact Hw | right; simpl in *; tauto].
        * exists R. intros u Hu. simpl in Hu. destruct Hu as [Hu|[Hu|[Hu|[Hu|[]]]]]; subst u;
            [apply Hset2; simpl; tauto | apply Hset2; simpl; tauto | apply Hset2; simpl; tauto|].
          apply Hm2. exact Hr.
        * intros w Hw. apply Hoth2. intro Hc. apply Hw. simpl in *. tauto.
  Qed.
End Group.

Lemma concat_in : forall (gs : list (list value)) g u, In g gs -> In u g -> In u (concat gs).
Proof.
  induction gs as [|h t IH]; intros g u Hg Hu; [destruct Hg|]. simpl. apply in_or_app.
  destruct Hg as [Hg|Hg]; [subst; left; exact Hu | right; exact (IH g u Hg Hu)].
Qed.

Lemma disjoint_groups : forall (gs : list (list value)) g g' u,
  NoDup (concat gs) -> In g gs -> In g' gs -> In u g -> In u g' -> g = g'.
Proof.
  induction gs as [|h t IH]; intros g g' u Hnd Hg Hg' Hu Hu'; [destruct Hg|].
  simpl in Hnd. pose proof (NoDup_app_disjoint _ _ Hnd) as Hdis.
  destruct Hg as [Hg|Hg]; destruct Hg' as [Hg'|Hg'].
  - congruence.
  - subst h. exfalso. exact (Hdis u Hu (concat_in t g' u Hg' Hu')).
  - subst h. exfalso. exact (Hdis u Hu' (concat_in t g u Hg Hu)).
  - exact (IH g g' u (NoDup_app_r _ _ Hnd) Hg Hg' Hu Hu').
Qed.

Section Groups.
  Variable c : cfg.
  Variable t0 : value -> option Z.
  Variable FR : value -> Z -> Prop.
  Hypothesis FR_pre : forall v r, t0 v = Some r -> FR v r.
  Notation Inv := (Inv c t0 FR).
  Variable gs0 : list (list value).
  Hypothesis Hnd0 : NoDup (concat gs0).
  Definition Eg (u w : value) : Prop := exists g, In g gs0 /\ In u g /\ In w g.

  Lemma groups_phase : forall (L M : value -> Prop) gs pre acc a a',
    gs0 = pre ++ gs ->
    Inv (setof L acc) Eg (setof M acc) a ->
    (forall g, In g gs -> exists b it y r_, g = [b; it; y; r_] /\ NoDup g
        /\ ~ M b /\ ~ M it /\ ~ M y /\ t0 b = None /\ t0 it = None /\ t0 y = None /\ t0 r_ = None
        /\ (L r_ \/ ~ M r_) /\ ~ In r_ (zconsts c)
        /\ (forall u w r, In u g -> In w g -> FR u r -> FR w r)
        /\ (forall u, In u g -> ~ In u acc)) ->
    NoDup (concat gs) ->
    fold_res allocate_values_same_reg gs a = Ok a' ->
    Inv (setof L (acc ++ concat gs)) Eg (setof M (acc ++ concat gs)) a' /\ mono a a'
    /\ (forall g, In g gs -> exists R, forall u, In u g -> ty a' u = Some R)
    /\ (forall w, ~ In w (concat gs) -> ty a' w = ty a w).
  Proof.
    intros L M gs. induction gs as [|g t IH]; intros pre acc a a' Hgs HI Hpre Hnd Hfold; simpl in Hfold.
    - inversion Hfold; subst. simpl. rewrite app_nil_r. split; [exact HI|]. split; [intros w q H; exact H|].
      split; [intros g []|]. intros. reflexivity.
    - destruct (allocate_values_same_reg g a) as [a1|e] eqn:Eal; simpl in Hfold; [|discriminate].
      destruct (Hpre g (or_introl eq_refl)) as [b [it [y [r_ [Hg [Hndg [Mb [Mit [My [Tb [Tit [Ty [Tr [HLr [Hrz [HFRg Hacc]]]]]]]]]]]]]]]].
      assert (Hg0 : In g gs0). { rewrite Hgs. apply in_or_app. right. left. reflexivity. }
      subst g.
      assert (Hnin : forall u, In u [b; it; y; r_] -> ~ setof M acc u -> True) by (intros; exact I).
      destruct (group_inv c t0 FR (setof L acc) Eg (setof M acc) a b it y r_ a1 HI Hndg)
        as [HI1 [Hm1 [[R HR] Hoth1]]].
      + intros u w Hu Hw. exists [b; it; y; r_]. split; [exact Hg0 | split; assumption].
      + intros u w Hu [[g' [Hg' [Hu' Hw']]]|[g' [Hg' [Hw' Hu']]]];
          rewrite (disjoint_groups gs0 [b; it; y; r_] g' u Hnd0 Hg0 Hg' Hu Hu'); exact Hw'.
      + intros [H|H]; [exact (Mb H) | exact (Hacc b (or_introl eq_refl) H)].
      + intros [H|H]; [exact (Mit H) | apply (Hacc it); [simpl; tauto | exact H]].
      + intros [H|H]; [exact (My H) | apply (Hacc y); [simpl; tauto | exact H]].
      + exact Tb.
      + exact Tit.
      + exact Ty.
      + exact Tr.
      + destruct HLr as [H|H]; [left; left; exact H|]. right. intros [Hc|Hc]; [exact (H Hc)|].
        apply (Hacc r_); [simpl; tauto | exact Hc].
      + exact Hrz.
      + exact HFRg.
      + exact Eal.
      + change (NoDup ([b; it; y; r_] ++ concat t)) in Hnd.
        assert (HI1' : Inv (setof L (acc ++ [b; it; y; r_])) Eg (setof M (acc ++ [b; it; y; r_])) a1).
        { eapply Inv_weaken; [exact HI1 | |].
          - intros w [Hw|Hw]; [left; left; exact Hw|]. apply in_app_or in Hw.
            destruct Hw as [Hw|Hw]; [left; right; exact Hw | right; exact Hw].
          - intros w [[Hw|Hw]|Hw]; [left; exact Hw | right; apply in_or_app; left; exact Hw
                                     | right; apply in_or_app; right; exact Hw]. }
        destruct (IH (pre ++ [[b; it; y; r_]]) (acc ++ [b; it; y; r_]) a1 a') as [HI2 [Hm2 [HR2 Hoth2]]].
        * rewrite <- app_assoc. exact Hgs.
        * exact HI1'.
        * intros g' Hg'. destruct (Hpre g' (or_intror Hg')) as [b' [it' [y' [r' [E' [A1 [A2 [A3 [A4 [A5 [A6 [A7 [A8 [A9 [A10 [A11 A12]]]]]]]]]]]]]]]].
          exists b', it', y', r'. repeat (split; [assumption|]).
          intros u Hu Hc. apply in_app_or in Hc. destruct Hc as [Hc|Hc]; [exact (A12 u Hu Hc)|].
          apply (NoDup_app_disjoint _ _ Hnd u Hc). exact (concat_in t g' u Hg' Hu).
        * exact (NoDup_app_r _ _ Hnd).
        * exact Hfold.
        * simpl. rewrite <- app_assoc in HI2. simpl in HI2.
          split; [exact HI2|]. split; [intros w q H; apply Hm2; apply Hm1; exact H|]. split.
          -- intros g' [Hg'|Hg']; [subst g'; exists R; intros u Hu; apply Hm2; exact (HR u Hu) | exact (HR2 g' Hg')].
          -- intros w Hw. rewrite (Hoth2 w (fun Hc => Hw (or_intror (or_intror (or_intror (or_intror Hc)))))).
             apply Hoth1. intro Hc. apply Hw. simpl in Hc. simpl. tauto.
  Qed.
End Groups.

(* ---- reserve_registers: the loop-carried registers are reserved while the body is allocated ---- *)
Lemma reserve_keys : forall regs s k,
  is_reserved k (fold_left (fun s r => reserve_register r s) regs s) = true
  <-> is_reserved k s = true \/ In k regs.
Proof.
  induction regs as [|r t IH]; intros s k; simpl; [tauto|].
  rewrite IH. unfold is_reserved, reserve_register. simpl. rewrite !memZ_In, assoc_incr_keys.
  split; [intros [[H|H]|H]; [left; exact H | right; left; symmetry; exact H | right; right; exact H]
         | intros [H|[H|H]]; [left; left; exact H | left; right; symmetry; exact H | right; exact H]].
Qed.

Lemma reserve_fields : forall regs s,
  let s' := fold_left (fun s r => reserve_register r s) regs s in
  allocatable s' = allocatable s /\ available s' = available s /\ next_inf s' = next_inf s /\ allow_inf s' = allow_inf s.
Proof.
  induction regs as [|r t IH]; intros s; simpl; [repeat split; reflexivity|].
  destruct (IH (reserve_register r s)) as [A [B [C D]]]. simpl in *. rewrite A, B, C, D. repeat split; reflexivity.
Qed.

Section Reserve.
  Variable c : cfg.
  Variable t0 : value -> option Z.
  Variable FR : value -> Z -> Prop.

  Lemma reserve_inv : forall (L : value -> Prop) E (M : value -> Prop) a regs,
    Inv c t0 FR L E M a ->
    (forall r, In r regs -> ~ In r (available (stk a)) /\ (r < 0 -> - r - 1 < next_inf (stk a))) ->
    Inv c t0 FR L E M (set_stk a (fold_left (fun s r => reserve_register r s) regs (stk a))).
  Proof.
    intros L E M a regs [Hs [H1 [H2 [Hf H5]]]] Hregs.
    destruct (reserve_fields regs (stk a)) as [Fal [Fav [Fn Fi]]].
    pose proof (reserve_keys regs (stk a)) as Fk.
    split; [|split; [|split; [|split]]].
    - constructor; simpl; rewrite ?Fal, ?Fav, ?Fn, ?Fi.
      + exact (so_nodup c t0 a Hs).
      + exact (so_avail c t0 a Hs).
      + intros r Hr. destruct (is_reserved r (fold_left (fun s r0 => reserve_register r0 s) regs (stk a))) eqn:Er; [|reflexivity].
        apply Fk in Er. destruct Er as [Er|Er].
        * rewrite (so_avail_nres c t0 a Hs r Hr) in Er. discriminate.
        * exfalso. exact (proj1 (Hregs r Er) Hr).
      + exact (so_neg_avail c t0 a Hs).
      + exact (so_neg_ty c t0 a Hs).
      + exact (so_next c t0 a Hs).
      + intros k Hk Hneg. apply Fk in Hk. destruct Hk as [Hk|Hk];
          [exact (so_res_lt c t0 a Hs k Hk Hneg) | exact (proj2 (Hregs k Hk) Hneg)].
      + intros r HP. destruct (so_excl c t0 a Hs r HP) as [H|H]; [left; apply Fk; left; exact H | right; exact H].
      + exact (so_zero c t0 a Hs).
      + exact (so_mono c t0 a Hs).
      + exact (so_zero_ty c t0 a Hs).
      + exact (so_prov c t0 a Hs).
    - intros v r Hv Hr. simpl. rewrite Fav. exact (H1 v r Hv Hr).
    - exact H2.
    - exact Hf.
    - exact H5.
  Qed.
End Reserve.

(* ---- re-basing: after the groups are allocated and their registers reserved, the group members can
   be regarded as pre-assigned (their registers behave like excluded ones while reserved) ---- *)
Section Rebase.
  Variable c : cfg.
  Variable t0 : value -> option Z.
  Variable FR FR' : value -> Z -> Prop.
  Variable gv : list value.
  Variable a : astate.
  Definition rebased (v : value) : option Z := if memN v gv then ty a v else t0 v.

  Lemma rebase : forall (L : value -> Prop) E (M : value -> Prop),
    Inv c t0 FR L E M a ->
    (forall v, In v gv -> M v) ->
    (forall v, In v gv -> exists R, ty a v = Some R /\ is_reserved R (stk a) = true) ->
    (zero_rule c = true -> forall v, In v gv -> ty a v <> Some 0) ->
    (forall v r, FR v r -> FR' v r) ->
    (forall v r, L v -> ty a v = Some r -> (exists w, In w gv /\ ty a w = Some r) -> FR' v r) ->
    Inv c rebased FR' L E M a.
  Proof.
    intros L E M [Hs [H1 [H2 [Hf H5]]]] HgM Hgres Hgz Hsub Hnew.
    assert (Hcase : forall r, Pset rebased r -> Pset t0 r \/ exists w, In w gv /\ ty a w = Some r).
    { intros r [w Hw]. unfold rebased in Hw. destruct (memN w gv) eqn:Em.
      - right. exists w. split; [apply memN_In; exact Em | exact Hw].
      - left. exists w. exact Hw. }
    assert (Hsubset : forall r, Pset t0 r -> Pset rebased r).
    { intros r [w Hw]. exists w. unfold rebased. destruct (memN w gv) eqn:Em; [|exact Hw].
      exact (so_mono c t0 a Hs w r Hw). }
    split; [|split; [|split; [|split]]].
    - constructor.
      + exact (so_nodup c t0 a Hs).
      + exact (so_avail c t0 a Hs).
      + exact (so_avail_nres c t0 a Hs).
      + exact (so_neg_avail c t0 a Hs).
      + intros v r Hr Hneg. destruct (so_neg_ty c t0 a Hs v r Hr Hneg) as [K [K2|K2]];
          (split; [exact K|]); [left; exact K2 | right; exact (Hsubset r K2)].
      + exact (so_next c t0 a Hs).
      + exact (so_res_lt c t0 a Hs).
      + intros r HP. destruct (Hcase r HP) as [H|[w [Hw Hr]]]; [exact (so_excl c t0 a Hs r H)|].
        left. destruct (Hgres w Hw) as [R [HR Hres]]. rewrite Hr in HR. inversion HR; subst. exact Hres.
      + intros Hz. destruct (so_zero c t0 a Hs Hz) as [Z1 Z2]. split; [exact Z1|].
        intros HP. destruct (Hcase 0 HP) as [H|[w [Hw Hr]]]; [exact (Z2 H) | exact (Hgz Hz w Hw Hr)].
      + intros v r Hv. unfold rebased in Hv. destruct (memN v gv); [exact Hv | exact (so_mono c t0 a Hs v r Hv)].
      + exact (so_zero_ty c t0 a Hs).
      + intros v r Hr Hn. unfold rebased in Hn. destruct (memN v gv) eqn:Em; [rewrite Hn in Hr; discriminate|].
        destruct (so_prov c t0 a Hs v r Hr Hn) as [H|[H|[H|H]]];
          [left; exact H | right; left; exact H | right; right; left; exact H | right; right; right; exact (Hsubset r H)].
    - exact H1.
    - intros v1 v2 r Hv1 Hv2 Hne Hq1 Hq2. destruct (H2 v1 v2 r Hv1 Hv2 Hne Hq1 Hq2) as [H|[H|H]];
        [left; exact (Hsubset r H) | right; left; exact H | right; right; exact H].
    - intros v Hv. unfold rebased. destruct (memN v gv) eqn:Em; [|exact (Hf v Hv)].
      exfalso. apply Hv. apply HgM. apply memN_In. exact Em.
    - intros v r Hv Hr HP.
      destruct (Hcase r HP) as [H|H].
      + apply Hsub. exact (H5 v r Hv Hr H).
      + exact (Hnew v r Hv Hr H).
  Qed.
End Rebase.
