(* C19/ProofsSpec.v -- the specification the C19 theorems are stated against
   (definitions a reader can check in a minute; no proofs here except trivial unfoldings).

   Programs: a straight-line block `l : list sop` (Model.v); a program point is a split
   l = p ++ s ("just before the suffix s").  *)
From Coq Require Import ZArith List Bool Arith Lia.
From XV Require Import C19.Model.
Import ListNotations.
Local Open Scope Z_scope.

Definition uses (o : sop) : list value := sop_operands o.      (* s_ins ++ in/out operands *)
Definition defs (o : sop) : list value := sop_results o.       (* s_outs ++ in/out results  *)

Definition used_in (s : list sop) (v : value) : Prop := exists o, In o s /\ In v (uses o).
Definition defined_in (s : list sop) (v : value) : Prop := exists o, In o s /\ In v (defs o).

(* backward liveness, from the definition: v is live before the suffix s iff some operation of s
   reads it and no operation of s defines it (its definition, or its being an argument, is earlier) *)
Definition live (s : list sop) (v : value) : Prop := used_in s v /\ ~ defined_in s v.

(* SSA well-formedness of the block + shape of constant / move operations *)
Record wf_prog (l : list sop) : Prop := {
  wf_nodup : NoDup (flat_map defs l);                       (* every value has one definition *)
  wf_use : forall p o s, l = p ++ o :: s ->                 (* no use at or before the definition *)
           forall v, In v (uses o) -> ~ defined_in (o :: s) v;
  wf_kind : forall o, In o l -> s_kind o <> KOther ->       (* li / get_register / mv *)
            s_io o = [] /\ exists r, s_outs o = [r] }.

(* documented contract of HasRegisterConstraints ("the use of a register value as inout must be its
   last use", checked by x86-regalloc-verify-liveness): an in/out operand is not read after its
   in/out use and occupies one in/out slot *)
Definition io_ok (l : list sop) : Prop :=
  forall p o s, l = p ++ o :: s ->
    NoDup (map fst (s_io o)) /\ forall x, In x (map fst (s_io o)) -> ~ used_in s x.

(* registers the INPUT forces on values: pre-assigned ones, propagated through in/out ties *)
Definition tied (l : list sop) (a b : value) : Prop := exists o, In o l /\ In (a, b) (s_io o).
Inductive forced (t0 : value -> option Z) (l : list sop) : value -> Z -> Prop :=
| F_pre : forall v r, t0 v = Some r -> forced t0 l v r
| F_opnd : forall a b r, tied l a b -> forced t0 l b r -> forced t0 l a r
| F_res : forall a b r, tied l a b -> forced t0 l a r -> forced t0 l b r.

(* the input's own register constraints are satisfiable: two values forced into one register are
   never live together, and none is written while the other is live *)
Definition forced_ok (t0 : value -> option Z) (l : list sop) : Prop :=
  (forall p s, l = p ++ s -> forall v1 v2 r, live s v1 -> live s v2 -> v1 <> v2 ->
     forced t0 l v1 r -> forced t0 l v2 r -> False)
  /\ (forall p o s, l = p ++ o :: s -> forall d v r, In d (defs o) -> live s v -> d <> v ->
     forced t0 l d r -> forced t0 l v r -> False).

(* what allocate_func needs from the input:
   - with the RISC-V zero rule, `zero` is not allocatable and not pre-assigned
   - the pool handed to RegisterStack.get contains no infinite registers
   (before the repairs d11e3b9 / 26a8b63 two more clauses were necessary -- no pre-assigned infinite
   register, every pre-assigned pool register visible to the effect-based exclusion -- see the
   `_old` refutations) *)
Definition input_ok (zr : bool) (pool : list Z) (fn : func) : Prop :=
  (zr = true -> ~ In 0 pool /\ forall v, ty0 fn v <> Some 0)
  /\ (forall r, In r pool -> 0 <= r).                 (* the pool holds real registers *)

(* ---------------------------------------------------------------------------------------------- *)
(* semantics: SSA evaluation vs register machine, operation functions uninterpreted *)

Section Semantics.
  Variable data : Type.
  Variable dzero : data.
  Variable fop : nat -> nat -> list data -> data.     (* operation position, result position, inputs *)
  Variable zr : bool.                                 (* hard-wired zero register (index 0) *)

  Definition upd {A} (f : nat -> A) (v : nat) (x : A) : nat -> A :=
    fun w => if Nat.eqb w v then x else f w.
  Definition updZ {A} (f : Z -> A) (r : Z) (x : A) : Z -> A :=
    fun q => if Z.eqb q r then x else f q.

  (* results of operation number i on the given input values *)
  Definition results_of (i : nat) (o : sop) (inputs : list data) : list data :=
    match s_kind o with
    | KZero => map (fun _ => dzero) (defs o)
    | KMv => map (fun _ => hd dzero inputs) (defs o)
    | KOther => map (fun j => fop i j inputs) (seq 0 (length (defs o)))
    end.

  Fixpoint write_env (env : value -> data) (ds : list value) (xs : list data) : value -> data :=
    match ds, xs with
    | d :: ds', x :: xs' => write_env (upd env d x) ds' xs'
    | _, _ => env
    end.

  (* SSA semantics: each operation reads its operands from the environment and binds its results *)
  Fixpoint exec_ssa (i : nat) (l : list sop) (env : value -> data) : value -> data :=
    match l with
    | [] => env
    | o :: t => exec_ssa (S i) t (write_env env (defs o) (results_of i o (map env (uses o))))
    end.

  (* register machine under an assignment asg : value -> register; reads of `zero` give 0, writes
     to `zero` are discarded; all operands are read before any result is written *)
  Variable asg : value -> Z.
  Definition is_zero_reg (r : Z) : bool := zr && (r =? 0).
  Definition read_reg (rf : Z -> data) (v : value) : data :=
    if is_zero_reg (asg v) then dzero else rf (asg v).
  Fixpoint write_regs (rf : Z -> data) (ds : list value) (xs : list data) : Z -> data :=
    match ds, xs with
    | d :: ds', x :: xs' =>
        write_regs (if is_zero_reg (asg d) then rf else updZ rf (asg d) x) ds' xs'
    | _, _ => rf
    end.
  Fixpoint exec_regs (i : nat) (l : list sop) (rf : Z -> data) : Z -> data :=
    match l with
    | [] => rf
    | o :: t => exec_regs (S i) t (write_regs rf (defs o) (results_of i o (map (read_reg rf) (uses o))))
    end.
End Semantics.
