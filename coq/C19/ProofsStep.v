(* C19/ProofsStep.v -- one step of the backward walk: `allocate_sop` takes the invariant at the
   point after an operation to the invariant at the point before it. *)
From Coq Require Import ZArith List Bool Arith Lia.
From XV Require Import C19.Model C19.ProofsSpec C19.ProofsStack C19.ProofsAlloc C19.ProofsOp.
Import ListNotations.
Local Open Scope Z_scope.

Definition ment (s : list sop) (v : value) : Prop := used_in s v \/ defined_in s v.
Definition Eo (o : sop) (x y : value) : Prop := In (x, y) (s_io o) \/ In (y, x) (s_io o).
Definition Enone (x y : value) : Prop := False.

Lemma used_in_cons : forall o s v, used_in (o :: s) v <-> In v (uses o) \/ used_in s v.
Proof.
  intros o s v. unfold used_in. split.
  - intros [o' [[H|H] Hv]]; [subst; left; exact Hv | right; exists o'; split; assumption].
  - intros [H|[o' [H Hv]]]; [exists o; split; [left; reflexivity | exact H] | exists o'; split; [right; exact H | exact Hv]].
Qed.
Lemma defined_in_cons : forall o s v, defined_in (o :: s) v <-> In v (defs o) \/ defined_in s v.
Proof.
  intros o s v. unfold defined_in. split.
  - intros [o' [[H|H] Hv]]; [subst; left; exact Hv | right; exists o'; split; assumption].
  - intros [H|[o' [H Hv]]]; [exists o; split; [left; reflexivity | exact H] | exists o'; split; [right; exact H | exact Hv]].
Qed.

Lemma used_in_dec : forall s v, used_in s v \/ ~ used_in s v.
Proof.
  induction s as [|o t IH]; intros v.
  - right. intros [o [[] _]].
  - destruct (in_dec Nat.eq_dec v (uses o)) as [H|H].
    + left. apply used_in_cons. left. exact H.
    + destruct (IH v) as [H1|H1].
      * left. apply used_in_cons. right. exact H1.
      * right. intro Hc. apply used_in_cons in Hc. destruct Hc; contradiction.
Qed.
Lemma defined_in_dec : forall s v, defined_in s v \/ ~ defined_in s v.
Proof.
  induction s as [|o t IH]; intros v.
  - right. intros [o [[] _]].
  - destruct (in_dec Nat.eq_dec v (defs o)) as [H|H].
    + left. apply defined_in_cons. left. exact H.
    + destruct (IH v) as [H1|H1].
      * left. apply defined_in_cons. right. exact H1.
      * right. intro Hc. apply defined_in_cons in Hc. destruct Hc; contradiction.
Qed.
Lemma classic_ment : forall s v, ment s v \/ ~ ment s v.
Proof.
  intros s v. unfold ment. destruct (used_in_dec s v) as [H|H]; [left; left; exact H|].
  destruct (defined_in_dec s v) as [H1|H1]; [left; right; exact H1|].
  right. intros [Hc|Hc]; contradiction.
Qed.
Lemma NoDup_app_disjoint : forall (l1 l2 : list value), NoDup (l1 ++ l2) -> forall x, In x l1 -> ~ In x l2.
Proof.
  induction l1 as [|a t IH]; intros l2 H x Hx Hx2; simpl in *; [destruct Hx|].
  inversion H as [|? ? Hn Hd]; subst. destruct Hx as [Hx|Hx].
  - subst. apply Hn. apply in_or_app. right. exact Hx2.
  - exact (IH l2 Hd x Hx Hx2).
Qed.

Lemma NoDup_app_l : forall (l1 l2 : list value), NoDup (l1 ++ l2) -> NoDup l1.
Proof.
  induction l1 as [|a t IH]; intros l2 H; simpl in *; [constructor|].
  inversion H as [|? ? Hn Hd]; subst. constructor.
  - intro Hc. apply Hn. apply in_or_app. left. exact Hc.
  - exact (IH l2 Hd).
Qed.
Lemma NoDup_app_r : forall (l1 l2 : list value), NoDup (l1 ++ l2) -> NoDup l2.
Proof.
  induction l1 as [|a t IH]; intros l2 H; simpl in *; [exact H|].
  inversion H; subst. apply IH. assumption.
Qed.

(* what the step needs to know about the operation `o` followed by the suffix `s` *)
Record op_facts (c : cfg) (FR : value -> Z -> Prop) (o : sop) (s : list sop) : Prop := {
  of_nodup_defs : NoDup (defs o);
  of_nodup_fst : NoDup (map fst (s_io o));
  of_use : forall v, In v (uses o) -> ~ In v (defs o) /\ ~ defined_in s v;
  of_def : forall d, In d (defs o) -> ~ defined_in s d;
  of_io_dead : forall x, In x (map fst (s_io o)) -> ~ used_in s x;
  of_io_nz : forall x y, In (x, y) (s_io o) -> ~ In y (zconsts c);
  of_tied : forall x y, In (x, y) (s_io o) -> forall r, (FR x r -> FR y r) /\ (FR y r -> FR x r) }.

Section Step.
  Variable c : cfg.
  Variable t0 : value -> option Z.
  Variable FR : value -> Z -> Prop.
  Hypothesis FR_pre : forall v r, t0 v = Some r -> FR v r.
  Notation Inv := (Inv c t0 FR).
  Notation Pset := (Pset t0).

  Lemma nodup_pairvals : forall o s, op_facts c FR o s -> NoDup (pairvals (s_io o)).
  Proof.
    intros o s F.
    assert (Hs : NoDup (map snd (s_io o))).
    { pose proof (of_nodup_defs c FR o s F) as H. unfold defs, sop_results in H.
      apply NoDup_app_r in H. exact H. }
    pose proof (of_nodup_fst c FR o s F) as Hf.
    assert (Hdis : forall x y, In x (map fst (s_io o)) -> In y (map snd (s_io o)) -> x <> y).
    { intros x y Hx Hy Heq. subst y.
      assert (Hu : In x (uses o)). { unfold uses, sop_operands. apply in_or_app. right. exact Hx. }
      destruct (of_use c FR o s F x Hu) as [Hnd _]. apply Hnd.
      unfold defs, sop_results. apply in_or_app. right. exact Hy. }
    revert Hs Hf Hdis. generalize (s_io o) as ios. induction ios as [|[a b] t IH]; intros Hs Hf Hdis; simpl.
    - constructor.
    - simpl in Hs, Hf. inversion Hs as [|? ? Hsn Hsd]; subst. inversion Hf as [|? ? Hfn Hfd]; subst.
      constructor.
      + intros [Hc|Hc].
        * apply (Hdis a b); [left; reflexivity | left; reflexivity | symmetry; exact Hc].
        * destruct (pairvals_inv t a Hc) as [H|H]; [exact (Hfn H)|].
          apply (Hdis a a); [left; reflexivity | right; exact H | reflexivity].
      + constructor.
        * intro Hc. destruct (pairvals_inv t b Hc) as [H|H]; [|exact (Hsn H)].
          apply (Hdis b b); [right; exact H | left; reflexivity | reflexivity].
        * apply IH; [exact Hsd | exact Hfd|].
          intros x y Hx Hy. apply Hdis; right; assumption.
  Qed.

  Theorem op_step : forall o s a a',
    op_facts c FR o s ->
    Inv (live s) Enone (ment s) a ->
    (forall v, live s v -> exists r, ty a v = Some r) ->
    allocate_sop c o a = Ok a' ->
    Inv (live (o :: s)) Enone (ment (o :: s)) a'
    /\ (forall v, live (o :: s) v -> exists r, ty a' v = Some r)
    /\ mono a a'
    /\ (forall d, In d (defs o) -> exists r, ty a' d = Some r)
    /\ (forall d v r, In d (defs o) -> live s v -> d <> v -> ty a' d = Some r -> ty a' v = Some r ->
          Pset r \/ (zero_rule c = true /\ r = 0))
    /\ (forall x y, In (x, y) (s_io o) -> ty a' x = ty a' y)
    /\ (forall d r, In d (defs o) -> ty a' d = Some r -> Pset r -> FR d r).
  Proof.
    intros o s a a' F HI0 Hall0 Hal.
    unfold allocate_sop in Hal.
    destruct (fold_res (fun p a => allocate_values_same_reg [fst p; snd p] a) (s_io o) a) as [a1|e] eqn:E1;
      simpl in Hal; [|discriminate].
    destruct (fold_res (allocate_value c) (s_outs o) a1) as [a2|e] eqn:E2; simpl in Hal; [|discriminate].
    set (a3 := fold_left (fun a v => free_value v a) (rev (s_outs o)) a2) in *.
    set (S := live s). set (M0 := ment s). set (E := Eo o). set (pv := pairvals (s_io o)).
    pose proof (nodup_pairvals o s F) as Hndpv.
    pose proof (of_nodup_defs c FR o s F) as Hnd_defs.
    assert (Hnd_outs : NoDup (s_outs o)).
    { unfold defs, sop_results in Hnd_defs. apply NoDup_app_l in Hnd_defs. exact Hnd_defs. }
    assert (Hnd_snd : NoDup (map snd (s_io o))).
    { unfold defs, sop_results in Hnd_defs. apply NoDup_app_r in Hnd_defs. exact Hnd_defs. }
    assert (Houts_defs : forall d, In d (s_outs o) -> In d (defs o)).
    { intros d Hd. unfold defs, sop_results. apply in_or_app. left. exact Hd. }
    assert (Hsnd_defs : forall d, In d (map snd (s_io o)) -> In d (defs o)).
    { intros d Hd. unfold defs, sop_results. apply in_or_app. right. exact Hd. }
    assert (Hfst_uses : forall x, In x (map fst (s_io o)) -> In x (uses o)).
    { intros x Hx. unfold uses, sop_operands. apply in_or_app. right. exact Hx. }
    assert (Hins_uses : forall x, In x (s_ins o) -> In x (uses o)).
    { intros x Hx. unfold uses, sop_operands. apply in_or_app. left. exact Hx. }
    assert (Hpair_fst : forall x y, In (x, y) (s_io o) -> In x (map fst (s_io o))).
    { intros x y H. apply in_map_iff. exists (x, y). split; [reflexivity | exact H]. }
    assert (Hpair_snd : forall x y, In (x, y) (s_io o) -> In y (map snd (s_io o))).
    { intros x y H. apply in_map_iff. exists (x, y). split; [reflexivity | exact H]. }
    (* a definition of o that is mentioned later is live later *)
    assert (Hdef_S : forall d, In d (defs o) -> S d \/ ~ M0 d).
    { intros d Hd. destruct (classic_ment s d) as [Hm|Hm]; [|right; exact Hm].
      left. destruct Hm as [Hu|Hdf]; [|exfalso; exact (of_def c FR o s F d Hd Hdf)].
      split; [exact Hu | exact (of_def c FR o s F d Hd)]. }
    (* E relates only an in/out operand with its own result *)
    assert (HE_snd : forall x y w, In (x, y) (s_io o) -> E y w -> w = x).
    { intros x y w Hin [H|H].
      - exfalso. destruct (of_use c FR o s F y (Hfst_uses y (Hpair_fst y w H))) as [Hn _].
        apply Hn. apply Hsnd_defs. exact (Hpair_snd x y Hin).
      - exact (nodup_snd_inj (s_io o) w x y Hnd_snd H Hin). }
    assert (HE_snd' : forall x y w, In (x, y) (s_io o) -> E w y -> w = x).
    { intros x y w Hin [H|H]; [exact (nodup_snd_inj (s_io o) w x y Hnd_snd H Hin)|].
      exfalso. destruct (of_use c FR o s F y (Hfst_uses y (Hpair_fst y w H))) as [Hn _].
      apply Hn. apply Hsnd_defs. exact (Hpair_snd x y Hin). }
    (* phase 1: in/out groups *)
    assert (HI0' : Inv (setof S []) E (setof M0 []) a).
    { apply Inv_E_weaken with (E := Enone); [|intros x y []].
      eapply Inv_weaken; [exact HI0 | intros v [Hv|[]]; exact Hv | intros v Hv; left; exact Hv]. }
    destruct (io_phase c t0 FR FR_pre S E M0 (s_io o) [] a a1 HI0') as [HI1 [Hm1 [Hio1 Hoth1]]].
    { intros x y Hin.
      pose proof (Hpair_fst x y Hin) as Hx. pose proof (Hpair_snd x y Hin) as Hy.
      destruct (of_use c FR o s F x (Hfst_uses x Hx)) as [Hxnd Hxns].
      split. { intro Heq. subst y. apply Hxnd. apply Hsnd_defs. exact Hy. }
      split. { left. exact Hin. }
      split. { right. exact Hin. }
      split. { intros w Hw. exact (HE_snd x y w Hin Hw). }
      split. { intros w Hw. exact (HE_snd' x y w Hin Hw). }
      split. { intros [Hu|Hd]; [exact (of_io_dead c FR o s F x Hx Hu) | exact (Hxns Hd)]. }
      split. { apply Hdef_S. apply Hsnd_defs. exact Hy. }
      split. { exact (of_io_nz c FR o s F x y Hin). }
      split. { exact (of_tied c FR o s F x y Hin). }
      split; intros []. }
    { exact Hndpv. }
    { exact E1. }
    simpl in HI1.
    (* phase 2: outs *)
    destruct (alloc_list_phase c t0 FR FR_pre S E M0 (s_outs o) pv a1 a2 HI1) as [HI2 [Hm2 [Hout2 Hoth2]]].
    { intros d Hd. apply Hdef_S. apply Houts_defs. exact Hd. }
    { exact E2. }
    (* every definition of o is allocated at a2 *)
    assert (Hdefs2 : forall d, In d (defs o) -> exists r, ty a2 d = Some r).
    { intros d Hd. unfold defs, sop_results in Hd. apply in_app_or in Hd. destruct Hd as [Hd|Hd].
      - exact (Hout2 d Hd).
      - destruct (in_map_snd (s_io o) d Hd) as [x Hin]. destruct (Hio1 x d Hin) as [r [_ Hr]].
        exists r. apply Hm2. exact Hr. }
    assert (HL2_defs : forall d, In d (defs o) -> setof S (pv ++ s_outs o) d).
    { intros d Hd. right. unfold defs, sop_results in Hd. apply in_app_or in Hd. apply in_or_app.
      destruct Hd as [Hd|Hd]; [right; exact Hd|]. left.
      destruct (in_map_snd (s_io o) d Hd) as [x Hin]. exact (proj2 (pairvals_in _ _ _ Hin)). }
    (* phase 3: frees *)
    assert (Hfree : Inv (fun v => setof S (pv ++ s_outs o) v /\ ~ In v (rev (s_outs o))) E
                        (setof M0 (pv ++ s_outs o)) a3 /\ ty a3 = ty a2).
    { apply (free_phase c t0 FR E _ (rev (s_outs o)) _ a2 HI2).
      - intros d Hd. apply in_rev in Hd. split; [apply HL2_defs; apply Houts_defs; exact Hd|].
        split; [exact (Hout2 d Hd)|].
        intros w. split; intros [H|H].
        + destruct (of_use c FR o s F d (Hfst_uses d (Hpair_fst d w H))) as [Hn _]. apply Hn. apply Houts_defs. exact Hd.
        + unfold defs, sop_results in Hnd_defs.
          apply (NoDup_app_disjoint _ _ Hnd_defs d Hd). exact (Hpair_snd w d H).
        + unfold defs, sop_results in Hnd_defs.
          apply (NoDup_app_disjoint _ _ Hnd_defs d Hd). exact (Hpair_snd w d H).
        + destruct (of_use c FR o s F d (Hfst_uses d (Hpair_fst d w H))) as [Hn _]. apply Hn. apply Houts_defs. exact Hd.
      - apply NoDup_rev. exact Hnd_outs. }
    destruct Hfree as [HI3 Hty3].
    (* phase 4: ins *)
    set (S3 := fun v => setof S (pv ++ s_outs o) v /\ ~ In v (rev (s_outs o))) in *.
    set (M3 := setof M0 (pv ++ s_outs o)) in *.
    assert (HI3' : Inv (setof S3 []) E (setof M3 []) a3).
    { eapply Inv_weaken; [exact HI3 | intros v [Hv|[]]; exact Hv | intros v Hv; left; exact Hv]. }
    destruct (alloc_list_phase c t0 FR FR_pre S3 E M3 (s_ins o) [] a3 a' HI3') as [HI4 [Hm4 [Hin4 Hoth4]]].
    { intros v Hv. pose proof (Hins_uses v Hv) as Hu.
      destruct (of_use c FR o s F v Hu) as [Hnd Hns].
      assert (Hnout : ~ In v (rev (s_outs o))).
      { intro Hc. apply in_rev in Hc. apply Hnd. apply Houts_defs. exact Hc. }
      destruct (classic_ment s v) as [Hm|Hm].
      - left. split; [|exact Hnout]. left. destruct Hm as [Hu'|Hd']; [split; assumption | contradiction].
      - destruct (in_dec Nat.eq_dec v (pv ++ s_outs o)) as [Hin|Hin].
        + left. split; [right; exact Hin | exact Hnout].
        + right. intros [Hc|Hc]; [exact (Hm Hc) | exact (Hin Hc)]. }
    { exact Hal. }
    simpl in HI4.
    assert (Hm13 : mono a a3).
    { intros w q Hq. rewrite Hty3. apply Hm2. apply Hm1. exact Hq. }
    assert (Hm_all : mono a a'). { intros w q Hq. apply Hm4. apply Hm13. exact Hq. }
    assert (Hm2' : mono a2 a'). { intros w q Hq. apply Hm4. rewrite Hty3. exact Hq. }
    (* results *)
    split; [|split; [|split; [exact Hm_all | split; [|split; [|split]]]]].
    - (* the invariant at the point before o *)
      assert (HI5 : Inv (live (o :: s)) E (ment (o :: s)) a'); [|
        destruct HI5 as [Hs5 [H15 [H25 Hf5]]]; split; [exact Hs5|]; split; [exact H15|]; split; [|exact Hf5];
        intros v1 v2 r Hv1 Hv2 Hne Hq1 Hq2;
        destruct (H25 v1 v2 r Hv1 Hv2 Hne Hq1 Hq2) as [H|[H|[H|H]]];
        [ left; exact H | right; left; exact H
        | exfalso; apply (proj2 Hv2); apply defined_in_cons; left; apply Hsnd_defs; exact (Hpair_snd v1 v2 H)
        | exfalso; apply (proj2 Hv1); apply defined_in_cons; left; apply Hsnd_defs; exact (Hpair_snd v2 v1 H) ]].
      eapply Inv_weaken; [exact HI4 | |].
      + intros v [Hu Hnd]. apply used_in_cons in Hu.
        assert (Hnd_o : ~ In v (defs o)). { intro Hc. apply Hnd. apply defined_in_cons. left. exact Hc. }
        assert (Hnd_s : ~ defined_in s v). { intro Hc. apply Hnd. apply defined_in_cons. right. exact Hc. }
        assert (Hnout : ~ In v (rev (s_outs o))).
        { intro Hc. apply in_rev in Hc. apply Hnd_o. apply Houts_defs. exact Hc. }
        destruct Hu as [Hu|Hu].
        * unfold uses, sop_operands in Hu. apply in_app_or in Hu. destruct Hu as [Hu|Hu].
          -- right. exact Hu.
          -- left. split; [|exact Hnout]. right. apply in_or_app. left.
             destruct (in_map_fst (s_io o) v Hu) as [y Hin]. exact (proj1 (pairvals_in _ _ _ Hin)).
        * left. split; [|exact Hnout]. left. split; assumption.
      + intros v [[Hv|Hv]|Hv].
        * destruct Hv as [Hu|Hd]; [left; apply used_in_cons; right; exact Hu | right; apply defined_in_cons; right; exact Hd].
        * apply in_app_or in Hv. destruct Hv as [Hv|Hv].
          -- destruct (pairvals_inv _ _ Hv) as [H|H].
             ++ left. apply used_in_cons. left. apply Hfst_uses. exact H.
             ++ right. apply defined_in_cons. left. apply Hsnd_defs. exact H.
          -- right. apply defined_in_cons. left. apply Houts_defs. exact Hv.
        * left. apply used_in_cons. left. apply Hins_uses. exact Hv.
    - (* everything live before o is allocated *)
      intros v [Hu Hnd]. apply used_in_cons in Hu. destruct Hu as [Hu|Hu].
      + unfold uses, sop_operands in Hu. apply in_app_or in Hu. destruct Hu as [Hu|Hu].
        * exact (Hin4 v Hu).
        * destruct (in_map_fst (s_io o) v Hu) as [y Hin]. destruct (Hio1 v y Hin) as [r [Hr _]].
          exists r. apply Hm2'. apply Hm2. exact Hr.
      + assert (HS : live s v). { split; [exact Hu | intro Hc; apply Hnd; apply defined_in_cons; right; exact Hc]. }
        destruct (Hall0 v HS) as [r Hr]. exists r. apply Hm_all. exact Hr.
    - intros d Hd. destruct (Hdefs2 d Hd) as [r Hr]. exists r. apply Hm2'. exact Hr.
    - (* a definition of o never shares with a value live after o *)
      intros d v r Hd Hv Hne Hrd Hrv.
      destruct (Hdefs2 d Hd) as [rd Hrd2].
      destruct (Hall0 v Hv) as [rv Hrv0].
      assert (Hrv2 : ty a2 v = Some rv). { apply Hm2. apply Hm1. exact Hrv0. }
      pose proof (Hm2' d rd Hrd2) as Hrd'. pose proof (Hm2' v rv Hrv2) as Hrv'.
      rewrite Hrd in Hrd'. rewrite Hrv in Hrv'. inversion Hrd'; inversion Hrv'; subst rd rv.
      destruct HI2 as [_ [_ [HG2 _]]].
      destruct (HG2 d v r (HL2_defs d Hd) (or_introl Hv) Hne Hrd2 Hrv2) as [H|[H|[H|H]]].
      + left. exact H.
      + right. exact H.
      + exfalso. destruct (of_use c FR o s F d (Hfst_uses d (Hpair_fst d v H))) as [Hn _]. exact (Hn Hd).
      + exfalso. apply (of_io_dead c FR o s F v (Hpair_fst v d H)). exact (proj1 Hv).
    - intros x y Hin. destruct (Hio1 x y Hin) as [r [Hx Hy]].
      rewrite (Hm2' x r (Hm2 x r Hx)). rewrite (Hm2' y r (Hm2 y r Hy)). reflexivity.
    - intros d r Hd Hr HP. destruct (Hdefs2 d Hd) as [rd Hrd2].
      pose proof (Hm2' d rd Hrd2) as Eq. rewrite Hr in Eq. inversion Eq; subst rd.
      destruct HI2 as [_ [_ [_ [_ H52]]]]. exact (H52 d r (HL2_defs d Hd) Hrd2 HP).
  Qed.
End Step.
