(* C19/Enc.v -- encoders of model results into Base/Show.v `sx` for the correspondence check
   (definitions only, evaluated by vm_compute in generated case files). *)
From Coq Require Import ZArith List Bool Arith.
From XV Require Import Base.Show C19.Model.
Import ListNotations.
Local Open Scope Z_scope.

Fixpoint insZ (x : Z) (l : list Z) : list Z :=
  match l with [] => [x] | y :: t => if x <=? y then x :: l else y :: insZ x t end.
Definition sortZ (l : list Z) : list Z := fold_right insZ [] l.
Fixpoint insP (x : Z * Z) (l : list (Z * Z)) : list (Z * Z) :=
  match l with [] => [x] | y :: t => if fst x <=? fst y then x :: l else y :: insP x t end.
Definition sortP (l : list (Z * Z)) : list (Z * Z) := fold_right insP [] l.

Definition err_code (e : err) : Z :=
  match e with OutOfRegisters => 1 | SameRegConflict => 2 | PopReserved => 3 | UnreserveMissing => 4 end.

Definition enc_stack (s : rstack) : sx :=
  L [sLZ (available s); sLZ (sortZ (allocatable s));
     L (map (fun p => L [I (fst p); I (snd p)]) (sortP (reserved s))); I (next_inf s)].

Definition enc_result (nvals : nat) (r : res astate) : sx :=
  match r with
  | Err e => L [I (-1); I (err_code e)]
  | Ok a => L [L (map (fun v => sOpt I (ty a v)) (seq 0 nvals)); enc_stack (stk a)]
  end.

(* one correspondence case: zero rule (riscv) / not (x86), pool include order, allow_infinite,
   initial types of all value ids, operations *)
Definition c19_case (zr : bool) (pool : list Z) (allow : bool) (pre : list (option Z)) (ops : list op) : sx :=
  enc_result (length pre) (allocate_func zr pool allow (mkFunc pre ops)).

(* short constructors for generated case files *)
Definition S_ (ins outs : list nat) (io : list (nat * nat)) (k : kind) (eff : bool) : op :=
  Simple (mkSop ins outs io k eff).
Definition B_ (ins outs : list nat) (io : list (nat * nat)) (k : kind) (eff : bool) : sop :=
  mkSop ins outs io k eff.
Definition F_ (lb ub : nat) (step : option nat) (iters res bargs : list nat) (body : list sop)
  (yield_ : list nat) : op := For (mkFor lb ub step iters res bargs body yield_).
Definition BS_ (ins outs : list nat) (io : list (nat * nat)) (k : kind) (eff : bool) : bop :=
  BSimple (mkSop ins outs io k eff).
Definition BF_ (lb ub : nat) (step : option nat) (iters res bargs : list nat) (body : list sop)
  (yield_ : list nat) : bop := BFor (mkFor lb ub step iters res bargs body yield_).
Definition F2_ (lb ub : nat) (step : option nat) (iters res bargs : list nat) (body : list bop)
  (yield_ : list nat) : op := For2 (mkFor2 lb ub step iters res bargs body yield_).
