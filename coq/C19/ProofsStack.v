(* C19/ProofsStack.v -- lemmas about the RegisterStack model (push / pop / include / exclude). *)
From Coq Require Import ZArith List Bool Arith Lia.
From XV Require Import C19.Model.
Import ListNotations.
Local Open Scope Z_scope.

Lemma memZ_In : forall r l, memZ r l = true <-> In r l.
Proof.
  intros r l. unfold memZ. rewrite existsb_exists. split.
  - intros [x [Hin Heq]]. apply Z.eqb_eq in Heq. subst. exact Hin.
  - intros Hin. exists r. split; [exact Hin | apply Z.eqb_refl].
Qed.

Lemma memZ_false : forall r l, memZ r l = false <-> ~ In r l.
Proof.
  intros r l. rewrite <- memZ_In. destruct (memZ r l); split; intro H.
  - discriminate.
  - exfalso. apply H. reflexivity.
  - intro Hc. discriminate.
  - reflexivity.
Qed.

Lemma memN_In : forall v l, memN v l = true <-> In v l.
Proof.
  intros v l. unfold memN. rewrite existsb_exists. split.
  - intros [x [Hin Heq]]. apply Nat.eqb_eq in Heq. subst. exact Hin.
  - intros Hin. exists v. split; [exact Hin | apply Nat.eqb_refl].
Qed.

Lemma In_remove_first : forall r l x, In x (remove_first r l) -> In x l.
Proof.
  intros r l. induction l as [|y t IH]; intros x Hin; simpl in *; [exact Hin|].
  destruct (y =? r) eqn:E; [right; exact Hin|].
  destruct Hin as [H|H]; [left; exact H | right; apply IH; exact H].
Qed.

Lemma In_remove_first_neq : forall r l x, In x l -> x <> r -> In x (remove_first r l).
Proof.
  intros r l. induction l as [|y t IH]; intros x Hin Hne; simpl in *; [exact Hin|].
  destruct (y =? r) eqn:E.
  - apply Z.eqb_eq in E. destruct Hin as [H|H]; [congruence | exact H].
  - destruct Hin as [H|H]; [left; exact H | right; apply IH; assumption].
Qed.

Lemma NoDup_remove_first : forall r l, NoDup l -> NoDup (remove_first r l).
Proof.
  intros r l H. induction H as [|y t Hn Hd IH]; simpl; [constructor|].
  destruct (y =? r); [exact Hd|]. constructor; [|exact IH].
  intro Hc. apply Hn. eapply In_remove_first; exact Hc.
Qed.

Lemma not_In_remove_first : forall r l, NoDup l -> ~ In r (remove_first r l).
Proof.
  intros r l H. induction H as [|y t Hn Hd IH]; simpl; [tauto|].
  destruct (y =? r) eqn:E.
  - apply Z.eqb_eq in E. subst. exact Hn.
  - apply Z.eqb_neq in E. intros [Hc|Hc]; [congruence | exact (IH Hc)].
Qed.

Lemma remove_first_notin : forall r l, ~ In r l -> remove_first r l = l.
Proof.
  intros r l. induction l as [|y t IH]; intros Hn; simpl; [reflexivity|].
  destruct (y =? r) eqn:E.
  - apply Z.eqb_eq in E. subst. exfalso. apply Hn. left. reflexivity.
  - f_equal. apply IH. intro Hc. apply Hn. right. exact Hc.
Qed.

Lemma NoDup_snoc : forall (l : list Z) x, NoDup l -> ~ In x l -> NoDup (l ++ [x]).
Proof.
  intros l x Hl Hx. induction Hl as [|y t Hn Hd IH]; simpl.
  - constructor; [simpl; tauto | constructor].
  - constructor.
    + intro Hc. apply in_app_or in Hc. destruct Hc as [Hc|Hc]; [exact (Hn Hc)|].
      simpl in Hc. destruct Hc as [Hc|[]]. subst. apply Hx. left. reflexivity.
    + apply IH. intro Hc. apply Hx. right. exact Hc.
Qed.

(* ---- push ---- *)

Lemma push_fields : forall r s,
  allocatable (push r s) = allocatable s /\ next_inf (push r s) = next_inf s /\
  reserved (push r s) = reserved s /\ allow_inf (push r s) = allow_inf s.
Proof.
  intros r s. unfold push. destruct (is_reserved r s || ((0 <=? r) && negb (memZ r (allocatable s))));
    simpl; repeat split; reflexivity.
Qed.

Lemma push_cases_g : forall r s,
  (available (push r s) = available s /\ (is_reserved r s = true \/ (0 <= r /\ ~ In r (allocatable s))))
  \/ (available (push r s) = remove_first r (available s) ++ [r] /\ is_reserved r s = false
      /\ (In r (allocatable s) \/ r < 0)).
Proof.
  intros r s. unfold push. destruct (is_reserved r s) eqn:Er; simpl.
  - left. split; [reflexivity | left; reflexivity].
  - destruct (0 <=? r) eqn:E0; simpl.
    + destruct (memZ r (allocatable s)) eqn:Em; simpl.
      * right. split; [reflexivity|]. split; [reflexivity|]. left. apply memZ_In. exact Em.
      * left. split; [reflexivity|]. right. split; [apply Z.leb_le; exact E0 | apply memZ_false; exact Em].
    + right. split; [reflexivity|]. split; [reflexivity|]. right. apply Z.leb_gt. exact E0.
Qed.

Lemma push_cases : forall r s, reserved s = [] ->
  (available (push r s) = available s /\ ~ In r (allocatable s) /\ 0 <= r)
  \/ (available (push r s) = remove_first r (available s) ++ [r] /\ (In r (allocatable s) \/ r < 0)).
Proof.
  intros r s Hres. destruct (push_cases_g r s) as [[Hp [Hr|[H0 Hn]]]|[Hp [_ Hor]]].
  - unfold is_reserved in Hr. rewrite Hres in Hr. discriminate.
  - left. repeat split; assumption.
  - right. split; assumption.
Qed.

(* ---- pop ---- *)

Lemma rev_cons_inv : forall (l : list Z) r rest, rev l = r :: rest -> l = rev rest ++ [r].
Proof.
  intros l r rest H. rewrite <- (rev_involutive l). rewrite H. simpl. reflexivity.
Qed.

Lemma pop_cases : forall s r s', reserved s = [] -> pop s = Ok (r, s') ->
  allocatable s' = allocatable s /\ reserved s' = [] /\ allow_inf s' = allow_inf s /\
  ((available s = available s' ++ [r] /\ next_inf s' = next_inf s)
   \/ (available s = [] /\ available s' = [] /\ allow_inf s = true /\
       r = - next_inf s - 1 /\ next_inf s' = next_inf s + 1)).
Proof.
  intros s r s' Hres Hpop. unfold pop in Hpop.
  destruct (rev (available s)) as [|x rest] eqn:Erev.
  - destruct (allow_inf s) eqn:Eallow; simpl in Hpop; [|discriminate].
    unfold is_reserved in Hpop. simpl in Hpop. rewrite Hres in Hpop. simpl in Hpop.
    inversion Hpop; subst; clear Hpop. simpl.
    repeat split; try assumption; try reflexivity.
    right. assert (Ha : available s = []).
    { rewrite <- (rev_involutive (available s)). rewrite Erev. reflexivity. }
    repeat split; try assumption; reflexivity.
  - simpl in Hpop. unfold is_reserved in Hpop. simpl in Hpop. rewrite Hres in Hpop. simpl in Hpop.
    inversion Hpop; subst; clear Hpop. simpl.
    repeat split; try assumption; try reflexivity.
    left. split; [|reflexivity]. apply rev_cons_inv. exact Erev.
Qed.

Lemma pop_cases_g : forall s r s', pop s = Ok (r, s') ->
  allocatable s' = allocatable s /\ reserved s' = reserved s /\ allow_inf s' = allow_inf s /\
  is_reserved r s = false /\
  ((available s = available s' ++ [r] /\ next_inf s' = next_inf s)
   \/ (available s = [] /\ available s' = [] /\ allow_inf s = true /\
       r = - next_inf s - 1 /\ next_inf s' = next_inf s + 1)).
Proof.
  intros s r s' Hpop. unfold pop in Hpop.
  destruct (rev (available s)) as [|x rest] eqn:Erev.
  - destruct (allow_inf s) eqn:Eallow; simpl in Hpop; [|discriminate].
    match type of Hpop with (if ?b then _ else _) = _ => destruct b eqn:Eb end; [discriminate|].
    inversion Hpop; subst; clear Hpop. simpl.
    repeat split; try assumption; try reflexivity.
    right. assert (Ha : available s = []).
    { rewrite <- (rev_involutive (available s)). rewrite Erev. reflexivity. }
    repeat split; try assumption; reflexivity.
  - simpl in Hpop.
    match type of Hpop with (if ?b then _ else _) = _ => destruct b eqn:Eb end; [discriminate|].
    inversion Hpop; subst; clear Hpop. simpl.
    repeat split; try assumption; try reflexivity.
    left. split; [|reflexivity]. apply rev_cons_inv. exact Erev.
Qed.

(* ---- exclude / include / get ---- *)

(* shape invariant of a stack built by `get` and trimmed by `exclude` *)
Record base_ok (s : rstack) : Prop := {
  b_nodup_av : NoDup (available s);
  b_nodup_al : NoDup (allocatable s);
  b_sub : forall r, In r (available s) -> In r (allocatable s);
  b_res : reserved s = [];
  b_next : next_inf s = 0 }.

Lemma include_base_ok : forall r s, base_ok s -> base_ok (include_register r s).
Proof.
  intros r s [Hav Hal Hsub Hres Hnext]. unfold include_register.
  destruct (memZ r (allocatable s)) eqn:Em.
  - apply memZ_In in Em. pose proof (push_fields r s) as [Fa [Fn [Fr Fi]]].
    destruct (push_cases r s Hres) as [[Hp [Hnot _]]|[Hp _]]; [contradiction|].
    constructor.
    + rewrite Hp. apply NoDup_snoc; [apply NoDup_remove_first; exact Hav
                                                 | apply not_In_remove_first; exact Hav].
    + rewrite Fa. exact Hal.
    + intros x Hx. rewrite Fa. rewrite Hp in Hx. apply in_app_or in Hx. destruct Hx as [Hx|Hx].
      * apply Hsub. eapply In_remove_first. exact Hx.
      * simpl in Hx. destruct Hx as [Hx|[]]. subst. exact Em.
    + rewrite Fr. exact Hres.
    + rewrite Fn. exact Hnext.
  - apply memZ_false in Em.
    set (s1 := set_allocatable s (allocatable s ++ [r])).
    assert (Hres1 : reserved s1 = []) by exact Hres.
    pose proof (push_fields r s1) as [Fa [Fn [Fr Fi]]].
    assert (Hin1 : In r (allocatable s1)). { unfold s1. simpl. apply in_or_app. right. left. reflexivity. }
    destruct (push_cases r s1 Hres1) as [[Hp [Hnot _]]|[Hp _]]; [contradiction|].
    constructor.
    + rewrite Hp. apply NoDup_snoc; [apply NoDup_remove_first; exact Hav
                                                 | apply not_In_remove_first; exact Hav].
    + rewrite Fa. unfold s1. simpl. apply NoDup_snoc; assumption.
    + intros x Hx. rewrite Fa. rewrite Hp in Hx. unfold s1 in *. simpl in *.
      apply in_app_or in Hx. apply in_or_app. destruct Hx as [Hx|Hx].
      * left. apply Hsub. eapply In_remove_first. exact Hx.
      * right. exact Hx.
    + rewrite Fr. exact Hres.
    + rewrite Fn. exact Hnext.
Qed.

Lemma include_allocatable : forall r s x, In x (allocatable (include_register r s)) -> In x (allocatable s) \/ x = r.
Proof.
  intros r s x. unfold include_register. destruct (memZ r (allocatable s)).
  - destruct (push_fields r s) as [Fa _]. rewrite Fa. intros H. left. exact H.
  - destruct (push_fields r (set_allocatable s (allocatable s ++ [r]))) as [Fa _]. rewrite Fa. simpl.
    intros H. apply in_app_or in H. destruct H as [H|H]; [left; exact H|].
    simpl in H. destruct H as [H|[]]. right. symmetry. exact H.
Qed.

Lemma include_allow : forall r s, allow_inf (include_register r s) = allow_inf s.
Proof.
  intros r s. unfold include_register. destruct (memZ r (allocatable s)).
  - destruct (push_fields r s) as [_ [_ [_ Fi]]]. exact Fi.
  - destruct (push_fields r (set_allocatable s (allocatable s ++ [r]))) as [_ [_ [_ Fi]]]. exact Fi.
Qed.

Lemma stack_get_gen : forall pool s0, base_ok s0 ->
  base_ok (fold_left (fun s r => include_register r s) pool s0)
  /\ (forall x, In x (allocatable (fold_left (fun s r => include_register r s) pool s0)) ->
        In x (allocatable s0) \/ In x pool)
  /\ allow_inf (fold_left (fun s r => include_register r s) pool s0) = allow_inf s0.
Proof.
  induction pool as [|r t IH]; intros s0 H0; simpl.
  - split; [exact H0|]. split; [intros x Hx; left; exact Hx | reflexivity].
  - destruct (IH (include_register r s0) (include_base_ok r s0 H0)) as [Hb [Hsub Hal]].
    split; [exact Hb|]. split.
    + intros x Hx. destruct (Hsub x Hx) as [H|H].
      * destruct (include_allocatable r s0 x H) as [H1|H1]; [left; exact H1 | right; left; symmetry; exact H1].
      * right. right. exact H.
    + rewrite Hal. apply include_allow.
Qed.

Lemma stack_get_ok : forall pool allow,
  base_ok (stack_get pool allow)
  /\ (forall x, In x (allocatable (stack_get pool allow)) -> In x pool)
  /\ allow_inf (stack_get pool allow) = allow.
Proof.
  intros pool allow. unfold stack_get.
  assert (H0 : base_ok (mkStack [] 0 [] [] allow)).
  { constructor; simpl; try constructor; try reflexivity. intros r []. }
  destruct (stack_get_gen pool _ H0) as [Hb [Hsub Hal]].
  split; [exact Hb|]. split; [|exact Hal].
  intros x Hx. destruct (Hsub x Hx) as [H|H]; [destruct H | exact H].
Qed.

(* ---- assoc lists of reservations ---- *)
Lemma assoc_incr_keys : forall r l k, In k (map fst (assoc_incr r l)) <-> In k (map fst l) \/ k = r.
Proof.
  intros r l. induction l as [|[k0 n] t IH]; intros k; simpl.
  - split; [intros [H|[]]; right; symmetry; exact H | intros [[]|H]; left; symmetry; exact H].
  - destruct (k0 =? r) eqn:E; simpl.
    + apply Z.eqb_eq in E. subst. split; [intros H; left; exact H | intros [H|H]; [exact H | left; symmetry; exact H]].
    + rewrite IH. tauto.
Qed.

(* the stack after `get` and any number of `exclude_register` calls *)
Record excl_ok (s : rstack) : Prop := {
  e_nodup_av : NoDup (available s);
  e_nodup_al : NoDup (allocatable s);
  e_sub : forall r, In r (available s) -> In r (allocatable s);
  e_res_neg : forall k, In k (map fst (reserved s)) -> k < 0 /\ - k - 1 < next_inf s;
  e_next : 0 <= next_inf s }.

Lemma base_excl_ok : forall s, base_ok s -> excl_ok s.
Proof.
  intros s [Hav Hal Hsub Hres Hnext]. constructor; try assumption.
  - rewrite Hres. intros k [].
  - rewrite Hnext. lia.
Qed.

Lemma exclude_excl_ok : forall r s, excl_ok s -> excl_ok (exclude_register r s)
  /\ allocatable (exclude_register r s) = remove_first r (allocatable s)
  /\ allow_inf (exclude_register r s) = allow_inf s
  /\ (forall k, In k (map fst (reserved (exclude_register r s))) <-> In k (map fst (reserved s)) \/ (k = r /\ r < 0)).
Proof.
  intros r s [Hav Hal Hsub Hres Hnext]. unfold exclude_register, exclude_register_old.
  destruct (r <? 0) eqn:Er; simpl.
  - apply Z.ltb_lt in Er. split; [|split; [reflexivity | split; [reflexivity|]]].
    + constructor; simpl.
      * apply NoDup_remove_first. exact Hav.
      * apply NoDup_remove_first. exact Hal.
      * intros x Hx. apply In_remove_first_neq.
        -- apply Hsub. eapply In_remove_first. exact Hx.
        -- intro Heq. subst. exact (not_In_remove_first _ _ Hav Hx).
      * intros k Hk. apply assoc_incr_keys in Hk. destruct Hk as [Hk|Hk].
        -- destruct (Hres k Hk) as [H1 H2]. split; [exact H1 | lia].
        -- subst k. split; [exact Er | lia].
      * lia.
    + intros k. rewrite assoc_incr_keys. split; intros [H|H]; [left; exact H | right; split; [exact H | exact Er]
                                                             | left; exact H | right; exact (proj1 H)].
  - apply Z.ltb_ge in Er. split; [|split; [reflexivity | split; [reflexivity|]]].
    + constructor; simpl.
      * apply NoDup_remove_first. exact Hav.
      * apply NoDup_remove_first. exact Hal.
      * intros x Hx. apply In_remove_first_neq.
        -- apply Hsub. eapply In_remove_first. exact Hx.
        -- intro Heq. subst. exact (not_In_remove_first _ _ Hav Hx).
      * exact Hres.
      * exact Hnext.
    + intros k. split; [intros H; left; exact H | intros [H|[_ H]]; [exact H | lia]].
Qed.

Lemma exclude_all : forall regs s, excl_ok s ->
  let s' := fold_left (fun s r => exclude_register r s) regs s in
  excl_ok s' /\ (forall x, In x (allocatable s') -> In x (allocatable s) /\ ~ In x regs)
  /\ allow_inf s' = allow_inf s
  /\ (forall k, In k (map fst (reserved s')) <-> In k (map fst (reserved s)) \/ (In k regs /\ k < 0)).
Proof.
  induction regs as [|r t IH]; intros s Hs; simpl.
  - split; [exact Hs|]. split; [intros x Hx; split; [exact Hx | tauto]|]. split; [reflexivity|].
    intros k. split; [intros H; left; exact H | intros [H|[[] _]]; exact H].
  - destruct (exclude_excl_ok r s Hs) as [Hs1 [Fal [Fi Fres]]].
    destruct (IH _ Hs1) as [Hb [Hsub [Hal Hr]]].
    split; [exact Hb|]. split; [|split].
    + intros x Hx. destruct (Hsub x Hx) as [H1 H2]. rewrite Fal in H1. split.
      * eapply In_remove_first. exact H1.
      * intros [Hc|Hc]; [|exact (H2 Hc)]. subst.
        exact (not_In_remove_first _ _ (e_nodup_al _ Hs) H1).
    + simpl in Hal. rewrite Hal. exact Fi.
    + intros k. simpl in Hr. rewrite Hr. rewrite Fres. split.
      * intros [[H|[H1 H2]]|[H1 H2]].
        -- left. exact H.
        -- right. split; [left; symmetry; exact H1 | subst; exact H2].
        -- right. split; [right; exact H1 | exact H2].
      * intros [H|[[H1|H1] H2]].
        -- left. left. exact H.
        -- left. right. split; [symmetry; exact H1 | subst; exact H2].
        -- right. split; assumption.
Qed.
