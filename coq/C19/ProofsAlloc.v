(* C19/ProofsAlloc.v -- the allocator invariant and its preservation by the primitive steps
   (pop / set type / push) of ValueAllocator.  Straight-line fragment (no reservations). *)
From Coq Require Import ZArith List Bool Arith Lia.
From XV Require Import C19.Model C19.ProofsSpec C19.ProofsStack.
Import ListNotations.
Local Open Scope Z_scope.

Section Alloc.
  Variable c : cfg.
  Variable t0 : value -> option Z.     (* types in the input *)
  Variable FR : value -> Z -> Prop.    (* "the input forces value v into register r" (ProofsSpec.forced, or its loop version) *)
  Hypothesis FR_pre : forall v r, t0 v = Some r -> FR v r.

  (* registers the input pre-assigns *)
  Definition Pset (r : Z) : Prop := exists w, t0 w = Some r.

  Record sok (a : astate) : Prop := {
    so_nodup : NoDup (available (stk a));
    so_avail : forall r, In r (available (stk a)) -> In r (allocatable (stk a)) \/ r < 0;
    so_avail_nres : forall r, In r (available (stk a)) -> is_reserved r (stk a) = false;
    so_neg_avail : forall r, In r (available (stk a)) -> r < 0 ->
        - r - 1 < next_inf (stk a) /\ allow_inf (stk a) = true;
    so_neg_ty : forall v r, ty a v = Some r -> r < 0 ->
        - r - 1 < next_inf (stk a) /\ (allow_inf (stk a) = true \/ Pset r);
    so_next : 0 <= next_inf (stk a);
    so_res_lt : forall k, is_reserved k (stk a) = true -> k < 0 -> - k - 1 < next_inf (stk a);
    so_excl : forall r, Pset r -> is_reserved r (stk a) = true \/ (0 <= r /\ ~ In r (allocatable (stk a)));
    so_zero : zero_rule c = true -> ~ In 0 (allocatable (stk a)) /\ ~ Pset 0;
    so_mono : forall v r, t0 v = Some r -> ty a v = Some r;
    so_zero_ty : forall v, zero_rule c = true -> ty a v = Some 0 -> In v (zconsts c);
    so_prov : forall v r, ty a v = Some r -> t0 v = None ->
        In r (allocatable (stk a)) \/ (r < 0 /\ allow_inf (stk a) = true)
        \/ (zero_rule c = true /\ r = 0 /\ In v (zconsts c)) \/ Pset r }.

  (* G1: registers of protected values are not available; G2: two protected values share a register
     only if the input pre-assigned it, or it is `zero`, or the pair is exempt (tied by the current op) *)
  Definition G1 (L : value -> Prop) (a : astate) : Prop :=
    forall v r, L v -> ty a v = Some r -> ~ In r (available (stk a)).
  Definition G2 (L : value -> Prop) (E : value -> value -> Prop) (a : astate) : Prop :=
    forall v1 v2 r, L v1 -> L v2 -> v1 <> v2 -> ty a v1 = Some r -> ty a v2 = Some r ->
      Pset r \/ (zero_rule c = true /\ r = 0) \/ E v1 v2.
  Definition frame (M : value -> Prop) (a : astate) : Prop := forall v, ~ M v -> ty a v = t0 v.

  (* G5: a protected value holding a pre-assigned register is forced into it by the input *)
  Definition G5 (L : value -> Prop) (a : astate) : Prop :=
    forall v r, L v -> ty a v = Some r -> Pset r -> FR v r.

  Definition Inv (L : value -> Prop) (E : value -> value -> Prop) (M : value -> Prop) (a : astate) : Prop :=
    sok a /\ G1 L a /\ G2 L E a /\ frame M a /\ G5 L a.

  Definition addv (L : value -> Prop) (v : value) : value -> Prop := fun w => L w \/ w = v.
  Definition delv (L : value -> Prop) (v : value) : value -> Prop := fun w => L w /\ w <> v.
  Definition mono (a a' : astate) : Prop := forall w q, ty a w = Some q -> ty a' w = Some q.

  Lemma Inv_weaken : forall (L L' : value -> Prop) E (M M' : value -> Prop) a,
    Inv L E M a -> (forall v, L' v -> L v) -> (forall v, M v -> M' v) -> Inv L' E M' a.
  Proof.
    intros L L' E M M' a [Hs [H1 [H2 [Hf H5]]]] HL HM. split; [exact Hs|]. split; [|split; [|split]].
    - intros v r Hv. apply H1. apply HL. exact Hv.
    - intros v1 v2 r Hv1 Hv2. apply H2; apply HL; assumption.
    - intros v Hv. apply Hf. intro Hc. apply Hv. apply HM. exact Hc.
    - intros v r Hv. apply H5. apply HL. exact Hv.
  Qed.

  Lemma pset_unavail : forall a r, sok a -> Pset r -> ~ In r (available (stk a)).
  Proof.
    intros a r Hs Hp Hin. destruct (so_excl a Hs r Hp) as [Hres|[Hge Hna]].
    - rewrite (so_avail_nres a Hs r Hin) in Hres. discriminate.
    - destruct (so_avail a Hs r Hin) as [H|H]; [exact (Hna H) | lia].
  Qed.

  Lemma zero_unavail : forall a, sok a -> zero_rule c = true -> ~ In 0 (available (stk a)).
  Proof.
    intros a Hs Hz Hin. destruct (so_zero a Hs Hz) as [Hna _].
    destruct (so_avail a Hs 0 Hin) as [H|H]; [exact (Hna H) | lia].
  Qed.

  Lemma none_t0 : forall a v, sok a -> ty a v = None -> t0 v = None.
  Proof.
    intros a v Hs Hn. destruct (t0 v) as [r|] eqn:E; [|reflexivity].
    rewrite (so_mono a Hs v r E) in Hn. discriminate.
  Qed.

  Lemma set_ty_same : forall v r a, ty (set_ty v r a) v = Some r.
  Proof. intros. simpl. rewrite Nat.eqb_refl. reflexivity. Qed.
  Lemma set_ty_other : forall v r a w, w <> v -> ty (set_ty v r a) w = ty a w.
  Proof. intros v r a w Hne. simpl. destruct (Nat.eqb w v) eqn:E; [apply Nat.eqb_eq in E; contradiction | reflexivity]. Qed.

  (* ---- adding a value that the walk has not touched yet and that the input pre-assigned ---- *)
  Lemma add_untouched : forall L E M a v r,
    Inv L E M a -> ~ M v -> ty a v = Some r -> Inv (addv L v) E (addv M v) a.
  Proof.
    intros L E M a v r [Hs [H1 [H2 [Hf H5]]]] HnM Hty.
    assert (Hp : Pset r). { exists v. rewrite <- (Hf v HnM). exact Hty. }
    split; [exact Hs|]. split; [|split; [|split]].
    - intros w q [Hw|Hw] Hq; [exact (H1 w q Hw Hq)|]. subst w. rewrite Hty in Hq. inversion Hq; subst.
      apply pset_unavail; assumption.
    - intros v1 v2 q [Hv1|Hv1] [Hv2|Hv2] Hne Hq1 Hq2.
      + exact (H2 v1 v2 q Hv1 Hv2 Hne Hq1 Hq2).
      + subst v2. rewrite Hty in Hq2. inversion Hq2; subst. left. exact Hp.
      + subst v1. rewrite Hty in Hq1. inversion Hq1; subst. left. exact Hp.
      + subst. contradiction.
    - intros w Hw. apply Hf. intro Hc. apply Hw. left. exact Hc.
    - intros w q [Hw|Hw] Hq HP; [exact (H5 w q Hw Hq HP)|]. subst w. rewrite Hty in Hq. inversion Hq; subst.
      apply FR_pre. rewrite <- (Hf v HnM). exact Hty.
  Qed.

  (* ---- RegisterStack.pop ---- *)
  Lemma pop_inv : forall L E M a r s,
    Inv L E M a -> pop (stk a) = Ok (r, s) ->
    Inv L E M (set_stk a s)
    /\ ~ In r (available s)
    /\ (forall w, L w -> ty a w <> Some r)
    /\ (r < 0 -> - r - 1 < next_inf s /\ allow_inf s = true)
    /\ (In r (allocatable s) \/ r < 0)
    /\ ~ Pset r /\ (zero_rule c = true -> r <> 0).
  Proof.
    intros L E M a r s [Hs [H1 [H2 [Hf H5]]]] Hpop.
    destruct (pop_cases_g (stk a) r s Hpop) as [Fal [Fres [Fallow [Hnres Hc]]]].
    assert (Fisres : forall k, is_reserved k s = is_reserved k (stk a)).
    { intros k. unfold is_reserved. rewrite Fres. reflexivity. }
    destruct Hc as [[Hav Hn]|[Hav [Hav' [Hallow [Hr Hn]]]]].
    - (* popped from the list *)
      assert (Hin : In r (available (stk a))). { rewrite Hav. apply in_or_app. right. left. reflexivity. }
      assert (Hnd : NoDup (available s ++ [r])). { rewrite <- Hav. exact (so_nodup a Hs). }
      assert (Hnr : ~ In r (available s)).
      { intro Hc. apply NoDup_remove_2 in Hnd. rewrite app_nil_r in Hnd. exact (Hnd Hc). }
      assert (Hsub : forall q, In q (available s) -> In q (available (stk a))).
      { intros q Hq. rewrite Hav. apply in_or_app. left. exact Hq. }
      split; [|split; [exact Hnr | split; [|split; [|split; [|split]]]]].
      + split; [|split; [|split; [|split]]]; [| | | |exact H5].
        * constructor; simpl.
          -- apply NoDup_remove_1 in Hnd. rewrite app_nil_r in Hnd. exact Hnd.
          -- intros q Hq. rewrite Fal. apply (so_avail a Hs). apply Hsub. exact Hq.
          -- intros q Hq. rewrite Fisres. apply (so_avail_nres a Hs). apply Hsub. exact Hq.
          -- intros q Hq Hneg. rewrite Hn, Fallow. apply (so_neg_avail a Hs); [apply Hsub; exact Hq | exact Hneg].
          -- intros v q Hq Hneg. rewrite Hn, Fallow. exact (so_neg_ty a Hs v q Hq Hneg).
          -- rewrite Hn. exact (so_next a Hs).
          -- intros k Hk. rewrite Fisres in Hk. rewrite Hn. exact (so_res_lt a Hs k Hk).
          -- intros q Hq. rewrite Fal, Fisres. exact (so_excl a Hs q Hq).
          -- intros Hz. rewrite Fal. exact (so_zero a Hs Hz).
          -- exact (so_mono a Hs).
          -- exact (so_zero_ty a Hs).
          -- intros v q Hq Ht. rewrite Fal, Fallow. exact (so_prov a Hs v q Hq Ht).
        * intros v q Hv Hq Hc. simpl in *. apply (H1 v q Hv Hq). apply Hsub. exact Hc.
        * exact H2.
        * exact Hf.
      + intros w Hw Hc. exact (H1 w r Hw Hc Hin).
      + intros Hneg. rewrite Hn, Fallow. exact (so_neg_avail a Hs r Hin Hneg).
      + destruct (so_avail a Hs r Hin) as [H|H]; [left; rewrite Fal; exact H | right; exact H].
      + intro Hp. exact (pset_unavail a r Hs Hp Hin).
      + intros Hz Hr0. subst r. exact (zero_unavail a Hs Hz Hin).
    - (* a fresh infinite register *)
      pose proof (so_next a Hs) as Hnext.
      split; [|split; [rewrite Hav'; simpl; tauto | split; [|split; [|split; [|split]]]]].
      + split; [|split; [|split; [|split]]]; [| | | |exact H5].
        * constructor; simpl.
          -- rewrite Hav'. constructor.
          -- intros q Hq. rewrite Hav' in Hq. destruct Hq.
          -- intros q Hq. rewrite Hav' in Hq. destruct Hq.
          -- intros q Hq. rewrite Hav' in Hq. destruct Hq.
          -- intros v q Hq Hneg. rewrite Hn, Fallow.
             destruct (so_neg_ty a Hs v q Hq Hneg) as [Hlt Hal]. split; [lia | exact Hal].
          -- rewrite Hn. lia.
          -- intros k Hk. rewrite Fisres in Hk. rewrite Hn.
             intros Kn. pose proof (so_res_lt a Hs k Hk Kn). lia.
          -- intros q Hq. rewrite Fal, Fisres. exact (so_excl a Hs q Hq).
          -- intros Hz. rewrite Fal. exact (so_zero a Hs Hz).
          -- exact (so_mono a Hs).
          -- exact (so_zero_ty a Hs).
          -- intros v q Hq Ht. rewrite Fal, Fallow. exact (so_prov a Hs v q Hq Ht).
        * intros v q Hv Hq Hc. simpl in Hc. rewrite Hav' in Hc. destruct Hc.
        * exact H2.
        * exact Hf.
      + intros w Hw Hc. destruct (so_neg_ty a Hs w r Hc) as [Hlt _]; lia.
      + intros _. rewrite Hn, Fallow. split; [lia | exact Hallow].
      + right. lia.
      + intros HP. assert (Hrneg : r < 0) by lia.
        destruct (so_excl a Hs r HP) as [Hres|[Hge _]]; [|lia].
        pose proof (so_res_lt a Hs r Hres Hrneg). lia.
      + intros _. lia.
  Qed.

  (* ---- giving an unallocated value a register ---- *)
  Lemma set_ty_inv : forall L E M a v r,
    Inv L E M a ->
    ty a v = None ->
    ~ In r (available (stk a)) ->
    (forall w, L w -> w <> v -> ty a w = Some r ->
        Pset r \/ (zero_rule c = true /\ r = 0) \/ (E v w /\ E w v)) ->
    (r < 0 -> - r - 1 < next_inf (stk a) /\ (allow_inf (stk a) = true \/ Pset r)) ->
    (zero_rule c = true -> r = 0 -> In v (zconsts c)) ->
    (Pset r -> FR v r) ->
    (In r (allocatable (stk a)) \/ (r < 0 /\ allow_inf (stk a) = true)
       \/ (zero_rule c = true /\ r = 0 /\ In v (zconsts c)) \/ Pset r) ->
    Inv (addv L v) E (addv M v) (set_ty v r a) /\ mono a (set_ty v r a).
  Proof.
    intros L E M a v r [Hs [H1 [H2 [Hf H5]]]] Hnone Hna Hc3 Hc4 Hc5 Hc6 Hc7.
    pose proof (none_t0 a v Hs Hnone) as Ht0.
    split.
    - split; [|split; [|split; [|split]]].
      + constructor; simpl.
        * exact (so_nodup a Hs).
        * exact (so_avail a Hs).
        * exact (so_avail_nres a Hs).
        * exact (so_neg_avail a Hs).
        * intros w q. destruct (Nat.eqb w v) eqn:Ew.
          -- intros Hq. inversion Hq; subst. exact Hc4.
          -- exact (so_neg_ty a Hs w q).
        * exact (so_next a Hs).
        * exact (so_res_lt a Hs).
        * exact (so_excl a Hs).
        * exact (so_zero a Hs).
        * intros w q Hq. destruct (Nat.eqb w v) eqn:Ew.
          -- apply Nat.eqb_eq in Ew. subst w. rewrite Ht0 in Hq. discriminate.
          -- exact (so_mono a Hs w q Hq).
        * intros w Hz. destruct (Nat.eqb w v) eqn:Ew.
          -- apply Nat.eqb_eq in Ew. subst w. intros Hq. inversion Hq; subst. apply Hc5; [exact Hz | reflexivity].
          -- exact (so_zero_ty a Hs w Hz).
        * intros w q. destruct (Nat.eqb w v) eqn:Ew.
          -- apply Nat.eqb_eq in Ew. subst w. intros Hq _. inversion Hq; subst. exact Hc7.
          -- exact (so_prov a Hs w q).
      + intros w q [Hw|Hw] Hq.
        * simpl in Hq. destruct (Nat.eqb w v) eqn:Ew.
          -- inversion Hq; subst. exact Hna.
          -- exact (H1 w q Hw Hq).
        * subst w. rewrite set_ty_same in Hq. inversion Hq; subst. exact Hna.
      + intros v1 v2 q Hv1 Hv2 Hne Hq1 Hq2.
        destruct (Nat.eq_dec v1 v) as [E1|E1]; destruct (Nat.eq_dec v2 v) as [E2|E2].
        * subst. contradiction.
        * subst v1. rewrite set_ty_same in Hq1. inversion Hq1; subst q.
          rewrite (set_ty_other v r a v2 E2) in Hq2.
          destruct Hv2 as [Hv2|Hv2]; [|contradiction].
          destruct (Hc3 v2 Hv2 E2 Hq2) as [H|[H|[H _]]]; [left; exact H | right; left; exact H | right; right; exact H].
        * subst v2. rewrite set_ty_same in Hq2. inversion Hq2; subst q.
          rewrite (set_ty_other v r a v1 E1) in Hq1.
          destruct Hv1 as [Hv1|Hv1]; [|contradiction].
          destruct (Hc3 v1 Hv1 E1 Hq1) as [H|[H|[_ H]]]; [left; exact H | right; left; exact H | right; right; exact H].
        * rewrite (set_ty_other v r a v1 E1) in Hq1. rewrite (set_ty_other v r a v2 E2) in Hq2.
          destruct Hv1 as [Hv1|Hv1]; [|contradiction]. destruct Hv2 as [Hv2|Hv2]; [|contradiction].
          exact (H2 v1 v2 q Hv1 Hv2 Hne Hq1 Hq2).
      + intros w Hw. assert (Hwv : w <> v). { intro Hc. apply Hw. right. exact Hc. }
        rewrite (set_ty_other v r a w Hwv). apply Hf. intro Hc. apply Hw. left. exact Hc.
      + intros w q Hw Hq HP. destruct (Nat.eq_dec w v) as [Ew|Ew].
        * subst w. rewrite set_ty_same in Hq. inversion Hq; subst q. exact (Hc6 HP).
        * rewrite (set_ty_other v r a w Ew) in Hq. destruct Hw as [Hw|Hw]; [|contradiction].
          exact (H5 w q Hw Hq HP).
    - intros w q Hq. destruct (Nat.eq_dec w v) as [Ew|Ew].
      + subst w. rewrite Hnone in Hq. discriminate.
      + rewrite (set_ty_other v r a w Ew). exact Hq.
  Qed.

  (* ---- ValueAllocator.free_value ---- *)
  Lemma free_inv : forall L E M a v r,
    Inv L E M a -> L v -> ty a v = Some r -> (forall w, ~ E v w /\ ~ E w v) ->
    Inv (delv L v) E M (free_value v a) /\ ty (free_value v a) = ty a.
  Proof.
    intros L E M a v r [Hs [H1 [H2 [Hf H5]]]] HLv Hty HE.
    unfold free_value. rewrite Hty.
    pose proof (push_fields r (stk a)) as [Fal [Fn [Fr Fi]]].
    assert (Fisres : forall k, is_reserved k (push r (stk a)) = is_reserved k (stk a)).
    { intros k. unfold is_reserved. rewrite Fr. reflexivity. }
    split; [|reflexivity].
    destruct (push_cases_g r (stk a)) as [[Hp _]|[Hp [Hnres Hor]]].
    - (* ignored *)
      split; [|split; [|split; [|split]]]; [| | | |intros w q [Hw _]; exact (H5 w q Hw)].
      + constructor; simpl.
        * rewrite Hp. exact (so_nodup a Hs).
        * rewrite Hp, Fal. exact (so_avail a Hs).
        * intros q Hq. rewrite Hp in Hq. rewrite Fisres. exact (so_avail_nres a Hs q Hq).
        * rewrite Hp, Fn, Fi. exact (so_neg_avail a Hs).
        * rewrite Fn, Fi. exact (so_neg_ty a Hs).
        * rewrite Fn. exact (so_next a Hs).
        * intros k Hk. rewrite Fisres in Hk. rewrite Fn. exact (so_res_lt a Hs k Hk).
        * intros q Hq. rewrite Fal, Fisres. exact (so_excl a Hs q Hq).
        * rewrite Fal. exact (so_zero a Hs).
        * exact (so_mono a Hs).
        * exact (so_zero_ty a Hs).
        * rewrite Fal, Fi. exact (so_prov a Hs).
      + intros w q [Hw _] Hq. simpl in *. rewrite Hp. exact (H1 w q Hw Hq).
      + intros v1 v2 q [Hv1 _] [Hv2 _]. exact (H2 v1 v2 q Hv1 Hv2).
      + exact Hf.
    - (* pushed: r is not reserved and allocatable or infinite, hence neither pre-assigned nor zero *)
      assert (HnP : ~ Pset r).
      { intro HP. destruct (so_excl a Hs r HP) as [Hres|[Hge Hna]].
        - rewrite Hnres in Hres. discriminate.
        - destruct Hor as [H|H]; [exact (Hna H) | lia]. }
      assert (Hnz : ~ (zero_rule c = true /\ r = 0)).
      { intros [Hz Hr]. subst r. destruct (so_zero a Hs Hz) as [Hna _]. destruct Hor as [H|H]; [exact (Hna H) | lia]. }
      split; [|split; [|split; [|split]]]; [| | | |intros w q [Hw _]; exact (H5 w q Hw)].
      + constructor; simpl.
        * rewrite Hp. apply NoDup_snoc.
          -- apply NoDup_remove_first. exact (so_nodup a Hs).
          -- apply not_In_remove_first. exact (so_nodup a Hs).
        * intros q Hq. rewrite Fal. rewrite Hp in Hq. apply in_app_or in Hq. destruct Hq as [Hq|Hq].
          -- apply (so_avail a Hs). eapply In_remove_first. exact Hq.
          -- simpl in Hq. destruct Hq as [Hq|[]]. subst q. exact Hor.
        * intros q Hq. rewrite Fisres. rewrite Hp in Hq. apply in_app_or in Hq. destruct Hq as [Hq|Hq].
          -- apply (so_avail_nres a Hs). eapply In_remove_first. exact Hq.
          -- simpl in Hq. destruct Hq as [Hq|[]]. subst q. exact Hnres.
        * intros q Hq Hneg. rewrite Fn, Fi. rewrite Hp in Hq. apply in_app_or in Hq. destruct Hq as [Hq|Hq].
          -- apply (so_neg_avail a Hs); [eapply In_remove_first; exact Hq | exact Hneg].
          -- simpl in Hq. destruct Hq as [Hq|[]]. subst q.
             destruct (so_neg_ty a Hs v r Hty Hneg) as [Hb [Hal|HP]]; [split; assumption | contradiction].
        * rewrite Fn, Fi. exact (so_neg_ty a Hs).
        * rewrite Fn. exact (so_next a Hs).
        * intros k Hk. rewrite Fisres in Hk. rewrite Fn. exact (so_res_lt a Hs k Hk).
        * intros q Hq. rewrite Fal, Fisres. exact (so_excl a Hs q Hq).
        * rewrite Fal. exact (so_zero a Hs).
        * exact (so_mono a Hs).
        * exact (so_zero_ty a Hs).
        * rewrite Fal, Fi. exact (so_prov a Hs).
      + intros w q [Hw Hwv] Hq Hin. simpl in *. rewrite Hp in Hin. apply in_app_or in Hin.
        destruct Hin as [Hin|Hin].
        * apply (H1 w q Hw Hq). eapply In_remove_first. exact Hin.
        * simpl in Hin. destruct Hin as [Hin|[]]. subst q.
          destruct (H2 w v r Hw HLv Hwv Hq Hty) as [H|[H|H]].
          -- exact (HnP H).
          -- exact (Hnz H).
          -- destruct (HE w) as [_ Hn]. exact (Hn H).
      + intros v1 v2 q [Hv1 _] [Hv2 _]. exact (H2 v1 v2 q Hv1 Hv2).
      + exact Hf.
  Qed.

  (* ---- ValueAllocator.allocate_value ---- *)
  Lemma eta_astate : forall a, mkA (ty a) (stk a) = a.
  Proof. intros [t s]. reflexivity. Qed.

  Lemma allocate_value_old : forall v a r, ty a v = Some r -> allocate_value c v a = Ok a.
  Proof.
    intros v a r Hty. unfold allocate_value, new_type_for_value. rewrite Hty. simpl.
    unfold set_stk. rewrite eta_astate. reflexivity.
  Qed.

  Lemma allocate_value_new : forall L E M a v a',
    Inv L E M a -> ty a v = None -> allocate_value c v a = Ok a' ->
    Inv (addv L v) E (addv M v) a' /\ mono a a' /\ (exists r, ty a' v = Some r)
    /\ (forall w, w <> v -> ty a' w = ty a w).
  Proof.
    intros L E M a v a' HI Hnone Hal.
    unfold allocate_value, new_type_for_value in Hal. rewrite Hnone in Hal.
    destruct (zero_rule c && memN v (zconsts c)) eqn:Ez.
    - (* zero rule *)
      simpl in Hal. inversion Hal; subst a'; clear Hal.
      apply andb_true_iff in Ez. destruct Ez as [Hz Hm]. apply memN_In in Hm.
      assert (Heq : set_stk a (stk a) = a). { unfold set_stk. apply eta_astate. }
      rewrite Heq.
      pose proof HI as HIc. destruct HIc as [Hs HI'].
      destruct (set_ty_inv L E M a v 0 HI Hnone) as [HI2 Hm2].
      + apply zero_unavail; assumption.
      + intros w _ _ _. right. left. split; [exact Hz | reflexivity].
      + lia.
      + intros _ _. exact Hm.
      + intros HP. destruct (so_zero a Hs Hz) as [_ Hn]. contradiction.
      + right. right. left. repeat split; assumption.
      + split; [exact HI2|]. split; [exact Hm2|]. split.
        * exists 0. apply set_ty_same.
        * intros w Hw. apply set_ty_other. exact Hw.
    - destruct (pop (stk a)) as [[r s]|e] eqn:Epop; simpl in Hal; [|discriminate].
      inversion Hal; subst a'; clear Hal.
      destruct (pop_inv L E M a r s HI Epop) as [HI1 [Hna [Hnone_r [Hneg [Hprov [HnP Hnz]]]]]].
      assert (Hnone1 : ty (set_stk a s) v = None) by exact Hnone.
      destruct (set_ty_inv L E M (set_stk a s) v r HI1 Hnone1) as [HI2 Hm2].
      + exact Hna.
      + intros w Hw _ Hq. exfalso. exact (Hnone_r w Hw Hq).
      + intros Hlt. destruct (Hneg Hlt) as [K1 K2]. split; [exact K1 | left; exact K2].
      + intros Hz Hr. exfalso. exact (Hnz Hz Hr).
      + intros HP. contradiction.
      + simpl. destruct Hprov as [H|H]; [left; exact H | right; left; split; [exact H | apply Hneg; exact H]].
      + split; [exact HI2|]. split; [|split].
        * intros w q Hq. apply Hm2. exact Hq.
        * exists r. apply set_ty_same.
        * intros w Hw. rewrite (set_ty_other v r (set_stk a s) w Hw). reflexivity.
  Qed.

  (* ---- ValueAllocator.allocate_values_same_reg on an (operand, result) pair ---- *)
  Lemma same_reg_pair_spec : forall x y a a', x <> y ->
    allocate_values_same_reg [x; y] a = Ok a' ->
    (ty a x = None /\ ty a y = None /\ exists r s, pop (stk a) = Ok (r, s)
        /\ a' = set_ty y r (set_ty x r (set_stk a s)))
    \/ (exists X, ty a x = Some X /\ ty a y = None /\ a' = set_ty y X a)
    \/ (exists R, ty a x = None /\ ty a y = Some R /\ a' = set_ty x R a)
    \/ (exists R, ty a x = Some R /\ ty a y = Some R /\ a' = a).
  Proof.
    intros x y a a' Hne H. unfold allocate_values_same_reg in H. simpl in H.
    assert (Hyx : Nat.eqb y x = false). { apply Nat.eqb_neq. intro Hc. apply Hne. symmetry. exact Hc. }
    destruct (ty a x) as [X|] eqn:Ex; destruct (ty a y) as [R|] eqn:Ey; simpl in H.
    - (* both allocated *)
      destruct (X =? R) eqn:EXR; simpl in H.
      + apply Z.eqb_eq in EXR. subst R. unfold assign_all in H. simpl in H.
        repeat (rewrite ?Ex, ?Ey, ?Hyx, ?Z.eqb_refl in H; simpl in H).
        inversion H; subst.
        right. right. right. exists X. repeat split; reflexivity.
      + discriminate.
    - (* operand allocated *)
      unfold assign_all in H. simpl in H.
      repeat (rewrite ?Ex, ?Ey, ?Hyx, ?Z.eqb_refl in H; simpl in H).
      inversion H; subst.
      right. left. exists X. repeat split; reflexivity.
    - (* result allocated *)
      unfold assign_all in H. simpl in H.
      repeat (rewrite ?Ex, ?Ey, ?Hyx, ?Z.eqb_refl in H; simpl in H).
      inversion H; subst.
      right. right. left. exists R. repeat split; reflexivity.
    - (* both unallocated *)
      destruct (pop (stk a)) as [[r s]|e] eqn:Epop; simpl in H; [|discriminate].
      unfold assign_all in H. simpl in H.
      repeat (rewrite ?Ex, ?Ey, ?Hyx, ?Z.eqb_refl in H; simpl in H).
      inversion H; subst.
      left. repeat split; try reflexivity. exists r, s. split; reflexivity.
  Qed.

  (* E-exemption used while an operation's in/out pairs are processed *)
  Lemma same_reg_pair_inv : forall L (E : value -> value -> Prop) M a x y a',
    Inv L E M a ->
    x <> y -> E x y -> E y x ->
    (forall w, E y w -> w = x) -> (forall w, E w y -> w = x) ->
    ~ M x -> (L y \/ ~ M y) ->
    ~ In y (zconsts c) ->
    (forall r, (FR x r -> FR y r) /\ (FR y r -> FR x r)) ->
    allocate_values_same_reg [x; y] a = Ok a' ->
    Inv (addv (addv L x) y) E (addv (addv M x) y) a' /\ mono a a'
    /\ (exists r, ty a' x = Some r /\ ty a' y = Some r)
    /\ (forall w, w <> x -> w <> y -> ty a' w = ty a w).
  Proof.
    intros L E M a x y a' HI Hne Exy Eyx HEy HEy' HMx HLy Hyz Htied Hal.
    destruct (same_reg_pair_spec x y a a' Hne Hal)
      as [[Hx [Hy [r [s [Hpop Ha']]]]]|[[X [Hx [Hy Ha']]]|[[R [Hx [Hy Ha']]]|[R [Hx [Hy Ha']]]]]]; subst a'.
    - (* both unallocated: one pop, both get it *)
      destruct (pop_inv L E M a r s HI Hpop) as [HI1 [Hna [Hnone_r [Hneg [Hprov [HnP Hnz]]]]]].
      assert (Hprov' : In r (allocatable s) \/ (r < 0 /\ allow_inf s = true)
                       \/ (zero_rule c = true /\ r = 0 /\ In x (zconsts c)) \/ Pset r).
      { destruct Hprov as [H|H]; [left; exact H | right; left; split; [exact H | apply Hneg; exact H]]. }
      destruct (set_ty_inv L E M (set_stk a s) x r HI1 Hx) as [HI2 Hm2].
      + exact Hna.
      + intros w Hw _ Hq. exfalso. exact (Hnone_r w Hw Hq).
      + intros Hlt. destruct (Hneg Hlt) as [K1 K2]. split; [exact K1 | left; exact K2].
      + intros Hz Hr. exfalso. exact (Hnz Hz Hr).
      + intros HP. contradiction.
      + exact Hprov'.
      + assert (Hy2 : ty (set_ty x r (set_stk a s)) y = None).
        { rewrite set_ty_other; [exact Hy | intro Hc; apply Hne; symmetry; exact Hc]. }
        destruct (set_ty_inv (addv L x) E (addv M x) (set_ty x r (set_stk a s)) y r HI2 Hy2) as [HI3 Hm3].
        * exact Hna.
        * intros w [Hw|Hw] Hwy Hq.
          -- destruct (Nat.eq_dec w x) as [Ew|Ew].
             ++ subst w. right. right. split; assumption.
             ++ rewrite set_ty_other in Hq by exact Ew. exfalso. exact (Hnone_r w Hw Hq).
          -- subst w. right. right. split; assumption.
        * intros Hlt. destruct (Hneg Hlt) as [K1 K2]. split; [exact K1 | left; exact K2].
        * intros Hz Hr. exfalso. exact (Hnz Hz Hr).
        * intros HP. contradiction.
        * simpl. destruct Hprov as [H|H]; [left; exact H | right; left; split; [exact H | apply Hneg; exact H]].
        * split; [exact HI3|]. split; [|split].
          -- intros w q Hq. apply Hm3. apply Hm2. exact Hq.
          -- exists r. split; [|apply set_ty_same].
             rewrite set_ty_other by exact Hne. apply set_ty_same.
          -- intros w Hwx Hwy. rewrite set_ty_other by exact Hwy. rewrite set_ty_other by exact Hwx. reflexivity.
    - (* operand pre-assigned X (untouched so far), result takes X *)
      pose proof HI as HIc. destruct HIc as [Hs HI'].
      assert (Hfr : frame M a) by (destruct HI' as [_ [_ [Hf _]]]; exact Hf).
      assert (HPX : Pset X). { exists x. rewrite <- (Hfr x HMx). exact Hx. }
      pose proof (add_untouched L E M a x X HI HMx Hx) as HI1.
      destruct (set_ty_inv (addv L x) E (addv M x) a y X HI1 Hy) as [HI2 Hm2].
      + apply pset_unavail; assumption.
      + intros w _ _ _. left. exact HPX.
      + intros Hneg. destruct (so_excl a Hs X HPX) as [Hres|[Hge _]]; [|lia].
        split; [exact (so_res_lt a Hs X Hres Hneg) | right; exact HPX].
      + intros Hz HX0. subst X. destruct (so_zero a Hs Hz) as [_ Hn]. contradiction.
      + intros _. apply (proj1 (Htied X)). apply FR_pre. rewrite <- (Hfr x HMx). exact Hx.
      + right. right. right. exact HPX.
      + split; [exact HI2|]. split; [exact Hm2|]. split.
        * exists X. split; [|apply set_ty_same]. rewrite set_ty_other by exact Hne. exact Hx.
        * intros w _ Hwy. apply set_ty_other. exact Hwy.
    - (* result already has R (live after the op, or pre-assigned), operand takes R *)
      pose proof HI as HIc. destruct HIc as [Hs HI'].
      assert (HI1 : Inv (addv L y) E (addv M y) a).
      { destruct HLy as [HLy|HMy].
        - eapply Inv_weaken; [exact HI | | intros v Hv; left; exact Hv].
          intros v [Hv|Hv]; [exact Hv | subst v; exact HLy].
        - exact (add_untouched L E M a y R HI HMy Hy). }
      pose proof HI1 as HI1c. destruct HI1c as [_ [H1' [H2' [Hf' H5']]]].
      assert (HLy' : addv L y y) by (right; reflexivity).
      destruct (set_ty_inv (addv L y) E (addv M y) a x R HI1 Hx) as [HI2 Hm2].
      + exact (H1' y R HLy' Hy).
      + intros w Hw Hwx Hq. destruct (Nat.eq_dec w y) as [Ew|Ew].
        * subst w. right. right. split; assumption.
        * destruct (H2' y w R HLy' Hw (fun Hc => Ew (eq_sym Hc)) Hy Hq) as [H|[H|H]].
          -- left. exact H.
          -- right. left. exact H.
          -- exfalso. apply Hwx. apply HEy. exact H.
      + intros Hneg. exact (so_neg_ty a Hs y R Hy Hneg).
      + intros Hz HR. subst R. exfalso. apply Hyz. exact (so_zero_ty a Hs y Hz Hy).
      + intros HP. apply (proj2 (Htied R)). exact (H5' y R HLy' Hy HP).
      + destruct (t0 y) as [R'|] eqn:Et0y.
        * right. right. right. exists y. rewrite (so_mono a Hs y R' Et0y) in Hy. inversion Hy; subst. exact Et0y.
        * destruct (so_prov a Hs y R Hy Et0y) as [H|[H|[[_ [_ H]]|H]]].
          -- left. exact H.
          -- right. left. exact H.
          -- contradiction.
          -- right. right. right. exact H.
      + split.
        * eapply Inv_weaken; [exact HI2 | |].
          -- intros v [[Hv|Hv]|Hv]; [left; left; exact Hv | right; exact Hv | left; right; exact Hv].
          -- intros v [[Hv|Hv]|Hv]; [left; left; exact Hv | right; exact Hv | left; right; exact Hv].
        * split; [exact Hm2|]. split.
          -- exists R. split; [apply set_ty_same|]. rewrite set_ty_other by (intro Hc; apply Hne; symmetry; exact Hc). exact Hy.
          -- intros w Hwx _. apply set_ty_other. exact Hwx.
    - (* both already hold R *)
      pose proof HI as HIc. destruct HIc as [Hs HI'].
      pose proof (add_untouched L E M a x R HI HMx Hx) as HI1.
      assert (HI2 : Inv (addv (addv L x) y) E (addv (addv M x) y) a).
      { destruct HLy as [HLy|HMy].
        - eapply Inv_weaken; [exact HI1 | | intros v Hv; left; exact Hv].
          intros v [Hv|Hv]; [exact Hv | subst v; left; exact HLy].
        - apply (add_untouched (addv L x) E (addv M x) a y R HI1); [|exact Hy].
          intros [Hc|Hc]; [exact (HMy Hc) | apply Hne; symmetry; exact Hc]. }
      split; [exact HI2|]. split; [intros w q Hq; exact Hq|]. split.
      + exists R. split; assumption.
      + intros. reflexivity.
  Qed.
End Alloc.
