(* C19/Model.v -- executable model of xDSL's naive bottom-up register allocator.
   Definitions only (no proofs).  Mirrors, statement by statement,
     xdsl/backend/register_stack.py        RegisterStack.{push,pop,reserve_register,
                                           unreserve_register,include_register,exclude_register,get}
     xdsl/backend/register_allocator.py    ValueAllocator.{new_type_for_value,allocate_value,
                                           allocate_values_same_reg,free_value}, _live_ins_per_block
     xdsl/backend/register_allocatable.py  HasRegisterConstraints.allocate_registers,
                                           RegisterAllocatableOperation.all_used_registers
     xdsl/backend/block_naive_allocator.py BlockNaiveAllocator.allocate_block
     xdsl/backend/riscv/register_allocation.py  new_type_for_value (zero rule), allocate_func
     xdsl/backend/x86/register_allocation.py    allocate_func
     xdsl/dialects/riscv_scf.py            ForRofOperation.allocate_registers (one nesting level)
   Conventions: a register is its index (Z; negative = "infinite" register ~k = -k-1);
   one register pool (one `register_pool_key`); an SSA value is a nat id (Python object identity:
   `Rewriter.replace_value_with_new_type` creates a new object for the same id, the model updates
   the type of the id); the type of a value is `option Z` (None = unallocated register type);
   Python exceptions are the explicit `Err` results. *)
From Coq Require Import ZArith List Bool Arith.
Import ListNotations.
Local Open Scope Z_scope.

Definition value := nat.

Inductive err :=
| OutOfRegisters        (* RegisterStack.pop: `raise OutOfRegisters` *)
| SameRegConflict       (* allocate_values_same_reg: DiagnosticException "Cannot allocate registers to the same register" *)
| PopReserved           (* RegisterStack.pop: AssertionError "Cannot pop a reserved register" *)
| UnreserveMissing.     (* RegisterStack.unreserve_register: ValueError *)

Inductive res (A : Type) := Ok (a : A) | Err (e : err).
Arguments Ok {A} a.
Arguments Err {A} e.
Definition bind {A B} (x : res A) (f : A -> res B) : res B :=
  match x with Ok a => f a | Err e => Err e end.
Notation "'do' x <- e ; f" := (bind e (fun x => f)) (at level 200, x name, e at level 100, f at level 200).
Notation "'do' ' p <- e ; f" := (bind e (fun p => f)) (at level 200, p pattern, e at level 100, f at level 200).

Fixpoint fold_res {A S} (f : A -> S -> res S) (l : list A) (s : S) : res S :=
  match l with
  | [] => Ok s
  | x :: t => do s1 <- f x s; fold_res f t s1
  end.

Definition memZ (r : Z) (l : list Z) : bool := existsb (Z.eqb r) l.
Definition memN (v : nat) (l : list nat) : bool := existsb (Nat.eqb v) l.
(* list.remove(x): first occurrence *)
Fixpoint remove_first (r : Z) (l : list Z) : list Z :=
  match l with
  | [] => []
  | x :: t => if x =? r then t else x :: remove_first r t
  end.

(* ---------------------------------------------------------------------------------------------- *)
(* RegisterStack (one pool) *)

Record rstack := mkStack {
  allocatable : list Z;        (* allocatable_registers[pool]: set[int] (insertion order kept, no duplicates) *)
  next_inf : Z;                (* next_infinite_indices[pool] *)
  reserved : list (Z * Z);     (* reserved_registers[pool]: dict index -> count, keys present iff count > 0 *)
  available : list Z;          (* available_registers[pool]: list, top of the stack = LAST element *)
  allow_inf : bool }.

Definition set_available (s : rstack) (l : list Z) : rstack :=
  mkStack (allocatable s) (next_inf s) (reserved s) l (allow_inf s).
Definition set_allocatable (s : rstack) (l : list Z) : rstack :=
  mkStack l (next_inf s) (reserved s) (available s) (allow_inf s).
Definition set_reserved (s : rstack) (l : list (Z * Z)) : rstack :=
  mkStack (allocatable s) (next_inf s) l (available s) (allow_inf s).

Definition is_reserved (r : Z) (s : rstack) : bool := memZ r (map fst (reserved s)).

(* def push(self, reg)   (as repaired by /repo commit d11e3b9: a reserved register is never pushed
   back, whatever its sign; before, the reservation test only applied to indices >= 0) *)
Definition push (r : Z) (s : rstack) : rstack :=
  if is_reserved r s || ((0 <=? r) && negb (memZ r (allocatable s))) then s
  else set_available s (remove_first r (available s) ++ [r]).
  (* `if index in available: available.remove(index)`; remove_first is the identity when absent *)
(* the code before d11e3b9 (kept for the recorded refutation C19_infinite_preassigned_refuted) *)
Definition push_old (r : Z) (s : rstack) : rstack :=
  if (is_reserved r s || negb (memZ r (allocatable s))) && (0 <=? r) then s
  else set_available s (remove_first r (available s) ++ [r]).

(* def pop(self, reg_type) *)
Definition pop (s : rstack) : res (Z * rstack) :=
  do '(r, s1) <-
    match rev (available s) with
    | r :: rest => Ok (r, set_available s (rev rest))                       (* pool.pop() *)
    | [] => if allow_inf s
            then Ok (- next_inf s - 1,                                     (* infinite_register(n): index ~n *)
                     mkStack (allocatable s) (next_inf s + 1) (reserved s) (available s) (allow_inf s))
            else Err OutOfRegisters
    end;
  if is_reserved r s1 then Err PopReserved else Ok (r, s1).

Fixpoint assoc_incr (r : Z) (l : list (Z * Z)) : list (Z * Z) :=
  match l with
  | [] => [(r, 1)]
  | (k, n) :: t => if k =? r then (k, n + 1) :: t else (k, n) :: assoc_incr r t
  end.
Fixpoint assoc_decr (r : Z) (l : list (Z * Z)) : list (Z * Z) :=
  match l with
  | [] => []
  | (k, n) :: t => if k =? r then (if n - 1 =? 0 then t else (k, n - 1) :: t) else (k, n) :: assoc_decr r t
  end.
Definition reserve_register (r : Z) (s : rstack) : rstack := set_reserved s (assoc_incr r (reserved s)).
Definition unreserve_register (r : Z) (s : rstack) : res rstack :=
  if is_reserved r s then Ok (set_reserved s (assoc_decr r (reserved s))) else Err UnreserveMissing.

(* def include_register(self, reg) *)
Definition include_register (r : Z) (s : rstack) : rstack :=
  push r (if memZ r (allocatable s) then s else set_allocatable s (allocatable s ++ [r])).
(* def exclude_register(self, reg)   (as repaired by d11e3b9: an "infinite" register already used in
   the input is reserved for good and fresh infinite registers start above it) *)
Definition exclude_register_old (r : Z) (s : rstack) : rstack :=
  let s1 := set_available s (remove_first r (available s)) in
  set_allocatable s1 (remove_first r (allocatable s1)).
Definition exclude_register (r : Z) (s : rstack) : rstack :=
  let s0 := if r <? 0
            then mkStack (allocatable s) (Z.max (next_inf s) (- r)) (* max(next, ~index + 1) *)
                         (assoc_incr r (reserved s)) (available s) (allow_inf s)
            else s in
  exclude_register_old r s0.

(* RegisterStack.get(allocatable_registers, allow_infinite=...) *)
Definition stack_get (regs : list Z) (allow : bool) : rstack :=
  fold_left (fun s r => include_register r s) regs (mkStack [] 0 [] [] allow).

(* ---------------------------------------------------------------------------------------------- *)
(* ValueAllocator *)

Record astate := mkA { ty : value -> option Z; stk : rstack }.
Definition set_ty (v : value) (r : Z) (a : astate) : astate :=
  mkA (fun x => if Nat.eqb x v then Some r else ty a x) (stk a).
Definition set_stk (a : astate) (s : rstack) : astate := mkA (ty a) s.

(* target configuration: RISC-V puts values known to be the constant 0 into `zero` (index 0) *)
Record cfg := mkCfg { zero_rule : bool; zconsts : list value }.

(* def new_type_for_value(self, reg) -> RegisterType | None   (riscv override first, then base) *)
Definition new_type_for_value (c : cfg) (v : value) (a : astate) : res (option Z * rstack) :=
  match ty a v with
  | Some _ => Ok (None, stk a)                                   (* is_allocated: return None *)
  | None =>
      if zero_rule c && memN v (zconsts c) then Ok (Some 0, stk a)   (* Registers.ZERO *)
      else do '(r, s) <- pop (stk a); Ok (Some r, s)
  end.

(* def allocate_value(self, val): the `val in new_value_by_old_value` early return concerns stale
   Python objects of an id that was already replaced, i.e. an id whose current type is allocated:
   both paths leave the state unchanged. *)
Definition allocate_value (c : cfg) (v : value) (a : astate) : res astate :=
  do '(t, s) <- new_type_for_value c v a;
  match t with
  | Some r => Ok (set_ty v r (set_stk a s))
  | None => Ok (set_stk a s)
  end.

Definition opt_Z_eqb (x y : option Z) : bool :=
  match x, y with Some a, Some b => a =? b | None, None => true | _, _ => false end.

Fixpoint dedupZ (l : list Z) : list Z :=
  match l with [] => [] | x :: t => if memZ x t then dedupZ t else x :: dedupZ t end.
Fixpoint somes (l : list (option Z)) : list Z :=
  match l with [] => [] | Some x :: t => x :: somes t | None :: t => somes t end.

(* `for val in vals: if val.type != reg_type: replace` *)
Definition assign_all (vals : list value) (r : Z) (a : astate) : astate :=
  fold_left (fun a v => if opt_Z_eqb (ty a v) (Some r) then a else set_ty v r a) vals a.

(* def allocate_values_same_reg(self, vals): reg_types = set(val.type for val in vals);
   len 0 / 1 / 2 / more.  The set has one element per distinct allocated register plus one for
   the unallocated type if some value is unallocated. *)
Definition allocate_values_same_reg (vals : list value) (a : astate) : res astate :=
  let ts := map (ty a) vals in
  let regs := dedupZ (somes ts) in
  let has_un := existsb (fun t => match t with None => true | Some _ => false end) ts in
  match regs with
  | [] => if has_un
          then do '(r, s) <- pop (stk a); Ok (assign_all vals r (set_stk a s))   (* case 1, unallocated *)
          else Ok a                                                             (* case 0 *)
  | [r] => Ok (assign_all vals r a)                       (* case 1 allocated (no change) / case 2 *)
  | _ => Err SameRegConflict                              (* two or more allocated registers *)
  end.

(* def free_value(self, val) *)
Definition free_value (v : value) (a : astate) : astate :=
  match ty a v with Some r => set_stk a (push r (stk a)) | None => a end.

(* ---------------------------------------------------------------------------------------------- *)
(* programs *)

Inductive kind :=
| KOther
| KZero      (* result 0 is a known constant 0: `li 0`, `get_register zero` *)
| KMv.       (* riscv.mv: get_constant_value looks through it *)

(* an operation with register constraints: RegisterConstraints(ins, outs, inouts) *)
Record sop := mkSop {
  s_ins : list value;
  s_outs : list value;                 (* result ids *)
  s_io : list (value * value);         (* (operand, result) pairs that must share a register *)
  s_kind : kind;
  s_eff : bool }.                      (* has the RegisterAllocatedMemoryEffect trait *)

Record forop := mkFor {
  f_lb : value; f_ub : value; f_step : option value;
  f_iters : list value;                (* iter_args operands *)
  f_res : list value;                  (* results *)
  f_bargs : list value;                (* body block arguments: induction variable, then carried *)
  f_body : list sop;
  f_yield : list value }.

(* a loop whose body contains loops (second nesting level) *)
Inductive bop := BSimple (o : sop) | BFor (f : forop).
Record forop2 := mkFor2 {
  g_lb : value; g_ub : value; g_step : option value;
  g_iters : list value; g_res : list value; g_bargs : list value;
  g_body : list bop;
  g_yield : list value }.

Inductive op := Simple (o : sop) | For (f : forop) | For2 (g : forop2).

Definition sop_operands (o : sop) : list value := s_ins o ++ map fst (s_io o).
Definition sop_results (o : sop) : list value := s_outs o ++ map snd (s_io o).

(* def allocate_registers(self, allocator)  -- HasRegisterConstraints *)
Definition allocate_sop (c : cfg) (o : sop) (a : astate) : res astate :=
  do a1 <- fold_res (fun p a => allocate_values_same_reg [fst p; snd p] a) (s_io o) a;
  do a2 <- fold_res (allocate_value c) (s_outs o) a1;
  let a3 := fold_left (fun a v => free_value v a) (rev (s_outs o)) a2 in
  fold_res (allocate_value c) (s_ins o) a3.

(* def allocate_block(self, block): for op in reversed(block.ops) -- straight-line block *)
Definition allocate_sops (c : cfg) (l : list sop) (a : astate) : res astate :=
  fold_res (allocate_sop c) (rev l) a.

(* _live_ins_per_block for a loop body: OrderedSet, walked backwards from the yield *)
Definition oset_update (s : list value) (vs : list value) : list value :=
  fold_left (fun s v => if memN v s then s else s ++ [v]) vs s.
Definition oset_diff (s : list value) (vs : list value) : list value :=
  filter (fun v => negb (memN v vs)) s.
Definition live_ins_body (f : forop) : list value :=
  let s0 := oset_update [] (f_yield f) in
  let s1 := fold_left (fun s o => oset_update (oset_diff s (sop_results o)) (sop_operands o))
                      (rev (f_body f)) s0 in
  oset_diff s1 (f_bargs f).

Fixpoint zip4 (a b c d : list value) : list (list value) :=
  match a, b, c, d with
  | x :: a', y :: b', z :: c', w :: d' => [x; y; z; w] :: zip4 a' b' c' d'
  | _, _, _, _ => []
  end.

(* def allocate_registers(self, allocator)  -- riscv_scf.ForRofOperation *)
Definition allocate_for (c : cfg) (f : forop) (a : astate) : res astate :=
  do a1 <- fold_res (allocate_value c) (live_ins_body f) a;
  do a2 <- fold_res allocate_values_same_reg
             (zip4 (tl (f_bargs f)) (f_iters f) (f_yield f) (f_res f)) a1;
  do a3 <- fold_res (allocate_value c) (firstn 1 (f_bargs f)) a2;      (* induction variable *)
  do a4 <- allocate_value c (f_ub f) a3;
  do a5 <- match f_step f with Some s => allocate_value c s a4 | None => Ok a4 end;
  let regs := somes (map (ty a5) (f_iters f)) in                       (* self.iter_args.types *)
  let a6 := set_stk a5 (fold_left (fun s r => reserve_register r s) regs (stk a5)) in
  do a7 <- allocate_sops c (f_body f) a6;
  do s8 <- fold_res unreserve_register regs (stk a7);
  let a8 := set_stk a7 s8 in
  let a9 := fold_left (fun a v => free_value v a) (firstn 1 (f_bargs f)) a8 in
  allocate_value c (f_lb f) a9.

(* the same for a loop nest of depth two.  _live_ins_per_block of the outer body: for an inner loop
   operation its results are removed, its operands (lb, ub, step, iter_args) added, then the live-ins
   of its body *)
Definition for_operands (f : forop) : list value :=
  f_lb f :: f_ub f :: (match f_step f with Some s => [s] | None => [] end) ++ f_iters f.
Definition live_ins_body2 (g : forop2) : list value :=
  let s0 := oset_update [] (g_yield g) in
  let s1 := fold_left (fun s b =>
              match b with
              | BSimple o => oset_update (oset_diff s (sop_results o)) (sop_operands o)
              | BFor f => oset_update (oset_update (oset_diff s (f_res f)) (for_operands f)) (live_ins_body f)
              end) (rev (g_body g)) s0 in
  oset_diff s1 (g_bargs g).
Definition allocate_bop (c : cfg) (b : bop) (a : astate) : res astate :=
  match b with BSimple o => allocate_sop c o a | BFor f => allocate_for c f a end.
Definition allocate_for2 (c : cfg) (g : forop2) (a : astate) : res astate :=
  do a1 <- fold_res (allocate_value c) (live_ins_body2 g) a;
  do a2 <- fold_res allocate_values_same_reg
             (zip4 (tl (g_bargs g)) (g_iters g) (g_yield g) (g_res g)) a1;
  do a3 <- fold_res (allocate_value c) (firstn 1 (g_bargs g)) a2;
  do a4 <- allocate_value c (g_ub g) a3;
  do a5 <- match g_step g with Some s => allocate_value c s a4 | None => Ok a4 end;
  let regs := somes (map (ty a5) (g_iters g)) in
  let a6 := set_stk a5 (fold_left (fun s r => reserve_register r s) regs (stk a5)) in
  do a7 <- fold_res (allocate_bop c) (rev (g_body g)) a6;
  do s8 <- fold_res unreserve_register regs (stk a7);
  let a8 := set_stk a7 s8 in
  let a9 := fold_left (fun a v => free_value v a) (firstn 1 (g_bargs g)) a8 in
  allocate_value c (g_lb g) a9.

Definition allocate_op (c : cfg) (o : op) (a : astate) : res astate :=
  match o with Simple s => allocate_sop c s a | For f => allocate_for c f a | For2 g => allocate_for2 c g a end.
Definition allocate_block (c : cfg) (l : list op) (a : astate) : res astate :=
  fold_res (allocate_op c) (rev l) a.

(* ---------------------------------------------------------------------------------------------- *)
(* whole function *)

Record func := mkFunc {
  fn_pre : list (option Z);            (* type of every value id in the input (args first) *)
  fn_ops : list op }.

Definition ty0 (fn : func) : value -> option Z := fun v => nth v (fn_pre fn) None.

Definition all_sops (l : list op) : list sop :=
  flat_map (fun o => match o with
                     | Simple s => [s]
                     | For f => f_body f
                     | For2 g => flat_map (fun b => match b with BSimple s => [s] | BFor f => f_body f end) (g_body g)
                     end) l.

(* get_constant_value(v) is not None and == 0: forward pass over the defining operations *)
Definition zero_consts (l : list sop) : list value :=
  fold_left (fun zs o =>
    match s_kind o, s_outs o, s_ins o with
    | KZero, r :: _, _ => r :: zs
    | KMv, r :: _, x :: _ => if memN x zs then r :: zs else zs
    | _, _, _ => zs
    end) l [].

(* RegisterAllocatableOperation.all_used_registers: allocated operand/result registers of the
   operations that carry RegisterAllocatedMemoryEffect *)
Definition used_registers_old (fn : func) : list Z :=
  dedupZ (somes (flat_map (fun o => if s_eff o then map (ty0 fn) (sop_results o ++ sop_operands o) else [])
                          (all_sops (fn_ops fn)))).
(* all_used_registers(body) | all_preallocated_registers(body)   (commit 26a8b63): the allocated
   registers of every operand, result and block argument of every operation and of the function's
   block.  Every value id of the function is one of those, so this is every allocated type of fn_pre
   (a Python set: each register once, order irrelevant because exclusions commute). *)
Definition used_registers (fn : func) : list Z :=
  dedupZ (somes (fn_pre fn) ++ used_registers_old fn).

(* allocate_func (riscv: zero rule on; x86: off) on RegisterStack.get(pool, allow_infinite) *)
Definition mk_cfg (zr : bool) (fn : func) : cfg := mkCfg zr (zero_consts (all_sops (fn_ops fn))).
Definition init_state (pool : list Z) (allow : bool) (fn : func) : astate :=
  mkA (ty0 fn) (fold_left (fun s r => exclude_register r s) (used_registers fn) (stack_get pool allow)).
Definition allocate_func (zr : bool) (pool : list Z) (allow : bool) (fn : func) : res astate :=
  allocate_block (mk_cfg zr fn) (fn_ops fn) (init_state pool allow fn).

(* ---------------------------------------------------------------------------------------------- *)
(* the allocator BEFORE the repairs d11e3b9 / 26a8b63 (straight-line fragment), kept only for the two
   recorded refutations in Props/C19.v *)
Definition free_value_old (v : value) (a : astate) : astate :=
  match ty a v with Some r => set_stk a (push_old r (stk a)) | None => a end.
Definition allocate_sop_old (c : cfg) (o : sop) (a : astate) : res astate :=
  do a1 <- fold_res (fun p a => allocate_values_same_reg [fst p; snd p] a) (s_io o) a;
  do a2 <- fold_res (allocate_value c) (s_outs o) a1;
  let a3 := fold_left (fun a v => free_value_old v a) (rev (s_outs o)) a2 in
  fold_res (allocate_value c) (s_ins o) a3.
Definition stack_get_old (regs : list Z) (allow : bool) : rstack :=
  fold_left (fun s r => push_old r (if memZ r (allocatable s) then s else set_allocatable s (allocatable s ++ [r])))
            regs (mkStack [] 0 [] [] allow).
Definition allocate_func_old (zr : bool) (pool : list Z) (allow : bool) (pre : list (option Z)) (sl : list sop)
  : res astate :=
  let fn := mkFunc pre (map Simple sl) in
  fold_res (allocate_sop_old (mk_cfg zr fn)) (rev sl)
    (mkA (ty0 fn) (fold_left (fun s r => exclude_register_old r s) (used_registers_old fn) (stack_get_old pool allow))).
