(* C19/ProofsFunc.v -- from the walk over a block to `allocate_func`: the initial state built by
   RegisterStack.get + exclude_register satisfies the invariant; the pool is never changed by the
   walk; the register-machine simulation; concrete refutations for the recorded findings. *)
From Coq Require Import ZArith List Bool Arith Lia.
From XV Require Import C19.Model C19.ProofsSpec C19.ProofsStack C19.ProofsAlloc C19.ProofsOp C19.ProofsStep
                       C19.ProofsMain C19.ProofsSem.
Import ListNotations.
Local Open Scope Z_scope.

(* ---- straight-line functions ---- *)

Lemma all_sops_simple : forall sl, all_sops (map Simple sl) = sl.
Proof. induction sl as [|o t IH]; simpl; [reflexivity | rewrite IH; reflexivity]. Qed.

Lemma fold_res_map_simple : forall c sl a,
  fold_res (allocate_op c) (map Simple sl) a = fold_res (allocate_sop c) sl a.
Proof.
  intros c sl. induction sl as [|o t IH]; intros a; simpl; [reflexivity|].
  destruct (allocate_sop c o a); simpl; [apply IH | reflexivity].
Qed.

Lemma allocate_block_simple : forall c sl a, allocate_block c (map Simple sl) a = allocate_sops c sl a.
Proof.
  intros c sl a. unfold allocate_block, allocate_sops. rewrite <- map_rev. apply fold_res_map_simple.
Qed.

(* ---- the pool is not changed by the walk ---- *)

Definition same_pool (s s' : rstack) : Prop :=
  allocatable s' = allocatable s /\ allow_inf s' = allow_inf s.

Lemma same_pool_refl : forall s, same_pool s s.
Proof. intros s. split; reflexivity. Qed.
Lemma same_pool_trans : forall s1 s2 s3, same_pool s1 s2 -> same_pool s2 s3 -> same_pool s1 s3.
Proof. intros s1 s2 s3 [A1 B1] [A2 B2]. split; congruence. Qed.

Lemma pop_pool : forall s r s', pop s = Ok (r, s') -> same_pool s s'.
Proof.
  intros s r s' H. unfold pop in H.
  destruct (rev (available s)) as [|x rest].
  - destruct (allow_inf s) eqn:Ea; simpl in H; [|discriminate].
    match type of H with (if ?b then _ else _) = _ => destruct b end; [discriminate|].
    inversion H; subst. split; simpl; [reflexivity | symmetry; exact Ea].
  - simpl in H. match type of H with (if ?b then _ else _) = _ => destruct b end; [discriminate|].
    inversion H; subst. split; reflexivity.
Qed.

Lemma push_pool : forall r s, same_pool s (push r s).
Proof. intros r s. destruct (push_fields r s) as [A [_ [_ B]]]. split; assumption. Qed.

Lemma allocate_value_pool : forall c v a a', allocate_value c v a = Ok a' -> same_pool (stk a) (stk a').
Proof.
  intros c v a a' H. unfold allocate_value, new_type_for_value in H.
  destruct (ty a v).
  - simpl in H. inversion H; subst. apply same_pool_refl.
  - destruct (zero_rule c && memN v (zconsts c)).
    + simpl in H. inversion H; subst. apply same_pool_refl.
    + destruct (pop (stk a)) as [[r s]|e] eqn:Ep; simpl in H; [|discriminate].
      inversion H; subst. simpl. exact (pop_pool _ _ _ Ep).
Qed.

Lemma assign_all_stk : forall vals r a, stk (assign_all vals r a) = stk a.
Proof.
  intros vals r. unfold assign_all. induction vals as [|v t IH]; intros a; simpl; [reflexivity|].
  rewrite IH. destruct (opt_Z_eqb (ty a v) (Some r)); reflexivity.
Qed.

Lemma same_reg_pool : forall vals a a', allocate_values_same_reg vals a = Ok a' -> same_pool (stk a) (stk a').
Proof.
  intros vals a a' H. unfold allocate_values_same_reg in H.
  destruct (dedupZ (somes (map (ty a) vals))) as [|r [|r2 rest]].
  - destruct (existsb _ _).
    + destruct (pop (stk a)) as [[r s]|e] eqn:Ep; simpl in H; [|discriminate].
      inversion H; subst. rewrite assign_all_stk. simpl. exact (pop_pool _ _ _ Ep).
    + inversion H; subst. apply same_pool_refl.
  - inversion H; subst. rewrite assign_all_stk. apply same_pool_refl.
  - discriminate.
Qed.

Lemma free_value_pool : forall v a, same_pool (stk a) (stk (free_value v a)).
Proof. intros v a. unfold free_value. destruct (ty a v); simpl; [apply push_pool | apply same_pool_refl]. Qed.

Lemma fold_res_pool : forall {A} (f : A -> astate -> res astate) xs,
  (forall x a a', f x a = Ok a' -> same_pool (stk a) (stk a')) ->
  forall a a', fold_res f xs a = Ok a' -> same_pool (stk a) (stk a').
Proof.
  intros A f xs Hf. induction xs as [|x t IH]; intros a a' H; simpl in H.
  - inversion H; subst. apply same_pool_refl.
  - destruct (f x a) as [a1|e] eqn:E; simpl in H; [|discriminate].
    eapply same_pool_trans; [exact (Hf x a a1 E) | exact (IH a1 a' H)].
Qed.

Lemma fold_free_pool : forall vs a, same_pool (stk a) (stk (fold_left (fun a v => free_value v a) vs a)).
Proof.
  induction vs as [|v t IH]; intros a; simpl; [apply same_pool_refl|].
  eapply same_pool_trans; [apply (free_value_pool v a) | apply IH].
Qed.

Lemma allocate_sop_pool : forall c o a a', allocate_sop c o a = Ok a' -> same_pool (stk a) (stk a').
Proof.
  intros c o a a' H. unfold allocate_sop in H.
  destruct (fold_res _ (s_io o) a) as [a1|e] eqn:E1; simpl in H; [|discriminate].
  destruct (fold_res (allocate_value c) (s_outs o) a1) as [a2|e] eqn:E2; simpl in H; [|discriminate].
  eapply same_pool_trans.
  { apply (fold_res_pool _ (s_io o)) with (2 := E1). intros p b b' Hb. exact (same_reg_pool _ _ _ Hb). }
  eapply same_pool_trans.
  { apply (fold_res_pool _ (s_outs o)) with (2 := E2). intros v b b' Hb. exact (allocate_value_pool _ _ _ _ Hb). }
  eapply same_pool_trans; [apply fold_free_pool|].
  apply (fold_res_pool _ (s_ins o)) with (2 := H). intros v b b' Hb. exact (allocate_value_pool _ _ _ _ Hb).
Qed.

Lemma allocate_sops_pool : forall c sl a a', allocate_sops c sl a = Ok a' -> same_pool (stk a) (stk a').
Proof.
  intros c sl a a' H. unfold allocate_sops in H.
  apply (fold_res_pool _ (rev sl)) with (2 := H). intros o b b' Hb. exact (allocate_sop_pool _ _ _ _ Hb).
Qed.

(* ---- the initial state ---- *)

Section Func.
  Variable zr : bool.
  Variable pool : list Z.
  Variable allow : bool.
  Variable pre : list (option Z).
  Variable sl : list sop.
  Let fn := mkFunc pre (map Simple sl).
  Let c := mk_cfg zr fn.
  Let t0 := ty0 fn.
  Let a0 := init_state pool allow fn.

  Hypothesis Hin : input_ok zr pool fn.

  Lemma cfg_zconsts : zconsts c = zero_consts sl.
  Proof. unfold c, mk_cfg, fn. simpl. rewrite all_sops_simple. reflexivity. Qed.

  Lemma dedupZ_In : forall l x, In x (dedupZ l) <-> In x l.
  Proof.
    induction l as [|y t IH]; intros x; simpl; [tauto|].
    destruct (memZ y t) eqn:Em.
    - rewrite IH. split; [intros H; right; exact H|]. intros [H|H]; [subst; apply memZ_In; exact Em | exact H].
    - simpl. rewrite IH. tauto.
  Qed.

  Lemma somes_In : forall (l : list (option Z)) x, In (Some x) l -> In x (somes l).
  Proof.
    induction l as [|[y|] t IH]; intros x H; simpl in *; [destruct H| |].
    - destruct H as [H|H]; [inversion H; left; reflexivity | right; apply IH; exact H].
    - destruct H as [H|H]; [discriminate | apply IH; exact H].
  Qed.

  Lemma pre_in_used : forall v r, ty0 fn v = Some r -> In r (used_registers fn).
  Proof.
    intros v r H. unfold used_registers. apply dedupZ_In. apply in_or_app. left. apply somes_In.
    unfold ty0 in H. simpl in H. simpl. rewrite <- H.
    destruct (nth_in_or_default v pre None) as [Hnin|Hd]; [exact Hnin | rewrite Hd in H; discriminate].
  Qed.

  Lemma init_facts :
    excl_ok (stk a0)
    /\ (forall r, In r (allocatable (stk a0)) -> In r pool /\ ~ In r (used_registers fn))
    /\ allow_inf (stk a0) = allow
    /\ (forall k, In k (map fst (reserved (stk a0))) <-> In k (used_registers fn) /\ k < 0).
  Proof.
    destruct (stack_get_ok pool allow) as [Hb [Hsub Hal]].
    destruct (exclude_all (used_registers fn) _ (base_excl_ok _ Hb)) as [Hb' [Hexc [Hal' Hres]]].
    unfold a0, init_state. simpl. split; [exact Hb'|]. split; [|split].
    - intros r Hr. destruct (Hexc r Hr) as [H1 H2]. split; [apply Hsub; exact H1 | exact H2].
    - simpl in Hal'. rewrite Hal'. exact Hal.
    - intros k. simpl in Hres. rewrite Hres. rewrite (b_res _ Hb). simpl. tauto.
  Qed.

  Lemma init_alloc_sub : forall r, In r (allocatable (stk a0)) -> In r pool /\ ~ In r (used_registers fn).
  Proof. exact (proj1 (proj2 init_facts)). Qed.

  Lemma init_sok : sok c t0 a0.
  Proof.
    destruct Hin as [Hzero Hpool].
    destruct init_facts as [He [Hsub [Hal Hres]]].
    assert (Hav_pool : forall r, In r (available (stk a0)) -> 0 <= r).
    { intros r Hr. apply Hpool. exact (proj1 (Hsub r (e_sub _ He r Hr))). }
    assert (Hisres : forall k, is_reserved k (stk a0) = true <-> In k (used_registers fn) /\ k < 0).
    { intros k. unfold is_reserved. rewrite memZ_In. exact (Hres k). }
    constructor.
    - exact (e_nodup_av _ He).
    - intros r Hr. left. exact (e_sub _ He r Hr).
    - intros r Hr. destruct (is_reserved r (stk a0)) eqn:E; [|reflexivity].
      apply Hisres in E. pose proof (Hav_pool r Hr). lia.
    - intros r Hr Hneg. pose proof (Hav_pool r Hr). lia.
    - intros v r Hr Hneg. unfold a0, init_state in Hr. simpl in Hr.
      assert (Hk : is_reserved r (stk a0) = true). { apply Hisres. split; [exact (pre_in_used v r Hr) | exact Hneg]. }
      unfold is_reserved in Hk. apply memZ_In in Hk. split; [exact (proj2 (e_res_neg _ He r Hk))|].
      right. exists v. exact Hr.
    - exact (e_next _ He).
    - intros k Hk _. unfold is_reserved in Hk. apply memZ_In in Hk. exact (proj2 (e_res_neg _ He k Hk)).
    - intros r [w Hw]. destruct (Z_lt_le_dec r 0) as [Hneg|Hge].
      + left. apply Hisres. split; [exact (pre_in_used w r Hw) | exact Hneg].
      + right. split; [exact Hge|]. intros Hc. exact (proj2 (Hsub r Hc) (pre_in_used w r Hw)).
    - intros Hz. unfold c, mk_cfg in Hz. simpl in Hz. destruct (Hzero Hz) as [Hn0 Hnp]. split.
      + intro Hc. exact (Hn0 (proj1 (Hsub 0 Hc))).
      + intros [w Hw]. exact (Hnp w Hw).
    - intros v r Hr. exact Hr.
    - intros v Hz Hr. exfalso. unfold c, mk_cfg in Hz. simpl in Hz.
      destruct (Hzero Hz) as [_ Hnp]. exact (Hnp v Hr).
    - intros v r Hr Hn. unfold a0, init_state in Hr. simpl in Hr. unfold t0 in Hn. rewrite Hn in Hr. discriminate.
  Qed.

  Lemma init_allow : allow_inf (stk a0) = allow.
  Proof. exact (proj1 (proj2 (proj2 init_facts))). Qed.

  Lemma func_is_walk : allocate_func zr pool allow fn = allocate_sops c sl a0.
  Proof. unfold allocate_func. simpl. apply allocate_block_simple. Qed.

  Hypothesis Hwf : wf_prog sl.
  Hypothesis Hio : io_ok sl.
  Variable af : astate.
  Hypothesis Hrun : allocate_func zr pool allow fn = Ok af.

  Let Hrun' : allocate_sops c sl a0 = Ok af.
  Proof. rewrite <- func_is_walk. exact Hrun. Qed.

  Lemma zr_is_rule : zero_rule c = zr.
  Proof. reflexivity. Qed.

  Theorem func_preallocated : forall v r, ty0 fn v = Some r -> ty af v = Some r.
  Proof.
    intros v r H.
    exact (so_mono c t0 af (final_sok c t0 sl a0 Hwf Hio cfg_zconsts init_sok eq_refl af Hrun') v r H).
  Qed.

  Theorem func_reserved : forall v r, ty af v = Some r -> ty0 fn v = None ->
    In r pool \/ (r < 0 /\ allow = true) \/ (zr = true /\ r = 0 /\ In v (zero_consts sl))
    \/ (exists w, ty0 fn w = Some r).
  Proof.
    intros v r H Hn.
    pose proof (final_sok c t0 sl a0 Hwf Hio cfg_zconsts init_sok eq_refl af Hrun') as Hs.
    destruct (allocate_sops_pool c sl a0 af Hrun') as [Hal Hallow].
    destruct (so_prov c t0 af Hs v r H Hn) as [H1|[[H1 H2]|[[H1 [H2 H3]]|H1]]].
    - left. rewrite Hal in H1. exact (proj1 (init_alloc_sub r H1)).
    - right. left. split; [exact H1|]. rewrite Hallow, init_allow in H2. exact H2.
    - right. right. left. rewrite cfg_zconsts in H3. repeat split; assumption.
    - right. right. right. exact H1.
  Qed.

  Theorem func_live_allocated : forall p s v, sl = p ++ s -> live s v -> exists r, ty af v = Some r.
  Proof. exact (live_allocated c t0 sl a0 Hwf Hio cfg_zconsts init_sok eq_refl af Hrun'). Qed.

  Theorem func_confined : forall p s v1 v2 r, sl = p ++ s -> live s v1 -> live s v2 -> v1 <> v2 ->
    ty af v1 = Some r -> ty af v2 = Some r -> (exists w, ty0 fn w = Some r) \/ (zr = true /\ r = 0).
  Proof. exact (live_confined c t0 sl a0 Hwf Hio cfg_zconsts init_sok eq_refl af Hrun'). Qed.

  Theorem func_def_confined : forall p o s d v r, sl = p ++ o :: s -> In d (defs o) -> live s v -> d <> v ->
    ty af d = Some r -> ty af v = Some r -> (exists w, ty0 fn w = Some r) \/ (zr = true /\ r = 0).
  Proof. exact (def_confined c t0 sl a0 Hwf Hio cfg_zconsts init_sok eq_refl af Hrun'). Qed.

  Theorem func_ties : forall o x y, In o sl -> In (x, y) (s_io o) -> ty af x = ty af y /\ ty af x <> None.
  Proof. exact (ties_respected c t0 sl a0 Hwf Hio cfg_zconsts init_sok eq_refl af Hrun'). Qed.

  (* THE ALLOCATOR INVARIANT at every point of the backward walk: after the operations of the suffix
     s have been processed, no register of a value that is live before s is available, and every such
     value has a register *)
  Theorem func_invariant : forall p s a, sl = p ++ s -> allocate_sops c s a0 = Ok a ->
    (forall v, live s v -> exists r, ty a v = Some r /\ ~ In r (available (stk a)))
    /\ NoDup (available (stk a)).
  Proof.
    intros p s a Hl Ha.
    destruct (walk_inv c t0 sl a0 Hwf Hio cfg_zconsts init_sok eq_refl s p a Hl Ha) as [[Hs [H1 _]] [Hall _]].
    split; [|exact (so_nodup c t0 a Hs)].
    intros v Hv. destruct (Hall v Hv) as [r Hr]. exists r. split; [exact Hr | exact (H1 v r Hv Hr)].
  Qed.

  Theorem func_defs_allocated : forall p o s d, sl = p ++ o :: s -> In d (defs o) -> exists r, ty af d = Some r.
  Proof. exact (defs_allocated c t0 sl a0 Hwf Hio cfg_zconsts init_sok eq_refl af Hrun'). Qed.

  Hypothesis Hforced : forced_ok (ty0 fn) sl.

  Theorem func_no_interference : forall p s v1 v2 r, sl = p ++ s -> live s v1 -> live s v2 -> v1 <> v2 ->
    ty af v1 = Some r -> ty af v2 = Some r ->
    zr = true /\ r = 0 /\ In v1 (zero_consts sl) /\ In v2 (zero_consts sl).
  Proof. exact (live_no_interference c t0 sl a0 Hwf Hio cfg_zconsts init_sok eq_refl af Hrun' Hforced). Qed.

  Theorem func_no_clobber : forall p o s d v r, sl = p ++ o :: s -> In d (defs o) -> live s v -> d <> v ->
    ty af d = Some r -> ty af v = Some r ->
    zr = true /\ r = 0 /\ In d (zero_consts sl) /\ In v (zero_consts sl).
  Proof. exact (def_no_clobber c t0 sl a0 Hwf Hio cfg_zconsts init_sok eq_refl af Hrun' Hforced). Qed.

  (* ---- register machine vs SSA ---- *)
  Definition asg_of (a : astate) (v : value) : Z := match ty a v with Some r => r | None => -1 end.

  Section Sem.
    Variable data : Type.
    Variable dzero : data.
    Variable fop : nat -> nat -> list data -> data.
    Variable env0 : value -> data.
    Variable rf0 : Z -> data.
    Hypothesis Hinit : forall v, live sl v -> read_reg data dzero zr (asg_of af) rf0 v = env0 v.

    Theorem func_semantics : forall p o s, sl = p ++ o :: s -> forall v, In v (uses o) ->
      read_reg data dzero zr (asg_of af) (exec_regs data dzero fop zr (asg_of af) 0 p rf0) v
      = exec_ssa data dzero fop 0 p env0 v.
    Proof.
      apply (sim_operands data dzero fop zr (asg_of af) sl Hwf).
      - (* live together *)
        intros p s Hl v1 v2 Hv1 Hv2 Hne Heq. unfold asg_of in *.
        destruct (func_live_allocated p s v1 Hl Hv1) as [r1 Hr1].
        destruct (func_live_allocated p s v2 Hl Hv2) as [r2 Hr2].
        rewrite Hr1, Hr2 in Heq. subst r2. rewrite Hr1.
        destruct (func_no_interference p s v1 v2 r1 Hl Hv1 Hv2 Hne Hr1 Hr2) as [Hz [Hr _]].
        subst r1. unfold is_zero_reg. rewrite Hz. reflexivity.
      - (* definition vs live *)
        intros p o s Hl d v Hd Hv Hne Heq. unfold asg_of in *.
        destruct (defs_allocated c t0 sl a0 Hwf Hio cfg_zconsts init_sok eq_refl af Hrun' p o s d Hl Hd) as [r1 Hr1].
        assert (Hl' : sl = (p ++ [o]) ++ s). { rewrite <- app_assoc. exact Hl. }
        destruct (func_live_allocated (p ++ [o]) s v Hl' Hv) as [r2 Hr2].
        rewrite Hr1, Hr2 in Heq. subst r2. rewrite Hr1.
        destruct (func_no_clobber p o s d v r1 Hl Hd Hv Hne Hr1 Hr2) as [Hz [Hr _]].
        subst r1. unfold is_zero_reg. rewrite Hz. reflexivity.
      - (* zero register holds only constants zero *)
        intros v Hzv. unfold asg_of, is_zero_reg in Hzv. apply andb_true_iff in Hzv. destruct Hzv as [Hz Hr].
        destruct (ty af v) as [r|] eqn:Er; [|discriminate]. apply Z.eqb_eq in Hr. subst r.
        rewrite <- cfg_zconsts.
        apply (so_zero_ty c t0 af (final_sok c t0 sl a0 Hwf Hio cfg_zconsts init_sok eq_refl af Hrun') v); assumption.
      - exact Hinit.
    Qed.
  End Sem.
End Func.
