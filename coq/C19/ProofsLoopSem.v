(* C19/ProofsLoopSem.v -- register machine vs SSA for one execution of the loop body (the induction step
   for any trip count): with the assignment computed by allocate_func, running the body from two states
   that agree on everything live at the top of the body gives states that agree on everything live at the
   end of the body -- the induction variable, the live-ins, ub/step, the yield operands and whatever is
   live after the loop. *)
From Coq Require Import ZArith List Bool Arith Lia.
From XV Require Import C19.Model C19.ProofsSpec C19.ProofsStack C19.ProofsAlloc C19.ProofsStep C19.ProofsMain
                       C19.ProofsFunc C19.ProofsSem C19.ProofsLoop C19.ProofsLoop2.
Import ListNotations.
Local Open Scope Z_scope.

Lemma zero_consts_skip : forall l1 o l2, s_kind o = KOther -> zero_consts (l1 ++ o :: l2) = zero_consts (l1 ++ l2).
Proof.
  intros l1 o l2 H. unfold zero_consts. rewrite !fold_left_app. simpl. rewrite H. reflexivity.
Qed.

Lemma zero_consts_virt : forall pre f post,
  zero_consts (virt pre f post) = zero_consts (pre ++ f_body f ++ post).
Proof.
  intros pre f post. unfold virt. rewrite (zero_consts_skip pre (Hop f)) by reflexivity.
  replace (pre ++ f_body f ++ Yop f :: post) with ((pre ++ f_body f) ++ Yop f :: post) by (rewrite <- app_assoc; reflexivity).
  rewrite (zero_consts_skip (pre ++ f_body f) (Yop f)) by reflexivity. rewrite <- app_assoc. reflexivity.
Qed.

Lemma all_sops_loop : forall pre f post,
  all_sops (map Simple pre ++ For f :: map Simple post) = pre ++ f_body f ++ post.
Proof.
  intros pre f post. unfold all_sops. rewrite flat_map_app. simpl.
  fold (all_sops (map Simple pre)). fold (all_sops (map Simple post)). rewrite !all_sops_simple. reflexivity.
Qed.

Theorem func_loop_iteration : forall zr pool allow types pre f post iv cb af,
  let fn := mkFunc types (map Simple pre ++ For f :: map Simple post) in
  let c := mk_cfg zr fn in
  (zr = true -> ~ In 0 pool) -> (forall r, In r pool -> 0 <= r) -> (forall v, ty0 fn v = None) ->
  f_bargs f = iv :: cb ->
  wf_prog (virt pre f post) -> io_ok (virt pre f post) ->
  (forall o x y, In o (virt pre f post) -> In (x, y) (s_io o) -> ~ In y (zconsts c)) ->
  length (f_iters f) = length cb /\ length (f_iters f) = length (f_yield f) /\ length (f_iters f) = length (f_res f) ->
  NoDup (concat (groups f)) ->
  (forall v, In v (iv :: cb) \/ defined_in (f_body f) v -> ~ used_in post v) ->
  ~ In iv (concat (groups f)) ->
  (forall v, In v (live_ins_body f) -> ~ In v (concat (groups f)) /\ v <> iv) ->
  (forall v, In v (f_lb f :: f_ub f :: step_list f) -> ~ In v (concat (groups f)) /\ v <> iv) ->
  (forall p s, virt pre f post = p ++ s -> forall v1 v2, live s v1 -> live s v2 -> v1 <> v2 ->
     tconn pre f post v1 v2 -> False) ->
  (forall p o s, virt pre f post = p ++ o :: s -> forall d v, In d (defs o) -> live s v -> d <> v ->
     tconn pre f post d v -> False) ->
  allocate_func zr pool allow fn = Ok af ->
  forall (data : Type) (dzero : data) (fop : nat -> nat -> list data -> data) (env : value -> data) (rf : Z -> data),
    let done := pre ++ [Hop f] in
    (forall v, live (f_body f ++ Yop f :: post) v -> read_reg data dzero zr (asg_of af) rf v = env v) ->
    (forall v, In v (zero_consts done) -> env v = dzero) ->
    (forall v, live (Yop f :: post) v ->
       read_reg data dzero zr (asg_of af) (exec_regs data dzero fop zr (asg_of af) (length done) (f_body f) rf) v
       = exec_ssa data dzero fop (length done) (f_body f) env v)
    /\ (forall v, In v (zero_consts (done ++ f_body f)) -> exec_ssa data dzero fop (length done) (f_body f) env v = dzero).
Proof.
  intros zr pool allow types pre f post iv cb af fn c Hz Hpool Hnone Hb Hwf Hio Hnz Hlen Hgs Hscope Hiv Hli Hbnd Htie Htied Hrun
         data dzero fop env rf done Hlive Hzc.
  destruct (init_sok00 zr pool allow fn Hz Hpool Hnone) as [Hsok Hty].
  unfold allocate_func in Hrun. simpl in Hrun.
  pose proof (loop_no_interference c pre post f iv cb Hb Hwf Hio Hnz Hlen Hgs Hscope Hiv Hli Hbnd Htie _ af Hsok Hty Hrun) as Hni.
  pose proof (loop_def_all c pre post f iv cb Hb Hwf Hio Hnz Hlen Hgs Hscope Hiv Hli Hbnd Htie Htied _ af Hsok Hty Hrun) as Hda.
  destruct (loop_defs_allocated c pre post f iv cb Hb Hwf Hio Hnz Hlen Hgs Hscope Hiv Hli Hbnd Htie _ af Hsok Hty Hrun) as [Hdal Hzty].
  assert (HdefV : forall p o s, virt pre f post = p ++ o :: s -> forall d v, In d (defs o) -> live s v -> d <> v ->
            asg_of af d = asg_of af v -> is_zero_reg zr (asg_of af d) = true).
  { intros p o s Hl d v Hd Hv Hne Heq. unfold asg_of in *.
    destruct (Hdal p o s Hl d Hd) as [r1 Hr1].
    assert (Hl' : virt pre f post = (p ++ [o]) ++ s) by (rewrite <- app_assoc; exact Hl).
    destruct (proj1 (Hni (p ++ [o]) s Hl') v Hv) as [r2 Hr2].
    rewrite Hr1, Hr2 in Heq. subst r2. rewrite Hr1.
    destruct (Hda p o s Hl d v r1 Hd Hv Hne Hr1 Hr2) as [Hzr Hr0]. subst r1.
    unfold is_zero_reg. unfold c, mk_cfg in Hzr. simpl in Hzr. rewrite Hzr. reflexivity. }
  assert (HzeroV : forall v, is_zero_reg zr (asg_of af v) = true -> In v (zero_consts (virt pre f post))).
  { intros v Hzv. unfold asg_of, is_zero_reg in Hzv. apply andb_true_iff in Hzv. destruct Hzv as [Hzr Hr].
    destruct (ty af v) as [r|] eqn:Er; [|discriminate]. apply Z.eqb_eq in Hr. subst r.
    rewrite zero_consts_virt. rewrite <- all_sops_loop.
    apply (Hzty v); [exact Hzr | exact Er]. }
  assert (Hl : virt pre f post = done ++ f_body f ++ Yop f :: post).
  { unfold virt, done. rewrite <- app_assoc. reflexivity. }
  pose proof (inv_run data dzero fop zr (asg_of af) (virt pre f post) Hwf HdefV HzeroV (f_body f) done (Yop f :: post) env rf Hl
                (conj Hlive Hzc)) as [R1 R2].
  split; [exact R1 | exact R2].
Qed.

(* ============================================================================================== *)
(* the whole loop, for any trip count *)

Lemma write_env_notin' : forall (data : Type) ds xs (env : value -> data) v, ~ In v ds -> write_env data env ds xs v = env v.
Proof.
  intros data ds. induction ds as [|d t IH]; intros xs env v Hn; [reflexivity|].
  destruct xs as [|x xs]; [reflexivity|]. simpl. rewrite IH by (intro Hc; apply Hn; right; exact Hc).
  unfold upd. destruct (Nat.eqb v d) eqn:E; [apply Nat.eqb_eq in E; subst; exfalso; apply Hn; left; reflexivity | reflexivity].
Qed.

Lemma write_env_map : forall (data : Type) (g : value -> data) ds srcs (env : value -> data) d x,
  NoDup ds -> In (d, x) (combine ds srcs) -> write_env data env ds (map g srcs) d = g x.
Proof.
  intros data g ds. induction ds as [|d0 t IH]; intros srcs env d x Hnd Hin; [destruct Hin|].
  destruct srcs as [|s0 srcs]; [destruct Hin|]. simpl in *. inversion Hnd as [|? ? Hn Hd]; subst.
  destruct Hin as [Hin|Hin].
  - inversion Hin; subst. rewrite write_env_notin' by exact Hn. unfold upd. rewrite Nat.eqb_refl. reflexivity.
  - exact (IH srcs _ d x Hd Hin).
Qed.

Lemma zfold_grow : forall l acc v, In v acc -> In v (fold_left (fun zs o =>
    match s_kind o, s_outs o, s_ins o with
    | KZero, r :: _, _ => r :: zs
    | KMv, r :: _, x :: _ => if memN x zs then r :: zs else zs
    | _, _, _ => zs
    end) l acc).
Proof.
  induction l as [|o t IH]; intros acc v H; simpl; [exact H|]. apply IH.
  destruct (s_kind o); [exact H | |].
  - destruct (s_outs o); [exact H | right; exact H].
  - destruct (s_outs o); [exact H|]. destruct (s_ins o); [exact H|]. destruct (memN _ acc); [right; exact H | exact H].
Qed.
Lemma zero_consts_mono : forall p s v, In v (zero_consts p) -> In v (zero_consts (p ++ s)).
Proof. intros p s v H. unfold zero_consts in *. rewrite fold_left_app. apply zfold_grow. exact H. Qed.

Fixpoint iter_n {A} (n : nat) (g : A -> A) (x : A) : A := match n with O => x | S k => g (iter_n k g x) end.

Section LoopRun.
  Variable data : Type.
  Variable dzero : data.
  Variable fop : nat -> nat -> list data -> data.
  Variable ivnext : data -> data -> data.          (* induction variable update, uninterpreted *)
  Variable zr : bool.
  Variable asg : value -> Z.
  Variable pre post : list sop.
  Variable f : forop.
  Variable iv : value.
  Variable cb : list value.
  Notation V := (virt pre f post).
  Notation H_ := (Hop f).
  Notation Y_ := (Yop f).
  Notation R_ := (f_body f ++ Y_ :: post).
  Notation done := (pre ++ [H_]).
  Notation rd := (read_reg data dzero zr asg).

  Hypothesis Hb : f_bargs f = iv :: cb.
  Hypothesis Hwf : wf_prog V.
  Hypothesis HdefV : forall p o s, V = p ++ o :: s -> forall d v, In d (defs o) -> live s v -> d <> v ->
      asg d = asg v -> is_zero_reg zr (asg d) = true.
  Hypothesis HzeroV : forall v, is_zero_reg zr (asg v) = true -> In v (zero_consts V).
  (* the loop-carried groups sit in one register each, the induction variable elsewhere, none in `zero` *)
  Hypothesis Hg1 : forall it b, In (b, it) (combine cb (f_iters f)) -> asg it = asg b.
  Hypothesis Hg2 : forall b y, In (b, y) (combine cb (f_yield f)) -> asg b = asg y.
  Hypothesis Hg3 : forall r_ b, In (r_, b) (combine (f_res f) cb) -> asg r_ = asg b.
  Hypothesis Hivg : forall b, In b cb -> asg b <> asg iv.
  Hypothesis Hivz : is_zero_reg zr (asg iv) = false.
  (* structure *)
  Hypothesis Hnd_cb : NoDup (iv :: cb).
  Hypothesis Hnd_res : NoDup (f_res f).
  Hypothesis Hlen : length (f_iters f) = length cb /\ length (f_iters f) = length (f_yield f)
                    /\ length (f_iters f) = length (f_res f).
  Hypothesis S3 : forall v, live R_ v -> ~ In v (iv :: cb) -> live (H_ :: R_) v.
  Hypothesis S4 : forall v, In v (f_lb f :: f_iters f) -> live (H_ :: R_) v.
  Hypothesis S5 : forall v, live R_ v -> ~ In v (iv :: cb) -> live (Y_ :: post) v.
  Hypothesis S6 : forall v, In v (iv :: step_list f ++ f_yield f) -> live (Y_ :: post) v.
  Hypothesis S7 : forall v, live post v -> ~ In v (f_res f) -> live R_ v /\ ~ In v (iv :: cb).
  Hypothesis S8 : forall v, In v (zero_consts (done ++ f_body f)) -> ~ In v (iv :: cb).
  Hypothesis S9 : live R_ iv.

  Definition stepval (env : value -> data) : data := match f_step f with Some s => env s | None => dzero end.
  Definition stepvalR (rf : Z -> data) : data := match f_step f with Some s => rd rf s | None => dzero end.
  (* SSA semantics of riscv_scf.for with trip count n *)
  Definition ssa_H (env : value -> data) := write_env data (upd env iv (env (f_lb f))) cb (map env (f_iters f)).
  Definition ssa_back (env : value -> data) :=
    write_env data (upd env iv (ivnext (env iv) (stepval env))) cb (map env (f_yield f)).
  Definition ssa_iter (env : value -> data) := ssa_back (exec_ssa data dzero fop (length done) (f_body f) env).
  Definition ssa_loop (n : nat) (env : value -> data) :=
    let e := iter_n n ssa_iter (ssa_H env) in write_env data e (f_res f) (map e cb).
  (* the lowered loop on the register machine: mv iv <- lb ; (body ; iv <- next)^n ; results stay in place *)
  Definition regs_H (rf : Z -> data) := updZ rf (asg iv) (rd rf (f_lb f)).
  Definition regs_back (rf : Z -> data) := updZ rf (asg iv) (ivnext (rd rf iv) (stepvalR rf)).
  Definition regs_iter (rf : Z -> data) := regs_back (exec_regs data dzero fop zr asg (length done) (f_body f) rf).
  Definition regs_loop (n : nat) (rf : Z -> data) := iter_n n regs_iter (regs_H rf).

  Definition Top (env : value -> data) (rf : Z -> data) : Prop :=
    (forall v, live R_ v -> rd rf v = env v) /\ (forall b, In b cb -> rd rf b = env b)
    /\ (forall v, In v (zero_consts done) -> env v = dzero).

  Lemma rd_upd_iv : forall rf x, rd (updZ rf (asg iv) x) iv = x.
  Proof. intros rf x. unfold read_reg. rewrite Hivz. unfold updZ. rewrite Z.eqb_refl. reflexivity. Qed.
  Lemma rd_upd_other : forall rf x v, asg v <> asg iv -> rd (updZ rf (asg iv) x) v = rd rf v.
  Proof.
    intros rf x v Hne. unfold read_reg. destruct (is_zero_reg zr (asg v)); [reflexivity|].
    unfold updZ. destruct (asg v =? asg iv) eqn:E; [apply Z.eqb_eq in E; contradiction | reflexivity].
  Qed.
  Lemma rd_same_reg : forall rf u w, asg u = asg w -> rd rf u = rd rf w.
  Proof. intros rf u w E. unfold read_reg. rewrite E. reflexivity. Qed.

  Lemma V_split_H' : V = pre ++ H_ :: R_.
  Proof. reflexivity. Qed.

  Lemma iv_def_H : In iv (defs H_).
  Proof. unfold defs, sop_results, Hop. simpl. rewrite Hb. simpl. left. reflexivity. Qed.

  Lemma iv_other : forall v, live R_ v -> v <> iv -> asg v <> asg iv.
  Proof.
    intros v Hv Hne Heq.
    pose proof (HdefV pre H_ R_ V_split_H' iv v iv_def_H Hv (fun Hc => Hne (eq_sym Hc)) (eq_sym Heq)) as Hz.
    rewrite Hivz in Hz. discriminate.
  Qed.

  Lemma cb_pair_iters : forall b, In b cb -> exists it, In (b, it) (combine cb (f_iters f)).
  Proof. intros b Hbin. apply in_combine_l_ex; [exact Hbin | destruct Hlen as [L _]; lia]. Qed.
  Lemma cb_pair_yield : forall b, In b cb -> exists y, In (b, y) (combine cb (f_yield f)).
  Proof. intros b Hbin. apply in_combine_l_ex; [exact Hbin | destruct Hlen as [L1 [L2 _]]; lia]. Qed.

  Lemma iv_notin_cb : ~ In iv cb.
  Proof. inversion Hnd_cb; assumption. Qed.
  Lemma nodup_cb : NoDup cb.
  Proof. inversion Hnd_cb; assumption. Qed.

  (* entering the loop *)
  Lemma entry_top : forall env rf,
    (forall v, live (H_ :: R_) v -> rd rf v = env v) ->
    (forall v, In v (zero_consts done) -> env v = dzero) ->
    Top (ssa_H env) (regs_H rf).
  Proof.
    intros env rf Hag Hzc. unfold Top, ssa_H, regs_H.
    assert (Hcb : forall b, In b cb -> rd (updZ rf (asg iv) (rd rf (f_lb f))) b
                    = write_env data (upd env iv (env (f_lb f))) cb (map env (f_iters f)) b).
    { intros b Hbin. destruct (cb_pair_iters b Hbin) as [it Hp].
      rewrite (write_env_map data env cb (f_iters f) _ b it nodup_cb Hp).
      rewrite rd_upd_other by exact (Hivg b Hbin).
      rewrite <- (rd_same_reg rf it b (Hg1 it b Hp)).
      apply Hag. apply S4. right. exact (in_combine_r _ _ _ _ Hp). }
    split; [|split; [exact Hcb|]].
    - intros v Hv. destruct (Nat.eq_dec v iv) as [E|E].
      + subst v. rewrite rd_upd_iv. rewrite write_env_notin' by exact iv_notin_cb. unfold upd. rewrite Nat.eqb_refl.
        apply Hag. apply S4. left. reflexivity.
      + destruct (in_dec Nat.eq_dec v cb) as [Hc|Hc]; [exact (Hcb v Hc)|].
        rewrite rd_upd_other by exact (iv_other v Hv E). rewrite write_env_notin' by exact Hc.
        unfold upd. destruct (Nat.eqb v iv) eqn:Ev; [apply Nat.eqb_eq in Ev; contradiction|].
        apply Hag. apply S3; [exact Hv | intros [Hx|Hx]; [exact (E (eq_sym Hx)) | exact (Hc Hx)]].
    - intros v Hv. pose proof (S8 v (zero_consts_mono done (f_body f) v Hv)) as Hn.
      rewrite write_env_notin' by (intro Hc; apply Hn; right; exact Hc).
      unfold upd. destruct (Nat.eqb v iv) eqn:Ev; [apply Nat.eqb_eq in Ev; exfalso; apply Hn; left; symmetry; exact Ev|].
      exact (Hzc v Hv).
  Qed.

  (* the back edge *)
  Lemma back_top : forall env rf,
    (forall v, live (Y_ :: post) v -> rd rf v = env v) ->
    (forall v, In v (zero_consts (done ++ f_body f)) -> env v = dzero) ->
    Top (ssa_back env) (regs_back rf).
  Proof.
    intros env rf Hag Hzc. unfold Top, ssa_back, regs_back.
    assert (Hiv_ag : rd rf iv = env iv) by (apply Hag; apply S6; left; reflexivity).
    assert (Hstep : stepvalR rf = stepval env).
    { unfold stepvalR, stepval. pose proof S6 as S6'. unfold step_list in S6'.
      destruct (f_step f) as [s0|]; [|reflexivity].
      apply Hag. apply S6'. right. simpl. left. reflexivity. }
    assert (Hcb : forall b, In b cb -> rd (updZ rf (asg iv) (ivnext (rd rf iv) (stepvalR rf))) b
                    = write_env data (upd env iv (ivnext (env iv) (stepval env))) cb (map env (f_yield f)) b).
    { intros b Hbin. destruct (cb_pair_yield b Hbin) as [y Hp].
      rewrite (write_env_map data env cb (f_yield f) _ b y nodup_cb Hp).
      rewrite rd_upd_other by exact (Hivg b Hbin).
      rewrite (rd_same_reg rf b y (Hg2 b y Hp)).
      apply Hag. apply S6. right. apply in_or_app. right. exact (in_combine_r _ _ _ _ Hp). }
    split; [|split; [exact Hcb|]].
    - intros v Hv. destruct (Nat.eq_dec v iv) as [E|E].
      + subst v. rewrite rd_upd_iv. rewrite write_env_notin' by exact iv_notin_cb. unfold upd. rewrite Nat.eqb_refl.
        rewrite Hiv_ag, Hstep. reflexivity.
      + destruct (in_dec Nat.eq_dec v cb) as [Hc|Hc]; [exact (Hcb v Hc)|].
        rewrite rd_upd_other by exact (iv_other v Hv E). rewrite write_env_notin' by exact Hc.
        unfold upd. destruct (Nat.eqb v iv) eqn:Ev; [apply Nat.eqb_eq in Ev; contradiction|].
        apply Hag. apply S5; [exact Hv | intros [Hx|Hx]; [exact (E (eq_sym Hx)) | exact (Hc Hx)]].
    - intros v Hv. pose proof (zero_consts_mono done (f_body f) v Hv) as Hv'. pose proof (S8 v Hv') as Hn.
      rewrite write_env_notin' by (intro Hc; apply Hn; right; exact Hc).
      unfold upd. destruct (Nat.eqb v iv) eqn:Ev; [apply Nat.eqb_eq in Ev; exfalso; apply Hn; left; symmetry; exact Ev|].
      exact (Hzc v Hv').
  Qed.

  Lemma iter_top : forall env rf, Top env rf -> Top (ssa_iter env) (regs_iter rf).
  Proof.
    intros env rf [T1 [_ T3]]. unfold ssa_iter, regs_iter.
    assert (Hl : V = done ++ f_body f ++ Y_ :: post). { unfold virt. rewrite <- app_assoc. reflexivity. }
    destruct (inv_run data dzero fop zr asg V Hwf HdefV HzeroV (f_body f) done (Y_ :: post) env rf Hl (conj T1 T3)) as [R1 R2].
    exact (back_top _ _ R1 R2).
  Qed.

  (* C19_semantics for the loop, any trip count n: if the two states agree on everything live before the
     loop, then after  header ; (body ; back edge)^n ; exit  they agree on everything live after the loop
     (the loop results included) *)
  Theorem loop_semantics : forall n env rf,
    (forall v, live (H_ :: R_) v -> rd rf v = env v) ->
    (forall v, In v (zero_consts done) -> env v = dzero) ->
    forall v, live post v -> rd (regs_loop n rf) v = ssa_loop n env v.
  Proof.
    intros n env rf Hag Hzc.
    assert (HT : Top (iter_n n ssa_iter (ssa_H env)) (iter_n n regs_iter (regs_H rf))).
    { induction n as [|k IH]; simpl; [exact (entry_top env rf Hag Hzc) | exact (iter_top _ _ IH)]. }
    destruct HT as [T1 [T2 _]]. intros v Hv. unfold regs_loop, ssa_loop.
    destruct (in_dec Nat.eq_dec v (f_res f)) as [Hr|Hr].
    - destruct (in_combine_l_ex (f_res f) cb v Hr) as [b Hp]; [destruct Hlen as [L1 [L2 L3]]; lia|].
      rewrite (write_env_map data _ (f_res f) cb _ v b Hnd_res Hp).
      rewrite (rd_same_reg _ v b (Hg3 v b Hp)). apply T2. exact (in_combine_r _ _ _ _ Hp).
    - rewrite write_env_notin' by exact Hr. apply T1. exact (proj1 (S7 v Hv Hr)).
  Qed.
End LoopRun.

(* ---- discharging the structural hypotheses for the assignment computed by allocate_func ---- *)
Lemma zip4_pair_ab : forall a b c d x y, In (x, y) (combine a b) ->
  (length a <= length c)%nat -> (length a <= length d)%nat -> exists g, In g (zip4 a b c d) /\ In x g /\ In y g.
Proof.
  induction a as [|xa a IH]; intros b c d x y H Lc Ld; [destruct H|].
  destruct b as [|xb b]; [destruct H|]. destruct c as [|xc c]; [simpl in Lc; lia|]. destruct d as [|xd d]; [simpl in Ld; lia|].
  simpl in *. destruct H as [H|H].
  - inversion H; subst. exists [x; y; xc; xd]. split; [left; reflexivity | simpl; tauto].
  - destruct (IH b c d x y H) as [g [Hg Hxy]]; try lia. exists g. split; [right; exact Hg | exact Hxy].
Qed.
Lemma zip4_pair_ac : forall a b c d x z, In (x, z) (combine a c) ->
  (length a <= length b)%nat -> (length a <= length d)%nat -> exists g, In g (zip4 a b c d) /\ In x g /\ In z g.
Proof.
  induction a as [|xa a IH]; intros b c d x z H Lb Ld; [destruct H|].
  destruct c as [|xc c]; [destruct H|]. destruct b as [|xb b]; [simpl in Lb; lia|]. destruct d as [|xd d]; [simpl in Ld; lia|].
  simpl in *. destruct H as [H|H].
  - inversion H; subst. exists [x; xb; z; xd]. split; [left; reflexivity | simpl; tauto].
  - destruct (IH b c d x z H) as [g [Hg Hxy]]; try lia. exists g. split; [right; exact Hg | exact Hxy].
Qed.
Lemma zip4_pair_da : forall d a b c w x, In (w, x) (combine d a) ->
  (length d <= length b)%nat -> (length d <= length c)%nat -> exists g, In g (zip4 a b c d) /\ In w g /\ In x g.
Proof.
  induction d as [|xd d IH]; intros a b c w x H Lb Lc; [destruct H|].
  destruct a as [|xa a]; [destruct H|]. destruct b as [|xb b]; [simpl in Lb; lia|]. destruct c as [|xc c]; [simpl in Lc; lia|].
  simpl in *. destruct H as [H|H].
  - inversion H; subst. exists [x; xb; xc; w]. split; [left; reflexivity | simpl; tauto].
  - destruct (IH a b c w x H) as [g [Hg Hxy]]; try lia. exists g. split; [right; exact Hg | exact Hxy].
Qed.
Lemma map_snd_combine : forall (a b : list value), (length b <= length a)%nat -> map snd (combine a b) = b.
Proof.
  induction a as [|x a IH]; intros b L; destruct b as [|y b]; simpl in *; try reflexivity; try lia.
  rewrite IH by lia. reflexivity.
Qed.
Lemma map_fst_combine : forall (a b : list value), (length a <= length b)%nat -> map fst (combine a b) = a.
Proof.
  induction a as [|x a IH]; intros b L; destruct b as [|y b]; simpl in *; try reflexivity; try lia.
  rewrite IH by lia. reflexivity.
Qed.

Theorem func_loop_semantics : forall zr pool allow types pre f post iv cb af,
  let fn := mkFunc types (map Simple pre ++ For f :: map Simple post) in
  let c := mk_cfg zr fn in
  (zr = true -> ~ In 0 pool) -> (forall r, In r pool -> 0 <= r) -> (forall v, ty0 fn v = None) ->
  f_bargs f = iv :: cb ->
  wf_prog (virt pre f post) -> io_ok (virt pre f post) ->
  (forall o x y, In o (virt pre f post) -> In (x, y) (s_io o) -> ~ In y (zconsts c)) ->
  length (f_iters f) = length cb /\ length (f_iters f) = length (f_yield f) /\ length (f_iters f) = length (f_res f) ->
  NoDup (concat (groups f)) ->
  (forall v, In v (iv :: cb) \/ defined_in (f_body f) v -> ~ used_in post v) ->
  ~ In iv (concat (groups f)) ->
  (forall v, In v (live_ins_body f) -> ~ In v (concat (groups f)) /\ v <> iv) ->
  (forall v, In v (f_lb f :: f_ub f :: step_list f) -> ~ In v (concat (groups f)) /\ v <> iv) ->
  (forall p s, virt pre f post = p ++ s -> forall v1 v2, live s v1 -> live s v2 -> v1 <> v2 ->
     tconn pre f post v1 v2 -> False) ->
  (forall p o s, virt pre f post = p ++ o :: s -> forall d v, In d (defs o) -> live s v -> d <> v ->
     tconn pre f post d v -> False) ->
  allocate_func zr pool allow fn = Ok af ->
  forall (data : Type) (dzero : data) (fop : nat -> nat -> list data -> data) (ivnext : data -> data -> data)
         (n : nat) (env : value -> data) (rf : Z -> data),
    (forall v, live (Hop f :: f_body f ++ Yop f :: post) v -> read_reg data dzero zr (asg_of af) rf v = env v) ->
    (forall v, In v (zero_consts (pre ++ [Hop f])) -> env v = dzero) ->
    forall v, live post v ->
      read_reg data dzero zr (asg_of af) (regs_loop data dzero fop ivnext zr (asg_of af) pre f iv n rf) v
      = ssa_loop data dzero fop ivnext pre f iv cb n env v.
Proof.
  intros zr pool allow types pre f post iv cb af fn c Hz Hpool Hnone Hb Hwf Hio Hnz Hlen Hgs Hscope Hiv Hli Hbnd Htie Htied Hrun
         data dzero fop ivnext n env rf Hag Hzc.
  destruct (init_sok00 zr pool allow fn Hz Hpool Hnone) as [Hsok Hty].
  unfold allocate_func in Hrun. simpl in Hrun.
  pose proof (loop_no_interference c pre post f iv cb Hb Hwf Hio Hnz Hlen Hgs Hscope Hiv Hli Hbnd Htie _ af Hsok Hty Hrun) as Hni.
  pose proof (loop_def_all c pre post f iv cb Hb Hwf Hio Hnz Hlen Hgs Hscope Hiv Hli Hbnd Htie Htied _ af Hsok Hty Hrun) as Hda.
  destruct (loop_defs_allocated c pre post f iv cb Hb Hwf Hio Hnz Hlen Hgs Hscope Hiv Hli Hbnd Htie _ af Hsok Hty Hrun) as [Hdal Hzty].
  destruct (loop_reg_facts c pre post f iv cb Hb Hwf Hio Hnz Hlen Hgs Hscope Hiv Hli Hbnd Htie _ af Hsok Hty Hrun)
    as [HGT [riv [Hrivf HIVF]]].
  destruct Hlen as [L1 [L2 L3]].
  assert (Hlen' : length (f_iters f) = length cb /\ length (f_iters f) = length (f_yield f) /\ length (f_iters f) = length (f_res f))
    by (repeat split; assumption).
  pose proof (FH c pre post f Hwf Hio Hnz FR00 (FR00_tie pre post f)) as FHf.
  pose proof (FY c pre post f Hwf Hio Hnz FR00 (FR00_tie pre post f)) as FYf.
  assert (HdefsH : forall d, In d (defs (Hop f)) <-> d = iv \/ In d cb) by exact (defs_H f iv cb Hb Hlen').
  assert (HdefsY : forall d, In d (defs (Yop f)) <-> In d (f_res f)).
  { intros d. unfold defs, sop_results, Yop. simpl. rewrite map_snd_combine by lia. tauto. }
  assert (HdefV : forall p o s, virt pre f post = p ++ o :: s -> forall d v, In d (defs o) -> live s v -> d <> v ->
            asg_of af d = asg_of af v -> is_zero_reg zr (asg_of af d) = true).
  { intros p o s Hl d v Hd Hv Hne Heq. unfold asg_of in *.
    destruct (Hdal p o s Hl d Hd) as [r1 Hr1].
    assert (Hl' : virt pre f post = (p ++ [o]) ++ s) by (rewrite <- app_assoc; exact Hl).
    destruct (proj1 (Hni (p ++ [o]) s Hl') v Hv) as [r2 Hr2].
    rewrite Hr1, Hr2 in Heq. subst r2. rewrite Hr1.
    destruct (Hda p o s Hl d v r1 Hd Hv Hne Hr1 Hr2) as [Hzr Hr0]. subst r1.
    unfold is_zero_reg. unfold c, mk_cfg in Hzr. simpl in Hzr. rewrite Hzr. reflexivity. }
  assert (HzeroV : forall v, is_zero_reg zr (asg_of af v) = true -> In v (zero_consts (virt pre f post))).
  { intros v Hzv. unfold asg_of, is_zero_reg in Hzv. apply andb_true_iff in Hzv. destruct Hzv as [Hzr Hr].
    destruct (ty af v) as [r|] eqn:Er; [|discriminate]. apply Z.eqb_eq in Hr. subst r.
    rewrite zero_consts_virt. rewrite <- all_sops_loop. apply (Hzty v); [exact Hzr | exact Er]. }
  assert (Hgrp_eq : forall g u w, In g (groups f) -> In u g -> In w g -> asg_of af u = asg_of af w).
  { intros g u w Hg Hu Hw. destruct (HGT g Hg) as [R HR]. unfold asg_of. rewrite (HR u Hu), (HR w Hw). reflexivity. }
  assert (HinV_H : In (Hop f) (virt pre f post)) by (unfold virt; apply in_or_app; right; left; reflexivity).
  (* zero constants are not defined by the loop header *)
  assert (Hzc_notH : forall v, In v (zero_consts (virt pre f post)) -> ~ In v (iv :: cb)).
  { intros v Hv Hc. destruct (zero_consts_kind _ v Hv) as [o [Ho [Hk [t Hout]]]].
    assert (Heq : o = Hop f).
    { apply (nodup_defs_inj (virt pre f post) o (Hop f) v (wf_nodup _ Hwf) Ho HinV_H).
      - unfold defs, sop_results. apply in_or_app. left. rewrite Hout. left. reflexivity.
      - apply HdefsH. destruct Hc as [Hc|Hc]; [left; symmetry; exact Hc | right; exact Hc]. }
    subst o. apply Hk. reflexivity. }
  assert (HlivR_iv : live (f_body f ++ Yop f :: post) iv).
  { split.
    - apply used_in_app. right. apply used_in_cons. left. unfold uses, sop_operands, Yop. simpl. rewrite Hb. simpl. left. reflexivity.
    - apply (of_def c _ (Hop f) _ FHf iv). apply HdefsH. left. reflexivity. }
  apply (loop_semantics data dzero fop ivnext zr (asg_of af) pre post f iv cb Hb Hwf HdefV HzeroV).
  - (* Hg1 *) intros it b Hp. symmetry.
    unfold groups in Hgrp_eq. rewrite Hb in Hgrp_eq. simpl in Hgrp_eq.
    destruct (zip4_pair_ab cb (f_iters f) (f_yield f) (f_res f) b it Hp) as [g [Hg [Hg1 Hg2]]]; try lia.
    exact (Hgrp_eq g b it Hg Hg1 Hg2).
  - (* Hg2 *) intros b y Hp.
    unfold groups in Hgrp_eq. rewrite Hb in Hgrp_eq. simpl in Hgrp_eq.
    destruct (zip4_pair_ac cb (f_iters f) (f_yield f) (f_res f) b y Hp) as [g [Hg [Hg1 Hg2]]]; try lia.
    exact (Hgrp_eq g b y Hg Hg1 Hg2).
  - (* Hg3 *) intros r_ b Hp.
    unfold groups in Hgrp_eq. rewrite Hb in Hgrp_eq. simpl in Hgrp_eq.
    destruct (zip4_pair_da (f_res f) cb (f_iters f) (f_yield f) r_ b Hp) as [g [Hg [Hg1 Hg2]]]; try lia.
    exact (Hgrp_eq g r_ b Hg Hg1 Hg2).
  - (* Hivg *) intros b Hbin Heq. unfold asg_of in Heq. rewrite Hrivf in Heq.
    pose proof (cb_in_gv f iv cb Hb Hlen' b Hbin) as Hbg.
    apply in_concat in Hbg. destruct Hbg as [g [Hg Hbg']]. destruct (HGT g Hg) as [R HR].
    rewrite (HR b Hbg') in Heq. subst R.
    exact (HIVF b riv (concat_in _ g b Hg Hbg') (HR b Hbg') eq_refl).
  - (* Hivz *) unfold asg_of, is_zero_reg. rewrite Hrivf. destruct zr eqn:Ez; [|reflexivity]. simpl.
    destruct (riv =? 0) eqn:E0; [|reflexivity]. exfalso. apply Z.eqb_eq in E0. subst riv.
    apply (Hzc_notH iv); [|left; reflexivity]. rewrite zero_consts_virt. rewrite <- all_sops_loop.
    apply (Hzty iv); [reflexivity | exact Hrivf].
  - (* NoDup (iv :: cb) *)
    pose proof (of_nodup_defs c _ (Hop f) _ FHf) as Hnd. unfold defs, sop_results, Hop in Hnd. simpl in Hnd.
    rewrite Hb in Hnd. simpl in Hnd. rewrite map_snd_combine in Hnd by lia. exact Hnd.
  - (* NoDup res *)
    pose proof (of_nodup_defs c _ (Yop f) _ FYf) as Hnd. unfold defs, sop_results, Yop in Hnd. simpl in Hnd.
    rewrite map_snd_combine in Hnd by lia. exact Hnd.
  - exact Hlen'.
  - (* S3 *) intros v [Hu Hnd] Hn. split; [apply used_in_cons; right; exact Hu|]. intro Hc. apply defined_in_cons in Hc.
    destruct Hc as [Hc|Hc]; [|exact (Hnd Hc)]. apply HdefsH in Hc. apply Hn. destruct Hc as [Hc|Hc]; [left; symmetry; exact Hc | right; exact Hc].
  - (* S4 *) intros v Hvin.
    assert (HuH : In v (uses (Hop f))).
    { unfold uses, sop_operands, Hop. simpl. destruct Hvin as [Hvin|Hvin]; [left; exact Hvin|].
      right. right. apply in_or_app. right. rewrite Hb. simpl. rewrite map_fst_combine by lia. exact Hvin. }
    destruct (of_use c _ (Hop f) _ FHf v HuH) as [N1 N2].
    split; [apply used_in_cons; left; exact HuH|]. intro Hc. apply defined_in_cons in Hc. destruct Hc as [Hc|Hc]; [exact (N1 Hc) | exact (N2 Hc)].
  - (* S5 *) intros v [Hu Hnd] Hn.
    assert (Hndb : ~ defined_in (f_body f) v) by (intro Hc; apply Hnd; apply defined_in_app; left; exact Hc).
    assert (HndY : ~ defined_in (Yop f :: post) v) by (intro Hc; apply Hnd; apply defined_in_app; right; exact Hc).
    split; [|exact HndY]. apply used_in_app in Hu. destruct Hu as [Hu|Hu]; [|exact Hu].
    apply used_in_cons. left. unfold uses, sop_operands, Yop. simpl. apply in_or_app. left. apply in_or_app. right.
    apply in_or_app. left. apply live_ins_complete; [left; exact Hu | exact Hndb | rewrite Hb; exact Hn].
  - (* S6 *) intros v Hvin.
    assert (HuY : In v (uses (Yop f))).
    { unfold uses, sop_operands, Yop. simpl. rewrite Hb. simpl. destruct Hvin as [Hvin|Hvin]; [left; exact Hvin|].
      right. apply in_app_or in Hvin. destruct Hvin as [Hvin|Hvin].
      - apply in_or_app. left. apply in_or_app. right. right. exact Hvin.
      - apply in_or_app. right. rewrite map_fst_combine by lia. exact Hvin. }
    destruct (of_use c _ (Yop f) _ FYf v HuY) as [N1 N2].
    split; [apply used_in_cons; left; exact HuY|]. intro Hc. apply defined_in_cons in Hc. destruct Hc as [Hc|Hc]; [exact (N1 Hc) | exact (N2 Hc)].
  - (* S7 *) intros v [Hu Hnd] Hnr. split.
    + split; [apply used_in_app; right; apply used_in_cons; right; exact Hu|].
      intro Hc. apply defined_in_app in Hc. destruct Hc as [Hc|Hc].
      * exact (Hscope v (or_intror Hc) Hu).
      * apply defined_in_cons in Hc. destruct Hc as [Hc|Hc]; [apply Hnr; apply HdefsY; exact Hc | exact (Hnd Hc)].
    + intro Hc. exact (Hscope v (or_introl Hc) Hu).
  - (* S8 *) intros v Hv. apply Hzc_notH.
    replace (virt pre f post) with (((pre ++ [Hop f]) ++ f_body f) ++ Yop f :: post)
      by (unfold virt; repeat rewrite <- app_assoc; simpl; reflexivity).
    apply zero_consts_mono. exact Hv.
  - exact Hag.
  - exact Hzc.
Qed.
