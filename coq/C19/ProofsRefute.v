(* C19/ProofsRefute.v -- concrete witnesses: the allocator as it was BEFORE the repairs d11e3b9 /
   26a8b63 (`allocate_func_old`) put two live values into one register on inputs that satisfy every
   hypothesis of the theorems; the repaired model separates them.  The witness programs are the
   (now fixed) known-finding witnesses that the harness replays on the real allocator. *)
From Coq Require Import ZArith List Bool Arith Lia.
From XV Require Import C19.Model C19.ProofsSpec C19.ProofsStack C19.ProofsStep.
Import ListNotations.
Local Open Scope Z_scope.

(* ---- checking the hypotheses on a concrete block ---- *)

Fixpoint splitsP (P : list sop -> sop -> list sop -> Prop) (pre l : list sop) : Prop :=
  match l with [] => True | o :: s => P pre o s /\ splitsP P (pre ++ [o]) s end.

Lemma splitsP_all : forall P l pre, splitsP P pre l ->
  forall p o s, l = p ++ o :: s -> P (pre ++ p) o s.
Proof.
  intros P l. induction l as [|o' t IH]; intros pre H p o s Hl.
  - destruct p; discriminate.
  - destruct H as [H1 H2]. destruct p as [|o'' p']; simpl in Hl; inversion Hl; subst.
    + rewrite app_nil_r. exact H1.
    + replace (pre ++ o'' :: p') with ((pre ++ [o'']) ++ p') by (rewrite <- app_assoc; reflexivity).
      apply IH; [exact H2 | reflexivity].
Qed.

Lemma io_ok_no_ties : forall l, (forall o, In o l -> s_io o = []) -> io_ok l.
Proof.
  intros l H p o s Hl. assert (Ho : In o l). { rewrite Hl. apply in_or_app. right. left. reflexivity. }
  rewrite (H o Ho). simpl. split; [constructor | intros x []].
Qed.

Lemma forced_no_ties : forall t0 l v r, (forall o, In o l -> s_io o = []) -> forced t0 l v r -> t0 v = Some r.
Proof.
  intros t0 l v r H Hf. induction Hf as [v r Hp | a b r [o [Ho Hin]] _ _ | a b r [o [Ho Hin]] _ _].
  - exact Hp.
  - rewrite (H o Ho) in Hin. destruct Hin.
  - rewrite (H o Ho) in Hin. destruct Hin.
Qed.

Lemma forced_ok_single : forall t0 l, (forall o, In o l -> s_io o = []) ->
  (forall v w r, t0 v = Some r -> t0 w = Some r -> v = w) -> forced_ok t0 l.
Proof.
  intros t0 l H Hs. split.
  - intros p s _ v1 v2 r _ _ Hne F1 F2. apply Hne.
    exact (Hs v1 v2 r (forced_no_ties t0 l v1 r H F1) (forced_no_ties t0 l v2 r H F2)).
  - intros p o s _ d v r _ _ Hne F1 F2. apply Hne.
    exact (Hs d v r (forced_no_ties t0 l d r H F1) (forced_no_ties t0 l v r H F2)).
Qed.

Ltac in_cases H := simpl in H; repeat (destruct H as [H|H]; [subst|]); try contradiction.

Ltac no_def :=
  let o := fresh "o" in let Ho := fresh "Ho" in let Hd := fresh "Hd" in
  intros [o [Ho Hd]]; in_cases Ho; simpl in Hd; intuition (try discriminate; try lia).

Ltac wf_use_tac :=
  let p := fresh "p" in let o := fresh "o" in let s := fresh "s" in let Hl := fresh "Hl" in
  let w := fresh "w" in let Hw := fresh "Hw" in
  intros p o s Hl;
  refine (splitsP_all (fun _ o' s' => forall w', In w' (uses o') -> ~ defined_in (o' :: s') w') _ [] _ p o s Hl);
  simpl; repeat split;
  intros w Hw; unfold uses, sop_operands in Hw; simpl in Hw;
  repeat (destruct Hw as [Hw|Hw]; [subst|]); try contradiction; no_def.

(* ---- C19-kf-1: a value pre-assigned an infinite register (j_0), force_infinite ---- *)
(*   %0 = li 1 : !riscv.reg<j_0> ; %1 = li 2 : !riscv.reg ; %2 = add %0, %1 ; return %2          *)
Definition kf1_ops : list sop :=
  [ mkSop [] [0%nat] [] KOther true; mkSop [] [1%nat] [] KOther true;
    mkSop [0%nat; 1%nat] [2%nat] [] KOther true; mkSop [2%nat] [] [] KOther true ].
Definition kf1_pre : list (option Z) := [Some (-1); None; None].
Definition kf1_fn : func := mkFunc kf1_pre (map Simple kf1_ops).

Lemma kf1_no_ties : forall o, In o kf1_ops -> s_io o = [].
Proof. intros o H. in_cases H; reflexivity. Qed.

Lemma kf1_wf : wf_prog kf1_ops.
Proof.
  constructor.
  - simpl. repeat constructor; simpl; intuition discriminate.
  - wf_use_tac.
  - intros o H Hk. in_cases H; simpl in Hk; congruence.
Qed.

Lemma kf1_forced : forced_ok (ty0 kf1_fn) kf1_ops.
Proof.
  apply forced_ok_single; [exact kf1_no_ties|].
  assert (Honly : forall v r, ty0 kf1_fn v = Some r -> v = 0%nat).
  { intros v r H. unfold ty0 in H. simpl in H.
    destruct v as [|[|[|v]]]; simpl in H; try discriminate; [reflexivity | destruct v; discriminate]. }
  intros v w r Hv Hw. rewrite (Honly v r Hv), (Honly w r Hw). reflexivity.
Qed.

Lemma kf1_run : match allocate_func_old true [] true kf1_pre kf1_ops with
                | Ok af => ty af 0%nat = Some (-1) /\ ty af 1%nat = Some (-1)
                | Err _ => False end.
Proof. vm_compute. split; reflexivity. Qed.
Lemma kf1_run_new : match allocate_func true [] true kf1_fn with
                    | Ok af => ty af 0%nat = Some (-1) /\ ty af 1%nat = Some (-2)
                    | Err _ => False end.
Proof. vm_compute. split; reflexivity. Qed.

Lemma kf1_input : input_ok true [] kf1_fn.
Proof.
  split.
  - intros _. split; [intros []|]. intros v Hv. unfold ty0 in Hv. simpl in Hv.
    destruct v as [|[|[|v]]]; simpl in Hv; try discriminate. destruct v; discriminate.
  - intros q [].
Qed.

Theorem infinite_preassigned_old_refuted :
  exists zr pool allow pre sl af p s v1 v2 r,
    let fn := mkFunc pre (map Simple sl) in
    input_ok zr pool fn /\ wf_prog sl /\ io_ok sl /\ forced_ok (ty0 fn) sl
    /\ allocate_func_old zr pool allow pre sl = Ok af
    /\ sl = p ++ s /\ live s v1 /\ live s v2 /\ v1 <> v2
    /\ ty af v1 = Some r /\ ty af v2 = Some r /\ r <> 0
    /\ match allocate_func zr pool allow fn with          (* the repaired allocator *)
       | Ok af' => ty af' v1 <> ty af' v2 | Err _ => False end.
Proof.
  pose proof kf1_run as Hrun. pose proof kf1_run_new as Hnew.
  destruct (allocate_func_old true [] true kf1_pre kf1_ops) as [af|e] eqn:E; [|contradiction].
  destruct Hrun as [H0 H1].
  exists true, [], true, kf1_pre, kf1_ops, af,
         [mkSop [] [0%nat] [] KOther true; mkSop [] [1%nat] [] KOther true],
         [mkSop [0%nat; 1%nat] [2%nat] [] KOther true; mkSop [2%nat] [] [] KOther true],
         0%nat, 1%nat, (-1).
  cbv zeta. split; [exact kf1_input|]. split; [exact kf1_wf|]. split; [exact (io_ok_no_ties _ kf1_no_ties)|].
  split; [exact kf1_forced|]. split; [exact E|]. split; [reflexivity|].
  split. { split; [exists (mkSop [0%nat; 1%nat] [2%nat] [] KOther true); split; [left; reflexivity | left; reflexivity] | no_def]. }
  split. { split; [exists (mkSop [0%nat; 1%nat] [2%nat] [] KOther true); split; [left; reflexivity | right; left; reflexivity] | no_def]. }
  split; [discriminate|]. split; [exact H0|]. split; [exact H1|]. split; [lia|].
  fold kf1_fn. destruct (allocate_func true [] true kf1_fn) as [af'|e']; [|contradiction].
  destruct Hnew as [N0 N1]. rewrite N0, N1. discriminate.
Qed.

(* ---- C19-kf-2: a pre-assigned allocatable register that allocate_func does not exclude ---- *)
(*   %0 = li 1 ; %1 = li 2 ; %2 = riscv.parallel_mov %1 : -> !riscv.reg<t0>   (no register effects)
     %3 = add %0, %0 ; return %3          pool = [t1; t0]                                        *)
Definition kf2_ops : list sop :=
  [ mkSop [] [0%nat] [] KOther true; mkSop [] [1%nat] [] KOther true;
    mkSop [1%nat] [2%nat] [] KOther false;
    mkSop [0%nat; 0%nat] [3%nat] [] KOther true; mkSop [3%nat] [] [] KOther true ].
Definition kf2_pre : list (option Z) := [None; None; Some 5; None].
Definition kf2_fn : func := mkFunc kf2_pre (map Simple kf2_ops).

Lemma kf2_no_ties : forall o, In o kf2_ops -> s_io o = [].
Proof. intros o H. in_cases H; reflexivity. Qed.

Lemma kf2_wf : wf_prog kf2_ops.
Proof.
  constructor.
  - simpl. repeat constructor; simpl; intuition discriminate.
  - wf_use_tac.
  - intros o H Hk. in_cases H; simpl in Hk; congruence.
Qed.

Lemma kf2_forced : forced_ok (ty0 kf2_fn) kf2_ops.
Proof.
  apply forced_ok_single; [exact kf2_no_ties|].
  assert (Honly : forall v r, ty0 kf2_fn v = Some r -> v = 2%nat).
  { intros v r H. unfold ty0 in H. simpl in H.
    destruct v as [|[|[|[|v]]]]; simpl in H; try discriminate; [reflexivity | destruct v; discriminate]. }
  intros v w r Hv Hw. rewrite (Honly v r Hv), (Honly w r Hw). reflexivity.
Qed.

Lemma kf2_run : match allocate_func_old true [6; 5] false kf2_pre kf2_ops with
                | Ok af => ty af 0%nat = Some 5 /\ ty af 1%nat = Some 5
                | Err _ => False end.
Proof. vm_compute. split; reflexivity. Qed.
Lemma kf2_run_new : allocate_func true [6; 5] false kf2_fn = Err OutOfRegisters.
Proof. vm_compute. reflexivity. Qed.

Lemma kf2_input : input_ok true [6; 5] kf2_fn.
Proof.
  split.
  - intros _. split; [simpl; intuition lia|]. intros v Hv. unfold ty0 in Hv. simpl in Hv.
    destruct v as [|[|[|[|v]]]]; simpl in Hv; try discriminate. destruct v; discriminate.
  - intros q Hq. simpl in Hq. intuition lia.
Qed.

Theorem unexcluded_preassigned_old_refuted :
  exists zr pool allow pre sl af p s v1 v2 r,
    let fn := mkFunc pre (map Simple sl) in
    input_ok zr pool fn /\ wf_prog sl /\ io_ok sl /\ forced_ok (ty0 fn) sl
    /\ allocate_func_old zr pool allow pre sl = Ok af
    /\ sl = p ++ s /\ live s v1 /\ live s v2 /\ v1 <> v2
    /\ ty af v1 = Some r /\ ty af v2 = Some r /\ r <> 0
    (* the repaired allocator: t0 is excluded, one register is not enough, explicit failure *)
    /\ allocate_func zr pool allow fn = Err OutOfRegisters.
Proof.
  pose proof kf2_run as Hrun.
  destruct (allocate_func_old true [6; 5] false kf2_pre kf2_ops) as [af|e] eqn:E; [|contradiction].
  destruct Hrun as [H0 H1].
  exists true, [6; 5], false, kf2_pre, kf2_ops, af,
         [mkSop [] [0%nat] [] KOther true; mkSop [] [1%nat] [] KOther true],
         [mkSop [1%nat] [2%nat] [] KOther false;
          mkSop [0%nat; 0%nat] [3%nat] [] KOther true; mkSop [3%nat] [] [] KOther true],
         0%nat, 1%nat, 5.
  cbv zeta. split; [exact kf2_input|]. split; [exact kf2_wf|]. split; [exact (io_ok_no_ties _ kf2_no_ties)|].
  split; [exact kf2_forced|]. split; [exact E|]. split; [reflexivity|].
  split. { split; [exists (mkSop [0%nat; 0%nat] [3%nat] [] KOther true); split; [right; left; reflexivity | left; reflexivity] | no_def]. }
  split. { split; [exists (mkSop [1%nat] [2%nat] [] KOther false); split; [left; reflexivity | left; reflexivity] | no_def]. }
  split; [discriminate|]. split; [exact H0|]. split; [exact H1|]. split; [lia | exact kf2_run_new].
Qed.

(* ---- the hypotheses of the theorems are satisfiable by a non-trivial program ---- *)
(*   %0 = li 0 ; %1 = li 5 : !riscv.reg<a0> ; %2 = add %0, %1 ; %3 = add %2, %2 ; return %3
     pool = [a0; t1; t0]: a0 is pre-assigned, mentioned by effect-carrying ops, hence excluded       *)
Definition ok_ops : list sop :=
  [ mkSop [] [0%nat] [] KZero true; mkSop [] [1%nat] [] KOther true;
    mkSop [0%nat; 1%nat] [2%nat] [] KOther true;
    mkSop [2%nat; 2%nat] [3%nat] [] KOther true; mkSop [3%nat] [] [] KOther true ].
Definition ok_pre : list (option Z) := [None; Some 10; None; None].
Definition ok_fn : func := mkFunc ok_pre (map Simple ok_ops).

Lemma ok_no_ties : forall o, In o ok_ops -> s_io o = [].
Proof. intros o H. in_cases H; reflexivity. Qed.

Lemma ok_wf : wf_prog ok_ops.
Proof.
  constructor.
  - simpl. repeat constructor; simpl; intuition discriminate.
  - wf_use_tac.
  - intros o H Hk. in_cases H; simpl in Hk; try congruence.
    split; [reflexivity | exists 0%nat; reflexivity].
Qed.

Lemma ok_only : forall v r, ty0 ok_fn v = Some r -> v = 1%nat /\ r = 10.
Proof.
  intros v r H. unfold ty0 in H. simpl in H.
  destruct v as [|[|[|[|v]]]]; simpl in H; try discriminate; [inversion H; split; reflexivity | destruct v; discriminate].
Qed.

Lemma ok_forced : forced_ok (ty0 ok_fn) ok_ops.
Proof.
  apply forced_ok_single; [exact ok_no_ties|].
  intros v w r Hv Hw. rewrite (proj1 (ok_only v r Hv)), (proj1 (ok_only w r Hw)). reflexivity.
Qed.

Lemma ok_input : input_ok true [10; 6; 5] ok_fn.
Proof.
  split.
  - intros _. split; [simpl; intuition lia|]. intros v H. destruct (ok_only v 0 H) as [_ Hr]. lia.
  - intros r H. simpl in H. intuition lia.
Qed.

Lemma ok_run : match allocate_func true [10; 6; 5] false ok_fn with
               | Ok af => ty af 0%nat = Some 0 /\ ty af 1%nat = Some 10 /\ ty af 2%nat = Some 5 /\ ty af 3%nat = Some 5
               | Err _ => False end.
Proof. vm_compute. repeat split; reflexivity. Qed.

Theorem hypotheses_satisfiable :
  exists zr pool allow pre sl af,
    let fn := mkFunc pre (map Simple sl) in
    input_ok zr pool fn /\ wf_prog sl /\ io_ok sl /\ forced_ok (ty0 fn) sl
    /\ allocate_func zr pool allow fn = Ok af
    /\ ty af 0%nat = Some 0            (* the constant 0 sits in `zero` *)
    /\ ty af 1%nat = Some 10           (* the pre-assigned a0 is kept *)
    /\ ty af 2%nat = ty af 3%nat /\ ty af 2%nat = Some 5.   (* t0 is reused by consecutive values *)
Proof.
  pose proof ok_run as Hrun.
  destruct (allocate_func true [10; 6; 5] false ok_fn) as [af|e] eqn:E; [|contradiction].
  destruct Hrun as [H0 [H1 [H2 H3]]].
  exists true, [10; 6; 5], false, ok_pre, ok_ops, af. simpl.
  split; [exact ok_input|]. split; [exact ok_wf|]. split; [exact (io_ok_no_ties _ ok_no_ties)|].
  split; [exact ok_forced|]. split; [exact E|]. split; [exact H0|]. split; [exact H1|].
  split; [rewrite H2, H3; reflexivity | exact H2].
Qed.
