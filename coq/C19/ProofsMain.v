(* C19/ProofsMain.v -- the backward walk over a whole straight-line block: the invariant holds at
   every program point; consequences for the final assignment. *)
From Coq Require Import ZArith List Bool Arith Lia.
From XV Require Import C19.Model C19.ProofsSpec C19.ProofsStack C19.ProofsAlloc C19.ProofsOp C19.ProofsStep.
Import ListNotations.
Local Open Scope Z_scope.

(* ---- generic facts ---- *)

Lemma fold_res_app : forall {A S} (f : A -> S -> res S) l1 l2 s,
  fold_res f (l1 ++ l2) s = bind (fold_res f l1 s) (fold_res f l2).
Proof.
  intros A S f l1. induction l1 as [|x t IH]; intros l2 s; simpl; [reflexivity|].
  destruct (f x s) as [s1|e]; simpl; [apply IH | reflexivity].
Qed.

Lemma allocate_sops_cons : forall c o s a,
  allocate_sops c (o :: s) a = bind (allocate_sops c s a) (allocate_sop c o).
Proof.
  intros c o s a. unfold allocate_sops. simpl. rewrite fold_res_app. simpl.
  destruct (fold_res (allocate_sop c) (rev s) a) as [a1|e]; simpl; [|reflexivity].
  destruct (allocate_sop c o a1); reflexivity.
Qed.

Lemma defined_in_flat : forall s v, defined_in s v <-> In v (flat_map defs s).
Proof.
  intros s v. unfold defined_in. rewrite in_flat_map. split; intros [o [H1 H2]]; exists o; split; assumption.
Qed.

Lemma flat_map_app' : forall (p s : list sop), flat_map defs (p ++ s) = flat_map defs p ++ flat_map defs s.
Proof. intros. apply flat_map_app. Qed.

Lemma zero_consts_gen : forall l acc v,
  In v (fold_left (fun zs o =>
    match s_kind o, s_outs o, s_ins o with
    | KZero, r :: _, _ => r :: zs
    | KMv, r :: _, x :: _ => if memN x zs then r :: zs else zs
    | _, _, _ => zs
    end) l acc) ->
  In v acc \/ exists o, In o l /\ s_kind o <> KOther /\ exists t, s_outs o = v :: t.
Proof.
  induction l as [|o t IH]; intros acc v H; simpl in H; [left; exact H|].
  apply IH in H. destruct H as [H|[o' [Hin [Hk Ho]]]].
  - destruct (s_kind o) eqn:Ek.
    + left. exact H.
    + destruct (s_outs o) as [|r rest] eqn:Eo; [left; exact H|].
      destruct H as [H|H]; [|left; exact H]. subst r.
      right. exists o. split; [left; reflexivity|]. split; [congruence|]. exists rest. exact Eo.
    + destruct (s_outs o) as [|r rest] eqn:Eo; [left; exact H|].
      destruct (s_ins o) as [|x xs]; [left; exact H|].
      destruct (memN x acc); [|left; exact H].
      destruct H as [H|H]; [|left; exact H]. subst r.
      right. exists o. split; [left; reflexivity|]. split; [congruence|]. exists rest. exact Eo.
  - right. exists o'. split; [right; exact Hin|]. split; [exact Hk | exact Ho].
Qed.

Lemma zero_consts_kind : forall l v, In v (zero_consts l) ->
  exists o, In o l /\ s_kind o <> KOther /\ exists t, s_outs o = v :: t.
Proof.
  intros l v H. unfold zero_consts in H. apply zero_consts_gen in H. destruct H as [[]|H]. exact H.
Qed.

Lemma nodup_defs_inj : forall l o1 o2 v, NoDup (flat_map defs l) ->
  In o1 l -> In o2 l -> In v (defs o1) -> In v (defs o2) -> o1 = o2.
Proof.
  induction l as [|o t IH]; intros o1 o2 v Hnd H1 H2 Hv1 Hv2; [destruct H1|].
  simpl in Hnd.
  assert (Hdis : forall x, In x (defs o) -> ~ In x (flat_map defs t)) by (apply NoDup_app_disjoint; exact Hnd).
  destruct H1 as [H1|H1]; destruct H2 as [H2|H2].
  - congruence.
  - subst o1. exfalso. apply (Hdis v Hv1). apply in_flat_map. exists o2. split; assumption.
  - subst o2. exfalso. apply (Hdis v Hv2). apply in_flat_map. exists o1. split; assumption.
  - apply (IH o1 o2 v); try assumption. apply NoDup_app_r in Hnd. exact Hnd.
Qed.

(* op_facts at every split of a well-formed block *)
Lemma facts_gen : forall c (FR : value -> Z -> Prop) l p o s,
  wf_prog l -> io_ok l ->
  (forall o' x y, In o' l -> In (x, y) (s_io o') -> ~ In y (zconsts c)) ->
  (forall o' x y, In o' l -> In (x, y) (s_io o') -> forall r, (FR x r -> FR y r) /\ (FR y r -> FR x r)) ->
  l = p ++ o :: s -> op_facts c FR o s.
Proof.
  intros c FR l p o s Hwf Hio Hnz Htie Hl.
  pose proof (wf_nodup l Hwf) as Hnd. rewrite Hl in Hnd. rewrite flat_map_app in Hnd. simpl in Hnd.
  pose proof (NoDup_app_r _ _ Hnd) as Hnd2.
  assert (Ho : In o l). { rewrite Hl. apply in_or_app. right. left. reflexivity. }
  constructor.
  - exact (NoDup_app_l _ _ Hnd2).
  - exact (proj1 (Hio p o s Hl)).
  - intros v Hv. pose proof (wf_use l Hwf p o s Hl v Hv) as Hn. split.
    + intro Hc. apply Hn. apply defined_in_cons. left. exact Hc.
    + intro Hc. apply Hn. apply defined_in_cons. right. exact Hc.
  - intros d Hd Hc. apply defined_in_flat in Hc. exact (NoDup_app_disjoint _ _ Hnd2 d Hd Hc).
  - exact (proj2 (Hio p o s Hl)).
  - intros x y Hin. exact (Hnz o x y Ho Hin).
  - intros x y Hin. exact (Htie o x y Ho Hin).
Qed.

Lemma io_not_zconst : forall l, wf_prog l -> forall o x y, In o l -> In (x, y) (s_io o) -> ~ In y (zero_consts l).
Proof.
  intros l Hwf o x y Ho Hin Hc. destruct (zero_consts_kind l y Hc) as [o' [Ho' [Hk [t Hout]]]].
  destruct (wf_kind l Hwf o' Ho' Hk) as [Hio' _].
  assert (Heq : o = o').
  { apply (nodup_defs_inj l o o' y (wf_nodup l Hwf) Ho Ho').
    - unfold defs, sop_results. apply in_or_app. right. apply in_map_iff. exists (x, y). split; [reflexivity | exact Hin].
    - unfold defs, sop_results. apply in_or_app. left. rewrite Hout. left. reflexivity. }
  subst o'. rewrite Hio' in Hin. destruct Hin.
Qed.

Lemma forced_tie : forall t0 l o x y, In o l -> In (x, y) (s_io o) ->
  forall r, (forced t0 l x r -> forced t0 l y r) /\ (forced t0 l y r -> forced t0 l x r).
Proof.
  intros t0 l o x y Ho Hin r. assert (Ht : tied l x y) by (exists o; split; assumption).
  split; intro H; [exact (F_res t0 l x y r Ht H) | exact (F_opnd t0 l x y r Ht H)].
Qed.

Lemma facts_of_wf : forall c t0 l p o s,
  wf_prog l -> io_ok l -> zconsts c = zero_consts l -> l = p ++ o :: s -> op_facts c (forced t0 l) o s.
Proof.
  intros c t0 l p o s Hwf Hio Hz Hl. apply (facts_gen c (forced t0 l) l p o s Hwf Hio); [| |exact Hl].
  - intros o' x y Ho' Hin. rewrite Hz. exact (io_not_zconst l Hwf o' x y Ho' Hin).
  - intros o' x y Ho' Hin. exact (forced_tie t0 l o' x y Ho' Hin).
Qed.

(* the walk over a segment q of a (possibly virtual) block l, started from any state that satisfies the
   invariant at the point below the segment *)
Section WalkFrom.
  Variable c : cfg.
  Variable t0 : value -> option Z.
  Variable FR : value -> Z -> Prop.
  Hypothesis FR_pre : forall v r, t0 v = Some r -> FR v r.
  Variable l : list sop.
  Hypothesis Hwf : wf_prog l.
  Hypothesis Hio : io_ok l.
  Hypothesis Hnz : forall o' x y, In o' l -> In (x, y) (s_io o') -> ~ In y (zconsts c).
  Hypothesis Htie : forall o' x y, In o' l -> In (x, y) (s_io o') -> forall r, (FR x r -> FR y r) /\ (FR y r -> FR x r).
  Notation Inv := (Inv c t0 FR).

  Lemma walk_from : forall q s0 p a0 a, l = p ++ q ++ s0 ->
    Inv (live s0) Enone (ment s0) a0 -> (forall v, live s0 v -> exists r, ty a0 v = Some r) ->
    allocate_sops c q a0 = Ok a ->
    Inv (live (q ++ s0)) Enone (ment (q ++ s0)) a
    /\ (forall v, live (q ++ s0) v -> exists r, ty a v = Some r) /\ mono a0 a.
  Proof.
    induction q as [|o q IH]; intros s0 p a0 a Hl HI0 Hall0 Hrun.
    - unfold allocate_sops in Hrun. simpl in Hrun. inversion Hrun; subst a. simpl.
      split; [exact HI0|]. split; [exact Hall0 | intros w r H; exact H].
    - rewrite allocate_sops_cons in Hrun.
      destruct (allocate_sops c q a0) as [a1|e] eqn:E1; simpl in Hrun; [|discriminate].
      assert (Hl1 : l = (p ++ [o]) ++ q ++ s0). { rewrite <- app_assoc. exact Hl. }
      destruct (IH s0 (p ++ [o]) a0 a1 Hl1 HI0 Hall0 E1) as [HI1 [Hall1 Hm1]].
      assert (Hl2 : l = p ++ o :: (q ++ s0)) by exact Hl.
      pose proof (facts_gen c FR l p o (q ++ s0) Hwf Hio Hnz Htie Hl2) as F.
      destruct (op_step c t0 FR FR_pre o (q ++ s0) a1 a F HI1 Hall1 Hrun) as [HI2 [Hall2 [Hm2 _]]].
      split; [exact HI2|]. split; [exact Hall2|]. intros w r H. apply Hm2. apply Hm1. exact H.
  Qed.

  (* the head operation of the segment: its definitions are allocated and clash with nothing live after it *)
  Lemma walk_head : forall o q s0 p a0 a, l = p ++ (o :: q) ++ s0 ->
    Inv (live s0) Enone (ment s0) a0 -> (forall v, live s0 v -> exists r, ty a0 v = Some r) ->
    allocate_sops c (o :: q) a0 = Ok a ->
    (forall d, In d (defs o) -> exists r, ty a d = Some r)
    /\ (forall d v r, In d (defs o) -> live (q ++ s0) v -> d <> v -> ty a d = Some r -> ty a v = Some r ->
          Pset t0 r \/ (zero_rule c = true /\ r = 0))
    /\ (forall x y, In (x, y) (s_io o) -> ty a x = ty a y)
    /\ (forall v r, live (q ++ s0) v -> ty a v = Some r -> Pset t0 r -> FR v r)
    /\ (forall d r, In d (defs o) -> ty a d = Some r -> Pset t0 r -> FR d r)
    /\ (forall v, live (q ++ s0) v -> exists r, ty a v = Some r).
  Proof.
    intros o q s0 p a0 a Hl HI0 Hall0 Hrun. simpl in Hl.
    rewrite allocate_sops_cons in Hrun.
    destruct (allocate_sops c q a0) as [a1|e] eqn:E1; simpl in Hrun; [|discriminate].
    assert (Hl1 : l = (p ++ [o]) ++ q ++ s0). { rewrite <- app_assoc. exact Hl. }
    destruct (walk_from q s0 (p ++ [o]) a0 a1 Hl1 HI0 Hall0 E1) as [HI1 [Hall1 Hm1]].
    pose proof (facts_gen c FR l p o (q ++ s0) Hwf Hio Hnz Htie Hl) as F.
    destruct (op_step c t0 FR FR_pre o (q ++ s0) a1 a F HI1 Hall1 Hrun) as [_ [_ [Hm2 [Hd [Hh [Ht Hdf]]]]]].
    split; [exact Hd|]. split; [exact Hh|]. split; [exact Ht|]. split; [|split; [exact Hdf|]].
    - intros v r Hv Hr HP. destruct HI1 as [_ [_ [_ [_ H5]]]].
      destruct (Hall1 v Hv) as [r1 Hr1]. pose proof (Hm2 v r1 Hr1) as E. rewrite Hr in E. inversion E; subst r1.
      exact (H5 v r Hv Hr1 HP).
    - intros v Hv. destruct (Hall1 v Hv) as [r1 Hr1]. exists r1. apply Hm2. exact Hr1.
  Qed.
End WalkFrom.

Section Walk.
  Variable c : cfg.
  Variable t0 : value -> option Z.
  Variable l : list sop.
  Variable a0 : astate.
  Hypothesis Hwf : wf_prog l.
  Hypothesis Hio : io_ok l.
  Hypothesis Hz : zconsts c = zero_consts l.
  Hypothesis Hsok0 : sok c t0 a0.
  Hypothesis Hty0 : ty a0 = t0.

  Notation FR := (forced t0 l).
  Notation Inv := (Inv c t0 (forced t0 l)).
  Notation Pset := (Pset t0).
  Let FR_pre : forall v r, t0 v = Some r -> forced t0 l v r := F_pre t0 l.

  Lemma walk_inv : forall s p a, l = p ++ s -> allocate_sops c s a0 = Ok a ->
    Inv (live s) Enone (ment s) a /\ (forall v, live s v -> exists r, ty a v = Some r) /\ mono a0 a.
  Proof.
    induction s as [|o s IH]; intros p a Hl Hrun.
    - unfold allocate_sops in Hrun. simpl in Hrun. inversion Hrun; subst a.
      split; [|split].
      + split; [exact Hsok0|]. split; [|split; [|split]].
        * intros v r [[o [[] _]] _].
        * intros v1 v2 r [[o [[] _]] _].
        * intros v _. rewrite Hty0. reflexivity.
        * intros v r [[o [[] _]] _].
      + intros v [[o [[] _]] _].
      + intros w q H. exact H.
    - rewrite allocate_sops_cons in Hrun.
      destruct (allocate_sops c s a0) as [a1|e] eqn:E1; simpl in Hrun; [|discriminate].
      assert (Hl1 : l = (p ++ [o]) ++ s). { rewrite <- app_assoc. exact Hl. }
      destruct (IH (p ++ [o]) a1 Hl1 eq_refl) as [HI1 [Hall1 Hm1]].
      pose proof (facts_of_wf c t0 l p o s Hwf Hio Hz Hl) as F.
      destruct (op_step c t0 FR FR_pre o s a1 a F HI1 Hall1 Hrun) as [HI2 [Hall2 [Hm2 _]]].
      split; [exact HI2|]. split; [exact Hall2|]. intros w q H. apply Hm2. apply Hm1. exact H.
  Qed.

  (* the state after a suffix is extended monotonically by the rest of the walk *)
  Lemma walk_mono : forall q s p a a', l = p ++ q ++ s ->
    allocate_sops c s a0 = Ok a -> allocate_sops c (q ++ s) a0 = Ok a' -> mono a a'.
  Proof.
    induction q as [|o q IH]; intros s p a a' Hl Hs Hqs.
    - simpl in Hqs. rewrite Hs in Hqs. inversion Hqs; subst. intros w r H. exact H.
    - simpl in Hqs. rewrite allocate_sops_cons in Hqs.
      destruct (allocate_sops c (q ++ s) a0) as [a1|e] eqn:E1; simpl in Hqs; [|discriminate].
      assert (Hl1 : l = (p ++ [o]) ++ q ++ s). { rewrite <- app_assoc. exact Hl. }
      pose proof (IH s (p ++ [o]) a a1 Hl1 Hs E1) as Hm1.
      destruct (walk_inv (q ++ s) (p ++ [o]) a1 Hl1 E1) as [HI1 [Hall1 _]].
      assert (Hl2 : l = p ++ o :: (q ++ s)) by exact Hl.
      pose proof (facts_of_wf c t0 l p o (q ++ s) Hwf Hio Hz Hl2) as F.
      destruct (op_step c t0 FR FR_pre o (q ++ s) a1 a' F HI1 Hall1 Hqs) as [_ [_ [Hm2 _]]].
      intros w r H. apply Hm2. apply Hm1. exact H.
  Qed.

  Lemma suffix_state : forall p s af, l = p ++ s -> allocate_sops c l a0 = Ok af ->
    exists a, allocate_sops c s a0 = Ok a /\ mono a af.
  Proof.
    intros p s af Hl Hrun.
    assert (Hex : exists a, allocate_sops c s a0 = Ok a).
    { revert Hrun. rewrite Hl. clear Hl. revert af. induction p as [|o p IH]; intros af Hrun.
      - exists af. exact Hrun.
      - simpl in Hrun. rewrite allocate_sops_cons in Hrun.
        destruct (allocate_sops c (p ++ s) a0) as [a1|e] eqn:E1; simpl in Hrun; [|discriminate].
        exact (IH a1 eq_refl). }
    destruct Hex as [a Ha]. exists a. split; [exact Ha|].
    apply (walk_mono p s [] a af); [simpl; exact Hl | exact Ha |].
    rewrite <- Hl. exact Hrun.
  Qed.

  Variable af : astate.
  Hypothesis Hrun : allocate_sops c l a0 = Ok af.

  Lemma final_sok : sok c t0 af.
  Proof. destruct (walk_inv l [] af eq_refl Hrun) as [[Hs _] _]. exact Hs. Qed.

  (* every value live at a program point has a register *)
  Theorem live_allocated : forall p s v, l = p ++ s -> live s v -> exists r, ty af v = Some r.
  Proof.
    intros p s v Hl Hv. destruct (suffix_state p s af Hl Hrun) as [a [Ha Hm]].
    destruct (walk_inv s p a Hl Ha) as [_ [Hall _]]. destruct (Hall v Hv) as [r Hr].
    exists r. apply Hm. exact Hr.
  Qed.

  (* two values live together share a register only if the input pre-assigned that register, or it
     is the zero register *)
  Theorem live_confined : forall p s v1 v2 r, l = p ++ s -> live s v1 -> live s v2 -> v1 <> v2 ->
    ty af v1 = Some r -> ty af v2 = Some r -> Pset r \/ (zero_rule c = true /\ r = 0).
  Proof.
    intros p s v1 v2 r Hl Hv1 Hv2 Hne H1 H2.
    destruct (suffix_state p s af Hl Hrun) as [a [Ha Hm]].
    destruct (walk_inv s p a Hl Ha) as [[_ [_ [HG2 _]]] [Hall _]].
    destruct (Hall v1 Hv1) as [r1 Hr1]. destruct (Hall v2 Hv2) as [r2 Hr2].
    pose proof (Hm v1 r1 Hr1) as E1. pose proof (Hm v2 r2 Hr2) as E2.
    rewrite H1 in E1. rewrite H2 in E2. inversion E1; inversion E2; subst r1 r2.
    destruct (HG2 v1 v2 r Hv1 Hv2 Hne Hr1 Hr2) as [H|[H|[]]]; [left; exact H | right; exact H].
  Qed.

  (* a result is never written into the register of a value that is live after the operation *)
  Theorem def_confined : forall p o s d v r, l = p ++ o :: s -> In d (defs o) -> live s v -> d <> v ->
    ty af d = Some r -> ty af v = Some r -> Pset r \/ (zero_rule c = true /\ r = 0).
  Proof.
    intros p o s d v r Hl Hd Hv Hne H1 H2.
    destruct (suffix_state p (o :: s) af Hl Hrun) as [a [Ha Hm]].
    rewrite allocate_sops_cons in Ha.
    destruct (allocate_sops c s a0) as [a1|e] eqn:E1; simpl in Ha; [|discriminate].
    assert (Hl1 : l = (p ++ [o]) ++ s). { rewrite <- app_assoc. exact Hl. }
    destruct (walk_inv s (p ++ [o]) a1 Hl1 E1) as [HI1 [Hall1 _]].
    pose proof (facts_of_wf c t0 l p o s Hwf Hio Hz Hl) as F.
    destruct (op_step c t0 FR FR_pre o s a1 a F HI1 Hall1 Ha) as [_ [Hall2 [Hm2 [Hdefs [Hhead _]]]]].
    destruct (Hdefs d Hd) as [rd Hrd]. destruct (Hall1 v Hv) as [rv Hrv].
    pose proof (Hm d rd Hrd) as Ed. pose proof (Hm v rv (Hm2 v rv Hrv)) as Ev.
    rewrite H1 in Ed. rewrite H2 in Ev. inversion Ed; inversion Ev; subst rd rv.
    exact (Hhead d v r Hd Hv Hne Hrd (Hm2 v r Hrv)).
  Qed.

  Theorem defs_allocated : forall p o s d, l = p ++ o :: s -> In d (defs o) -> exists r, ty af d = Some r.
  Proof.
    intros p o s d Hl Hd.
    destruct (suffix_state p (o :: s) af Hl Hrun) as [a [Ha Hm]].
    rewrite allocate_sops_cons in Ha.
    destruct (allocate_sops c s a0) as [a1|e] eqn:E1; simpl in Ha; [|discriminate].
    assert (Hl1 : l = (p ++ [o]) ++ s). { rewrite <- app_assoc. exact Hl. }
    destruct (walk_inv s (p ++ [o]) a1 Hl1 E1) as [HI1 [Hall1 _]].
    pose proof (facts_of_wf c t0 l p o s Hwf Hio Hz Hl) as F.
    destruct (op_step c t0 FR FR_pre o s a1 a F HI1 Hall1 Ha) as [_ [_ [_ [Hdefs _]]]].
    destruct (Hdefs d Hd) as [r Hr]. exists r. apply Hm. exact Hr.
  Qed.

  (* in/out operand and result end up in one register *)
  Theorem ties_respected : forall o x y, In o l -> In (x, y) (s_io o) -> ty af x = ty af y /\ ty af x <> None.
  Proof.
    intros o x y Ho Hin. apply in_split in Ho. destruct Ho as [p [s Hl]].
    destruct (suffix_state p (o :: s) af Hl Hrun) as [a [Ha Hm]].
    rewrite allocate_sops_cons in Ha.
    destruct (allocate_sops c s a0) as [a1|e] eqn:E1; simpl in Ha; [|discriminate].
    assert (Hl1 : l = (p ++ [o]) ++ s). { rewrite <- app_assoc. exact Hl. }
    destruct (walk_inv s (p ++ [o]) a1 Hl1 E1) as [HI1 [Hall1 _]].
    pose proof (facts_of_wf c t0 l p o s Hwf Hio Hz Hl) as F.
    destruct (op_step c t0 FR FR_pre o s a1 a F HI1 Hall1 Ha) as [_ [_ [_ [Hdefs [_ [Hties _]]]]]].
    assert (Hyd : In y (defs o)).
    { unfold defs, sop_results. apply in_or_app. right. apply in_map_iff. exists (x, y). split; [reflexivity | exact Hin]. }
    destruct (Hdefs y Hyd) as [r Hr]. pose proof (Hties x y Hin) as Heq. rewrite Hr in Heq.
    rewrite (Hm x r Heq), (Hm y r Hr). split; [reflexivity | discriminate].
  Qed.

  Theorem live_forced : forall p s v r, l = p ++ s -> live s v -> ty af v = Some r -> Pset r -> forced t0 l v r.
  Proof.
    intros p s v r Hl Hv Hr HP. destruct (suffix_state p s af Hl Hrun) as [a [Ha Hm]].
    destruct (walk_inv s p a Hl Ha) as [[_ [_ [_ [_ H5]]]] [Hall _]].
    destruct (Hall v Hv) as [r1 Hr1]. pose proof (Hm v r1 Hr1) as E. rewrite Hr in E. inversion E; subst r1.
    exact (H5 v r Hv Hr1 HP).
  Qed.

  Theorem def_forced : forall p o s d r, l = p ++ o :: s -> In d (defs o) -> ty af d = Some r -> Pset r -> forced t0 l d r.
  Proof.
    intros p o s d r Hl Hd Hr HP.
    destruct (suffix_state p (o :: s) af Hl Hrun) as [a [Ha Hm]].
    rewrite allocate_sops_cons in Ha.
    destruct (allocate_sops c s a0) as [a1|e] eqn:E1; simpl in Ha; [|discriminate].
    assert (Hl1 : l = (p ++ [o]) ++ s). { rewrite <- app_assoc. exact Hl. }
    destruct (walk_inv s (p ++ [o]) a1 Hl1 E1) as [HI1 [Hall1 _]].
    pose proof (facts_of_wf c t0 l p o s Hwf Hio Hz Hl) as F.
    destruct (op_step c t0 FR FR_pre o s a1 a F HI1 Hall1 Ha) as [_ [_ [_ [Hdefs [_ [_ Hdf]]]]]].
    destruct (Hdefs d Hd) as [rd Hrd]. pose proof (Hm d rd Hrd) as E. rewrite Hr in E. inversion E; subst rd.
    exact (Hdf d r Hd Hrd HP).
  Qed.

  (* full statements under the satisfiability of the input's own constraints *)
  Hypothesis Hforced : forced_ok t0 l.

  Theorem live_no_interference : forall p s v1 v2 r, l = p ++ s -> live s v1 -> live s v2 -> v1 <> v2 ->
    ty af v1 = Some r -> ty af v2 = Some r ->
    zero_rule c = true /\ r = 0 /\ In v1 (zero_consts l) /\ In v2 (zero_consts l).
  Proof.
    intros p s v1 v2 r Hl Hv1 Hv2 Hne H1 H2.
    destruct (live_confined p s v1 v2 r Hl Hv1 Hv2 Hne H1 H2) as [HP|[Hzr Hr]].
    - exfalso. destruct Hforced as [Hf _].
      apply (Hf p s Hl v1 v2 r Hv1 Hv2 Hne); [exact (live_forced p s v1 r Hl Hv1 H1 HP) | exact (live_forced p s v2 r Hl Hv2 H2 HP)].
    - subst r. split; [exact Hzr|]. split; [reflexivity|]. rewrite <- Hz.
      split; apply (so_zero_ty c t0 af final_sok); assumption.
  Qed.

  Theorem def_no_clobber : forall p o s d v r, l = p ++ o :: s -> In d (defs o) -> live s v -> d <> v ->
    ty af d = Some r -> ty af v = Some r ->
    zero_rule c = true /\ r = 0 /\ In d (zero_consts l) /\ In v (zero_consts l).
  Proof.
    intros p o s d v r Hl Hd Hv Hne H1 H2.
    destruct (def_confined p o s d v r Hl Hd Hv Hne H1 H2) as [HP|[Hzr Hr]].
    - exfalso. destruct Hforced as [_ Hf].
      apply (Hf p o s Hl d v r Hd Hv Hne); [exact (def_forced p o s d r Hl Hd H1 HP) |].
      assert (Hl' : l = (p ++ [o]) ++ s) by (rewrite <- app_assoc; exact Hl).
      exact (live_forced (p ++ [o]) s v r Hl' Hv H2 HP).
    - subst r. split; [exact Hzr|]. split; [reflexivity|]. rewrite <- Hz.
      split; apply (so_zero_ty c t0 af final_sok); assumption.
  Qed.
End Walk.
