(* C19/ProofsLoop2.v -- a function with ONE riscv_scf.for (no pre-assigned registers): the walk over
   the virtual straight-line block  pre ++ H :: body ++ Y :: post. *)
From Coq Require Import ZArith List Bool Arith Lia.
From XV Require Import C19.Model C19.ProofsSpec C19.ProofsStack C19.ProofsAlloc C19.ProofsOp C19.ProofsStep
                       C19.ProofsMain C19.ProofsFunc C19.ProofsLoop.
Import ListNotations.
Local Open Scope Z_scope.

Definition step_list (f : forop) : list value := match f_step f with Some s => [s] | None => [] end.

(* pseudo-operations standing for the loop header and the back edge / loop exit:
   H reads lb, ub, step, ties every iter operand to its carried block argument and defines the induction
   variable; Y reads the induction variable, the body's live-ins, ub and step (so they are live throughout
   the body) and ties every yield operand to the loop result *)
Definition Hop (f : forop) : sop :=
  mkSop (f_lb f :: f_ub f :: step_list f) (firstn 1 (f_bargs f)) (combine (f_iters f) (tl (f_bargs f))) KOther false.
Definition Yop (f : forop) : sop :=
  mkSop (firstn 1 (f_bargs f) ++ live_ins_body f ++ f_ub f :: step_list f) [] (combine (f_yield f) (f_res f))
        KOther false.
Definition virt (pre : list sop) (f : forop) (post : list sop) : list sop :=
  pre ++ Hop f :: f_body f ++ Yop f :: post.
Definition groups (f : forop) : list (list value) := zip4 (tl (f_bargs f)) (f_iters f) (f_yield f) (f_res f).

(* values the loop forces into one register: in/out pairs of the virtual block (incl. H and Y) and the
   back edge (carried block argument ~ yield operand); tconn = connected by such ties *)
Definition ltie (pre : list sop) (f : forop) (post : list sop) (a b : value) : Prop :=
  tied (virt pre f post) a b \/ In (a, b) (combine (tl (f_bargs f)) (f_yield f)).
Inductive tconn (pre : list sop) (f : forop) (post : list sop) : value -> value -> Prop :=
| tc_refl : forall v, tconn pre f post v v
| tc_step : forall u v w, tconn pre f post u v -> (ltie pre f post v w \/ ltie pre f post w v) -> tconn pre f post u w.

Lemma tconn_trans : forall pre f post u v w, tconn pre f post u v -> tconn pre f post v w -> tconn pre f post u w.
Proof.
  intros pre f post u v w H1 H2. induction H2 as [|v x y H2 IH Hs]; [exact H1|].
  exact (tc_step pre f post u x y (IH H1) Hs).
Qed.
Lemma tconn_sym : forall pre f post u v, tconn pre f post u v -> tconn pre f post v u.
Proof.
  intros pre f post u v H. induction H as [|u v w H IH Hs]; [constructor|].
  apply (tconn_trans pre f post w v u); [|exact IH].
  apply (tc_step pre f post w w v (tc_refl pre f post w)). destruct Hs as [Hs|Hs]; [right|left]; exact Hs.
Qed.

Lemma fold_res_single : forall {A S} (g : A -> S -> res S) x s, fold_res g [x] s = g x s.
Proof. intros. simpl. destruct (g x s); reflexivity. Qed.

Lemma allocate_block_loop : forall c pre f post a,
  allocate_block c (map Simple pre ++ For f :: map Simple post) a
  = bind (allocate_sops c post a) (fun a1 => bind (allocate_for c f a1) (allocate_sops c pre)).
Proof.
  intros c pre f post a. unfold allocate_block. rewrite rev_app_distr. simpl. rewrite <- app_assoc. simpl.
  rewrite fold_res_app. rewrite <- map_rev. rewrite fold_res_map_simple.
  unfold allocate_sops at 1. destruct (fold_res (allocate_sop c) (rev post) a) as [a1|e]; simpl; [|reflexivity].
  destruct (allocate_for c f a1) as [a2|e]; simpl; [|reflexivity].
  rewrite <- map_rev. rewrite fold_res_map_simple. reflexivity.
Qed.

Lemma zip4_concat_in : forall a b c d g u, In g (zip4 a b c d) -> In u g -> In u (concat (zip4 a b c d)).
Proof. intros. eapply concat_in; eassumption. Qed.

Lemma zip4_shape : forall a b c d g, In g (zip4 a b c d) ->
  exists x y z w, g = [x; y; z; w] /\ In (y, x) (combine b a) /\ In (z, w) (combine c d) /\ In (x, z) (combine a c).
Proof.
  induction a as [|x a IH]; intros b c d g H; simpl in H; [destruct H|].
  destruct b as [|y b]; [destruct H|]. destruct c as [|z c]; [destruct H|]. destruct d as [|w d]; [destruct H|].
  destruct H as [H|H].
  - exists x, y, z, w. subst g. simpl. repeat split; try reflexivity; left; reflexivity.
  - destruct (IH b c d g H) as [x' [y' [z' [w' [E [H1 [H2 H3]]]]]]].
    exists x', y', z', w'. simpl. repeat split; try assumption; right; assumption.
Qed.

Lemma used_in_app : forall s1 s2 v, used_in (s1 ++ s2) v <-> used_in s1 v \/ used_in s2 v.
Proof.
  intros s1 s2 v. unfold used_in. split.
  - intros [o [Ho Hv]]. apply in_app_or in Ho. destruct Ho as [Ho|Ho]; [left | right]; exists o; split; assumption.
  - intros [[o [Ho Hv]]|[o [Ho Hv]]]; exists o; (split; [apply in_or_app; tauto | exact Hv]).
Qed.
Lemma defined_in_app : forall s1 s2 v, defined_in (s1 ++ s2) v <-> defined_in s1 v \/ defined_in s2 v.
Proof.
  intros s1 s2 v. unfold defined_in. split.
  - intros [o [Ho Hv]]. apply in_app_or in Ho. destruct Ho as [Ho|Ho]; [left | right]; exists o; split; assumption.
  - intros [[o [Ho Hv]]|[o [Ho Hv]]]; exists o; (split; [apply in_or_app; tauto | exact Hv]).
Qed.
Lemma NoDup_concat_in : forall (gs : list (list value)) g, NoDup (concat gs) -> In g gs -> NoDup g.
Proof.
  induction gs as [|h t IH]; intros g Hnd Hg; [destruct Hg|]. simpl in Hnd.
  destruct Hg as [Hg|Hg]; [subst; exact (NoDup_app_l _ _ Hnd) | exact (IH g (NoDup_app_r _ _ Hnd) Hg)].
Qed.
Lemma in_combine_fst : forall (a b : list value) x y, In (x, y) (combine a b) -> In x (map fst (combine a b)).
Proof. intros a b x y H. apply in_map_iff. exists (x, y). split; [reflexivity | exact H]. Qed.
Lemma in_combine_snd : forall (a b : list value) x y, In (x, y) (combine a b) -> In y (map snd (combine a b)).
Proof. intros a b x y H. apply in_map_iff. exists (x, y). split; [reflexivity | exact H]. Qed.

Lemma zip4_cover_b : forall b a c d y, In y b ->
  (length b <= length a)%nat -> (length b <= length c)%nat -> (length b <= length d)%nat ->
  exists g, In g (zip4 a b c d) /\ In y g.
Proof.
  induction b as [|x b IH]; intros a c d y Hy La Lc Ld; [destruct Hy|].
  destruct a as [|xa a]; [simpl in La; lia|]. destruct c as [|xc c]; [simpl in Lc; lia|].
  destruct d as [|xd d]; [simpl in Ld; lia|]. simpl in *.
  destruct Hy as [Hy|Hy].
  - subst y. exists [xa; x; xc; xd]. split; [left; reflexivity | simpl; tauto].
  - destruct (IH a c d y Hy) as [g [Hg Hyg]]; try lia. exists g. split; [right; exact Hg | exact Hyg].
Qed.

Lemma zip4_cover_a : forall a b c d y, In y a ->
  (length a <= length b)%nat -> (length a <= length c)%nat -> (length a <= length d)%nat ->
  exists g, In g (zip4 a b c d) /\ In y g.
Proof.
  induction a as [|x a IH]; intros b c d y Hy Lb Lc Ld; [destruct Hy|].
  destruct b as [|xb b]; [simpl in Lb; lia|]. destruct c as [|xc c]; [simpl in Lc; lia|].
  destruct d as [|xd d]; [simpl in Ld; lia|]. simpl in *.
  destruct Hy as [Hy|Hy].
  - subst y. exists [x; xb; xc; xd]. split; [left; reflexivity | simpl; tauto].
  - destruct (IH b c d y Hy) as [g [Hg Hyg]]; try lia. exists g. split; [right; exact Hg | exact Hyg].
Qed.

Lemma unreserve_fields : forall regs s s', fold_res unreserve_register regs s = Ok s' ->
  allocatable s' = allocatable s /\ available s' = available s /\ next_inf s' = next_inf s
  /\ allow_inf s' = allow_inf s /\ (forall k, is_reserved k s' = true -> is_reserved k s = true).
Proof.
  induction regs as [|r t IH]; intros s s' H; simpl in H.
  - inversion H; subst. repeat split; try reflexivity. intros k Hk; exact Hk.
  - unfold unreserve_register at 1 in H. destruct (is_reserved r s) eqn:Er; simpl in H; [|discriminate].
    destruct (IH _ s' H) as [A [B [C [D E]]]]. simpl in *. repeat split; try assumption.
    intros k Hk. specialize (E k Hk). unfold is_reserved in *. simpl in E. rewrite memZ_In in *.
    clear - E. induction (reserved s) as [|[k0 n] l IHl]; simpl in *; [exact E|].
    destruct (k0 =? r) eqn:Ek.
    + destruct (n - 1 =? 0); simpl in E; [right; exact E | exact E].
    + simpl in E. destruct E as [E|E]; [left; exact E | right; exact (IHl E)].
Qed.

Lemma add_untouched_list : forall c t0 (FR : value -> Z -> Prop), (forall v r, t0 v = Some r -> FR v r) ->
  forall vs (L : value -> Prop) E (M : value -> Prop) a,
  Inv c t0 FR L E M a -> (forall v, In v vs -> ~ M v /\ exists r, ty a v = Some r) ->
  Inv c t0 FR (setof L vs) E (setof M vs) a.
Proof.
  intros c t0 FR Hpre vs. induction vs as [|v t IH]; intros L E M a HI Hvs.
  - eapply Inv_weaken; [exact HI | intros w [Hw|[]]; exact Hw | intros w Hw; left; exact Hw].
  - destruct (Hvs v (or_introl eq_refl)) as [HnM [r Hr]].
    destruct (in_dec Nat.eq_dec v t) as [Hin|Hnin].
    + eapply Inv_weaken; [exact (IH L E M a HI (fun w Hw => Hvs w (or_intror Hw))) | |].
      * intros w [Hw|[Hw|Hw]]; [left; exact Hw | subst w; right; exact Hin | right; exact Hw].
      * intros w [Hw|Hw]; [left; exact Hw | right; right; exact Hw].
    + pose proof (add_untouched c t0 FR Hpre L E M a v r HI HnM Hr) as HI1.
      eapply Inv_weaken; [apply (IH (addv L v) E (addv M v) a HI1) | |].
      * intros w Hw. destruct (Hvs w (or_intror Hw)) as [HnMw Hrw]. split; [|exact Hrw].
        intros [Hc|Hc]; [exact (HnMw Hc) | subst w; exact (Hnin Hw)].
      * intros w [Hw|[Hw|Hw]]; [left; left; exact Hw | left; right; symmetry; exact Hw | right; exact Hw].
      * intros w [[Hw|Hw]|Hw]; [left; exact Hw | right; left; symmetry; exact Hw | right; right; exact Hw].
Qed.

(* shrinking the reservations (unreserve_registers) when no register is pre-assigned *)
Lemma unreserve_inv00 : forall c (FR : value -> Z -> Prop) (L : value -> Prop) E (M : value -> Prop) a s',
  Inv c (fun _ => None) FR L E M a ->
  allocatable s' = allocatable (stk a) -> available s' = available (stk a) -> next_inf s' = next_inf (stk a) ->
  allow_inf s' = allow_inf (stk a) -> (forall k, is_reserved k s' = true -> is_reserved k (stk a) = true) ->
  Inv c (fun _ => None) FR L E M (set_stk a s').
Proof.
  intros c FR L E M a s' [Hs [H1 [H2 [Hf H5]]]] Fal Fav Fn Fi Fk.
  split; [|split; [|split; [|split]]].
  - constructor; simpl; rewrite ?Fal, ?Fav, ?Fn, ?Fi.
    + exact (so_nodup _ _ a Hs).
    + exact (so_avail _ _ a Hs).
    + intros r Hr. destruct (is_reserved r s') eqn:Er; [|reflexivity].
      specialize (Fk r Er). rewrite (so_avail_nres _ _ a Hs r Hr) in Fk. discriminate.
    + exact (so_neg_avail _ _ a Hs).
    + exact (so_neg_ty _ _ a Hs).
    + exact (so_next _ _ a Hs).
    + intros k Hk. exact (so_res_lt _ _ a Hs k (Fk k Hk)).
    + intros r [w Hw]. discriminate.
    + exact (so_zero _ _ a Hs).
    + exact (so_mono _ _ a Hs).
    + exact (so_zero_ty _ _ a Hs).
    + exact (so_prov _ _ a Hs).
  - intros v r Hv Hr. simpl. rewrite Fav. exact (H1 v r Hv Hr).
  - exact H2.
  - exact Hf.
  - exact H5.
Qed.

Lemma in_combine_l_ex : forall (a b : list value) x, In x a -> (length a <= length b)%nat ->
  exists y, In (x, y) (combine a b).
Proof.
  induction a as [|h a IH]; intros b x Hx Hl; [destruct Hx|].
  destruct b as [|hb b]; [simpl in Hl; lia|]. simpl in *. destruct Hx as [Hx|Hx].
  - subst. exists hb. left. reflexivity.
  - destruct (IH b x Hx) as [y Hy]; [lia|]. exists y. right. exact Hy.
Qed.

Lemma allocate_sops_app : forall c p s a,
  allocate_sops c (p ++ s) a = bind (allocate_sops c s a) (allocate_sops c p).
Proof. intros c p s a. unfold allocate_sops. rewrite rev_app_distr. apply fold_res_app. Qed.

Lemma zip4_cover_d : forall d a b c y, In y d ->
  (length d <= length a)%nat -> (length d <= length b)%nat -> (length d <= length c)%nat ->
  exists g, In g (zip4 a b c d) /\ In y g.
Proof.
  induction d as [|x d IH]; intros a b c y Hy La Lb Lc; [destruct Hy|].
  destruct a as [|xa a]; [simpl in La; lia|]. destruct b as [|xb b]; [simpl in Lb; lia|].
  destruct c as [|xc c]; [simpl in Lc; lia|]. simpl in *.
  destruct Hy as [Hy|Hy].
  - subst y. exists [xa; xb; xc; x]. split; [left; reflexivity | simpl; tauto].
  - destruct (IH a b c y Hy) as [g [Hg Hyg]]; try lia. exists g. split; [right; exact Hg | exact Hyg].
Qed.

Lemma zip4_cover_c : forall c a b d y, In y c ->
  (length c <= length a)%nat -> (length c <= length b)%nat -> (length c <= length d)%nat ->
  exists g, In g (zip4 a b c d) /\ In y g.
Proof.
  induction c as [|x c IH]; intros a b d y Hy La Lb Ld; [destruct Hy|].
  destruct a as [|xa a]; [simpl in La; lia|]. destruct b as [|xb b]; [simpl in Lb; lia|].
  destruct d as [|xd d]; [simpl in Ld; lia|]. simpl in *.
  destruct Hy as [Hy|Hy].
  - subst y. exists [xa; xb; x; xd]. split; [left; reflexivity | simpl; tauto].
  - destruct (IH a b d y Hy) as [g [Hg Hyg]]; try lia. exists g. split; [right; exact Hg | exact Hyg].
Qed.

Section OneLoop.
  Variable c : cfg.
  Variable pre post : list sop.
  Variable f : forop.
  Variable iv : value.
  Variable cb : list value.
  Definition t00 : value -> option Z := fun _ => None.
  Definition FR00 : value -> Z -> Prop := fun _ _ => False.
  Notation V := (virt pre f post).
  Notation gs := (groups f).
  Notation gv := (concat (groups f)).
  Notation H_ := (Hop f).
  Notation Y_ := (Yop f).
  Notation li := (live_ins_body f).

  Hypothesis Hb : f_bargs f = iv :: cb.
  Hypothesis Hwf : wf_prog V.
  Hypothesis Hio : io_ok V.
  Hypothesis Hnz : forall o x y, In o V -> In (x, y) (s_io o) -> ~ In y (zconsts c).
  Hypothesis Hlen : length (f_iters f) = length cb /\ length (f_iters f) = length (f_yield f)
                    /\ length (f_iters f) = length (f_res f).
  Hypothesis Hgs : NoDup gv.                                              (* (a) groups do not overlap *)
  Hypothesis Hscope : forall v, In v (iv :: cb) \/ defined_in (f_body f) v -> ~ used_in post v.
  Hypothesis Hiv : ~ In iv gv.
  Hypothesis Hli : forall v, In v li -> ~ In v gv /\ v <> iv.
  Hypothesis Hbnd : forall v, In v (f_lb f :: f_ub f :: step_list f) -> ~ In v gv /\ v <> iv.

  Lemma FR00_pre : forall v r, t00 v = Some r -> FR00 v r.
  Proof. intros v r H. discriminate. Qed.
  Lemma FR00_tie : forall o' x y, In o' V -> In (x, y) (s_io o') -> forall r, (FR00 x r -> FR00 y r) /\ (FR00 y r -> FR00 x r).
  Proof. intros. split; intros []. Qed.

  Lemma V_split_H : V = pre ++ H_ :: (f_body f ++ Y_ :: post).
  Proof. reflexivity. Qed.
  Lemma V_split_Y : V = (pre ++ H_ :: f_body f) ++ Y_ :: post.
  Proof. unfold virt. rewrite <- app_assoc. reflexivity. Qed.

  Lemma FH : forall FR : value -> Z -> Prop, (forall o' x y, In o' V -> In (x, y) (s_io o') -> forall r, (FR x r -> FR y r) /\ (FR y r -> FR x r)) ->
    op_facts c FR H_ (f_body f ++ Y_ :: post).
  Proof. intros FR Ht. exact (facts_gen c FR V pre H_ _ Hwf Hio Hnz Ht V_split_H). Qed.
  Lemma FY : forall FR : value -> Z -> Prop, (forall o' x y, In o' V -> In (x, y) (s_io o') -> forall r, (FR x r -> FR y r) /\ (FR y r -> FR x r)) ->
    op_facts c FR Y_ post.
  Proof. intros FR Ht. exact (facts_gen c FR V _ Y_ post Hwf Hio Hnz Ht V_split_Y). Qed.

  (* membership facts about the members of a group *)
  Lemma group_members : forall g, In g gs -> exists b it y r_,
    g = [b; it; y; r_] /\ In (it, b) (s_io H_) /\ In (y, r_) (s_io Y_) /\ In (b, y) (combine cb (f_yield f)).
  Proof.
    intros g Hg. unfold groups in Hg. rewrite Hb in Hg. simpl in Hg.
    destruct (zip4_shape _ _ _ _ g Hg) as [b [it [y [r_ [E [H1 [H2 H3]]]]]]].
    exists b, it, y, r_. unfold Hop, Yop. simpl. rewrite Hb. simpl. repeat split; assumption.
  Qed.

  Lemma post_facts_H_def : forall d, In d (defs H_) -> ~ ment post d.
  Proof.
    intros d Hd [Hu|Hdf].
    - apply (Hscope d); [|exact Hu]. left. unfold defs, sop_results, Hop in Hd. simpl in Hd. rewrite Hb in Hd. simpl in Hd.
      destruct Hd as [Hd|Hd]; [left; exact Hd|]. right.
      apply in_map_iff in Hd. destruct Hd as [[x y] [E Hin]]. simpl in E. subst y. exact (in_combine_r _ _ _ _ Hin).
    - apply (of_def c FR00 H_ _ (FH FR00 FR00_tie) d Hd). apply defined_in_app. right.
      apply defined_in_cons. right. exact Hdf.
  Qed.

  Notation Inv0 := (Inv c t00 FR00).

  Lemma gv_in : forall g u, In g gs -> In u g -> In u gv.
  Proof. intros g u Hg Hu. exact (concat_in gs g u Hg Hu). Qed.

  (* the typing and forced relation used from the loop end to the loop header *)
  Definition t0' (a6 : astate) : value -> option Z := rebased t00 gv a6.
  Definition FR' (a6 : astate) (v : value) (r : Z) : Prop :=
    exists w, In w gv /\ ty a6 w = Some r /\ tconn pre f post w v.

  (* ---- the loop end: live-ins, loop-carried groups, induction variable, ub, step, reservation ---- *)
  Lemma yphase : forall a a1 a2 a3 a4 a5,
    Inv0 (live post) Enone (ment post) a ->
    (forall v, live post v -> exists r, ty a v = Some r) ->
    fold_res (allocate_value c) li a = Ok a1 ->
    fold_res allocate_values_same_reg gs a1 = Ok a2 ->
    fold_res (allocate_value c) [iv] a2 = Ok a3 ->
    allocate_value c (f_ub f) a3 = Ok a4 ->
    match f_step f with Some s => allocate_value c s a4 | None => Ok a4 end = Ok a5 ->
    let regs := somes (map (ty a5) (f_iters f)) in
    let a6 := set_stk a5 (fold_left (fun s r => reserve_register r s) regs (stk a5)) in
    let acc := (((li ++ gv) ++ [iv]) ++ [f_ub f]) ++ step_list f in
    Inv0 (setof (live post) acc) (Eg gs) (setof (ment post) acc) a6
    /\ mono a a6
    /\ (forall v, In v acc -> exists r, ty a6 v = Some r)
    /\ (forall g, In g gs -> exists R, (forall u, In u g -> ty a6 u = Some R) /\ is_reserved R (stk a6) = true).
  Proof.
    intros a a1 a2 a3 a4 a5 HI0 Hall0 E1 E2 E3 E4 E5 regs a6 acc.
    set (S := live post) in *. set (M := ment post) in *.
    pose proof (FH FR00 FR00_tie) as FHf. pose proof (FY FR00 FR00_tie) as FYf.
    assert (HI0' : Inv0 (setof S []) (Eg gs) (setof M []) a).
    { apply (Inv_E_weaken c t00 FR00) with (E := Enone); [|intros x y []].
      eapply Inv_weaken; [exact HI0 | intros v [Hv|[]]; exact Hv | intros v Hv; left; exact Hv]. }
    assert (Hcl : forall v, ~ defined_in post v -> S v \/ ~ M v).
    { intros v Hnd. destruct (classic_ment post v) as [[Hu|Hd]|Hm]; [left; split; assumption | contradiction | right; exact Hm]. }
    assert (HusesY : forall v, In v (uses Y_) -> ~ defined_in post v).
    { intros v Hv Hc. apply (proj2 (of_use c FR00 Y_ post FYf v Hv)). exact Hc. }
    assert (HusesH : forall v, In v (uses H_) -> ~ defined_in post v).
    { intros v Hv Hc. apply (proj2 (of_use c FR00 H_ _ FHf v Hv)). apply defined_in_app. right.
      apply defined_in_cons. right. exact Hc. }
    (* phase 1: live-ins *)
    destruct (alloc_list_phase c t00 FR00 FR00_pre S (Eg gs) M li [] a a1 HI0') as [HI1 [Hm1 [Hal1 Hoth1]]].
    { intros v Hv. apply Hcl. apply HusesY. unfold uses, sop_operands, Yop. simpl.
      apply in_or_app. left. apply in_or_app. right. apply in_or_app. left. exact Hv. }
    { exact E1. }
    simpl in HI1.
    (* phase 2: groups *)
    destruct (groups_phase c t00 FR00 gs Hgs S M gs [] li a1 a2 eq_refl HI1) as [HI2 [Hm2 [Hg2 Hoth2]]].
    { intros g Hg. destruct (group_members g Hg) as [b [it [y [r_ [Eg_ [HinH [HinY Hby]]]]]]].
      exists b, it, y, r_. split; [exact Eg_|]. split; [exact (NoDup_concat_in gs g Hgs Hg)|].
      assert (HbH : In b (defs H_)).
      { unfold defs, sop_results. apply in_or_app. right. apply in_map_iff. exists (it, b). split; [reflexivity | exact HinH]. }
      assert (HitH : In it (map fst (s_io H_))) by (apply in_map_iff; exists (it, b); split; [reflexivity | exact HinH]).
      assert (HyY : In y (map fst (s_io Y_))) by (apply in_map_iff; exists (y, r_); split; [reflexivity | exact HinY]).
      assert (HrY : In r_ (defs Y_)).
      { unfold defs, sop_results. apply in_or_app. right. apply in_map_iff. exists (y, r_). split; [reflexivity | exact HinY]. }
      split; [exact (post_facts_H_def b HbH)|].
      split.
      { intros [Hu|Hd].
        - apply (of_io_dead c FR00 H_ _ FHf it HitH). apply used_in_app. right. apply used_in_cons. right. exact Hu.
        - apply (HusesH it); [|exact Hd]. unfold uses, sop_operands. apply in_or_app. right. exact HitH. }
      split.
      { intros [Hu|Hd].
        - exact (of_io_dead c FR00 Y_ post FYf y HyY Hu).
        - apply (HusesY y); [|exact Hd]. unfold uses, sop_operands. apply in_or_app. right. exact HyY. }
      repeat (split; [reflexivity|]).
      split. { apply Hcl. exact (of_def c FR00 Y_ post FYf r_ HrY). }
      split. { apply (Hnz Y_ y r_); [|exact HinY]. rewrite V_split_Y. apply in_or_app. right. left. reflexivity. }
      split. { intros u w r _ _ []. }
      intros u Hu Hc. subst g. exact (proj1 (Hli u Hc) (gv_in _ u Hg Hu)). }
    { exact Hgs. }
    { exact E2. }
    (* phases 3-5 *)
    destruct (alloc_list_phase c t00 FR00 FR00_pre S (Eg gs) M [iv] (li ++ gv) a2 a3 HI2) as [HI3 [Hm3 [Hal3 Hoth3]]].
    { intros v [Hv|[]]. subst v. right. apply post_facts_H_def. unfold defs, sop_results, Hop. simpl.
      rewrite Hb. simpl. left. reflexivity. }
    { exact E3. }
    rewrite <- (fold_res_single (allocate_value c) (f_ub f) a3) in E4.
    destruct (alloc_list_phase c t00 FR00 FR00_pre S (Eg gs) M [f_ub f] ((li ++ gv) ++ [iv]) a3 a4 HI3) as [HI4 [Hm4 [Hal4 Hoth4]]].
    { intros v [Hv|[]]. subst v. apply Hcl. apply HusesH. unfold uses, sop_operands, Hop. simpl. right. left. reflexivity. }
    { exact E4. }
    assert (E5' : fold_res (allocate_value c) (step_list f) a4 = Ok a5).
    { unfold step_list. destruct (f_step f) as [s|]; [rewrite fold_res_single; exact E5 | simpl; exact E5]. }
    destruct (alloc_list_phase c t00 FR00 FR00_pre S (Eg gs) M (step_list f) (((li ++ gv) ++ [iv]) ++ [f_ub f]) a4 a5 HI4)
      as [HI5 [Hm5 [Hal5 Hoth5]]].
    { intros v Hv. apply Hcl. apply HusesH. unfold uses, sop_operands, Hop. simpl. right. right.
      apply in_or_app. left. exact Hv. }
    { exact E5'. }
    fold acc in HI5.
    assert (Hm25 : mono a2 a5). { intros w q Hq. apply Hm5. apply Hm4. apply Hm3. exact Hq. }
    (* group registers *)
    assert (Hgreg : forall g, In g gs -> exists R, (forall u, In u g -> ty a5 u = Some R) /\ In R regs).
    { intros g Hg. destruct (Hg2 g Hg) as [R HR]. exists R. split; [intros u Hu; apply Hm25; exact (HR u Hu)|].
      destruct (group_members g Hg) as [b [it [y [r_ [Eg_ [HinH _]]]]]]. subst g.
      assert (Hit : ty a5 it = Some R) by (apply Hm25; apply HR; simpl; tauto).
      unfold regs. assert (Hitin : In it (f_iters f)).
      { unfold Hop in HinH. simpl in HinH. exact (in_combine_l _ _ _ _ HinH). }
      clear - Hit Hitin. induction (f_iters f) as [|x t IH]; [destruct Hitin|]. simpl.
      destruct Hitin as [Hx|Hx]; [subst x; rewrite Hit; left; reflexivity|].
      destruct (ty a5 x); [right|]; exact (IH Hx). }
    assert (Hregs : forall r, In r regs -> exists it, In it (f_iters f) /\ ty a5 it = Some r).
    { intros r Hr. unfold regs in Hr. clear - Hr. induction (f_iters f) as [|x t IH]; [destruct Hr|]. simpl in Hr.
      destruct (ty a5 x) as [q|] eqn:Ex.
      - destruct Hr as [Hr|Hr]; [subst q; exists x; split; [left; reflexivity | exact Ex]|].
        destruct (IH Hr) as [it [H1 H2]]. exists it. split; [right; exact H1 | exact H2].
      - destruct (IH Hr) as [it [H1 H2]]. exists it. split; [right; exact H1 | exact H2]. }
    assert (Hiters_g : forall it, In it (f_iters f) -> exists g, In g gs /\ In it g).
    { intros it Hit. unfold groups. rewrite Hb. simpl. destruct Hlen as [L1 [L2 L3]].
      apply (zip4_cover_b (f_iters f) cb (f_yield f) (f_res f) it Hit); lia. }
    assert (Hgv_acc : forall u, In u gv -> In u acc).
    { intros u Hu. unfold acc. apply in_or_app. left. apply in_or_app. left. apply in_or_app. left.
      apply in_or_app. right. exact Hu. }
    pose proof HI5 as HI5c. destruct HI5c as [Hs5 [H15 _]].
    (* phase 6: reservation *)
    assert (HI6 : Inv0 (setof S acc) (Eg gs) (setof M acc) a6).
    { apply (reserve_inv c t00 FR00 _ _ _ a5 regs HI5). intros r Hr.
      destruct (Hregs r Hr) as [it [Hit Hty]]. destruct (Hiters_g it Hit) as [g [Hg Hitg]].
      assert (HL : setof S acc it) by (right; apply Hgv_acc; exact (gv_in g it Hg Hitg)).
      split; [exact (H15 it r HL Hty) | intros Hneg; exact (proj1 (so_neg_ty c t00 a5 Hs5 it r Hty Hneg))]. }
    split; [exact HI6|]. split.
    { intros w q Hq. unfold a6. simpl. apply Hm5. apply Hm4. apply Hm3. apply Hm2. apply Hm1. exact Hq. }
    split.
    { intros v Hv. unfold a6. simpl. unfold acc in Hv.
      apply in_app_or in Hv. destruct Hv as [Hv|Hv]; [|exact (Hal5 v Hv)].
      apply in_app_or in Hv. destruct Hv as [Hv|Hv]; [|destruct (Hal4 v Hv) as [r Hr]; exists r; apply Hm5; exact Hr].
      apply in_app_or in Hv. destruct Hv as [Hv|Hv];
        [|destruct (Hal3 v Hv) as [r Hr]; exists r; apply Hm5; apply Hm4; exact Hr].
      apply in_app_or in Hv. destruct Hv as [Hv|Hv].
      - destruct (Hal1 v Hv) as [r Hr]. exists r. apply Hm25. apply Hm2. exact Hr.
      - apply in_concat in Hv. destruct Hv as [g [Hg Hvg]]. destruct (Hgreg g Hg) as [R [HR _]].
        exists R. exact (HR v Hvg). }
    intros g Hg. destruct (Hgreg g Hg) as [R [HR HRin]]. exists R. split; [exact HR|].
    unfold a6. simpl. apply reserve_keys. right. exact HRin.
  Qed.

  Definition acc_of : list value := (((li ++ gv) ++ [iv]) ++ [f_ub f]) ++ step_list f.

  Lemma no_pset00 : forall r, ~ Pset t00 r.
  Proof. intros r [w Hw]. discriminate. Qed.

  (* the invariant at the loop end w.r.t. the typing in which the group members are pre-assigned *)
  Lemma yrebase : forall a6,
    Inv0 (setof (live post) acc_of) (Eg gs) (setof (ment post) acc_of) a6 ->
    (forall v, live post v -> exists r, ty a6 v = Some r) ->
    (forall v, In v acc_of -> exists r, ty a6 v = Some r) ->
    (forall g, In g gs -> exists R, (forall u, In u g -> ty a6 u = Some R) /\ is_reserved R (stk a6) = true) ->
    Inv c (t0' a6) (FR' a6) (live (Y_ :: post)) Enone (ment (Y_ :: post)) a6
    /\ (forall v, live (Y_ :: post) v -> exists r, ty a6 v = Some r)
    /\ (forall w1 w2 r, In w1 gv -> In w2 gv -> ty a6 w1 = Some r -> ty a6 w2 = Some r ->
          exists g, In g gs /\ In w1 g /\ In w2 g)
    /\ (forall w r, In w gv -> ty a6 w = Some r -> ty a6 iv <> Some r)
    /\ (forall w r, In w gv -> ty a6 w = Some r ->
          (r < 0 -> allow_inf (stk a6) = true)
          /\ (In r (allocatable (stk a6)) \/ (r < 0 /\ allow_inf (stk a6) = true))).
  Proof.
    intros a6 HI6 HallS Hallacc Hgreg.
    pose proof HI6 as HIc. destruct HIc as [Hs6 [H16 [H26 [Hf6 H56]]]].
    pose proof (FY FR00 FR00_tie) as FYf.
    assert (Hgv_acc : forall u, In u gv -> In u acc_of).
    { intros u Hu. unfold acc_of. apply in_or_app. left. apply in_or_app. left. apply in_or_app. left.
      apply in_or_app. right. exact Hu. }
    assert (Hgvty : forall v, In v gv -> exists R, ty a6 v = Some R /\ is_reserved R (stk a6) = true).
    { intros v Hv. apply in_concat in Hv. destruct Hv as [g [Hg Hvg]]. destruct (Hgreg g Hg) as [R [HR Hres]].
      exists R. split; [exact (HR v Hvg) | exact Hres]. }
    assert (Hnz0 : zero_rule c = true -> forall v, In v gv -> ty a6 v <> Some 0).
    { intros Hz v Hv Hc. apply in_concat in Hv. destruct Hv as [g [Hg Hvg]].
      destruct (Hgreg g Hg) as [R [HR _]]. rewrite (HR v Hvg) in Hc. inversion Hc; subst R.
      destruct (group_members g Hg) as [b [it [y [r_ [Eg_ [_ [HinY _]]]]]]]. subst g.
      apply (Hnz Y_ y r_); [rewrite V_split_Y; apply in_or_app; right; left; reflexivity | exact HinY|].
      apply (so_zero_ty c t00 a6 Hs6 r_ Hz). apply HR. simpl. tauto. }
    assert (Hshare : forall v w r, setof (live post) acc_of v -> In w gv -> v <> w ->
               ty a6 v = Some r -> ty a6 w = Some r -> Eg gs v w).
    { intros v w r Hv Hw Hne Hrv Hrw.
      destruct (H26 v w r Hv (or_intror (Hgv_acc w Hw)) Hne Hrv Hrw) as [HP|[[Hz H0]|HE]].
      - exfalso. exact (no_pset00 r HP).
      - exfalso. subst r. exact (Hnz0 Hz w Hw Hrw).
      - exact HE. }
    assert (HI' : Inv c (t0' a6) (FR' a6) (setof (live post) acc_of) (Eg gs) (setof (ment post) acc_of) a6).
    { apply (rebase c t00 FR00 (FR' a6) gv a6 _ _ _ HI6).
      - intros v Hv. right. exact (Hgv_acc v Hv).
      - exact Hgvty.
      - exact Hnz0.
      - intros v r [].
      - intros v r Hv Hr [w [Hw Hrw]]. destruct (in_dec Nat.eq_dec v gv) as [Hvg|Hvg].
        + exists v. split; [exact Hvg|]. split; [exact Hr | constructor].
        + exfalso. assert (Hne : v <> w) by (intro; subst; contradiction).
          destruct (Hshare v w r Hv Hw Hne Hr Hrw) as [g [Hg [Hvg' _]]]. exact (Hvg (gv_in g v Hg Hvg')). }
    destruct HI' as [Hs' [H1' [H2' [Hf' H5']]]].
    assert (Hsub : forall v, live (Y_ :: post) v -> setof (live post) acc_of v).
    { intros v [Hu Hnd]. apply used_in_cons in Hu. destruct Hu as [Hu|Hu].
      - right. unfold uses, sop_operands, Yop in Hu. simpl in Hu. rewrite Hb in Hu. simpl in Hu. unfold acc_of.
        destruct Hu as [Hu|Hu]; [subst v; apply in_or_app; left; apply in_or_app; left; apply in_or_app; right; left; reflexivity|].
        apply in_app_or in Hu. destruct Hu as [Hu|Hu].
        + apply in_app_or in Hu. destruct Hu as [Hu|Hu].
          * apply in_or_app; left; apply in_or_app; left; apply in_or_app; left; apply in_or_app; left; exact Hu.
          * destruct Hu as [Hu|Hu]; [subst v; apply in_or_app; left; apply in_or_app; right; left; reflexivity|].
            apply in_or_app. right. exact Hu.
        + apply in_or_app; left; apply in_or_app; left; apply in_or_app; left; apply in_or_app; right.
          apply in_map_iff in Hu. destruct Hu as [[y r_] [E Hin]]. simpl in E. subst y.
          destruct Hlen as [L1 [L2 L3]].
          destruct (zip4_cover_c (f_yield f) cb (f_iters f) (f_res f) v (in_combine_l _ _ _ _ Hin)) as [g [Hg Hvg]]; try lia.
          apply (gv_in g v); [unfold groups; rewrite Hb; exact Hg | exact Hvg].
      - left. split; [exact Hu | intro Hc; apply Hnd; apply defined_in_cons; right; exact Hc]. }
    split; [|split; [|split; [|split]]].
    - split; [exact Hs'|]. split; [|split; [|split]].
      + intros v r Hv. exact (H1' v r (Hsub v Hv)).
      + intros v1 v2 r Hv1 Hv2 Hne Hq1 Hq2.
        destruct (H2' v1 v2 r (Hsub v1 Hv1) (Hsub v2 Hv2) Hne Hq1 Hq2) as [H|[H|[g [Hg [Hg1 _]]]]];
          [left; exact H | right; left; exact H|].
        left. exists v1. unfold t0', rebased.
        assert (Em : memN v1 gv = true) by (apply memN_In; exact (gv_in g v1 Hg Hg1)). rewrite Em. exact Hq1.
      + intros v Hv. unfold t0', rebased. destruct (memN v gv) eqn:Em; [reflexivity|].
        assert (Hvg : ~ In v gv) by (intro Hc; apply memN_In in Hc; congruence).
        apply Hf6. intros [Hm|Hacc].
        * apply Hv. destruct Hm as [Hu|Hd]; [left; apply used_in_cons; right; exact Hu | right; apply defined_in_cons; right; exact Hd].
        * apply Hv. left. apply used_in_cons. left. unfold uses, sop_operands, Yop. simpl. rewrite Hb. simpl.
          unfold acc_of in Hacc. apply in_app_or in Hacc. destruct Hacc as [Hacc|Hacc].
          -- apply in_app_or in Hacc. destruct Hacc as [Hacc|Hacc].
             ++ apply in_app_or in Hacc. destruct Hacc as [Hacc|Hacc].
                ** apply in_app_or in Hacc. destruct Hacc as [Hacc|Hacc]; [|contradiction].
                   right. apply in_or_app. left. apply in_or_app. left. exact Hacc.
                ** destruct Hacc as [Hacc|[]]. left. exact Hacc.
             ++ destruct Hacc as [Hacc|[]]. right. apply in_or_app. left. apply in_or_app. right. left. exact Hacc.
          -- right. apply in_or_app. left. apply in_or_app. right. right. exact Hacc.
      + intros v r Hv. exact (H5' v r (Hsub v Hv)).
    - intros v Hv. destruct (Hsub v Hv) as [HS|Hacc]; [exact (HallS v HS) | exact (Hallacc v Hacc)].
    - intros w1 w2 r Hw1 Hw2 Hr1 Hr2. destruct (Nat.eq_dec w1 w2) as [E|E].
      + subst w2. apply in_concat in Hw1. destruct Hw1 as [g [Hg Hwg]]. exists g. repeat split; assumption.
      + exact (Hshare w1 w2 r (or_intror (Hgv_acc w1 Hw1)) Hw2 E Hr1 Hr2).
    - intros w r Hw Hr Hc. assert (Hne : iv <> w) by (intro; subst; contradiction).
      assert (Hivacc : setof (live post) acc_of iv).
      { right. unfold acc_of. apply in_or_app; left; apply in_or_app; left; apply in_or_app; right; left; reflexivity. }
      destruct (Hshare iv w r Hivacc Hw Hne Hc Hr) as [g [Hg [Hivg _]]]. exact (Hiv (gv_in g iv Hg Hivg)).
    - intros w r Hw Hr. split.
      + intros Hneg. destruct (so_neg_ty c t00 a6 Hs6 w r Hr Hneg) as [_ [H|H]]; [exact H | exfalso; exact (no_pset00 r H)].
      + destruct (so_prov c t00 a6 Hs6 w r Hr eq_refl) as [H|[H|[[Hz [H0 _]]|H]]];
          [left; exact H | right; exact H | exfalso; subst r; exact (Hnz0 Hz w Hw Hr) | exfalso; exact (no_pset00 r H)].
  Qed.

  Lemma FR'_pre : forall a6 v r, t0' a6 v = Some r -> FR' a6 v r.
  Proof.
    intros a6 v r H. unfold t0', rebased, t00 in H. destruct (memN v gv) eqn:Em; [|discriminate].
    exists v. split; [apply memN_In; exact Em|]. split; [exact H | constructor].
  Qed.
  Lemma FR'_tie : forall a6 o' x y, In o' V -> In (x, y) (s_io o') ->
    forall r, (FR' a6 x r -> FR' a6 y r) /\ (FR' a6 y r -> FR' a6 x r).
  Proof.
    intros a6 o' x y Ho Hin r. assert (Ht : ltie pre f post x y) by (left; exists o'; split; assumption).
    split; intros [w [Hw [Hr Hc]]]; exists w; (split; [exact Hw|]); (split; [exact Hr|]).
    - exact (tc_step pre f post w x y Hc (or_introl Ht)).
    - exact (tc_step pre f post w y x Hc (or_intror Ht)).
  Qed.

  (* the members of one group are connected by ties *)
  Lemma group_conn : forall g u w, In g gs -> In u g -> In w g -> tconn pre f post u w.
  Proof.
    intros g u w Hg Hu Hw. destruct (group_members g Hg) as [b [it [y [r_ [E [HinH [HinY Hby]]]]]]]. subst g.
    assert (T1 : ltie pre f post it b).
    { left. exists H_. split; [rewrite V_split_H; apply in_or_app; right; left; reflexivity | exact HinH]. }
    assert (T2 : ltie pre f post b y). { right. rewrite Hb. simpl. exact Hby. }
    assert (T3 : ltie pre f post y r_).
    { left. exists Y_. split; [rewrite V_split_Y; apply in_or_app; right; left; reflexivity | exact HinY]. }
    assert (Cb : forall x, In x [b; it; y; r_] -> tconn pre f post b x).
    { intros x Hx. simpl in Hx. destruct Hx as [Hx|[Hx|[Hx|[Hx|[]]]]]; subst x.
      - constructor.
      - exact (tc_step _ _ _ b b it (tc_refl _ _ _ b) (or_intror T1)).
      - exact (tc_step _ _ _ b b y (tc_refl _ _ _ b) (or_introl T2)).
      - exact (tc_step _ _ _ b y r_ (tc_step _ _ _ b b y (tc_refl _ _ _ b) (or_introl T2)) (or_introl T3)). }
    exact (tconn_trans _ _ _ u b w (tconn_sym _ _ _ b u (Cb u Hu)) (Cb w Hw)).
  Qed.

  Hypothesis Htie_ok : forall p s, V = p ++ s -> forall v1 v2, live s v1 -> live s v2 -> v1 <> v2 ->
    tconn pre f post v1 v2 -> False.          (* values tied into one register are never live together *)

  Lemma iters_in_gv : forall it, In it (f_iters f) -> In it gv.
  Proof.
    intros it Hit. destruct Hlen as [L1 [L2 L3]].
    destruct (zip4_cover_b (f_iters f) cb (f_yield f) (f_res f) it Hit) as [g [Hg Hitg]]; try lia.
    apply (gv_in g it); [unfold groups; rewrite Hb; exact Hg | exact Hitg].
  Qed.
  Lemma cb_in_gv : forall b, In b cb -> In b gv.
  Proof.
    intros b Hbin. destruct Hlen as [L1 [L2 L3]].
    destruct (zip4_cover_a cb (f_iters f) (f_yield f) (f_res f) b Hbin) as [g [Hg Hbg]]; try lia.
    apply (gv_in g b); [unfold groups; rewrite Hb; exact Hg | exact Hbg].
  Qed.
  Lemma res_in_gv : forall d, In d (f_res f) -> In d gv.
  Proof.
    intros d Hdr. destruct Hlen as [L1 [L2 L3]].
    destruct (zip4_cover_d (f_res f) cb (f_iters f) (f_yield f) d Hdr) as [g [Hg Hdg]]; try lia.
    apply (gv_in g d); [unfold groups; rewrite Hb; exact Hg | exact Hdg].
  Qed.
  Lemma defs_Y : forall d, In d (defs Y_) -> In d gv.
  Proof.
    intros d Hd. unfold defs, sop_results, Yop in Hd. simpl in Hd. apply in_map_iff in Hd.
    destruct Hd as [[y r_] [E Hin]]. simpl in E. subst r_. exact (res_in_gv d (in_combine_r _ _ _ _ Hin)).
  Qed.
  Lemma defs_H : forall d, In d (defs H_) <-> d = iv \/ In d cb.
  Proof.
    intros d. unfold defs, sop_results, Hop. simpl. rewrite Hb. simpl. split.
    - intros [H|H]; [left; symmetry; exact H|]. right. apply in_map_iff in H. destruct H as [[x y] [E Hin]].
      simpl in E. subst y. exact (in_combine_r _ _ _ _ Hin).
    - intros [H|H]; [left; symmetry; exact H|]. right.
      destruct Hlen as [L1 _]. 
      assert (Hex : exists x, In (x, d) (combine (f_iters f) cb)).
      { clear - H L1. revert L1. generalize (f_iters f) as its. induction cb as [|h t IH]; intros its L1; [destruct H|].
        destruct its as [|i its]; [simpl in L1; lia|]. simpl in *. destruct H as [H|H].
        - subst. exists i. left. reflexivity.
        - destruct (IH H its) as [x Hx]; [lia|]. exists x. right. exact Hx. }
      destruct Hex as [x Hx]. apply in_map_iff. exists (x, d). split; [reflexivity | exact Hx].
  Qed.

  Notation R_ := (f_body f ++ Y_ :: post).

  (* ---- the loop header: unreserve, free the induction variable, allocate lb ---- *)
  Lemma hphase : forall a6 a7 s8 a' riv,
    (forall w1 w2 r, In w1 gv -> In w2 gv -> ty a6 w1 = Some r -> ty a6 w2 = Some r ->
          exists g, In g gs /\ In w1 g /\ In w2 g) ->
    (forall w r, In w gv -> ty a6 w = Some r -> ty a6 iv <> Some r) ->
    (forall w r, In w gv -> ty a6 w = Some r ->
          (r < 0 -> allow_inf (stk a6) = true)
          /\ (In r (allocatable (stk a6)) \/ (r < 0 /\ allow_inf (stk a6) = true))) ->
    (forall v, In v gv -> exists r, ty a6 v = Some r) ->
    ty a6 iv = Some riv ->
    Inv c (t0' a6) (FR' a6) (live R_) Enone (ment R_) a7 ->
    (forall v, live R_ v -> exists r, ty a7 v = Some r) ->
    mono a6 a7 -> same_pool (stk a6) (stk a7) ->
    fold_res unreserve_register (somes (map (ty a6) (f_iters f))) (stk a7) = Ok s8 ->
    allocate_value c (f_lb f) (fold_left (fun a v => free_value v a) (firstn 1 (f_bargs f)) (set_stk a7 s8)) = Ok a' ->
    Inv0 (live (H_ :: R_)) Enone (ment (H_ :: R_)) a'
    /\ (forall v, live (H_ :: R_) v -> exists r, ty a' v = Some r) /\ mono a7 a'.
  Proof.
    intros a6 a7 s8 a' riv DG IVF RF Hgvty Hivty HI7 Hall7 Hm67 [Pal Pallow] Hunres Hlb.
    pose proof (FH (FR' a6) (FR'_tie a6)) as FHf.
    set (L7 := live R_) in *. set (M7 := ment R_) in *.
    assert (Hpset' : forall r, Pset (t0' a6) r -> exists w, In w gv /\ ty a6 w = Some r).
    { intros r [w Hw]. unfold t0', rebased, t00 in Hw. destruct (memN w gv) eqn:Em; [|discriminate].
      exists w. split; [apply memN_In; exact Em | exact Hw]. }
    (* the iter operands hold their group registers and were not touched by the body *)
    assert (Hit_facts : forall it, In it (f_iters f) -> ~ M7 it /\ exists r, ty a7 it = Some r).
    { intros it Hit. destruct Hlen as [L1 _].
      destruct (in_combine_l_ex (f_iters f) cb it Hit) as [b Hpair]; [lia|].
      assert (HitH : In it (map fst (s_io H_))).
      { unfold Hop. simpl. rewrite Hb. simpl. apply in_map_iff. exists (it, b). split; [reflexivity | exact Hpair]. }
      split.
      - intros [Hu|Hd]; [exact (of_io_dead c _ H_ _ FHf it HitH Hu)|].
        assert (Hu' : In it (uses H_)) by (unfold uses, sop_operands; apply in_or_app; right; exact HitH).
        exact (proj2 (of_use c _ H_ _ FHf it Hu') Hd).
      - destruct (Hgvty it (iters_in_gv it Hit)) as [r Hr]. exists r. apply Hm67. exact Hr. }
    pose proof (add_untouched_list c (t0' a6) (FR' a6) (FR'_pre a6) (f_iters f) L7 Enone M7 a7 HI7 Hit_facts) as HIa.
    destruct HIa as [Hs' [H1' [H2' [Hf' H5']]]].
    set (L2 := fun v => (L7 v /\ ~ In v cb) \/ In v (f_iters f)).
    set (M2 := fun v => M7 v \/ In v (f_iters f) \/ In v gv).
    assert (HL2sub : forall v, L2 v -> setof L7 (f_iters f) v).
    { intros v [[Hv _]|Hv]; [left; exact Hv | right; exact Hv]. }
    assert (Hiv_ty7 : ty a7 iv = Some riv) by (apply Hm67; exact Hivty).
    assert (HLH : forall v, L2 v -> v <> iv -> live (H_ :: R_) v).
    { intros v HL Hne. destruct HL as [[[Hu Hnd] Hncb]|Hit].
      - split; [apply used_in_cons; right; exact Hu|]. intro Hc. apply defined_in_cons in Hc.
        destruct Hc as [Hc|Hc]; [|exact (Hnd Hc)]. apply defs_H in Hc. destruct Hc as [Hc|Hc]; [exact (Hne Hc) | exact (Hncb Hc)].
      - assert (HuH : In v (uses H_)).
        { unfold uses, sop_operands, Hop. simpl. right. right. apply in_or_app. right. rewrite Hb. simpl.
          destruct Hlen as [L1 _]. destruct (in_combine_l_ex (f_iters f) cb v Hit) as [b Hp]; [lia|].
          apply in_map_iff. exists (v, b). split; [reflexivity | exact Hp]. }
        split; [apply used_in_cons; left; exact HuH|]. intro Hc. apply defined_in_cons in Hc.
        destruct (of_use c _ H_ _ FHf v HuH) as [N1 N2]. destruct Hc as [Hc|Hc]; [exact (N1 Hc) | exact (N2 Hc)]. }
    assert (HI00 : Inv0 L2 Enone M2 a7).
    { split; [|split; [|split; [|split]]].
      - constructor.
        + exact (so_nodup _ _ a7 Hs').
        + exact (so_avail _ _ a7 Hs').
        + exact (so_avail_nres _ _ a7 Hs').
        + exact (so_neg_avail _ _ a7 Hs').
        + intros v r Hr Hneg. destruct (so_neg_ty _ _ a7 Hs' v r Hr Hneg) as [K [K2|K2]]; (split; [exact K|]); left; [exact K2|].
          destruct (Hpset' r K2) as [w [Hw Hrw]]. rewrite Pallow. exact (proj1 (RF w r Hw Hrw) Hneg).
        + exact (so_next _ _ a7 Hs').
        + exact (so_res_lt _ _ a7 Hs').
        + intros r HP. exfalso. exact (no_pset00 r HP).
        + intros Hz. split; [exact (proj1 (so_zero _ _ a7 Hs' Hz)) | apply no_pset00].
        + intros v r Hv. discriminate.
        + exact (so_zero_ty _ _ a7 Hs').
        + intros v r Hr _.
          assert (Hgreg_prov : forall w, In w gv -> ty a6 w = Some r ->
                    In r (allocatable (stk a7)) \/ (r < 0 /\ allow_inf (stk a7) = true)
                    \/ (zero_rule c = true /\ r = 0 /\ In v (zconsts c)) \/ Pset t00 r).
          { intros w Hw Hrw. rewrite Pal, Pallow. destruct (proj2 (RF w r Hw Hrw)) as [H|H]; [left; exact H | right; left; exact H]. }
          destruct (t0' a6 v) as [q|] eqn:Et.
          * pose proof (so_mono _ _ a7 Hs' v q Et) as E. rewrite Hr in E. inversion E; subst q.
            destruct (Hpset' r (ex_intro _ v Et)) as [w [Hw Hrw]]. exact (Hgreg_prov w Hw Hrw).
          * destruct (so_prov _ _ a7 Hs' v r Hr Et) as [H|[H|[H|H]]];
              [left; exact H | right; left; exact H | right; right; left; exact H|].
            destruct (Hpset' r H) as [w [Hw Hrw]]. exact (Hgreg_prov w Hw Hrw).
      - intros v r Hv Hr. exact (H1' v r (HL2sub v Hv) Hr).
      - intros v1 v2 r Hv1 Hv2 Hne Hq1 Hq2.
        destruct (H2' v1 v2 r (HL2sub v1 Hv1) (HL2sub v2 Hv2) Hne Hq1 Hq2) as [HP|[Hz|[]]]; [|right; left; exact Hz].
        exfalso. destruct (Hpset' r HP) as [w [Hw Hrw]].
        destruct (Nat.eq_dec v1 iv) as [E1|E1].
        { subst v1. rewrite Hiv_ty7 in Hq1. inversion Hq1; subst riv. exact (IVF w r Hw Hrw Hivty). }
        destruct (Nat.eq_dec v2 iv) as [E2|E2].
        { subst v2. rewrite Hiv_ty7 in Hq2. inversion Hq2; subst riv. exact (IVF w r Hw Hrw Hivty). }
        destruct (H5' v1 r (HL2sub v1 Hv1) Hq1 HP) as [w1 [Hw1 [Hr1 C1]]].
        destruct (H5' v2 r (HL2sub v2 Hv2) Hq2 HP) as [w2 [Hw2 [Hr2 C2]]].
        destruct (DG w1 w2 r Hw1 Hw2 Hr1 Hr2) as [g [Hg [Hg1 Hg2]]].
        apply (Htie_ok pre (H_ :: R_) V_split_H v1 v2 (HLH v1 Hv1 E1) (HLH v2 Hv2 E2) Hne).
        apply (tconn_trans _ _ _ v1 w1 v2); [apply tconn_sym; exact C1|].
        apply (tconn_trans _ _ _ w1 w2 v2); [exact (group_conn g w1 w2 Hg Hg1 Hg2) | exact C2].
      - intros v Hv. rewrite (Hf' v).
        + unfold t0', rebased. destruct (memN v gv) eqn:Em; [|reflexivity].
          exfalso. apply Hv. right. right. apply memN_In. exact Em.
        + intros [Hc|Hc]; apply Hv; [left; exact Hc | right; left; exact Hc].
      - intros v r _ _ HP. exfalso. exact (no_pset00 r HP). }
    (* unreserve *)
    destruct (unreserve_fields _ _ _ Hunres) as [Fal [Fav [Fn [Fi Fk]]]].
    pose proof (unreserve_inv00 c FR00 L2 Enone M2 a7 s8 HI00 Fal Fav Fn Fi Fk) as HI8.
    (* free the induction variable *)
    rewrite Hb in Hlb. simpl in Hlb.
    assert (HL2iv : L2 iv).
    { left. split.
      - split.
        + apply used_in_app. right. apply used_in_cons. left. unfold uses, sop_operands, Yop. simpl. rewrite Hb. simpl. left. reflexivity.
        + apply (of_def c _ H_ _ FHf iv). apply defs_H. left. reflexivity.
      - intro Hc. exact (Hiv (cb_in_gv iv Hc)). }
    destruct (free_inv c t00 FR00 L2 Enone M2 (set_stk a7 s8) iv riv HI8 HL2iv Hiv_ty7) as [HI9 Hty9].
    { intros w. split; intros []. }
    (* allocate lb *)
    rewrite <- (fold_res_single (allocate_value c) (f_lb f)) in Hlb.
    assert (HI9' : Inv0 (setof (delv L2 iv) []) Enone (setof M2 []) (free_value iv (set_stk a7 s8))).
    { eapply Inv_weaken; [exact HI9 | intros v [Hv|[]]; exact Hv | intros v Hv; left; exact Hv]. }
    assert (HuH_lb : In (f_lb f) (uses H_)) by (unfold uses, sop_operands, Hop; simpl; left; reflexivity).
    destruct (alloc_list_phase c t00 FR00 FR00_pre (delv L2 iv) Enone M2 [f_lb f] [] _ a' HI9') as [HIf [Hmf [Half Hothf]]].
    { intros v [Hv|[]]. subst v. destruct (Hbnd (f_lb f) (or_introl eq_refl)) as [Hngv Hneiv].
      destruct (classic_ment R_ (f_lb f)) as [[Hu|Hd]|Hm].
      - left. split; [|exact Hneiv]. left. split.
        + split; [exact Hu | exact (proj2 (of_use c _ H_ _ FHf _ HuH_lb))].
        + intro Hc. exact (Hngv (cb_in_gv _ Hc)).
      - exfalso. exact (proj2 (of_use c _ H_ _ FHf _ HuH_lb) Hd).
      - right. intros [Hc|[Hc|Hc]]; [exact (Hm Hc) | exact (Hngv (iters_in_gv _ Hc)) | exact (Hngv Hc)]. }
    { exact Hlb. }
    simpl in HIf.
    assert (Hm7f : mono a7 a').
    { intros w q Hq. apply Hmf. rewrite Hty9. simpl. exact Hq. }
    assert (Hsubf : forall v, live (H_ :: R_) v -> setof (delv L2 iv) [f_lb f] v).
    { intros v [Hu Hnd]. assert (Hnd1 : ~ In v (defs H_)) by (intro Hc; apply Hnd; apply defined_in_cons; left; exact Hc).
      assert (Hnd2 : ~ defined_in R_ v) by (intro Hc; apply Hnd; apply defined_in_cons; right; exact Hc).
      assert (Hneiv : v <> iv) by (intro Hc; apply Hnd1; apply defs_H; left; exact Hc).
      assert (Hncb : ~ In v cb) by (intro Hc; apply Hnd1; apply defs_H; right; exact Hc).
      apply used_in_cons in Hu. destruct Hu as [Hu|Hu].
      - unfold uses, sop_operands, Hop in Hu. simpl in Hu. destruct Hu as [Hu|[Hu|Hu]].
        + right. left. exact Hu.
        + left. split; [|exact Hneiv]. left. split; [|exact Hncb]. subst v. split; [|exact Hnd2].
          apply used_in_app. right. apply used_in_cons. left. unfold uses, sop_operands, Yop. simpl.
          apply in_or_app. left. apply in_or_app. right. apply in_or_app. right. left. reflexivity.
        + apply in_app_or in Hu. destruct Hu as [Hu|Hu].
          * left. split; [|exact Hneiv]. left. split; [|exact Hncb]. split; [|exact Hnd2].
            apply used_in_app. right. apply used_in_cons. left. unfold uses, sop_operands, Yop. simpl.
            apply in_or_app. left. apply in_or_app. right. apply in_or_app. right. right. exact Hu.
          * left. split; [|exact Hneiv]. right. rewrite Hb in Hu. simpl in Hu.
            apply in_map_iff in Hu. destruct Hu as [[x y] [E Hin]]. simpl in E. subst x. exact (in_combine_l _ _ _ _ Hin).
      - left. split; [|exact Hneiv]. left. split; [split; assumption | exact Hncb]. }
    split; [|split; [|exact Hm7f]].
    - eapply Inv_weaken; [exact HIf | exact Hsubf |].
      intros v [[Hm|[Hit|Hg]]|Hlbv].
      + destruct Hm as [Hu|Hd]; [left; apply used_in_cons; right; exact Hu | right; apply defined_in_cons; right; exact Hd].
      + destruct (HLH v (or_intror Hit)) as [Hu _]; [|left; exact Hu].
        intro Hc. subst v. exact (Hiv (iters_in_gv iv Hit)).
      + apply in_concat in Hg. destruct Hg as [g [Hg Hvg]].
        destruct (group_members g Hg) as [b [it [y [r_ [E [HinH [HinY _]]]]]]]. subst g. simpl in Hvg.
        destruct Hvg as [Hv|[Hv|[Hv|[Hv|[]]]]]; subst v.
        * right. apply defined_in_cons. left. unfold defs, sop_results. apply in_or_app. right.
          apply in_map_iff. exists (it, b). split; [reflexivity | exact HinH].
        * left. apply used_in_cons. left. unfold uses, sop_operands. apply in_or_app. right.
          apply in_map_iff. exists (it, b). split; [reflexivity | exact HinH].
        * left. apply used_in_cons. right. apply used_in_app. right. apply used_in_cons. left.
          unfold uses, sop_operands. apply in_or_app. right. apply in_map_iff. exists (y, r_). split; [reflexivity | exact HinY].
        * right. apply defined_in_cons. right. apply defined_in_app. right. apply defined_in_cons. left.
          unfold defs, sop_results. apply in_or_app. right. apply in_map_iff. exists (y, r_). split; [reflexivity | exact HinY].
      + simpl in Hlbv. destruct Hlbv as [Hlbv|[]]. subst v. left. apply used_in_cons. left. exact HuH_lb.
    - intros v Hv. destruct (Hsubf v Hv) as [[[[HL7 _]|Hit] _]|Hlbv].
      + destruct (Hall7 v HL7) as [r Hr]. exists r. apply Hm7f. exact Hr.
      + destruct (proj2 (Hit_facts v Hit)) as [r Hr]. exists r. apply Hm7f. exact Hr.
      + exact (Half v Hlbv).
  Qed.

  Lemma virt_split : forall p s, V = p ++ s ->
    (exists ps', pre = p ++ ps' /\ s = ps' ++ H_ :: R_)
    \/ (exists bp bs, f_body f = bp ++ bs /\ p = pre ++ H_ :: bp /\ s = bs ++ Y_ :: post)
    \/ (exists pp, post = pp ++ s /\ p = (pre ++ H_ :: f_body f ++ [Y_]) ++ pp).
  Proof.
    intros p s Hsp. rewrite V_split_H in Hsp. apply app_eq_app in Hsp.
    destruct Hsp as [l [[E1 E2]|[E1 E2]]].
    - left. exists l. split; assumption.
    - destruct l as [|o l'].
      + left. exists []. simpl in E2. rewrite app_nil_r in E1. split; [rewrite app_nil_r; symmetry; exact E1 | symmetry; exact E2].
      + simpl in E2. inversion E2 as [[Eo E3]]. subst o. apply app_eq_app in E3.
        destruct E3 as [l2 [[F1 F2]|[F1 F2]]].
        * right. left. exists l', l2. split; [exact F1 | split; [exact E1 | exact F2]].
        * destruct l2 as [|o2 l3].
          -- right. left. exists (f_body f), []. simpl in F2. rewrite app_nil_r in F1. subst l'.
             split; [rewrite app_nil_r; reflexivity | split; [exact E1 | symmetry; exact F2]].
          -- simpl in F2. inversion F2 as [[Eo2 F3]]. subst o2. right. right. exists l3.
             split; [first [exact F3 | reflexivity]|]. rewrite E1, F1. rewrite <- !app_assoc. simpl. rewrite <- app_assoc. reflexivity.
  Qed.

  Definition loop_states_prop (a0 af ap a6 a7 ah : astate) : Prop :=
    allocate_sops c post a0 = Ok ap
    /\ Inv0 (live []) Enone (ment []) a0 /\ (forall v, live [] v -> exists r, ty a0 v = Some r)
    /\ mono ap a6
    /\ Inv c (t0' a6) (FR' a6) (live (Y_ :: post)) Enone (ment (Y_ :: post)) a6
    /\ (forall v, live (Y_ :: post) v -> exists r, ty a6 v = Some r)
    /\ (forall w1 w2 r, In w1 gv -> In w2 gv -> ty a6 w1 = Some r -> ty a6 w2 = Some r ->
          exists g, In g gs /\ In w1 g /\ In w2 g)
    /\ (forall w r, In w gv -> ty a6 w = Some r -> ty a6 iv <> Some r)
    /\ (exists riv, ty a6 iv = Some riv)
    /\ (forall v, In v gv -> exists r, ty a6 v = Some r)
    /\ (forall g, In g gs -> exists R, forall u, In u g -> ty a6 u = Some R)
    /\ allocate_sops c (f_body f) a6 = Ok a7
    /\ mono a7 ah
    /\ Inv0 (live (H_ :: R_)) Enone (ment (H_ :: R_)) ah
    /\ (forall v, live (H_ :: R_) v -> exists r, ty ah v = Some r)
    /\ allocate_sops c pre ah = Ok af.

  Lemma loop_states : forall a0 af,
    sok c t00 a0 -> (forall v, ty a0 v = None) ->
    allocate_block c (map Simple pre ++ For f :: map Simple post) a0 = Ok af ->
    exists ap a6 a7 ah, loop_states_prop a0 af ap a6 a7 ah.
  Proof.
    intros a0 af Hsok0 Hty0 Hrun.
    rewrite allocate_block_loop in Hrun.
    destruct (allocate_sops c post a0) as [ap|e] eqn:Epost; simpl in Hrun; [|discriminate].
    destruct (allocate_for c f ap) as [ah|e] eqn:Efor; simpl in Hrun; [|discriminate].
    rename Hrun into Epre.
    (* the start invariant *)
    assert (HIstart : Inv0 (live []) Enone (ment []) a0).
    { split; [exact Hsok0|]. split; [|split; [|split]].
      - intros v r [[o [[] _]] _].
      - intros v1 v2 r [[o [[] _]] _].
      - intros v _. exact (Hty0 v).
      - intros v r [[o [[] _]] _]. }
    assert (Hallstart : forall v, live [] v -> exists r, ty a0 v = Some r) by (intros v [[o [[] _]] _]).
    (* post walk *)
    assert (Hpostwalk : forall pp ps aps, post = pp ++ ps -> allocate_sops c ps a0 = Ok aps ->
              Inv0 (live ps) Enone (ment ps) aps /\ (forall v, live ps v -> exists r, ty aps v = Some r) /\ mono a0 aps).
    { intros pp ps aps Hp Hr.
      assert (Hl : V = ((pre ++ H_ :: f_body f ++ [Y_]) ++ pp) ++ ps ++ []).
      { rewrite app_nil_r. unfold virt. rewrite Hp. repeat rewrite <- app_assoc; simpl; repeat rewrite <- app_assoc; simpl; reflexivity. }
      pose proof (walk_from c t00 FR00 FR00_pre V Hwf Hio Hnz FR00_tie ps [] _ a0 aps Hl HIstart Hallstart Hr) as W.
      rewrite app_nil_r in W. exact W. }
    destruct (Hpostwalk [] post ap eq_refl Epost) as [HIp [Hallp Hm0p]].
    (* decompose allocate_for *)
    unfold allocate_for in Efor. rewrite Hb in Efor. cbn [tl firstn] in Efor.
    destruct (fold_res (allocate_value c) li ap) as [a1|e] eqn:E1; cbn [bind] in Efor; [|discriminate].
    destruct (fold_res allocate_values_same_reg (zip4 cb (f_iters f) (f_yield f) (f_res f)) a1) as [a2|e] eqn:E2;
      cbn [bind] in Efor; [|discriminate].
    destruct (fold_res (allocate_value c) [iv] a2) as [a3|e] eqn:E3; cbn [bind] in Efor; [|discriminate].
    destruct (allocate_value c (f_ub f) a3) as [a4|e] eqn:E4; cbn [bind] in Efor; [|discriminate].
    destruct (match f_step f with Some s0 => allocate_value c s0 a4 | None => Ok a4 end) as [a5|e] eqn:E5;
      cbn [bind] in Efor; [|discriminate].
    set (regs := somes (map (ty a5) (f_iters f))) in *.
    set (a6 := set_stk a5 (fold_left (fun s r => reserve_register r s) regs (stk a5))) in *.
    destruct (allocate_sops c (f_body f) a6) as [a7|e] eqn:E7; cbn [bind] in Efor; [|discriminate].
    destruct (fold_res unreserve_register regs (stk a7)) as [s8|e] eqn:E8; cbn [bind] in Efor; [|discriminate].
    assert (E2' : fold_res allocate_values_same_reg gs a1 = Ok a2). { unfold groups. rewrite Hb. exact E2. }
    destruct (yphase ap a1 a2 a3 a4 a5 HIp Hallp E1 E2' E3 E4 E5) as [HI6 [Hmp6 [Hacc6 Hgreg6]]].
    fold regs in HI6, Hgreg6, Hacc6, Hmp6. fold a6 in HI6, Hgreg6, Hacc6, Hmp6.
    assert (HallS6 : forall v, live post v -> exists r, ty a6 v = Some r).
    { intros v Hv. destruct (Hallp v Hv) as [r Hr]. exists r. apply Hmp6. exact Hr. }
    destruct (yrebase a6 HI6 HallS6 Hacc6 Hgreg6) as [HI6' [Hall6' [DG [IVF RF]]]].
    (* body walk *)
    assert (Hbodywalk : forall bp bs abs, f_body f = bp ++ bs -> allocate_sops c bs a6 = Ok abs ->
              Inv c (t0' a6) (FR' a6) (live (bs ++ Y_ :: post)) Enone (ment (bs ++ Y_ :: post)) abs
              /\ (forall v, live (bs ++ Y_ :: post) v -> exists r, ty abs v = Some r) /\ mono a6 abs).
    { intros bp bs abs Hbd Hr.
      assert (Hl : V = (pre ++ H_ :: bp) ++ bs ++ Y_ :: post).
      { unfold virt. rewrite Hbd. repeat rewrite <- app_assoc; simpl; repeat rewrite <- app_assoc; simpl; reflexivity. }
      exact (walk_from c (t0' a6) (FR' a6) (FR'_pre a6) V Hwf Hio Hnz (FR'_tie a6) bs (Y_ :: post) _ a6 abs Hl HI6' Hall6' Hr). }
    destruct (Hbodywalk [] (f_body f) a7 eq_refl E7) as [HI7 [Hall7 Hm67]].
    (* header *)
    assert (Hgvty6 : forall v, In v gv -> exists r, ty a6 v = Some r).
    { intros v Hv. apply in_concat in Hv. destruct Hv as [g [Hg Hvg]]. destruct (Hgreg6 g Hg) as [R [HR _]].
      exists R. exact (HR v Hvg). }
    assert (Hiv6 : exists riv, ty a6 iv = Some riv).
    { apply Hacc6. apply in_or_app; left; apply in_or_app; left; apply in_or_app; right; left; reflexivity. }
    destruct Hiv6 as [riv Hiv6].
    assert (Hregs6 : regs = somes (map (ty a6) (f_iters f))) by reflexivity.
    rewrite Hregs6 in E8.
    assert (Efor' : allocate_value c (f_lb f) (fold_left (fun a v => free_value v a) (firstn 1 (f_bargs f)) (set_stk a7 s8)) = Ok ah).
    { rewrite Hb. cbn [firstn]. exact Efor. }
    destruct (hphase a6 a7 s8 ah riv DG IVF RF Hgvty6 Hiv6 HI7 Hall7 Hm67 (allocate_sops_pool c _ a6 a7 E7) E8 Efor')
      as [HIh [Hallh Hm7h]].
    (* pre walk *)
    assert (Hprewalk : forall pp ps aps, pre = pp ++ ps -> allocate_sops c ps ah = Ok aps ->
              Inv0 (live (ps ++ H_ :: R_)) Enone (ment (ps ++ H_ :: R_)) aps
              /\ (forall v, live (ps ++ H_ :: R_) v -> exists r, ty aps v = Some r) /\ mono ah aps).
    { intros pp ps aps Hp Hr.
      assert (Hl : V = pp ++ ps ++ H_ :: R_). { unfold virt. rewrite Hp. rewrite <- app_assoc. reflexivity. }
      exact (walk_from c t00 FR00 FR00_pre V Hwf Hio Hnz FR00_tie ps (H_ :: R_) pp ah aps Hl HIh Hallh Hr). }
    destruct (Hprewalk [] pre af eq_refl Epre) as [_ [_ Hmhf]].
    assert (Hm6f : mono a6 af). { intros w q Hq. apply Hmhf. apply Hm7h. apply Hm67. exact Hq. }
    exists ap, a6, a7, ah. unfold loop_states_prop.
    split; [exact Epost|]. split; [exact HIstart|]. split; [exact Hallstart|]. split; [exact Hmp6|].
    split; [exact HI6'|]. split; [exact Hall6'|]. split; [exact DG|]. split; [exact IVF|].
    split; [exists riv; exact Hiv6|]. split; [exact Hgvty6|]. split; [intros g Hg; destruct (Hgreg6 g Hg) as [R [HR _]]; exists R; exact HR|]. split; [exact E7|]. split; [exact Hm7h|]. split; [exact HIh|].
    split; [exact Hallh | exact Epre].
  Qed.

  Theorem loop_no_interference : forall a0 af,
    sok c t00 a0 -> (forall v, ty a0 v = None) ->
    allocate_block c (map Simple pre ++ For f :: map Simple post) a0 = Ok af ->
    forall p s, V = p ++ s ->
      (forall v, live s v -> exists r, ty af v = Some r)
      /\ (forall v1 v2 r, live s v1 -> live s v2 -> v1 <> v2 -> ty af v1 = Some r -> ty af v2 = Some r ->
            zero_rule c = true /\ r = 0).
  Proof.
    intros a0 af Hsok0 Hty0 Hrun.
    destruct (loop_states a0 af Hsok0 Hty0 Hrun) as [ap [a6 [a7 [ah St]]]].
    destruct St as [Epost [HIstart [Hallstart [Hmp6 [HI6' [Hall6' [DG [IVF [[riv Hiv6] [Hgvty6 [GT [E7 [Hm7h [HIh [Hallh Epre]]]]]]]]]]]]]]].
    assert (Hpostwalk : forall pp ps aps, post = pp ++ ps -> allocate_sops c ps a0 = Ok aps ->
              Inv0 (live ps) Enone (ment ps) aps /\ (forall v, live ps v -> exists r, ty aps v = Some r) /\ mono a0 aps).
    { intros pp ps aps Hp Hr.
      assert (Hl : V = ((pre ++ H_ :: f_body f ++ [Y_]) ++ pp) ++ ps ++ []).
      { rewrite app_nil_r. unfold virt. rewrite Hp. repeat rewrite <- app_assoc; simpl; repeat rewrite <- app_assoc; simpl; reflexivity. }
      pose proof (walk_from c t00 FR00 FR00_pre V Hwf Hio Hnz FR00_tie ps [] _ a0 aps Hl HIstart Hallstart Hr) as W.
      rewrite app_nil_r in W. exact W. }
    assert (Hbodywalk : forall bp bs abs, f_body f = bp ++ bs -> allocate_sops c bs a6 = Ok abs ->
              Inv c (t0' a6) (FR' a6) (live (bs ++ Y_ :: post)) Enone (ment (bs ++ Y_ :: post)) abs
              /\ (forall v, live (bs ++ Y_ :: post) v -> exists r, ty abs v = Some r) /\ mono a6 abs).
    { intros bp bs abs Hbd Hr.
      assert (Hl : V = (pre ++ H_ :: bp) ++ bs ++ Y_ :: post).
      { unfold virt. rewrite Hbd. repeat rewrite <- app_assoc; simpl; repeat rewrite <- app_assoc; simpl; reflexivity. }
      exact (walk_from c (t0' a6) (FR' a6) (FR'_pre a6) V Hwf Hio Hnz (FR'_tie a6) bs (Y_ :: post) _ a6 abs Hl HI6' Hall6' Hr). }
    destruct (Hbodywalk [] (f_body f) a7 eq_refl E7) as [_ [_ Hm67]].
    assert (Hprewalk : forall pp ps aps, pre = pp ++ ps -> allocate_sops c ps ah = Ok aps ->
              Inv0 (live (ps ++ H_ :: R_)) Enone (ment (ps ++ H_ :: R_)) aps
              /\ (forall v, live (ps ++ H_ :: R_) v -> exists r, ty aps v = Some r) /\ mono ah aps).
    { intros pp ps aps Hp Hr.
      assert (Hl : V = pp ++ ps ++ H_ :: R_). { unfold virt. rewrite Hp. rewrite <- app_assoc. reflexivity. }
      exact (walk_from c t00 FR00 FR00_pre V Hwf Hio Hnz FR00_tie ps (H_ :: R_) pp ah aps Hl HIh Hallh Hr). }
    destruct (Hprewalk [] pre af eq_refl Epre) as [_ [_ Hmhf]].
    assert (Hm6f : mono a6 af). { intros w q Hq. apply Hmhf. apply Hm7h. apply Hm67. exact Hq. }
    (* every program point *)
    intros p s Hsp. destruct (virt_split p s Hsp) as [[ps' [Ep Es]]|[[bp [bs [Eb [Ep Es]]]]|[pp [Ep Ep2]]]].
    - (* a point in the code before the loop (or just before the loop) *)
      subst s. rewrite Ep in Epre. rewrite allocate_sops_app in Epre.
      destruct (allocate_sops c ps' ah) as [aps|e] eqn:Eps; simpl in Epre; [|discriminate].
      destruct (Hprewalk p ps' aps Ep Eps) as [[_ [_ [HG2 _]]] [Hal _]].
      assert (Hl : V = [] ++ p ++ ps' ++ H_ :: R_). { simpl. unfold virt. rewrite Ep. rewrite <- app_assoc. reflexivity. }
      destruct (Hprewalk p ps' aps Ep Eps) as [HIps [Halps _]].
      destruct (walk_from c t00 FR00 FR00_pre V Hwf Hio Hnz FR00_tie p (ps' ++ H_ :: R_) [] aps af Hl HIps Halps Epre)
        as [_ [_ Hmf]].
      split.
      + intros v Hv. destruct (Hal v Hv) as [r Hr]. exists r. apply Hmf. exact Hr.
      + intros v1 v2 r Hv1 Hv2 Hne H1 H2.
        destruct (Hal v1 Hv1) as [r1 Hr1]. destruct (Hal v2 Hv2) as [r2 Hr2].
        pose proof (Hmf v1 r1 Hr1) as X1. pose proof (Hmf v2 r2 Hr2) as X2. rewrite H1 in X1. rewrite H2 in X2.
        inversion X1; inversion X2; subst r1 r2.
        destruct (HG2 v1 v2 r Hv1 Hv2 Hne Hr1 Hr2) as [HP|[Hz|[]]]; [exfalso; exact (no_pset00 r HP) | exact Hz].
    - (* a point inside the loop body (incl. its start and its end) *)
      subst s. rewrite Eb in E7. rewrite allocate_sops_app in E7.
      destruct (allocate_sops c bs a6) as [abs|e] eqn:Ebs; simpl in E7; [|discriminate].
      destruct (Hbodywalk bp bs abs Eb Ebs) as [HIbs [Halbs _]].
      assert (Hl : V = (pre ++ [H_]) ++ bp ++ bs ++ Y_ :: post).
      { unfold virt. rewrite Eb. repeat rewrite <- app_assoc; simpl; repeat rewrite <- app_assoc; simpl; reflexivity. }
      destruct (walk_from c (t0' a6) (FR' a6) (FR'_pre a6) V Hwf Hio Hnz (FR'_tie a6) bp (bs ++ Y_ :: post) _ abs a7 Hl HIbs Halbs E7)
        as [_ [_ Hmb7]].
      assert (Hmf : mono abs af). { intros w q Hq. apply Hmhf. apply Hm7h. apply Hmb7. exact Hq. }
      destruct HIbs as [_ [_ [HG2 [_ HG5]]]].
      split.
      + intros v Hv. destruct (Halbs v Hv) as [r Hr]. exists r. apply Hmf. exact Hr.
      + intros v1 v2 r Hv1 Hv2 Hne H1 H2.
        destruct (Halbs v1 Hv1) as [r1 Hr1]. destruct (Halbs v2 Hv2) as [r2 Hr2].
        pose proof (Hmf v1 r1 Hr1) as X1. pose proof (Hmf v2 r2 Hr2) as X2. rewrite H1 in X1. rewrite H2 in X2.
        inversion X1; inversion X2; subst r1 r2.
        destruct (HG2 v1 v2 r Hv1 Hv2 Hne Hr1 Hr2) as [HP|[Hz|[]]]; [|exact Hz].
        exfalso.
        destruct (HG5 v1 r Hv1 Hr1 HP) as [w1 [Hw1 [Hq1 C1]]]. destruct (HG5 v2 r Hv2 Hr2 HP) as [w2 [Hw2 [Hq2 C2]]].
        destruct (DG w1 w2 r Hw1 Hw2 Hq1 Hq2) as [g [Hg [Hg1 Hg2]]].
        assert (Hl2 : V = (pre ++ H_ :: bp) ++ bs ++ Y_ :: post).
        { unfold virt. rewrite Eb. repeat rewrite <- app_assoc; simpl; repeat rewrite <- app_assoc; simpl; reflexivity. }
        apply (Htie_ok _ _ Hl2 v1 v2 Hv1 Hv2 Hne).
        apply (tconn_trans _ _ _ v1 w1 v2); [apply tconn_sym; exact C1|].
        apply (tconn_trans _ _ _ w1 w2 v2); [exact (group_conn g w1 w2 Hg Hg1 Hg2) | exact C2].
    - (* a point in the code after the loop *)
      rewrite Ep in Epost. rewrite allocate_sops_app in Epost.
      destruct (allocate_sops c s a0) as [aps|e] eqn:Eps; simpl in Epost; [|discriminate].
      destruct (Hpostwalk pp s aps Ep Eps) as [HIps [Halps _]].
      assert (Hl : V = (pre ++ H_ :: f_body f ++ [Y_]) ++ pp ++ s).
      { unfold virt. rewrite Ep. repeat rewrite <- app_assoc; simpl; repeat rewrite <- app_assoc; simpl; reflexivity. }
      destruct (walk_from c t00 FR00 FR00_pre V Hwf Hio Hnz FR00_tie pp s _ aps ap Hl HIps Halps Epost) as [_ [_ Hmsp]].
      assert (Hmf : mono aps af). { intros w q Hq. apply Hm6f. apply Hmp6. apply Hmsp. exact Hq. }
      destruct HIps as [_ [_ [HG2 _]]].
      split.
      + intros v Hv. destruct (Halps v Hv) as [r Hr]. exists r. apply Hmf. exact Hr.
      + intros v1 v2 r Hv1 Hv2 Hne H1 H2.
        destruct (Halps v1 Hv1) as [r1 Hr1]. destruct (Halps v2 Hv2) as [r2 Hr2].
        pose proof (Hmf v1 r1 Hr1) as X1. pose proof (Hmf v2 r2 Hr2) as X2. rewrite H1 in X1. rewrite H2 in X2.
        inversion X1; inversion X2; subst r1 r2.
        destruct (HG2 v1 v2 r Hv1 Hv2 Hne Hr1 Hr2) as [HP|[Hz|[]]]; [exfalso; exact (no_pset00 r HP) | exact Hz].
  Qed.

  Hypothesis Htie_ok_def : forall p o s, V = p ++ o :: s -> forall d v, In d (defs o) -> live s v -> d <> v ->
    tconn pre f post d v -> False.     (* ... and none is written while another one is live *)

  (* no result of an operation before, inside or after the loop is written into the register of a value
     that is live after that operation; the loop header's write of the induction variable clobbers
     nothing that is live in the body *)
  Theorem loop_no_clobber : forall a0 af,
    sok c t00 a0 -> (forall v, ty a0 v = None) ->
    allocate_block c (map Simple pre ++ For f :: map Simple post) a0 = Ok af ->
    (forall l1 o l2 rest, (pre = l1 ++ o :: l2 /\ rest = l2 ++ H_ :: R_)
                          \/ (f_body f = l1 ++ o :: l2 /\ rest = l2 ++ Y_ :: post)
                          \/ (post = l1 ++ o :: l2 /\ rest = l2) ->
       forall d v r, In d (defs o) -> live rest v -> d <> v -> ty af d = Some r -> ty af v = Some r ->
         zero_rule c = true /\ r = 0)
    /\ (forall v r, live R_ v -> v <> iv -> ty af iv = Some r -> ty af v = Some r -> zero_rule c = true /\ r = 0).
  Proof.
    intros a0 af Hsok0 Hty0 Hrun.
    destruct (loop_states a0 af Hsok0 Hty0 Hrun) as [ap [a6 [a7 [ah St]]]].
    destruct St as [Epost [HIstart [Hallstart [Hmp6 [HI6' [Hall6' [DG [IVF [[riv Hiv6] [Hgvty6 [GT [E7 [Hm7h [HIh [Hallh Epre]]]]]]]]]]]]]]].
    assert (Hl7 : V = (pre ++ [H_]) ++ f_body f ++ Y_ :: post).
    { unfold virt. repeat rewrite <- app_assoc; simpl; reflexivity. }
    destruct (walk_from c (t0' a6) (FR' a6) (FR'_pre a6) V Hwf Hio Hnz (FR'_tie a6) (f_body f) (Y_ :: post) _ a6 a7 Hl7 HI6' Hall6' E7)
      as [HI7 [Hall7 Hm67]].
    assert (Hlf : V = [] ++ pre ++ H_ :: R_) by reflexivity.
    destruct (walk_from c t00 FR00 FR00_pre V Hwf Hio Hnz FR00_tie pre (H_ :: R_) [] ah af Hlf HIh Hallh Epre) as [_ [_ Hmhf]].
    assert (Hm7f : mono a7 af). { intros w q Hq. apply Hmhf. apply Hm7h. exact Hq. }
    assert (Hm6f : mono a6 af). { intros w q Hq. apply Hm7f. apply Hm67. exact Hq. }
    split.
    - intros l1 o l2 rest [[Ep Er]|[[Eb Er]|[Ep Er]]] d v r Hd Hv Hne H1 H2; subst rest.
      + (* before the loop *)
        rewrite Ep in Epre. rewrite allocate_sops_app in Epre.
        destruct (allocate_sops c (o :: l2) ah) as [ao|e] eqn:Eo; simpl in Epre; [|discriminate].
        assert (Hl : V = l1 ++ (o :: l2) ++ H_ :: R_).
        { unfold virt. rewrite Ep. repeat rewrite <- app_assoc; simpl; reflexivity. }
        destruct (walk_head c t00 FR00 FR00_pre V Hwf Hio Hnz FR00_tie o l2 (H_ :: R_) l1 ah ao Hl HIh Hallh Eo)
          as [Hdal [Hhead [_ [_ [_ Hval]]]]].
        destruct (walk_from c t00 FR00 FR00_pre V Hwf Hio Hnz FR00_tie (o :: l2) (H_ :: R_) l1 ah ao Hl HIh Hallh Eo) as [HIo [Halo _]].
        assert (Hl' : V = [] ++ l1 ++ (o :: l2) ++ H_ :: R_) by exact Hl.
        destruct (walk_from c t00 FR00 FR00_pre V Hwf Hio Hnz FR00_tie l1 ((o :: l2) ++ H_ :: R_) [] ao af Hl' HIo Halo Epre) as [_ [_ Hmf]].
        destruct (Hdal d Hd) as [rd Hrd]. destruct (Hval v Hv) as [rv Hrv].
        pose proof (Hmf d rd Hrd) as X1. pose proof (Hmf v rv Hrv) as X2. rewrite H1 in X1. rewrite H2 in X2.
        inversion X1; inversion X2; subst rd rv.
        destruct (Hhead d v r Hd Hv Hne Hrd Hrv) as [HP|Hz]; [exfalso; exact (no_pset00 r HP) | exact Hz].
      + (* inside the body *)
        rewrite Eb in E7. rewrite allocate_sops_app in E7.
        destruct (allocate_sops c (o :: l2) a6) as [ao|e] eqn:Eo; simpl in E7; [|discriminate].
        assert (Hl : V = (pre ++ H_ :: l1) ++ (o :: l2) ++ Y_ :: post).
        { unfold virt. rewrite Eb. repeat rewrite <- app_assoc; simpl; repeat rewrite <- app_assoc; simpl; reflexivity. }
        destruct (walk_head c (t0' a6) (FR' a6) (FR'_pre a6) V Hwf Hio Hnz (FR'_tie a6) o l2 (Y_ :: post) _ a6 ao Hl HI6' Hall6' Eo)
          as [Hdal [Hhead [_ [Hfv [Hfd Hval]]]]].
        destruct (walk_from c (t0' a6) (FR' a6) (FR'_pre a6) V Hwf Hio Hnz (FR'_tie a6) (o :: l2) (Y_ :: post) _ a6 ao Hl HI6' Hall6' Eo)
          as [HIo [Halo _]].
        assert (Hl' : V = (pre ++ [H_]) ++ l1 ++ (o :: l2) ++ Y_ :: post).
        { unfold virt. rewrite Eb. repeat rewrite <- app_assoc; simpl; repeat rewrite <- app_assoc; simpl; reflexivity. }
        destruct (walk_from c (t0' a6) (FR' a6) (FR'_pre a6) V Hwf Hio Hnz (FR'_tie a6) l1 ((o :: l2) ++ Y_ :: post) _ ao a7 Hl' HIo Halo E7)
          as [_ [_ Hmo7]].
        assert (Hmf : mono ao af). { intros w q Hq. apply Hm7f. apply Hmo7. exact Hq. }
        destruct (Hdal d Hd) as [rd Hrd]. destruct (Hval v Hv) as [rv Hrv].
        pose proof (Hmf d rd Hrd) as X1. pose proof (Hmf v rv Hrv) as X2. rewrite H1 in X1. rewrite H2 in X2.
        inversion X1; inversion X2; subst rd rv.
        destruct (Hhead d v r Hd Hv Hne Hrd Hrv) as [HP|Hz]; [|exact Hz].
        exfalso.
        destruct (Hfd d r Hd Hrd HP) as [w1 [Hw1 [Hq1 C1]]]. destruct (Hfv v r Hv Hrv HP) as [w2 [Hw2 [Hq2 C2]]].
        destruct (DG w1 w2 r Hw1 Hw2 Hq1 Hq2) as [g [Hg [Hg1 Hg2]]].
        assert (Hl2 : V = (pre ++ H_ :: l1) ++ o :: (l2 ++ Y_ :: post)) by exact Hl.
        apply (Htie_ok_def _ o _ Hl2 d v Hd Hv Hne).
        apply (tconn_trans _ _ _ d w1 v); [apply tconn_sym; exact C1|].
        apply (tconn_trans _ _ _ w1 w2 v); [exact (group_conn g w1 w2 Hg Hg1 Hg2) | exact C2].
      + (* after the loop *)
        rewrite Ep in Epost. rewrite allocate_sops_app in Epost.
        destruct (allocate_sops c (o :: l2) a0) as [ao|e] eqn:Eo; simpl in Epost; [|discriminate].
        assert (Hl : V = ((pre ++ H_ :: f_body f ++ [Y_]) ++ l1) ++ (o :: l2) ++ []).
        { rewrite app_nil_r. unfold virt. rewrite Ep. repeat rewrite <- app_assoc; simpl; repeat rewrite <- app_assoc; simpl; reflexivity. }
        destruct (walk_head c t00 FR00 FR00_pre V Hwf Hio Hnz FR00_tie o l2 [] _ a0 ao Hl HIstart Hallstart Eo)
          as [Hdal [Hhead [_ [_ [_ Hval]]]]].
        destruct (walk_from c t00 FR00 FR00_pre V Hwf Hio Hnz FR00_tie (o :: l2) [] _ a0 ao Hl HIstart Hallstart Eo) as [HIo [Halo _]].
        assert (Hl' : V = (pre ++ H_ :: f_body f ++ [Y_]) ++ l1 ++ (o :: l2) ++ []).
        { rewrite app_nil_r. unfold virt. rewrite Ep. repeat rewrite <- app_assoc; simpl; repeat rewrite <- app_assoc; simpl; reflexivity. }
        destruct (walk_from c t00 FR00 FR00_pre V Hwf Hio Hnz FR00_tie l1 ((o :: l2) ++ []) _ ao ap Hl' HIo Halo Epost) as [_ [_ Hmop]].
        assert (Hmf : mono ao af). { intros w q Hq. apply Hm6f. apply Hmp6. apply Hmop. exact Hq. }
        rewrite app_nil_r in Hval, Hhead.
        destruct (Hdal d Hd) as [rd Hrd]. destruct (Hval v Hv) as [rv Hrv].
        pose proof (Hmf d rd Hrd) as X1. pose proof (Hmf v rv Hrv) as X2. rewrite H1 in X1. rewrite H2 in X2.
        inversion X1; inversion X2; subst rd rv.
        destruct (Hhead d v r Hd Hv Hne Hrd Hrv) as [HP|Hz]; [exfalso; exact (no_pset00 r HP) | exact Hz].
    - (* the induction variable *)
      intros v r Hv Hne Hiv_f Hv_f.
      pose proof (FH FR00 FR00_tie) as FHf.
      assert (HLiv : live R_ iv).
      { split.
        - apply used_in_app. right. apply used_in_cons. left. unfold uses, sop_operands, Yop. simpl. rewrite Hb. simpl. left. reflexivity.
        - apply (of_def c _ H_ _ FHf iv). apply defs_H. left. reflexivity. }
      destruct (Hall7 v Hv) as [rv Hrv]. pose proof (Hm7f v rv Hrv) as X. rewrite Hv_f in X. inversion X; subst rv.
      pose proof (Hm6f iv riv Hiv6) as Y. rewrite Hiv_f in Y. inversion Y; subst riv.
      destruct HI7 as [_ [_ [HG2 _]]].
      destruct (HG2 iv v r HLiv Hv (fun Hc => Hne (eq_sym Hc)) (Hm67 iv r Hiv6) Hrv) as [HP|[Hz|[]]]; [|exact Hz].
      exfalso. destruct HP as [w Hw]. unfold t0', rebased, t00 in Hw. destruct (memN w gv) eqn:Em; [|discriminate].
      apply memN_In in Em. exact (IVF w r Em Hw Hiv6).
  Qed.

  (* the same for EVERY operation of the virtual block, the pseudo-operations H (defines the induction
     variable and the carried block arguments) and Y (defines the results) included *)
  Theorem loop_def_all : forall a0 af,
    sok c t00 a0 -> (forall v, ty a0 v = None) ->
    allocate_block c (map Simple pre ++ For f :: map Simple post) a0 = Ok af ->
    forall p o s, V = p ++ o :: s -> forall d v r, In d (defs o) -> live s v -> d <> v ->
      ty af d = Some r -> ty af v = Some r -> zero_rule c = true /\ r = 0.
  Proof.
    intros a0 af Hsok0 Hty0 Hrun p o s Hsp d v r Hd Hv Hne H1 H2.
    destruct (loop_no_clobber a0 af Hsok0 Hty0 Hrun) as [Hops Hivc].
    destruct (loop_states a0 af Hsok0 Hty0 Hrun) as [ap [a6 [a7 [ah St]]]].
    destruct St as [Epost [HIstart [Hallstart [Hmp6 [HI6' [Hall6' [DG [IVF [[riv Hiv6] [Hgvty6 [GT [E7 [Hm7h [HIh [Hallh Epre]]]]]]]]]]]]]]].
    assert (Hl7 : V = (pre ++ [H_]) ++ f_body f ++ Y_ :: post).
    { unfold virt. repeat rewrite <- app_assoc; simpl; reflexivity. }
    destruct (walk_from c (t0' a6) (FR' a6) (FR'_pre a6) V Hwf Hio Hnz (FR'_tie a6) (f_body f) (Y_ :: post) _ a6 a7 Hl7 HI6' Hall6' E7)
      as [HI7 [Hall7 Hm67]].
    assert (Hlf : V = [] ++ pre ++ H_ :: R_) by reflexivity.
    destruct (walk_from c t00 FR00 FR00_pre V Hwf Hio Hnz FR00_tie pre (H_ :: R_) [] ah af Hlf HIh Hallh Epre) as [_ [_ Hmhf]].
    assert (Hm7f : mono a7 af). { intros w q Hq. apply Hmhf. apply Hm7h. exact Hq. }
    assert (Hm6f : mono a6 af). { intros w q Hq. apply Hm7f. apply Hm67. exact Hq. }
    (* a group member d and a value v (a group member, or live at a point where the invariant holds)
       in one register are tie-connected *)
    assert (Hconn : forall (Lp : value -> Prop) ax, Inv c (t0' a6) (FR' a6) Lp Enone (fun _ => True) ax -> mono ax af ->
              (forall u, Lp u -> exists q, ty ax u = Some q) ->
              In d gv -> (In v gv \/ Lp v) -> tconn pre f post d v).
    { intros Lp ax HIx Hmx Halx Hdg Hvc.
      destruct (Hgvty6 d Hdg) as [rd Hrd]. pose proof (Hm6f d rd Hrd) as X. rewrite H1 in X. inversion X; subst rd.
      destruct Hvc as [Hvg|HvL].
      - destruct (Hgvty6 v Hvg) as [rv Hrv]. pose proof (Hm6f v rv Hrv) as X2. rewrite H2 in X2. inversion X2; subst rv.
        destruct (DG d v r Hdg Hvg Hrd Hrv) as [g [Hg [Hg1 Hg2]]]. exact (group_conn g d v Hg Hg1 Hg2).
      - destruct (Halx v HvL) as [rv Hrv]. pose proof (Hmx v rv Hrv) as X2. rewrite H2 in X2. inversion X2; subst rv.
        destruct HIx as [_ [_ [_ [_ H5x]]]].
        assert (HP : Pset (t0' a6) r).
        { exists d. unfold t0', rebased. assert (Em : memN d gv = true) by (apply memN_In; exact Hdg). rewrite Em. exact Hrd. }
        destruct (H5x v r HvL Hrv HP) as [w [Hw [Hrw Cw]]].
        destruct (DG d w r Hdg Hw Hrd Hrw) as [g [Hg [Hg1 Hg2]]].
        exact (tconn_trans _ _ _ d w v (group_conn g d w Hg Hg1 Hg2) Cw). }
    destruct (virt_split p (o :: s) Hsp) as [[ps' [Ep Es]]|[[bp [bs [Eb [Ep Es]]]]|[pp [Ep Ep2]]]].
    - destruct ps' as [|o' l2]; simpl in Es; inversion Es; subst.
      + (* the loop header *)
        apply defs_H in Hd. destruct Hd as [Hd|Hd].
        * subst d. exact (Hivc v r Hv (fun Hc => Hne (eq_sym Hc)) H1 H2).
        * exfalso. apply (Htie_ok_def p H_ R_ Hsp d v); [apply defs_H; right; exact Hd | exact Hv | exact Hne|].
          apply (Hconn (live R_) a7); [|exact Hm7f | exact Hall7 | exact (cb_in_gv d Hd) | right; exact Hv].
          eapply Inv_weaken; [exact HI7 | intros u Hu; exact Hu | intros u _; exact I].
      + exact (Hops p o' l2 _ (or_introl (conj Ep eq_refl)) d v r Hd Hv Hne H1 H2).
    - destruct bs as [|o' l2]; simpl in Es; inversion Es; subst.
      + (* the back edge / loop exit: the results *)
        exfalso.
        assert (Hdg : In d gv) by exact (defs_Y d Hd).
        apply (Htie_ok_def _ Y_ post Hsp d v Hd Hv Hne).
        destruct (in_dec Nat.eq_dec v (defs Y_)) as [HvY|HvY].
        * assert (Hvg : In v gv) by exact (defs_Y v HvY).
          apply (Hconn (live (Y_ :: post)) a6); [|exact Hm6f | exact Hall6' | exact Hdg | left; exact Hvg].
          eapply Inv_weaken; [exact HI6' | intros u Hu; exact Hu | intros u _; exact I].
        * apply (Hconn (live (Y_ :: post)) a6); [|exact Hm6f | exact Hall6' | exact Hdg|].
          -- eapply Inv_weaken; [exact HI6' | intros u Hu; exact Hu | intros u _; exact I].
          -- right. destruct Hv as [Hu Hnd]. split; [apply used_in_cons; right; exact Hu|].
             intro Hc. apply defined_in_cons in Hc. destruct Hc as [Hc|Hc]; [exact (HvY Hc) | exact (Hnd Hc)].
      + exact (Hops bp o' l2 _ (or_intror (or_introl (conj Eb eq_refl))) d v r Hd Hv Hne H1 H2).
    - exact (Hops pp o s _ (or_intror (or_intror (conj Ep eq_refl))) d v r Hd Hv Hne H1 H2).
  Qed.

  Theorem loop_defs_allocated : forall a0 af,
    sok c t00 a0 -> (forall v, ty a0 v = None) ->
    allocate_block c (map Simple pre ++ For f :: map Simple post) a0 = Ok af ->
    (forall p o s, V = p ++ o :: s -> forall d, In d (defs o) -> exists r, ty af d = Some r)
    /\ (forall v, zero_rule c = true -> ty af v = Some 0 -> In v (zconsts c)).
  Proof.
    intros a0 af Hsok0 Hty0 Hrun.
    destruct (loop_states a0 af Hsok0 Hty0 Hrun) as [ap [a6 [a7 [ah St]]]].
    destruct St as [Epost [HIstart [Hallstart [Hmp6 [HI6' [Hall6' [DG [IVF [[riv Hiv6] [Hgvty6 [GT [E7 [Hm7h [HIh [Hallh Epre]]]]]]]]]]]]]]].
    assert (Hl7 : V = (pre ++ [H_]) ++ f_body f ++ Y_ :: post).
    { unfold virt. repeat rewrite <- app_assoc; simpl; reflexivity. }
    destruct (walk_from c (t0' a6) (FR' a6) (FR'_pre a6) V Hwf Hio Hnz (FR'_tie a6) (f_body f) (Y_ :: post) _ a6 a7 Hl7 HI6' Hall6' E7)
      as [HI7 [Hall7 Hm67]].
    assert (Hlf : V = [] ++ pre ++ H_ :: R_) by reflexivity.
    destruct (walk_from c t00 FR00 FR00_pre V Hwf Hio Hnz FR00_tie pre (H_ :: R_) [] ah af Hlf HIh Hallh Epre) as [[Hsf _] [_ Hmhf]].
    assert (Hm7f : mono a7 af). { intros w q Hq. apply Hmhf. apply Hm7h. exact Hq. }
    assert (Hm6f : mono a6 af). { intros w q Hq. apply Hm7f. apply Hm67. exact Hq. }
    split; [|intros v Hz Hr; exact (so_zero_ty c t00 af Hsf v Hz Hr)].
    intros p o s Hsp d Hd.
    assert (Hgv : In d gv -> exists r, ty af d = Some r).
    { intros Hg. destruct (Hgvty6 d Hg) as [r Hr]. exists r. apply Hm6f. exact Hr. }
    destruct (virt_split p (o :: s) Hsp) as [[ps' [Ep Es]]|[[bp [bs [Eb [Ep Es]]]]|[pp [Ep Ep2]]]].
    - destruct ps' as [|o' l2]; simpl in Es; inversion Es; subst.
      + apply defs_H in Hd. destruct Hd as [Hd|Hd]; [subst d; exists riv; apply Hm6f; exact Hiv6 | exact (Hgv (cb_in_gv d Hd))].
      + rewrite Ep in Epre. rewrite allocate_sops_app in Epre.
        destruct (allocate_sops c (o' :: l2) ah) as [ao|e] eqn:Eo; simpl in Epre; [|discriminate].
        assert (Hl : V = p ++ (o' :: l2) ++ H_ :: R_).
        { unfold virt. rewrite Ep. repeat rewrite <- app_assoc; simpl; reflexivity. }
        destruct (walk_head c t00 FR00 FR00_pre V Hwf Hio Hnz FR00_tie o' l2 (H_ :: R_) p ah ao Hl HIh Hallh Eo) as [Hdal _].
        destruct (walk_from c t00 FR00 FR00_pre V Hwf Hio Hnz FR00_tie (o' :: l2) (H_ :: R_) p ah ao Hl HIh Hallh Eo) as [HIo [Halo _]].
        assert (Hl' : V = [] ++ p ++ (o' :: l2) ++ H_ :: R_) by exact Hl.
        destruct (walk_from c t00 FR00 FR00_pre V Hwf Hio Hnz FR00_tie p ((o' :: l2) ++ H_ :: R_) [] ao af Hl' HIo Halo Epre) as [_ [_ Hmf]].
        destruct (Hdal d Hd) as [r Hr]. exists r. apply Hmf. exact Hr.
    - destruct bs as [|o' l2]; simpl in Es; inversion Es; subst.
      + exact (Hgv (defs_Y d Hd)).
      + rewrite Eb in E7. rewrite allocate_sops_app in E7.
        destruct (allocate_sops c (o' :: l2) a6) as [ao|e] eqn:Eo; simpl in E7; [|discriminate].
        assert (Hl : V = (pre ++ H_ :: bp) ++ (o' :: l2) ++ Y_ :: post).
        { unfold virt. rewrite Eb. repeat rewrite <- app_assoc; simpl; repeat rewrite <- app_assoc; simpl; reflexivity. }
        destruct (walk_head c (t0' a6) (FR' a6) (FR'_pre a6) V Hwf Hio Hnz (FR'_tie a6) o' l2 (Y_ :: post) _ a6 ao Hl HI6' Hall6' Eo) as [Hdal _].
        destruct (walk_from c (t0' a6) (FR' a6) (FR'_pre a6) V Hwf Hio Hnz (FR'_tie a6) (o' :: l2) (Y_ :: post) _ a6 ao Hl HI6' Hall6' Eo)
          as [HIo [Halo _]].
        assert (Hl' : V = (pre ++ [H_]) ++ bp ++ (o' :: l2) ++ Y_ :: post).
        { unfold virt. rewrite Eb. repeat rewrite <- app_assoc; simpl; repeat rewrite <- app_assoc; simpl; reflexivity. }
        destruct (walk_from c (t0' a6) (FR' a6) (FR'_pre a6) V Hwf Hio Hnz (FR'_tie a6) bp ((o' :: l2) ++ Y_ :: post) _ ao a7 Hl' HIo Halo E7)
          as [_ [_ Hmo7]].
        destruct (Hdal d Hd) as [r Hr]. exists r. apply Hm7f. apply Hmo7. exact Hr.
    - rewrite Ep in Epost. rewrite allocate_sops_app in Epost.
      destruct (allocate_sops c (o :: s) a0) as [ao|e] eqn:Eo; simpl in Epost; [|discriminate].
      assert (Hl : V = ((pre ++ H_ :: f_body f ++ [Y_]) ++ pp) ++ (o :: s) ++ []).
      { rewrite app_nil_r. unfold virt. rewrite Ep. repeat rewrite <- app_assoc; simpl; repeat rewrite <- app_assoc; simpl; reflexivity. }
      destruct (walk_head c t00 FR00 FR00_pre V Hwf Hio Hnz FR00_tie o s [] _ a0 ao Hl HIstart Hallstart Eo) as [Hdal _].
      destruct (walk_from c t00 FR00 FR00_pre V Hwf Hio Hnz FR00_tie (o :: s) [] _ a0 ao Hl HIstart Hallstart Eo) as [HIo [Halo _]].
      assert (Hl' : V = (pre ++ H_ :: f_body f ++ [Y_]) ++ pp ++ (o :: s) ++ []).
      { rewrite app_nil_r. unfold virt. rewrite Ep. repeat rewrite <- app_assoc; simpl; repeat rewrite <- app_assoc; simpl; reflexivity. }
      destruct (walk_from c t00 FR00 FR00_pre V Hwf Hio Hnz FR00_tie pp ((o :: s) ++ []) _ ao ap Hl' HIo Halo Epost) as [_ [_ Hmop]].
      destruct (Hdal d Hd) as [r Hr]. exists r. apply Hm6f. apply Hmp6. apply Hmop. exact Hr.
  Qed.

  (* registers of the loop-carried groups and of the induction variable in the final assignment *)
  Theorem loop_reg_facts : forall a0 af,
    sok c t00 a0 -> (forall v, ty a0 v = None) ->
    allocate_block c (map Simple pre ++ For f :: map Simple post) a0 = Ok af ->
    (forall g, In g gs -> exists R, forall u, In u g -> ty af u = Some R)
    /\ (exists riv, ty af iv = Some riv /\ forall w r, In w gv -> ty af w = Some r -> r <> riv).
  Proof.
    intros a0 af Hsok0 Hty0 Hrun.
    destruct (loop_states a0 af Hsok0 Hty0 Hrun) as [ap [a6 [a7 [ah St]]]].
    destruct St as [Epost [HIstart [Hallstart [Hmp6 [HI6' [Hall6' [DG [IVF [[riv Hiv6] [Hgvty6 [GT [E7 [Hm7h [HIh [Hallh Epre]]]]]]]]]]]]]]].
    assert (Hl7 : V = (pre ++ [H_]) ++ f_body f ++ Y_ :: post).
    { unfold virt. repeat rewrite <- app_assoc; simpl; reflexivity. }
    destruct (walk_from c (t0' a6) (FR' a6) (FR'_pre a6) V Hwf Hio Hnz (FR'_tie a6) (f_body f) (Y_ :: post) _ a6 a7 Hl7 HI6' Hall6' E7)
      as [_ [_ Hm67]].
    assert (Hlf : V = [] ++ pre ++ H_ :: R_) by reflexivity.
    destruct (walk_from c t00 FR00 FR00_pre V Hwf Hio Hnz FR00_tie pre (H_ :: R_) [] ah af Hlf HIh Hallh Epre) as [_ [_ Hmhf]].
    assert (Hm6f : mono a6 af). { intros w q Hq. apply Hmhf. apply Hm7h. apply Hm67. exact Hq. }
    split.
    - intros g Hg. destruct (GT g Hg) as [R HR]. exists R. intros u Hu. apply Hm6f. exact (HR u Hu).
    - exists riv. split; [apply Hm6f; exact Hiv6|]. intros w r Hw Hr Heq. subst r.
      destruct (Hgvty6 w Hw) as [r6 Hr6]. pose proof (Hm6f w r6 Hr6) as X. rewrite Hr in X. inversion X; subst r6.
      exact (IVF w riv Hw Hr6 Hiv6).
  Qed.
End OneLoop.

(* ---- the initial state of allocate_func when nothing is pre-assigned ---- *)
Lemma somes_all_none : forall (l : list (option Z)), (forall v, nth v l None = None) -> somes l = [].
Proof.
  induction l as [|x t IH]; intros H; [reflexivity|].
  pose proof (H 0%nat) as H0. simpl in H0. subst x. simpl. apply IH. intros v. exact (H (S v)).
Qed.

Lemma somes_map_none : forall {A} (g : A -> option Z) l, (forall x, g x = None) -> somes (map g l) = [].
Proof. intros A g l H. induction l as [|x t IH]; simpl; [reflexivity | rewrite H; exact IH]. Qed.

Lemma used_registers_none : forall fn, (forall v, ty0 fn v = None) -> used_registers fn = [].
Proof.
  intros fn H. unfold used_registers.
  assert (E1 : somes (fn_pre fn) = []) by (apply somes_all_none; exact H).
  assert (E2 : used_registers_old fn = []).
  { unfold used_registers_old.
    assert (E : somes (flat_map (fun o => if s_eff o then map (ty0 fn) (sop_results o ++ sop_operands o) else [])
                                (all_sops (fn_ops fn))) = []).
    { induction (all_sops (fn_ops fn)) as [|o t IH]; [reflexivity|]. simpl.
      assert (Eo : somes (if s_eff o then map (ty0 fn) (sop_results o ++ sop_operands o) else []) = []).
      { destruct (s_eff o); [apply somes_map_none; exact H | reflexivity]. }
      clear - Eo IH. revert Eo. generalize (if s_eff o then map (ty0 fn) (sop_results o ++ sop_operands o) else []) as l1.
      induction l1 as [|[x|] l1 IHl]; intros Eo; simpl in *; [exact IH | discriminate | exact (IHl Eo)]. }
    rewrite E. reflexivity. }
  rewrite E1, E2. reflexivity.
Qed.

Lemma init_sok00 : forall zr pool allow fn,
  (zr = true -> ~ In 0 pool) -> (forall r, In r pool -> 0 <= r) -> (forall v, ty0 fn v = None) ->
  sok (mk_cfg zr fn) t00 (init_state pool allow fn) /\ (forall v, ty (init_state pool allow fn) v = None).
Proof.
  intros zr pool allow fn Hz Hpool Hnone. unfold init_state. rewrite (used_registers_none fn Hnone). simpl.
  destruct (stack_get_ok pool allow) as [Hb [Hsub Hal]].
  split; [|exact Hnone].
  constructor; simpl.
  - exact (b_nodup_av _ Hb).
  - intros r Hr. left. exact (b_sub _ Hb r Hr).
  - intros r Hr. unfold is_reserved. rewrite (b_res _ Hb). reflexivity.
  - intros r Hr Hneg. pose proof (Hpool r (Hsub r (b_sub _ Hb r Hr))). lia.
  - intros v r Hr. rewrite Hnone in Hr. discriminate.
  - rewrite (b_next _ Hb). lia.
  - intros k Hk. unfold is_reserved in Hk. rewrite (b_res _ Hb) in Hk. discriminate.
  - intros r [w Hw]. discriminate.
  - intros Hzr. split; [intro Hc; exact (Hz Hzr (Hsub 0 Hc)) | intros [w Hw]; discriminate].
  - intros v r Hv. discriminate.
  - intros v _ Hr. rewrite Hnone in Hr. discriminate.
  - intros v r Hr. rewrite Hnone in Hr. discriminate.
Qed.

(* the theorem for allocate_func *)
Theorem func_loop_no_interference : forall zr pool allow types pre f post iv cb af,
  let fn := mkFunc types (map Simple pre ++ For f :: map Simple post) in
  let c := mk_cfg zr fn in
  (zr = true -> ~ In 0 pool) -> (forall r, In r pool -> 0 <= r) -> (forall v, ty0 fn v = None) ->
  f_bargs f = iv :: cb ->
  wf_prog (virt pre f post) -> io_ok (virt pre f post) ->
  (forall o x y, In o (virt pre f post) -> In (x, y) (s_io o) -> ~ In y (zconsts c)) ->
  length (f_iters f) = length cb /\ length (f_iters f) = length (f_yield f) /\ length (f_iters f) = length (f_res f) ->
  NoDup (concat (groups f)) ->
  (forall v, In v (iv :: cb) \/ defined_in (f_body f) v -> ~ used_in post v) ->
  ~ In iv (concat (groups f)) ->
  (forall v, In v (live_ins_body f) -> ~ In v (concat (groups f)) /\ v <> iv) ->
  (forall v, In v (f_lb f :: f_ub f :: step_list f) -> ~ In v (concat (groups f)) /\ v <> iv) ->
  (forall p s, virt pre f post = p ++ s -> forall v1 v2, live s v1 -> live s v2 -> v1 <> v2 ->
     tconn pre f post v1 v2 -> False) ->
  allocate_func zr pool allow fn = Ok af ->
  forall p s, virt pre f post = p ++ s ->
    (forall v, live s v -> exists r, ty af v = Some r)
    /\ (forall v1 v2 r, live s v1 -> live s v2 -> v1 <> v2 -> ty af v1 = Some r -> ty af v2 = Some r ->
          zr = true /\ r = 0).
Proof.
  intros zr pool allow types pre f post iv cb af fn c Hz Hpool Hnone Hb Hwf Hio Hnz Hlen Hgs Hscope Hiv Hli Hbnd Htie Hrun.
  destruct (init_sok00 zr pool allow fn Hz Hpool Hnone) as [Hsok Hty].
  unfold allocate_func in Hrun. simpl in Hrun.
  exact (loop_no_interference c pre post f iv cb Hb Hwf Hio Hnz Hlen Hgs Hscope Hiv Hli Hbnd Htie _ af Hsok Hty Hrun).
Qed.

Theorem func_loop_no_clobber : forall zr pool allow types pre f post iv cb af,
  let fn := mkFunc types (map Simple pre ++ For f :: map Simple post) in
  let c := mk_cfg zr fn in
  (zr = true -> ~ In 0 pool) -> (forall r, In r pool -> 0 <= r) -> (forall v, ty0 fn v = None) ->
  f_bargs f = iv :: cb ->
  wf_prog (virt pre f post) -> io_ok (virt pre f post) ->
  (forall o x y, In o (virt pre f post) -> In (x, y) (s_io o) -> ~ In y (zconsts c)) ->
  length (f_iters f) = length cb /\ length (f_iters f) = length (f_yield f) /\ length (f_iters f) = length (f_res f) ->
  NoDup (concat (groups f)) ->
  (forall v, In v (iv :: cb) \/ defined_in (f_body f) v -> ~ used_in post v) ->
  ~ In iv (concat (groups f)) ->
  (forall v, In v (live_ins_body f) -> ~ In v (concat (groups f)) /\ v <> iv) ->
  (forall v, In v (f_lb f :: f_ub f :: step_list f) -> ~ In v (concat (groups f)) /\ v <> iv) ->
  (forall p s, virt pre f post = p ++ s -> forall v1 v2, live s v1 -> live s v2 -> v1 <> v2 ->
     tconn pre f post v1 v2 -> False) ->
  (forall p o s, virt pre f post = p ++ o :: s -> forall d v, In d (defs o) -> live s v -> d <> v ->
     tconn pre f post d v -> False) ->
  allocate_func zr pool allow fn = Ok af ->
  (forall l1 o l2 rest, (pre = l1 ++ o :: l2 /\ rest = l2 ++ Hop f :: f_body f ++ Yop f :: post)
                        \/ (f_body f = l1 ++ o :: l2 /\ rest = l2 ++ Yop f :: post)
                        \/ (post = l1 ++ o :: l2 /\ rest = l2) ->
     forall d v r, In d (defs o) -> live rest v -> d <> v -> ty af d = Some r -> ty af v = Some r ->
       zr = true /\ r = 0)
  /\ (forall v r, live (f_body f ++ Yop f :: post) v -> v <> iv -> ty af iv = Some r -> ty af v = Some r ->
       zr = true /\ r = 0).
Proof.
  intros zr pool allow types pre f post iv cb af fn c Hz Hpool Hnone Hb Hwf Hio Hnz Hlen Hgs Hscope Hiv Hli Hbnd Htie Htied Hrun.
  destruct (init_sok00 zr pool allow fn Hz Hpool Hnone) as [Hsok Hty].
  unfold allocate_func in Hrun. simpl in Hrun.
  exact (loop_no_clobber c pre post f iv cb Hb Hwf Hio Hnz Hlen Hgs Hscope Hiv Hli Hbnd Htie Htied _ af Hsok Hty Hrun).
Qed.

(* ---- the live-ins computed by _live_ins_per_block cover every outer value the body reads: the
   liveness of the virtual block (where Y reads the live-ins) is the true liveness of the loop ---- *)
Lemma oset_update_keep : forall vs s v, In v s -> In v (oset_update s vs).
Proof.
  induction vs as [|x t IH]; intros s v H; simpl; [exact H|]. unfold oset_update in *. simpl.
  apply IH. destruct (memN x s); [exact H | apply in_or_app; left; exact H].
Qed.
Lemma oset_update_in : forall vs s v, In v vs -> In v (oset_update s vs).
Proof.
  induction vs as [|x t IH]; intros s v H; [destruct H|]. unfold oset_update in *. simpl.
  destruct H as [H|H].
  - subst x. apply (oset_update_keep t). destruct (memN v s) eqn:E; [apply memN_In; exact E | apply in_or_app; right; left; reflexivity].
  - apply IH. exact H.
Qed.
Lemma oset_diff_in : forall s vs v, In v s -> ~ In v vs -> In v (oset_diff s vs).
Proof.
  intros s vs v H Hn. unfold oset_diff. apply filter_In. split; [exact H|].
  destruct (memN v vs) eqn:E; [apply memN_In in E; contradiction | reflexivity].
Qed.

Lemma live_ins_complete : forall f v,
  (used_in (f_body f) v \/ In v (f_yield f)) -> ~ defined_in (f_body f) v -> ~ In v (f_bargs f) ->
  In v (live_ins_body f).
Proof.
  intros f v Hu Hnd Hnb. unfold live_ins_body. apply oset_diff_in; [|exact Hnb].
  set (step := fun s o => oset_update (oset_diff s (sop_results o)) (sop_operands o)).
  assert (Hgen : forall bs, (used_in bs v \/ In v (f_yield f)) -> ~ defined_in bs v ->
            In v (fold_left step (rev bs) (oset_update [] (f_yield f)))).
  { induction bs as [|o bs IH]; intros Hu' Hnd'.
    - simpl. destruct Hu' as [[o [[] _]]|Hy]. apply oset_update_in. exact Hy.
    - simpl. rewrite fold_left_app. simpl. unfold step at 1.
      assert (Hndo : ~ In v (sop_results o)) by (intro Hc; apply Hnd'; apply defined_in_cons; left; exact Hc).
      assert (Hndb : ~ defined_in bs v) by (intro Hc; apply Hnd'; apply defined_in_cons; right; exact Hc).
      destruct Hu' as [Hu'|Hy].
      + apply used_in_cons in Hu'. destruct Hu' as [Ho|Hb].
        * apply oset_update_in. exact Ho.
        * apply oset_update_keep. apply oset_diff_in; [exact (IH (or_introl Hb) Hndb) | exact Hndo].
      + apply oset_update_keep. apply oset_diff_in; [exact (IH (or_intror Hy) Hndb) | exact Hndo]. }
  exact (Hgen (f_body f) Hu Hnd).
Qed.
