(* C19/ProofsLoop2.v -- a function with ONE riscv_scf.for (no pre-assigned registers): the walk over
   the virtual straight-line block  pre ++ H :: body ++ Y :: post. *)
From Coq Require Import ZArith List Bool Arith Lia.
From XV Require Import C19.Model C19.ProofsSpec C19.ProofsStack C19.ProofsAlloc C19.ProofsOp C19.ProofsStep
                       C19.ProofsMain C19.ProofsFunc C19.ProofsLoop.
Import ListNotations.
Local Open Scope Z_scope.

Definition step_list (f : forop) : list value := match f_step f with Some s => [s] | None => [] end.

(* pseudo-operations standing for the loop header and the back edge / loop exit:
   H reads lb, ub, step, ties every iter operand to its carried block argument and defines the induction
   variable; Y reads the induction variable, the body's live-ins, ub and step (so they are live throughout
   the body) and ties every yield operand to the loop result *)
Definition Hop (f : forop) : sop :=
  mkSop (f_lb f :: f_ub f :: step_list f) (firstn 1 (f_bargs f)) (combine (f_iters f) (tl (f_bargs f))) KOther false.
Definition Yop (f : forop) : sop :=
  mkSop (firstn 1 (f_bargs f) ++ live_ins_body f ++ f_ub f :: step_list f) [] (combine (f_yield f) (f_res f))
        KOther false.
Definition virt (pre : list sop) (f : forop) (post : list sop) : list sop :=
  pre ++ Hop f :: f_body f ++ Yop f :: post.
Definition groups (f : forop) : list (list value) := zip4 (tl (f_bargs f)) (f_iters f) (f_yield f) (f_res f).

(* values the loop forces into one register: in/out pairs of the virtual block (incl. H and Y) and the
   back edge (carried block argument ~ yield operand); tconn = connected by such ties *)
Definition ltie (pre : list sop) (f : forop) (post : list sop) (a b : value) : Prop :=
  tied (virt pre f post) a b \/ In (a, b) (combine (tl (f_bargs f)) (f_yield f)).
Inductive tconn (pre : list sop) (f : forop) (post : list sop) : value -> value -> Prop :=
| tc_refl : forall v, tconn pre f post v v
| tc_step : forall u v w, tconn pre f post u v -> (ltie pre f post v w \/ ltie pre f post w v) -> tconn pre f post u w.

Lemma tconn_trans : forall pre f post u v w, tconn pre f post u v -> tconn pre f post v w -> tconn pre f post u w.
Proof.
  intros pre f post u v w H1 H2. induction H2 as [|v x y H2 IH Hs]; [exact H1|].
  exact (tc_step pre f post u x y (IH H1) Hs).
Qed.
Lemma tconn_sym : forall pre f post u v, tconn pre f post u v -> tconn pre f post v u.
Proof.
  intros pre f post u v H. induction H as [|u v w H IH Hs]; [constructor|].
  apply (tconn_trans pre f post w v u); [|exact IH].
  apply (tc_step pre f post w w v (tc_refl pre f post w)). destruct Hs as [Hs|Hs]; [right|left]; exact Hs.
Qed.

Lemma fold_res_single : forall {A S} (g : A -> S -> res S) x s, fold_res g [x] s = g x s.
Proof. intros. simpl. destruct (g x s); reflexivity. Qed.

Lemma allocate_block_loop : forall c pre f post a,
  allocate_block c (map Simple pre ++ For f :: map Simple post) a
  = bind (allocate_sops c post a) (fun a1 => bind (allocate_for c f a1) (allocate_sops c pre)).
Proof.
  intros c pre f post a. unfold allocate_block. rewrite rev_app_distr. simpl. rewrite <- app_assoc. simpl.
  rewrite fold_res_app. rewrite <- map_rev. rewrite fold_res_map_simple.
  unfold allocate_sops at 1. destruct (fold_res (allocate_sop c) (rev post) a) as [a1|e]; simpl; [|reflexivity].
  destruct (allocate_for c f a1) as [a2|e]; simpl; [|reflexivity].
  rewrite <- map_rev. rewrite fold_res_map_simple. reflexivity.
Qed.

Lemma zip4_concat_in : forall a b c d g u, In g (zip4 a b c d) -> In u g -> In u (concat (zip4 a b c d)).
Proof. intros. eapply concat_in; eassumption. Qed.

Lemma zip4_shape : forall a b c d g, In g (zip4 a b c d) ->
  exists x y z w, g = [x; y; z; w] /\ In (y, x) (combine b a) /\ In (z, w) (combine c d) /\ In (x, z) (combine a c).
Proof.
  induction a as [|x a IH]; intros b c d g H; simpl in H; [destruct H|].
  destruct b as [|y b]; [destruct H|]. destruct c as [|z c]; [destruct H|]. destruct d as [|w d]; [destruct H|].
  destruct H as [H|H].
  - exists x, y, z, w. subst g. simpl. repeat split; try reflexivity; left; reflexivity.
  - destruct (IH b c d g H) as [x' [y' [z' [w' [E [H1 [H2 H3]]]]]]].
    exists x', y', z', w'. simpl. repeat split; try assumption; right; assumption.
Qed.

Lemma used_in_app : forall s1 s2 v, used_in (s1 ++ s2) v <-> used_in s1 v \/ used_in s2 v.
Proof.
  intros s1 s2 v. unfold used_in. split.
  - intros [o [Ho Hv]]. apply in_app_or in Ho. destruct Ho as [Ho|Ho]; [left | right]; exists o; split; assumption.
  - intros [[o [Ho Hv]]|[o [Ho Hv]]]; exists o; (split; [apply in_or_app; tauto | exact Hv]).
Qed.
Lemma defined_in_app : forall s1 s2 v, defined_in (s1 ++ s2) v <-> defined_in s1 v \/ defined_in s2 v.
Proof.
  intros s1 s2 v. unfold defined_in. split.
  - intros [o [Ho Hv]]. apply in_app_or in Ho. destruct Ho as [Ho|Ho]; [left | right]; exists o; split; assumption.
  - intros [[o [Ho Hv]]|[o [Ho Hv]]]; exists o; (split; [apply in_or_app; tauto | exact Hv]).
Qed.
Lemma NoDup_concat_in : forall (gs : list (list value)) g, NoDup (concat gs) -> In g gs -> NoDup g.
Proof.
  induction gs as [|h t IH]; intros g Hnd Hg; [destruct Hg|]. simpl in Hnd.
  destruct Hg as [Hg|Hg]; [subst; exact (NoDup_app_l _ _ Hnd) | exact (IH g (NoDup_app_r _ _ Hnd) Hg)].
Qed.
Lemma in_combine_fst : forall (a b : list value) x y, In (x, y) (combine a b) -> In x (map fst (combine a b)).
Proof. intros a b x y H. apply in_map_iff. exists (x, y). split; [reflexivity | exact H]. Qed.
Lemma in_combine_snd : forall (a b : list value) x y, In (x, y) (combine a b) -> In y (map snd (combine a b)).
Proof. intros a b x y H. apply in_map_iff. exists (x, y). split; [reflexivity | exact H]. Qed.

Lemma zip4_cover_b : forall b a c d y, In y b ->
  (length b <= length a)%nat -> (length b <= length c)%nat -> (length b <= length d)%nat ->
  exists g, In g (zip4 a b c d) /\ In y g.
Proof.
  induction b as [|x b IH]; intros a c d y Hy La Lc Ld; [destruct Hy|].
  destruct a as [|xa a]; [simpl in La; lia|]. destruct c as [|xc c]; [simpl in Lc; lia|].
  destruct d as [|xd d]; [simpl in Ld; lia|]. simpl in *.
  destruct Hy as [Hy|Hy].
  - subst y. exists [xa; x; xc; xd]. split; [left; reflexivity | simpl; tauto].
  - destruct (IH a c d y Hy) as [g [Hg Hyg]]; try lia. exists g. split; [right; exact Hg | exact Hyg].
Qed.

Lemma zip4_cover_a : forall a b c d y, In y a ->
  (length a <= length b)%nat -> (length a <= length c)%nat -> (length a <= length d)%nat ->
  exists g, In g (zip4 a b c d) /\ In y g.
Proof.
  induction a as [|x a IH]; intros b c d y Hy Lb Lc Ld; [destruct Hy|].
  destruct b as [|xb b]; [simpl in Lb; lia|]. destruct c as [|xc c]; [simpl in Lc; lia|].
  destruct d as [|xd d]; [simpl in Ld; lia|]. simpl in *.
  destruct Hy as [Hy|Hy].
  - subst y. exists [x; xb; xc; xd]. split; [left; reflexivity | simpl; tauto].
  - destruct (IH b c d y Hy) as [g [Hg Hyg]]; try lia. exists g. split; [right; exact Hg | exact Hyg].
Qed.

Lemma unreserve_fields : forall regs s s', fold_res unreserve_register regs s = Ok s' ->
  allocatable s' = allocatable s /\ available s' = available s /\ next_inf s' = next_inf s
  /\ allow_inf s' = allow_inf s /\ (forall k, is_reserved k s' = true -> is_reserved k s = true).
Proof.
  induction regs as [|r t IH]; intros s s' H; simpl in H.
  - inversion H; subst. repeat split; try reflexivity. intros k Hk; exact Hk.
  - unfold unreserve_register at 1 in H. destruct (is_reserved r s) eqn:Er; simpl in H; [|discriminate].
    destruct (IH _ s' H) as [A [B [C [D E]]]]. simpl in *. repeat split; try assumption.
    intros k Hk. specialize (E k Hk). unfold is_reserved in *. simpl in E. rewrite memZ_In in *.
    clear - E. induction (reserved s) as [|[k0 n] l IHl]; simpl in *; [exact E|].
    destruct (k0 =? r) eqn:Ek.
    + destruct (n - 1 =? 0); simpl in E; [right; exact E | exact E].
    + simpl in E. destruct E as [E|E]; [left; exact E | right; exact (IHl E)].
Qed.

Lemma add_untouched_list : forall c t0 (FR : value -> Z -> Prop), (forall v r, t0 v = Some r -> FR v r) ->
  forall vs (L : value -> Prop) E (M : value -> Prop) a,
  Inv c t0 FR L E M a -> (forall v, In v vs -> ~ M v /\ exists r, ty a v = Some r) ->
  Inv c t0 FR (setof L vs) E (setof M vs) a.
Proof.
  intros c t0 FR Hpre vs. induction vs as [|v t IH]; intros L E M a HI Hvs.
  - eapply Inv_weaken; [exact HI | intros w [Hw|[]]; exact Hw | intros w Hw; left; exact Hw].
  - destruct (Hvs v (or_introl eq_refl)) as [HnM [r Hr]].
    destruct (in_dec Nat.eq_dec v t) as [Hin|Hnin].
    + eapply Inv_weaken; [exact (IH L E M a HI (fun w Hw => Hvs w (or_intror Hw))) | |].
      * intros w [Hw|[Hw|Hw]]; [left; exact Hw | subst w; right; exact Hin | right; exact Hw].
      * intros w [Hw|Hw]; [left; exact Hw | right; right; exact Hw].
    + pose proof (add_untouched c t0 FR Hpre L E M a v r HI HnM Hr) as HI1.
      eapply Inv_weaken; [apply (IH (addv L v) E (addv M v) a HI1) | |].
      * intros w Hw. destruct (Hvs w (or_intror Hw)) as [HnMw Hrw]. split; [|exact Hrw].
        intros [Hc|Hc]; [exact (HnMw Hc) | subst w; exact (Hnin Hw)].
      * intros w [Hw|[Hw|Hw]]; [left; left; exact Hw | left; right; symmetry; exact Hw | right; exact Hw].
      * intros w [[Hw|Hw]|Hw]; [left; exact Hw | right; left; symmetry; exact Hw | right; right; exact Hw].
Qed.

(* shrinking the reservations (unreserve_registers) when no register is pre-assigned *)
Lemma unreserve_inv00 : forall c (FR : value -> Z -> Prop) (L : value -> Prop) E (M : value -> Prop) a s',
  Inv c (fun _ => None) FR L E M a ->
  allocatable s' = allocatable (stk a) -> available s' = available (stk a) -> next_inf s' = next_inf (stk a) ->
  allow_inf s' = allow_inf (stk a) -> (forall k, is_reserved k s' = true -> is_reserved k (stk a) = true) ->
  Inv c (fun _ => None) FR L E M (set_stk a s').
Proof.
  intros c FR L E M a s' [Hs [H1 [H2 [Hf H5]]]] Fal Fav Fn Fi Fk.
  split; [|split; [|split; [|split]]].
  - constructor; simpl; rewrite ?Fal, ?Fav, ?Fn, ?Fi.
    + exact (so_nodup _ _ a Hs).
    + exact (so_avail _ _ a Hs).
    + intros r Hr. destruct (is_reserved r s') eqn:Er; [|reflexivity].
      rewrite (so_avail_nres _ _ a Hs r Hr) in Fk. specialize (Fk r Er). discriminate.
    + exact (so_neg_avail _ _ a Hs).
    + exact (so_neg_ty _ _ a Hs).
    + exact (so_next _ _ a Hs).
    + intros k Hk. exact (so_res_lt _ _ a Hs k (Fk k Hk)).
    + intros r [w Hw]. discriminate.
    + exact (so_zero _ _ a Hs).
    + exact (so_mono _ _ a Hs).
    + exact (so_zero_ty _ _ a Hs).
    + exact (so_prov _ _ a Hs).
  - intros v r Hv Hr. simpl. rewrite Fav. exact (H1 v r Hv Hr).
  - exact H2.
  - exact Hf.
  - exact H5.
Qed.

Lemma zip4_cover_c : forall c a b d y, In y c ->
  (length c <= length a)%nat -> (length c <= length b)%nat -> (length c <= length d)%nat ->
  exists g, In g (zip4 a b c d) /\ In y g.
Proof.
  induction c as [|x c IH]; intros a b d y Hy La Lb Ld; [destruct Hy|].
  destruct a as [|xa a]; [simpl in La; lia|]. destruct b as [|xb b]; [simpl in Lb; lia|].
  destruct d as [|xd d]; [simpl in Ld; lia|]. simpl in *.
  destruct Hy as [Hy|Hy].
  - subst y. exists [xa; xb; x; xd]. split; [left; reflexivity | simpl; tauto].
  - destruct (IH a b d y Hy) as [g [Hg Hyg]]; try lia. exists g. split; [right; exact Hg | exact Hyg].
Qed.

Section OneLoop.
  Variable c : cfg.
  Variable pre post : list sop.
  Variable f : forop.
  Variable iv : value.
  Variable cb : list value.
  Definition t00 : value -> option Z := fun _ => None.
  Definition FR00 : value -> Z -> Prop := fun _ _ => False.
  Notation V := (virt pre f post).
  Notation gs := (groups f).
  Notation gv := (concat (groups f)).
  Notation H_ := (Hop f).
  Notation Y_ := (Yop f).
  Notation li := (live_ins_body f).

  Hypothesis Hb : f_bargs f = iv :: cb.
  Hypothesis Hwf : wf_prog V.
  Hypothesis Hio : io_ok V.
  Hypothesis Hnz : forall o x y, In o V -> In (x, y) (s_io o) -> ~ In y (zconsts c).
  Hypothesis Hlen : length (f_iters f) = length cb /\ length (f_iters f) = length (f_yield f)
                    /\ length (f_iters f) = length (f_res f).
  Hypothesis Hgs : NoDup gv.                                              (* (a) groups do not overlap *)
  Hypothesis Hscope : forall v, In v (iv :: cb) \/ defined_in (f_body f) v -> ~ used_in post v.
  Hypothesis Hiv : ~ In iv gv.
  Hypothesis Hli : forall v, In v li -> ~ In v gv /\ v <> iv.
  Hypothesis Hbnd : forall v, In v (f_lb f :: f_ub f :: step_list f) -> ~ In v gv /\ v <> iv.

  Lemma FR00_pre : forall v r, t00 v = Some r -> FR00 v r.
  Proof. intros v r H. discriminate. Qed.
  Lemma FR00_tie : forall o' x y, In o' V -> In (x, y) (s_io o') -> forall r, (FR00 x r -> FR00 y r) /\ (FR00 y r -> FR00 x r).
  Proof. intros. split; intros []. Qed.

  Lemma V_split_H : V = pre ++ H_ :: (f_body f ++ Y_ :: post).
  Proof. reflexivity. Qed.
  Lemma V_split_Y : V = (pre ++ H_ :: f_body f) ++ Y_ :: post.
  Proof. unfold virt. rewrite <- app_assoc. reflexivity. Qed.

  Lemma FH : forall FR : value -> Z -> Prop, (forall o' x y, In o' V -> In (x, y) (s_io o') -> forall r, (FR x r -> FR y r) /\ (FR y r -> FR x r)) ->
    op_facts c FR H_ (f_body f ++ Y_ :: post).
  Proof. intros FR Ht. exact (facts_gen c FR V pre H_ _ Hwf Hio Hnz Ht V_split_H). Qed.
  Lemma FY : forall FR : value -> Z -> Prop, (forall o' x y, In o' V -> In (x, y) (s_io o') -> forall r, (FR x r -> FR y r) /\ (FR y r -> FR x r)) ->
    op_facts c FR Y_ post.
  Proof. intros FR Ht. exact (facts_gen c FR V _ Y_ post Hwf Hio Hnz Ht V_split_Y). Qed.

  (* membership facts about the members of a group *)
  Lemma group_members : forall g, In g gs -> exists b it y r_,
    g = [b; it; y; r_] /\ In (it, b) (s_io H_) /\ In (y, r_) (s_io Y_) /\ In (b, y) (combine cb (f_yield f)).
  Proof.
    intros g Hg. unfold groups in Hg. rewrite Hb in Hg. simpl in Hg.
    destruct (zip4_shape _ _ _ _ g Hg) as [b [it [y [r_ [E [H1 [H2 H3]]]]]]].
    exists b, it, y, r_. unfold Hop, Yop. simpl. rewrite Hb. simpl. repeat split; assumption.
  Qed.

  Lemma post_facts_H_def : forall d, In d (defs H_) -> ~ ment post d.
  Proof.
    intros d Hd [Hu|Hdf].
    - apply (Hscope d); [|exact Hu]. left. unfold defs, sop_results, Hop in Hd. simpl in Hd. rewrite Hb in Hd. simpl in Hd.
      destruct Hd as [Hd|Hd]; [left; exact Hd|]. right.
      apply in_map_iff in Hd. destruct Hd as [[x y] [E Hin]]. simpl in E. subst y. exact (in_combine_r _ _ _ _ Hin).
    - apply (of_def c FR00 H_ _ (FH FR00 FR00_tie) d Hd). apply defined_in_app. right.
      apply defined_in_cons. right. exact Hdf.
  Qed.

  Notation Inv0 := (Inv c t00 FR00).

  Lemma gv_in : forall g u, In g gs -> In u g -> In u gv.
  Proof. intros g u Hg Hu. exact (concat_in gs g u Hg Hu). Qed.

  (* the typing and forced relation used from the loop end to the loop header *)
  Definition t0' (a6 : astate) : value -> option Z := rebased t00 gv a6.
  Definition FR' (a6 : astate) (v : value) (r : Z) : Prop :=
    exists w, In w gv /\ ty a6 w = Some r /\ tconn pre f post w v.

  (* ---- the loop end: live-ins, loop-carried groups, induction variable, ub, step, reservation ---- *)
  Lemma yphase : forall a a1 a2 a3 a4 a5,
    Inv0 (live post) Enone (ment post) a ->
    (forall v, live post v -> exists r, ty a v = Some r) ->
    fold_res (allocate_value c) li a = Ok a1 ->
    fold_res allocate_values_same_reg gs a1 = Ok a2 ->
    fold_res (allocate_value c) [iv] a2 = Ok a3 ->
    allocate_value c (f_ub f) a3 = Ok a4 ->
    match f_step f with Some s => allocate_value c s a4 | None => Ok a4 end = Ok a5 ->
    let regs := somes (map (ty a5) (f_iters f)) in
    let a6 := set_stk a5 (fold_left (fun s r => reserve_register r s) regs (stk a5)) in
    let acc := (((li ++ gv) ++ [iv]) ++ [f_ub f]) ++ step_list f in
    Inv0 (setof (live post) acc) (Eg gs) (setof (ment post) acc) a6
    /\ mono a a6
    /\ (forall v, In v acc -> exists r, ty a6 v = Some r)
    /\ (forall g, In g gs -> exists R, (forall u, In u g -> ty a6 u = Some R) /\ is_reserved R (stk a6) = true).
  Proof.
    intros a a1 a2 a3 a4 a5 HI0 Hall0 E1 E2 E3 E4 E5 regs a6 acc.
    set (S := live post) in *. set (M := ment post) in *.
    pose proof (FH FR00 FR00_tie) as FHf. pose proof (FY FR00 FR00_tie) as FYf.
    assert (HI0' : Inv0 (setof S []) (Eg gs) (setof M []) a).
    { apply (Inv_E_weaken c t00 FR00) with (E := Enone); [|intros x y []].
      eapply Inv_weaken; [exact HI0 | intros v [Hv|[]]; exact Hv | intros v Hv; left; exact Hv]. }
    assert (Hcl : forall v, ~ defined_in post v -> S v \/ ~ M v).
    { intros v Hnd. destruct (classic_ment post v) as [[Hu|Hd]|Hm]; [left; split; assumption | contradiction | right; exact Hm]. }
    assert (HusesY : forall v, In v (uses Y_) -> ~ defined_in post v).
    { intros v Hv Hc. apply (proj2 (of_use c FR00 Y_ post FYf v Hv)). exact Hc. }
    assert (HusesH : forall v, In v (uses H_) -> ~ defined_in post v).
    { intros v Hv Hc. apply (proj2 (of_use c FR00 H_ _ FHf v Hv)). apply defined_in_app. right.
      apply defined_in_cons. right. exact Hc. }
    (* phase 1: live-ins *)
    destruct (alloc_list_phase c t00 FR00 FR00_pre S (Eg gs) M li [] a a1 HI0') as [HI1 [Hm1 [Hal1 Hoth1]]].
    { intros v Hv. apply Hcl. apply HusesY. unfold uses, sop_operands, Yop. simpl.
      apply in_or_app. left. apply in_or_app. right. apply in_or_app. left. exact Hv. }
    { exact E1. }
    simpl in HI1.
    (* phase 2: groups *)
    destruct (groups_phase c t00 FR00 gs Hgs S M gs [] li a1 a2 eq_refl HI1) as [HI2 [Hm2 [Hg2 Hoth2]]].
    { intros g Hg. destruct (group_members g Hg) as [b [it [y [r_ [Eg_ [HinH [HinY Hby]]]]]]].
      exists b, it, y, r_. split; [exact Eg_|]. split; [exact (NoDup_concat_in gs g Hgs Hg)|].
      assert (HbH : In b (defs H_)).
      { unfold defs, sop_results. apply in_or_app. right. apply in_map_iff. exists (it, b). split; [reflexivity | exact HinH]. }
      assert (HitH : In it (map fst (s_io H_))) by (apply in_map_iff; exists (it, b); split; [reflexivity | exact HinH]).
      assert (HyY : In y (map fst (s_io Y_))) by (apply in_map_iff; exists (y, r_); split; [reflexivity | exact HinY]).
      assert (HrY : In r_ (defs Y_)).
      { unfold defs, sop_results. apply in_or_app. right. apply in_map_iff. exists (y, r_). split; [reflexivity | exact HinY]. }
      split; [exact (post_facts_H_def b HbH)|].
      split.
      { intros [Hu|Hd].
        - apply (of_io_dead c FR00 H_ _ FHf it HitH). apply used_in_app. right. apply used_in_cons. right. exact Hu.
        - apply (HusesH it); [|exact Hd]. unfold uses, sop_operands. apply in_or_app. right. exact HitH. }
      split.
      { intros [Hu|Hd].
        - exact (of_io_dead c FR00 Y_ post FYf y HyY Hu).
        - apply (HusesY y); [|exact Hd]. unfold uses, sop_operands. apply in_or_app. right. exact HyY. }
      repeat (split; [reflexivity|]).
      split. { apply Hcl. exact (of_def c FR00 Y_ post FYf r_ HrY). }
      split. { apply (Hnz Y_ y r_); [|exact HinY]. rewrite V_split_Y. apply in_or_app. right. left. reflexivity. }
      split. { intros u w r _ _ []. }
      intros u Hu Hc. subst g. exact (proj1 (Hli u Hc) (gv_in _ u Hg Hu)). }
    { exact Hgs. }
    { exact E2. }
    (* phases 3-5 *)
    destruct (alloc_list_phase c t00 FR00 FR00_pre S (Eg gs) M [iv] (li ++ gv) a2 a3 HI2) as [HI3 [Hm3 [Hal3 Hoth3]]].
    { intros v [Hv|[]]. subst v. right. apply post_facts_H_def. unfold defs, sop_results, Hop. simpl.
      rewrite Hb. simpl. left. reflexivity. }
    { exact E3. }
    rewrite <- (fold_res_single (allocate_value c) (f_ub f) a3) in E4.
    destruct (alloc_list_phase c t00 FR00 FR00_pre S (Eg gs) M [f_ub f] ((li ++ gv) ++ [iv]) a3 a4 HI3) as [HI4 [Hm4 [Hal4 Hoth4]]].
    { intros v [Hv|[]]. subst v. apply Hcl. apply HusesH. unfold uses, sop_operands, Hop. simpl. right. left. reflexivity. }
    { exact E4. }
    assert (E5' : fold_res (allocate_value c) (step_list f) a4 = Ok a5).
    { unfold step_list. destruct (f_step f) as [s|]; [rewrite fold_res_single; exact E5 | simpl; exact E5]. }
    destruct (alloc_list_phase c t00 FR00 FR00_pre S (Eg gs) M (step_list f) (((li ++ gv) ++ [iv]) ++ [f_ub f]) a4 a5 HI4)
      as [HI5 [Hm5 [Hal5 Hoth5]]].
    { intros v Hv. apply Hcl. apply HusesH. unfold uses, sop_operands, Hop. simpl. right. right.
      apply in_or_app. left. exact Hv. }
    { exact E5'. }
    fold acc in HI5.
    assert (Hm25 : mono a2 a5). { intros w q Hq. apply Hm5. apply Hm4. apply Hm3. exact Hq. }
    (* group registers *)
    assert (Hgreg : forall g, In g gs -> exists R, (forall u, In u g -> ty a5 u = Some R) /\ In R regs).
    { intros g Hg. destruct (Hg2 g Hg) as [R HR]. exists R. split; [intros u Hu; apply Hm25; exact (HR u Hu)|].
      destruct (group_members g Hg) as [b [it [y [r_ [Eg_ [HinH _]]]]]]. subst g.
      assert (Hit : ty a5 it = Some R) by (apply Hm25; apply HR; simpl; tauto).
      unfold regs. assert (Hitin : In it (f_iters f)).
      { unfold Hop in HinH. simpl in HinH. exact (in_combine_l _ _ _ _ HinH). }
      clear - Hit Hitin. induction (f_iters f) as [|x t IH]; [destruct Hitin|]. simpl.
      destruct Hitin as [Hx|Hx]; [subst x; rewrite Hit; left; reflexivity|].
      destruct (ty a5 x); [right|]; exact (IH Hx). }
    assert (Hregs : forall r, In r regs -> exists it, In it (f_iters f) /\ ty a5 it = Some r).
    { intros r Hr. unfold regs in Hr. clear - Hr. induction (f_iters f) as [|x t IH]; [destruct Hr|]. simpl in Hr.
      destruct (ty a5 x) as [q|] eqn:Ex.
      - destruct Hr as [Hr|Hr]; [subst q; exists x; split; [left; reflexivity | exact Ex]|].
        destruct (IH Hr) as [it [H1 H2]]. exists it. split; [right; exact H1 | exact H2].
      - destruct (IH Hr) as [it [H1 H2]]. exists it. split; [right; exact H1 | exact H2]. }
    assert (Hiters_g : forall it, In it (f_iters f) -> exists g, In g gs /\ In it g).
    { intros it Hit. unfold groups. rewrite Hb. simpl. destruct Hlen as [L1 [L2 L3]].
      apply (zip4_cover_b (f_iters f) cb (f_yield f) (f_res f) it Hit); lia. }
    assert (Hgv_acc : forall u, In u gv -> In u acc).
    { intros u Hu. unfold acc. apply in_or_app. left. apply in_or_app. left. apply in_or_app. left.
      apply in_or_app. right. exact Hu. }
    pose proof HI5 as HI5c. destruct HI5c as [Hs5 [H15 _]].
    (* phase 6: reservation *)
    assert (HI6 : Inv0 (setof S acc) (Eg gs) (setof M acc) a6).
    { apply (reserve_inv c t00 FR00 _ _ _ a5 regs HI5). intros r Hr.
      destruct (Hregs r Hr) as [it [Hit Hty]]. destruct (Hiters_g it Hit) as [g [Hg Hitg]].
      assert (HL : setof S acc it) by (right; apply Hgv_acc; exact (gv_in g it Hg Hitg)).
      split; [exact (H15 it r HL Hty) | intros Hneg; exact (proj1 (so_neg_ty c t00 a5 Hs5 it r Hty Hneg))]. }
    split; [exact HI6|]. split.
    { intros w q Hq. unfold a6. simpl. apply Hm5. apply Hm4. apply Hm3. apply Hm2. apply Hm1. exact Hq. }
    split.
    { intros v Hv. unfold a6. simpl. unfold acc in Hv.
      apply in_app_or in Hv. destruct Hv as [Hv|Hv]; [|exact (Hal5 v Hv)].
      apply in_app_or in Hv. destruct Hv as [Hv|Hv]; [|destruct (Hal4 v Hv) as [r Hr]; exists r; apply Hm5; exact Hr].
      apply in_app_or in Hv. destruct Hv as [Hv|Hv];
        [|destruct (Hal3 v Hv) as [r Hr]; exists r; apply Hm5; apply Hm4; exact Hr].
      apply in_app_or in Hv. destruct Hv as [Hv|Hv].
      - destruct (Hal1 v Hv) as [r Hr]. exists r. apply Hm25. apply Hm2. exact Hr.
      - apply in_concat in Hv. destruct Hv as [g [Hg Hvg]]. destruct (Hgreg g Hg) as [R [HR _]].
        exists R. exact (HR v Hvg). }
    intros g Hg. destruct (Hgreg g Hg) as [R [HR HRin]]. exists R. split; [exact HR|].
    unfold a6. simpl. apply reserve_keys. right. exact HRin.
  Qed.

  Definition acc_of : list value := (((li ++ gv) ++ [iv]) ++ [f_ub f]) ++ step_list f.

  Lemma no_pset00 : forall r, ~ Pset t00 r.
  Proof. intros r [w Hw]. discriminate. Qed.

  (* the invariant at the loop end w.r.t. the typing in which the group members are pre-assigned *)
  Lemma yrebase : forall a6,
    Inv0 (setof (live post) acc_of) (Eg gs) (setof (ment post) acc_of) a6 ->
    (forall v, live post v -> exists r, ty a6 v = Some r) ->
    (forall v, In v acc_of -> exists r, ty a6 v = Some r) ->
    (forall g, In g gs -> exists R, (forall u, In u g -> ty a6 u = Some R) /\ is_reserved R (stk a6) = true) ->
    Inv c (t0' a6) (FR' a6) (live (Y_ :: post)) Enone (ment (Y_ :: post)) a6
    /\ (forall v, live (Y_ :: post) v -> exists r, ty a6 v = Some r)
    /\ (forall w1 w2 r, In w1 gv -> In w2 gv -> ty a6 w1 = Some r -> ty a6 w2 = Some r ->
          exists g, In g gs /\ In w1 g /\ In w2 g)
    /\ (forall w r, In w gv -> ty a6 w = Some r -> ty a6 iv <> Some r)
    /\ (forall w r, In w gv -> ty a6 w = Some r ->
          (r < 0 -> allow_inf (stk a6) = true)
          /\ (In r (allocatable (stk a6)) \/ (r < 0 /\ allow_inf (stk a6) = true))).
  Proof.
    intros a6 HI6 HallS Hallacc Hgreg.
    pose proof HI6 as HIc. destruct HIc as [Hs6 [H16 [H26 [Hf6 H56]]]].
    pose proof (FY FR00 FR00_tie) as FYf.
    assert (Hgv_acc : forall u, In u gv -> In u acc_of).
    { intros u Hu. unfold acc_of. apply in_or_app. left. apply in_or_app. left. apply in_or_app. left.
      apply in_or_app. right. exact Hu. }
    assert (Hgvty : forall v, In v gv -> exists R, ty a6 v = Some R /\ is_reserved R (stk a6) = true).
    { intros v Hv. apply in_concat in Hv. destruct Hv as [g [Hg Hvg]]. destruct (Hgreg g Hg) as [R [HR Hres]].
      exists R. split; [exact (HR v Hvg) | exact Hres]. }
    assert (Hnz0 : zero_rule c = true -> forall v, In v gv -> ty a6 v <> Some 0).
    { intros Hz v Hv Hc. apply in_concat in Hv. destruct Hv as [g [Hg Hvg]].
      destruct (Hgreg g Hg) as [R [HR _]]. rewrite (HR v Hvg) in Hc. inversion Hc; subst R.
      destruct (group_members g Hg) as [b [it [y [r_ [Eg_ [_ [HinY _]]]]]]]. subst g.
      apply (Hnz Y_ y r_); [rewrite V_split_Y; apply in_or_app; right; left; reflexivity | exact HinY|].
      apply (so_zero_ty c t00 a6 Hs6 r_ Hz). apply HR. simpl. tauto. }
    assert (Hshare : forall v w r, setof (live post) acc_of v -> In w gv -> v <> w ->
               ty a6 v = Some r -> ty a6 w = Some r -> Eg gs v w).
    { intros v w r Hv Hw Hne Hrv Hrw.
      destruct (H26 v w r Hv (or_intror (Hgv_acc w Hw)) Hne Hrv Hrw) as [HP|[[Hz H0]|HE]].
      - exfalso. exact (no_pset00 r HP).
      - exfalso. subst r. exact (Hnz0 Hz w Hw Hrw).
      - exact HE. }
    assert (HI' : Inv c (t0' a6) (FR' a6) (setof (live post) acc_of) (Eg gs) (setof (ment post) acc_of) a6).
    { apply (rebase c t00 FR00 (FR' a6) gv a6 _ _ _ HI6).
      - intros v Hv. right. exact (Hgv_acc v Hv).
      - exact Hgvty.
      - exact Hnz0.
      - intros v r [].
      - intros v r Hv Hr [w [Hw Hrw]]. destruct (in_dec Nat.eq_dec v gv) as [Hvg|Hvg].
        + exists v. split; [exact Hvg|]. split; [exact Hr | constructor].
        + exfalso. assert (Hne : v <> w) by (intro; subst; contradiction).
          destruct (Hshare v w r Hv Hw Hne Hr Hrw) as [g [Hg [Hvg' _]]]. exact (Hvg (gv_in g v Hg Hvg')). }
    destruct HI' as [Hs' [H1' [H2' [Hf' H5']]]].
    assert (Hsub : forall v, live (Y_ :: post) v -> setof (live post) acc_of v).
    { intros v [Hu Hnd]. apply used_in_cons in Hu. destruct Hu as [Hu|Hu].
      - right. unfold uses, sop_operands, Yop in Hu. simpl in Hu. rewrite Hb in Hu. simpl in Hu. unfold acc_of.
        destruct Hu as [Hu|Hu]; [subst v; apply in_or_app; left; apply in_or_app; left; apply in_or_app; right; left; reflexivity|].
        apply in_app_or in Hu. destruct Hu as [Hu|Hu].
        + apply in_app_or in Hu. destruct Hu as [Hu|Hu].
          * apply in_or_app; left; apply in_or_app; left; apply in_or_app; left; apply in_or_app; left; exact Hu.
          * destruct Hu as [Hu|Hu]; [subst v; apply in_or_app; left; apply in_or_app; right; left; reflexivity|].
            apply in_or_app. right. exact Hu.
        + apply in_or_app; left; apply in_or_app; left; apply in_or_app; left; apply in_or_app; right.
          apply in_map_iff in Hu. destruct Hu as [[y r_] [E Hin]]. simpl in E. subst y.
          destruct Hlen as [L1 [L2 L3]].
          destruct (zip4_cover_c (f_yield f) cb (f_iters f) (f_res f) v (in_combine_l _ _ _ _ Hin)) as [g [Hg Hvg]]; try lia.
          apply (gv_in g v); [unfold groups; rewrite Hb; exact Hg | exact Hvg].
      - left. split; [exact Hu | intro Hc; apply Hnd; apply defined_in_cons; right; exact Hc]. }
    split; [|split; [|split; [|split]]].
    - split; [exact Hs'|]. split; [|split; [|split]].
      + intros v r Hv. exact (H1' v r (Hsub v Hv)).
      + intros v1 v2 r Hv1 Hv2 Hne Hq1 Hq2.
        destruct (H2' v1 v2 r (Hsub v1 Hv1) (Hsub v2 Hv2) Hne Hq1 Hq2) as [H|[H|[g [Hg [Hg1 _]]]]];
          [left; exact H | right; left; exact H|].
        left. exists v1. unfold t0', rebased.
        assert (Em : memN v1 gv = true) by (apply memN_In; exact (gv_in g v1 Hg Hg1)). rewrite Em. exact Hq1.
      + intros v Hv. unfold t0', rebased. destruct (memN v gv) eqn:Em; [reflexivity|].
        assert (Hvg : ~ In v gv) by (intro Hc; apply memN_In in Hc; congruence).
        apply Hf6. intros [Hm|Hacc].
        * apply Hv. destruct Hm as [Hu|Hd]; [left; apply used_in_cons; right; exact Hu | right; apply defined_in_cons; right; exact Hd].
        * apply Hv. left. apply used_in_cons. left. unfold uses, sop_operands, Yop. simpl. rewrite Hb. simpl.
          unfold acc_of in Hacc. apply in_app_or in Hacc. destruct Hacc as [Hacc|Hacc].
          -- apply in_app_or in Hacc. destruct Hacc as [Hacc|Hacc].
             ++ apply in_app_or in Hacc. destruct Hacc as [Hacc|Hacc].
                ** apply in_app_or in Hacc. destruct Hacc as [Hacc|Hacc]; [|contradiction].
                   right. apply in_or_app. left. apply in_or_app. left. exact Hacc.
                ** destruct Hacc as [Hacc|[]]. left. exact Hacc.
             ++ destruct Hacc as [Hacc|[]]. right. apply in_or_app. left. apply in_or_app. right. left. exact Hacc.
          -- right. apply in_or_app. left. apply in_or_app. right. right. exact Hacc.
      + intros v r Hv. exact (H5' v r (Hsub v Hv)).
    - intros v Hv. destruct (Hsub v Hv) as [HS|Hacc]; [exact (HallS v HS) | exact (Hallacc v Hacc)].
    - intros w1 w2 r Hw1 Hw2 Hr1 Hr2. destruct (Nat.eq_dec w1 w2) as [E|E].
      + subst w2. apply in_concat in Hw1. destruct Hw1 as [g [Hg Hwg]]. exists g. repeat split; assumption.
      + exact (Hshare w1 w2 r (or_intror (Hgv_acc w1 Hw1)) Hw2 E Hr1 Hr2).
    - intros w r Hw Hr Hc. assert (Hne : iv <> w) by (intro; subst; contradiction).
      assert (Hivacc : setof (live post) acc_of iv).
      { right. unfold acc_of. apply in_or_app; left; apply in_or_app; left; apply in_or_app; right; left; reflexivity. }
      destruct (Hshare iv w r Hivacc Hw Hne Hc Hr) as [g [Hg [Hivg _]]]. exact (Hiv (gv_in g iv Hg Hivg)).
    - intros w r Hw Hr. split.
      + intros Hneg. destruct (so_neg_ty c t00 a6 Hs6 w r Hr Hneg) as [_ [H|H]]; [exact H | exfalso; exact (no_pset00 r H)].
      + destruct (so_prov c t00 a6 Hs6 w r Hr eq_refl) as [H|[H|[[Hz [H0 _]]|H]]];
          [left; exact H | right; exact H | exfalso; subst r; exact (Hnz0 Hz w Hw Hr) | exfalso; exact (no_pset00 r H)].
  Qed.

  Lemma FR'_pre : forall a6 v r, t0' a6 v = Some r -> FR' a6 v r.
  Proof.
    intros a6 v r H. unfold t0', rebased, t00 in H. destruct (memN v gv) eqn:Em; [|discriminate].
    exists v. split; [apply memN_In; exact Em|]. split; [exact H | constructor].
  Qed.
  Lemma FR'_tie : forall a6 o' x y, In o' V -> In (x, y) (s_io o') ->
    forall r, (FR' a6 x r -> FR' a6 y r) /\ (FR' a6 y r -> FR' a6 x r).
  Proof.
    intros a6 o' x y Ho Hin r. assert (Ht : ltie pre f post x y) by (left; exists o'; split; assumption).
    split; intros [w [Hw [Hr Hc]]]; exists w; (split; [exact Hw|]); (split; [exact Hr|]).
    - exact (tc_step pre f post w x y Hc (or_introl Ht)).
    - exact (tc_step pre f post w y x Hc (or_intror Ht)).
  Qed.

  (* the members of one group are connected by ties *)
  Lemma group_conn : forall g u w, In g gs -> In u g -> In w g -> tconn pre f post u w.
  Proof.
    intros g u w Hg Hu Hw. destruct (group_members g Hg) as [b [it [y [r_ [E [HinH [HinY Hby]]]]]]]. subst g.
    assert (T1 : ltie pre f post it b).
    { left. exists H_. split; [rewrite V_split_H; apply in_or_app; right; left; reflexivity | exact HinH]. }
    assert (T2 : ltie pre f post b y). { right. rewrite Hb. simpl. exact Hby. }
    assert (T3 : ltie pre f post y r_).
    { left. exists Y_. split; [rewrite V_split_Y; apply in_or_app; right; left; reflexivity | exact HinY]. }
    assert (Cb : forall x, In x [b; it; y; r_] -> tconn pre f post b x).
    { intros x Hx. simpl in Hx. destruct Hx as [Hx|[Hx|[Hx|[Hx|[]]]]]; subst x.
      - constructor.
      - exact (tc_step _ _ _ b b it (tc_refl _ _ _ b) (or_intror T1)).
      - exact (tc_step _ _ _ b b y (tc_refl _ _ _ b) (or_introl T2)).
      - exact (tc_step _ _ _ b y r_ (tc_step _ _ _ b b y (tc_refl _ _ _ b) (or_introl T2)) (or_introl T3)). }
    exact (tconn_trans _ _ _ u b w (tconn_sym _ _ _ b u (Cb u Hu)) (Cb w Hw)).
  Qed.
End OneLoop.
