(* C19/ProofsSem.v -- an interference-free register assignment preserves the semantics:
   the register machine (ProofsSpec.exec_regs) reads, at every operation, the same operand values
   as the SSA evaluation (ProofsSpec.exec_ssa), hence computes the same results. *)
From Coq Require Import ZArith List Bool Arith Lia.
From XV Require Import C19.Model C19.ProofsSpec C19.ProofsStack.
Import ListNotations.
Local Open Scope Z_scope.

(* ---------------------------------------------------------------------------------------------- *)
(* lists, definitions *)

Lemma NoDup_app_disj : forall (A : Type) (a b : list A) v, NoDup (a ++ b) -> In v a -> ~ In v b.
Proof.
  intros A a. induction a as [|x a IH]; intros b v Hnd Hin Hb.
  - destruct Hin.
  - simpl in Hnd. inversion Hnd as [|y t Hnx Hnd']; subst.
    destruct Hin as [Heq | Hin].
    + subst. apply Hnx. apply in_or_app. right. exact Hb.
    + exact (IH b v Hnd' Hin Hb).
Qed.

Lemma defined_in_flat : forall s v, defined_in s v <-> In v (flat_map defs s).
Proof. intros s v. unfold defined_in. rewrite in_flat_map. reflexivity. Qed.

Lemma nodup_done_defs : forall done o rest v,
  NoDup (flat_map defs (done ++ o :: rest)) -> defined_in done v -> ~ In v (defs o).
Proof.
  intros done o rest v Hnd Hd Hin. rewrite flat_map_app in Hnd. simpl in Hnd.
  apply defined_in_flat in Hd.
  apply (NoDup_app_disj _ _ _ v Hnd Hd). apply in_or_app. left. exact Hin.
Qed.

(* ---------------------------------------------------------------------------------------------- *)
(* zero constants: the fold, one step at a time *)

Definition zstep (zs : list value) (o : sop) : list value :=
  match s_kind o, s_outs o, s_ins o with
  | KZero, r :: _, _ => r :: zs
  | KMv, r :: _, x :: _ => if memN x zs then r :: zs else zs
  | _, _, _ => zs
  end.

Lemma zero_consts_fold : forall l, zero_consts l = fold_left zstep l [].
Proof. reflexivity. Qed.

Lemma zero_consts_snoc : forall p o, zero_consts (p ++ [o]) = zstep (zero_consts p) o.
Proof. intros p o. rewrite !zero_consts_fold, fold_left_app. reflexivity. Qed.

Lemma zstep_cases : forall zs o,
  zstep zs o = zs \/
  exists r t, s_outs o = r :: t /\ zstep zs o = r :: zs /\
    (s_kind o = KZero \/ (s_kind o = KMv /\ exists x t', s_ins o = x :: t' /\ In x zs)).
Proof.
  intros zs o. unfold zstep.
  destruct (s_kind o) eqn:Hk.
  - left. destruct (s_outs o); destruct (s_ins o); reflexivity.
  - destruct (s_outs o) as [|r t] eqn:Ho.
    + left. destruct (s_ins o); reflexivity.
    + right. exists r, t. split; [reflexivity|]. split; [|left; reflexivity].
      destruct (s_ins o); reflexivity.
  - destruct (s_outs o) as [|r t] eqn:Ho.
    + left. destruct (s_ins o); reflexivity.
    + destruct (s_ins o) as [|x t'] eqn:Hi; [left; reflexivity|].
      destruct (memN x zs) eqn:Hm; [|left; reflexivity].
      right. exists r, t. split; [reflexivity|]. split; [reflexivity|]. right.
      split; [reflexivity|]. exists x, t'. split; [reflexivity|]. apply memN_In. exact Hm.
Qed.

Lemma zstep_In : forall zs o v, In v (zstep zs o) -> In v zs \/ In v (defs o).
Proof.
  intros zs o v Hin.
  destruct (zstep_cases zs o) as [He | [r [t [Ho [He _]]]]]; rewrite He in Hin.
  - left; exact Hin.
  - destruct Hin as [Heq | Hin]; [right | left; exact Hin].
    subst. unfold defs, sop_results. rewrite Ho. left; reflexivity.
Qed.

Lemma zfold_In : forall s zs v, In v (fold_left zstep s zs) -> In v zs \/ defined_in s v.
Proof.
  induction s as [|o s IH]; intros zs v Hin; simpl in Hin.
  - left; exact Hin.
  - destruct (IH _ _ Hin) as [H1 | [o' [Ho' Hv]]].
    + destruct (zstep_In _ _ _ H1) as [H2 | H2]; [left; exact H2|].
      right. exists o. split; [left; reflexivity | exact H2].
    + right. exists o'. split; [right; exact Ho' | exact Hv].
Qed.

Lemma zero_consts_defined : forall p v, In v (zero_consts p) -> defined_in p v.
Proof.
  intros p v Hin. rewrite zero_consts_fold in Hin.
  destruct (zfold_In _ _ _ Hin) as [[] | H]; exact H.
Qed.

Lemma zero_consts_prefix : forall p s v,
  In v (zero_consts (p ++ s)) -> ~ defined_in s v -> In v (zero_consts p).
Proof.
  intros p s v Hin Hnd. rewrite zero_consts_fold, fold_left_app in Hin. rewrite zero_consts_fold.
  destruct (zfold_In _ _ _ Hin) as [H | H]; [exact H | contradiction].
Qed.

(* ---------------------------------------------------------------------------------------------- *)

Section Sim.
  Variable data : Type.
  Variable dzero : data.
  Variable fop : nat -> nat -> list data -> data.
  Variable zr : bool.
  Variable asg : value -> Z.
  Variable l : list sop.
  Hypothesis Hwf : wf_prog l.
  (* interference freedom of the assignment, as delivered by the allocator theorems *)
  Hypothesis Hlive : forall p s, l = p ++ s -> forall v1 v2, live s v1 -> live s v2 -> v1 <> v2 ->
      asg v1 = asg v2 -> is_zero_reg zr (asg v1) = true.
  Hypothesis Hdef : forall p o s, l = p ++ o :: s -> forall d v, In d (defs o) -> live s v -> d <> v ->
      asg d = asg v -> is_zero_reg zr (asg d) = true.
  (* only known constants zero sit in the hard-wired zero register *)
  Hypothesis Hzero : forall v, is_zero_reg zr (asg v) = true -> In v (zero_consts l).
  Variable env0 : value -> data.
  Variable rf0 : Z -> data.
  Hypothesis Hinit : forall v, live l v -> read_reg data dzero zr asg rf0 v = env0 v.

  Local Notation rd := (read_reg data dzero zr asg).
  Local Notation wr := (write_regs data zr asg).
  Local Notation we := (write_env data).
  Local Notation rs := (results_of data dzero fop).

  (* -- writes ---------------------------------------------------------------------------------- *)

  Lemma results_length : forall i o ins, length (rs i o ins) = length (defs o).
  Proof.
    intros i o ins. unfold results_of.
    destruct (s_kind o); rewrite map_length; try rewrite seq_length; reflexivity.
  Qed.

  Lemma write_env_notin : forall ds xs env v, ~ In v ds -> we env ds xs v = env v.
  Proof.
    induction ds as [|d ds IH]; intros xs env v Hn; simpl; [reflexivity|].
    destruct xs as [|x xs]; [reflexivity|].
    rewrite IH by (intro H; apply Hn; right; exact H).
    unfold upd. destruct (Nat.eqb v d) eqn:E; [|reflexivity].
    apply Nat.eqb_eq in E. subst. exfalso. apply Hn. left; reflexivity.
  Qed.

  (* all written values equal c: a value that was c, or is written, is c afterwards *)
  Lemma write_env_const : forall c ds xs env v, (forall x, In x xs -> x = c) ->
    (env v = c \/ (In v ds /\ length ds = length xs)) -> we env ds xs v = c.
  Proof.
    intros c. induction ds as [|d ds IH]; intros xs env v Hall Hc.
    - simpl. destruct Hc as [H | [[] _]]. exact H.
    - destruct xs as [|x xs].
      + simpl. destruct Hc as [H | [_ Hlen]]; [exact H | discriminate Hlen].
      + simpl. apply IH.
        * intros y Hy. apply Hall. right; exact Hy.
        * unfold upd. destruct (Nat.eqb v d) eqn:E.
          -- left. apply Hall. left; reflexivity.
          -- destruct Hc as [H | [[Heq | Hin] Hlen]].
             ++ left; exact H.
             ++ subst. rewrite Nat.eqb_refl in E. discriminate.
             ++ right. split; [exact Hin|]. simpl in Hlen. injection Hlen as Hlen. exact Hlen.
  Qed.

  (* a value in a proper register that no other written value shares: its register holds, after the
     writes, what the environment binds it to *)
  Lemma write_sim : forall ds xs env rf v,
    is_zero_reg zr (asg v) = false ->
    (forall d, In d ds -> d <> v -> asg d <> asg v) ->
    (rf (asg v) = env v \/ (In v ds /\ length ds = length xs)) ->
    wr rf ds xs (asg v) = we env ds xs v.
  Proof.
    induction ds as [|d ds IH]; intros xs env rf v Hnz Hdis Hc.
    - simpl. destruct Hc as [H | [[] _]]. exact H.
    - destruct xs as [|x xs].
      + simpl. destruct Hc as [H | [_ Hlen]]; [exact H | discriminate Hlen].
      + simpl. apply IH; [exact Hnz | intros d' Hd'; apply Hdis; right; exact Hd' |].
        destruct (Nat.eq_dec v d) as [E | E].
        * left. subst d. rewrite Hnz. unfold updZ, upd. rewrite Z.eqb_refl, Nat.eqb_refl. reflexivity.
        * destruct Hc as [H | [[Heq | Hin] Hlen]].
          -- left.
             assert (Hne : asg d <> asg v) by (apply Hdis; [left; reflexivity | congruence]).
             unfold upd. destruct (Nat.eqb v d) eqn:E1; [apply Nat.eqb_eq in E1; contradiction|].
             destruct (is_zero_reg zr (asg d)); [exact H|].
             unfold updZ. destruct (Z.eqb (asg v) (asg d)) eqn:E2; [|exact H].
             apply Z.eqb_eq in E2. congruence.
          -- congruence.
          -- right. split; [exact Hin|]. simpl in Hlen. injection Hlen as Hlen. exact Hlen.
  Qed.

  (* -- liveness -------------------------------------------------------------------------------- *)

  Lemma live_use : forall p o s v, l = p ++ o :: s -> In v (uses o) -> live (o :: s) v.
  Proof.
    intros p o s v Hl Hin. split.
    - exists o. split; [left; reflexivity | exact Hin].
    - exact (wf_use l Hwf p o s Hl v Hin).
  Qed.

  Lemma live_cons : forall o s v, live s v -> ~ In v (defs o) -> live (o :: s) v.
  Proof.
    intros o s v [[o' [Ho' Hu]] Hnd] Hn. split.
    - exists o'. split; [right; exact Ho' | exact Hu].
    - intros [o'' [[Heq | Hin] Hd]].
      + subst. contradiction.
      + apply Hnd. exists o''. split; assumption.
  Qed.

  (* -- the invariant ---------------------------------------------------------------------------- *)

  Definition INV (done rest : list sop) (env : value -> data) (rf : Z -> data) : Prop :=
    (forall v, live rest v -> rd rf v = env v) /\
    (forall v, In v (zero_consts done) -> env v = dzero).

  Lemma inputs_eq : forall done o rest env rf, l = done ++ o :: rest -> INV done (o :: rest) env rf ->
    map (rd rf) (uses o) = map env (uses o).
  Proof.
    intros done o rest env rf Hl Hinv. apply map_ext_in. intros v Hv.
    apply (proj1 Hinv). exact (live_use done o rest v Hl Hv).
  Qed.

  Lemma inv_step_zero : forall done o rest env i, l = done ++ o :: rest ->
    (forall v, In v (zero_consts done) -> env v = dzero) ->
    forall v, In v (zero_consts (done ++ [o])) ->
      we env (defs o) (rs i o (map env (uses o))) v = dzero.
  Proof.
    intros done o rest env i Hl Hz v Hin. rewrite zero_consts_snoc in Hin.
    destruct (zstep_cases (zero_consts done) o) as [He | [r [t [Ho [He Hk]]]]]; rewrite He in Hin.
    - rewrite write_env_notin; [apply Hz; exact Hin|].
      apply (nodup_done_defs done o rest).
      + rewrite <- Hl. exact (wf_nodup l Hwf).
      + apply zero_consts_defined. exact Hin.
    - apply write_env_const.
      + intros x Hx. unfold results_of in Hx.
        destruct Hk as [Hk | [Hk [y [t' [Hi Hy]]]]]; rewrite Hk in Hx;
          apply in_map_iff in Hx; destruct Hx as [w [Hx _]]; subst x; [reflexivity|].
        unfold uses, sop_operands. rewrite Hi. simpl. apply Hz. exact Hy.
      + destruct Hin as [Heq | Hin]; [right | left; apply Hz; exact Hin].
        subst v. split.
        * unfold defs, sop_results. rewrite Ho. left; reflexivity.
        * symmetry. apply results_length.
  Qed.

  Lemma inv_step : forall done o rest env rf i, l = done ++ o :: rest -> INV done (o :: rest) env rf ->
    INV (done ++ [o]) rest
      (we env (defs o) (rs i o (map env (uses o))))
      (wr rf (defs o) (rs i o (map (rd rf) (uses o)))).
  Proof.
    intros done o rest env rf i Hl Hinv.
    rewrite (inputs_eq done o rest env rf Hl Hinv).
    destruct Hinv as [H1 H2].
    assert (HZ := inv_step_zero done o rest env i Hl H2).
    split; [|exact HZ].
    intros v Hlv. unfold read_reg. destruct (is_zero_reg zr (asg v)) eqn:Hz.
    - symmetry. apply HZ. apply (zero_consts_prefix _ rest).
      + rewrite <- app_assoc. simpl. rewrite <- Hl. apply Hzero. exact Hz.
      + exact (proj2 Hlv).
    - apply write_sim; [exact Hz | |].
      + intros d Hd Hne Heq.
        assert (Hzz := Hdef done o rest Hl d v Hd Hlv Hne Heq). rewrite Heq in Hzz. congruence.
      + destruct (in_dec Nat.eq_dec v (defs o)) as [Hin | Hnin].
        * right. split; [exact Hin | symmetry; apply results_length].
        * left. assert (Hl' := H1 v (live_cons o rest v Hlv Hnin)).
          unfold read_reg in Hl'. rewrite Hz in Hl'. exact Hl'.
  Qed.

  Lemma inv_run : forall p done rest env rf, l = done ++ p ++ rest -> INV done (p ++ rest) env rf ->
    INV (done ++ p) rest
      (exec_ssa data dzero fop (length done) p env)
      (exec_regs data dzero fop zr asg (length done) p rf).
  Proof.
    induction p as [|o p IH]; intros done rest env rf Hl Hinv.
    - simpl. rewrite app_nil_r. exact Hinv.
    - simpl. simpl in Hl, Hinv.
      assert (Hs := inv_step done o (p ++ rest) env rf (length done) Hl Hinv).
      assert (Hl2 : l = (done ++ [o]) ++ p ++ rest) by (rewrite <- app_assoc; exact Hl).
      specialize (IH (done ++ [o]) rest _ _ Hl2 Hs).
      rewrite app_length in IH. simpl in IH. rewrite Nat.add_1_r in IH.
      rewrite <- app_assoc in IH. exact IH.
  Qed.

  (* every operation reads the same operand values from registers as from the SSA environment *)
  Theorem sim_operands : forall p o s, l = p ++ o :: s -> forall v, In v (uses o) ->
      read_reg data dzero zr asg (exec_regs data dzero fop zr asg 0 p rf0) v
      = exec_ssa data dzero fop 0 p env0 v.
  Proof using All.
    intros p o s Hl v Hv.
    assert (H0 : INV [] (p ++ o :: s) env0 rf0).
    { split.
      - intros w Hw. apply Hinit. rewrite Hl. exact Hw.
      - intros w Hw. cbv in Hw. contradiction. }
    assert (Hr := inv_run p [] (o :: s) env0 rf0 Hl H0). simpl in Hr.
    apply (proj1 Hr). exact (live_use p o s v Hl Hv).
  Qed.

  (* hence every operation computes the same results in both executions *)
  Corollary sim_results : forall p o s, l = p ++ o :: s ->
      results_of data dzero fop (length p) o
        (map (read_reg data dzero zr asg (exec_regs data dzero fop zr asg 0 p rf0)) (uses o))
      = results_of data dzero fop (length p) o (map (exec_ssa data dzero fop 0 p env0) (uses o)).
  Proof using All.
    intros p o s Hl. f_equal. apply map_ext_in. intros v Hv. exact (sim_operands p o s Hl v Hv).
  Qed.
End Sim.

Check sim_operands.
Check sim_results.
Print Assumptions sim_operands.
Print Assumptions sim_results.
