(* C19/ProofsOp.v -- HasRegisterConstraints.allocate_registers preserves the allocator invariant:
   the four phases (in/out groups, outs, frees in reverse, ins) and the step lemma for one operation
   of the backward walk. *)
From Coq Require Import ZArith List Bool Arith Lia.
From XV Require Import C19.Model C19.ProofsSpec C19.ProofsStack C19.ProofsAlloc.
Import ListNotations.
Local Open Scope Z_scope.

Definition pairvals (ios : list (value * value)) : list value :=
  flat_map (fun p => [fst p; snd p]) ios.

Lemma pairvals_in : forall ios x y, In (x, y) ios -> In x (pairvals ios) /\ In y (pairvals ios).
Proof.
  induction ios as [|[a b] t IH]; intros x y H; simpl in *; [destruct H|].
  destruct H as [H|H].
  - inversion H; subst. split; [left; reflexivity | right; left; reflexivity].
  - destruct (IH x y H) as [H1 H2]. split; right; right; assumption.
Qed.

Lemma pairvals_inv : forall ios v, In v (pairvals ios) -> In v (map fst ios) \/ In v (map snd ios).
Proof.
  induction ios as [|[a b] t IH]; intros v H; simpl in *; [destruct H|].
  destruct H as [H|[H|H]].
  - left. left. exact H.
  - right. left. exact H.
  - destruct (IH v H) as [H1|H1]; [left; right; exact H1 | right; right; exact H1].
Qed.

Lemma in_map_fst : forall (ios : list (value * value)) x, In x (map fst ios) -> exists y, In (x, y) ios.
Proof.
  induction ios as [|[a b] t IH]; intros x H; simpl in *; [destruct H|].
  destruct H as [H|H]; [subst; exists b; left; reflexivity|].
  destruct (IH x H) as [y Hy]. exists y. right. exact Hy.
Qed.
Lemma in_map_snd : forall (ios : list (value * value)) y, In y (map snd ios) -> exists x, In (x, y) ios.
Proof.
  induction ios as [|[a b] t IH]; intros y H; simpl in *; [destruct H|].
  destruct H as [H|H]; [subst; exists a; left; reflexivity|].
  destruct (IH y H) as [x Hx]. exists x. right. exact Hx.
Qed.

Lemma nodup_snd_inj : forall (ios : list (value * value)) x1 x2 y,
  NoDup (map snd ios) -> In (x1, y) ios -> In (x2, y) ios -> x1 = x2.
Proof.
  induction ios as [|[a b] t IH]; intros x1 x2 y Hnd H1 H2; simpl in *; [destruct H1|].
  inversion Hnd as [|? ? Hn Hd]; subst.
  destruct H1 as [H1|H1]; destruct H2 as [H2|H2].
  - inversion H1; inversion H2; subst. reflexivity.
  - inversion H1; subst. exfalso. apply Hn. apply in_map_iff. exists (x2, y). split; [reflexivity | exact H2].
  - inversion H2; subst. exfalso. apply Hn. apply in_map_iff. exists (x1, y). split; [reflexivity | exact H1].
  - exact (IH x1 x2 y Hd H1 H2).
Qed.

Section Op.
  Variable c : cfg.
  Variable t0 : value -> option Z.
  Variable FR : value -> Z -> Prop.
  Hypothesis FR_pre : forall v r, t0 v = Some r -> FR v r.

  Notation Inv := (Inv c t0 FR).
  Notation Pset := (Pset t0).

  Definition setof (S : value -> Prop) (acc : list value) : value -> Prop := fun v => S v \/ In v acc.

  Lemma Inv_E_weaken : forall L (E E' : value -> value -> Prop) M a,
    Inv L E M a -> (forall x y, E x y -> E' x y) -> Inv L E' M a.
  Proof.
    intros L E E' M a [Hs [H1 [H2 Hf]]] HE. split; [exact Hs|]. split; [exact H1|]. split; [|exact Hf].
    intros v1 v2 r Hv1 Hv2 Hne Hq1 Hq2. destruct (H2 v1 v2 r Hv1 Hv2 Hne Hq1 Hq2) as [H|[H|H]].
    - left. exact H.
    - right. left. exact H.
    - right. right. apply HE. exact H.
  Qed.

  (* ---- phase: a list of allocate_value calls (outs, then later ins) ---- *)
  Lemma alloc_list_phase : forall (S : value -> Prop) E (M : value -> Prop) vs acc a a',
    Inv (setof S acc) E (setof M acc) a ->
    (forall v, In v vs -> S v \/ ~ M v) ->
    fold_res (allocate_value c) vs a = Ok a' ->
    Inv (setof S (acc ++ vs)) E (setof M (acc ++ vs)) a' /\ mono a a'
    /\ (forall v, In v vs -> exists r, ty a' v = Some r)
    /\ (forall w, ~ In w vs -> ty a' w = ty a w).
  Proof.
    intros S E M vs. induction vs as [|v t IH]; intros acc a a' HI Hpre Hfold; simpl in Hfold.
    - inversion Hfold; subst. rewrite app_nil_r. split; [exact HI|]. split; [intros w q H; exact H|].
      split; [intros v []|]. intros. reflexivity.
    - destruct (allocate_value c v a) as [a1|e] eqn:Eal; simpl in Hfold; [|discriminate].
      assert (Hstep : Inv (setof S (acc ++ [v])) E (setof M (acc ++ [v])) a1 /\ mono a a1
                      /\ (exists r, ty a1 v = Some r) /\ (forall w, w <> v -> ty a1 w = ty a w)).
      { destruct (ty a v) as [r|] eqn:Ety.
        - rewrite (allocate_value_old c v a r Ety) in Eal. inversion Eal; subst a1.
          split; [|split; [intros w q H; exact H | split; [exists r; exact Ety | intros; reflexivity]]].
          destruct (in_dec Nat.eq_dec v acc) as [Hacc|Hacc].
          + eapply Inv_weaken; [exact HI | |].
            * intros w [Hw|Hw]; [left; exact Hw|]. apply in_app_or in Hw. destruct Hw as [Hw|[Hw|[]]].
              -- right. exact Hw.
              -- subst w. right. exact Hacc.
            * intros w [Hw|Hw]; [left; exact Hw | right; apply in_or_app; left; exact Hw].
          + destruct (Hpre v (or_introl eq_refl)) as [HS|HM].
            * eapply Inv_weaken; [exact HI | |].
              -- intros w [Hw|Hw]; [left; exact Hw|]. apply in_app_or in Hw. destruct Hw as [Hw|[Hw|[]]].
                 ++ right. exact Hw.
                 ++ subst w. left. exact HS.
              -- intros w [Hw|Hw]; [left; exact Hw | right; apply in_or_app; left; exact Hw].
            * assert (HnM : ~ setof M acc v). { intros [Hc|Hc]; [exact (HM Hc) | exact (Hacc Hc)]. }
              pose proof (add_untouched c t0 FR FR_pre _ E _ a v r HI HnM Ety) as HI1.
              eapply Inv_weaken; [exact HI1 | |].
              -- intros w [Hw|Hw]; [left; left; exact Hw|]. apply in_app_or in Hw. destruct Hw as [Hw|[Hw|[]]].
                 ++ left. right. exact Hw.
                 ++ right. symmetry. exact Hw.
              -- intros w [[Hw|Hw]|Hw].
                 ++ left. exact Hw.
                 ++ right. apply in_or_app. left. exact Hw.
                 ++ right. apply in_or_app. right. left. symmetry. exact Hw.
        - destruct (allocate_value_new c t0 FR _ E _ a v a1 HI Ety Eal) as [HI1 [Hm [Hex Hoth]]].
          split; [|split; [exact Hm | split; [exact Hex | exact Hoth]]].
          eapply Inv_weaken; [exact HI1 | |].
          + intros w [Hw|Hw]; [left; left; exact Hw|]. apply in_app_or in Hw. destruct Hw as [Hw|[Hw|[]]].
            * left. right. exact Hw.
            * right. symmetry. exact Hw.
          + intros w [[Hw|Hw]|Hw].
            * left. exact Hw.
            * right. apply in_or_app. left. exact Hw.
            * right. apply in_or_app. right. left. symmetry. exact Hw. }
      destruct Hstep as [HI1 [Hm1 [[r1 Hr1] Hoth1]]].
      destruct (IH (acc ++ [v]) a1 a' HI1 (fun w Hw => Hpre w (or_intror Hw)) Hfold) as [HI2 [Hm2 [Hex2 Hoth2]]].
      rewrite <- app_assoc in HI2. simpl in HI2.
      split; [exact HI2|]. split; [intros w q H; apply Hm2; apply Hm1; exact H|]. split.
      + intros w [Hw|Hw]; [subst w; exists r1; apply Hm2; exact Hr1 | exact (Hex2 w Hw)].
      + intros w Hw. destruct (in_dec Nat.eq_dec w t) as [Hwt|Hwt].
        * exfalso. apply Hw. right. exact Hwt.
        * rewrite (Hoth2 w Hwt). apply Hoth1. intro Hc. apply Hw. left. symmetry. exact Hc.
  Qed.

  (* ---- phase: free_value over a list ---- *)
  Lemma free_phase : forall E (M : value -> Prop) ds (L : value -> Prop) a,
    Inv L E M a ->
    (forall d, In d ds -> L d /\ (exists r, ty a d = Some r) /\ forall w, ~ E d w /\ ~ E w d) ->
    NoDup ds ->
    Inv (fun v => L v /\ ~ In v ds) E M (fold_left (fun a v => free_value v a) ds a)
    /\ ty (fold_left (fun a v => free_value v a) ds a) = ty a.
  Proof.
    intros E M ds. induction ds as [|d t IH]; intros L a HI Hpre Hnd; simpl.
    - split; [|reflexivity]. eapply Inv_weaken; [exact HI | intros v [Hv _]; exact Hv | intros v Hv; exact Hv].
    - inversion Hnd as [|? ? Hn Hd]; subst.
      destruct (Hpre d (or_introl eq_refl)) as [HLd [[r Hr] HE]].
      destruct (free_inv c t0 FR L E M a d r HI HLd Hr HE) as [HI1 Hty1].
      assert (Hpre1 : forall d', In d' t -> delv L d d' /\ (exists r, ty (free_value d a) d' = Some r)
                                  /\ forall w, ~ E d' w /\ ~ E w d').
      { intros d' Hd'. destruct (Hpre d' (or_intror Hd')) as [HL' [Hr' HE']].
        split; [split; [exact HL' | intro Hc; subst; exact (Hn Hd')]|]. split; [rewrite Hty1; exact Hr' | exact HE']. }
      destruct (IH (delv L d) (free_value d a) HI1 Hpre1 Hd) as [HI2 Hty2].
      split; [|rewrite Hty2; exact Hty1].
      eapply Inv_weaken; [exact HI2 | | intros v Hv; exact Hv].
      intros v [Hv Hnin]. split; [split; [exact Hv | intro Hc; apply Hnin; left; symmetry; exact Hc]
                                 | intro Hc; apply Hnin; right; exact Hc].
  Qed.

  (* ---- phase: the in/out groups ---- *)
  Lemma io_phase : forall (S : value -> Prop) (E : value -> value -> Prop) (M : value -> Prop) ios acc a a',
    Inv (setof S acc) E (setof M acc) a ->
    (forall x y, In (x, y) ios ->
        x <> y /\ E x y /\ E y x /\ (forall w, E y w -> w = x) /\ (forall w, E w y -> w = x)
        /\ ~ M x /\ (S y \/ ~ M y) /\ ~ In y (zconsts c) /\ (forall r, (FR x r -> FR y r) /\ (FR y r -> FR x r)) /\ ~ In x acc /\ ~ In y acc) ->
    NoDup (pairvals ios) ->
    fold_res (fun p a => allocate_values_same_reg [fst p; snd p] a) ios a = Ok a' ->
    Inv (setof S (acc ++ pairvals ios)) E (setof M (acc ++ pairvals ios)) a' /\ mono a a'
    /\ (forall x y, In (x, y) ios -> exists r, ty a' x = Some r /\ ty a' y = Some r)
    /\ (forall w, ~ In w (pairvals ios) -> ty a' w = ty a w).
  Proof.
    intros S E M ios. induction ios as [|[x y] t IH]; intros acc a a' HI Hpre Hnd Hfold; simpl in Hfold.
    - inversion Hfold; subst. simpl. rewrite app_nil_r. split; [exact HI|]. split; [intros w q H; exact H|].
      split; [intros ? ? []|]. intros. reflexivity.
    - destruct (allocate_values_same_reg [x; y] a) as [a1|e] eqn:Eal; simpl in Hfold; [|discriminate].
      destruct (Hpre x y (or_introl eq_refl)) as [Hne [Exy [Eyx [HEy [HEy' [HMx [HSy [Hyz [Htied [Hxacc Hyacc]]]]]]]]]].
      assert (HMx' : ~ setof M acc x). { intros [Hc|Hc]; [exact (HMx Hc) | exact (Hxacc Hc)]. }
      assert (HLy' : setof S acc y \/ ~ setof M acc y).
      { destruct HSy as [H|H]; [left; left; exact H|]. right. intros [Hc|Hc]; [exact (H Hc) | exact (Hyacc Hc)]. }
      destruct (same_reg_pair_inv c t0 FR FR_pre _ E _ a x y a1 HI Hne Exy Eyx HEy HEy' HMx' HLy' Hyz Htied Eal)
        as [HI1 [Hm1 [[r1 [Hr1x Hr1y]] Hoth1]]].
      assert (HI1' : Inv (setof S (acc ++ [x; y])) E (setof M (acc ++ [x; y])) a1).
      { eapply Inv_weaken; [exact HI1 | |].
        - intros w [Hw|Hw]; [left; left; left; exact Hw|]. apply in_app_or in Hw. destruct Hw as [Hw|[Hw|[Hw|[]]]].
          + left. left. right. exact Hw.
          + left. right. symmetry. exact Hw.
          + right. symmetry. exact Hw.
        - intros w [[[Hw|Hw]|Hw]|Hw].
          + left. exact Hw.
          + right. apply in_or_app. left. exact Hw.
          + right. apply in_or_app. right. left. symmetry. exact Hw.
          + right. apply in_or_app. right. right. left. symmetry. exact Hw. }
      simpl in Hnd. inversion Hnd as [|? ? Hnx Hnd1]; subst. inversion Hnd1 as [|? ? Hny Hnd2]; subst.
      assert (Hpre1 : forall x' y', In (x', y') t ->
        x' <> y' /\ E x' y' /\ E y' x' /\ (forall w, E y' w -> w = x') /\ (forall w, E w y' -> w = x')
        /\ ~ M x' /\ (S y' \/ ~ M y') /\ ~ In y' (zconsts c) /\ (forall r, (FR x' r -> FR y' r) /\ (FR y' r -> FR x' r))
        /\ ~ In x' (acc ++ [x; y]) /\ ~ In y' (acc ++ [x; y])).
      { intros x' y' Hin. destruct (Hpre x' y' (or_intror Hin)) as [A1 [A2 [A3 [A4 [A5 [A6 [A7 [A8 [A9 [A10 A11]]]]]]]]]].
        destruct (pairvals_in t x' y' Hin) as [Px Py].
        repeat (split; [assumption|]). split.
        - intro Hc. apply in_app_or in Hc. destruct Hc as [Hc|[Hc|[Hc|[]]]].
          + exact (A10 Hc).
          + subst x'. apply Hnx. right. exact Px.
          + subst x'. exact (Hny Px).
        - intro Hc. apply in_app_or in Hc. destruct Hc as [Hc|[Hc|[Hc|[]]]].
          + exact (A11 Hc).
          + subst y'. apply Hnx. right. exact Py.
          + subst y'. exact (Hny Py). }
      destruct (IH (acc ++ [x; y]) a1 a' HI1' Hpre1 Hnd2 Hfold) as [HI2 [Hm2 [Hex2 Hoth2]]].
      rewrite <- app_assoc in HI2. simpl in HI2.
      split; [exact HI2|]. split; [intros w q H; apply Hm2; apply Hm1; exact H|]. split.
      + intros x' y' [Hin|Hin].
        * inversion Hin; subst. exists r1. split; apply Hm2; assumption.
        * exact (Hex2 x' y' Hin).
      + intros w Hw. simpl in Hw.
        rewrite (Hoth2 w (fun Hc => Hw (or_intror (or_intror Hc)))).
        apply Hoth1; intro Hc; apply Hw; [left | right; left]; symmetry; exact Hc.
  Qed.
End Op.
