(* C25/Proofs.v -- the liveness solver model computes backward reachability under every pop order.

   SPEC (check this first): `Live P v` -- v is an operand of an op that is not trivially dead, or an
   operand of an op one of whose results is Live.  Nothing else is live. *)
From Coq Require Import List Arith Bool Lia.
From XV Require Import C25.Model.
Import ListNotations.

Inductive Live (P : list op) : value -> Prop :=
| Live_root : forall o v, In o P -> removable o = false -> In v (operands o) -> Live P v
| Live_step : forall o r v, In o P -> In r (results o) -> Live P r -> In v (operands o) -> Live P v.

(* ------------------------------------------------------------------ generic list facts *)
Lemma list_sum_app_nat : forall l1 l2, list_sum (l1 ++ l2) = list_sum l1 + list_sum l2.
Proof. induction l1 as [|a l1 IH]; intros l2; simpl; [reflexivity | rewrite IH; lia]. Qed.

Lemma sum_incl : forall (f : nat -> nat) (l s : list nat),
  NoDup l -> incl l s -> list_sum (map f l) <= list_sum (map f s).
Proof.
  intros f l; induction l as [|a l IH]; intros s Hnd Hin; simpl; [lia|].
  inversion Hnd as [|a' l' Hna Hnd']; subst.
  assert (Ha : In a s) by (apply Hin; left; reflexivity).
  destruct (in_split _ _ Ha) as [s1 [s2 Hs]]; subst s.
  assert (Hl : incl l (s1 ++ s2)).
  { intros x Hx. assert (Hx' : In x (s1 ++ a :: s2)) by (apply Hin; right; exact Hx).
    apply in_app_or in Hx'. apply in_or_app. destruct Hx' as [H|[H|H]]; auto.
    subst x. contradiction. }
  specialize (IH _ Hnd' Hl).
  rewrite map_app, list_sum_app_nat in *. simpl. lia.
Qed.

Lemma sum_ge_length : forall (f : nat -> nat) (l : list nat),
  (forall i, In i l -> 1 <= f i) -> length l <= list_sum (map f l).
Proof.
  intros f l; induction l as [|a l IH]; intros H; simpl; [lia|].
  assert (1 <= f a) by (apply H; left; reflexivity).
  assert (length l <= list_sum (map f l)) by (apply IH; intros; apply H; right; assumption). lia.
Qed.

Lemma nodup_map_fst_liv : forall l : list item,
  NoDup l -> (forall x, In x l -> snd x = LIV) -> NoDup (map fst l).
Proof.
  induction l as [|a l IH]; intros Hnd Hs; simpl; [constructor|].
  inversion Hnd as [|a' l' Hna Hnd']; subst. constructor.
  - intros Hin. apply in_map_iff in Hin. destruct Hin as [x [Hfx Hx]].
    apply Hna. assert (x = a); [|subst; assumption].
    destruct x as [x1 x2], a as [a1 a2]. simpl in *.
    assert (x2 = LIV) by (apply (Hs (x1, x2)); right; assumption).
    assert (a2 = LIV) by (apply (Hs (a1, a2)); left; reflexivity). congruence.
  - apply IH; [assumption | intros; apply Hs; right; assumption].
Qed.

Lemma an_eqb_eq : forall a b, an_eqb a b = true <-> a = b.
Proof. intros [] []; simpl; split; congruence. Qed.
Lemma item_eqb_eq : forall x y, item_eqb x y = true <-> x = y.
Proof.
  intros [x1 x2] [y1 y2]; unfold item_eqb; simpl. rewrite andb_true_iff, Nat.eqb_eq, an_eqb_eq.
  split; [intros [? ?]; subst; reflexivity | intros H; inversion H; auto].
Qed.

Lemma set_add_in : forall {A} (eqb : A -> A -> bool) x y l,
  In y (set_add eqb x l) -> y = x \/ In y l.
Proof.
  intros A eqb x y l; unfold set_add. destruct (existsb (eqb x) l); intros H; auto.
  apply in_app_or in H. destruct H as [H|[H|[]]]; auto.
Qed.
Lemma set_add_incl : forall {A} (eqb : A -> A -> bool) x y l, In y l -> In y (set_add eqb x l).
Proof. intros A eqb x y l H; unfold set_add. destruct (existsb (eqb x) l); auto. apply in_or_app; auto. Qed.
Lemma set_add_self : forall x l, In x (set_add item_eqb x l).
Proof.
  intros x l; unfold set_add. destruct (existsb (item_eqb x) l) eqn:E.
  - apply existsb_exists in E. destruct E as [y [Hy He]]. apply item_eqb_eq in He. subst; assumption.
  - apply in_or_app; right; left; reflexivity.
Qed.
Lemma set_add_nodup : forall x l, NoDup l -> NoDup (set_add item_eqb x l).
Proof.
  intros x l H; unfold set_add. destruct (existsb (item_eqb x) l) eqn:E; [assumption|].
  apply NoDup_rev in H. rewrite <- (rev_involutive (l ++ [x])). apply NoDup_rev.
  rewrite rev_app_distr. simpl. constructor; [|assumption].
  intros Hin. apply in_rev in Hin.
  assert (Ht : existsb (item_eqb x) l = true).
  { apply existsb_exists. exists x. split; [assumption | apply item_eqb_eq; reflexivity]. }
  congruence.
Qed.

Lemma remove_nth_in : forall {A} i (l : list A) x, In x (remove_nth i l) -> In x l.
Proof.
  intros A i l; revert i; induction l as [|a l IH]; intros i x H; simpl in *; [destruct i; assumption|].
  destruct i; [right; assumption|]. destruct H as [H|H]; [left; assumption | right; eapply IH; eassumption].
Qed.
Lemma remove_nth_keep : forall {A} i (l : list A) d x, In x l -> x <> nth i l d -> In x (remove_nth i l).
Proof.
  intros A i l; revert i; induction l as [|a l IH]; intros i d x H Hne; simpl in *; [contradiction|].
  destruct i.
  - destruct H as [H|H]; [subst; contradiction | assumption].
  - destruct H as [H|H]; [left; assumption | right; eapply IH; eassumption].
Qed.
Lemma remove_nth_length : forall {A} i (l : list A), i < length l -> S (length (remove_nth i l)) = length l.
Proof.
  intros A i l; revert i; induction l as [|a l IH]; intros i H; simpl in *; [lia|].
  destruct i; [reflexivity|]. simpl. rewrite IH; [reflexivity | lia].
Qed.

(* ------------------------------------------------------------------ primitive state updates *)
Lemma enqueue_all_fields : forall l s,
  wl (enqueue_all l s) = wl s ++ l /\ live (enqueue_all l s) = live s /\ deps (enqueue_all l s) = deps s
  /\ ex_live (enqueue_all l s) = ex_live s /\ ex_deps (enqueue_all l s) = ex_deps s
  /\ ex_subs (enqueue_all l s) = ex_subs s.
Proof.
  unfold enqueue_all. induction l as [|a l IH]; intros s; simpl.
  - rewrite app_nil_r. repeat split.
  - destruct (IH (enqueue a s)) as (H1 & H2 & H3 & H4 & H5 & H6).
    rewrite H1, H2, H3, H4, H5, H6. simpl. rewrite <- app_assoc. repeat split.
Qed.

(* number of result slots, computed through indices (as the potential does) *)
Lemma sum_res_flat : forall P : list op,
  list_sum (map (fun i => length (match nth_error P i with Some o => results o | None => [] end))
                (seq 0 (length P))) = length (flat_map results P).
Proof.
  induction P as [|a P IH]; simpl; [reflexivity|].
  rewrite app_length. f_equal. rewrite <- seq_shift, map_map. simpl. exact IH.
Qed.

Section Program.
Variable P : list op.

Definition res (i : nat) : list value :=
  match nth_error P i with Some o => results o | None => [] end.

Definition cnt (s : state) (l : list value) : nat := length (filter (fun r => negb (live s r)) l).
Definition occ (v : value) (l : list value) : nat := length (filter (Nat.eqb v) l).
Definition dead_results (s : state) : nat := list_sum (map (fun i => cnt s (res i)) (seq 0 (length P))).
(* potential: pending work + result slots that may still flip *)
Definition pot (s : state) : nat := length (wl s) + dead_results s.

Definition wf (s : state) : Prop :=
  (forall v it, In it (deps s v) -> exists i o, it = (i, LIV) /\ nth_error P i = Some o /\ In v (results o))
  /\ (forall v, NoDup (deps s v)).

Definition sound (s : state) : Prop := forall v, live s v = true -> Live P v.

Record ext (s s' : state) : Prop := {
  e_live : forall v, live s v = true -> live s' v = true;
  e_new : forall v, live s v = false -> live s' v = true -> Live P v;
  e_deps : forall v it, In it (deps s v) -> In it (deps s' v);
  e_wl : forall it, In it (wl s) -> In it (wl s');
  e_flip : forall v it, live s v = false -> live s' v = true -> In it (deps s v) -> In it (wl s');
  e_ex : ex_live s' = ex_live s;
  e_wf : wf s -> wf s';
  e_pot : wf s -> pot s' <= pot s }.

Lemma ext_refl : forall s, ext s s.
Proof. intros s; constructor; auto; intros; congruence. Qed.

Lemma ext_trans : forall s1 s2 s3, ext s1 s2 -> ext s2 s3 -> ext s1 s3.
Proof.
  intros s1 s2 s3 H12 H23. constructor.
  - intros v H. apply (e_live _ _ H23), (e_live _ _ H12), H.
  - intros v H1 H3. destruct (live s2 v) eqn:E2.
    + apply (e_new _ _ H12 v H1 E2).
    + apply (e_new _ _ H23 v E2 H3).
  - intros v it H. apply (e_deps _ _ H23), (e_deps _ _ H12), H.
  - intros it H. apply (e_wl _ _ H23), (e_wl _ _ H12), H.
  - intros v it H1 H3 Hin. destruct (live s2 v) eqn:E2.
    + apply (e_wl _ _ H23), (e_flip _ _ H12 v it H1 E2 Hin).
    + apply (e_flip _ _ H23 v it E2 H3), (e_deps _ _ H12), Hin.
  - rewrite (e_ex _ _ H23). apply (e_ex _ _ H12).
  - intros H. apply (e_wf _ _ H23), (e_wf _ _ H12), H.
  - intros H. pose proof (e_pot _ _ H12 H). pose proof (e_pot _ _ H23 (e_wf _ _ H12 H)). lia.
Qed.

Lemma ext_sound : forall s s', ext s s' -> sound s -> sound s'.
Proof.
  intros s s' He Hs v Hv. destruct (live s v) eqn:E; [apply Hs, E | apply (e_new _ _ He v E Hv)].
Qed.

(* updates that touch none of wl / live / deps / ex_live *)
Lemma ext_same : forall s s',
  live s' = live s -> deps s' = deps s -> wl s' = wl s -> ex_live s' = ex_live s -> ext s s'.
Proof.
  intros s s' Hl Hd Hw He. constructor; try rewrite Hl; try rewrite Hd; try rewrite Hw; auto.
  - intros; congruence.
  - intros; congruence.
  - unfold wf. rewrite Hd. auto.
  - intros _. unfold pot, dead_results, cnt. rewrite Hl, Hw. lia.
Qed.

(* ---- counting: a flip of v pays for the enqueue of its dependents ---- *)
Lemma cnt_flip : forall s s' v l,
  live s v = false -> live s' = upd (live s) v true -> cnt s' l + occ v l = cnt s l.
Proof.
  intros s s' v l Hv Hl. unfold cnt, occ. rewrite Hl. induction l as [|a l IH]; simpl; [reflexivity|].
  unfold upd at 1. rewrite (Nat.eqb_sym v a). destruct (Nat.eqb a v) eqn:E.
  - apply Nat.eqb_eq in E. subst a. rewrite Hv. simpl. lia.
  - destruct (live s a); simpl; lia.
Qed.

Lemma dead_results_flip : forall s s' v,
  live s v = false -> live s' = upd (live s) v true ->
  dead_results s' + list_sum (map (fun i => occ v (res i)) (seq 0 (length P))) = dead_results s.
Proof.
  intros s s' v Hv Hl. unfold dead_results. induction (seq 0 (length P)) as [|a l IH]; simpl; [reflexivity|].
  pose proof (cnt_flip s s' v (res a) Hv Hl). lia.
Qed.

Lemma occ_pos : forall v l, In v l -> 1 <= occ v l.
Proof.
  intros v l; unfold occ; induction l as [|a l IH]; intros H; simpl in *; [contradiction|].
  destruct (Nat.eqb v a) eqn:E; simpl; [lia|].
  destruct H as [H|H]; [subst; rewrite Nat.eqb_refl in E; discriminate | apply IH, H].
Qed.

Lemma deps_bound : forall s v, wf s ->
  length (deps s v) <= list_sum (map (fun i => occ v (res i)) (seq 0 (length P))).
Proof.
  intros s v [Hval Hnd].
  assert (Hlen : length (map fst (deps s v)) = length (deps s v)) by apply map_length.
  rewrite <- Hlen. clear Hlen.
  assert (Hsnd : forall x, In x (deps s v) -> snd x = LIV).
  { intros x Hx. destruct (Hval v x Hx) as (i & o & -> & _). reflexivity. }
  pose proof (nodup_map_fst_liv _ (Hnd v) Hsnd) as Hnd'.
  eapply Nat.le_trans; [apply (sum_ge_length (fun i => occ v (res i)))|].
  - intros i Hi. apply in_map_iff in Hi. destruct Hi as [x [Hfx Hx]].
    destruct (Hval v x Hx) as (i' & o & -> & Hn & Hr). simpl in Hfx. subst i'.
    apply occ_pos. unfold res. rewrite Hn. exact Hr.
  - apply sum_incl; [exact Hnd'|].
    intros i Hi. apply in_map_iff in Hi. destruct Hi as [x [Hfx Hx]].
    destruct (Hval v x Hx) as (i' & o & -> & Hn & Hr). simpl in Hfx. subst i'.
    apply in_seq. split; [lia|]. simpl. apply nth_error_Some. congruence.
Qed.

(* ---- propagate_if_changed(operand, operand.mark_live()) ---- *)
Lemma mark_live_fields : forall v s, live s v = false ->
  live (mark_live_prop v s) = upd (live s) v true /\ wl (mark_live_prop v s) = wl s ++ deps s v
  /\ deps (mark_live_prop v s) = deps s /\ ex_live (mark_live_prop v s) = ex_live s.
Proof.
  intros v s Hv. unfold mark_live_prop, lattice_on_update. rewrite Hv.
  match goal with |- context [enqueue_all ?l ?t] => destruct (enqueue_all_fields l t) as (H1 & H2 & H3 & H4 & _) end.
  rewrite H1, H2, H3, H4. simpl. repeat split.
Qed.

Lemma ext_mark_live : forall v s, Live P v -> ext s (mark_live_prop v s).
Proof.
  intros v s HL. destruct (live s v) eqn:Hv.
  - unfold mark_live_prop. rewrite Hv. apply ext_refl.
  - destruct (mark_live_fields v s Hv) as (Hl & Hw & Hd & He).
    constructor; try rewrite Hl; try rewrite Hd; try rewrite Hw; auto.
    + intros x Hx. unfold upd. destruct (Nat.eqb x v); auto.
    + intros x Hx Hx'. unfold upd in Hx'. destruct (Nat.eqb x v) eqn:E; [|congruence].
      apply Nat.eqb_eq in E. subst; assumption.
    + intros it H. apply in_or_app; auto.
    + intros x it Hx Hx' Hin. unfold upd in Hx'. destruct (Nat.eqb x v) eqn:E; [|congruence].
      apply Nat.eqb_eq in E. subst x. apply in_or_app; auto.
    + unfold wf. rewrite Hd. auto.
    + intros Hwf. unfold pot. rewrite Hw, app_length.
      pose proof (dead_results_flip s (mark_live_prop v s) v Hv Hl).
      pose proof (deps_bound s v Hwf). lia.
Qed.

Lemma mark_live_sets : forall v s, live (mark_live_prop v s) v = true.
Proof.
  intros v s. destruct (live s v) eqn:Hv.
  - unfold mark_live_prop. rewrite Hv. exact Hv.
  - destruct (mark_live_fields v s Hv) as (Hl & _). rewrite Hl. unfold upd. rewrite Nat.eqb_refl. reflexivity.
Qed.

(* fold of mark_live_prop over operands *)
Lemma fold_mark_ext : forall l s, (forall v, In v l -> Live P v) ->
  ext s (fold_left (fun s v => mark_live_prop v s) l s).
Proof.
  induction l as [|a l IH]; intros s H; simpl; [apply ext_refl|].
  eapply ext_trans; [apply ext_mark_live; apply H; left; reflexivity|].
  apply IH. intros; apply H; right; assumption.
Qed.
Lemma fold_mark_all : forall l s v, (forall v, In v l -> Live P v) -> In v l ->
  live (fold_left (fun s v => mark_live_prop v s) l s) v = true.
Proof.
  induction l as [|a l IH]; intros s v H Hin; simpl in *; [contradiction|].
  destruct Hin as [Hin|Hin].
  - subst a. apply (e_live _ _ (fold_mark_ext l _ (fun x Hx => H x (or_intror Hx)))). apply mark_live_sets.
  - apply IH; [intros; apply H; right; assumption | assumption].
Qed.

(* fold of meet_prop v r over operands *)
Lemma fold_meet_ext : forall r l s, sound s -> (forall v, In v l -> Live P r -> Live P v) ->
  ext s (fold_left (fun s v => meet_prop v r s) l s).
Proof.
  intros r; induction l as [|a l IH]; intros s Hs H; simpl; [apply ext_refl|].
  assert (He : ext s (meet_prop a r s)).
  { unfold meet_prop. destruct (live s r) eqn:Er; [|apply ext_refl].
    apply ext_mark_live. apply H; [left; reflexivity | apply Hs, Er]. }
  eapply ext_trans; [exact He|]. apply IH; [eapply ext_sound; eassumption|].
  intros; apply H; [right|]; assumption.
Qed.
Lemma fold_meet_all : forall r l s v, sound s -> (forall v, In v l -> Live P r -> Live P v) ->
  live s r = true -> In v l -> live (fold_left (fun s v => meet_prop v r s) l s) v = true.
Proof.
  intros r; induction l as [|a l IH]; intros s v Hs H Hr Hin; simpl in *; [contradiction|].
  assert (He : ext s (meet_prop a r s)).
  { unfold meet_prop. rewrite Hr. apply ext_mark_live. apply H; [left; reflexivity | apply Hs, Hr]. }
  assert (Hs' : sound (meet_prop a r s)) by (eapply ext_sound; eassumption).
  assert (H' : forall v, In v l -> Live P r -> Live P v) by (intros; apply H; [right|]; assumption).
  destruct Hin as [Hin|Hin].
  - subst a. apply (e_live _ _ (fold_meet_ext r l _ Hs' H')).
    unfold meet_prop. rewrite Hr. apply mark_live_sets.
  - apply IH; auto. apply (e_live _ _ He), Hr.
Qed.

(* ---- LivenessAnalysis.visit_operation_impl ---- *)
Lemma impl_ext : forall o s, In o P -> sound s -> ext s (visit_operation_impl o s).
Proof.
  intros o s Ho Hs. unfold visit_operation_impl.
  set (s1 := if removable o then s else fold_left (fun s v => mark_live_prop v s) (operands o) s).
  assert (H1 : ext s s1).
  { unfold s1. destruct (removable o) eqn:Er; [apply ext_refl|].
    apply fold_mark_ext. intros v Hv. eapply Live_root; eassumption. }
  destruct (find (fun r => live s1 r) (results o)) as [r|] eqn:Ef; [|exact H1].
  apply find_some in Ef. destruct Ef as [Hr Hlr].
  eapply ext_trans; [exact H1|]. apply fold_meet_ext; [eapply ext_sound; eassumption|].
  intros v Hv HLr. eapply Live_step; eassumption.
Qed.

Definition settled (o : op) (i : nat) (s : state) : Prop :=
  (removable o = false -> forall v, In v (operands o) -> live s v = true)
  /\ (forall r, In r (results o) -> live s r = true -> forall v, In v (operands o) -> live s v = true)
  /\ (forall r, In r (results o) -> live s r = false -> In (i, LIV) (deps s r)).

Lemma impl_settles : forall o i s, In o P -> sound s ->
  (forall r, In r (results o) -> In (i, LIV) (deps s r)) -> settled o i (visit_operation_impl o s).
Proof.
  intros o i s Ho Hs Hreg.
  pose proof (impl_ext o s Ho Hs) as Hext.
  unfold visit_operation_impl in *.
  set (s1 := if removable o then s else fold_left (fun s v => mark_live_prop v s) (operands o) s) in *.
  assert (H1 : ext s s1).
  { unfold s1. destruct (removable o) eqn:Er; [apply ext_refl|].
    apply fold_mark_ext. intros v Hv. eapply Live_root; eassumption. }
  assert (Hs1 : sound s1) by (eapply ext_sound; eassumption).
  assert (Hroot : removable o = false -> forall v, In v (operands o) -> live s1 v = true).
  { intros Er v Hv. unfold s1. rewrite Er. apply fold_mark_all; [|exact Hv].
    intros x Hx. eapply Live_root; eassumption. }
  destruct (find (fun r => live s1 r) (results o)) as [r0|] eqn:Ef.
  - apply find_some in Ef. destruct Ef as [Hr0 Hl0].
    assert (Hstep : forall v, In v (operands o) -> Live P r0 -> Live P v)
      by (intros v Hv HL; eapply Live_step; eassumption).
    assert (Hall : forall v, In v (operands o) ->
              live (fold_left (fun s v => meet_prop v r0 s) (operands o) s1) v = true)
      by (intros v Hv; apply fold_meet_all; assumption).
    split; [|split].
    + intros _ v Hv. apply Hall, Hv.
    + intros r _ _ v Hv. apply Hall, Hv.
    + intros r Hr _. apply (e_deps _ _ Hext), Hreg, Hr.
  - split; [|split].
    + exact Hroot.
    + intros r Hr Hlr. exfalso. pose proof (find_none _ _ Ef r Hr) as Hn. simpl in Hn. congruence.
    + intros r Hr _. apply (e_deps _ _ H1), Hreg, Hr.
Qed.

(* ---- registrations performed by visit_operation before the transfer function ---- *)
Lemma fold_create_same : forall l s,
  let s' := fold_left (fun s v => lat_create v s) l s in
  live s' = live s /\ deps s' = deps s /\ wl s' = wl s /\ ex_live s' = ex_live s.
Proof.
  induction l as [|a l IH]; intros s; simpl; [repeat split|].
  destruct (IH (lat_create a s)) as (H1 & H2 & H3 & H4). rewrite H1, H2, H3, H4. repeat split.
Qed.

Lemma ext_create_dep : forall i o r s, nth_error P i = Some o -> In r (results o) ->
  ext s (lat_create_dep (i, LIV) r s).
Proof.
  intros i o r s Hn Hr.
  assert (Hd : forall v it, In it (deps (lat_create_dep (i, LIV) r s) v) ->
               In it (deps s v) \/ (v = r /\ it = (i, LIV))).
  { intros v it. unfold lat_create_dep, lat_create. simpl. unfold upd at 1.
    destruct (Nat.eqb v r) eqn:E; [|auto].
    apply Nat.eqb_eq in E. subst v. intros H. apply set_add_in in H. destruct H; auto. }
  constructor; simpl; auto.
  - intros; congruence.
  - intros v it H. unfold upd. destruct (Nat.eqb v r) eqn:E; [|assumption].
    apply Nat.eqb_eq in E. subst v. apply set_add_incl, H.
  - intros; congruence.
  - intros [Hval Hnd]. split.
    + intros v it H. destruct (Hd v it H) as [H'|[-> ->]]; [apply Hval, H'|].
      exists i, o. auto.
    + intros v. unfold lat_create_dep, lat_create. simpl. unfold upd.
      destruct (Nat.eqb v r); [apply set_add_nodup|]; apply Hnd.
Qed.

Lemma fold_create_dep_ext : forall i o l s, nth_error P i = Some o -> incl l (results o) ->
  ext s (fold_left (fun s r => lat_create_dep (i, LIV) r s) l s).
Proof.
  intros i o; induction l as [|a l IH]; intros s Hn Hin; simpl; [apply ext_refl|].
  eapply ext_trans; [eapply ext_create_dep; [eassumption | apply Hin; left; reflexivity]|].
  apply IH; [assumption | intros x Hx; apply Hin; right; assumption].
Qed.
Lemma fold_create_dep_reg : forall i o l s r, nth_error P i = Some o -> incl l (results o) -> In r l ->
  In (i, LIV) (deps (fold_left (fun s r => lat_create_dep (i, LIV) r s) l s) r).
Proof.
  intros i o; induction l as [|a l IH]; intros s r Hn Hincl Hin; simpl in *; [contradiction|].
  assert (Hl : incl l (results o)) by (intros x Hx; apply Hincl; right; assumption).
  destruct Hin as [Hin|Hin]; [|apply IH; assumption].
  subst a. apply (e_deps _ _ (fold_create_dep_ext i o l _ Hn Hl)).
  unfold lat_create_dep, lat_create. simpl. unfold upd. rewrite Nat.eqb_refl. apply set_add_self.
Qed.

(* ---- SparseBackwardDataFlowAnalysis.visit_operation ---- *)
Lemma visit_operation_ext : forall i o s, nth_error P i = Some o -> sound s -> ext s (visit_operation i o s).
Proof.
  intros i o s Hn Hs. unfold visit_operation. destruct (operands o) eqn:Eo; [apply ext_refl|].
  rewrite <- Eo. clear Eo.
  assert (H0 : ext s (ex_get_or_create s)) by (apply ext_same; reflexivity).
  destruct (negb (ex_live (ex_get_or_create s))); [exact H0|].
  set (sa := fold_left (fun s v => lat_create v s) (operands o) (ex_get_or_create s)).
  assert (Ha : ext (ex_get_or_create s) sa).
  { destruct (fold_create_same (operands o) (ex_get_or_create s)) as (H1 & H2 & H3 & H4).
    apply ext_same; assumption. }
  set (sb := fold_left (fun s r => lat_create_dep (i, LIV) r s) (results o) sa).
  assert (Hb : ext sa sb) by (apply (fold_create_dep_ext i o); [assumption | apply incl_refl]).
  assert (Hsb : ext s sb) by (eapply ext_trans; [exact H0 | eapply ext_trans; eassumption]).
  eapply ext_trans; [exact Hsb|]. apply impl_ext; [eapply nth_error_In; eassumption|].
  eapply ext_sound; eassumption.
Qed.

Lemma visit_operation_settles : forall i o s, nth_error P i = Some o -> sound s ->
  ex_live s = true -> operands o <> [] -> settled o i (visit_operation i o s).
Proof.
  intros i o s Hn Hs Hex Hne. unfold visit_operation. destruct (operands o) eqn:Eo; [congruence|].
  rewrite <- Eo. clear Eo.
  assert (H0 : ext s (ex_get_or_create s)) by (apply ext_same; reflexivity).
  replace (ex_live (ex_get_or_create s)) with true by (simpl; congruence). simpl negb. cbv iota.
  set (sa := fold_left (fun s v => lat_create v s) (operands o) (ex_get_or_create s)).
  assert (Ha : ext (ex_get_or_create s) sa).
  { destruct (fold_create_same (operands o) (ex_get_or_create s)) as (H1 & H2 & H3 & H4).
    apply ext_same; assumption. }
  set (sb := fold_left (fun s r => lat_create_dep (i, LIV) r s) (results o) sa).
  assert (Hb : ext sa sb) by (apply (fold_create_dep_ext i o); [assumption | apply incl_refl]).
  assert (Hsb : ext s sb) by (eapply ext_trans; [exact H0 | eapply ext_trans; eassumption]).
  apply impl_settles; [eapply nth_error_In; eassumption | eapply ext_sound; eassumption|].
  intros r Hr. apply (fold_create_dep_reg i o); [assumption | apply incl_refl | assumption].
Qed.

(* ---- analysis.visit ---- *)
Lemma visit_ext : forall it s, sound s -> ext s (visit P it s).
Proof.
  intros [i a] s Hs. unfold visit. simpl fst; simpl snd.
  assert (H0 : ext s (add_log (EVisit a i) s)) by (apply ext_same; reflexivity).
  assert (Hs0 : sound (add_log (EVisit a i) s)) by (eapply ext_sound; eassumption).
  destruct (nth_error P i) as [o|] eqn:Hn; [|exact H0].
  destruct a.
  - eapply ext_trans; [exact H0|]. unfold dca_visit.
    match goal with |- context [if ?c then _ else _] => destruct c end; apply ext_same; reflexivity.
  - eapply ext_trans; [exact H0|]. apply visit_operation_ext; assumption.
Qed.

Lemma visit_settles : forall i o s, nth_error P i = Some o -> sound s -> ex_live s = true ->
  operands o <> [] -> settled o i (visit P (i, LIV) s).
Proof.
  intros i o s Hn Hs Hex Hne. unfold visit. simpl fst; simpl snd. rewrite Hn.
  apply visit_operation_settles; auto.
Qed.

(* ------------------------------------------------------------------ the solver invariant *)
Definition pending (i : nat) (s : state) : Prop := In (i, LIV) (wl s).
Definition handled (S : nat -> Prop) (s : state) : Prop :=
  forall i o, S i -> nth_error P i = Some o -> operands o <> [] -> pending i s \/ settled o i s.

Lemma handled_ext : forall S s s', ext s s' -> handled S s -> handled S s'.
Proof.
  intros S s s' He Hh i o HS Hn Hne. destruct (Hh i o HS Hn Hne) as [Hp|(H1 & H2 & H3)].
  - left. apply (e_wl _ _ He), Hp.
  - destruct (existsb (fun r => negb (live s r) && live s' r) (results o)) eqn:Ex.
    + left. apply existsb_exists in Ex. destruct Ex as [r [Hr Hb]].
      apply andb_true_iff in Hb. destruct Hb as [Hb1 Hb2]. apply negb_true_iff in Hb1.
      apply (e_flip _ _ He r); auto.
    + right. split; [|split].
      * intros Er v Hv. apply (e_live _ _ He), H1; assumption.
      * intros r Hr Hlr v Hv. apply (e_live _ _ He).
        destruct (live s r) eqn:Es; [apply (H2 r); assumption|].
        exfalso. assert (Ht : existsb (fun r => negb (live s r) && live s' r) (results o) = true).
        { apply existsb_exists. exists r. split; [assumption|]. rewrite Es, Hlr. reflexivity. }
        congruence.
      * intros r Hr Hlr. apply (e_deps _ _ He), H3; [assumption|].
        destruct (live s r) eqn:Es; [|reflexivity]. rewrite (e_live _ _ He r Es) in Hlr. discriminate.
Qed.

Definition good (S : nat -> Prop) (s : state) : Prop :=
  ex_live s = true /\ wf s /\ sound s /\ handled S s.

(* a direct visit (initialize phase) adds the op to the handled set *)
Lemma good_visit : forall S i s, good S s -> good (fun j => S j \/ j = i) (visit P (i, LIV) s)
                                 /\ pot (visit P (i, LIV) s) <= pot s.
Proof.
  intros S i s (Hex & Hwf & Hs & Hh).
  pose proof (visit_ext (i, LIV) s Hs) as He.
  split; [|apply (e_pot _ _ He Hwf)].
  split; [rewrite (e_ex _ _ He); exact Hex|]. split; [apply (e_wf _ _ He Hwf)|].
  split; [eapply ext_sound; eassumption|].
  intros j o [HS| ->] Hn Hne.
  - apply (handled_ext S s _ He Hh j o HS Hn Hne).
  - right. apply visit_settles; assumption.
Qed.

Lemma good_fold_visit : forall L S s, good S s ->
  good (fun j => S j \/ In j L) (fold_left (fun s i => visit P (i, LIV) s) L s)
  /\ pot (fold_left (fun s i => visit P (i, LIV) s) L s) <= pot s.
Proof.
  induction L as [|a L IH]; intros S s Hg; simpl.
  - split; [|lia]. destruct Hg as (H1 & H2 & H3 & H4). split; [|split; [|split]]; auto.
    intros i o [HS|[]] Hn Hne. apply H4; assumption.
  - destruct (good_visit S a s Hg) as [Hg1 Hp1].
    destruct (IH _ _ Hg1) as [(H1 & H2 & H3 & H4) Hp2]. split; [|lia].
    split; [|split; [|split]]; auto. intros i o HS Hn Hne. apply H4; auto.
    destruct HS as [HS|[HS|HS]]; auto.
Qed.

(* one iteration of the solver loop, any member popped *)
Lemma good_step : forall s j d, good (fun _ => True) s -> j < length (wl s) ->
  let s' := visit P (nth j (wl s) d) (set_wl (remove_nth j (wl s)) s) in
  good (fun _ => True) s' /\ S (pot s') <= pot s.
Proof.
  intros s j d (Hex & Hwf & Hs & Hh) Hj. cbv zeta.
  set (it := nth j (wl s) d). set (sp := set_wl (remove_nth j (wl s)) s).
  assert (Hsp : sound sp) by exact Hs.
  assert (Hwfp : wf sp) by exact Hwf.
  pose proof (visit_ext it sp Hsp) as He.
  assert (Hpot : S (pot sp) = pot s).
  { unfold pot, sp. simpl. unfold dead_results, cnt. simpl.
    pose proof (remove_nth_length j (wl s) Hj). lia. }
  split; [|pose proof (e_pot _ _ He Hwfp); lia].
  split; [rewrite (e_ex _ _ He); exact Hex|]. split; [apply (e_wf _ _ He Hwfp)|].
  split; [eapply ext_sound; eassumption|].
  intros i o _ Hn Hne.
  destruct (item_eqb (i, LIV) it) eqn:Eit.
  - apply item_eqb_eq in Eit. right. rewrite <- Eit. apply visit_settles; assumption.
  - assert (Hne' : (i, LIV) <> it) by (intros Heq; apply item_eqb_eq in Heq; congruence).
    assert (Hhp : handled (fun i' => (i', LIV) <> it) sp).
    { intros i' o' HS Hn' Hne''. destruct (Hh i' o' I Hn' Hne'') as [Hp|Hst]; [left|right; exact Hst].
      unfold pending, sp. simpl. apply remove_nth_keep with (d := d); [exact Hp | exact HS]. }
    apply (handled_ext _ sp _ He Hhp i o Hne' Hn Hne).
Qed.

(* ------------------------------------------------------------------ initialize, both load orders *)
Definition all : nat -> Prop := fun _ => True.

Lemma nth_error_lt : forall i o, nth_error P i = Some o -> i < length P.
Proof. intros i o H. apply nth_error_Some. congruence. Qed.

Lemma good_weaken : forall (S : nat -> Prop) s, (forall i, i < length P -> S i) -> good S s -> good all s.
Proof.
  intros S s HS (H1 & H2 & H3 & H4). split; [|split; [|split]]; auto.
  intros i o _ Hn Hne. apply H4; auto. apply HS. eapply nth_error_lt; eassumption.
Qed.

Lemma dead_results_none_live : forall s, live s = (fun _ => false) ->
  dead_results s = length (flat_map results P).
Proof.
  intros s Hl. rewrite <- sum_res_flat. unfold dead_results. f_equal. apply map_ext. intros i.
  unfold cnt, res. rewrite Hl. simpl.
  induction (match nth_error P i with Some o => results o | None => [] end) as [|a l IH]; simpl; congruence.
Qed.

Lemma good_fresh : forall (S : nat -> Prop) s, (forall i, S i -> i < length P -> pending i s) ->
  live s = (fun _ => false) -> deps s = (fun _ => []) -> ex_live s = true -> good S s.
Proof.
  intros S s Hp Hl Hd He. split; [exact He|]. split; [|split].
  - split; intros v; rewrite Hd; [intros it []|constructor].
  - intros v. rewrite Hl. discriminate.
  - intros i o HS Hn _. left. apply Hp; [exact HS | eapply nth_error_lt; eassumption].
Qed.

(* load order [DeadCodeAnalysis; LivenessAnalysis] *)
Lemma init_dca_first : good all (initialize P DcaFirst) /\ pot (initialize P DcaFirst) <= fuel_bound P.
Proof.
  unfold initialize, liv_initialize.
  match goal with |- context [fold_left _ _ ?t] => set (s1 := t) end.
  assert (Hl : live s1 = (fun _ => false)).
  { unfold s1, dca_initialize, exec_on_update. simpl. destruct (negb (Nat.eqb (length P) 0)); reflexivity. }
  assert (Hd : deps s1 = (fun _ => [])).
  { unfold s1, dca_initialize, exec_on_update. simpl. destruct (negb (Nat.eqb (length P) 0)); reflexivity. }
  assert (He : ex_live s1 = true).
  { unfold s1, dca_initialize, exec_on_update. simpl. destruct (negb (Nat.eqb (length P) 0)); reflexivity. }
  assert (Hw : wl s1 = []).
  { unfold s1, dca_initialize, exec_on_update. simpl. destruct (negb (Nat.eqb (length P) 0)); reflexivity. }
  assert (Hg : good (fun _ => False) s1) by (apply good_fresh; auto; intros i []).
  destruct (good_fold_visit (rev (seq 0 (length P))) _ s1 Hg) as [Hg' Hp]. split.
  - eapply good_weaken; [|exact Hg']. intros i Hi. right. apply -> in_rev. apply in_seq. lia.
  - eapply Nat.le_trans; [exact Hp|]. unfold pot, fuel_bound.
    rewrite Hw, (dead_results_none_live s1 Hl). simpl. lia.
Qed.

(* load order [LivenessAnalysis; DeadCodeAnalysis]: the initial visits all stop at the Executable gate *)
Definition quiet (s : state) : Prop :=
  wl s = [] /\ live s = (fun _ => false) /\ deps s = (fun _ => []) /\ ex_live s = false
  /\ ex_deps s = [] /\ ex_subs s = [LIV].

Lemma visit_quiet : forall i s, quiet s -> quiet (visit P (i, LIV) s).
Proof.
  intros i s (H1 & H2 & H3 & H4 & H5 & H6). unfold visit. simpl fst; simpl snd.
  destruct (nth_error P i) as [o|]; [|repeat split; assumption].
  unfold visit_operation. destruct (operands o); [repeat split; assumption|].
  simpl. rewrite H4. simpl. repeat split; assumption.
Qed.

Lemma fold_visit_quiet : forall L s, quiet s -> quiet (fold_left (fun s i => visit P (i, LIV) s) L s).
Proof. induction L as [|a L IH]; intros s H; simpl; [exact H | apply IH, visit_quiet, H]. Qed.

Lemma exec_on_update_liv : forall s, ex_live s = true -> ex_deps s = [] -> ex_subs s = [LIV] ->
  live (exec_on_update P s) = live s /\ deps (exec_on_update P s) = deps s
  /\ ex_live (exec_on_update P s) = true
  /\ wl (exec_on_update P s) = wl s ++ map (fun i => (i, LIV)) (seq 0 (length P)).
Proof.
  intros s He Hd Hs. unfold exec_on_update. rewrite Hd. cbv zeta.
  change (enqueue_all [] s) with s. rewrite He, Hs. simpl.
  destruct (Nat.eqb (length P) 0) eqn:E; simpl.
  - apply Nat.eqb_eq in E. rewrite E. simpl. rewrite app_nil_r. auto.
  - destruct (enqueue_all_fields (map (fun i => (i, LIV)) (seq 0 (length P))) s) as (H1 & H2 & H3 & H4 & _).
    rewrite H1, H2, H3, H4. auto.
Qed.

Lemma dca_initialize_unfold : forall s, ex_live s = false ->
  dca_initialize P s =
  exec_on_update P (add_log EExec (set_ex (ex_created (ex_get_or_create s)) true (ex_deps (ex_get_or_create s))
                                          (ex_subs (ex_get_or_create s)) (ex_get_or_create s))).
Proof.
  intros s H. unfold dca_initialize. cbv zeta. change (ex_live (ex_get_or_create s)) with (ex_live s).
  rewrite H. reflexivity.
Qed.

Lemma init_liv_first : good all (initialize P LivFirst) /\ pot (initialize P LivFirst) <= fuel_bound P.
Proof.
  unfold initialize.
  assert (Hq : quiet (liv_initialize P init0)).
  { unfold liv_initialize. apply fold_visit_quiet. repeat split. }
  destruct Hq as (H1 & H2 & H3 & H4 & H5 & H6).
  set (s1 := liv_initialize P init0) in *.
  rewrite (dca_initialize_unfold s1 H4).
  match goal with |- context [exec_on_update P ?t] => set (s0 := t) end.
  destruct (exec_on_update_liv s0) as (Hl & Hd & He & Hw); [reflexivity | exact H5 | exact H6 |].
  change (live s0) with (live s1) in Hl. change (deps s0) with (deps s1) in Hd.
  change (wl s0) with (wl s1) in Hw. rewrite H1, app_nil_l in Hw. rewrite H2 in Hl. rewrite H3 in Hd.
  split.
  - apply good_fresh; auto. intros i _ Hi. unfold pending. rewrite Hw.
    apply in_map_iff. exists i. split; [reflexivity | apply in_seq; lia].
  - unfold pot, fuel_bound. rewrite Hw, (dead_results_none_live _ Hl), map_length, seq_length. lia.
Qed.

Lemma init_good : forall ord, good all (initialize P ord) /\ pot (initialize P ord) <= fuel_bound P.
Proof. intros []; [apply init_dca_first | apply init_liv_first]. Qed.

(* ------------------------------------------------------------------ the worklist loop *)
Lemma run_good : forall fuel choose k s s', good all s -> run P fuel choose k s = Some s' ->
  good all s' /\ wl s' = [].
Proof.
  induction fuel as [|f IH]; intros choose k s s' Hg Hr; cbn [run] in Hr.
  - destruct (wl s) as [|it0 w] eqn:Ew; [|discriminate]. inversion Hr; subst. auto.
  - destruct (wl s) as [|it0 w] eqn:Ew; [inversion Hr; subst; auto|].
    set (j := Nat.modulo (choose k (it0 :: w)) (length (it0 :: w))) in *.
    assert (Hj : j < length (wl s)).
    { rewrite Ew. unfold j. apply Nat.mod_upper_bound. simpl. discriminate. }
    pose proof (good_step s j it0 Hg Hj) as [Hg' _]. rewrite Ew in Hg'.
    eapply IH; eassumption.
Qed.

Lemma run_terminates : forall fuel choose k s, good all s -> pot s <= fuel ->
  exists s', run P fuel choose k s = Some s'.
Proof.
  induction fuel as [|f IH]; intros choose k s Hg Hp; cbn [run].
  - destruct (wl s) as [|it0 w] eqn:Ew; [eexists; reflexivity|].
    exfalso. unfold pot in Hp. rewrite Ew in Hp. simpl in Hp. lia.
  - destruct (wl s) as [|it0 w] eqn:Ew; [eexists; reflexivity|].
    set (j := Nat.modulo (choose k (it0 :: w)) (length (it0 :: w))) in *.
    assert (Hj : j < length (wl s)).
    { rewrite Ew. unfold j. apply Nat.mod_upper_bound. simpl. discriminate. }
    pose proof (good_step s j it0 Hg Hj) as [Hg' Hp']. rewrite Ew in Hg', Hp'.
    apply IH; [exact Hg' | lia].
Qed.

(* at the fixpoint the lattice is closed under both rules *)
Lemma final_complete : forall s, good all s -> wl s = [] -> forall v, Live P v -> live s v = true.
Proof.
  intros s (_ & _ & _ & Hh) Hw v HL. induction HL as [o v Ho Hr Hv | o r v Ho Hr HLr IH Hv].
  - destruct (In_nth_error _ _ Ho) as [i Hi].
    assert (Hne : operands o <> []) by (intros E; rewrite E in Hv; contradiction).
    destruct (Hh i o I Hi Hne) as [Hp|(H1 & _)]; [unfold pending in Hp; rewrite Hw in Hp; contradiction|].
    apply H1; assumption.
  - destruct (In_nth_error _ _ Ho) as [i Hi].
    assert (Hne : operands o <> []) by (intros E; rewrite E in Hv; contradiction).
    destruct (Hh i o I Hi Hne) as [Hp|(_ & H2 & _)]; [unfold pending in Hp; rewrite Hw in Hp; contradiction|].
    apply (H2 r); assumption.
Qed.

(* ------------------------------------------------------------------ main results *)
Theorem solve_terminates : forall ord choose, exists s, solve P ord choose = Some s /\ wl s = [].
Proof.
  intros ord choose. destruct (init_good ord) as [Hg Hp].
  destruct (run_terminates (fuel_bound P) choose 0 _ Hg Hp) as [s Hs].
  exists s. split; [exact Hs|]. eapply run_good; eassumption.
Qed.

Theorem run_sound_complete : forall ord choose fuel s,
  run P fuel choose 0 (initialize P ord) = Some s -> forall v, live s v = true <-> Live P v.
Proof.
  intros ord choose fuel s Hr v. destruct (init_good ord) as [Hg _].
  destruct (run_good fuel choose 0 _ s Hg Hr) as [Hg' Hw]. split.
  - destruct Hg' as (_ & _ & Hs & _). apply Hs.
  - apply final_complete; assumption.
Qed.

Theorem solve_sound_complete : forall ord choose s,
  solve P ord choose = Some s -> forall v, live s v = true <-> Live P v.
Proof. intros ord choose s H. eapply run_sound_complete; exact H. Qed.

Theorem solve_schedule_independent : forall ord1 ord2 choose1 choose2 s1 s2,
  solve P ord1 choose1 = Some s1 -> solve P ord2 choose2 = Some s2 -> forall v, live s1 v = live s2 v.
Proof.
  intros ord1 ord2 c1 c2 s1 s2 H1 H2 v.
  pose proof (solve_sound_complete _ _ _ H1 v) as E1. pose proof (solve_sound_complete _ _ _ H2 v) as E2.
  destruct (live s1 v), (live s2 v); try reflexivity; exfalso.
  - assert (false = true) by (apply E2, E1; reflexivity). discriminate.
  - assert (false = true) by (apply E1, E2; reflexivity). discriminate.
Qed.

(* ------------------------------------------------------------------ every lattice flips at most once *)
Definition flips (l : list event) : list value :=
  flat_map (fun e => match e with EFlip v => [v] | _ => [] end) l.
(* the log records no value twice as flipped, and the flipped values are exactly the live ones *)
Definition once (s : state) : Prop :=
  NoDup (flips (log s)) /\ forall v, In v (flips (log s)) <-> live s v = true.

Lemma once_eq : forall s s', flips (log s') = flips (log s) -> live s' = live s -> once s -> once s'.
Proof. intros s s' Hf Hl [H1 H2]. unfold once. rewrite Hf, Hl. auto. Qed.

Lemma once_enqueue_all : forall l s, once s -> once (enqueue_all l s).
Proof.
  unfold enqueue_all. induction l as [|a l IH]; intros s H; simpl; [exact H|].
  apply IH. eapply once_eq; [| |exact H]; reflexivity.
Qed.

Lemma once_mark : forall v s, once s -> once (mark_live_prop v s).
Proof.
  intros v s [H1 H2]. unfold mark_live_prop. destruct (live s v) eqn:Hv; [split; assumption|].
  apply once_enqueue_all. split; simpl.
  - constructor; [|exact H1]. intros Hin. apply H2 in Hin. congruence.
  - intros x. unfold upd. destruct (Nat.eqb x v) eqn:E.
    + apply Nat.eqb_eq in E. subst x. split; auto.
    + rewrite <- H2. split; [intros [Hx|Hx]; [subst; rewrite Nat.eqb_refl in E; discriminate | exact Hx] | auto].
Qed.

Lemma once_fold : forall {A} (f : state -> A -> state) l s,
  (forall s a, once s -> once (f s a)) -> once s -> once (fold_left f l s).
Proof. intros A f l; induction l as [|a l IH]; intros s Hf H; simpl; [exact H | apply IH; auto]. Qed.

Lemma once_impl : forall o s, once s -> once (visit_operation_impl o s).
Proof.
  intros o s H. unfold visit_operation_impl.
  set (s1 := if removable o then s else fold_left (fun s v => mark_live_prop v s) (operands o) s).
  assert (H1 : once s1).
  { unfold s1. destruct (removable o); [exact H|]. apply once_fold; [|exact H]. intros; apply once_mark; assumption. }
  destruct (find (fun r => live s1 r) (results o)) as [r|]; [|exact H1].
  apply once_fold; [|exact H1]. intros t a Ht. unfold meet_prop. destruct (live t r); [apply once_mark|]; exact Ht.
Qed.

Lemma once_visit : forall it s, once s -> once (visit P it s).
Proof.
  intros [i a] s H. unfold visit. simpl fst; simpl snd.
  assert (H0 : once (add_log (EVisit a i) s)) by (eapply once_eq; [| |exact H]; reflexivity).
  destruct (nth_error P i) as [o|]; [|exact H0]. destruct a.
  - unfold dca_visit. match goal with |- context [if ?c then _ else _] => destruct c end;
      (eapply once_eq; [| |exact H0]; reflexivity).
  - unfold visit_operation. destruct (operands o) eqn:Eo; [exact H0|]. rewrite <- Eo.
    assert (H1 : once (ex_get_or_create (add_log (EVisit LIV i) s))) by (eapply once_eq; [| |exact H0]; reflexivity).
    destruct (negb (ex_live (ex_get_or_create (add_log (EVisit LIV i) s)))); [exact H1|].
    apply once_impl. apply once_fold; [intros t r Ht; eapply once_eq; [| |exact Ht]; reflexivity|].
    apply once_fold; [intros t r Ht; eapply once_eq; [| |exact Ht]; reflexivity|]. exact H1.
Qed.

Lemma once_exec_on_update : forall s, once s -> once (exec_on_update P s).
Proof.
  intros s H. unfold exec_on_update. cbv zeta.
  match goal with |- context [if ?c then _ else _] => destruct c end; [|apply once_enqueue_all, H].
  apply once_fold; [intros; apply once_enqueue_all; assumption | apply once_enqueue_all, H].
Qed.

Lemma once_dca_initialize : forall s, once s -> once (dca_initialize P s).
Proof.
  intros s H. unfold dca_initialize. cbv zeta.
  assert (H0 : once (ex_get_or_create s)) by (eapply once_eq; [| |exact H]; reflexivity).
  destruct (ex_live (ex_get_or_create s)); [exact H0|].
  apply once_exec_on_update. eapply once_eq; [| |exact H0]; reflexivity.
Qed.

Lemma once_liv_initialize : forall s, once s -> once (liv_initialize P s).
Proof.
  intros s H. unfold liv_initialize. cbv zeta.
  apply once_fold; [intros; apply once_visit; assumption|].
  eapply once_eq; [| |exact H]; reflexivity.
Qed.

Lemma once_initialize : forall ord, once (initialize P ord).
Proof.
  assert (H0 : once init0) by (split; [constructor | intros v; simpl; split; [intros [] | discriminate]]).
  intros []; unfold initialize.
  - apply once_liv_initialize, once_dca_initialize, H0.
  - apply once_dca_initialize, once_liv_initialize, H0.
Qed.

Lemma once_run : forall fuel choose k s s', once s -> run P fuel choose k s = Some s' -> once s'.
Proof.
  induction fuel as [|f IH]; intros choose k s s' H Hr; cbn [run] in Hr.
  - destruct (wl s); [inversion Hr; subst; exact H | discriminate].
  - destruct (wl s) as [|it0 w] eqn:Ew; [inversion Hr; subst; exact H|].
    eapply IH; [|exact Hr]. apply once_visit. eapply once_eq; [| |exact H]; reflexivity.
Qed.

Theorem solve_flips_once : forall ord choose s, solve P ord choose = Some s ->
  NoDup (flips (log s)) /\ forall v, In v (flips (log s)) <-> live s v = true.
Proof. intros ord choose s Hs. exact (once_run _ _ _ _ _ (once_initialize ord) Hs). Qed.

End Program.
