(* C25/Model.v -- executable model of the xDSL data-flow solver running
   DeadCodeAnalysis + LivenessAnalysis on branch-free single-region IR.
   Definitions only; proofs live in C25/Proofs.v.

   Python mirrored (statement by statement, names kept):
     xdsl/analysis/dataflow.py          DataFlowSolver.{initialize_and_run, enqueue, propagate_if_changed},
                                        AnalysisState.on_update, DataFlowAnalysis.add_dependency
     xdsl/analysis/dead_code_analysis.py Executable.{set_to_live,on_update}, DeadCodeAnalysis.{initialize,visit}
     xdsl/analysis/sparse_analysis.py   PropagatingLattice.on_update,
                                        SparseBackwardDataFlowAnalysis.{initialize,visit,visit_operation,meet,
                                        get_lattice_element,get_lattice_element_for}
     xdsl/analysis/liveness_analysis.py Liveness.{mark_live,meet}, LivenessAnalysis.visit_operation_impl

   Fragment: the solver is run on a top-level op without operands (func.func / builtin.module) whose
   first region has ONE block; the block's ops have no regions and no successors.  An op is
   {results; operands; removable}: `removable` is `would_be_trivially_dead(op)` (false for
   terminators such as func.return, symbol ops, and ops with write/unknown effects).  Values are
   identified by natural numbers (block arguments and op results alike); nothing below needs the
   program to be in SSA form, so the theorems hold for arbitrary such lists.

   The worklist is a Python deque used FIFO (`popleft`); here the pop position is an ARBITRARY
   function `choose` of the step number and the current worklist (taken modulo its length). *)
From Coq Require Import List Arith Bool.
Import ListNotations.

Definition value := nat.
Record op := { results : list value; operands : list value; removable : bool }.

Inductive analysis := DCA | LIV.
Definition an_eqb (a b : analysis) : bool :=
  match a, b with DCA, DCA => true | LIV, LIV => true | _, _ => false end.

(* a work item / dependent: (ProgramPoint.before(op number i of the block), analysis) *)
Definition item := (nat * analysis)%type.
Definition item_eqb (x y : item) : bool := Nat.eqb (fst x) (fst y) && an_eqb (snd x) (snd y).

(* Python set.add on an insertion-ordered representation *)
Definition set_add {A} (eqb : A -> A -> bool) (x : A) (l : list A) : list A :=
  if existsb (eqb x) l then l else l ++ [x].

(* observable trace, compared with the instrumented real solver *)
Inductive event :=
| EVisitTop (a : analysis)            (* analysis.visit(ProgramPoint.before(top-level op)) *)
| EVisit (a : analysis) (i : nat)     (* analysis.visit(ProgramPoint.before(op i)) *)
| EEnq (a : analysis) (i : nat)       (* solver.enqueue((before(op i), a)) *)
| EFlip (v : value)                   (* propagate_if_changed(Liveness(v), CHANGE) *)
| EExec.                              (* propagate_if_changed(Executable(block start), CHANGE) *)

Record state := {
  wl : list item;                 (* solver._worklist, left end first *)
  live : value -> bool;           (* Liveness(v).is_live (false when no state exists) *)
  created : value -> bool;        (* a Liveness state exists for v in solver._analysis_states *)
  deps : value -> list item;      (* Liveness(v).dependents *)
  ex_created : bool;              (* the Executable state of the block-start point exists *)
  ex_live : bool;                 (* Executable.live *)
  ex_deps : list item;            (* Executable.dependents *)
  ex_subs : list analysis;        (* Executable.block_content_subscribers *)
  log : list event                (* newest first *)
}.

Definition init0 : state :=
  {| wl := []; live := fun _ => false; created := fun _ => false; deps := fun _ => [];
     ex_created := false; ex_live := false; ex_deps := []; ex_subs := []; log := [] |}.

Definition set_wl (w : list item) (s : state) : state :=
  {| wl := w; live := live s; created := created s; deps := deps s; ex_created := ex_created s;
     ex_live := ex_live s; ex_deps := ex_deps s; ex_subs := ex_subs s; log := log s |}.
Definition set_live (f : value -> bool) (s : state) : state :=
  {| wl := wl s; live := f; created := created s; deps := deps s; ex_created := ex_created s;
     ex_live := ex_live s; ex_deps := ex_deps s; ex_subs := ex_subs s; log := log s |}.
Definition set_created (f : value -> bool) (s : state) : state :=
  {| wl := wl s; live := live s; created := f; deps := deps s; ex_created := ex_created s;
     ex_live := ex_live s; ex_deps := ex_deps s; ex_subs := ex_subs s; log := log s |}.
Definition set_deps (f : value -> list item) (s : state) : state :=
  {| wl := wl s; live := live s; created := created s; deps := f; ex_created := ex_created s;
     ex_live := ex_live s; ex_deps := ex_deps s; ex_subs := ex_subs s; log := log s |}.
Definition set_ex (c l : bool) (d : list item) (su : list analysis) (s : state) : state :=
  {| wl := wl s; live := live s; created := created s; deps := deps s; ex_created := c;
     ex_live := l; ex_deps := d; ex_subs := su; log := log s |}.
Definition add_log (e : event) (s : state) : state :=
  {| wl := wl s; live := live s; created := created s; deps := deps s; ex_created := ex_created s;
     ex_live := ex_live s; ex_deps := ex_deps s; ex_subs := ex_subs s; log := e :: log s |}.

Definition upd {B} (f : value -> B) (v : value) (b : B) : value -> B :=
  fun x => if Nat.eqb x v then b else f x.

(* ---- DataFlowSolver.enqueue: self._worklist.append(item) ---- *)
Definition enqueue (it : item) (s : state) : state :=
  add_log (EEnq (snd it) (fst it)) (set_wl (wl s ++ [it]) s).
Definition enqueue_all (l : list item) (s : state) : state :=
  fold_left (fun s it => enqueue it s) l s.

(* ---- PropagatingLattice.on_update (via AnalysisState.on_update): enqueue every dependent.
   The second loop (users of the value x use_def_subscribers) never runs: only the FORWARD sparse
   analysis calls use_def_subscribe, so the subscriber set of a Liveness lattice is empty. ---- *)
Definition lattice_on_update (v : value) (s : state) : state := enqueue_all (deps s v) s.

(* ---- self.propagate_if_changed(operand, operand.mark_live()) ---- *)
Definition mark_live_prop (v : value) (s : state) : state :=
  if live s v then s   (* mark_live returns NO_CHANGE *)
  else lattice_on_update v (add_log (EFlip v) (set_live (upd (live s) v true) s)).

(* ---- SparseBackwardDataFlowAnalysis.meet(lhs=v, rhs=r): propagate_if_changed(lhs, lhs.meet(rhs));
   Liveness.meet: if other.is_live: return self.mark_live() else NO_CHANGE ---- *)
Definition meet_prop (v r : value) (s : state) : state :=
  if live s r then mark_live_prop v s else s.

(* ---- LivenessAnalysis.visit_operation_impl ---- *)
Definition visit_operation_impl (o : op) (s : state) : state :=
  (* if not would_be_trivially_dead(op): every operand is marked live *)
  let s1 := if removable o then s
            else fold_left (fun s v => mark_live_prop v s) (operands o) s in
  (* for result in result_lattices: if result.is_live: (meet every operand with it); break *)
  match find (fun r => live s1 r) (results o) with
  | Some r => fold_left (fun s v => meet_prop v r s) (operands o) s1
  | None => s1
  end.

(* get_or_create_state(ProgramPoint.at_start_of_block(block), Executable) *)
Definition ex_get_or_create (s : state) : state :=
  set_ex true (ex_live s) (ex_deps s) (ex_subs s) s.
(* get_lattice_element(v) *)
Definition lat_create (v : value) (s : state) : state := set_created (upd (created s) v true) s.
(* get_lattice_element_for(point, v): create + add_dependency(lattice, point) *)
Definition lat_create_dep (it : item) (v : value) (s : state) : state :=
  let s := lat_create v s in set_deps (upd (deps s) v (set_add item_eqb it (deps s v))) s.

(* ---- SparseBackwardDataFlowAnalysis.visit_operation for op number i ---- *)
Definition visit_operation (i : nat) (o : op) (s : state) : state :=
  match operands o with
  | [] => s                                         (* if not op.operands: return *)
  | _ =>
    let s := ex_get_or_create s in
    if negb (ex_live s) then s                      (* parent block not executable: return *)
    else
      let s := fold_left (fun s v => lat_create v s) (operands o) s in
      let s := fold_left (fun s r => lat_create_dep (i, LIV) r s) (results o) s in
      (* op.regions / op.successors are empty in the fragment (else NotImplementedError) *)
      visit_operation_impl o s
  end.

(* ---- DeadCodeAnalysis.visit for op number i (has a parent block, no regions, and the block's
   last op has no successors in the fragment) ---- *)
Definition dca_visit (i : nat) (s : state) : state :=
  let s := ex_get_or_create s in
  let s := set_ex (ex_created s) (ex_live s) (set_add item_eqb (i, DCA) (ex_deps s)) (ex_subs s) s in
  if negb (ex_live s) then s
  else set_ex (ex_created s) (ex_live s) (ex_deps s) (set_add an_eqb DCA (ex_subs s)) s.

Section Program.
Variable P : list op.   (* the ops of the single block, in order *)

(* ---- analysis.visit(point) as called by the solver loop / by initialize ---- *)
Definition visit (it : item) (s : state) : state :=
  let s := add_log (EVisit (snd it) (fst it)) s in
  match nth_error P (fst it) with
  | None => s                       (* no such op: cannot occur, items only name ops of the block *)
  | Some o => match snd it with
              | LIV => visit_operation (fst it) o s
              | DCA => dca_visit (fst it) s
              end
  end.

(* ---- Executable.on_update: dependents first, then, if live and the anchor is the first op of
   its block, every op of the block for every block-content subscriber ---- *)
Definition exec_on_update (s : state) : state :=
  let s := enqueue_all (ex_deps s) s in
  if ex_live s && negb (Nat.eqb (length P) 0) then
    fold_left (fun s a => enqueue_all (map (fun i => (i, a)) (seq 0 (length P))) s) (ex_subs s) s
  else s.

(* ---- DeadCodeAnalysis.initialize(top): executable = get_or_create(entry point);
   propagate_if_changed(executable, executable.set_to_live()) ---- *)
Definition dca_initialize (s : state) : state :=
  let s := ex_get_or_create s in
  if ex_live s then s
  else exec_on_update (add_log EExec (set_ex (ex_created s) true (ex_deps s) (ex_subs s) s)).

(* ---- SparseBackwardDataFlowAnalysis.initialize(top): visit(before(top)) is a no-op (the
   top-level op has no operands); subscribe to the block; the ops are pushed in forward order
   on a stack and therefore visited last-to-first (none of them has regions) ---- *)
Definition liv_initialize (s : state) : state :=
  let s := add_log (EVisitTop LIV) s in
  let s := ex_get_or_create s in
  let s := set_ex (ex_created s) (ex_live s) (ex_deps s) (set_add an_eqb LIV (ex_subs s)) s in
  fold_left (fun s i => visit (i, LIV) s) (rev (seq 0 (length P))) s.

(* the two load orders of solver.load(...) *)
Inductive load_order := DcaFirst | LivFirst.
Definition initialize (ord : load_order) : state :=
  match ord with
  | DcaFirst => liv_initialize (dca_initialize init0)
  | LivFirst => dca_initialize (liv_initialize init0)
  end.

Fixpoint remove_nth {A} (i : nat) (l : list A) : list A :=
  match l, i with
  | [], _ => []
  | _ :: r, O => r
  | x :: r, S j => x :: remove_nth j r
  end.

(* ---- while self._worklist: point, analysis = <pop any member>; analysis.visit(point) ----
   `choose k w` picks the member popped at step k from worklist w (index modulo length);
   the real deque.popleft() is `fun _ _ => 0`. *)
Fixpoint run (fuel : nat) (choose : nat -> list item -> nat) (k : nat) (s : state) : option state :=
  match wl s with
  | [] => Some s
  | it0 :: _ =>
    match fuel with
    | O => None
    | S f =>
      let i := Nat.modulo (choose k (wl s)) (length (wl s)) in
      run f choose (S k) (visit (nth i (wl s) it0) (set_wl (remove_nth i (wl s)) s))
    end
  end.

(* every op is enqueued at most once by Executable.on_update and once more per result that flips *)
Definition fuel_bound : nat := length P + length (flat_map results P).

(* DataFlowSolver.initialize_and_run *)
Definition solve (ord : load_order) (choose : nat -> list item -> nat) : option state :=
  run fuel_bound choose 0 (initialize ord).

End Program.
