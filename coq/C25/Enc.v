(* C25/Enc.v -- encoders of the solver model's observable results for the correspondence check
   (definitions only, evaluated by vm_compute in generated case files). *)
From Coq Require Import List Arith ZArith Bool.
From XV Require Import Base.Show C25.Model.
Import ListNotations.

Definition mk_op (res ops : list nat) (rem : bool) : op :=
  {| results := res; operands := ops; removable := rem |}.

Definition enc_an (a : analysis) : sx := I (match a with DCA => 0 | LIV => 1 end)%Z.
Definition enc_event (e : event) : sx :=
  match e with
  | EVisitTop a => L [I 0%Z; enc_an a]
  | EVisit a i => L [I 1%Z; enc_an a; sN i]
  | EEnq a i => L [I 2%Z; enc_an a; sN i]
  | EFlip v => L [I 3%Z; sN v]
  | EExec => L [I 4%Z]
  end.
Definition enc_item (it : item) : sx := L [sN (fst it); enc_an (snd it)].

(* 0 = no Liveness state, 1 = state exists and is dead, 2 = live *)
Definition lat_code (s : state) (v : nat) : Z :=
  if live s v then 2%Z else if created s v then 1%Z else 0%Z.

(* dependents of a lattice as a sorted list of [op index; analysis] *)
Definition enc_deps (n : nat) (l : list item) : sx :=
  L (map enc_item
       (filter (fun it => existsb (item_eqb it) l)
          (flat_map (fun i => [(i, DCA); (i, LIV)]) (seq 0 n)))).

Definition enc_state (n nv : nat) (s : state) : sx :=
  L [ L (map enc_event (rev (log s)));
      L (map (fun v => I (lat_code s v)) (seq 0 nv));
      L (map (fun v => enc_deps n (deps s v)) (seq 0 nv));
      L [sB (ex_created s); sB (ex_live s); enc_deps n (ex_deps s); L (map enc_an (ex_subs s))];
      L (map enc_item (wl s)) ].

(* pop policies: 0 = popleft (the real deque), 1 = pop from the right, 2 = explicit raw choices
   (binary numbers, so that case files stay small; used modulo the worklist length) *)
Definition choose_of (mode : nat) (l : list N) : nat -> list item -> nat :=
  match mode with
  | O => fun _ _ => O
  | S O => fun _ w => length w - 1
  | _ => fun k _ => N.to_nat (nth k l 0%N)
  end.

Definition enc_order (b : bool) : load_order := if b then DcaFirst else LivFirst.

(* one correspondence case: program, number of values, load order, pop policy *)
Definition c25_case (P : list op) (nv : nat) (dca_first : bool) (mode : nat) (l : list N) : sx :=
  match solve P (enc_order dca_first) (choose_of mode l) with
  | None => I (-3)%Z
  | Some s => enc_state (length P) nv s
  end.
