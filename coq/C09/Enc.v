(* C09/Enc.v -- the concrete class table used by the correspondence check (builtin classes plus
   five classes the harness defines with @irdl_attr_definition) and the encoders of model
   results into Base/Show.v `sx`.  No proofs. *)
From Coq Require Import List Arith ZArith Bool.
From XV Require Import Base.Show C09.Model.
Import ListNotations.

(* class ids (harness/props/c09.py has the same numbering and checks every field of this table
   against introspection of the real classes on every run, family "class-table"):
     0 Attribute  1 TypeAttribute  2 ParametrizedAttribute  3 IntAttr  4 StringAttr
     5 SignednessAttr  6 IndexType  7 Float32Type  8 UnitAttr  9 IntegerType  10 IntegerAttr
     11 Shape(abstract)  12 Circle(Shape)  13 Square(Shape)[side: IntAttr]  14 Box[T]
     15 Pair[A<=Shape, B<=IntAttr|StringAttr]  16 Data  17 Same[a, b: Var T] *)
Definition u_supers (k : nat) : list nat :=
  match k with
  | 0 => [0] | 1 => [1; 0] | 2 => [2; 0]
  | 3 => [3; 16; 0] | 4 => [4; 16; 0] | 5 => [5; 16; 0]
  | 6 => [6; 2; 1; 0] | 7 => [7; 2; 1; 0] | 8 => [8; 2; 0]
  | 9 => [9; 2; 1; 0] | 10 => [10; 2; 0]
  | 11 => [11; 2; 1; 0] | 12 => [12; 11; 2; 1; 0] | 13 => [13; 11; 2; 1; 0]
  | 14 => [14; 2; 0] | 15 => [15; 2; 0] | 16 => [16; 0] | 17 => [17; 2; 0]
  | _ => [k; 0]
  end.
Definition u_nclasses : nat := 18.
Definition u_final (k : nat) : bool :=
  match k with 0 | 1 | 2 | 11 | 16 => false | _ => Nat.ltb k u_nclasses end.
Definition u_isparam (k : nat) : bool := memn 2 (u_supers k).
Definition u_sub (k1 k2 : nat) : bool := memn k2 (u_supers k1).
Definition u_cdef (k : nat) : list constr :=
  match k with
  | 9 => [CBase 3; CTypeVar 1 (CBase 5)]   (* width: IntAttrConstraint(AnyInt) rendered as BaseAttr(IntAttr) *)
  | 10 => [CBase 3; CTypeVar 0 (CAnyOf [CBase 9; CBase 6])]
  | 13 => [CBase 3]
  | 14 => [CTypeVar 0 CAny]
  | 15 => [CTypeVar 0 (CBase 11); CTypeVar 1 (CAnyOf [CBase 3; CBase 4])]
  | 17 => [CVar 0 CAny; CVar 0 CAny]
  | _ => []
  end.
Definition u_ntv (k : nat) : nat :=
  match k with 9 => 2 | 10 => 1 | 14 => 1 | 15 => 2 | _ => 0 end.
(* verify() overrides: IntegerType (width >= 0) and IntegerAttr (value in the range of its type;
   widths >= 1 only -- the harness never generates width-0 integer types inside IntegerAttr) *)
Definition u_cverify (k : nat) (ps : list attr) : bool :=
  match k, ps with
  | 9, [Data _ w; _] => (0 <=? w)%Z
  | 10, [Data _ v; Par 9 [Data _ w; Data _ s]] =>
      let lo := if (s =? 2)%Z then 0%Z else (- 2 ^ (w - 1))%Z in
      let hi := if (s =? 1)%Z then (2 ^ (w - 1))%Z else (2 ^ w)%Z in
      ((lo <=? v) && (v <? hi))%Z
  | _, _ => true
  end.
Definition U : ctable :=
  {| final := u_final; isparam := u_isparam; sub := u_sub; cdef := u_cdef;
     cverify := u_cverify; ntv := u_ntv |}.

(* ---------------------------------------------------------------- generic sx ordering *)
(* python's list comparison on the encoded values: ints by value, lists lexicographically *)
Fixpoint sx_cmp (a b : sx) {struct a} : comparison :=
  match a, b with
  | I x, I y => Z.compare x y
  | I _, L _ => Lt
  | L _, I _ => Gt
  | L l, L l' =>
      (fix go (l l' : list sx) {struct l} : comparison :=
         match l, l' with
         | [], [] => Eq
         | [], _ :: _ => Lt
         | _ :: _, [] => Gt
         | x :: r, y :: r' => match sx_cmp x y with Eq => go r r' | o => o end
         end) l l'
  end.
Fixpoint sx_insert (a : sx) (l : list sx) : list sx :=
  match l with
  | [] => [a]
  | b :: r => match sx_cmp a b with
              | Lt => a :: l
              | Eq => l
              | Gt => b :: sx_insert a r
              end
  end.
Definition sx_sort (l : list sx) : list sx := fold_right sx_insert [] l.
Definition sSet (l : list sx) : sx := L (sx_sort l).

(* ---------------------------------------------------------------- encoders *)
Fixpoint enc_attr (a : attr) : sx :=
  match a with
  | Data k d => L [I 0; sN k; I d]
  | Par k ps => L [I 1; sN k; L (map enc_attr ps)]
  end.
Fixpoint enc_constr (c : constr) : sx :=
  match c with
  | CAny => L [I 0]
  | CBase k => L [I 1; sN k]
  | CEq a => L [I 2; enc_attr a]
  | CSet vs => L [I 3; sSet (map enc_attr vs)]
  | CAnyOf cs => L [I 4; L (map enc_constr cs)]
  | CAllOf cs => L [I 5; L (map enc_constr cs)]
  | CParam k cs => L [I 6; sN k; L (map enc_constr cs)]
  | CVar n c => L [I 7; sN n; enc_constr c]
  | CMsg m c => L [I 8; sN m; enc_constr c]
  | CTypeVar i c => L [I 9; sN i; enc_constr c]
  end.
Definition err_code (e : err) : Z :=
  match e with
  | EPyRDL => 12 | EValue => 3 | EVerify => 2 | EAssert => 6 | EKey => 4 | ETypeErr => 7
  | EFuel => -99 | EOther => 10
  end.
Definition enc_err (e : err) : sx := L [I (-1); I (err_code e)].
Definition enc_res {A} (f : A -> sx) (r : res A) : sx :=
  match r with Ok a => f a | Err e => enc_err e end.
Definition enc_ctx (x : ctx) : sx := sSet (map (fun p => L [sN (fst p); enc_attr (snd p)]) x).
Definition enc_verify (r : bool * ctx) : sx := L [sB (fst r); enc_ctx (snd r)].
Definition enc_nset (l : list nat) : sx := sSet (map sN l).
Definition enc_bases (o : option (list nat)) : sx :=
  match o with None => I (-1) | Some b => enc_nset b end.

(* one correspondence case: build the constraint through the constructors, then every observable *)
Definition c09_obs (c : constr) (a : attr) (x : ctx) (names : list nat) : sx :=
  L [ enc_constr c;
      enc_verify (verify U c a x);
      enc_bases (bases U c);
      enc_nset (variables c);
      sB (can_infer U c names);
      (if can_infer U c (cdom x) then
         match infer U c x with
         | Ok v => L [enc_attr v; sB (fst (verify U c v x))]
         | Err e => enc_err e
         end
       else L []) ].
Definition c09_case (e : cexp) (a : attr) (x : ctx) (names : list nat) : sx :=
  match build U e with
  | Err er => enc_err er
  | Ok c => c09_obs c a x names
  end.

(* hints *)
Definition c09_hint (h : hint) (a : attr) : sx :=
  L [ enc_res (fun c => L [enc_constr c; sB (verifies U c a)]) (hint_constr U h);
      enc_res sB (isa U a h) ].

(* ParametrizedAttribute.new on its own *)
Definition c09_new (k : nat) (ps : list attr) : sx := enc_res enc_attr (new_attr U k ps).

(* the class table itself, for comparison with python introspection *)
Definition c09_table : sx :=
  L (map (fun k => L [ sB (u_final k); sB (u_isparam k);
                       L (map (fun k2 => sB (u_sub k k2)) (seq 0 u_nclasses));
                       L (map enc_constr (u_cdef k)); sN (u_ntv k) ]) (seq 0 u_nclasses)).

(* unions: AnyOf.get( *alts ) or alts[0] | alts[1] | ..., then acceptance of whole and parts on probes *)
Definition c09_union (isget : bool) (es : list cexp) (probes : list attr) : sx :=
  match mapM (build U) es with
  | Err e => L [I (-2); I (err_code e)]
  | Ok alts =>
      let r := if isget then anyof_get U alts
               else match alts with
                    | [] => Err EOther
                    | a0 :: rest => fold_left (fun acc y => bind acc (fun c => c_or U c y)) rest (Ok a0)
                    end in
      match r with
      | Err e => enc_err e
      | Ok c => L [enc_constr c;
                   L (map (fun p => L [sB (verifies U c p); L (map (fun y => sB (verifies U y p)) alts)]) probes)]
      end
  end.
