(* C09/ProofsU.v -- the concrete class table of the correspondence check (C09/Enc.v, checked against
   python introspection on every run) satisfies the hypotheses of the theorems. *)
From Coq Require Import List Arith ZArith Bool Lia.
From XV Require Import Base.Show C09.Model C09.Proofs C09.ProofsGet C09.Enc.
Import ListNotations.

Lemma U_final_leaf : final_leaf U.
Proof.
  intros k k' Hf Hs. unfold U in *; simpl in *. unfold u_sub in Hs.
  do 18 (destruct k' as [|k'];
         [ simpl in Hs;
           repeat (apply orb_true_iff in Hs as [Hs|Hs];
                   [apply Nat.eqb_eq in Hs; subst; try discriminate Hf; try reflexivity|]);
           discriminate Hs |]).
  simpl in Hs.
  repeat (apply orb_true_iff in Hs as [Hs|Hs];
          [apply Nat.eqb_eq in Hs; subst; try discriminate Hf; try reflexivity|]).
  discriminate Hs.
Qed.

Lemma U_refl : forall k, sub U k k = true.
Proof.
  intros k. unfold U; simpl. unfold u_sub.
  do 18 (destruct k as [|k]; [reflexivity|]).
  simpl. rewrite Nat.eqb_refl. reflexivity.
Qed.

Lemma U_root : forall k, sub U k 0 = true.
Proof.
  intros k. unfold U; simpl. unfold u_sub.
  do 18 (destruct k as [|k]; [reflexivity|]).
  reflexivity.
Qed.

(* ---------------------------------------------------------------- witnesses *)
Definition i8 : attr := Par 9 [Data 3 8; Data 5 0].

(* without well-namedness verify can accept outside the denotation: the second occurrence of T0
   is only compared with the binding, its own inner constraint EqAttr(IntAttr 1) is never checked *)
Lemma illnamed_witness : exists c a x',
  constructible U c = true /\ verify_opt U c a [] = Some x' /\ forall s, ~ sat U s c a.
Proof.
  exists (CAllOf [CVar 0 (CBase 3); CVar 0 (CEq (Data 3 1))]), (Data 3 2), [(0, Data 3 2)].
  split; [reflexivity|]. split; [vm_compute; reflexivity|].
  intros s [_ [[_ H] _]]. discriminate H.
Qed.

(* AllOf.infer returns the attribute of its first inferable conjunct without looking at the others *)
Lemma infer_refuted_witness : exists c x v,
  constructible U c = true /\ can_infer U c (cdom x) = true /\
  infer U c x = Ok v /\ verify_opt U c v x = None.
Proof.
  exists (CAllOf [CEq (Data 3 1); CEq (Data 3 2)]), [], (Data 3 1).
  repeat split; vm_compute; reflexivity.
Qed.

(* ParamAttrConstraint.infer builds IntegerAttr(300 : i8), which the class rejects: infer raises *)
Lemma infer_raises_witness : exists c x,
  constructible U c = true /\ can_infer U c (cdom x) = true /\ infer U c x = Err EVerify.
Proof.
  exists (CParam 10 [CEq (Data 3 300); CEq i8]), []. repeat split; vm_compute; reflexivity.
Qed.

(* the hypotheses of the partial infer theorem are satisfiable with a variable taken from the context *)
Lemma infer_partial_witness : exists c x a,
  constructible U c = true /\ can_infer U c (cdom x) = true /\ valid_attr U a /\
  sat U (env_of x) c a /\ infer U c x = Ok a.
Proof.
  exists (CParam 10 [CVar 0 (CBase 3); CEq i8]), [(0, Data 3 5)], (Par 10 [Data 3 5; i8]).
  split; [reflexivity|]. split; [reflexivity|]. split; [|split]; cbv; repeat split; reflexivity.
Qed.

(* the parameter definitions of the generic classes (IntegerAttr, Box, Pair) use no variables *)
Lemma U_generic_cdef_good : forall k, ntv U k <> 0 -> forallP (good U) (cdef U k).
Proof.
  intros k. unfold U; simpl.
  do 18 (destruct k as [|k];
         [ simpl; intros Hn; try (exfalso; apply Hn; reflexivity);
           repeat split; vm_compute; reflexivity |]).
  simpl. intros Hn. constructor.
Qed.
