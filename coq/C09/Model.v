(* C09/Model.v -- executable model of xdsl/irdl/constraints.py (attribute constraints),
   the parts of xdsl/irdl/attributes.py it relies on (irdl_to_attr_constraint,
   ParamAttrDef.verify) and xdsl/utils/hints.py::isa.  Definitions only, no proofs.

   Python                                   model
   ---------------------------------------  -------------------------------------------
   Attribute (Data / ParametrizedAttribute) attr  = Data cls payload | Par cls params
   attribute classes                        nat ids + a class table `ctable`
   AttrConstraint subclasses                constr (CAny CBase CEq CSet CAnyOf CAllOf CParam
                                            CVar CMsg CTypeVar)
   ConstraintContext._variables             ctx = association list name -> attr
   verify(attr, ctx) raising VerifyExc.     verify : ... -> bool * ctx   (flag, context LEFT BEHIND;
                                            the python mutates the context in place, so a failing
                                            call still leaves its bindings)
   PyRDLError / ValueError / ...            res A = Ok a | Err code
   while-loop of AnyOf.get                  explicit fuel (EFuel on exhaustion)            *)
From Coq Require Import List Arith ZArith Bool.
Import ListNotations.

(* ------------------------------------------------------------------ results *)
Inductive err := EPyRDL | EValue | EVerify | EAssert | EKey | ETypeErr | EFuel | EOther.
Inductive res (A : Type) := Ok (a : A) | Err (e : err).
Arguments Ok {A} a.
Arguments Err {A} e.
Definition bind {A B} (r : res A) (f : A -> res B) : res B :=
  match r with Ok a => f a | Err e => Err e end.

(* ------------------------------------------------------------------ list helpers *)
(* The recursive functions below recurse through lists of sub-terms with these combinators (the
   guard checker sees through them); each mirrors a python for-loop / all() / any() / zip(). *)
Section Helpers.
Context {A B R S : Type}.
Section F2. Variable f : A -> B -> bool.
Fixpoint forall2b (l : list A) (l' : list B) {struct l} : bool :=
  match l, l' with
  | [], [] => true
  | x :: r, y :: r' => f x y && forall2b r r'
  | _, _ => false
  end.
End F2.
(* [f(x) for x in l], stopping at the first exception *)
Section MapM. Variable f : A -> res B.
Fixpoint mapM (l : list A) : res (list B) :=
  match l with
  | [] => Ok []
  | a :: r => bind (f a) (fun b => bind (mapM r) (fun bs => Ok (b :: bs)))
  end.
End MapM.
Section Pick. Variable sel : A -> bool. Variable f : A -> R.
(* dict lookup after `for c in l: if sel c: d[key] = c` -- the LAST selected element wins *)
Fixpoint pick_last (l : list A) : option R :=
  match l with
  | [] => None
  | c :: r => match pick_last r with
              | Some o => Some o
              | None => if sel c then Some (f c) else None
              end
  end.
(* first element satisfying sel, mapped *)
Fixpoint pick_first (l : list A) : option R :=
  match l with
  | [] => None
  | c :: r => if sel c then Some (f c) else pick_first r
  end.
End Pick.
(* threading a state through a loop that keeps going after failures (AllOf.verify) *)
Section TA. Variable f : A -> S -> bool * S.
Fixpoint thread_all (l : list A) (x : S) (ok : bool) : bool * S :=
  match l with
  | [] => (ok, x)
  | c :: r => let '(b, x') := f c x in thread_all r x' (ok && b)
  end.
End TA.
(* threading a state through a zipped loop that stops at the first failure *)
Section TZ. Variable f : A -> B -> S -> bool * S.
Fixpoint thread_zip (l : list A) (ps : list B) (x : S) : bool * S :=
  match l, ps with
  | c :: r, p :: q => let '(b, x') := f c p x in if b then thread_zip r q x' else (false, x')
  | _, _ => (true, x)
  end.
End TZ.
Section SM. Variable f : A -> nat.
Fixpoint sum_with (l : list A) : nat :=
  match l with [] => 0 | c :: r => f c + sum_with r end.
Fixpoint max_with (l : list A) : nat :=
  match l with [] => 0 | c :: r => Nat.max (f c) (max_with r) end.
End SM.
(* any(f(h) for h in l): left to right, stops at the first True or exception *)
Section AnyRes. Variable f : A -> res bool.
Fixpoint any_res (l : list A) : res bool :=
  match l with
  | [] => Ok false
  | h :: r => bind (f h) (fun b => if b then Ok true else any_res r)
  end.
End AnyRes.
End Helpers.
Arguments forall2b {A B} f l l'.
Arguments mapM {A B} f l.
Arguments pick_last {A R} sel f l.
Arguments pick_first {A R} sel f l.
Arguments thread_all {A S} f l x ok.
Arguments thread_zip {A B S} f l ps x.
Arguments sum_with {A} f l.
Arguments max_with {A} f l.
Arguments any_res {A} f l.

(* ------------------------------------------------------------------ attributes *)
Inductive attr := Data (k : nat) (d : Z) | Par (k : nat) (ps : list attr).

Definition cls (a : attr) : nat := match a with Data k _ => k | Par k _ => k end.

(* dataclass equality of attributes: same class and equal payload / equal parameters *)
Fixpoint attr_eqb (a b : attr) {struct a} : bool :=
  match a, b with
  | Data k d, Data k' d' => Nat.eqb k k' && Z.eqb d d'
  | Par k ps, Par k' ps' => Nat.eqb k k' && forall2b (fun x y => attr_eqb x y) ps ps'
  | _, _ => false
  end.

Definition mem_attr (a : attr) (vs : list attr) : bool := existsb (attr_eqb a) vs.
Definition memn (k : nat) (l : list nat) : bool := existsb (Nat.eqb k) l.
Fixpoint dedup_attr (vs : list attr) : list attr :=
  match vs with
  | [] => []
  | v :: r => if mem_attr v r then dedup_attr r else v :: dedup_attr r
  end.

(* ------------------------------------------------------------------ constraints *)
Inductive constr :=
| CAny                                   (* AnyAttr() *)
| CBase (k : nat)                        (* BaseAttr(cls) *)
| CEq (a : attr)                         (* EqAttrConstraint(attr) *)
| CSet (vs : list attr)                  (* AttrSetConstraint(frozenset) *)
| CAnyOf (cs : list constr)              (* AnyOf(attr_constrs) -- derived fields recomputed *)
| CAllOf (cs : list constr)              (* AllOf(attr_constrs) *)
| CParam (k : nat) (cs : list constr)    (* ParamAttrConstraint(base_attr, param_constrs) *)
| CVar (n : nat) (c : constr)            (* VarConstraint(name, constraint) *)
| CMsg (m : nat) (c : constr)            (* MessageConstraint(constr, message) *)
| CTypeVar (i : nat) (c : constr).       (* TypeVarConstraint(type_var, base_constraint) *)

(* dataclass equality of constraints (`self == other`): structural; frozensets compare as sets *)
Fixpoint ceqb (c1 c2 : constr) {struct c1} : bool :=
  match c1, c2 with
  | CAny, CAny => true
  | CBase k, CBase k' => Nat.eqb k k'
  | CEq a, CEq b => attr_eqb a b
  | CSet vs, CSet ws => forallb (fun v => mem_attr v ws) vs && forallb (fun w => mem_attr w vs) ws
  | CAnyOf cs, CAnyOf ds => forall2b (fun x y => ceqb x y) cs ds
  | CAllOf cs, CAllOf ds => forall2b (fun x y => ceqb x y) cs ds
  | CParam k cs, CParam k' ds => Nat.eqb k k' && forall2b (fun x y => ceqb x y) cs ds
  | CVar n c, CVar n' c' => Nat.eqb n n' && ceqb c c'
  | CMsg m c, CMsg m' c' => Nat.eqb m m' && ceqb c c'
  | CTypeVar i c, CTypeVar i' c' => Nat.eqb i i' && ceqb c c'
  | _, _ => false
  end.

Definition is_any (c : constr) : bool := match c with CAny => true | _ => false end.
Definition is_eq (c : constr) : bool := match c with CEq _ => true | _ => false end.

(* ------------------------------------------------------------------ contexts *)
Definition ctx := list (nat * attr).
Fixpoint cget (x : ctx) (n : nat) : option attr :=
  match x with
  | [] => None
  | (m, v) :: r => if Nat.eqb m n then Some v else cget r n
  end.
(* dict item assignment: overwrite in place, or append *)
Fixpoint cset (x : ctx) (n : nat) (a : attr) : ctx :=
  match x with
  | [] => [(n, a)]
  | (m, v) :: r => if Nat.eqb m n then (m, a) :: r else (m, v) :: cset r n a
  end.
Definition cdom (x : ctx) : list nat := map fst x.

(* ------------------------------------------------------------------ class table *)
(* What the model needs to know about the python attribute classes. *)
Record ctable := {
  final : nat -> bool;            (* is_runtime_final(cls) *)
  isparam : nat -> bool;          (* issubclass(cls, ParametrizedAttribute) *)
  sub : nat -> nat -> bool;       (* issubclass(k1, k2) *)
  cdef : nat -> list constr;      (* cls.get_irdl_definition().parameters (their .constr) *)
  cverify : nat -> list attr -> bool;  (* the class's own verify() override (True = passes) *)
  ntv : nat -> nat                (* number of TypeVars of the class's Generic[...] parent *)
}.

Section WithTable.
Variable T : ctable.

(* isinstance(attr, cls) *)
Definition inst (a : attr) (k : nat) : bool := sub T (cls a) k.

(* ------------------------------------------------------------------ get_bases *)
Definition inter (b0 b : list nat) : list nat := filter (fun k => memn k b) b0.

Section BasesLoops. Variable f : constr -> option (list nat).
(* AnyOf.get_bases: union of the alternatives' bases, None as soon as one has none *)
Fixpoint bases_union (l : list constr) : option (list nat) :=
  match l with
  | [] => Some []
  | c :: r => match f c with
              | None => None
              | Some b => match bases_union r with None => None | Some b' => Some (b ++ b') end
              end
  end.
(* AllOf.get_bases: intersection of the bases that exist *)
Fixpoint bases_inter (l : list constr) (acc : option (list nat)) : option (list nat) :=
  match l with
  | [] => acc
  | c :: r => match f c with
              | None => bases_inter r acc
              | Some b => bases_inter r (match acc with None => Some b | Some b0 => Some (inter b0 b) end)
              end
  end.
End BasesLoops.

Fixpoint bases (c : constr) : option (list nat) :=
  match c with
  | CAny => None
  | CBase k => if final T k then Some [k] else None
  | CEq a => Some [cls a]
  | CSet vs => Some (map cls vs)
  | CAnyOf cs => bases_union (fun c => bases c) cs
  | CAllOf cs => bases_inter (fun c => bases c) cs None
  | CParam k _ => if final T k then Some [k] else None
  | CVar _ c => bases c
  | CMsg _ c => bases c
  | CTypeVar _ c => bases c
  end.

(* ------------------------------------------------------------------ AnyOf.__init__ *)
Definition is_abstract_base (c : constr) : bool :=
  match c with CBase k => negb (final T k) | _ => false end.

(* the `for i, c in enumerate(attr_constrs)` loop; keys = based_constrs.keys() *)
Fixpoint anyof_scan (cs : list constr) (keys : list nat) (abstr : option constr)
  : res (list nat * option constr) :=
  match cs with
  | [] => Ok (keys, abstr)
  | c :: r =>
      match bases c with
      | None =>
          match abstr with
          | Some _ => Err EPyRDL
          | None => if is_abstract_base c then anyof_scan r keys (Some c) else Err EPyRDL
          end
      | Some b =>
          if existsb (fun k => memn k keys) b then Err EPyRDL
          else anyof_scan r (keys ++ b) abstr
      end
  end.

Definition anyof_init (cs : list constr) : res unit :=
  match anyof_scan cs [] None with
  | Err e => Err e
  | Ok (keys, abstr) =>
      match abstr with
      | Some (CBase k) => if existsb (fun b => sub T b k) keys then Err EPyRDL else Ok tt
      | _ => Ok tt
      end
  end.

(* AnyOf(tuple) through its constructor *)
Definition mk_anyof (cs : list constr) : res constr :=
  bind (anyof_init cs) (fun _ => Ok (CAnyOf cs)).

Definition has_bases (c : constr) : bool := match bases c with Some _ => true | None => false end.
(* _abstr_constr : the alternative without bases (unique when construction succeeded) *)
Definition find_abstract (cs : list constr) : option constr :=
  pick_first (fun c => negb (has_bases c)) (fun c => c) cs.

(* every AnyOf node of the tree passed its constructor checks *)
Fixpoint constructible (c : constr) : bool :=
  match c with
  | CAnyOf cs => forallb (fun c => constructible c) cs
                 && match anyof_init cs with Ok _ => true | Err _ => false end
  | CAllOf cs => forallb (fun c => constructible c) cs
  | CParam _ cs => forallb (fun c => constructible c) cs
  | CVar _ c => constructible c
  | CMsg _ c => constructible c
  | CTypeVar _ c => constructible c
  | _ => true
  end.

(* ------------------------------------------------------------------ verify *)
(* `_based_constrs.get(attr.__class__)`: does alternative c own the class of a ? *)
Definition owns (a : attr) (c : constr) : bool :=
  match bases c with Some b => memn (cls a) b | None => false end.

(* Returns (accepted?, context left behind).  AnyOf dispatches on the exact class of the
   attribute through `_based_constrs` (a dict filled in order: the LAST alternative owning a
   base wins; the constructor guarantees there is at most one) and falls back to the abstract
   alternative.  AllOf keeps going after a failure (exceptions are collected), Param stops at
   the first failing parameter. *)
Fixpoint verify (c : constr) (a : attr) (x : ctx) {struct c} : bool * ctx :=
  match c with
  | CAny => (true, x)
  | CBase k => (inst a k, x)
  | CEq b => (attr_eqb a b, x)
  | CSet vs => (mem_attr a vs, x)
  | CAnyOf cs =>
      match pick_last (owns a) (fun c => verify c a x) cs with
      | Some o => o
      | None => match find_abstract cs with
                | Some (CBase k) => (inst a k, x)
                | _ => (false, x)
                end
      end
  | CAllOf cs => thread_all (fun c x => verify c a x) cs x true
  | CParam k cs =>
      if negb (inst a k) then (false, x)
      else match a with
           | Data _ _ => (false, x)  (* a Data attribute is never an instance of a parametrized class *)
           | Par _ ps =>
               if negb (Nat.eqb (length cs) (length ps)) then (false, x)
               else thread_zip (fun c p x => verify c p x) cs ps x
           end
  | CVar n c' =>
      match cget x n with
      | Some v => (attr_eqb a v, x)
      | None => let '(b, x') := verify c' a x in
                if b then (true, cset x' n a) else (false, x')
      end
  | CMsg _ c' => verify c' a x
  | CTypeVar _ c' => verify c' a x
  end.

(* the interface asked for by the design: Some final-context on success, None on VerifyException *)
Definition verify_opt (c : constr) (a : attr) (x : ctx) : option ctx :=
  let '(b, x') := verify c a x in if b then Some x' else None.
(* AttrConstraint.verifies *)
Definition verifies (c : constr) (a : attr) : bool := fst (verify c a []).

(* ------------------------------------------------------------------ variables() *)
Definition intern (l1 l2 : list nat) : list nat := filter (fun n => memn n l2) l1.
Fixpoint variables (c : constr) : list nat :=
  match c with
  | CVar n c' => variables c' ++ [n]
  | CAnyOf cs =>
      match cs with
      | [] => []
      | c0 :: r => fold_left (fun acc c => intern acc (variables c)) r (variables c0)
      end
  | CAllOf cs => flat_map (fun c => variables c) cs
  | CParam _ cs => flat_map (fun c => variables c) cs
  | CMsg _ c' => variables c'
  | _ => []     (* default; TypeVarConstraint does not override variables() *)
  end.

(* ------------------------------------------------------------------ ParametrizedAttribute.new *)
(* ParamAttrDef.verify: one fresh context threaded through the parameter constraints *)
Definition def_verify (cs : list constr) (ps : list attr) (x : ctx) : bool :=
  fst (thread_zip verify cs ps x).

(* zip(strict=True) -> ValueError; __post_init__ -> _verify: definition constraints, then verify() *)
Definition new_attr (k : nat) (ps : list attr) : res attr :=
  if negb (Nat.eqb (length (cdef T k)) (length ps)) then Err EValue
  else if negb (def_verify (cdef T k) ps []) then Err EVerify
  else if negb (cverify T k ps) then Err EVerify
  else Ok (Par k ps).

(* ------------------------------------------------------------------ can_infer / infer *)
Fixpoint can_infer (c : constr) (names : list nat) : bool :=
  match c with
  | CBase k => final T k && isparam T k && Nat.eqb (length (cdef T k)) 0
  | CEq _ => true
  | CAllOf cs => existsb (fun c => can_infer c names) cs
  | CParam k cs => final T k && forallb (fun c => can_infer c names) cs
  | CVar n c' => memn n names || can_infer c' names
  | CMsg _ c' => can_infer c' names
  | _ => false
  end.

Fixpoint infer (c : constr) (x : ctx) : res attr :=
  match c with
  | CEq a => Ok a
  | CBase k =>
      if negb (isparam T k) then Err EAssert        (* assert issubclass(..., ParametrizedAttribute) *)
      else if negb (final T k) then Err EOther      (* abstract class: no IRDL definition (not compared) *)
      else new_attr k []
  | CVar n c' => match cget x n with Some v => Ok v | None => infer c' x end
  | CAllOf cs =>
      match pick_first (fun c => can_infer c (cdom x)) (fun c => infer c x) cs with
      | Some r => r
      | None => Err EValue
      end
  | CParam k cs => bind (mapM (fun c => infer c x) cs) (fun ps => new_attr k ps)
  | CMsg _ c' => infer c' x
  | _ => Err EValue
  end.

(* ------------------------------------------------------------------ smart constructors *)
(* AttrSetConstraint.get( *values ): values[0] is the first argument *)
Definition attrset_get (vs : list attr) : constr :=
  match vs with
  | [] => CSet []
  | v0 :: _ => if Nat.eqb (length (dedup_attr vs)) 1 then CEq v0 else CSet vs
  end.

(* ParamAttrConstraint.get(base, *constrs) (arguments already converted to constraints) *)
Definition eq_attr_of (c : constr) : attr := match c with CEq a => a | _ => Data 0 0 end.
Definition param_get (k : nat) (cs : list constr) : res constr :=
  if final T k && forallb is_eq cs then
    bind (new_attr k (map eq_attr_of cs)) (fun a => Ok (CEq a))
  else if forallb is_any cs then Ok (CBase k)
  else Ok (CParam k cs).

(* c2.relax_constraint(c), parametric in the `x | y` used for the differing parameter *)
Section Relax.
Variable orf : constr -> constr -> res constr.

Definition relax_default (c2 c : constr) : res (option constr) :=
  Ok (if ceqb c2 c then Some c2 else None).

(* the zip(strict=True) loop of ParamAttrConstraint.relax_constraint *)
Fixpoint relax_params (xs ys : list constr) (seen : bool) (acc : list constr)
  : res (option (list constr)) :=
  match xs, ys with
  | [], [] => Ok (Some (rev acc))
  | x :: xr, y :: yr =>
      if ceqb x y then relax_params xr yr seen (x :: acc)
      else if seen then Ok None
      else bind (orf x y) (fun v => relax_params xr yr true (v :: acc))
  | _, _ => Err EValue
  end.

Definition relax_param (k : nat) (xs : list constr) (c : constr) : res (option constr) :=
  match c with
  | CBase k' => Ok (if Nat.eqb k k' then Some c else None)
  | CParam k' ys =>
      if negb (Nat.eqb k k') then Ok None
      else bind (relax_params xs ys false [])
                (fun o => Ok (match o with Some ps => Some (CParam k ps) | None => None end))
  | _ => Ok None
  end.

Definition relax (c2 c : constr) : res (option constr) :=
  match c2 with
  | CEq a =>
      match c with
      | CSet ws => Ok (Some (attrset_get (a :: ws)))
      | CEq b => Ok (Some (attrset_get [a; b]))
      | _ => Ok None
      end
  | CSet vs =>
      match c with
      | CSet ws => Ok (Some (attrset_get (vs ++ ws)))
      | CEq b => Ok (Some (attrset_get (vs ++ [b])))
      | _ => Ok None
      end
  | CBase _ =>
      match c with
      | CBase _ => relax_default c2 c
      | CEq _ | CSet _ => Ok None                    (* other.relax_constraint(self) *)
      | CParam k ys => relax_param k ys c2
      | _ => relax_default c c2
      end
  | CParam k xs => relax_param k xs c
  | _ => relax_default c2 c
  end.

(* `for k, c2 in enumerate(constrs[:i])`: first position whose relaxation succeeds *)
Fixpoint merge_into (done : list constr) (c : constr) : res (option (list constr)) :=
  match done with
  | [] => Ok None
  | c2 :: r =>
      bind (relax c2 c) (fun o =>
        match o with
        | Some v => Ok (Some (v :: r))
        | None => bind (merge_into r c) (fun o' =>
                    Ok (match o' with Some r' => Some (c2 :: r') | None => None end))
        end)
  end.

(* the while loop of AnyOf.get: done = constrs[:i], todo = constrs[i:] *)
Fixpoint get_loop (lf : nat) (done todo : list constr) : res constr :=
  match lf with
  | O => Err EFuel
  | S lf' =>
      match todo with
      | [] => match done with [c] => Ok c | _ => mk_anyof done end
      | c :: rest =>
          if is_any c then Ok CAny
          else match c with
               | CAnyOf cs' => get_loop lf' done (cs' ++ rest)
               | _ => bind (merge_into done c) (fun o =>
                        match o with
                        | Some done' => get_loop lf' done' rest
                        | None => get_loop lf' (done ++ [c]) rest
                        end)
               end
      end
  end.
End Relax.

Fixpoint csize (c : constr) : nat :=
  match c with
  | CAnyOf cs => S (sum_with (fun c => csize c) cs)
  | CAllOf cs => S (sum_with (fun c => csize c) cs)
  | CParam _ cs => S (sum_with (fun c => csize c) cs)
  | CVar _ c => S (csize c)
  | CMsg _ c => S (csize c)
  | CTypeVar _ c => S (csize c)
  | _ => 1
  end.
Definition lsize (cs : list constr) : nat := sum_with csize cs.

(* nesting depth of ParamAttrConstraint reachable through relax_constraint (AnyOf is flattened) *)
Fixpoint pdepth (c : constr) : nat :=
  match c with
  | CParam _ cs => S (max_with (fun c => pdepth c) cs)
  | CAnyOf cs => max_with (fun c => pdepth c) cs
  | _ => 0
  end.
Definition lpdepth (cs : list constr) : nat := max_with (fun c => pdepth c) cs.

(* AttrConstraint.__or__ given AnyOf.get *)
Definition or_with (getf : list constr -> res constr) (x y : constr) : res constr :=
  if is_any y || ceqb x y then Ok y else getf [x; y].

(* AnyOf.get( *constrs ) with depth fuel d (one unit per nested `x | y`) *)
Fixpoint anyof_get_d (d : nat) (cs : list constr) : res constr :=
  match d with
  | O => Err EFuel
  | S d' => get_loop (or_with (anyof_get_d d')) (S (lsize cs)) [] cs
  end.
Definition anyof_get (cs : list constr) : res constr := anyof_get_d (S (lpdepth cs)) cs.

Definition c_or (x y : constr) : res constr := or_with anyof_get x y.
(* __and__: AnyAttr returns value; AllOf appends; default *)
Definition c_and (x y : constr) : constr :=
  match x with
  | CAny => y
  | CAllOf cs => CAllOf (cs ++ [y])
  | _ => if is_any y || ceqb x y then x else CAllOf [x; y]
  end.

(* ------------------------------------------------------------------ constructor expressions *)
(* What a client writes; `build` runs the public constructors. *)
Inductive cexp :=
| XAny | XBase (k : nat) | XEq (a : attr)
| XSetGet (vs : list attr)                 (* AttrSetConstraint.get( *vs ) *)
| XSet (vs : list attr)                    (* AttrSetConstraint(frozenset(vs)) *)
| XAnyOf (es : list cexp)                  (* AnyOf((...)) *)
| XAnyOfGet (es : list cexp)               (* AnyOf.get(...) *)
| XOr (e1 e2 : cexp) | XAnd (e1 e2 : cexp)
| XAllOf (es : list cexp)                  (* AllOf((...)) *)
| XParam (k : nat) (es : list cexp)        (* ParamAttrConstraint(k, (...)) *)
| XParamGet (k : nat) (es : list cexp)     (* ParamAttrConstraint.get(k, ...) *)
| XVar (n : nat) (e : cexp) | XMsg (m : nat) (e : cexp)
| XCls (k : nat)                           (* a class coerced by irdl_to_attr_constraint *)
| XTypeVar (i : nat) (e : cexp).           (* TypeVarConstraint(tv_i, e) *)

Fixpoint build (e : cexp) : res constr :=
  match e with
  | XAny => Ok CAny
  | XBase k => Ok (CBase k)
  | XEq a => Ok (CEq a)
  | XSetGet vs => Ok (attrset_get vs)
  | XSet vs => Ok (CSet vs)
  | XAnyOf es => bind (mapM (fun e => build e) es) mk_anyof
  | XAnyOfGet es => bind (mapM (fun e => build e) es) anyof_get
  | XOr e1 e2 => bind (build e1) (fun c1 => bind (build e2) (fun c2 => c_or c1 c2))
  | XAnd e1 e2 => bind (build e1) (fun c1 => bind (build e2) (fun c2 => Ok (c_and c1 c2)))
  | XAllOf es => bind (mapM (fun e => build e) es) (fun cs => Ok (CAllOf cs))
  | XParam k es => bind (mapM (fun e => build e) es) (fun cs => Ok (CParam k cs))
  | XParamGet k es => bind (mapM (fun e => build e) es) (param_get k)
  | XVar n e => bind (build e) (fun c => Ok (CVar n c))
  | XMsg m e => bind (build e) (fun c => Ok (CMsg m c))
  | XCls k => Ok (if Nat.eqb k 0 then CAny else CBase k)   (* class 0 is `Attribute` *)
  | XTypeVar i e => bind (build e) (fun c => Ok (CTypeVar i c))
  end.

(* ------------------------------------------------------------------ type hints *)
(* mapping_type_vars(type_var_mapping) *)
Fixpoint map_tv (m : list constr) (c : constr) : res constr :=
  match c with
  | CTypeVar i _ => match nth_error m i with Some v => Ok v | None => Err EKey end
  | CAnyOf cs => bind (mapM (fun c => map_tv m c) cs) anyof_get
  | CAllOf cs => bind (mapM (fun c => map_tv m c) cs) (fun vs => Ok (CAllOf vs))
  | CParam k cs => bind (mapM (fun c => map_tv m c) cs) (param_get k)
  | CVar n c' => bind (map_tv m c') (fun v => Ok (CVar n v))
  | CMsg s c' => bind (map_tv m c') (fun v => Ok (CMsg s v))
  | _ => Ok c
  end.

Inductive hint :=
| HCls (k : nat)                          (* an attribute class (class 0 = Attribute) *)
| HUnion (hs : list hint)                 (* A | B | ... *)
| HGen (k : nat) (args : list hint)       (* Generic parametrized attribute class K[args] *)
| HAnnot (h : hint) (cs : list constr).   (* Annotated[h, c1, ...] *)

(* irdl_to_attr_constraint(hint) *)
Fixpoint hint_constr (h : hint) : res constr :=
  match h with
  | HCls k => Ok (if Nat.eqb k 0 then CAny else CBase k)
  | HUnion hs => bind (mapM (fun h => hint_constr h) hs) anyof_get
  | HGen k args =>
      if negb (Nat.eqb (length args) (ntv T k)) then Err ETypeErr   (* PyRDLTypeError *)
      else bind (mapM (fun h => hint_constr h) args) (fun m => map_tv m (CParam k (cdef T k)))
  | HAnnot h cs =>
      bind (hint_constr h) (fun c =>
        match cs with
        | [] => Ok c
        | _ => Ok (CAllOf (c :: cs))
        end)
  end.

(* isa(attr, hint) *)
Fixpoint isa (a : attr) (h : hint) : res bool :=
  match h with
  | HCls k => Ok (inst a k)
  | HUnion hs => any_res (fun h => isa a h) hs
  | HGen _ _ => bind (hint_constr h) (fun c => Ok (verifies c a))
  | HAnnot _ _ => Err EValue     (* "isa: unsupported type hint" *)
  end.

End WithTable.
